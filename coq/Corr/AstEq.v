(* Structural equality of trees, ranges included. *)
From NS Require Export Check.

Definition op_eqb (a b : infix_op) : bool :=
  match a, b with OpPlus, OpPlus | OpMinus, OpMinus => true | OpOther x, OpOther y => String.eqb x y | _, _ => false end.

Fixpoint expr_eqb (a b : expr) : bool :=
  match a, b with
  | ENil, ENil | ENilMonetary, ENilMonetary | ENilRatio, ENilRatio => true
  | EVar r1 n1, EVar r2 n2 | EAsset r1 n1, EAsset r2 n2 | EString r1 n1, EString r2 n2 | EAccount r1 n1, EAccount r2 n2 => range_eqb r1 r2 && String.eqb n1 n2
  | ENumber r1 n1, ENumber r2 n2 => range_eqb r1 r2 && (n1 =? n2)
  | EMonetary r1 a1 b1, EMonetary r2 a2 b2 => range_eqb r1 r2 && expr_eqb a1 a2 && expr_eqb b1 b2
  (* portions are compared by value: 50% is 50/100 in the tree and may be 1/2 in the generator's *)
  | ERatio r1 n1 d1, ERatio r2 n2 d2 => range_eqb r1 r2 && (n1 * d2 =? n2 * d1) && Bool.eqb (d1 =? 0) (d2 =? 0)
  | EInfix r1 o1 l1 x1, EInfix r2 o2 l2 x2 => range_eqb r1 r2 && op_eqb o1 o2 && expr_eqb l1 l2 && expr_eqb x1 x2
  | _, _ => false
  end.

Definition allot_eqb (a b : allot) : bool :=
  match a, b with
  | ANil, ANil | ANilRatio, ANilRatio => true
  | ARatio r1 n1 d1, ARatio r2 n2 d2 => range_eqb r1 r2 && (n1 * d2 =? n2 * d1) && Bool.eqb (d1 =? 0) (d2 =? 0)
  | AVar r1 n1, AVar r2 n2 => range_eqb r1 r2 && String.eqb n1 n2
  | ARemaining r1, ARemaining r2 => range_eqb r1 r2
  | _, _ => false
  end.

Definition opt_eqb {A} (eqb : A -> A -> bool) (a b : option A) : bool :=
  match a, b with Some x, Some y => eqb x y | None, None => true | _, _ => false end.

Fixpoint source_eqb (a b : source) {struct a} : bool :=
  match a, b with
  | SNil, SNil => true
  | SAccount e1, SAccount e2 => expr_eqb e1 e2
  | SInorder r1 l1, SInorder r2 l2 =>
      range_eqb r1 r2 &&
      (fix go (l1 l2 : list source) : bool :=
         match l1, l2 with [], [] => true | x :: l1', y :: l2' => source_eqb x y && go l1' l2' | _, _ => false end) l1 l2
  | SAllot r1 i1, SAllot r2 i2 =>
      range_eqb r1 r2 &&
      (fix go (l1 l2 : list (range * allot * source)) : bool :=
         match l1, l2 with
         | [], [] => true
         | (ra, aa, sa) :: l1', (rb, ab, sb) :: l2' => range_eqb ra rb && allot_eqb aa ab && source_eqb sa sb && go l1' l2'
         | _, _ => false
         end) i1 i2
  | SCapped r1 f1 c1, SCapped r2 f2 c2 => range_eqb r1 r2 && source_eqb f1 f2 && expr_eqb c1 c2
  | SOverdraft r1 a1 b1, SOverdraft r2 a2 b2 => range_eqb r1 r2 && expr_eqb a1 a2 && opt_eqb expr_eqb b1 b2
  | _, _ => false
  end.

Fixpoint dest_eqb (a b : dest) {struct a} : bool :=
  match a, b with
  | DNil, DNil => true
  | DAccount e1, DAccount e2 => expr_eqb e1 e2
  | DInorder r1 c1 k1, DInorder r2 c2 k2 =>
      range_eqb r1 r2 &&
      (fix go (l1 l2 : list (range * expr * kod)) : bool :=
         match l1, l2 with
         | [], [] => true
         | (ra, ea, ka) :: l1', (rb, eb, kb) :: l2' => range_eqb ra rb && expr_eqb ea eb && kod_eqb ka kb && go l1' l2'
         | _, _ => false
         end) c1 c2 && kod_eqb k1 k2
  | DAllot r1 i1, DAllot r2 i2 =>
      range_eqb r1 r2 &&
      (fix go (l1 l2 : list (range * allot * kod)) : bool :=
         match l1, l2 with
         | [], [] => true
         | (ra, aa, ka) :: l1', (rb, ab, kb) :: l2' => range_eqb ra rb && allot_eqb aa ab && kod_eqb ka kb && go l1' l2'
         | _, _ => false
         end) i1 i2
  | _, _ => false
  end
with kod_eqb (a b : kod) {struct a} : bool :=
  match a, b with
  | KNil, KNil => true
  | KKept r1, KKept r2 => range_eqb r1 r2
  | KTo d1, KTo d2 => dest_eqb d1 d2
  | _, _ => false
  end.

Definition sent_eqb (a b : sent) : bool :=
  match a, b with
  | SVNil, SVNil => true
  | SVLit r1 e1, SVLit r2 e2 | SVAll r1 e1, SVAll r2 e2 => range_eqb r1 r2 && expr_eqb e1 e2
  | _, _ => false
  end.

Fixpoint exprs_eqb (l1 l2 : list expr) : bool :=
  match l1, l2 with [], [] => true | x :: l1', y :: l2' => expr_eqb x y && exprs_eqb l1' l2' | _, _ => false end.

Definition fncall_eqb (a b : fncall) : bool :=
  range_eqb (fc_range a) (fc_range b) && range_eqb (fc_caller_range a) (fc_caller_range b)
  && String.eqb (fc_caller a) (fc_caller b) && exprs_eqb (fc_args a) (fc_args b).

Definition stmt_eqb (a b : stmt) : bool :=
  match a, b with
  | StNil, StNil | StNilFnCall, StNilFnCall => true
  | StFnCall f1, StFnCall f2 => fncall_eqb f1 f2
  | StSend r1 v1 s1 d1, StSend r2 v2 s2 d2 => range_eqb r1 r2 && sent_eqb v1 v2 && source_eqb s1 s2 && dest_eqb d1 d2
  | StSave r1 v1 e1, StSave r2 v2 e2 => range_eqb r1 r2 && sent_eqb v1 v2 && expr_eqb e1 e2
  | _, _ => false
  end.

Definition rs_eqb (a b : range * string) : bool := range_eqb (fst a) (fst b) && String.eqb (snd a) (snd b).

Definition vardecl_eqb (a b : vardecl) : bool :=
  range_eqb (vd_range a) (vd_range b) && opt_eqb rs_eqb (vd_name a) (vd_name b)
  && opt_eqb rs_eqb (vd_type a) (vd_type b) && opt_eqb fncall_eqb (vd_origin a) (vd_origin b).

Fixpoint list_eqb' {A} (eqb : A -> A -> bool) (l1 l2 : list A) : bool :=
  match l1, l2 with [], [] => true | x :: l1', y :: l2' => eqb x y && list_eqb' eqb l1' l2' | _, _ => false end.

Definition program_eqb (a b : program) : bool :=
  list_eqb' vardecl_eqb (p_vars a) (p_vars b) && list_eqb' stmt_eqb (p_stmts a) (p_stmts b).
