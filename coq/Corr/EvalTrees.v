(* Glue: evaluate the expressions of a source / destination tree under an environment, giving
   the evaluated trees the specifications (Spec/Greedy, Spec/Distribution) talk about. *)
From NS Require Export Observe.
From NS Require Export Ledger Shares Distribution Greedy.

Definition ok_opt {A} (m : res A) : option A := match m with Ok a => Some a | _ => None end.

Definition clause_of (vs : env) (a : allot) : option clause :=
  match a with
  | ARatio _ n (Zpos d) => Some (Some (n # d))
  | AVar r name => match ok_opt (eval_as vs (EVar r name) expect_portion) with Some q => Some (Some q) | None => None end
  | ARemaining _ => Some None
  | _ => None
  end.

Fixpoint eval_esrc (vs : env) (asset : string) (s : source) {struct s} : option esrc :=
  match s with
  | SNil => None
  | SAccount e =>
      match ok_opt (eval_as vs e expect_account) with
      | Some a => Some (ESAccount a (if String.eqb a WORLD then None else Some 0))
      | None => None
      end
  | SOverdraft _ addr b =>
      match ok_opt (eval_as vs addr expect_account) with
      | Some a =>
          match b with
          | None => Some (ESAccount a None)
          | Some be =>
              match ok_opt (eval_as vs be (expect_monetary_of_asset asset)) with
              | Some cap => Some (ESAccount a (if String.eqb a WORLD then None else Some cap))
              | None => None
              end
          end
      | None => None
      end
  | SInorder _ l =>
      match (fix go (l : list source) : option (list esrc) :=
               match l with
               | [] => Some []
               | x :: l' => match eval_esrc vs asset x, go l' with Some a, Some b => Some (a :: b) | _, _ => None end
               end) l with
      | Some l' => Some (ESInorder l')
      | None => None
      end
  | SAllot _ items =>
      match (fix go (l : list (range * allot * source)) : option (list (clause * esrc)) :=
               match l with
               | [] => Some []
               | (_, a, x) :: l' =>
                   match clause_of vs a, eval_esrc vs asset x, go l' with
                   | Some c, Some e, Some b => Some ((c, e) :: b)
                   | _, _, _ => None
                   end
               end) items with
      | Some l' => Some (ESAllot l')
      | None => None
      end
  | SCapped _ from cap =>
      match ok_opt (eval_as vs cap (expect_monetary_of_asset asset)), eval_esrc vs asset from with
      | Some c, Some f => Some (ESCapped c f)
      | _, _ => None
      end
  end.

Fixpoint eval_edest (vs : env) (asset : string) (d : dest) {struct d} : option edest :=
  match d with
  | DNil => None
  | DAccount e => match ok_opt (eval_as vs e expect_account) with Some a => Some (EDAccount a) | None => None end
  | DInorder _ cl rem =>
      match (fix go (l : list (range * expr * kod)) : option (list (Z * ekod)) :=
               match l with
               | [] => Some []
               | (_, ce, k) :: l' =>
                   match ok_opt (eval_as vs ce (expect_monetary_of_asset asset)), eval_ekod vs asset k, go l' with
                   | Some c, Some k', Some b => Some ((c, k') :: b)
                   | _, _, _ => None
                   end
               end) cl, eval_ekod vs asset rem with
      | Some cl', Some rem' => Some (EDInorder cl' rem')
      | _, _ => None
      end
  | DAllot _ items =>
      match (fix go (l : list (range * allot * kod)) : option (list (clause * ekod)) :=
               match l with
               | [] => Some []
               | (_, a, k) :: l' =>
                   match clause_of vs a, eval_ekod vs asset k, go l' with
                   | Some c, Some k', Some b => Some ((c, k') :: b)
                   | _, _, _ => None
                   end
               end) items with
      | Some l' => Some (EDAllot l')
      | None => None
      end
  end
with eval_ekod (vs : env) (asset : string) (k : kod) {struct k} : option ekod :=
  match k with
  | KNil => None
  | KKept _ => Some EKept
  | KTo d => match eval_edest vs asset d with Some d' => Some (ETo d') | None => None end
  end.

(* the evaluated last send of a case: asset, amount (None = send-all), trees, visible balances *)
Record esend := mk_esend {
  es_asset : string;
  es_amount : option Z;
  es_src : option esrc;
  es_dst : option edest;
  es_bal : string -> Z;
  es_own : list posting -> list posting      (* selects the postings of the last statement *)
}.

Definition eval_last_send (c : icase) : option esend :=
  match model_last_send c with
  | Ok (Some ls) =>
      match ok_opt (eval_sent_amt (ls_env ls) (ls_sv ls)) with
      | Some (asset, amt) =>
          Some (mk_esend asset amt (eval_esrc (ls_env ls) asset (ls_src ls)) (eval_edest (ls_env ls) asset (ls_dst ls))
                  (fun a => bget (ls_cache ls) a asset)
                  (skipn (List.length (ls_prefix_postings ls))))
      | None => None
      end
  | _ => None
  end.

(* accounts mentioned by a posting list *)
Definition posting_accounts (ps : list posting) : list string :=
  nodup string_dec (flat_map (fun p => [psrc p; pdst p]) ps).
