(* Glue: evaluate the expressions of a source / destination tree under an environment, giving
   the evaluated trees the specifications (Spec/Greedy, Spec/Distribution) talk about. *)
From NS Require Export Observe.
From NS Require Export Ledger Shares Distribution Greedy.

Definition ok_opt {A} (m : res A) : option A := match m with Ok a => Some a | _ => None end.

Definition clause_of (vs : env) (a : allot) : option clause :=
  match a with
  | ARatio _ n (Zpos d) => Some (Some (n # d))
  | AVar r name => match ok_opt (eval_as vs (EVar r name) expect_portion) with Some q => Some (Some q) | None => None end
  | ARemaining _ => Some None
  | _ => None
  end.

Fixpoint eval_esrc (vs : env) (asset : string) (s : source) {struct s} : option esrc :=
  match s with
  | SNil => None
  | SAccount e =>
      match ok_opt (eval_as vs e expect_account) with
      | Some a => Some (ESAccount a (if String.eqb a WORLD then None else Some 0))
      | None => None
      end
  | SOverdraft _ addr b =>
      match ok_opt (eval_as vs addr expect_account) with
      | Some a =>
          match b with
          | None => Some (ESAccount a None)
          | Some be =>
              match ok_opt (eval_as vs be (expect_monetary_of_asset asset)) with
              | Some cap => Some (ESAccount a (if String.eqb a WORLD then None else Some cap))
              | None => None
              end
          end
      | None => None
      end
  | SInorder _ l =>
      match (fix go (l : list source) : option (list esrc) :=
               match l with
               | [] => Some []
               | x :: l' => match eval_esrc vs asset x, go l' with Some a, Some b => Some (a :: b) | _, _ => None end
               end) l with
      | Some l' => Some (ESInorder l')
      | None => None
      end
  | SAllot _ items =>
      match (fix go (l : list (range * allot * source)) : option (list (clause * esrc)) :=
               match l with
               | [] => Some []
               | (_, a, x) :: l' =>
                   match clause_of vs a, eval_esrc vs asset x, go l' with
                   | Some c, Some e, Some b => Some ((c, e) :: b)
                   | _, _, _ => None
                   end
               end) items with
      | Some l' => Some (ESAllot l')
      | None => None
      end
  | SCapped _ from cap =>
      match ok_opt (eval_as vs cap (expect_monetary_of_asset asset)), eval_esrc vs asset from with
      | Some c, Some f => Some (ESCapped c f)
      | _, _ => None
      end
  end.

Fixpoint eval_edest (vs : env) (asset : string) (d : dest) {struct d} : option edest :=
  match d with
  | DNil => None
  | DAccount e => match ok_opt (eval_as vs e expect_account) with Some a => Some (EDAccount a) | None => None end
  | DInorder _ cl rem =>
      match (fix go (l : list (range * expr * kod)) : option (list (Z * ekod)) :=
               match l with
               | [] => Some []
               | (_, ce, k) :: l' =>
                   match ok_opt (eval_as vs ce (expect_monetary_of_asset asset)), eval_ekod vs asset k, go l' with
                   | Some c, Some k', Some b => Some ((c, k') :: b)
                   | _, _, _ => None
                   end
               end) cl, eval_ekod vs asset rem with
      | Some cl', Some rem' => Some (EDInorder cl' rem')
      | _, _ => None
      end
  | DAllot _ items =>
      match (fix go (l : list (range * allot * kod)) : option (list (clause * ekod)) :=
               match l with
               | [] => Some []
               | (_, a, k) :: l' =>
                   match clause_of vs a, eval_ekod vs asset k, go l' with
                   | Some c, Some k', Some b => Some ((c, k') :: b)
                   | _, _, _ => None
                   end
               end) items with
      | Some l' => Some (EDAllot l')
      | None => None
      end
  end
with eval_ekod (vs : env) (asset : string) (k : kod) {struct k} : option ekod :=
  match k with
  | KNil => None
  | KKept _ => Some EKept
  | KTo d => match eval_edest vs asset d with Some d' => Some (ETo d') | None => None end
  end.

(* the evaluated last send of a case: asset, amount (None = send-all), trees, visible balances *)
Record esend := mk_esend {
  es_asset : string;
  es_amount : option Z;
  es_src : option esrc;
  es_dst : option edest;
  es_bal : string -> Z;
  es_own : list posting -> list posting      (* selects the postings of the last statement *)
}.

Definition eval_last_send (c : icase) : option esend :=
  match model_last_send c with
  | Ok (Some ls) =>
      match ok_opt (eval_sent_amt (ls_env ls) (ls_sv ls)) with
      | Some (asset, amt) =>
          Some (mk_esend asset amt (eval_esrc (ls_env ls) asset (ls_src ls)) (eval_edest (ls_env ls) asset (ls_dst ls))
                  (fun a => bget (ls_cache ls) a asset)
                  (skipn (List.length (ls_prefix_postings ls))))
      | None => None
      end
  | _ => None
  end.

(* accounts mentioned by a posting list *)
Definition posting_accounts (ps : list posting) : list string :=
  nodup string_dec (flat_map (fun p => [psrc p; pdst p]) ps).

(* ---- the list traversals of eval_esrc / eval_edest as top-level functions (for the proofs) ---- *)
Fixpoint eval_esrc_list (vs : env) (asset : string) (l : list source) : option (list esrc) :=
  match l with
  | [] => Some []
  | x :: l' => match eval_esrc vs asset x, eval_esrc_list vs asset l' with Some a, Some b => Some (a :: b) | _, _ => None end
  end.

Fixpoint eval_esrc_items (vs : env) (asset : string) (l : list (range * allot * source)) : option (list (clause * esrc)) :=
  match l with
  | [] => Some []
  | (_, a, x) :: l' =>
      match clause_of vs a, eval_esrc vs asset x, eval_esrc_items vs asset l' with
      | Some c, Some e, Some b => Some ((c, e) :: b)
      | _, _, _ => None
      end
  end.

Lemma eval_esrc_inorder_eq vs asset r l :
  eval_esrc vs asset (SInorder r l) = option_map ESInorder (eval_esrc_list vs asset l).
Proof.
  cbn [eval_esrc]. match goal with |- match ?X with _ => _ end = _ => assert (E : X = eval_esrc_list vs asset l) end.
  { induction l as [|x l IH]; [reflexivity|]. cbn [eval_esrc_list]. rewrite <- IH. reflexivity. }
  rewrite E. destruct (eval_esrc_list vs asset l); reflexivity.
Qed.

Lemma eval_esrc_allot_eq vs asset r items :
  eval_esrc vs asset (SAllot r items) = option_map ESAllot (eval_esrc_items vs asset items).
Proof.
  cbn [eval_esrc]. match goal with |- match ?X with _ => _ end = _ => assert (E : X = eval_esrc_items vs asset items) end.
  { induction items as [|[[r0 a] x] l IH]; [reflexivity|]. cbn [eval_esrc_items]. rewrite <- IH. reflexivity. }
  rewrite E. destruct (eval_esrc_items vs asset items); reflexivity.
Qed.

Fixpoint eval_edest_clauses (vs : env) (asset : string) (l : list (range * expr * kod)) : option (list (Z * ekod)) :=
  match l with
  | [] => Some []
  | (_, ce, k) :: l' =>
      match ok_opt (eval_as vs ce (expect_monetary_of_asset asset)), eval_ekod vs asset k, eval_edest_clauses vs asset l' with
      | Some c, Some k', Some b => Some ((c, k') :: b)
      | _, _, _ => None
      end
  end.

Fixpoint eval_edest_items (vs : env) (asset : string) (l : list (range * allot * kod)) : option (list (clause * ekod)) :=
  match l with
  | [] => Some []
  | (_, a, k) :: l' =>
      match clause_of vs a, eval_ekod vs asset k, eval_edest_items vs asset l' with
      | Some c, Some k', Some b => Some ((c, k') :: b)
      | _, _, _ => None
      end
  end.

Lemma eval_edest_inorder_eq vs asset r cl rem :
  eval_edest vs asset (DInorder r cl rem) =
  match eval_edest_clauses vs asset cl, eval_ekod vs asset rem with
  | Some cl', Some rem' => Some (EDInorder cl' rem')
  | _, _ => None
  end.
Proof.
  cbn [eval_edest]. match goal with |- match ?X with _ => _ end = _ => assert (E : X = eval_edest_clauses vs asset cl) end.
  { induction cl as [|[[r0 ce] k] l IH]; [reflexivity|]. cbn [eval_edest_clauses]. rewrite <- IH. reflexivity. }
  rewrite E. reflexivity.
Qed.

Lemma eval_edest_allot_eq vs asset r items :
  eval_edest vs asset (DAllot r items) = option_map EDAllot (eval_edest_items vs asset items).
Proof.
  cbn [eval_edest]. match goal with |- match ?X with _ => _ end = _ => assert (E : X = eval_edest_items vs asset items) end.
  { induction items as [|[[r0 a] k] l IH]; [reflexivity|]. cbn [eval_edest_items]. rewrite <- IH. reflexivity. }
  rewrite E. destruct (eval_edest_items vs asset items); reflexivity.
Qed.
