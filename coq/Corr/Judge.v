(* Judges: for each property, (does the model agree with the observation?, does the property
   predicate hold on the observation?, is the case non-trivial?). Generated case files import
   this module only. *)
From NS Require Export Observe.
From NS Require ErrList.

Definition judge_full (c : icase) : bool * bool * bool := (agree_full c, true, true).

(* ---------------- C07: interpreter.Reconcile called directly ---------------- *)
From NS Require Import Pairing MetaProofs.

Record rcase := mk_rcase {
  rc_asset : string;
  rc_S : list entry;
  rc_R : list entry;
  rc_obs : option (list posting) }.      (* None: the call panicked *)

Definition names (l : list entry) : list string := nodup string_dec (map fst l).

(* the property, as a boolean function of the observed postings *)
Definition prop_C07 (asset : string) (S R : list entry) (ps : list posting) : bool :=
  forallb (fun s => forallb (fun d => String.eqb d KEPT_ADDR || (flow ps s d =? flow_iv S R s d)) (names R)) (names S)
  && forallb (fun p => (0 <? pamt p) && negb (String.eqb (pdst p) KEPT_ADDR) && mem_str (psrc p) (names S)
                       && mem_str (pdst p) (names R) && String.eqb (passet p) asset) ps.

Definition judge_C07_direct (c : rcase) : bool * bool * bool :=
  let agree := match reconcile (rc_asset c) (rc_S c) (rc_R c), rc_obs c with
               | Some ps, Some qs => list_eqb posting_eqb ps qs
               | _, _ => false end in
  let prop := match rc_obs c with Some qs => prop_C07 (rc_asset c) (rc_S c) (rc_R c) qs | None => false end in
  (agree, prop, negb (Nat.eqb (List.length (rc_S c)) 0) && negb (Nat.eqb (List.length (rc_R c)) 0)).

(* C07 on whole sends: the postings of the (last) send pair the model's draw list with its distribution list *)
Definition judge_C07_send (c : icase) : bool * bool * bool :=
  let agree := agree_postings c in
  match model_last_send c, ic_obs c with
  | Ok (Some ls), ObsOk ps _ _ _ =>
      match send_lists (ls_env ls) (ls_sv ls) (ls_src ls) (ls_dst ls) (ls_cache ls) with
      | Ok (asset, sl, rl) =>
          let own := skipn (List.length (ls_prefix_postings ls)) ps in
          (agree, prop_C07 asset sl rl own,
           negb (Nat.eqb (List.length sl) 0) && negb (Nat.eqb (List.length rl) 0))
      | _ => (agree, true, false)
      end
  | _, _ => (agree, true, false)
  end.

(* ======================= whole-script judges (C01-C06, C08, C12) ======================= *)
From NS Require Import EvalTrees.

Definition obs_is_err (o : observed) (name : string) : bool :=
  match o with ObsErr n _ _ => String.eqb n name | _ => false end.
Definition obs_postings (o : observed) : option (list posting) :=
  match o with ObsOk ps _ _ _ => Some ps | _ => None end.
Definition err_result_empty (o : observed) : bool :=
  match o with ObsErr _ e _ => e | _ => true end.

(* ---------------- C04 ---------------- *)
Definition pulled_accounts (p : pulled) : list string := nodup string_dec (map fst p).

Definition debits_match (own : list posting) (asset : string) (p : pulled) : bool :=
  forallb (fun a => debits own a asset =? pulled_of p a) (nodup string_dec (pulled_accounts p ++ map psrc own)).

Definition prop_C04 (es : esend) (src : esrc) (o : observed) : bool :=
  match es_amount es with
  | Some n =>
      if n <? 0 then obs_is_err o "NegativeAmountErr" else
      match draw_exact (es_bal es) src n with
      | Drawn _ p => match obs_postings o with Some ps => debits_match (es_own es ps) (es_asset es) p | None => false end
      | Short _ _ => obs_is_err o "MissingFundsErr"
      | BadAllotment => obs_is_err o "InvalidAllotmentSum"
      end
  | None =>
      match drain (es_bal es) src [] with
      | Drained _ p => match obs_postings o with Some ps => debits_match (es_own es ps) (es_asset es) p | None => false end
      | Rejected => obs_is_err o "InvalidUnboundedInSendAll" || obs_is_err o "InvalidAllotmentInSendAll"
      | DrainShort _ _ => obs_is_err o "MissingFundsErr"
      | DrainBadAllotment => obs_is_err o "InvalidAllotmentSum"
      end
  end.

(* the case is for C04 when the destination is one plain account (so that no unit is kept) *)
Definition judge_C04 (c : icase) : bool * bool * bool :=
  let agree := agree_postings c in
  match eval_last_send c with
  | Some es =>
      match es_src es, es_dst es with
      | Some src, Some (EDAccount _) =>
          let nontrivial := match src with ESAccount _ _ => false | _ => true end in
          (agree, prop_C04 es src (ic_obs c), nontrivial)
      | _, _ => (agree, true, false)
      end
  | None => (agree, true, false)
  end.

(* ---------------- C05 / C06 ---------------- *)
Definition credits_match (own : list posting) (asset : string) (cr : list (string * Z)) : bool :=
  forallb (fun a => String.eqb a KEPT || (credits own a asset =? credited_to cr a))
          (nodup string_dec (map fst cr ++ map pdst own))
  && forallb (fun p => negb (String.eqb (pdst p) KEPT)) own.

Definition prop_C05 (es : esend) (d : edest) (n : Z) (o : observed) : bool :=
  match distribute d n with
  | Some cr =>
      match obs_postings o with
      | Some ps =>
          let own := es_own es ps in
          credits_match own (es_asset es) cr
          && (zsum (map pamt own) + credited_to cr KEPT =? n)
      | None => false
      end
  | None => obs_is_err o "InvalidAllotmentSum"
  end.

(* source is @world (gives everything asked) *)
Definition src_is_world (s : option esrc) : bool :=
  match s with Some (ESAccount a None) => String.eqb a WORLD | _ => false end.

Definition judge_C05 (c : icase) : bool * bool * bool :=
  let agree := agree_postings c in
  match eval_last_send c with
  | Some es =>
      match es_dst es, es_amount es with
      | Some d, Some n =>
          if (0 <=? n) && src_is_world (es_src es)
          then (agree, prop_C05 es d n (ic_obs c), match d with EDAccount _ => false | _ => true end)
          else (agree, true, false)
      | _, _ => (agree, true, false)
      end
  | None => (agree, true, false)
  end.

(* C06: top-level allotment over distinct plain accounts: each clause's credit is its spec share *)
Fixpoint plain_accounts (items : list (clause * ekod)) : option (list string) :=
  match items with
  | [] => Some []
  | (_, ETo (EDAccount a)) :: l => match plain_accounts l with Some x => Some (a :: x) | None => None end
  | _ => None
  end.

Definition prop_C06 (es : esend) (d : edest) (n : Z) (o : observed) : bool :=
  prop_C05 es d n o &&
  match d with
  | EDAllot items =>
      match plain_accounts items, denoted_portions (map fst items), obs_postings o with
      | Some accts, Some ps, Some posts =>
          if Nat.eqb (List.length (nodup string_dec accts)) (List.length accts) then
            let own := es_own es posts in
            forallb (fun ia => credits own (snd ia) (es_asset es) =? spec_share n ps (fst ia))
                    (combine (seq 0 (List.length accts)) accts)
            && (zsum (map pamt own) =? n)
          else true
      | _, None, _ => obs_is_err o "InvalidAllotmentSum"
      | _, _, _ => true
      end
  | _ => true
  end.

Definition judge_C06 (c : icase) : bool * bool * bool :=
  let agree := agree_postings c in
  match eval_last_send c with
  | Some es =>
      match es_dst es, es_amount es with
      | Some d, Some n =>
          if (0 <=? n) && src_is_world (es_src es)
          then (agree, prop_C06 es d n (ic_obs c), match d with EDAllot _ => true | _ => false end)
          else
            (* mirrored source form: judged by the greedy draw, which uses the same spec shares *)
            match es_src es, d with
            | Some (ESAllot it), EDAccount _ => (agree, prop_C04 es (ESAllot it) (ic_obs c), true)
            | _, _ => (agree, true, false)
            end
      | _, _ => (agree, true, false)
      end
  | None => (agree, true, false)
  end.

(* C06, "the exact portion": the tree the interpreter (and the model) works on comes from the
   implementation's own parser; the portions it carries are compared, by value, with the portions the
   generator wrote in the text (None: a variable or `remaining`) *)
Record c06case := mk_c06case { c6_case : icase; c6_portions : list (option (Z * Z)) }.

Fixpoint portions_match (al : list allot) (ex : list (option (Z * Z))) : bool :=
  match al, ex with
  | [], [] => true
  | a :: al', e :: ex' =>
      match a, e with
      | ARatio _ n d, Some (n', d') => (n * d' =? n' * d) && negb (d =? 0)
      | ARatio _ _ _, None => false
      | _, Some _ => false
      | _, None => true
      end && portions_match al' ex'
  | _, _ => false
  end.

Definition portions_as_written (c : icase) (ex : list (option (Z * Z))) : bool :=
  match ex with
  | [] => true
  | _ =>
      match split_last (p_stmts (ic_prog c)) with
      | Some (_, StSend _ _ src dst) =>
          match dst, src with
          | DAllot _ items, _ => portions_match (map (fun it : range * allot * kod => snd (fst it)) items) ex
          | _, SAllot _ items => portions_match (map (fun it : range * allot * source => snd (fst it)) items) ex
          | _, _ => false
          end
      | _ => false
      end
  end.

Definition judge_C06w (cc : c06case) : bool * bool * bool :=
  let '(a, p, n) := judge_C06 (c6_case cc) in (a, p && portions_as_written (c6_case cc) (c6_portions cc), n).

(* ---------------- C03 ---------------- *)
Definition prop_C03 (es : esend) (src : esrc) (d : edest) (n : Z) (o : observed) : bool :=
  err_result_empty o &&
  if n <? 0 then obs_is_err o "NegativeAmountErr" else
  match draw_exact (es_bal es) src n with
  | Short _ _ => obs_is_err o "MissingFundsErr"
  | BadAllotment => obs_is_err o "InvalidAllotmentSum"
  | Drawn _ _ =>
      match distribute d n with
      | None => obs_is_err o "InvalidAllotmentSum"
      | Some cr =>
          match obs_postings o with
          | Some ps =>
              let own := es_own es ps in
              (zsum (map pamt own) =? n - credited_to cr KEPT)
              && (if n =? 0 then match own with [] => true | _ => false end else true)
          | None => false
          end
      end
  end.

Definition judge_C03 (c : icase) : bool * bool * bool :=
  let agree := agree_postings c in
  match eval_last_send c with
  | Some es =>
      match es_src es, es_dst es, es_amount es with
      | Some src, Some d, Some n => (agree, prop_C03 es src d n (ic_obs c), true)
      | _, _, _ => (agree, err_result_empty (ic_obs c), false)
      end
  | None => (agree, err_result_empty (ic_obs c), false)
  end.

(* ---------------- C01 / C02 / C08: whole scripts ---------------- *)
Fixpoint esrc_leaves (s : esrc) : list (string * option Z) :=
  match s with
  | ESAccount a od => [(a, od)]
  | ESInorder l => flat_map esrc_leaves l
  | ESAllot items => flat_map (fun it : clause * esrc => esrc_leaves (snd it)) items
  | ESCapped _ s' => esrc_leaves s'
  end.

(* per send statement: its asset and the leaves of its source; None when something does not evaluate *)
Definition stmt_grants (vs : env) (s : stmt) : option (list (string * string * option Z)) :=
  match s with
  | StSend _ sv src _ =>
      match ok_opt (eval_sent_amt vs sv) with
      | Some (asset, _) =>
          match eval_esrc vs asset src with
          | Some es => Some (map (fun l : string * option Z => (fst l, asset, snd l)) (esrc_leaves es))
          | None => None
          end
      | None => None
      end
  | _ => Some []
  end.

Fixpoint all_grants (vs : env) (ss : list stmt) : option (list (string * string * option Z)) :=
  match ss with
  | [] => Some []
  | s :: ss' => match stmt_grants vs s, all_grants vs ss' with Some a, Some b => Some (a ++ b) | _, _ => None end
  end.

Definition is_unbounded (g : list (string * string * option Z)) (a : string) : bool :=
  existsb (fun x => String.eqb (fst (fst x)) a && match snd x with None => true | _ => false end) g.

(* the largest overdraft granted to [a] for [c] (0 when it is never a bounded source) *)
Definition max_grant (g : list (string * string * option Z)) (a c : string) : Z :=
  match flat_map (fun x : string * string * option Z =>
           if String.eqb (fst (fst x)) a && String.eqb (snd (fst x)) c
           then match snd x with Some k => [k] | None => [] end else []) g with
  | [] => 0
  | k :: ks => fold_left Z.max ks k
  end.

(* replay, checking the bound after every posting on the account it debits *)
Fixpoint replay_bound (B : balances) (g : list (string * string * option Z)) (cur : balances) (ps : list posting) : bool :=
  match ps with
  | [] => true
  | p :: ps' =>
      let a := psrc p in let c := passet p in
      let cur1 := bset (a, c) (bget cur a c - pamt p) cur in
      let cur2 := bset (pdst p, c) (bget cur1 (pdst p) c + pamt p) cur1 in
      (String.eqb a WORLD || is_unbounded g a || (Z.min (bget B a c) (- max_grant g a c) <=? bget cur2 a c))
      (* a credit can never lower a balance, unless the amount is negative: check the receiver too *)
      && (String.eqb (pdst p) WORLD || is_unbounded g (pdst p)
          || (Z.min (bget B (pdst p) c) (- max_grant g (pdst p) c) <=? bget cur2 (pdst p) c))
      && replay_bound B g cur2 ps'
  end.

Definition model_env (c : icase) : option env :=
  match prepare (ic_prog c) (ic_vars c) (case_store c) (ic_flag c) with Ok (vs, _) => Some vs | _ => None end.

Definition prop_C01 (c : icase) : bool * bool :=          (* (holds, applicable) *)
  match ic_obs c, model_env c with
  | ObsOk ps _ _ _, Some vs =>
      match all_grants vs (p_stmts (ic_prog c)) with
      | Some g => (replay_bound (ic_bal c) g (ic_bal c) ps, negb (Nat.eqb (List.length ps) 0))
      | None => (true, false)
      end
  | _, _ => (true, false)
  end.

Definition judge_C01 (c : icase) : bool * bool * bool :=
  let '(p, n) := prop_C01 c in (agree_postings c, p, n).

(* C02 *)
Fixpoint drop_while_asset (a : string) (ps : list posting) : list posting :=
  match ps with
  | p :: ps' => if String.eqb (passet p) a then drop_while_asset a ps' else ps
  | [] => []
  end.

Fixpoint assets_conform (assets : list string) (ps : list posting) : bool :=
  match assets with
  | [] => match ps with [] => true | _ => false end
  | a :: assets' => assets_conform assets' (drop_while_asset a ps)
  end.

Definition send_assets (vs : env) (ss : list stmt) : option (list string) :=
  fold_right (fun s acc =>
    match s, acc with
    | StSend _ sv _ _, Some l => match ok_opt (eval_sent_amt vs sv) with Some (a, _) => Some (a :: l) | None => None end
    | _, _ => acc
    end) (Some []) ss.

Definition posting_wellformed (p : posting) : bool :=
  (0 <? pamt p) && valid_account_name (psrc p) && valid_account_name (pdst p)
  && negb (String.eqb (psrc p) KEPT_ADDR) && negb (String.eqb (pdst p) KEPT_ADDR).

(* the implementation's own posting counts after each statement (prefix executions) say which
   postings belong to which statement: each of them must carry that statement's asset *)
Record c02case := mk_c02case { c2_case : icase; c2_counts : list Z }.

Definition stmt_asset_opt (vs : env) (s : stmt) : option (option string) :=   (* Some None: not a send *)
  match s with
  | StSend _ sv _ _ => match ok_opt (eval_sent_amt vs sv) with Some (a, _) => Some (Some a) | None => None end
  | _ => Some None
  end.

Fixpoint assets_by_statement (vs : env) (ss : list stmt) (counts : list Z) (prev : Z) (ps : list posting) : bool :=
  match ss, counts with
  | [], [] => match ps with [] => true | _ => false end
  | s :: ss', n :: counts' =>
      if n <? prev then false
      else
        let k := Z.to_nat (n - prev) in
        let mine := firstn k ps in
        (Nat.eqb (List.length mine) k)
        && match stmt_asset_opt vs s with
           | Some (Some a) => forallb (fun p => String.eqb (passet p) a) mine
           | Some None => Nat.eqb k 0
           | None => false
           end
        && assets_by_statement vs ss' counts' n (skipn k ps)
  | _, _ => false
  end.

(* the asset a monetary expression is written in: that of its leftmost operand, read off the text *)
Fixpoint until_space (s : string) : string :=
  match s with
  | EmptyString => EmptyString
  | String ch s' => if Ascii.eqb ch (Ascii.ascii_of_nat 32) then EmptyString else String ch (until_space s')
  end.
Fixpoint lead_asset (vars : list (string * string)) (e : expr) : option string :=
  match e with
  | EInfix _ _ l _ => lead_asset vars l
  | EMonetary _ (EAsset _ a) _ => Some a
  | EVar _ n => match alookup n vars with Some raw => Some (until_space raw) | None => None end
  | _ => None
  end.

Definition judge_C02 (cc : c02case) : bool * bool * bool :=
  let c := c2_case cc in
  let agree := agree_postings c in
  match ic_obs c, model_env c with
  | ObsOk ps _ _ _, Some vs =>
      let by_stmt :=
        if forallb (fun n => 0 <=? n) (c2_counts cc) && negb (Nat.eqb (List.length (c2_counts cc)) 0)
        then assets_by_statement vs (p_stmts (ic_prog c)) (c2_counts cc) 0 ps
        else match send_assets vs (p_stmts (ic_prog c)) with Some assets => assets_conform assets ps | None => true end in
      (agree, forallb posting_wellformed ps && by_stmt, negb (Nat.eqb (List.length ps) 0))
  | ObsOk ps _ _ _, None =>
      (* the model cannot even prepare the script (it fails before its first statement) and the
         implementation returned postings: they must at least carry the asset in which some send of the
         script is written - the asset of the leftmost operand of its amount, read off the text *)
      let leads := flat_map (fun s => match s with
                                      | StSend _ (SVLit _ e) _ _ => match lead_asset (ic_vars c) e with Some a => [a] | None => [] end
                                      | _ => []
                                      end) (p_stmts (ic_prog c)) in
      let all_known := forallb (fun s => match s with
                                         | StSend _ (SVLit _ e) _ _ => match lead_asset (ic_vars c) e with Some _ => true | None => false end
                                         | StSend _ _ _ _ => false
                                         | _ => true
                                         end) (p_stmts (ic_prog c)) in
      (agree, forallb posting_wellformed ps && (negb all_known || forallb (fun p => mem_str (passet p) leads) ps), false)
  | _, _ => (agree, true, false)
  end.

(* C08: leading saves reserve funds *)
Fixpoint leading_saves (vs : env) (ss : list stmt) : option (list (string * string * option Z)) :=
  match ss with
  | StSave _ sv a :: ss' =>
      match ok_opt (eval_sent_amt vs sv), ok_opt (eval_as vs a expect_account), leading_saves vs ss' with
      | Some (asset, n), Some acct, Some l => Some ((acct, asset, n) :: l)
      | _, _, _ => None
      end
  | _ => Some []
  end.

Definition visible_after (b : Z) (acct asset : string) (saves : list (string * string * option Z)) : Z :=
  fold_left (fun v s => if String.eqb (fst (fst s)) acct && String.eqb (snd (fst s)) asset
                        then save_visible v (snd s) else v) saves b.

Definition has_overdraft_leaf (g : list (string * string * option Z)) (a : string) : bool :=
  existsb (fun x => String.eqb (fst (fst x)) a &&
                    match snd x with None => true | Some k => negb (k =? 0) end) g.

Fixpoint reserve_bound (acct asset : string) (bound : Z) (cur : balances) (ps : list posting) : bool :=
  match ps with
  | [] => true
  | p :: ps' =>
      let c := passet p in
      let cur1 := bset (psrc p, c) (bget cur (psrc p) c - pamt p) cur in
      let cur2 := bset (pdst p, c) (bget cur1 (pdst p) c + pamt p) cur1 in
      (bound <=? bget cur2 acct asset) && reserve_bound acct asset bound cur2 ps'
  end.

(* the visible balance sheet when the last statement starts, with the effect of every save
   computed by the specification (Spec/Ledger.save_visible), not by the model of runSaveStatement *)
Fixpoint spec_prefix (vs : env) (ss : list stmt) (cur : balances) : option balances :=
  match ss with
  | [] => Some cur
  | s :: ss' =>
      match s with
      | StSave _ sv a =>
          match ok_opt (eval_sent_amt vs sv), ok_opt (eval_as vs a expect_account) with
          | Some (asset, n), Some acct =>
              if match n with Some k => k <? 0 | None => false end then None
              else spec_prefix vs ss' (bset (acct, asset) (save_visible (bget cur acct asset) n) cur)
          | _, _ => None
          end
      | StSend _ _ _ _ =>
          match run_stmt vs s (mkstate cur [] []) with
          | Ok (ps, _) => spec_prefix vs ss' (apply_postings cur ps)
          | _ => None
          end
      | StFnCall _ => spec_prefix vs ss' cur
      | _ => None
      end
  end.

(* the last send judged against the specification's visible balances: it must succeed exactly
   when the visible funds suffice, and debit what the greedy draw says *)
Definition last_send_on_spec_visible (c : icase) : bool * bool :=     (* (holds, applicable) *)
  match split_last (p_stmts (ic_prog c)), model_env c, eval_last_send c with
  | Some (pre, StSend _ _ _ _), Some vs, Some es =>
      match spec_prefix vs pre (ic_bal c), es_src es, es_dst es with
      | Some vis, Some src, Some d =>
          let es' := mk_esend (es_asset es) (es_amount es) (es_src es) (es_dst es)
                       (fun a => bget vis a (es_asset es)) (es_own es) in
          match es_amount es, d with
          | Some n, _ => (prop_C03 es' src d n (ic_obs c), true)
          | None, EDAccount _ => (prop_C04 es' src (ic_obs c), true)
          | None, _ => (true, false)
          end
      | _, _, _ => (true, false)
      end
  | _, _, _ => (true, false)
  end.

(* "a negative n is rejected": a run that succeeded has executed every save statement, so none of
   them may evaluate to a negative amount *)
Definition negative_save (vs : env) (ss : list stmt) : bool :=
  existsb (fun s => match s with
                    | StSave _ sv _ => match ok_opt (eval_sent_amt vs sv) with Some (_, Some k) => k <? 0 | _ => false end
                    | _ => false
                    end) ss.

Definition judge_C08 (c : icase) : bool * bool * bool :=
  let agree := agree_postings c in
  let '(vis_ok0, vis_app) := last_send_on_spec_visible c in
  let vis_ok := vis_ok0 && match ic_obs c, model_env c with
                           | ObsOk _ _ _ _, Some vs => negb (negative_save vs (p_stmts (ic_prog c)))
                           | _, _ => true
                           end in
  match ic_obs c, model_env c with
  | ObsOk ps _ _ _, Some vs =>
      match leading_saves vs (p_stmts (ic_prog c)), all_grants vs (p_stmts (ic_prog c)) with
      | Some saves, Some g =>
          let ok := forallb (fun s : string * string * option Z =>
                      let acct := fst (fst s) in let asset := snd (fst s) in
                      if String.eqb acct WORLD || has_overdraft_leaf g acct then true
                      else
                        let b := bget (ic_bal c) acct asset in
                        let v := visible_after b acct asset saves in
                        reserve_bound acct asset (b - Z.max 0 v) (ic_bal c) ps) saves in
          let only_saves := forallb (fun s => match s with StSave _ _ _ => true | _ => false end) (p_stmts (ic_prog c)) in
          (agree, vis_ok && ok && (if only_saves then Nat.eqb (List.length ps) 0 else true),
           vis_app || negb (Nat.eqb (List.length saves) 0))
      | _, _ => (agree, vis_ok, vis_app)
      end
  | _, _ => (agree, vis_ok, vis_app)
  end.

(* C12 *)
Definition judge_C12 (c : icase) : bool * bool * bool :=
  let agree := agree_full c in
  let no_panic := match ic_obs c with ObsPanic _ => false | _ => true end in
  let typed := match ic_obs c with
               | ObsErr n _ _ => mem_str n (map err_name ErrList.all_errs)
               | _ => true end in
  let fault := match ic_fail c, ic_obs c with
               | Some _, ObsErr n _ msg =>
                   (String.eqb n "QueryBalanceError" || String.eqb n "QueryMetadataError") && String.eqb msg injected_failure
               | Some _, _ => false
               | None, _ => true
               end in
  (* "naming the actual cause": the first fault met when the statements are executed in order - what
     the sequential semantics of the model (C09, C12_typed_error) reports for these inputs *)
  let cause := match ic_fail c, ic_obs c, model_outcome c with
               | None, ObsErr n _ _, Err e => String.eqb (err_name e) n
               | _, _, _ => true
               end in
  (agree, no_panic && typed && err_result_empty (ic_obs c) && fault && cause, true).

(* ======================= C09: sequential composition ======================= *)
Record splitcase := mk_splitcase {
  sc_prog : program;
  sc_k : nat;                       (* split point: the first k statements / the rest *)
  sc_vars : list (string * string);
  sc_bal : balances;
  sc_meta : metadata;
  sc_flag : bool;
  sc_whole : observed;
  sc_first : observed;
  sc_bal2 : option balances;        (* visible balances after the first part, as computed by the harness *)
  sc_second : option observed }.

Definition obs_same_result (a b : observed) : bool :=
  match a, b with
  | ObsOk p1 t1 m1 _, ObsOk p2 t2 m2 _ => list_eqb posting_eqb p1 p2 && amap_eqb value_eqb t1 t2 && metadata_eqb m1 m2
  | ObsErr n1 _ _, ObsErr n2 _ _ => String.eqb n1 n2
  | ObsPanic _, ObsPanic _ => true
  | _, _ => false
  end.

(* right-biased merge of association maps *)
Definition amap_merge {A} (m1 m2 : list (string * A)) : list (string * A) :=
  fold_left (fun acc kv => aset (fst kv) (snd kv) acc) m2 m1.

Definition metadata_merge (m1 m2 : metadata) : metadata :=
  fold_left (fun acc kv =>
    let old := match alookup (fst kv) acc with Some x => x | None => [] end in
    aset (fst kv) (amap_merge old (snd kv)) acc) m2 m1.

Definition prop_C09 (c : splitcase) : bool :=
  match sc_whole c, sc_first c, sc_second c with
  | ObsOk pw tw mw _, ObsOk p1 t1 m1 _, Some (ObsOk p2 t2 m2 _) =>
      list_eqb posting_eqb pw (p1 ++ p2) && amap_eqb value_eqb tw (amap_merge t1 t2) && metadata_eqb mw (metadata_merge m1 m2)
  (* a failing script: one of the two parts fails too. Which error is reported may differ: the
     whole script evaluates the expressions of ALL statements (to collect balance queries) before
     running the first one, so an error of a later statement can win over an earlier MissingFunds *)
  | ObsErr _ _ _, ObsErr _ _ _, _ => true
  | ObsErr _ _ _, ObsOk _ _ _ _, Some (ObsErr _ _ _) => true
  (* the harness could not compute the balances left by the first part (a save whose amount it
     cannot read, a prefix that fails): there is no second execution to compare with *)
  | _, ObsOk _ _ _ _, None => true
  | _, _, _ => false
  end.

(* "metadata set by later statements overrides earlier values key by key": the metadata of a run that
   succeeded is the fold of its set_tx_meta / set_account_meta statements in order - the last write
   of a key wins, whatever was read from the store before *)
Fixpoint last_writes (vs : env) (ss : list stmt) (tx : list (string * value)) (am : metadata)
  : option (list (string * value) * metadata) :=
  match ss with
  | [] => Some (tx, am)
  | StFnCall f :: ss' =>
      match ok_opt (eval_exprs vs (fc_args f)) with
      | Some args =>
          if String.eqb (fc_caller f) "set_tx_meta" then
            match args with
            | [k; v] => match ok_opt (expect_string k) with Some key => last_writes vs ss' (aset key v tx) am | None => None end
            | _ => None
            end
          else if String.eqb (fc_caller f) "set_account_meta" then
            match args with
            | [a; k; v] =>
                match ok_opt (expect_account a), ok_opt (expect_string k) with
                | Some acc, Some key =>
                    let old := match alookup acc am with Some m => m | None => [] end in
                    last_writes vs ss' tx (aset acc (aset key (value_string v) old) am)
                | _, _ => None
                end
            | _ => None
            end
          else None
      | None => None
      end
  | _ :: ss' => last_writes vs ss' tx am
  end.

Definition last_write_wins (c : splitcase) : bool :=
  match sc_whole c with
  | ObsOk _ tw mw _ =>
      match prepare (sc_prog c) (sc_vars c) (mk_store SKExact (sc_bal c) (sc_meta c) None) (sc_flag c) with
      | Ok (vs, _) =>
          match last_writes vs (p_stmts (sc_prog c)) [] [] with
          | Some (tx, am) => amap_eqb value_eqb tw tx && metadata_eqb mw am
          | None => true
          end
      | _ => true
      end
  | _ => true
  end.

Definition judge_C09 (c : splitcase) : bool * bool * bool :=
  let sb := mk_store SKExact (sc_bal c) (sc_meta c) None in
  let whole := run_program (sc_prog c) (sc_vars c) sb (sc_flag c) in
  let agree_whole := match whole, sc_whole c with
                     | Ok x, ObsOk ps txm am _ => list_eqb posting_eqb (x_postings x) ps && amap_eqb value_eqb (x_txmeta x) txm && metadata_eqb (x_accmeta x) am
                     | Err e, ObsErr n _ _ => String.eqb (err_name e) n
                     | Panic _, ObsPanic _ => true
                     | _, _ => false end in
  (* the harness's own computation of the visible balances after the first part agrees with the model *)
  let agree_bal :=
    match sc_bal2 c with
    | None => true
    | Some b2 =>
        match prepare (sc_prog c) (sc_vars c) sb (sc_flag c) with
        | Ok (vs, rs) =>
            match run_stmts vs (firstn (sc_k c) (p_stmts (sc_prog c))) (mkstate (rs_cache rs) [] []) with
            | Ok (_, st) =>
                (* only balances that were fetched are tracked exactly (an unbounded source is never asked for) *)
                forallb (fun e : cell * Z => (bget (st_cache st) (fst (fst e)) (snd (fst e)) =? snd e)
                                             || negb (bmem (rs_cache rs) (fst (fst e)) (snd (fst e)))) b2
            | _ => false
            end
        | _ => true      (* the whole script fails before its first statement: nothing to compare *)
        end
    end in
  (agree_whole && agree_bal, prop_C09 c && last_write_wins c,
   match sc_whole c, sc_second c with ObsOk ps _ _ _, Some _ => negb (Nat.eqb (List.length ps) 0) | _, _ => false end).

(* ======================= C10: store independence ======================= *)
From NS Require Import SheetRun.
Record c10case := mk_c10case {
  tc_prog : program;
  tc_vars : list (string * string);
  tc_bal : balances;
  tc_meta : metadata;
  tc_flag : bool;
  tc_obs : list (store_kind * observed) }.

Definition log_has_world (o : observed) : bool :=
  match o with
  | ObsOk _ _ _ log => existsb (fun call => match call with CallBalances q => existsb (fun e : string * list string => String.eqb (fst e) WORLD) q | _ => false end) log
  | _ => false
  end.

(* the observation is the outcome of the sheet semantics (Spec/SheetRun.v): computed from the ledger
   alone, no store involved *)
Definition obs_is_sheet (r : res sheet_result) (o : observed) : bool :=
  match r, o with
  | Ok (ps, txm, am), ObsOk ps' txm' am' _ =>
      list_eqb posting_eqb ps ps' && amap_eqb value_eqb txm txm' && metadata_eqb am am'
  | Err e, ObsErr n _ _ => String.eqb (err_name e) n
  | Panic _, ObsPanic _ => true
  | _, _ => false
  end.

Definition judge_C10 (c : c10case) : bool * bool * bool :=
  let agree := forallb (fun ko : store_kind * observed =>
                 agree_full (mk_icase (tc_prog c) (tc_vars c) (tc_bal c) (tc_meta c) (fst ko) None (tc_flag c) (snd ko))) (tc_obs c) in
  let prop := match tc_obs c with
              | [] => true
              | (_, o0) :: rest => forallb (fun ko : store_kind * observed => obs_same_result o0 (snd ko)) rest
              end && forallb (fun ko : store_kind * observed => negb (log_has_world (snd ko))) (tc_obs c)
              && (let sheet := run_sheet (tc_bal c) (tc_meta c) (tc_prog c) (tc_vars c) (tc_flag c) in
                  forallb (fun ko : store_kind * observed => obs_is_sheet sheet (snd ko)) (tc_obs c)) in
  let nontrivial := existsb (fun ko : store_kind * observed => match snd ko with ObsOk _ _ _ (_ :: _) => true | _ => false end) (tc_obs c) in
  (agree, prop, nontrivial).

(* ======================= C11: purity, determinism, re-entrancy ======================= *)
Record c11case := mk_c11case {
  ec_case : icase;                   (* first run, against the bundled static store *)
  ec_second : observed;              (* second run with the very same inputs *)
  ec_inputs_unchanged : bool;        (* deep comparison of variables, balances, metadata before / after *)
  ec_flag_on : observed;
  ec_flag_off : observed;
  ec_uses_overdraft_fn : bool;
  ec_concurrent_same : bool;         (* every concurrent run on one shared parse result gave the sequential result *)
  ec_race_free : bool }.             (* race detector silent (true when the build has no race detector) *)

Definition judge_C11 (c : c11case) : bool * bool * bool :=
  let agree := agree_full (ec_case c) in
  (* the same inputs give the same result: on failure, the same error with the same message *)
  let same := obs_same_result (ic_obs (ec_case c)) (ec_second c)
              && match ic_obs (ec_case c), ec_second c with
                 | ObsErr _ _ m1, ObsErr _ _ m2 => String.eqb m1 m2
                 | _, _ => true
                 end in
  let gating := if ec_uses_overdraft_fn c
                then obs_same_result (ec_flag_on c) (ec_flag_off c) || obs_is_err (ec_flag_off c) "ExperimentalFeature"
                else obs_same_result (ec_flag_on c) (ec_flag_off c) in
  (agree, same && ec_inputs_unchanged c && gating && ec_concurrent_same c && ec_race_free c,
   match ic_obs (ec_case c) with ObsOk (_ :: _) _ _ _ => true | _ => false end).

(* ======================= the static checker (C16, C17, C18) ======================= *)
From NS Require Export Hover Names Typing.

Inductive sev_obs := OSevError | OSevWarning | OSevOther (n : Z).

Inductive cobs :=
| CObsOk (diags : list (diag * sev_obs)) (symbols : list symbol) (errors : nat)
| CObsPanic (msg : string).

Record ccase := mk_ccase { cc_prog : program; cc_parse : list diag; cc_obs : cobs }.

Definition kind_eqb (a b : diag_kind) : bool :=
  match a, b with
  | DParsing x, DParsing y => String.eqb x y
  | DInvalidType x, DInvalidType y | DDuplicateVariable x, DDuplicateVariable y | DUnboundVariable x, DUnboundVariable y
  | DUnusedVar x, DUnusedVar y | DUnknownFunction x, DUnknownFunction y | DEmptiedAccount x, DEmptiedAccount y => String.eqb x y
  | DTypeMismatch a1 b1, DTypeMismatch a2 b2 => String.eqb a1 a2 && String.eqb b1 b2
  | DBadAllotmentSum p, DBadAllotmentSum q | DFixedPortionVariable p, DFixedPortionVariable q => Qeq_bool p q
  | DBadArity a1 b1, DBadArity a2 b2 => (a1 =? a2) && (b1 =? b2)
  | DRemainingIsNotLast, DRemainingIsNotLast | DRedundantRemaining, DRedundantRemaining
  | DInvalidWorldOverdraft, DInvalidWorldOverdraft | DNoAllotmentInSendAll, DNoAllotmentInSendAll
  | DInvalidUnboundedAccount, DInvalidUnboundedAccount | DUnboundedAccountIsNotLast, DUnboundedAccountIsNotLast
  | DDivByZero, DDivByZero => true
  | _, _ => false
  end.

Definition diag_eqb (a b : diag) : bool := range_eqb (d_range a) (d_range b) && kind_eqb (d_kind a) (d_kind b).

Definition is_unused (d : diag) : bool := match d_kind d with DUnusedVar _ => true | _ => false end.

(* multiset equality of short lists *)
Fixpoint remove_first {A} (eqb : A -> A -> bool) (x : A) (l : list A) : option (list A) :=
  match l with
  | [] => None
  | y :: l' => if eqb x y then Some l' else match remove_first eqb x l' with Some r => Some (y :: r) | None => None end
  end.
Fixpoint multiset_eqb {A} (eqb : A -> A -> bool) (l1 l2 : list A) : bool :=
  match l1 with
  | [] => match l2 with [] => true | _ => false end
  | x :: l1' => match remove_first eqb x l2 with Some l2' => multiset_eqb eqb l1' l2' | None => false end
  end.

Definition symbol_eqb (a b : symbol) : bool :=
  String.eqb (sy_name a) (sy_name b) && String.eqb (sy_detail a) (sy_detail b) && range_eqb (sy_range a) (sy_range b).

(* the model's analysis of the dumped tree agrees with the implementation's: the diagnostics before
   the final unused-variable sweep in the same order, the unused-variable ones and the symbols as
   multisets (the implementation iterates Go maps there), severities as the model says *)
Definition agree_check (c : ccase) : bool :=
  match check_default (cc_prog c) (cc_parse c), cc_obs c with
  | Ok cs, CObsOk ds syms nerr =>
      let mine := cs_diags cs in
      let theirs := map fst ds in
      list_eqb diag_eqb (filter (fun d => negb (is_unused d)) mine) (filter (fun d => negb (is_unused d)) theirs)
      && multiset_eqb diag_eqb (filter is_unused mine) (filter is_unused theirs)
      && forallb (fun ds => match severity_of (d_kind (fst ds)), snd ds with
                            | SevError, OSevError | SevWarning, OSevWarning => true | _, _ => false end) ds
      && Nat.eqb (errors_count mine) nerr
      && match symbols_of (cs_declared cs) with Ok ms => multiset_eqb symbol_eqb ms syms | _ => false end
  | Panic _, CObsPanic _ => true
  | _, _ => false
  end.

Definition use_eqb (a b : use) : bool := String.eqb (fst a) (fst b) && range_eqb (snd a) (snd b).

Definition obs_diags (o : cobs) : list (diag * sev_obs) := match o with CObsOk ds _ _ => ds | _ => [] end.

Definition diags_of_kind (sel : diag_kind -> option string) (ds : list (diag * sev_obs)) : list use :=
  flat_map (fun d : diag * sev_obs => match sel (d_kind (fst d)) with Some n => [(n, d_range (fst d))] | None => [] end) ds.

(* C16: exactness about names (independent traversal of Spec/Names) and no false error on scripts
   that are valid by Spec/Typing *)
Definition prop_C16 (c : ccase) : bool :=
  match cc_obs c with
  | CObsPanic _ => false
  | CObsOk ds _ _ =>
      let ev := events (cc_prog c) in
      list_eqb use_eqb (unbound_uses [] ev) (diags_of_kind (fun k => match k with DUnboundVariable n => Some n | _ => None end) ds)
      && list_eqb use_eqb (duplicate_decls [] ev) (diags_of_kind (fun k => match k with DDuplicateVariable n => Some n | _ => None end) ds)
      && multiset_eqb use_eqb (unused_decls [] ev) (diags_of_kind (fun k => match k with DUnusedVar n => Some n | _ => None end) ds)
      && (if valid (cc_prog c) && match cc_parse c with [] => true | _ => false end
          then forallb (fun d : diag * sev_obs => match snd d with OSevError => false | _ => true end) ds
          else true)
  end.

Definition judge_C16 (c : ccase) : bool * bool * bool :=
  (agree_check c, prop_C16 c, match cc_parse c with [] => true | _ => false end).

(* C17: each script is both checked and run *)
Record c17case := mk_c17case { sv_check : ccase; sv_run : icase }.

Definition static_class_errors : list string :=
  ["TypeError"; "UnboundVariableErr"; "UnboundFunctionErr"; "BadArityErr"; "InvalidTypeErr"].
Definition sendall_shape_errors : list string := ["InvalidAllotmentInSendAll"; "InvalidUnboundedInSendAll"].

Definition prop_C17 (c : c17case) : bool :=
  match cc_obs (sv_check c) with
  | CObsPanic _ => true                      (* C18's business *)
  | CObsOk ds _ nerr =>
      let cls := obs_class (ic_obs (sv_run c)) in
      (if Nat.eqb nerr 0 then negb (mem_str cls static_class_errors) else true)
      && (match ds with [] => negb (mem_str cls sendall_shape_errors) | _ => true end)
  end.

Definition judge_C17 (c : c17case) : bool * bool * bool :=
  (agree_check (sv_check c) && agree_full (sv_run c), prop_C17 c,
   match cc_obs (sv_check c) with CObsOk _ _ nerr => Nat.eqb nerr 0 | _ => false end).

(* ======================= C18: editor analysis survives any text ======================= *)
Inductive hobs := HONone | HOVar (r : range) (name : string) | HOFn (r : range) (name : string) | HOPanic.
Inductive gobs := GONone | GORange (r : range) | GOPanic.

Record c18case := mk_c18case {
  ed_check : ccase;
  ed_second : cobs;                               (* the same text analysed a second time *)
  ed_lines : list Z;                              (* length of every line, in characters *)
  ed_hovers : list (Z * Z * hobs);                (* (line, character, result) where the result is not "nothing" *)
  ed_gotos : list (Z * Z * gobs) }.

Definition hobs_eqb (a b : hobs) : bool :=
  match a, b with
  | HONone, HONone | HOPanic, HOPanic => true
  | HOVar r1 n1, HOVar r2 n2 | HOFn r1 n1, HOFn r2 n2 => range_eqb r1 r2 && String.eqb n1 n2
  | _, _ => false
  end.
Definition gobs_eqb (a b : gobs) : bool :=
  match a, b with
  | GONone, GONone | GOPanic, GOPanic => true
  | GORange r1, GORange r2 => range_eqb r1 r2
  | _, _ => false
  end.

Definition model_hover (p : program) (l c : Z) : hobs :=
  match hover_on p (mkpos l c) with
  | Ok None => HONone
  | Ok (Some (HVariable r n)) => HOVar r n
  | Ok (Some (HBuiltin r n)) => HOFn r n
  | _ => HOPanic
  end.
Definition model_goto (p : program) (cs : cstate) (l c : Z) : gobs :=
  match goto_definition p (mkpos l c) cs with
  | Ok None => GONone
  | Ok (Some r) => GORange r
  | _ => GOPanic
  end.

Fixpoint lookup_pos {A} (l c : Z) (m : list (Z * Z * A)) : option A :=
  match m with
  | [] => None
  | (l', c', v) :: m' => if (l =? l') && (c =? c') then Some v else lookup_pos l c m'
  end.

(* every position of the document: (line, 0 .. length + 1) *)
Definition positions (lines : list Z) : list (Z * Z) :=
  flat_map (fun il : nat * Z => map (fun c => (Z.of_nat (fst il), Z.of_nat c)) (seq 0 (Z.to_nat (snd il) + 2)))
           (combine (seq 0 (List.length lines)) lines).

Definition range_sane (lines : list Z) (r : range) : bool :=
  let nl := Z.of_nat (List.length lines) in
  let s := rstart r in let e := rend r in
  (0 <=? pline s) && (pline s <? Z.max nl 1) && (0 <=? pchar s) && (pchar s <=? nth (Z.to_nat (pline s)) lines 0)
  && pos_ge e s.

Definition cobs_same (a b : cobs) : bool :=
  match a, b with
  | CObsOk d1 s1 _, CObsOk d2 s2 _ => multiset_eqb diag_eqb (map fst d1) (map fst d2) && multiset_eqb symbol_eqb s1 s2
  | CObsPanic _, CObsPanic _ => true
  | _, _ => false
  end.

Definition judge_C18 (c : c18case) : bool * bool * bool :=
  let p := cc_prog (ed_check c) in
  let cs := match check_default p (cc_parse (ed_check c)) with Ok cs => cs | _ => initial_cstate [] end in
  let pos := positions (ed_lines c) in
  let agree :=
    agree_check (ed_check c)
    && forallb (fun lc : Z * Z =>
         hobs_eqb (model_hover p (fst lc) (snd lc)) (match lookup_pos (fst lc) (snd lc) (ed_hovers c) with Some h => h | None => HONone end)
         && gobs_eqb (model_goto p cs (fst lc) (snd lc)) (match lookup_pos (fst lc) (snd lc) (ed_gotos c) with Some g => g | None => GONone end)) pos in
  let prop :=
    match cc_obs (ed_check c) with
    | CObsPanic _ => false
    | CObsOk ds _ _ => forallb (fun d : diag * sev_obs => range_sane (ed_lines c) (d_range (fst d))) ds
    end
    && cobs_same (cc_obs (ed_check c)) (ed_second c)
    && forallb (fun h : Z * Z * hobs => match snd h with HOPanic => false | _ => true end) (ed_hovers c)
    && forallb (fun g : Z * Z * gobs => match snd g with GOPanic => false | _ => true end) (ed_gotos c) in
  (agree, prop, match cc_parse (ed_check c) with [] => false | _ => true end).

(* ======================= C19: the language server ======================= *)
From NS Require Import DocStore Navigation.

Inductive lreq :=
| LOpen (uri : string) (tid : nat)
| LChange (uri : string) (tid : nat)
| LHover (uri : string) (l c : Z)
| LDef (uri : string) (l c : Z)
| LSyms (uri : string).

Inductive lobs :=
| LPublished (uri : string) (ds : list (diag * sev_obs))
| LHoverNone
| LHoverVar (r : range) (name ty : string)
| LHoverFn (r : range) (signature : string)      (* the first line of the message, e.g. `balance(account, asset) -> monetary` *)
| LDefNone
| LDefRange (uri : string) (r : range)
| LSymbols (syms : list symbol)
| LNothing
| LPanic.

Record c19case := mk_c19case {
  lc_texts : list (program * list diag);          (* per text id: the dumped tree and the parser's errors *)
  lc_history : list (lreq * lobs);
  lc_wire : bool }.      (* the same history through the `numscript lsp` process (stdin / stdout, Content-Length
                            framing): its stream of responses and notifications equals the in-process one
                            (true when the case was not replayed over the wire) *)

Definition analysis := option document.           (* None: the analysis panicked *)

Definition analyse_text (texts : list (program * list diag)) (tid : nat) : analysis :=
  match nth_error texts tid with
  | Some (p, pd) => match check_default p pd with Ok cs => Some (mkdoc [] p cs) | _ => None end
  | None => None
  end.

Fixpoint join (sep : string) (l : list string) : string :=
  match l with [] => "" | [x] => x | x :: l' => (x ++ sep ++ join sep l')%string end.

Definition fn_signature (name : string) (params : list string) (ret : option string) : string :=
  ("`" ++ name ++ "(" ++ join ", " params ++ ")" ++ match ret with Some r => " -> " ++ r | None => "" end ++ "`")%string.

Definition hover_obs_of (a : analysis) (p : pos) : lobs :=
  match a with
  | None => LHoverNone
  | Some d =>
      match handle_hover d p with
      | Ok None => LHoverNone
      | Ok (Some (AVarHover r n ty)) => LHoverVar r n ty
      | Ok (Some (AFnHover r n ps ret)) => LHoverFn r (fn_signature n ps ret)
      | _ => LPanic
      end
  end.

Definition diags_obs_of (a : analysis) : list (diag * sev_obs) :=
  match a with
  | Some d => map (fun x => (x, match severity_of (d_kind x) with SevError => OSevError | SevWarning => OSevWarning end)) (cs_diags (doc_check d))
  | None => []
  end.

Definition def_obs_of (uri : string) (a : analysis) (p : pos) : lobs :=
  match a with
  | None => LDefNone
  | Some d => match handle_definition d p with Ok None => LDefNone | Ok (Some r) => LDefRange uri r | _ => LPanic end
  end.

Definition syms_obs_of (a : analysis) : lobs :=
  match a with
  | None => LSymbols []
  | Some d => match handle_symbols d with Ok l => LSymbols l | _ => LPanic end
  end.

Definition lobs_eqb (a b : lobs) : bool :=
  match a, b with
  | LPublished u1 d1, LPublished u2 d2 =>
      String.eqb u1 u2
      && list_eqb diag_eqb (filter (fun d => negb (is_unused d)) (map fst d1)) (filter (fun d => negb (is_unused d)) (map fst d2))
      && multiset_eqb diag_eqb (filter is_unused (map fst d1)) (filter is_unused (map fst d2))
      && list_eqb (fun x y : diag * sev_obs => match snd x, snd y with OSevError, OSevError | OSevWarning, OSevWarning => true | _, _ => false end)
                  (filter (fun d => negb (is_unused (fst d))) d1) (filter (fun d => negb (is_unused (fst d))) d2)
  | LHoverNone, LHoverNone | LDefNone, LDefNone | LNothing, LNothing | LPanic, LPanic => true
  | LHoverVar r1 n1 t1, LHoverVar r2 n2 t2 => range_eqb r1 r2 && String.eqb n1 n2 && String.eqb t1 t2
  | LHoverFn r1 s1, LHoverFn r2 s2 => range_eqb r1 r2 && String.eqb s1 s2
  | LDefRange u1 r1, LDefRange u2 r2 => String.eqb u1 u2 && range_eqb r1 r2
  | LSymbols s1, LSymbols s2 => multiset_eqb symbol_eqb s1 s2
  | _, _ => false
  end.

(* the server as implemented (analysis stored at open/change time) and the specification (fresh
   analysis of the latest text), both as folds over the history *)
Fixpoint lsp_impl (texts : list (program * list diag)) (st : list (string * (nat * analysis))) (h : list lreq) : list lobs :=
  match h with
  | [] => []
  | r :: h' =>
      match r with
      | LOpen u t | LChange u t => let a := analyse_text texts t in LPublished u (diags_obs_of a) :: lsp_impl texts (aset u (t, a) st) h'
      | LHover u l c => (match alookup u st with Some d => hover_obs_of (snd d) (mkpos l c) | None => LHoverNone end) :: lsp_impl texts st h'
      | LDef u l c => (match alookup u st with Some d => def_obs_of u (snd d) (mkpos l c) | None => LDefNone end) :: lsp_impl texts st h'
      | LSyms u => (match alookup u st with Some d => syms_obs_of (snd d) | None => LSymbols [] end) :: lsp_impl texts st h'
      end
  end.

Fixpoint lsp_spec (texts : list (program * list diag)) (st : list (string * nat)) (h : list lreq) : list lobs :=
  match h with
  | [] => []
  | r :: h' =>
      match r with
      | LOpen u t | LChange u t => LPublished u (diags_obs_of (analyse_text texts t)) :: lsp_spec texts (aset u t st) h'
      | LHover u l c => (match alookup u st with Some t => hover_obs_of (analyse_text texts t) (mkpos l c) | None => LHoverNone end) :: lsp_spec texts st h'
      | LDef u l c => (match alookup u st with Some t => def_obs_of u (analyse_text texts t) (mkpos l c) | None => LDefNone end) :: lsp_spec texts st h'
      | LSyms u => (match alookup u st with Some t => syms_obs_of (analyse_text texts t) | None => LSymbols [] end) :: lsp_spec texts st h'
      end
  end.

(* ---- navigation, from the independent traversal of Spec/Names: what a position denotes ---- *)
Record nav_use := mk_nav_use { nu_range : range; nu_name : string; nu_decl : option (range * string) }.   (* declaration: name range, type *)

Fixpoint nav_uses (declared : list (string * (range * string))) (es : list event) (decls : list vardecl) : list nav_use :=
  match es with
  | [] => []
  | Declare n r :: es' =>
      (* the declared type is the one of the first declaration of that name *)
      let ty := match find (fun d => match vd_name d with Some (r', n') => String.eqb n n' && range_eqb r r' | None => false end) decls with
                | Some d => match vd_type d with Some (_, t) => t | None => "" end
                | None => "" end in
      nav_uses (if amem n declared then declared else declared ++ [(n, (r, ty))]) es' decls
  | Use n r :: es' => mk_nav_use r n (alookup n declared) :: nav_uses declared es' decls
  end.

Definition resolved_calls (p : program) : list (range * string) :=
  flat_map (fun d => match vd_origin d with
                     | Some f => match find_builtin (fc_caller f) with
                                 | Some b => match b_ctx b with CtxOrigin => [(fc_caller_range f, fc_caller f)] | _ => [] end
                                 | None => [] end
                     | None => [] end) (p_vars p)
  ++ flat_map (fun s => match s with
                        | StFnCall f => match find_builtin (fc_caller f) with
                                        | Some b => match b_ctx b with CtxStatement => [(fc_caller_range f, fc_caller f)] | _ => [] end
                                        | None => [] end
                        | _ => [] end) (p_stmts p).

Definition strictly_inside (r : range) (p : pos) : bool :=
  pos_ge p (rstart r) && pos_ge (rend r) p && negb (pos_ge p (rend r)).
Definition at_end (r : range) (p : pos) : bool := (pline p =? pline (rend r)) && (pchar p =? pchar (rend r)).

Definition nav_info := (list nav_use * list (range * string))%type.
Definition nav_info_of (p : program) : nav_info := (nav_uses [] (events p) (p_vars p), resolved_calls p).

Definition nav_ok (ni : nav_info) (uri : string) (req : lreq) (o : lobs) : bool :=
  let uses := fst ni in
  let calls := snd ni in
  let judge (pos0 : pos) (is_hover : bool) :=
    if existsb (fun u => at_end (nu_range u) pos0) uses || existsb (fun c : range * string => at_end (fst c) pos0) calls
    then true      (* Range.Contains is end-inclusive: either neighbour, or nothing, is acceptable at a boundary *)
    else
      match find (fun u => strictly_inside (nu_range u) pos0) uses with
      | Some u =>
          match nu_decl u with
          | Some (dr, ty) => if is_hover then lobs_eqb o (LHoverVar (nu_range u) (nu_name u) ty) else lobs_eqb o (LDefRange uri dr)
          | None => if is_hover then lobs_eqb o LHoverNone else lobs_eqb o LDefNone
          end
      | None =>
          match find (fun c : range * string => strictly_inside (fst c) pos0) calls with
          | Some c =>
              if is_hover then match o with LHoverFn r sg => range_eqb r (fst c) && String.prefix ("`" ++ snd c ++ "(") sg | _ => false end
              else lobs_eqb o LDefNone
          | None => if is_hover then lobs_eqb o LHoverNone else lobs_eqb o LDefNone
          end
      end in
  match req with
  | LHover _ l c => judge (mkpos l c) true
  | LDef _ l c => judge (mkpos l c) false
  | _ => true
  end.

(* navigation is judged on documents whose text parses without error (computed once per text) *)
Fixpoint nav_all (infos : list (option nav_info)) (st : list (string * nat)) (h : list (lreq * lobs)) : bool :=
  match h with
  | [] => true
  | (r, o) :: h' =>
      let st' := match r with LOpen u t | LChange u t => aset u t st | _ => st end in
      let u := match r with LOpen u _ | LChange u _ | LHover u _ _ | LDef u _ _ | LSyms u => u end in
      (match alookup u st with
       | Some t => match nth_error infos t with
                   | Some (Some ni) => nav_ok ni u r o
                   | _ => true
                   end
       | None => true
       end) && nav_all infos st' h'
  end.

Definition judge_C19 (c : c19case) : bool * bool * bool :=
  let reqs := map fst (lc_history c) in
  let obs := map snd (lc_history c) in
  (list_eqb lobs_eqb (lsp_impl (lc_texts c) [] reqs) obs,
   list_eqb lobs_eqb (lsp_spec (lc_texts c) [] reqs) obs
   && forallb (fun o => match o with LPanic => false | _ => true end) obs
   && nav_all (map (fun t : program * list diag => match snd t with [] => Some (nav_info_of (fst t)) | _ => None end) (lc_texts c)) [] (lc_history c)
   (* the hypothesis of C19_navigation_exact: in a tree parsed without error every node's range encloses the targets below it *)
   && forallb (fun t : program * list diag => match snd t with [] => nested (fst t) && distinct_ranges (fst t) | _ => true end) (lc_texts c)
   && lc_wire c,
   negb (Nat.eqb (List.length (lc_history c)) 0)).

(* ======================= C20: the command line ======================= *)
Inductive cli_obs :=
| CliOk (ps : list posting) (txm : list (string * string)) (am : metadata)     (* exit 0, decoded JSON *)
| CliErr (exit : Z) (stderr_starts_with_library_message : bool)
| CliOther (exit : Z) (what : string).

Record c20case := mk_c20case {
  cl_check : ccase;                         (* the library's analysis of the script *)
  cl_check_exit : Z;                        (* exit status of `numscript check FILE` *)
  cl_check_printed : list (Z * Z);          (* the positions printed by it *)
  cl_run : icase;                           (* the library's execution (bundled static store) *)
  cl_channels : list (string * cli_obs) }.  (* `numscript run` through --raw, --stdin, file flags *)

Definition zpair_eqb (a b : Z * Z) : bool := (fst a =? fst b) && (snd a =? snd b).

Definition prop_C20 (c : c20case) : bool :=
  (match cc_obs (cl_check c) with
   | CObsOk ds _ nerr =>
       (cl_check_exit c =? (if Nat.eqb nerr 0 then 0 else 1))
       && multiset_eqb zpair_eqb (map (fun d : diag * sev_obs => (pline (rstart (d_range (fst d))), pchar (rstart (d_range (fst d))))) ds) (cl_check_printed c)
   | CObsPanic _ => true
   end)
  && forallb (fun ch : string * cli_obs =>
       match ic_obs (cl_run c), snd ch with
       | ObsOk ps txm am _, CliOk ps' txm' am' =>
           list_eqb posting_eqb ps ps'
           && amap_eqb String.eqb (map (fun kv : string * value => (fst kv, value_string (snd kv))) txm) txm'
           && metadata_eqb am am'
       | ObsErr _ _ _, CliErr code starts => (code =? 1) && starts
       | _, _ => false
       end) (cl_channels c).

Definition judge_C20 (c : c20case) : bool * bool * bool :=
  (agree_check (cl_check c) && agree_full (cl_run c), prop_C20 c, true).

(* ======================= C13: exact meaning of values across texts ======================= *)
From NS Require Import Conv Decimal.

Record c13case := mk_c13case {
  pc_text : string;                 (* a portion text of the literal grammar *)
  pc_lit : icase;                   (* set_tx_meta("lit", TEXT) *)
  pc_var : icase }.                 (* vars { portion $p }  set_tx_meta("var", $p)   with p = TEXT *)

Definition txmeta_value (o : observed) (k : string) : option value :=
  match o with ObsOk _ txm _ _ => alookup k txm | _ => None end.

Definition find_ratio_arg (p : program) : option (Z * Z) :=
  match p_stmts p with
  | StFnCall f :: _ => match fc_args f with [_; ERatio _ n d] => Some (n, d) | _ => None end
  | _ => None
  end.

Definition prop_C13_portion (c : c13case) : bool :=
  match portion_denotes (pc_text c) with
  | Some (n, Zpos d) =>
      let q := n # d in
      (match txmeta_value (ic_obs (pc_lit c)) "lit" with Some (VPortion x) => Qeq_bool x q | _ => false end)
      && (if Qle_bool 0 q && Qle_bool q 1
          then match txmeta_value (ic_obs (pc_var c)) "var" with Some (VPortion x) => Qeq_bool x q | _ => false end
          else obs_is_err (ic_obs (pc_var c)) "BadPortionParsingErr")
  | Some (_, _) =>       (* zero denominator: an error, never a crash, in both forms *)
      obs_is_err (ic_obs (pc_lit c)) "BadPortionParsingErr" && obs_is_err (ic_obs (pc_var c)) "BadPortionParsingErr"
  | None => false
  end.

Definition judge_C13_portion (c : c13case) : bool * bool * bool :=
  (agree_full (pc_lit c) && agree_full (pc_var c)
   && match find_ratio_arg (ic_prog (pc_lit c)), portion_literal (pc_text c) with
      | Some (n, d), Some (n', d') => (n =? n') && (d =? d')
      | None, _ => true          (* the literal did not reach the tree (parse error): judged by the predicate *)
      | _, _ => false
      end,
   prop_C13_portion c, true).

Record c13rt := mk_c13rt {
  rt_type : string;
  rt_first : icase;                 (* writes the value to account metadata and to transaction metadata *)
  rt_json_text : string;            (* the transaction metadata value as serialised to JSON, decoded *)
  rt_second : option icase;         (* reads it back through a metadata-backed variable of the same type *)
  rt_plain : option icase;          (* reads the same text as a plain variable *)
  rt_given : option string }.       (* when the value written is just a variable given in canonical form: that very text *)

Definition prop_C13_roundtrip (c : c13rt) : bool :=
  match ic_obs (rt_first c) with
  | ObsOk _ txm am _ =>
      match alookup "k" txm, acc_meta_get am "acct" "k" with
      | Some v, Some text =>
          String.eqb text (rt_json_text c)
          && match rt_given c with Some t => String.eqb text t | None => true end
          && (match rt_second c with
              | Some s => match txmeta_value (ic_obs s) "back" with Some v' => value_eqb v v' | None => false end
              | None => false end)
          && (match rt_plain c with
              | Some s => match txmeta_value (ic_obs s) "back" with Some v' => value_eqb v v' | None => false end
              | None => false end)
      | _, _ => false
      end
  | _ =>
      (* the first script fails: nothing was written. Fine when it is ill-typed on purpose - not when all it does
         is write a variable that was given a well-formed text of its type *)
      match rt_given c with Some _ => false | None => true end
  end.

Definition judge_C13_roundtrip (c : c13rt) : bool * bool * bool :=
  (agree_full (rt_first c)
   && match rt_second c with Some s => agree_full s | None => true end
   && match rt_plain c with Some s => agree_full s | None => true end,
   prop_C13_roundtrip c,
   match ic_obs (rt_first c) with ObsOk _ _ _ _ => true | _ => false end).

(* ======================= C14 / C15: the parser ======================= *)
From NS Require Export Parser AstEq Render.

Inductive pobs :=
| PObs (errors : list (range * string)) (rendering_ok : bool)    (* parser errors; ParseErrorsToString did not panic *)
| PPanic (msg : string).

Record c14case := mk_c14case {
  pt_text : list Z;                   (* code points *)
  pt_lines : list Z;                  (* length of every line, in characters *)
  pt_blines : list Z;                 (* length of every line, in bytes *)
  pt_gen_valid : bool;                (* produced by the grammar-complete generator without any mutation *)
  pt_waive_acceptance : bool;         (* input matches the signature of finding F-D10: only acceptance is waived *)
  pt_tree : program;                  (* the dumped tree *)
  pt_obs : pobs }.

Definition pos_inside (lines : list Z) (p : pos) : bool :=
  let nl := Z.of_nat (List.length lines) in
  (0 <=? pline p) && (pline p <? Z.max nl 1) && (0 <=? pchar p) && (pchar p <=? nth (Z.to_nat (pline p)) lines 0).

Definition judge_C14 (c : c14case) : bool * bool * bool :=
  let ref := parse_text (pt_text c) in
  let nerr := match pt_obs c with PObs es _ => List.length es | PPanic _ => O end in
  let agree := match ref, pt_obs c with
               | Parsed p, PObs [] _ => program_eqb p (pt_tree c)
               | ParsedOutOfRange _ n, PObs es _ => Nat.eqb (List.length es) n
               | Rejected, PObs (_ :: _) _ => true
               | _, _ => false
               end
               (* the model of Range.ShowOnSource predicts whether rendering panics *)
               && match pt_obs c with
                  | PObs es rendering_ok =>
                      Bool.eqb rendering_ok (forallb (fun e : range * string => show_on_source_ok (pt_blines c) (fst e)) es)
                  | PPanic _ => true
                  end in
  let prop :=
    match pt_obs c with
    | PPanic _ => false
    | PObs es rendering_ok =>
        rendering_ok
        && forallb (fun e : range * string => pos_inside (pt_lines c) (rstart (fst e))) es
        && (if pt_waive_acceptance c then true
            else
              (* a valid script is accepted with zero errors, any other input has at least one *)
              (if pt_gen_valid c then Nat.eqb nerr 0 else true)
              && match ref with
                 | Parsed _ | ParsedOutOfRange _ _ => Nat.eqb nerr 0
                 | Rejected => negb (Nat.eqb nerr 0)
                 end)
    end in
  (agree, prop, negb (pt_gen_valid c)).

Record c15case := mk_c15case {
  pr_text : list Z;
  pr_expected : program;              (* the generator's own tree, with the spans recorded by the printer *)
  pr_parsed : program;                (* the dumped tree *)
  pr_errors : nat }.

Definition judge_C15 (c : c15case) : bool * bool * bool :=
  (match parse_text (pr_text c) with
   | Parsed p => Nat.eqb (pr_errors c) 0 && program_eqb p (pr_parsed c)
   | ParsedOutOfRange _ n => Nat.eqb (pr_errors c) n
   | Rejected => negb (Nat.eqb (pr_errors c) 0)
   end,
   Nat.eqb (pr_errors c) 0 && program_eqb (pr_expected c) (pr_parsed c),
   true).

(* ---- C15, token level: the implementation's own lexer against the reference lexer ---- *)
Definition tkind_of_name (n : string) : option tkind :=
  if String.eqb n "PLUS" then Some TPlus else if String.eqb n "VARS" then Some TVars else if String.eqb n "MAX" then Some TMax
  else if String.eqb n "SOURCE" then Some TSource else if String.eqb n "DESTINATION" then Some TDestination
  else if String.eqb n "SEND" then Some TSend else if String.eqb n "FROM" then Some TFrom else if String.eqb n "UP" then Some TUp
  else if String.eqb n "TO" then Some TTo else if String.eqb n "REMAINING" then Some TRemaining
  else if String.eqb n "ALLOWING" then Some TAllowing else if String.eqb n "UNBOUNDED" then Some TUnbounded
  else if String.eqb n "OVERDRAFT" then Some TOverdraft else if String.eqb n "KEPT" then Some TKept else if String.eqb n "SAVE" then Some TSave
  else if String.eqb n "LPARENS" then Some TLParens else if String.eqb n "RPARENS" then Some TRParens
  else if String.eqb n "LBRACKET" then Some TLBracket else if String.eqb n "RBRACKET" then Some TRBracket
  else if String.eqb n "LBRACE" then Some TLBrace else if String.eqb n "RBRACE" then Some TRBrace
  else if String.eqb n "COMMA" then Some TComma else if String.eqb n "EQ" then Some TEq else if String.eqb n "STAR" then Some TStar
  else if String.eqb n "MINUS" then Some TMinus else if String.eqb n "RATIO_PORTION_LITERAL" then Some TRatio
  else if String.eqb n "PERCENTAGE_PORTION_LITERAL" then Some TPercent else if String.eqb n "STRING" then Some TString
  else if String.eqb n "IDENTIFIER" then Some TIdentifier else if String.eqb n "NUMBER" then Some TNumber
  else if String.eqb n "VARIABLE_NAME" then Some TVarName else if String.eqb n "ACCOUNT" then Some TAccount
  else if String.eqb n "ASSET" then Some TAsset else None.

Record tokcase := mk_tokcase {
  tt_text : list Z;
  tt_tokens : list (string * list Z * Z * Z);     (* symbolic name, text, line (0-based), column in code points *)
  tt_errors : list (Z * Z) }.                     (* token recognition errors: line (0-based), column *)

Definition zlist_eqb (a b : list Z) : bool := list_eqb Z.eqb a b.

Definition tok_matches (t : token) (o : string * list Z * Z * Z) : bool :=
  let '(n, txt, ln, col) := o in
  match tkind_of_name n with
  | Some k => tk_is k t && zlist_eqb (tk_text t) txt && (tk_line t =? ln) && (tk_col t =? col)
  | None => false
  end.

(* positions of the implementation's tokens are exact: each token's text is found in the text at the
   offset its (line, column) designates, and tokens do not overlap and come in order *)
Fixpoint offset_of (l : list Z) (line col : Z) (cur_line cur_col : Z) (off : nat) : option nat :=
  if (cur_line =? line) && (cur_col =? col) then Some off
  else match l with
       | [] => None
       | c :: l' => if c =? 10 then offset_of l' line col (cur_line + 1) 0 (S off) else offset_of l' line col cur_line (cur_col + 1) (S off)
       end.

Fixpoint tokens_in_text (text : list Z) (min_off : nat) (toks : list (string * list Z * Z * Z)) : bool :=
  match toks with
  | [] => true
  | (_, txt, ln, col) :: rest =>
      match offset_of text ln col 0 0 O with
      | Some off =>
          (min_off <=? off)%nat && zlist_eqb (firstn (List.length txt) (skipn off text)) txt
          && tokens_in_text text (off + List.length txt) rest
      | None => false
      end
  end.

Fixpoint list_match {A B} (f : A -> B -> bool) (l1 : list A) (l2 : list B) : bool :=
  match l1, l2 with
  | [], [] => true
  | x :: l1', y :: l2' => f x y && list_match f l1' l2'
  | _, _ => false
  end.

Definition judge_C15_tokens (c : tokcase) : bool * bool * bool :=
  let '(toks, errs) := lex_text (tt_text c) in
  (list_match tok_matches toks (tt_tokens c)
   && list_eqb (fun a b : Z * Z => (fst a =? fst b) && (snd a =? snd b)) errs (tt_errors c),
   tokens_in_text (tt_text c) O (tt_tokens c),
   true).
