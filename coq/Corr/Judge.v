(* Judges: for each property, (does the model agree with the observation?, does the property
   predicate hold on the observation?, is the case non-trivial?). Generated case files import
   this module only. *)
From NS Require Export Observe.

Definition judge_full (c : icase) : bool * bool * bool := (agree_full c, true, true).

(* ---------------- C07: interpreter.Reconcile called directly ---------------- *)
From NS Require Import Pairing.

Record rcase := mk_rcase {
  rc_asset : string;
  rc_S : list entry;
  rc_R : list entry;
  rc_obs : option (list posting) }.      (* None: the call panicked *)

Definition names (l : list entry) : list string := nodup string_dec (map fst l).

(* the property, as a boolean function of the observed postings *)
Definition prop_C07 (asset : string) (S R : list entry) (ps : list posting) : bool :=
  forallb (fun s => forallb (fun d => String.eqb d KEPT_ADDR || (flow ps s d =? flow_iv S R s d)) (names R)) (names S)
  && forallb (fun p => (0 <? pamt p) && negb (String.eqb (pdst p) KEPT_ADDR) && mem_str (psrc p) (names S)
                       && mem_str (pdst p) (names R) && String.eqb (passet p) asset) ps.

Definition judge_C07_direct (c : rcase) : bool * bool * bool :=
  let agree := match reconcile (rc_asset c) (rc_S c) (rc_R c), rc_obs c with
               | Some ps, Some qs => list_eqb posting_eqb ps qs
               | _, _ => false end in
  let prop := match rc_obs c with Some qs => prop_C07 (rc_asset c) (rc_S c) (rc_R c) qs | None => false end in
  (agree, prop, negb (Nat.eqb (List.length (rc_S c)) 0) && negb (Nat.eqb (List.length (rc_R c)) 0)).

(* C07 on whole sends: the postings of the (last) send pair the model's draw list with its distribution list *)
Definition judge_C07_send (c : icase) : bool * bool * bool :=
  let agree := agree_postings c in
  match model_last_send c, ic_obs c with
  | Ok (Some ls), ObsOk ps _ _ _ =>
      match send_lists (ls_env ls) (ls_sv ls) (ls_src ls) (ls_dst ls) (ls_cache ls) with
      | Ok (asset, sl, rl) =>
          let own := skipn (List.length (ls_prefix_postings ls)) ps in
          (agree, prop_C07 asset sl rl own,
           negb (Nat.eqb (List.length sl) 0) && negb (Nat.eqb (List.length rl) 0))
      | _ => (agree, true, false)
      end
  | _, _ => (agree, true, false)
  end.
