(* What the harness observes of the implementation, the stores it runs it against, and the
   comparison of those observations with the model's outcome. Executable only. *)
From Coq Require Import Ascii.
From NS Require Export Run.

(* bytes -> string, for text that is not printable ASCII *)
Fixpoint bs (l : list Z) : string :=
  match l with [] => EmptyString | n :: l' => String (ascii_of_N (Z.to_N n)) (bs l') end.

Inductive store_kind := SKStatic | SKExact | SKSparse | SKSuperset | SKPoison.

(* what the poisoning store adds to every cell nobody asked for *)
Definition POISON : Z := 1000003.

Definition answer_balances (k : store_kind) (B : balances) (q : bquery) : balances :=
  match k with
  | SKStatic | SKSuperset => B
  | SKExact =>
      flat_map (fun e : string * list string => map (fun c => ((fst e, c), bget B (fst e) c)) (snd e)) q
  | SKSparse =>
      flat_map (fun e : string * list string =>
        flat_map (fun c => match bfind (fst e, c) B with
                           | Some v => if v =? 0 then [] else [((fst e, c), v)]
                           | None => [] end) (snd e)) q
  | SKPoison =>
      (* the requested cells at their value, then its whole content with every cell that was NOT
         requested off by POISON: an answer may contain anything on top of what was asked, and
         nothing of it may be used *)
      flat_map (fun e : string * list string => map (fun c => ((fst e, c), bget B (fst e) c)) (snd e)) q
      ++ flat_map (fun e : cell * Z => if requested q (fst e) then [] else [(fst e, snd e + POISON)]) B
  end.

Definition answer_meta (k : store_kind) (M : metadata) (account key : string) : metadata :=
  match k with
  | SKStatic | SKSuperset => M
  | SKExact | SKSparse | SKPoison =>
      match alookup account M with
      | Some am => match alookup key am with Some v => [(account, [(key, v)])] | None => [] end
      | None => []
      end
  end.

Definition injected_failure := "injected store failure".

Definition mk_store (k : store_kind) (B : balances) (M : metadata) (fail : option nat) : store :=
  fun i call =>
    if match fail with Some f => Nat.eqb f i | None => false end then AnsError injected_failure
    else match call with
         | CallBalances q => AnsBalances (answer_balances k B q)
         | CallMeta a key => AnsMeta (answer_meta k M a key)
         end.

Inductive observed :=
| ObsOk (ps : list posting) (txm : list (string * value)) (am : metadata) (log : list store_call)
| ObsErr (name : string) (result_empty : bool) (msg : string)
| ObsPanic (msg : string).

Record icase := mk_icase {
  ic_prog : program;
  ic_vars : list (string * string);
  ic_bal : balances;
  ic_meta : metadata;
  ic_kind : store_kind;
  ic_fail : option nat;
  ic_flag : bool;
  ic_obs : observed }.

Definition case_store (c : icase) : store := mk_store (ic_kind c) (ic_bal c) (ic_meta c) (ic_fail c).
Definition model_outcome (c : icase) : res exec_result :=
  run_program (ic_prog c) (ic_vars c) (case_store c) (ic_flag c).

(* ---- equality of observables ---- *)
Definition posting_eqb (a b : posting) : bool :=
  String.eqb (psrc a) (psrc b) && String.eqb (pdst a) (pdst b) && (pamt a =? pamt b) && String.eqb (passet a) (passet b).

Fixpoint list_eqb {A} (eqb : A -> A -> bool) (l1 l2 : list A) : bool :=
  match l1, l2 with
  | [], [] => true
  | x :: l1', y :: l2' => eqb x y && list_eqb eqb l1' l2'
  | _, _ => false
  end.

Definition value_eqb (a b : value) : bool :=
  match a, b with
  | VString x, VString y => String.eqb x y
  | VAsset x, VAsset y => String.eqb x y
  | VAccount x, VAccount y => String.eqb x y
  | VNumber x, VNumber y => x =? y
  | VMonetary a1 n1, VMonetary a2 n2 => String.eqb a1 a2 && (n1 =? n2)
  | VPortion p, VPortion q => Qeq_bool p q
  | _, _ => false
  end.

(* maps: same keys, equal values (order-insensitive, last binding of a key wins on neither side:
   both sides are produced without duplicate keys) *)
Definition amap_eqb {A} (eqb : A -> A -> bool) (m1 m2 : list (string * A)) : bool :=
  Nat.eqb (List.length m1) (List.length m2) &&
  forallb (fun kv : string * A => match alookup (fst kv) m2 with Some v => eqb (snd kv) v | None => false end) m1.

Definition metadata_eqb (m1 m2 : metadata) : bool :=
  (* an account with an empty key map never appears on the implementation side *)
  amap_eqb (amap_eqb String.eqb) m1 m2.

Definition call_eqb (a b : store_call) : bool :=
  match a, b with
  | CallBalances q1, CallBalances q2 => amap_eqb (list_eqb String.eqb) q1 q2
  | CallMeta a1 k1, CallMeta a2 k2 => String.eqb a1 a2 && String.eqb k1 k2
  | _, _ => false
  end.

Definition outcome_class {A} (m : res A) : string :=
  match m with Ok _ => "ok" | Err e => err_name e | Panic _ => "panic" end.
Definition obs_class (o : observed) : string :=
  match o with ObsOk _ _ _ _ => "ok" | ObsErr n _ _ => n | ObsPanic _ => "panic" end.

(* full agreement: same outcome class, and on success the same postings (in order), metadata and store calls *)
Definition agree_full (c : icase) : bool :=
  match model_outcome c, ic_obs c with
  | Ok x, ObsOk ps txm am log =>
      list_eqb posting_eqb (x_postings x) ps && amap_eqb value_eqb (x_txmeta x) txm
      && metadata_eqb (x_accmeta x) am && list_eqb call_eqb (x_log x) log
  | Err e, ObsErr n _ _ => String.eqb (err_name e) n
  | Panic _, ObsPanic _ => true
  | _, _ => false
  end.

(* agreement on outcome class and postings only *)
Definition agree_postings (c : icase) : bool :=
  match model_outcome c, ic_obs c with
  | Ok x, ObsOk ps _ _ _ => list_eqb posting_eqb (x_postings x) ps
  | Err e, ObsErr n _ _ => String.eqb (err_name e) n
  | Panic _, ObsPanic _ => true
  | _, _ => false
  end.

(* ---- verdict encoding: one character per case ----
   bit 0: model and implementation agree on the projection compared
   bit 1: the property predicate holds on the implementation's output
   bit 2: the case is non-trivial for the property *)
Definition verdict_char (agree prop nontrivial : bool) : ascii :=
  ascii_of_nat (97 + (if agree then 1 else 0) + (if prop then 2 else 0) + (if nontrivial then 4 else 0)).

Fixpoint verdict_string {C} (judge : C -> bool * bool * bool) (cs : list C) : string :=
  match cs with
  | [] => EmptyString
  | c :: cs' => let '(a, p, n) := judge c in String (verdict_char a p n) (verdict_string judge cs')
  end.

(* ---- the model's view of the LAST statement of a script (used by the single-send judges) ---- *)
Fixpoint split_last {A} (l : list A) : option (list A * A) :=
  match l with
  | [] => None
  | [x] => Some ([], x)
  | x :: l' => match split_last l' with Some (i, z) => Some (x :: i, z) | None => None end
  end.

Record last_send := mk_last_send {
  ls_env : env;
  ls_cache : balances;          (* cache when the last statement starts *)
  ls_sv : sent; ls_src : source; ls_dst : dest;
  ls_prefix_postings : list posting }.

Definition model_last_send (c : icase) : res (option last_send) :=
  match split_last (p_stmts (ic_prog c)) with
  | Some (pre, StSend _ sv src dst) =>
      '(vs, rs) <- prepare (ic_prog c) (ic_vars c) (case_store c) (ic_flag c) ;;
      '(ps, st) <- run_stmts vs pre (mkstate (rs_cache rs) [] []) ;;
      Ok (Some (mk_last_send vs (st_cache st) sv src dst ps))
  | _ => Ok None
  end.
