(* placeholder, regenerated *)
