(* interpreter.go: makeAllotment *)
From Coq Require Import Qround.
From NS Require Export Eval.

(* floor share: (allot * monetary).Num() / .Denom() with big.Int.Div (Euclidean; denominator > 0) *)
Definition fshare (n : Z) (p : Q) : Z := Qfloor (p * inject_Z n).

Definition qsum (ps : list Q) : Q := fold_right Qplus 0%Q ps.

(* the second loop of makeAllotment: one more unit for the earliest parts while the total is short *)
Fixpoint bump (deficit : Z) (xs : list Z) : list Z :=
  match xs with
  | [] => []
  | x :: xs' => if 0 <? deficit then (x + 1) :: bump (deficit - 1) xs' else x :: bump deficit xs'
  end.

Definition shares (n : Z) (ps : list Q) : list Z :=
  let fl := map (fshare n) ps in bump (n - zsum fl) fl.

(* first loop: evaluate the clauses; a remaining clause contributes a placeholder *)
Inductive aportion := PFixed (q : Q) | PRemaining.

Fixpoint eval_allots (vs : env) (items : list allot) : res (list aportion) :=
  match items with
  | [] => Ok []
  | a :: items' =>
      p <- match a with
           | ARatio _ n d =>
               match d with
               | Z0 => Err BadPortionParsingErr
               | Zpos dp => Ok (Some (PFixed (n # dp)))
               | Zneg dp => Ok (Some (PFixed ((- n) # dp)))
               end
           | AVar r name => q <- eval_as vs (EVar r name) expect_portion ;; Ok (Some (PFixed q))
           | ARemaining _ => Ok (Some PRemaining)
           | ANil => Ok None                   (* no case of the type switch matches: nothing is appended *)
           | ANilRatio => Panic "makeAllotment: nil RatioLiteral pointer"  (* the case matches, the field access panics *)
           end ;;
      ps <- eval_allots vs items' ;;
      Ok (match p with Some p => p :: ps | None => ps end)
  end.

Definition fixed_total (ps : list aportion) : Q :=
  qsum (map (fun p => match p with PFixed q => q | PRemaining => 0%Q end) ps).

(* index of the LAST remaining clause (remainingAllotmentIndex is overwritten) *)
Fixpoint last_remaining (ps : list aportion) (i : nat) (acc : option nat) : option nat :=
  match ps with
  | [] => acc
  | PRemaining :: ps' => last_remaining ps' (S i) (Some i)
  | _ :: ps' => last_remaining ps' (S i) acc
  end.

Fixpoint resolve (ps : list aportion) (i : nat) (ri : nat) (rem : Q) : list Q :=
  match ps with
  | [] => []
  | PFixed q :: ps' => q :: resolve ps' (S i) ri rem
  | PRemaining :: ps' => (if Nat.eqb i ri then rem else 0%Q) :: resolve ps' (S i) ri rem
  end.

Definition portions_of (ps : list aportion) : res (list Q) :=
  let total := fixed_total ps in
  match last_remaining ps 0 None with
  | Some ri =>
      if Qle_bool total 1 then Ok (resolve ps 0 ri (1 - total)%Q)
      else Err InvalidAllotmentSum
  | None =>
      if Qeq_bool total 1 then Ok (resolve ps 0 0 0%Q) else Err InvalidAllotmentSum
  end.

Definition make_allotment (vs : env) (monetary : Z) (items : list allot) : res (list Z) :=
  aps <- eval_allots vs items ;;
  ps <- portions_of aps ;;
  let parts := shares monetary ps in
  (* a nil allotment leaves the slice shorter than the clause list; the callers index it by clause *)
  if Nat.eqb (List.length parts) (List.length items) then Ok parts
  else Panic "makeAllotment: index out of range".
