(* Base definitions shared by the whole model: outcome monad, string maps. No proofs here. *)
From Coq Require Export List ZArith String Bool QArith.
Export ListNotations.
Open Scope string_scope.
Open Scope list_scope.
Open Scope Z_scope.

(* Outcome of a Go function that may return an error value or panic. *)
Inductive result (E A : Type) : Type :=
| Ok (a : A)
| Err (e : E)
| Panic (why : string).
Arguments Ok {E A} a.
Arguments Err {E A} e.
Arguments Panic {E A} why.

Definition bind {E A B} (m : result E A) (f : A -> result E B) : result E B :=
  match m with
  | Ok a => f a
  | Err e => Err e
  | Panic w => Panic w
  end.

Declare Scope res_scope.
Notation "x <- m ;; f" := (bind m (fun x => f)) (at level 61, m at next level, right associativity) : res_scope.
Notation "' pat <- m ;; f" := (bind m (fun x => match x with pat => f end))
  (at level 61, pat pattern, m at next level, right associativity) : res_scope.
Open Scope res_scope.

Definition is_ok {E A} (m : result E A) : bool := match m with Ok _ => true | _ => false end.
Definition is_panic {E A} (m : result E A) : bool := match m with Panic _ => true | _ => false end.

(* association lists keyed by strings *)
Fixpoint alookup {A} (k : string) (m : list (string * A)) : option A :=
  match m with
  | [] => None
  | (k', v) :: m' => if String.eqb k k' then Some v else alookup k m'
  end.

(* Go: m[k] = v  (replace in place when present, else append) *)
Fixpoint aset {A} (k : string) (v : A) (m : list (string * A)) : list (string * A) :=
  match m with
  | [] => [(k, v)]
  | (k', v') :: m' => if String.eqb k k' then (k, v) :: m' else (k', v') :: aset k v m'
  end.

Definition amem {A} (k : string) (m : list (string * A)) : bool :=
  match alookup k m with Some _ => true | None => false end.

Definition keys {A} (m : list (string * A)) : list string := map fst m.

Fixpoint mem_str (s : string) (l : list string) : bool :=
  match l with [] => false | x :: l' => String.eqb s x || mem_str s l' end.

(* two-level balances: (account, asset) -> amount, flat association list *)
Definition cell := (string * string)%type.
Definition cell_eqb (a b : cell) : bool := String.eqb (fst a) (fst b) && String.eqb (snd a) (snd b).
Definition balances := list (cell * Z).

Fixpoint bfind (k : cell) (m : balances) : option Z :=
  match m with
  | [] => None
  | (k', v) :: m' => if cell_eqb k k' then Some v else bfind k m'
  end.
Definition bget (m : balances) (acct asset : string) : Z :=
  match bfind (acct, asset) m with Some v => v | None => 0 end.
Definition bmem (m : balances) (acct asset : string) : bool :=
  match bfind (acct, asset) m with Some _ => true | None => false end.
Fixpoint bset (k : cell) (v : Z) (m : balances) : balances :=
  match m with
  | [] => [(k, v)]
  | (k', v') :: m' => if cell_eqb k k' then (k, v) :: m' else (k', v') :: bset k v m'
  end.

(* Sender / Receiver of reconciler.go: a name and an amount *)
Definition entry := (string * Z)%type.

(* Posting of reconciler.go *)
Record posting := mkposting { psrc : string; pdst : string; pamt : Z; passet : string }.

Definition zsum (xs : list Z) : Z := fold_right Z.add 0 xs.
