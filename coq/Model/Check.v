(* analysis/check.go, diagnostic_kind.go, document_symbols.go: the static checker.
   Go maps keyed by AST node pointers (varResolution, fnCallResolution) are keyed here by the
   node's range. The iteration over the unusedVars map at the end of check() is modelled by an
   explicit permutation argument. Nil dereferences are explicit Panic outcomes. *)
From NS Require Export Value.

Inductive diag_kind :=
| DParsing (msg : string)
| DInvalidType (name : string)
| DDuplicateVariable (name : string)
| DUnboundVariable (name : string)
| DUnusedVar (name : string)
| DTypeMismatch (expected got : string)
| DRemainingIsNotLast
| DBadAllotmentSum (sum : Q)
| DFixedPortionVariable (value : Q)
| DRedundantRemaining
| DUnknownFunction (name : string)
| DBadArity (expected actual : Z)
| DInvalidWorldOverdraft
| DNoAllotmentInSendAll
| DInvalidUnboundedAccount
| DEmptiedAccount (name : string)
| DUnboundedAccountIsNotLast
| DDivByZero.

Definition kind_name (k : diag_kind) : string :=
  match k with
  | DParsing _ => "Parsing" | DInvalidType _ => "InvalidType" | DDuplicateVariable _ => "DuplicateVariable"
  | DUnboundVariable _ => "UnboundVariable" | DUnusedVar _ => "UnusedVar" | DTypeMismatch _ _ => "TypeMismatch"
  | DRemainingIsNotLast => "RemainingIsNotLast" | DBadAllotmentSum _ => "BadAllotmentSum"
  | DFixedPortionVariable _ => "FixedPortionVariable" | DRedundantRemaining => "RedundantRemaining"
  | DUnknownFunction _ => "UnknownFunction" | DBadArity _ _ => "BadArity" | DInvalidWorldOverdraft => "InvalidWorldOverdraft"
  | DNoAllotmentInSendAll => "NoAllotmentInSendAll" | DInvalidUnboundedAccount => "InvalidUnboundedAccount"
  | DEmptiedAccount _ => "EmptiedAccount" | DUnboundedAccountIsNotLast => "UnboundedAccountIsNotLast" | DDivByZero => "DivByZero"
  end.

Inductive severity := SevError | SevWarning.

(* the Severity() methods of diagnostic_kind.go (Gen/Tables.severities is checked against this) *)
Definition severity_of (k : diag_kind) : severity :=
  match k with
  | DUnusedVar _ | DFixedPortionVariable _ | DRedundantRemaining | DInvalidWorldOverdraft
  | DNoAllotmentInSendAll | DEmptiedAccount _ | DUnboundedAccountIsNotLast => SevWarning
  | _ => SevError
  end.

Record diag := mkdiag { d_range : range; d_kind : diag_kind }.

(* Builtins *)
Inductive fn_context := CtxStatement | CtxOrigin.
Record builtin := mkbuiltin { b_name : string; b_ctx : fn_context; b_params : list string; b_return : string }.

Definition builtins_table : list builtin :=
  [ mkbuiltin "balance" CtxOrigin [TypeAccount; TypeAsset] TypeMonetary;
    mkbuiltin "meta" CtxOrigin [TypeAccount; TypeString] TypeAny;
    mkbuiltin "overdraft" CtxOrigin [TypeAccount; TypeAsset] TypeMonetary;
    mkbuiltin "set_account_meta" CtxStatement [TypeAccount; TypeString; TypeAny] "";
    mkbuiltin "set_tx_meta" CtxStatement [TypeString; TypeAny] "" ].

Definition find_builtin (name : string) : option builtin :=
  find (fun b => String.eqb (b_name b) name) builtins_table.

Definition allowed_types : list string := [TypeMonetary; TypeAccount; TypePortion; TypeAsset; TypeNumber; TypeString].
Definition is_type_allowed (t : string) : bool := mem_str t allowed_types.

(* ---- ranges of nodes (GetRange), with the nil cases ---- *)
Definition expr_range (e : expr) : option range :=
  match e with
  | ENil | ENilMonetary | ENilRatio => None
  | EVar r _ | EAsset r _ | EString r _ | EAccount r _ | ENumber r _ | EMonetary r _ _ | ERatio r _ _ | EInfix r _ _ _ => Some r
  end.

Definition source_range (s : source) : option range :=
  match s with
  | SNil => None
  | SAccount e => expr_range e
  | SInorder r _ | SAllot r _ | SCapped r _ _ | SOverdraft r _ _ => Some r
  end.

Definition range_eqb (a b : range) : bool :=
  (pline (rstart a) =? pline (rstart b)) && (pchar (rstart a) =? pchar (rstart b))
  && (pline (rend a) =? pline (rend b)) && (pchar (rend a) =? pchar (rend b)).

(* ---- checker state ---- *)
Record cstate := mkcstate {
  cs_unbounded_in_send : bool;               (* unboundedAccountInSend != nil *)
  cs_emptied : list string;                  (* emptiedAccount *)
  cs_unbounded_send : bool;                  (* unboundedSend *)
  cs_declared : list (string * vardecl);     (* declaredVars *)
  cs_unused : list (string * range);         (* unusedVars *)
  cs_varres : list (range * vardecl);        (* varResolution, keyed by the range of the use *)
  cs_fnres : list (range * builtin);         (* fnCallResolution, keyed by the range of the callee name *)
  cs_diags : list diag }.                    (* in order of emission *)

Definition cres := result unit.               (* checker steps: Ok state / Panic (never Err) *)

Definition emit (r : range) (k : diag_kind) (s : cstate) : cstate :=
  mkcstate (cs_unbounded_in_send s) (cs_emptied s) (cs_unbounded_send s) (cs_declared s) (cs_unused s)
           (cs_varres s) (cs_fnres s) (cs_diags s ++ [mkdiag r k]).

Definition set_unbounded_in_send (b : bool) (s : cstate) : cstate :=
  mkcstate b (cs_emptied s) (cs_unbounded_send s) (cs_declared s) (cs_unused s) (cs_varres s) (cs_fnres s) (cs_diags s).
Definition set_emptied (l : list string) (s : cstate) : cstate :=
  mkcstate (cs_unbounded_in_send s) l (cs_unbounded_send s) (cs_declared s) (cs_unused s) (cs_varres s) (cs_fnres s) (cs_diags s).
Definition set_unbounded_send (b : bool) (s : cstate) : cstate :=
  mkcstate (cs_unbounded_in_send s) (cs_emptied s) b (cs_declared s) (cs_unused s) (cs_varres s) (cs_fnres s) (cs_diags s).

Definition lookup_range {A} (r : range) (m : list (range * A)) : option A :=
  match find (fun e => range_eqb (fst e) r) m with Some e => Some (snd e) | None => None end.

Fixpoint aremove {A} (k : string) (m : list (string * A)) : list (string * A) :=
  match m with
  | [] => []
  | (k', v) :: m' => if String.eqb k k' then aremove k m' else (k', v) :: aremove k m'
  end.

(* assertHasType: the range of the literal is needed only when a diagnostic is emitted *)
Definition assert_has_type (lit_range : option range) (required actual : string) (s : cstate) : result unit cstate :=
  if String.eqb required TypeAny || String.eqb required actual then Ok s
  else match lit_range with
       | Some r => Ok (emit r (DTypeMismatch required actual) s)
       | None => Panic "assertHasType: GetRange on a nil literal"
       end.

(* inferType *)
Fixpoint infer_type (s : cstate) (e : expr) : string :=
  match e with
  | EVar _ name =>
      match alookup name (cs_declared s) with
      | Some d => match vd_type d with Some (_, t) => t | None => TypeAny end
      | None => TypeAny
      end
  | EMonetary _ _ _ | ENilMonetary => TypeMonetary
  | EAccount _ _ => TypeAccount
  | ERatio _ _ _ | ENilRatio => TypePortion
  | EAsset _ _ => TypeAsset
  | ENumber _ _ => TypeNumber
  | EString _ _ => TypeString
  | EInfix _ _ l _ => infer_type s l
  | ENil => TypeAny
  end.

Fixpoint check_expression (e : expr) (required : string) (s : cstate) {struct e} : result unit cstate :=
  match e with
  | ENil => Ok s                                   (* no case of the type switch matches *)
  | EVar r name =>
      let s1 := match alookup name (cs_declared s) with
                | Some d => mkcstate (cs_unbounded_in_send s) (cs_emptied s) (cs_unbounded_send s) (cs_declared s) (cs_unused s)
                                     ((r, d) :: cs_varres s) (cs_fnres s) (cs_diags s)
                | None => emit r (DUnboundVariable name) s
                end in
      let s2 := mkcstate (cs_unbounded_in_send s1) (cs_emptied s1) (cs_unbounded_send s1) (cs_declared s1)
                         (aremove name (cs_unused s1)) (cs_varres s1) (cs_fnres s1) (cs_diags s1) in
      match alookup name (cs_declared s) with
      | Some d =>
          match vd_type d with
          | Some (_, t) => if is_type_allowed t then assert_has_type (Some r) required t s2 else Ok s2
          | None => Ok s2
          end
      | None => Ok s2
      end
  | ENilMonetary => Panic "checkExpression: nil MonetaryLiteral pointer"
  | EMonetary r a n =>
      s1 <- assert_has_type (Some r) required TypeMonetary s ;;
      s2 <- check_expression a TypeAsset s1 ;;
      check_expression n TypeNumber s2
  | EAccount r _ => assert_has_type (Some r) required TypeAccount s
  | ENilRatio => assert_has_type None required TypePortion s
  | ERatio r _ _ => assert_has_type (Some r) required TypePortion s
  | EAsset r _ => assert_has_type (Some r) required TypeAsset s
  | ENumber r _ => assert_has_type (Some r) required TypeNumber s
  | EString r _ => assert_has_type (Some r) required TypeString s
  | EInfix r _ l rr =>
      if String.eqb required TypeNumber || String.eqb required TypeMonetary then
        s1 <- check_expression l required s ;;
        check_expression rr required s1
      else
        let t := infer_type s l in
        let t := if String.eqb t TypeNumber || String.eqb t TypeMonetary then t else TypeNumber in
        s0 <- assert_has_type (Some r) required t s ;;
        s1 <- check_expression l t s0 ;;
        check_expression rr t s1
  end.

Definition check_sent_value (sv : sent) (s : cstate) : result unit cstate :=
  match sv with
  | SVNil => Ok s
  | SVAll _ a => check_expression a TypeAsset s
  | SVLit _ m => check_expression m TypeMonetary s
  end.

(* checkFnCallArity *)
Definition is_interface_nil (e : expr) : bool := match e with ENil => true | _ => false end.

Fixpoint check_args (args : list expr) (sig : list string) (s : cstate) : result unit cstate :=
  match args with
  | [] => Ok s
  | a :: args' =>
      match sig with
      | t :: sig' => s1 <- check_expression a t s ;; check_args args' sig' s1
      | [] => s1 <- check_expression a TypeAny s ;; check_args args' [] s1
      end
  end.

(* [resolution]: fnCallResolution[fnCall.Caller]. The Go map is keyed by the pointer to the callee
   node, written by the caller of checkFnCallArity just before: the entry read is the one just
   written, or none. It is passed directly (cs_fnres, keyed by the callee's range, serves hover). *)
Definition check_fn_call_arity (f : fncall) (resolution : option builtin) (s : cstate) : result unit cstate :=
  let valid := filter (fun e => negb (is_interface_nil e)) (fc_args f) in
  match resolution with
  | Some b =>
      let sig := b_params b in
      let actual := List.length valid in
      let expected := List.length sig in
      s1 <-
        (if (actual <? expected)%nat then
           Ok (emit (fc_range f) (DBadArity (Z.of_nat expected) (Z.of_nat actual)) s)
         else if (expected <? actual)%nat then
           match nth_error valid expected, last (map Some valid) None with
           | Some first, Some lst =>
               match expr_range first, expr_range lst with
               | Some r1, Some r2 => Ok (emit (mkrange (rstart r1) (rend r2)) (DBadArity (Z.of_nat expected) (Z.of_nat actual)) s)
               | _, _ => Panic "checkFnCallArity: GetRange on a nil literal"
               end
           | _, _ => Ok s
           end
         else Ok s) ;;
      check_args valid sig s1
  | None =>
      s1 <- check_args valid [] s ;;
      Ok (emit (fc_caller_range f) (DUnknownFunction (fc_caller f)) s1)
  end.

(* enterCappedSource: the three fields are saved and restored around the nested check *)
Definition with_capped (f : cstate -> result unit cstate) (s : cstate) : result unit cstate :=
  let s0 := set_unbounded_send false (set_unbounded_in_send false s) in     (* emptied: a clone, same content *)
  s1 <- f s0 ;;
  Ok (set_unbounded_send (cs_unbounded_send s) (set_unbounded_in_send (cs_unbounded_in_send s) (set_emptied (cs_emptied s) s1))).

Definition q_of_ratio (n d : Z) : option Q :=
  match d with Zpos p => Some (n # p) | Zneg p => Some ((- n) # p) | Z0 => None end.

(* checkHasBadAllotmentSum *)
Definition check_bad_allotment_sum (sum : Q) (rng : range) (remaining : option range) (vars : list range) (s : cstate) : cstate :=
  match Qcompare sum 1 with
  | Eq =>
      let s1 := fold_left (fun acc r => emit r (DFixedPortionVariable 0) acc) vars s in
      match remaining with Some r => emit r DRedundantRemaining s1 | None => s1 end
  | Lt =>
      match remaining, vars with
      | Some _, _ => s
      | None, _ :: _ :: _ => s
      | None, [v] => emit v (DFixedPortionVariable (1 - sum)) s
      | None, [] => emit rng (DBadAllotmentSum sum) s
      end
  | Gt => emit rng (DBadAllotmentSum sum) s
  end.

(* one clause of an allotment (shared by sources and destinations): updates sum / remaining / vars *)
Record allot_acc := mkacc { aa_sum : Q; aa_remaining : option range; aa_vars : list range }.

Definition check_allot_clause (a : allot) (is_last : bool) (whole : range) (acc : allot_acc) (s : cstate)
  : result unit (allot_acc * cstate) :=
  match a with
  | ANil => Ok (acc, s)
  | ANilRatio => Panic "checkSource: nil RatioLiteral pointer"
  | AVar r name =>
      s1 <- check_expression (EVar r name) TypePortion s ;;
      Ok (mkacc (aa_sum acc) (aa_remaining acc) (aa_vars acc ++ [r]), s1)
  | ARatio r n d =>
      match q_of_ratio n d with
      | None => Ok (acc, emit r DDivByZero s)
      | Some q => Ok (mkacc (aa_sum acc + q)%Q (aa_remaining acc) (aa_vars acc), s)
      end
  | ARemaining r =>
      if is_last then Ok (mkacc (aa_sum acc) (Some r) (aa_vars acc), s)
      else Ok (acc, emit whole DRemainingIsNotLast s)
  end.

Fixpoint check_source (src : source) (s : cstate) {struct src} : result unit cstate :=
  match src with
  | SNil => Ok s
  | _ =>
    s <- (if cs_unbounded_in_send s
          then match source_range src with
               | Some r => Ok (emit r DUnboundedAccountIsNotLast s)
               | None => Panic "checkSource: GetRange on a source without expression"
               end
          else Ok s) ;;
    match src with
    | SNil => Ok s
    | SAccount e =>
        s1 <- check_expression e TypeAccount s ;;
        match e with
        | EAccount r name =>
            let world := String.eqb name "world" in
            let s2 := if world && cs_unbounded_send s1 then emit r DInvalidUnboundedAccount s1
                      else if world then set_unbounded_in_send true s1 else s1 in
            let s3 := if mem_str name (cs_emptied s2) && negb world then emit r (DEmptiedAccount name) s2 else s2 in
            Ok (set_emptied (if mem_str name (cs_emptied s3) then cs_emptied s3 else name :: cs_emptied s3) s3)
        | _ => Ok s1
        end
    | SOverdraft _ addr bounded =>
        let s1 := match addr with
                  | EAccount r name => if String.eqb name "world" then emit r DInvalidWorldOverdraft s else s
                  | _ => s
                  end in
        let s2 := match bounded with
                  | None => set_unbounded_in_send (negb (is_interface_nil addr)) s1
                  | Some _ => s1
                  end in
        s3 <- (if cs_unbounded_send s2 && match bounded with None => true | Some _ => false end
               then match expr_range addr with
                    | Some r => Ok (emit r DInvalidUnboundedAccount s2)
                    | None => Panic "checkSource: GetRange on a nil address"
                    end
               else Ok s2) ;;
        s4 <- check_expression addr TypeAccount s3 ;;
        match bounded with
        | Some b => check_expression b TypeMonetary s4
        | None => Ok s4
        end
    | SInorder _ srcs =>
        (fix go (l : list source) (s : cstate) : result unit cstate :=
           match l with [] => Ok s | x :: l' => s' <- check_source x s ;; go l' s' end) srcs s
    | SCapped _ from cap =>
        with_capped (fun s0 => s1 <- check_expression cap TypeMonetary s0 ;; check_source from s1) s
    | SAllot r items =>
        let s1 := if cs_unbounded_send s then emit r DNoAllotmentInSendAll s else s in
        '(acc, s2) <-
          (fix go (l : list (range * allot * source)) (acc : allot_acc) (s : cstate) : result unit (allot_acc * cstate) :=
             match l with
             | [] => Ok (acc, s)
             | (_, a, x) :: l' =>
                 '(acc', s') <- check_allot_clause a (match l' with [] => true | _ => false end) r acc s ;;
                 s'' <- with_capped (check_source x) s' ;;
                 go l' acc' s''
             end) items (mkacc 0 None []) s1 ;;
        Ok (check_bad_allotment_sum (aa_sum acc) r (aa_remaining acc) (aa_vars acc) s2)
    end
  end.

Fixpoint check_destination (d : dest) (s : cstate) {struct d} : result unit cstate :=
  match d with
  | DNil => Ok s
  | DAccount e => check_expression e TypeAccount s
  | DInorder _ clauses rem =>
      s1 <- (fix go (l : list (range * expr * kod)) (s : cstate) : result unit cstate :=
               match l with
               | [] => Ok s
               | (_, cap, k) :: l' => s' <- check_expression cap TypeMonetary s ;; s'' <- check_kod k s' ;; go l' s''
               end) clauses s ;;
      check_kod rem s1
  | DAllot r items =>
      '(acc, s2) <-
        (fix go (l : list (range * allot * kod)) (acc : allot_acc) (s : cstate) : result unit (allot_acc * cstate) :=
           match l with
           | [] => Ok (acc, s)
           | (_, a, k) :: l' =>
               '(acc', s') <- check_allot_clause a (match l' with [] => true | _ => false end) r acc s ;;
               s'' <- check_kod k s' ;;
               go l' acc' s''
           end) items (mkacc 0 None []) s ;;
      Ok (check_bad_allotment_sum (aa_sum acc) r (aa_remaining acc) (aa_vars acc) s2)
  end
with check_kod (k : kod) (s : cstate) {struct k} : result unit cstate :=
  match k with
  | KNil | KKept _ => Ok s
  | KTo d => check_destination d s
  end.

Definition add_fnres (r : range) (b : builtin) (s : cstate) : cstate :=
  mkcstate (cs_unbounded_in_send s) (cs_emptied s) (cs_unbounded_send s) (cs_declared s) (cs_unused s)
           (cs_varres s) ((r, b) :: cs_fnres s) (cs_diags s).

Definition check_statement (st : stmt) (s : cstate) : result unit cstate :=
  let s := set_emptied [] s in
  match st with
  | StNil => Ok s
  | StNilFnCall => Panic "checkStatement: nil FnCall pointer"
  | StSave _ sv a =>
      s1 <- check_sent_value sv s ;;
      check_expression a TypeAccount s1
  | StSend _ sv src dst =>
      let s0 := set_unbounded_send (match sv with SVAll _ _ => true | _ => false end) s in
      s1 <- check_sent_value sv s0 ;;
      s2 <- check_source src s1 ;;
      check_destination dst s2
  | StFnCall f =>
      let res := match find_builtin (fc_caller f) with
                 | Some b => match b_ctx b with CtxStatement => Some b | CtxOrigin => None end
                 | None => None
                 end in
      let s1 := match res with Some b => add_fnres (fc_caller_range f) b s | None => s end in
      check_fn_call_arity f res s1
  end.

Definition check_var_decl (d : vardecl) (s : cstate) : result unit cstate :=
  (* checkVarType *)
  let s1 := match vd_type d with
            | Some (r, t) => if is_type_allowed t then s else emit r (DInvalidType t) s
            | None => s
            end in
  (* checkVarOrigin: before the variable is registered - the interpreter evaluates the origin
     before the variable exists *)
  s3 <- match vd_origin d with
        | None => Ok s1
        | Some f =>
            let res := match find_builtin (fc_caller f) with
                       | Some b => match b_ctx b with CtxOrigin => Some b | CtxStatement => None end
                       | None => None
                       end in
            s2 <- match res with
                  | Some b =>
                      let s' := add_fnres (fc_caller_range f) b s1 in
                      match vd_name d, vd_type d with
                      | Some (rn, _), Some (_, t) => assert_has_type (Some rn) (b_return b) t s'
                      | _, _ => Ok s'
                      end
                  | None => Ok s1
                  end ;;
            check_fn_call_arity f res s2
        end ;;
  (* checkDuplicateVars *)
  Ok (match vd_name d with
      | Some (r, name) =>
          if amem name (cs_declared s3) then emit r (DDuplicateVariable name) s3
          else mkcstate (cs_unbounded_in_send s3) (cs_emptied s3) (cs_unbounded_send s3)
                        (cs_declared s3 ++ [(name, d)]) (cs_unused s3 ++ [(name, r)])
                        (cs_varres s3) (cs_fnres s3) (cs_diags s3)
      | None => s3
      end).

Fixpoint check_var_decls (ds : list vardecl) (s : cstate) : result unit cstate :=
  match ds with [] => Ok s | d :: ds' => s' <- check_var_decl d s ;; check_var_decls ds' s' end.

Fixpoint check_statements (ss : list stmt) (s : cstate) : result unit cstate :=
  match ss with
  | [] => Ok s
  | st :: ss' => s' <- check_statement st (set_unbounded_in_send false s) ;; check_statements ss' s'
  end.

Definition initial_cstate (parse_diags : list diag) : cstate := mkcstate false [] false [] [] [] [] parse_diags.

(* check(): [perm] stands for the iteration order of the unusedVars map *)
Definition check_program (p : program) (parse_diags : list diag) (perm : list (string * range) -> list (string * range))
  : result unit cstate :=
  s1 <- check_var_decls (p_vars p) (initial_cstate parse_diags) ;;
  s2 <- check_statements (p_stmts p) s1 ;;
  Ok (fold_left (fun acc e => emit (snd e) (DUnusedVar (fst e)) acc) (perm (cs_unused s2)) s2).

Definition check_default (p : program) (parse_diags : list diag) : result unit cstate :=
  check_program p parse_diags (fun l => l).

Definition errors_count (ds : list diag) : nat :=
  List.length (filter (fun d => match severity_of (d_kind d) with SevError => true | _ => false end) ds).

(* document_symbols.go: GetSymbols (one per declared variable; Detail dereferences the type) *)
Record symbol := mksymbol { sy_name : string; sy_detail : string; sy_range : range }.

Fixpoint symbols_of (decls : list (string * vardecl)) : result unit (list symbol) :=
  match decls with
  | [] => Ok []
  | (name, d) :: l =>
      match vd_type d, vd_name d with
      | Some (_, t), Some (r, _) => rest <- symbols_of l ;; Ok (mksymbol name t r :: rest)
      | _, _ => Panic "GetSymbols: nil type or name"
      end
  end.
