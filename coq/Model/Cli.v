(* cmd/check.go and cmd/run.go: the decision logic of the command line (exit status, which
   diagnostics are printed, how the three input channels are merged, what is printed in JSON mode).
   Cobra, encoding/json, file I/O and process exit are glue, exercised by the correspondence. *)
From NS Require Export Check Run.

(* numscript check *)
Definition cli_check_exit (ds : list diag) : Z := if Nat.eqb (errors_count ds) 0 then 0 else 1.
Definition cli_check_printed (ds : list diag) : list (Z * Z * severity) :=
  map (fun d => (pline (rstart (d_range d)), pchar (rstart (d_range d)), severity_of (d_kind d))) ds.

(* numscript run: inputs *)
Record input_opts := mkopts {
  io_script : string;
  io_vars : list (string * string);
  io_meta : metadata;
  io_bal : balances }.

Definition empty_opts : input_opts := mkopts "" [] [] [].

Inductive channel :=
| ChRaw (doc : input_opts)                       (* --raw '<json>' *)
| ChStdin (doc : input_opts)                     (* --stdin *)
| ChFiles (script : string) (vars : list (string * string)) (meta : metadata) (bal : balances).   (* PATH -v -m -b *)

(* run(): opt.fromRaw(); opt.fromOptions(path); opt.fromStdin() on an empty inputOpts; each call
   is a no-op when its channel is not used *)
Definition channel_opts (c : channel) : input_opts :=
  match c with
  | ChRaw d | ChStdin d => d
  | ChFiles s v m b => mkopts s v m b
  end.

(* numscript run: outcome *)
Inductive cli_outcome :=
| CliPrinted (x : exec_result)                   (* exit 0, JSON of the result on stdout *)
| CliFailed (e : err)                            (* exit 1, the error message on stderr *)
| CliParseErrors                                 (* exit 1 *)
| CliPanic.

Definition cli_run (parse : string -> option program) (c : channel) (flag : bool) : cli_outcome :=
  let o := channel_opts c in
  match parse (io_script o) with
  | None => CliParseErrors
  | Some p =>
      (* StaticStore: answers every call with its whole content *)
      match run_program p (io_vars o) (fun _ call => match call with CallBalances _ => AnsBalances (io_bal o) | CallMeta _ _ => AnsMeta (io_meta o) end) flag with
      | Ok x => CliPrinted x
      | Err e => CliFailed e
      | Panic _ => CliPanic
      end
  end.
