(* parser.go: parseRatio / unsafeParseBigInt / ParsePercentageRatio (literal text -> RatioLiteral),
   parseNumberLiteral (strconv.Atoi into a Go int), parseStringLiteralCtx.
   Texts are Coq strings (bytes); literal token texts are ASCII. *)
From Coq Require Import Ascii.
From NS Require Export Run.

(* strings.TrimSpace on the two halves of a ratio token: only spaces can occur there *)
Fixpoint trim_left (s : string) : string :=
  match s with String c s' => if Ascii.eqb c " "%char then trim_left s' else s | EmptyString => s end.
Fixpoint trim_right (s : string) : string :=
  match s with
  | EmptyString => EmptyString
  | String c s' =>
      match trim_right s' with
      | EmptyString => if Ascii.eqb c " "%char then EmptyString else String c EmptyString
      | t => String c t
      end
  end.
Definition trim (s : string) : string := trim_right (trim_left s).

(* parseRatio: split on "/", each part read in base 10. None: unsafeParseBigInt panics (cannot
   happen on a RATIO_PORTION_LITERAL token) *)
Definition ratio_literal (text : string) : option (Z * Z) :=
  match split_on "/"%char text with
  | [a; b] =>
      match parse_int (trim a), parse_int (trim b) with
      | Some n, Some d => Some (n, d)
      | _, _ => None
      end
  | _ => None
  end.

(* ParsePercentageRatio (after the fix): digits without the dot, over 10^(2 + number of decimals) *)
Definition percent_literal (text : string) : option (Z * Z) :=
  match last_char text with
  | Some "%"%char =>
      let body := drop_last text in
      match split_on "."%char body with
      | [i] => match parse_int i with Some n => Some (n, 100) | None => None end
      | i :: f :: _ =>
          (* strings.Replace(str, ".", "", -1): every dot is removed; only the first fractional part counts for the scale *)
          match parse_int (String.concat "" (split_on "."%char body)) with
          | Some n => Some (n, Zpos (100 * pow10 (String.length f)))
          | None => None
          end
      | [] => None
      end
  | _ => None
  end.

Definition portion_literal (text : string) : option (Z * Z) :=
  match last_char text with
  | Some "%"%char => percent_literal text
  | _ => ratio_literal text
  end.

(* parseNumberLiteral: strconv.Atoi; out of the int range the value is 0 and Parse reports an error *)
Definition int_min : Z := - 2 ^ 63.
Definition int_max : Z := 2 ^ 63 - 1.
Definition number_literal (text : string) : option (Z * bool) :=       (* value, in range *)
  match parse_int text with
  | Some n => if (int_min <=? n) && (n <=? int_max) then Some (n, true) else Some (0, false)
  | None => None
  end.
