(* interpreter.go: receiveFrom / receiveFromKeptOrDest. State touched: the Receivers list only. *)
From NS Require Export Allot Reconcile.

Section Distribute.
Variable vs : env.
Variable asset : string.

Definition push_receiver (name : string) (amt : Z) (rcv : list entry) : list entry :=
  if amt =? 0 then rcv else rcv ++ [(name, amt)].

Fixpoint receive_from (d : dest) (amount : Z) (rcv : list entry) {struct d} : res (list entry) :=
  match d with
  | DNil => Panic "receiveFrom: non exhaustive match (nil)"
  | DAccount e =>
      account <- eval_as vs e expect_account ;;
      Ok (push_receiver account amount rcv)
  | DAllot _ items =>
      parts <- make_allotment vs amount (map (fun it => snd (fst it)) items) ;;
      (fix go (l : list (range * allot * kod)) (parts : list Z) (rcv : list entry) : res (list entry) :=
         match l, parts with
         | [], _ => Ok rcv
         | (_, _, k) :: l', p :: parts' =>
             rcv' <- receive_kod k p rcv ;;
             go l' parts' rcv'
         | _ :: _, [] => Panic "receiveFrom: index out of range"
         end) items parts rcv
  | DInorder _ clauses remaining =>
      (* handler: nothing happens for a zero amount *)
      (fix go (l : list (range * expr * kod)) (left : Z) (rcv : list entry) : res (list entry) :=
         match l with
         | [] =>
             if left =? 0 then Ok rcv else receive_kod remaining left rcv
         | (_, cap_e, k) :: l' =>
             cap <- eval_as vs cap_e (expect_monetary_of_asset asset) ;;
             if left =? 0 then
               (* break: the remaining clauses' caps are not evaluated; handler(remaining, 0) does nothing *)
               Ok rcv
             else
               let amt := Z.min cap left in
               let amt := if amt <? 0 then 0 else amt in
               if amt =? 0 then go l' left rcv
               else
                 rcv' <- receive_kod k amt rcv ;;
                 go l' (left - amt) rcv'
         end) clauses amount rcv
  end
with receive_kod (k : kod) (amount : Z) (rcv : list entry) {struct k} : res (list entry) :=
  match k with
  | KNil => Panic "receiveFromKeptOrDest: non exhaustive match (nil)"
  | KKept _ => Ok (push_receiver KEPT_ADDR amount rcv)
  | KTo d => receive_from d amount rcv
  end.

End Distribute.
