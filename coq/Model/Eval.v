(* interpreter/evaluate_expr.go, infix.go: expression evaluation. It reads the parsed
   variables only, so it is a pure function of the environment. *)
From NS Require Export Value.

Definition env := list (string * value).

Definition KEPT_ADDR := "<kept>".
Definition WORLD := "world".

Fixpoint eval_expr (vs : env) (e : expr) : res value :=
  match e with
  | ENil => Panic "evaluateExpr: non exhaustive match (nil)"
  | ENilMonetary => Panic "evaluateExpr: nil MonetaryLiteral pointer"
  | ENilRatio => Panic "evaluateExpr: nil RatioLiteral pointer"
  | EAsset _ s => Ok (VAsset s)
  | EAccount _ s => Ok (VAccount s)
  | EString _ s => Ok (VString s)
  | ERatio _ n d =>
      if d =? 0 then Err BadPortionParsingErr
      else match d with
           | Zpos p => Ok (VPortion (n # p))
           | Zneg p => Ok (VPortion ((- n) # p))   (* SetFrac normalises the sign; digits only, never happens *)
           | Z0 => Err BadPortionParsingErr
           end
  | ENumber _ n => Ok (VNumber n)
  | EMonetary _ a n =>
      va <- eval_expr vs a ;;
      asset <- expect_asset va ;;
      vn <- eval_expr vs n ;;
      amt <- expect_number vn ;;
      Ok (VMonetary asset amt)
  | EVar _ name =>
      match alookup name vs with
      | Some v => Ok v
      | None => Err (UnboundVariableErr name)
      end
  | EInfix _ op l r =>
      match op with
      | OpOther _ => Panic "evaluateExpr: non exhaustive match (operator)"
      | _ =>
        vl <- eval_expr vs l ;;
        match vl with
        | VMonetary a1 n1 =>
            vr <- eval_expr vs r ;;
            '(a2, n2) <- expect_monetary vr ;;
            if String.eqb a1 a2
            then Ok (VMonetary a1 (match op with OpPlus => n1 + n2 | _ => n1 - n2 end))
            else Err (MismatchedCurrencyError a1 a2)
        | VNumber n1 =>
            vr <- eval_expr vs r ;;
            n2 <- expect_number vr ;;
            Ok (VNumber (match op with OpPlus => n1 + n2 | _ => n1 - n2 end))
        | _ => Err (TypeError "monetary|number")
        end
      end
  end.

Definition eval_as {A} (vs : env) (e : expr) (expect : value -> res A) : res A :=
  v <- eval_expr vs e ;; expect v.

Fixpoint eval_exprs (vs : env) (es : list expr) : res (list value) :=
  match es with
  | [] => Ok []
  | e :: es' => v <- eval_expr vs e ;; vs' <- eval_exprs vs es' ;; Ok (v :: vs')
  end.
