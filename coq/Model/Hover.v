(* analysis/hover.go, goto_definition.go; parser/range.go (Position.GtEq, Range.Contains);
   lsp/handlers.go (State, updateDocument, handleHover, handleGotoDefinition, handleGetSymbols). *)
From NS Require Export Check.

Definition pos_ge (p1 p2 : pos) : bool :=
  if pline p1 =? pline p2 then pchar p2 <=? pchar p1 else pline p2 <? pline p1.

Definition contains (r : range) (p : pos) : bool := pos_ge p (rstart r) && pos_ge (rend r) p.

Inductive hover :=
| HVariable (r : range) (name : string)
| HBuiltin (caller_range : range) (name : string).

Definition hres := result unit (option hover).

(* first non-nil result *)
Definition orelse (a : hres) (b : unit -> hres) : hres :=
  match a with
  | Ok None => b tt
  | r => r
  end.

Fixpoint hover_expr (e : expr) (p : pos) {struct e} : hres :=
  match e with
  | ENil => Ok None
  | ENilMonetary | ENilRatio => Panic "hoverOnExpression: GetRange on a nil literal"
  | EVar r name => if contains r p then Ok (Some (HVariable r name)) else Ok None
  | EMonetary r a n => if contains r p then orelse (hover_expr n p) (fun _ => hover_expr a p) else Ok None
  | EInfix r _ l rr => if contains r p then orelse (hover_expr l p) (fun _ => hover_expr rr p) else Ok None
  | _ => Ok None
  end.

Definition hover_allot (a : allot) (p : pos) : hres :=
  match a with
  | ARatio _ _ _ | ARemaining _ | ANil => Ok None
  | ANilRatio => Panic "hoverOnExpression: GetRange on a nil RatioLiteral pointer"
  | AVar r name => hover_expr (EVar r name) p
  end.

Fixpoint hover_source (s : source) (p : pos) {struct s} : hres :=
  match s with
  | SNil => Ok None
  | _ =>
    match source_range s with
    | None => Panic "hoverOnSource: GetRange on a source without expression"
    | Some r =>
      if negb (contains r p) then Ok None else
      match s with
      | SNil => Ok None
      | SCapped _ from cap => orelse (hover_expr cap p) (fun _ => hover_source from p)
      | SOverdraft _ addr b =>
          orelse (hover_expr addr p) (fun _ => match b with Some e => hover_expr e p | None => Ok None end)
      | SInorder _ l =>
          (fix go (l : list source) : hres :=
             match l with [] => Ok None | x :: l' => orelse (hover_source x p) (fun _ => go l') end) l
      | SAllot _ items =>
          (fix go (l : list (range * allot * source)) : hres :=
             match l with
             | [] => Ok None
             | (ir, a, x) :: l' =>
                 if contains ir p
                 then orelse (hover_allot a p) (fun _ => orelse (hover_source x p) (fun _ => go l'))
                 else go l'
             end) items
      | SAccount e => hover_expr e p
      end
    end
  end.

Definition dest_range (d : dest) : option range :=
  match d with
  | DNil => None
  | DAccount e => expr_range e
  | DInorder r _ _ | DAllot r _ => Some r
  end.

Fixpoint hover_dest (d : dest) (p : pos) {struct d} : hres :=
  match d with
  | DNil => Ok None
  | _ =>
    match dest_range d with
    | None => Panic "hoverOnDestination: GetRange on a destination without expression"
    | Some r =>
      if negb (contains r p) then Ok None else
      match d with
      | DNil => Ok None
      | DAccount e => hover_expr e p
      | DInorder _ clauses rem =>
          orelse ((fix go (l : list (range * expr * kod)) : hres :=
                     match l with
                     | [] => Ok None
                     | (cr, cap, k) :: l' =>
                         if contains cr p
                         then orelse (hover_expr cap p) (fun _ => orelse (hover_kod k p) (fun _ => go l'))
                         else go l'
                     end) clauses)
                 (fun _ => hover_kod rem p)
      | DAllot _ items =>
          (fix go (l : list (range * allot * kod)) : hres :=
             match l with
             | [] => Ok None
             | (ir, a, k) :: l' =>
                 if contains ir p
                 then orelse (hover_allot a p) (fun _ => orelse (hover_kod k p) (fun _ => go l'))
                 else go l'
             end) items
      end
    end
  end
with hover_kod (k : kod) (p : pos) {struct k} : hres :=
  match k with
  | KNil | KKept _ => Ok None
  | KTo d => hover_dest d p
  end.

Definition hover_sent (sv : sent) (p : pos) : hres :=
  match sv with
  | SVNil => Ok None
  | SVAll _ a => hover_expr a p
  | SVLit _ m => hover_expr m p
  end.

Definition hover_fncall (f : fncall) (p : pos) : hres :=
  if negb (contains (fc_range f) p) then Ok None
  else if contains (fc_caller_range f) p then Ok (Some (HBuiltin (fc_caller_range f) (fc_caller f)))
  else (fix go (l : list expr) : hres :=
          match l with [] => Ok None | a :: l' => orelse (hover_expr a p) (fun _ => go l') end) (fc_args f).

Definition hover_stmt (s : stmt) (p : pos) : hres :=
  match s with
  | StNil => Ok None
  | StNilFnCall => Panic "HoverOn: GetRange on a nil FnCall pointer"
  | StFnCall f => hover_fncall f p
  | StSend r sv src dst =>
      if negb (contains r p) then Ok None
      else orelse (hover_sent sv p) (fun _ => orelse (hover_source src p) (fun _ => hover_dest dst p))
  | StSave r sv a =>
      if negb (contains r p) then Ok None
      else orelse (hover_sent sv p) (fun _ => hover_expr a p)
  end.

Definition hover_vardecl (d : vardecl) (p : pos) : hres :=
  if negb (contains (vd_range d) p) then Ok None
  else match vd_origin d with Some f => hover_fncall f p | None => Ok None end.

Definition hover_on (prog : program) (p : pos) : hres :=
  orelse ((fix go (l : list vardecl) : hres :=
             match l with [] => Ok None | d :: l' => orelse (hover_vardecl d p) (fun _ => go l') end) (p_vars prog))
         (fun _ => (fix go (l : list stmt) : hres :=
                      match l with [] => Ok None | s :: l' => orelse (hover_stmt s p) (fun _ => go l') end) (p_stmts prog)).

(* goto_definition.go *)
Definition goto_definition (prog : program) (p : pos) (cs : cstate) : result unit (option range) :=
  h <- hover_on prog p ;;
  match h with
  | Some (HVariable r _) =>
      match lookup_range r (cs_varres cs) with
      | Some d => match vd_name d with Some (nr, _) => Ok (Some nr) | None => Panic "GotoDefinition: nil name" end
      | None => Ok None
      end
  | _ => Ok None
  end.

(* ---- the language server's document store and request handlers ---- *)
Inductive hover_answer :=
| AVarHover (r : range) (name ty : string)
| AFnHover (r : range) (name : string) (params : list string) (ret : option string).

Record document := mkdoc { doc_text : list Z; doc_prog : program; doc_check : cstate }.

Definition handle_hover (d : document) (p : pos) : result unit (option hover_answer) :=
  h <- hover_on (doc_prog d) p ;;
  match h with
  | Some (HVariable r name) =>
      match lookup_range r (cs_varres (doc_check d)) with
      | Some decl =>
          match vd_type decl with
          | Some (_, ty) => Ok (Some (AVarHover r name ty))
          | None => Panic "handleHover: nil type"
          end
      | None => Ok None
      end
  | Some (HBuiltin r name) =>
      match lookup_range r (cs_fnres (doc_check d)) with
      | Some b => Ok (Some (AFnHover r name (b_params b) (match b_ctx b with CtxOrigin => Some (b_return b) | CtxStatement => None end)))
      | None => Ok None
      end
  | None => Ok None
  end.

Definition handle_definition (d : document) (p : pos) : result unit (option range) :=
  goto_definition (doc_prog d) p (doc_check d).

Definition handle_symbols (d : document) : result unit (list symbol) := symbols_of (cs_declared (doc_check d)).
