(* Reference lexer for Numscript.g4: maximal munch over the lexer rules in their order of
   declaration (first rule wins a tie), skipping white space and comments, columns counted in code
   points. Input: the text as a list of code points. Gen/Tables.lexer_rules (re-extracted from the
   grammar on every run) is compared with the table this file was written against
   (Proofs/TablesOk.v). *)
From Coq Require Import Ascii.
From NS Require Export Base.

Inductive tkind :=
| TPlus                                   (* the implicit literal plus sign *)
| TVars | TMax | TSource | TDestination | TSend | TFrom | TUp | TTo | TRemaining | TAllowing
| TUnbounded | TOverdraft | TKept | TSave
| TLParens | TRParens | TLBracket | TRBracket | TLBrace | TRBrace | TComma | TEq | TStar | TMinus
| TRatio | TPercent | TString | TIdentifier | TNumber | TVarName | TAccount | TAsset.

Record token := mktoken {
  tk_kind : tkind;
  tk_text : list Z;          (* code points *)
  tk_line : Z;               (* 0-based *)
  tk_col : Z }.              (* in code points *)

Definition tk_len (t : token) : Z := Z.of_nat (List.length (tk_text t)).

(* ---- character classes ---- *)
Definition in_range (lo hi c : Z) : bool := (lo <=? c) && (c <=? hi).
Definition is_digit (c : Z) : bool := in_range 48 57 c.
Definition is_lower (c : Z) : bool := in_range 97 122 c.
Definition is_upper (c : Z) : bool := in_range 65 90 c.
Definition is_ws (c : Z) : bool := (c =? 32) || (c =? 9) || (c =? 13) || (c =? 10).
Definition is_nl (c : Z) : bool := (c =? 13) || (c =? 10).
Definition is_ident_tail (c : Z) : bool := is_lower c || (c =? 95).
Definition is_var_head (c : Z) : bool := is_lower c || (c =? 95).
Definition is_var_tail (c : Z) : bool := is_lower c || is_digit c || (c =? 95).
Definition is_acct (c : Z) : bool := is_lower c || is_upper c || is_digit c || (c =? 95) || (c =? 45).
Definition is_asset (c : Z) : bool := is_upper c || is_digit c || (c =? 47).

(* length of the longest prefix whose characters satisfy f *)
Fixpoint span_len (f : Z -> bool) (l : list Z) : nat :=
  match l with c :: l' => if f c then S (span_len f l') else O | [] => O end.

Fixpoint starts_with (p l : list Z) : bool :=
  match p, l with
  | [], _ => true
  | a :: p', b :: l' => (a =? b) && starts_with p' l'
  | _ :: _, [] => false
  end.

(* ---- match lengths of the rules (0 = no match) ---- *)
Definition m_lit (lit : list Z) (l : list Z) : nat := if starts_with lit l then List.length lit else O.

Definition m_ws (l : list Z) : nat := span_len is_ws l.

(* MULTILINE_COMMENT: slash-star (MULTILINE_COMMENT | .)*? star-slash, nested.
   The non-greedy loop is decided the way ANTLR's lexer simulator does: an ordered set of
   configurations (nesting depth, position inside the loop body), highest priority first - leaving
   the loop before a nested comment before any character. A configuration that completes the
   token records a match and discards every configuration of lower priority; the last match
   recorded wins. On well-nested comments this is the properly nested match; when a nested opener
   is never closed, the comment extends to the LAST star-slash that some reading can pair with
   the outermost opener. *)
Inductive cmode := CLoop | CMidExit | CMidOpen.

Definition conf_eqb (a b : nat * cmode) : bool :=
  Nat.eqb (fst a) (fst b) &&
  match snd a, snd b with CLoop, CLoop | CMidExit, CMidExit | CMidOpen, CMidOpen => true | _, _ => false end.

Definition add_conf (c : nat * cmode) (l : list (nat * cmode)) : list (nat * cmode) :=
  if existsb (conf_eqb c) l then l else l ++ [c].

(* one character: the configurations reached, in priority order, and whether the token was completed *)
Fixpoint cstep (ch : Z) (l : list (nat * cmode)) (acc : list (nat * cmode)) : list (nat * cmode) * bool :=
  match l with
  | [] => (acc, false)
  | (d, m) :: l' =>
      match m with
      | CLoop =>
          let acc1 := if ch =? 42 then add_conf (d, CMidExit) acc else acc in       (* star: may start the closer *)
          let acc2 := if ch =? 47 then add_conf (d, CMidOpen) acc1 else acc1 in     (* slash: may start a nested opener *)
          cstep ch l' (add_conf (d, CLoop) acc2)                                     (* any character *)
      | CMidExit =>
          if ch =? 47 then
            match d with
            | 1%nat => (acc, true)                                                   (* token complete: the rest is discarded *)
            | S d' => cstep ch l' (add_conf (d', CLoop) acc)
            | O => cstep ch l' acc
            end
          else cstep ch l' acc
      | CMidOpen => if ch =? 42 then cstep ch l' (add_conf (S d, CLoop) acc) else cstep ch l' acc
      end
  end.

Fixpoint m_comment_sim (l : list Z) (confs : list (nat * cmode)) (consumed best : nat) : nat :=
  match l with
  | [] => best
  | ch :: l' =>
      let '(confs', done) := cstep ch confs [] in
      let best' := if done then S consumed else best in
      match confs' with
      | [] => best'
      | _ => m_comment_sim l' confs' (S consumed) best'
      end
  end.

Definition m_block_comment (l : list Z) : nat :=
  match l with
  | 47 :: 42 :: l' => m_comment_sim l' [(1%nat, CLoop)] 2 O
  | _ => O
  end.

(* LINE_COMMENT: two slashes, anything (non-greedy), NEWLINE = one or more CR / LF *)
Fixpoint m_to_newline (l : list Z) (consumed : nat) : nat :=
  match l with
  | c :: l' => if is_nl c then consumed + span_len is_nl l else m_to_newline l' (consumed + 1)
  | [] => O
  end.
Definition m_line_comment (l : list Z) : nat :=
  match l with 47 :: 47 :: l' => m_to_newline l' 2 | _ => O end.

(* digits, optional space, slash, optional space, digits *)
Definition m_ratio (l : list Z) : nat :=
  let n1 := span_len is_digit l in
  match n1 with
  | O => O
  | _ =>
    let r1 := skipn n1 l in
    let '(s1, r2) := match r1 with 32 :: r => (1%nat, r) | _ => (O, r1) end in
    match r2 with
    | 47 :: r3 =>
        let '(s2, r4) := match r3 with 32 :: r => (1%nat, r) | _ => (O, r3) end in
        let n2 := span_len is_digit r4 in
        match n2 with O => O | _ => (n1 + s1 + 1 + s2 + n2)%nat end
    | _ => O
    end
  end.

(* digits, optional dot and digits, percent sign *)
Definition m_percent (l : list Z) : nat :=
  let n1 := span_len is_digit l in
  match n1 with
  | O => O
  | _ =>
    match skipn n1 l with
    | 37 :: _ => S n1
    | 46 :: r =>
        let n2 := span_len is_digit r in
        match n2 with
        | O => O
        | _ => match skipn n2 r with 37 :: _ => (n1 + 1 + n2 + 1)%nat | _ => O end
        end
    | _ => O
    end
  end.

(* STRING: a quote, then escaped quotes (backslash quote) or any character other than CR, LF and
   quote, then a quote: the longest match. A quote can be passed only as the second half of an
   escaped quote. *)
Fixpoint m_string_scan (l : list Z) (prev_backslash : bool) (consumed : nat) (best : nat) : nat :=
  match l with
  | [] => best
  | c :: l' =>
      if is_nl c then best
      else if c =? 34 then
        if prev_backslash then m_string_scan l' false (S consumed) (S consumed) else S consumed
      else m_string_scan l' (c =? 92) (S consumed) best
  end.
Definition m_string (l : list Z) : nat :=
  match l with 34 :: l' => m_string_scan l' false 1 O | _ => O end.

(* [a-z]+ [a-z_]* *)
Definition m_identifier (l : list Z) : nat :=
  match span_len is_lower l with
  | O => O
  | n => (n + span_len is_ident_tail (skipn n l))%nat
  end.

(* MINUS? [0-9]+ *)
Definition m_number (l : list Z) : nat :=
  match l with
  | 45 :: l' => match span_len is_digit l' with O => O | n => S n end
  | _ => span_len is_digit l
  end.

(* dollar, [a-z_]+, [a-z0-9_]* *)
Definition m_varname (l : list Z) : nat :=
  match l with
  | 36 :: l' => match span_len is_var_head l' with O => O | n => (1 + n + span_len is_var_tail (skipn n l'))%nat end
  | _ => O
  end.

(* at-sign, [a-zA-Z0-9_-]+, then colon-separated segments of the same *)
Fixpoint m_account_segs (fuel : nat) (l : list Z) (consumed : nat) : nat :=
  match fuel with
  | O => consumed
  | S fuel' =>
    match l with
    | 58 :: l' => match span_len is_acct l' with
                  | O => consumed
                  | n => m_account_segs fuel' (skipn n l') (consumed + 1 + n)
                  end
    | _ => consumed
    end
  end.
Definition m_account (l : list Z) : nat :=
  match l with
  | 64 :: l' => match span_len is_acct l' with
                | O => O
                | n => m_account_segs (List.length l) (skipn n l') (1 + n)
                end
  | _ => O
  end.

Definition m_asset (l : list Z) : nat := span_len is_asset l.

Definition cp (s : string) : list Z := map (fun a => Z.of_nat (nat_of_ascii a)) (list_ascii_of_string s).

(* the rules, in the order of Numscript.g4 (the implicit literal plus sign first). None = skipped *)
Definition rules : list (option tkind * (list Z -> nat)) :=
  [ (Some TPlus, m_lit (cp "+"));
    (None, m_ws);
    (None, fun l => span_len is_nl l);                   (* NEWLINE: never wins over WS *)
    (None, m_block_comment);
    (None, m_line_comment);
    (Some TVars, m_lit (cp "vars")); (Some TMax, m_lit (cp "max")); (Some TSource, m_lit (cp "source"));
    (Some TDestination, m_lit (cp "destination")); (Some TSend, m_lit (cp "send")); (Some TFrom, m_lit (cp "from"));
    (Some TUp, m_lit (cp "up")); (Some TTo, m_lit (cp "to")); (Some TRemaining, m_lit (cp "remaining"));
    (Some TAllowing, m_lit (cp "allowing")); (Some TUnbounded, m_lit (cp "unbounded")); (Some TOverdraft, m_lit (cp "overdraft"));
    (Some TKept, m_lit (cp "kept")); (Some TSave, m_lit (cp "save"));
    (Some TLParens, m_lit (cp "(")); (Some TRParens, m_lit (cp ")")); (Some TLBracket, m_lit (cp "["));
    (Some TRBracket, m_lit (cp "]")); (Some TLBrace, m_lit (cp "{")); (Some TRBrace, m_lit (cp "}"));
    (Some TComma, m_lit (cp ",")); (Some TEq, m_lit (cp "=")); (Some TStar, m_lit (cp "*")); (Some TMinus, m_lit (cp "-"));
    (Some TRatio, m_ratio); (Some TPercent, m_percent); (Some TString, m_string);
    (Some TIdentifier, m_identifier); (Some TNumber, m_number); (Some TVarName, m_varname);
    (Some TAccount, m_account); (Some TAsset, m_asset) ].

(* maximal munch: the longest match, the first rule among equals *)
Fixpoint best_rule (rs : list (option tkind * (list Z -> nat))) (l : list Z) (best : option (option tkind) * nat)
  : option (option tkind) * nat :=
  match rs with
  | [] => best
  | (k, m) :: rs' =>
      let n := m l in
      if (snd best <? n)%nat then best_rule rs' l (Some k, n) else best_rule rs' l best
  end.

(* when no rule matches: how far the rules could follow the input before all of them gave up.
   With the rules of Numscript.g4 only three can consume anything without matching: STRING (an
   opening quote, then everything up to the end of the line: a second quote would have matched),
   VARIABLE_NAME (the dollar sign) and ACCOUNT (the at sign). *)
Definition viable_len (l : list Z) : nat :=
  match l with
  | 34 :: l' => S (span_len (fun c => negb (is_nl c)) l')
  | 36 :: _ | 64 :: _ => 1
  | _ => O
  end.

(* position after consuming the characters *)
Fixpoint advance (cs : list Z) (line col : Z) : Z * Z :=
  match cs with
  | [] => (line, col)
  | c :: cs' => if c =? 10 then advance cs' (line + 1) 0 else advance cs' line (col + 1)
  end.

(* lexing: tokens and lexical errors (positions of unrecognised characters) *)
Fixpoint lex (fuel : nat) (l : list Z) (line col : Z) (acc : list token) (errs : list (Z * Z))
  : list token * list (Z * Z) :=
  match fuel with
  | O => (rev acc, rev errs)
  | S fuel' =>
    match l with
    | [] => (rev acc, rev errs)
    | c :: l' =>
        match best_rule rules l (None, O) with
        | (Some k, n) =>
            let txt := firstn n l in
            let '(line', col') := advance txt line col in
            match k with
            | Some kind => lex fuel' (skipn n l) line' col' (mktoken kind txt line col :: acc) errs
            | None => lex fuel' (skipn n l) line' col' acc errs
            end
        | (None, _) =>
            (* token recognition error, reported at the start. ANTLR's simulator has consumed every
               character some rule could still continue with - an opening quote and the rest of its
               line, a dollar or at sign - and recovery drops one more character *)
            let txt := firstn (S (viable_len l)) l in
            let '(line', col') := advance txt line col in
            lex fuel' (skipn (S (viable_len l)) l) line' col' acc ((line, col) :: errs)
        end
    end
  end.

Definition lex_text (l : list Z) : list token * list (Z * Z) := lex (S (List.length l)) l 0 0 [] [].

(* ---- code points -> bytes (UTF-8), for the strings of the tree ---- *)
Definition utf8 (c : Z) : list Z :=
  if c <? 128 then [c]
  else if c <? 2048 then [192 + c / 64; 128 + c mod 64]
  else if c <? 65536 then [224 + c / 4096; 128 + (c / 64) mod 64; 128 + c mod 64]
  else [240 + c / 262144; 128 + (c / 4096) mod 64; 128 + (c / 64) mod 64; 128 + c mod 64].

Definition string_of_cps (l : list Z) : string :=
  string_of_list_ascii (map (fun b => ascii_of_N (Z.to_N b)) (flat_map utf8 l)).
