(* Reference parser for Numscript.g4: recursive descent over the token list of Model/Lexer.v,
   producing the tree of Model/Syntax.v with the ranges parser.go attaches (first character of the
   first token to just past the last token). Choices mirror ANTLR's on this grammar: a `{` source is
   an allotment iff its first clause starts with an allotment followed by `from`, a `{`
   destination is an allotment iff it starts with an allotment followed by `to` / `kept`
   (`{ remaining to @x }` is an allotment: lowest alternative), infix + and - are left
   associative. None = syntax error. *)
From NS Require Export Lexer Conv.

Definition tok_range (t : token) : range :=
  R (tk_line t) (tk_col t) (tk_line t) (tk_col t + tk_len t).
Definition span (a b : range) : range := mkrange (rstart a) (rend b).

Definition tk_is (k : tkind) (t : token) : bool :=
  match k, tk_kind t with
  | TPlus, TPlus | TVars, TVars | TMax, TMax | TSource, TSource | TDestination, TDestination | TSend, TSend
  | TFrom, TFrom | TUp, TUp | TTo, TTo | TRemaining, TRemaining | TAllowing, TAllowing | TUnbounded, TUnbounded
  | TOverdraft, TOverdraft | TKept, TKept | TSave, TSave | TLParens, TLParens | TRParens, TRParens
  | TLBracket, TLBracket | TRBracket, TRBracket | TLBrace, TLBrace | TRBrace, TRBrace | TComma, TComma
  | TEq, TEq | TStar, TStar | TMinus, TMinus | TRatio, TRatio | TPercent, TPercent | TString, TString
  | TIdentifier, TIdentifier | TNumber, TNumber | TVarName, TVarName | TAccount, TAccount | TAsset, TAsset => true
  | _, _ => false
  end.

Definition expect (k : tkind) (ts : list token) : option (token * list token) :=
  match ts with t :: ts' => if tk_is k t then Some (t, ts') else None | [] => None end.

Definition text_of (t : token) : string := string_of_cps (tk_text t).
Definition drop_first (s : string) : string := match s with String _ s' => s' | EmptyString => EmptyString end.

(* literal conversions of parser.go *)
Definition ratio_of_token (t : token) : option expr :=
  match portion_literal (text_of t) with
  | Some (n, d) => Some (ERatio (tok_range t) n d)
  | None => None
  end.

(* parse errors reported for number literals that do not fit in an int are collected separately *)
Definition number_of_token (t : token) : option (expr * bool) :=
  match number_literal (text_of t) with
  | Some (n, ok) => Some (ENumber (tok_range t) n, ok)
  | None => None
  end.

Definition expr_rng (e : expr) : range :=
  match e with
  | EVar r _ | EAsset r _ | EString r _ | EAccount r _ | ENumber r _ | EMonetary r _ _ | ERatio r _ _ | EInfix r _ _ _ => r
  | _ => norange
  end.

(* out-of-range number tokens seen so far are threaded through as a counter *)
Definition pres (A : Type) := option (A * list token * nat).

Fixpoint parse_atom (fuel : nat) (ts : list token) (bad : nat) {struct fuel} : pres expr :=
  match fuel with
  | O => None
  | S fuel' =>
    match ts with
    | [] => None
    | t :: ts' =>
        match tk_kind t with
        | TVarName => Some (EVar (tok_range t) (drop_first (text_of t)), ts', bad)
        | TAsset => Some (EAsset (tok_range t) (text_of t), ts', bad)
        | TString => let s := text_of t in
                     Some (EString (tok_range t) (drop_last (drop_first s)), ts', bad)
        | TAccount => Some (EAccount (tok_range t) (drop_first (text_of t)), ts', bad)
        | TNumber => match number_of_token t with
                     | Some (e, ok) => Some (e, ts', if ok then bad else S bad)
                     | None => None
                     end
        | TRatio | TPercent => match ratio_of_token t with Some e => Some (e, ts', bad) | None => None end
        | TLBracket =>
            match parse_expr fuel' ts' bad with
            | Some (a, ts1, bad1) =>
                match parse_expr fuel' ts1 bad1 with
                | Some (n, ts2, bad2) =>
                    match expect TRBracket ts2 with
                    | Some (rb, ts3) => Some (EMonetary (span (tok_range t) (tok_range rb)) a n, ts3, bad2)
                    | None => None
                    end
                | None => None
                end
            | None => None
            end
        | _ => None
        end
    end
  end
with parse_expr (fuel : nat) (ts : list token) (bad : nat) {struct fuel} : pres expr :=
  match fuel with
  | O => None
  | S fuel' =>
    match parse_atom fuel' ts bad with
    | Some (l, ts1, bad1) => parse_infix_tail fuel' l ts1 bad1
    | None => None
    end
  end
with parse_infix_tail (fuel : nat) (left : expr) (ts : list token) (bad : nat) {struct fuel} : pres expr :=
  match fuel with
  | O => None
  | S fuel' =>
    match ts with
    | t :: ts' =>
        match tk_kind t with
        | TPlus | TMinus =>
            match parse_atom fuel' ts' bad with
            | Some (r, ts2, bad2) =>
                parse_infix_tail fuel' (EInfix (span (expr_rng left) (expr_rng r))
                                               (match tk_kind t with TPlus => OpPlus | _ => OpMinus end) left r) ts2 bad2
            | None => None
            end
        | _ => Some (left, ts, bad)
        end
    | [] => Some (left, ts, bad)
    end
  end.

Definition is_allot_start (t : token) : bool :=
  match tk_kind t with TRatio | TPercent | TVarName | TRemaining => true | _ => false end.

Definition parse_allot (t : token) : option allot :=
  match tk_kind t with
  | TRatio | TPercent => match portion_literal (text_of t) with Some (n, d) => Some (ARatio (tok_range t) n d) | None => None end
  | TVarName => Some (AVar (tok_range t) (drop_first (text_of t)))
  | TRemaining => Some (ARemaining (tok_range t))
  | _ => None
  end.

Definition source_rng (s : source) : range :=
  match s with
  | SAccount e => expr_rng e
  | SInorder r _ | SAllot r _ | SCapped r _ _ | SOverdraft r _ _ => r
  | SNil => norange
  end.

(* an address, optionally followed by `allowing unbounded overdraft` / `allowing overdraft up to <expr>` *)
Definition parse_account_source (fuel' : nat) (ts : list token) (bad : nat) : pres source :=
            match parse_expr fuel' ts bad with
            | Some (addr, ts1, bad1) =>
                match ts1 with
                | al :: ts2 =>
                    if tk_is TAllowing al then
                      match ts2 with
                      | u :: o :: ts3 =>
                          if tk_is TUnbounded u && tk_is TOverdraft o
                          then Some (SOverdraft (span (expr_rng addr) (tok_range o)) addr None, ts3, bad1)
                          else if tk_is TOverdraft u
                          then match expect TUp (o :: ts3) with
                               | Some (_, ts4) =>
                                   match expect TTo ts4 with
                                   | Some (_, ts5) =>
                                       match parse_expr fuel' ts5 bad1 with
                                       | Some (b, ts6, bad6) => Some (SOverdraft (span (expr_rng addr) (expr_rng b)) addr (Some b), ts6, bad6)
                                       | None => None
                                       end
                                   | None => None
                                   end
                               | None => None
                               end
                          else None
                      | _ => None
                      end
                    else Some (SAccount addr, ts1, bad1)
                | [] => Some (SAccount addr, ts1, bad1)
                end
            | None => None
            end.

Fixpoint parse_source (fuel : nat) (ts : list token) (bad : nat) {struct fuel} : pres source :=
  match fuel with
  | O => None
  | S fuel' =>
    match ts with
    | [] => None
    | t :: ts' =>
        match tk_kind t with
        | TLBrace =>
            match ts' with
            | a :: f :: _ =>
                if is_allot_start a && tk_is TFrom f
                then match parse_src_clauses fuel' ts' bad with
                     | Some (items, ts2, bad2) =>
                         match expect TRBrace ts2 with
                         | Some (rb, ts3) => Some (SAllot (span (tok_range t) (tok_range rb)) items, ts3, bad2)
                         | None => None
                         end
                     | None => None
                     end
                else match parse_sources fuel' ts' bad with
                     | Some (l, ts2, bad2) =>
                         match expect TRBrace ts2 with
                         | Some (rb, ts3) => Some (SInorder (span (tok_range t) (tok_range rb)) l, ts3, bad2)
                         | None => None
                         end
                     | None => None
                     end
            | _ =>
                match parse_sources fuel' ts' bad with
                | Some (l, ts2, bad2) =>
                    match expect TRBrace ts2 with
                    | Some (rb, ts3) => Some (SInorder (span (tok_range t) (tok_range rb)) l, ts3, bad2)
                    | None => None
                    end
                | None => None
                end
            end
        | TMax =>
            match parse_expr fuel' ts' bad with
            | Some (cap, ts1, bad1) =>
                match expect TFrom ts1 with
                | Some (_, ts2) =>
                    match parse_source fuel' ts2 bad1 with
                    | Some (from, ts3, bad3) => Some (SCapped (span (tok_range t) (source_rng from)) from cap, ts3, bad3)
                    | None => None
                    end
                | None => None
                end
            | None => None
            end
        | _ => parse_account_source fuel' ts bad
        end
    end
  end
with parse_sources (fuel : nat) (ts : list token) (bad : nat) {struct fuel} : pres (list source) :=
  match fuel with
  | O => None
  | S fuel' =>
    match ts with
    | t :: _ =>
        if tk_is TRBrace t then Some ([], ts, bad)
        else match parse_source fuel' ts bad with
             | Some (s, ts1, bad1) =>
                 match parse_sources fuel' ts1 bad1 with
                 | Some (l, ts2, bad2) => Some (s :: l, ts2, bad2)
                 | None => None
                 end
             | None => None
             end
    | [] => None
    end
  end
with parse_src_clauses (fuel : nat) (ts : list token) (bad : nat) {struct fuel} : pres (list (range * allot * source)) :=
  match fuel with
  | O => None
  | S fuel' =>
    match ts with
    | a :: f :: ts1 =>
        if is_allot_start a && tk_is TFrom f then
          match parse_allot a, parse_source fuel' ts1 bad with
          | Some al, Some (s, ts2, bad2) =>
              let item := (span (tok_range a) (source_rng s), al, s) in
              match ts2 with
              | t :: _ =>
                  if tk_is TRBrace t then Some ([item], ts2, bad2)
                  else match parse_src_clauses fuel' ts2 bad2 with
                       | Some (l, ts3, bad3) => Some (item :: l, ts3, bad3)
                       | None => None
                       end
              | [] => None
              end
          | _, _ => None
          end
        else None
    | _ => None
    end
  end.

Definition dest_rng (d : dest) : range :=
  match d with
  | DAccount e => expr_rng e
  | DInorder r _ _ | DAllot r _ => r
  | DNil => norange
  end.

(* the end of a keptOrDestination: the kept token, or the end of the destination *)
Definition kod_end (k : kod) (kept_rng : range) : range :=
  match k with KKept r => r | KTo d => dest_rng d | KNil => kept_rng end.

Fixpoint parse_dest (fuel : nat) (ts : list token) (bad : nat) {struct fuel} : pres dest :=
  match fuel with
  | O => None
  | S fuel' =>
    match ts with
    | [] => None
    | t :: ts' =>
        match tk_kind t with
        | TLBrace =>
            match ts' with
            | a :: k :: _ =>
                if is_allot_start a && (tk_is TTo k || tk_is TKept k)
                then match parse_dst_clauses fuel' ts' bad with
                     | Some (items, ts2, bad2) =>
                         match expect TRBrace ts2 with
                         | Some (rb, ts3) => Some (DAllot (span (tok_range t) (tok_range rb)) items, ts3, bad2)
                         | None => None
                         end
                     | None => None
                     end
                else match parse_inorder_clauses fuel' ts' bad with
                     | Some (cl, ts2, bad2) =>
                         match expect TRemaining ts2 with
                         | Some (_, ts3) =>
                             match parse_kod fuel' ts3 bad2 with
                             | Some (rem, ts4, bad4) =>
                                 match expect TRBrace ts4 with
                                 | Some (rb, ts5) => Some (DInorder (span (tok_range t) (tok_range rb)) cl rem, ts5, bad4)
                                 | None => None
                                 end
                             | None => None
                             end
                         | None => None
                         end
                     | None => None
                     end
            | _ => None
            end
        | _ =>
            match parse_expr fuel' ts bad with
            | Some (e, ts1, bad1) => Some (DAccount e, ts1, bad1)
            | None => None
            end
        end
    end
  end
with parse_kod (fuel : nat) (ts : list token) (bad : nat) {struct fuel} : pres kod :=
  match fuel with
  | O => None
  | S fuel' =>
    match ts with
    | t :: ts' =>
        match tk_kind t with
        | TKept => Some (KKept (tok_range t), ts', bad)
        | TTo => match parse_dest fuel' ts' bad with
                 | Some (d, ts1, bad1) => Some (KTo d, ts1, bad1)
                 | None => None
                 end
        | _ => None
        end
    | [] => None
    end
  end
with parse_inorder_clauses (fuel : nat) (ts : list token) (bad : nat) {struct fuel} : pres (list (range * expr * kod)) :=
  match fuel with
  | O => None
  | S fuel' =>
    match ts with
    | t :: ts' =>
        if tk_is TMax t then
          match parse_expr fuel' ts' bad with
          | Some (cap, ts1, bad1) =>
              match parse_kod fuel' ts1 bad1 with
              | Some (k, ts2, bad2) =>
                  match parse_inorder_clauses fuel' ts2 bad2 with
                  | Some (l, ts3, bad3) => Some ((span (tok_range t) (kod_end k norange), cap, k) :: l, ts3, bad3)
                  | None => None
                  end
              | None => None
              end
          | None => None
          end
        else Some ([], ts, bad)
    | [] => Some ([], ts, bad)
    end
  end
with parse_dst_clauses (fuel : nat) (ts : list token) (bad : nat) {struct fuel} : pres (list (range * allot * kod)) :=
  match fuel with
  | O => None
  | S fuel' =>
    match ts with
    | a :: ts1 =>
        if is_allot_start a then
          match parse_allot a, parse_kod fuel' ts1 bad with
          | Some al, Some (k, ts2, bad2) =>
              let item := (span (tok_range a) (kod_end k norange), al, k) in
              match ts2 with
              | t :: _ =>
                  if tk_is TRBrace t then Some ([item], ts2, bad2)
                  else match parse_dst_clauses fuel' ts2 bad2 with
                       | Some (l, ts3, bad3) => Some (item :: l, ts3, bad3)
                       | None => None
                       end
              | [] => None
              end
          | _, _ => None
          end
        else None
    | [] => None
    end
  end.

(* sentValue: valueExpr | '[' valueExpr '*' ']' *)
Definition parse_sent (fuel : nat) (ts : list token) (bad : nat) : pres sent :=
  let as_literal := match parse_expr fuel ts bad with
                    | Some (e, ts1, bad1) => Some (SVLit (expr_rng e) e, ts1, bad1)
                    | None => None
                    end in
  match ts with
  | lb :: ts' =>
      if tk_is TLBracket lb then
        match parse_expr fuel ts' bad with
        | Some (a, ts1, bad1) =>
            match ts1 with
            | st :: rb :: ts2 =>
                if tk_is TStar st && tk_is TRBracket rb
                then Some (SVAll (span (tok_range lb) (tok_range rb)) a, ts2, bad1)
                else as_literal
            | _ => as_literal
            end
        | None => None
        end
      else as_literal
  | [] => None
  end.

Fixpoint parse_args (fuel : nat) (ts : list token) (bad : nat) : pres (list expr) :=
  match fuel with
  | O => None
  | S fuel' =>
    match parse_expr fuel ts bad with
    | Some (e, ts1, bad1) =>
        match ts1 with
        | c :: ts2 =>
            if tk_is TComma c then
              match parse_args fuel' ts2 bad1 with
              | Some (l, ts3, bad3) => Some (e :: l, ts3, bad3)
              | None => None
              end
            else Some ([e], ts1, bad1)
        | [] => Some ([e], ts1, bad1)
        end
    | None => None
    end
  end.

Definition parse_fncall (fuel : nat) (ts : list token) (bad : nat) : pres fncall :=
  match ts with
  | name :: lp :: ts1 =>
      if (tk_is TIdentifier name || tk_is TOverdraft name) && tk_is TLParens lp then
        match ts1 with
        | rp :: ts2 =>
            if tk_is TRParens rp
            then Some (mkfncall (span (tok_range name) (tok_range rp)) (tok_range name) (text_of name) [], ts2, bad)
            else match parse_args fuel ts1 bad with
                 | Some (args, ts3, bad3) =>
                     match expect TRParens ts3 with
                     | Some (rp', ts4) => Some (mkfncall (span (tok_range name) (tok_range rp')) (tok_range name) (text_of name) args, ts4, bad3)
                     | None => None
                     end
                 | None => None
                 end
        | [] => None
        end
      else None
  | _ => None
  end.

Definition parse_statement (fuel : nat) (ts : list token) (bad : nat) : pres stmt :=
  match ts with
  | t :: ts' =>
      match tk_kind t with
      | TSend =>
          match parse_sent fuel ts' bad with
          | Some (sv, ts1, bad1) =>
              match expect TLParens ts1 with
              | Some (_, ts2) =>
                match expect TSource ts2 with
                | Some (_, ts3) =>
                  match expect TEq ts3 with
                  | Some (_, ts4) =>
                    match parse_source fuel ts4 bad1 with
                    | Some (src, ts5, bad5) =>
                      match expect TDestination ts5 with
                      | Some (_, ts6) =>
                        match expect TEq ts6 with
                        | Some (_, ts7) =>
                          match parse_dest fuel ts7 bad5 with
                          | Some (dst, ts8, bad8) =>
                            match expect TRParens ts8 with
                            | Some (rp, ts9) => Some (StSend (span (tok_range t) (tok_range rp)) sv src dst, ts9, bad8)
                            | None => None
                            end
                          | None => None
                          end
                        | None => None
                        end
                      | None => None
                      end
                    | None => None
                    end
                  | None => None
                  end
                | None => None
                end
              | None => None
              end
          | None => None
          end
      | TSave =>
          match parse_sent fuel ts' bad with
          | Some (sv, ts1, bad1) =>
              match expect TFrom ts1 with
              | Some (_, ts2) =>
                  match parse_expr fuel ts2 bad1 with
                  | Some (a, ts3, bad3) => Some (StSave (span (tok_range t) (expr_rng a)) sv a, ts3, bad3)
                  | None => None
                  end
              | None => None
              end
          | None => None
          end
      | _ =>
          match parse_fncall fuel ts bad with
          | Some (f, ts1, bad1) => Some (StFnCall f, ts1, bad1)
          | None => None
          end
      end
  | [] => None
  end.

Fixpoint parse_statements (fuel : nat) (ts : list token) (bad : nat) : option (list stmt * nat) :=
  match fuel with
  | O => None
  | S fuel' =>
    match ts with
    | [] => Some ([], bad)
    | _ =>
        match parse_statement fuel ts bad with
        | Some (s, ts1, bad1) =>
            match parse_statements fuel' ts1 bad1 with
            | Some (l, bad2) => Some (s :: l, bad2)
            | None => None
            end
        | None => None
        end
    end
  end.

Fixpoint parse_vardecls (fuel : nat) (ts : list token) (bad : nat) : pres (list vardecl) :=
  match fuel with
  | O => None
  | S fuel' =>
    match ts with
    | ty :: name :: ts1 =>
        if tk_is TRBrace ty then Some ([], ts, bad)
        else if tk_is TIdentifier ty && tk_is TVarName name then
          let finish (d : vardecl) (ts2 : list token) (bad2 : nat) :=
            match parse_vardecls fuel' ts2 bad2 with
            | Some (l, ts3, bad3) => Some (d :: l, ts3, bad3)
            | None => None
            end in
          match ts1 with
          | eq :: ts2 =>
              if tk_is TEq eq then
                match parse_fncall fuel ts2 bad with
                | Some (f, ts3, bad3) =>
                    finish (mkvardecl (span (tok_range ty) (fc_range f)) (Some (tok_range name, drop_first (text_of name)))
                                      (Some (tok_range ty, text_of ty)) (Some f)) ts3 bad3
                | None => None
                end
              else finish (mkvardecl (span (tok_range ty) (tok_range name)) (Some (tok_range name, drop_first (text_of name)))
                                     (Some (tok_range ty, text_of ty)) None) ts1 bad
          | [] => None
          end
        else None
    | [t] => if tk_is TRBrace t then Some ([], ts, bad) else None
    | [] => None
    end
  end.

(* program: varsDeclaration? statement* EOF. Result: the tree and the number of number literals
   that do not fit in an int (each is reported as an error by Parse) *)
Definition parse_tokens (ts : list token) : option (program * nat) :=
  let fuel := (2 * List.length ts + 6)%nat in   (* more than any derivation needs: Proofs/ParserComplete.v *)
  match ts with
  | v :: lb :: ts1 =>
      if tk_is TVars v then
        if tk_is TLBrace lb then
          match parse_vardecls fuel ts1 O with
          | Some (ds, ts2, bad) =>
              match expect TRBrace ts2 with
              | Some (_, ts3) =>
                  match parse_statements fuel ts3 bad with
                  | Some (ss, bad') => Some (mkprogram ds ss, bad')
                  | None => None
                  end
              | None => None
              end
          | None => None
          end
        else None
      else match parse_statements fuel ts O with Some (ss, bad) => Some (mkprogram [] ss, bad) | None => None end
  | _ => match parse_statements fuel ts O with Some (ss, bad) => Some (mkprogram [] ss, bad) | None => None end
  end.

Inductive parse_outcome :=
| Parsed (p : program)                 (* accepted with zero errors *)
| ParsedOutOfRange (p : program) (n : nat)   (* grammatical, but n number literals do not fit in an int (finding F-D10) *)
| Rejected.

Definition parse_text (text : list Z) : parse_outcome :=
  match lex_text text with
  | (ts, []) =>
      match parse_tokens ts with
      | Some (p, O) => Parsed p
      | Some (p, n) => ParsedOutOfRange p n
      | None => Rejected
      end
  | (_, _ :: _) => Rejected
  end.
