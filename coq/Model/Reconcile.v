(* interpreter/reconciler.go *)
From NS Require Export Eval.


(* the KEPT branch: withhold [k] units from the senders next in line *)
Fixpoint drop_units (k : Z) (S : list entry) : list entry :=
  match S with
  | [] => []
  | (s, m) :: S' =>
      if k <=? 0 then S
      else if k <? m then (s, m - k) :: S'
      else drop_units (k - m) S'
  end.

(* append to the posting list (kept in reverse), merging with the last one *)
Definition emit (asset : string) (acc : list posting) (s d : string) (a : Z) : list posting :=
  match acc with
  | p :: acc' =>
      if (String.eqb (psrc p) s && String.eqb (pdst p) d)%bool
      then mkposting s d (pamt p + a) (passet p) :: acc'
      else mkposting s d a asset :: acc
  | [] => [mkposting s d a asset]
  end.

Fixpoint rec_loop (asset : string) (fuel : nat) (S R : list entry) (acc : list posting) : option (list posting) :=
  match fuel with
  | O => None
  | Datatypes.S fuel' =>
    match R with
    | [] => Some acc
    | (r, rm) :: R' =>
      if String.eqb r KEPT_ADDR then rec_loop asset fuel' (drop_units rm S) R' acc
      else match S with
        | [] => Some acc
        | (s, sm) :: S' =>
          match sm ?= rm with
          | Eq => rec_loop asset fuel' S' R' (emit asset acc s r sm)
          | Lt => rec_loop asset fuel' S' ((r, rm - sm) :: R') (emit asset acc s r sm)
          | Gt => rec_loop asset fuel' ((s, sm - rm) :: S') R' (emit asset acc s r rm)
          end
        end
    end
  end.

Definition reconcile_fuel (S R : list entry) : nat := (List.length S + List.length R + 1)%nat.

(* None = out of fuel (excluded by Proofs: never happens) *)
Definition reconcile (asset : string) (S R : list entry) : option (list posting) :=
  option_map (@rev posting) (rec_loop asset (reconcile_fuel S R) S R []).
