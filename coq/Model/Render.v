(* parser/range.go: Range.ShowOnSource, reduced to the operations that can panic: the slice
   expression lines[start.Line : end.Line+1], the two neighbour lines indexed, and the two
   strings.Repeat calls, whose count must not be negative. [lens] are the lengths IN BYTES of the
   lines of the source (strings.Split(source, "\n") and len(line)); range characters are counted in
   code points by the parser. *)
From NS Require Export Syntax.
Open Scope Z_scope.

Fixpoint zseq (start : Z) (n : nat) : list Z :=
  match n with O => [] | S n' => start :: zseq (start + 1) n' end.

Definition show_line_ok (lens : list Z) (r : range) (src : Z) : bool :=
  let len := nth (Z.to_nat src) lens 0 in
  let s := if pline (rstart r) =? src then pchar (rstart r) else 0 in
  let e := if pline (rend r) =? src then pchar (rend r) else len in
  (0 <=? e - s) && (0 <=? s).

Definition show_on_source_ok (lens : list Z) (r : range) : bool :=
  let n := Z.of_nat (List.length lens) in
  let sl := pline (rstart r) in
  let el := pline (rend r) in
  (* lines[sl : el+1] *)
  (0 <=? sl) && (sl <=? el + 1) && (el + 1 <=? n)
  && forallb (show_line_ok lens r) (zseq sl (Z.to_nat (el + 1 - sl))).

(* a range the parser may report: start not after end, both on existing lines, the start inside its
   line; the end of a token error may be one short of the start (a token of length 0 is never
   reported, see Parser) *)
Definition range_wf (lens : list Z) (r : range) : Prop :=
  let sl := pline (rstart r) in
  let el := pline (rend r) in
  0 <= sl <= el /\ el < Z.of_nat (List.length lens)
  /\ 0 <= pchar (rstart r)
  /\ (if sl =? el then pchar (rstart r) <= pchar (rend r)
      else pchar (rstart r) <= nth (Z.to_nat sl) lens 0 /\ 0 <= pchar (rend r)).
