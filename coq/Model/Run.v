(* interpreter.go: RunProgram, parseVars, handleOrigin, parseVar, meta/balance/overdraft;
   batch_balances_query.go: findBalancesQueries*, batchQuery, runBalancesQuery; numscript.go: Run.
   The store is an explicit oracle: a function from the call index and the query to an answer. *)
From Coq Require Import Ascii.
From NS Require Export Stmt.

Definition bquery := list (string * list string).     (* BalanceQuery: account -> assets, insertion order *)
Definition metadata := list (string * list (string * string)).

Inductive store_call :=
| CallBalances (q : bquery)
| CallMeta (account key : string).

Inductive store_answer :=
| AnsBalances (b : balances)
| AnsMeta (m : metadata)
| AnsError (msg : string).

Definition store := nat -> store_call -> store_answer.

Record rstate := mkrstate {
  rs_cache : balances;
  rs_query : bquery;                 (* CurrentBalanceQuery *)
  rs_ncalls : nat;                   (* number of store calls made so far *)
  rs_log : list store_call           (* the calls, most recent first *)
}.

(* ---- text -> value (parseVar, parseMonetary, ParsePortionSpecific) ---- *)
Definition is_digit (c : ascii) : bool := let n := nat_of_ascii c in (48 <=? n)%nat && (n <=? 57)%nat.
Definition is_account_char (c : ascii) : bool :=
  let n := nat_of_ascii c in
  ((48 <=? n)%nat && (n <=? 57)%nat) || ((65 <=? n)%nat && (n <=? 90)%nat) || ((97 <=? n)%nat && (n <=? 122)%nat)
  || (n =? 95)%nat || (n =? 45)%nat.

Fixpoint all_chars (f : ascii -> bool) (s : string) : bool :=
  match s with EmptyString => true | String c s' => f c && all_chars f s' end.

Fixpoint split_on (sep : ascii) (s : string) : list string :=   (* strings.Split(s, sep) *)
  match s with
  | EmptyString => [EmptyString]
  | String c s' =>
      if Ascii.eqb c sep then EmptyString :: split_on sep s'
      else match split_on sep s' with
           | [] => [String c EmptyString]
           | x :: l => String c x :: l
           end
  end.

(* ^[a-zA-Z0-9_-]+(:[a-zA-Z0-9_-]+)*$ *)
Definition valid_account_name (s : string) : bool :=
  forallb (fun seg => negb (String.eqb seg "") && all_chars is_account_char seg) (split_on ":"%char s).

Definition parse_monetary (s : string) : res value :=
  match split_on " "%char s with
  | [asset; raw] =>
      match parse_int raw with
      | Some n => Ok (VMonetary asset n)
      | None => Err InvalidNumberLiteral
      end
  | _ => Err InvalidMonetaryLiteral
  end.

Definition nonempty_digits (s : string) : bool := negb (String.eqb s "") && all_chars is_digit s.

Definition digits_to_Z (s : string) : Z := match parse_int s with Some n => n | None => 0 end.

Fixpoint pow10 (n : nat) : positive := match n with O => 1%positive | S n' => (10 * pow10 n')%positive end.

(* \s of Go's regexp (RE2): [\t\n\f\r ] *)
Definition is_re_space (c : ascii) : bool :=
  let n := nat_of_ascii c in (n =? 9)%nat || (n =? 10)%nat || (n =? 12)%nat || (n =? 13)%nat || (n =? 32)%nat.

Definition strip_one_trailing_space (s : string) : string :=
  match rev (list_ascii_of_string s) with
  | c :: l => if is_re_space c then string_of_list_ascii (rev l) else s
  | [] => s
  end.
Definition strip_one_leading_space (s : string) : string :=
  match s with String c s' => if is_re_space c then s' else s | _ => s end.

Definition drop_last (s : string) : string :=
  string_of_list_ascii (rev (tl (rev (list_ascii_of_string s)))).
Definition last_char (s : string) : option ascii := hd_error (rev (list_ascii_of_string s)).

(* ParsePortionSpecific: ^([0-9]+)(?:[.]([0-9]+))?[%]$  |  ^([0-9]+)\s?[/]\s?([0-9]+)$ ; value in [0,1] *)
Definition parse_portion_text (s : string) : option Q :=
  match last_char s with
  | Some "%"%char =>
      let body := drop_last s in
      match split_on "."%char body with
      | [i] => if nonempty_digits i then Some (digits_to_Z i # 100) else None
      | [i; f] =>
          if nonempty_digits i && nonempty_digits f
          then Some (digits_to_Z (i ++ f)%string # (100 * pow10 (String.length f)))
          else None
      | _ => None
      end
  | _ =>
      match split_on "/"%char s with
      | [n; d] =>
          let n := strip_one_trailing_space n in
          let d := strip_one_leading_space d in
          if nonempty_digits n && nonempty_digits d
          then match digits_to_Z d with
               | Zpos dp => Some (digits_to_Z n # dp)
               | _ => None            (* zero denominator: "invalid fractional format" *)
               end
          else None
      | _ => None
      end
  end.

Definition parse_portion (s : string) : res value :=
  match parse_portion_text s with
  | Some q => if Qle_bool 0 q && Qle_bool q 1 then Ok (VPortion q) else Err BadPortionParsingErr
  | None => Err BadPortionParsingErr
  end.

Definition parse_var (ty raw : string) : res value :=
  if String.eqb ty TypeMonetary then parse_monetary raw
  else if String.eqb ty TypeAccount then
    (if valid_account_name raw then Ok (VAccount raw) else Err (InvalidAccountName raw))
  else if String.eqb ty TypePortion then parse_portion raw
  else if String.eqb ty TypeAsset then Ok (VAsset raw)
  else if String.eqb ty TypeNumber then
    match parse_int raw with Some n => Ok (VNumber n) | None => Err InvalidNumberLiteral end
  else if String.eqb ty TypeString then Ok (VString raw)
  else Err (InvalidTypeErr ty).

(* ---- balance queries ---- *)
Definition batch_query (account asset : string) (q : bquery) : bquery :=
  if String.eqb account WORLD then q
  else
    let prev := match alookup account q with Some l => l | None => [] end in
    if mem_str asset prev then q else aset account (prev ++ [asset]) q.

(* runBalancesQuery: an account is asked again (with all its queued assets) as soon as one of them is unknown *)
Definition filter_query (cache : balances) (q : bquery) : bquery :=
  filter (fun e : string * list string => existsb (fun c => negb (bmem cache (fst e) c)) (snd e)) q.

(* merge an answer into the cache: known cells are kept *)
Definition merge_balances (cache : balances) (ans : balances) : balances :=
  fold_left (fun c (e : cell * Z) => if bmem c (fst (fst e)) (snd (fst e)) then c else c ++ [e]) ans cache.

(* only what was asked for is cached: a store may answer with more (the bundled StaticStore returns
   its whole content) *)
Definition requested (q : bquery) (k : cell) : bool :=
  match alookup (fst k) q with Some l => mem_str (snd k) l | None => false end.
Definition restrict_answer (q : bquery) (ans : balances) : balances :=
  filter (fun e : cell * Z => requested q (fst e)) ans.

Definition run_balances_query (sb : store) (rs : rstate) : result string rstate :=
  let fq := filter_query (rs_cache rs) (rs_query rs) in
  match fq with
  | [] => Ok rs
  | _ =>
      let call := CallBalances fq in
      match sb (rs_ncalls rs) call with
      | AnsBalances b =>
          Ok (mkrstate (merge_balances (rs_cache rs) (restrict_answer fq b)) [] (S (rs_ncalls rs)) (call :: rs_log rs))
      | AnsError msg => Err msg
      | AnsMeta _ => Panic "store: wrong kind of answer"
      end
  end.

Section Preload.
Variable vs : env.

Fixpoint find_queries (asset : string) (src : source) (q : bquery) {struct src} : res bquery :=
  match src with
  | SNil => Panic "findBalancesQueries: non exhaustive match (nil)"
  | SAccount e => account <- eval_as vs e expect_account ;; Ok (batch_query account asset q)
  | SOverdraft _ addr bounded =>
      match bounded with
      | None => Ok q
      | Some _ => account <- eval_as vs addr expect_account ;; Ok (batch_query account asset q)
      end
  | SInorder _ srcs =>
      (fix go (l : list source) (q : bquery) : res bquery :=
         match l with [] => Ok q | s :: l' => q' <- find_queries asset s q ;; go l' q' end) srcs q
  | SCapped _ from _ => find_queries asset from q
  | SAllot _ items =>
      (fix go (l : list (range * allot * source)) (q : bquery) : res bquery :=
         match l with [] => Ok q | (_, _, s) :: l' => q' <- find_queries asset s q ;; go l' q' end) items q
  end.

Definition find_queries_stmt (s : stmt) (q : bquery) : res bquery :=
  match s with
  | StNil => Panic "findBalancesQueriesInStatement: non exhaustive match (nil)"
  | StNilFnCall => Ok q          (* the FnCall case matches a typed nil and returns *)
  | StFnCall _ => Ok q
  | StSave _ sv a =>
      '(asset, _) <- eval_sent_amt vs sv ;;
      account <- eval_as vs a expect_account ;;
      Ok (batch_query account asset q)
  | StSend _ sv src _ =>
      '(asset, _) <- eval_sent_amt vs sv ;;
      find_queries asset src q
  end.

Fixpoint find_queries_stmts (ss : list stmt) (q : bquery) : res bquery :=
  match ss with [] => Ok q | s :: ss' => q' <- find_queries_stmt s q ;; find_queries_stmts ss' q' end.
End Preload.

(* ---- variable origins ---- *)
Definition FnVarOriginMeta := "meta".
Definition FnVarOriginBalance := "balance".
Definition FnVarOriginOverdraft := "overdraft".

Definition lift_store {A} (wrap : string -> err) (m : result string A) : res A :=
  match m with Ok a => Ok a | Err msg => Err (wrap msg) | Panic w => Panic w end.

Definition get_balance (sb : store) (account asset : string) (rs : rstate) : res (Z * rstate) :=
  let rs1 := mkrstate (rs_cache rs) (batch_query account asset (rs_query rs)) (rs_ncalls rs) (rs_log rs) in
  rs2 <- lift_store QueryBalanceError (run_balances_query sb rs1) ;;
  (* getCachedBalance creates the cell when absent *)
  let b := bget (rs_cache rs2) account asset in
  let cache' := if bmem (rs_cache rs2) account asset then rs_cache rs2 else rs_cache rs2 ++ [((account, asset), 0)] in
  Ok (b, mkrstate cache' (rs_query rs2) (rs_ncalls rs2) (rs_log rs2)).

Definition two_args {A B} (args : list value) (e1 : value -> res A) (e2 : value -> res B) : res (A * B) :=
  match args with
  | [a; b] => x <- e1 a ;; y <- e2 b ;; Ok (x, y)
  | _ => Err (BadArityErr 2 (Z.of_nat (List.length args)))
  end.

Definition handle_origin (sb : store) (flag : bool) (vs : env) (ty : string) (f : fncall) (rs : rstate)
  : res (value * rstate) :=
  args <- eval_exprs vs (fc_args f) ;;
  if String.eqb (fc_caller f) FnVarOriginMeta then
    '(account, key) <- two_args args expect_account expect_string ;;
    let call := CallMeta account key in
    match sb (rs_ncalls rs) call with
    | AnsError msg => Err (QueryMetadataError msg)
    | AnsBalances _ => Panic "store: wrong kind of answer"
    | AnsMeta m =>
        let rs' := mkrstate (rs_cache rs) (rs_query rs) (S (rs_ncalls rs)) (call :: rs_log rs) in
        match alookup account m with
        | Some am =>
            match alookup key am with
            | Some raw => v <- parse_var ty raw ;; Ok (v, rs')
            | None => Err MetadataNotFound
            end
        | None => Err MetadataNotFound
        end
    end
  else if String.eqb (fc_caller f) FnVarOriginBalance then
    '(account, asset) <- two_args args expect_account expect_asset ;;
    '(b, rs') <- get_balance sb account asset rs ;;
    if b <? 0 then Err NegativeBalanceError else Ok (VMonetary asset b, rs')
  else if String.eqb (fc_caller f) FnVarOriginOverdraft then
    if negb flag then Err ExperimentalFeature else
    '(account, asset) <- two_args args expect_account expect_asset ;;
    '(b, rs') <- get_balance sb account asset rs ;;
    Ok (VMonetary asset (if 0 <? b then 0 else - b), rs')
  else Err (UnboundFunctionErr (fc_caller f)).

Fixpoint parse_vars (sb : store) (flag : bool) (decls : list vardecl) (raw : list (string * string))
  (vs : env) (rs : rstate) : res (env * rstate) :=
  match decls with
  | [] => Ok (vs, rs)
  | d :: decls' =>
      match vd_name d, vd_type d with
      | Some (_, name), Some (_, ty) =>
          '(v, rs') <-
            match vd_origin d with
            | None =>
                match alookup name raw with
                | None => Err (MissingVariableErr name)
                | Some r => v <- parse_var ty r ;; Ok (v, rs)
                end
            | Some f => handle_origin sb flag vs ty f rs
            end ;;
          parse_vars sb flag decls' raw (aset name v vs) rs'
      | _, _ => Panic "parseVars: nil name or type"
      end
  end.

(* ---- RunProgram + RunWithFeatureFlags ---- *)
Record exec_result := mkexec {
  x_postings : list posting;
  x_txmeta : list (string * value);
  x_accmeta : metadata;
  x_log : list store_call            (* store calls, in order *)
}.

(* everything RunProgram does before the first statement runs *)
Definition prepare (p : program) (raw : list (string * string)) (sb : store) (flag : bool) : res (env * rstate) :=
  let rs0 := mkrstate [] [] 0 [] in
  '(vs, rs1) <- parse_vars sb flag (p_vars p) raw [] rs0 ;;
  q <- find_queries_stmts vs (p_stmts p) (rs_query rs1) ;;
  rs2 <- lift_store QueryBalanceError
           (run_balances_query sb (mkrstate (rs_cache rs1) q (rs_ncalls rs1) (rs_log rs1))) ;;
  Ok (vs, rs2).

Definition run_program (p : program) (raw : list (string * string)) (sb : store) (flag : bool) : res exec_result :=
  '(vs, rs2) <- prepare p raw sb flag ;;
  '(ps, st) <- run_stmts vs (p_stmts p) (mkstate (rs_cache rs2) [] []) ;;
  Ok (mkexec ps (st_txmeta st) (st_accmeta st) (rev (rs_log rs2))).
