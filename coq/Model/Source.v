(* interpreter.go: trySendingUpTo / trySendingExact / trySendingToAccount / sendAll / sendAllToAccount.
   State touched: the Senders list only (cache, variables and current asset are read). *)
From NS Require Export Allot Reconcile.

Section Draw.
Variable vs : env.
Variable cache : balances.
Variable asset : string.

(* amount already pulled from [name] by the sources of the current statement *)
Definition already_sent (name : string) (sd : list entry) : Z :=
  zsum (map (fun e : entry => if String.eqb (fst e) name then snd e else 0) sd).

(* pushSender: zero amounts are not queued. Senders are kept in push order. *)
Definition push_sender (name : string) (amt : Z) (sd : list entry) : list entry :=
  if amt =? 0 then sd else sd ++ [(name, amt)].

(* overdraft: None = unbounded *)
Definition try_sending_to_account (acct_e : expr) (amount : Z) (overdraft : option Z) (sd : list entry)
  : res (Z * list entry) :=
  account <- eval_as vs acct_e expect_account ;;
  let overdraft := if String.eqb account WORLD then None else overdraft in
  let sent :=
    match overdraft with
    | None => amount
    | Some od =>
        let safe := bget cache account asset + od - already_sent account sd in
        let safe := if safe <? 0 then 0 else safe in
        Z.min safe amount            (* utils.MinBigInt(safe, amount) *)
    end in
  Ok (sent, push_sender account sent sd).

Fixpoint try_sending_up_to (src : source) (amount : Z) (sd : list entry) {struct src} : res (Z * list entry) :=
  match src with
  | SNil => Panic "trySendingUpTo: non exhaustive match (nil)"
  | SAccount e => try_sending_to_account e amount (Some 0) sd
  | SOverdraft _ addr bounded =>
      match bounded with
      | Some b =>
          cap <- eval_as vs b (expect_monetary_of_asset asset) ;;
          try_sending_to_account addr amount (Some cap) sd
      | None => try_sending_to_account addr amount None sd
      end
  | SInorder _ srcs =>
      (fix go (l : list source) (left : Z) (sd : list entry) : res (Z * list entry) :=
         match l with
         | [] => Ok (amount - left, sd)
         | s :: l' =>
             '(sent, sd') <- try_sending_up_to s left sd ;;
             go l' (left - sent) sd'
         end) srcs amount sd
  | SAllot _ items =>
      parts <- make_allotment vs amount (map (fun it => snd (fst it)) items) ;;
      (fix go (l : list (range * allot * source)) (parts : list Z) (sd : list entry) : res (Z * list entry) :=
         match l, parts with
         | [], _ => Ok (amount, sd)
         | (_, _, s) :: l', p :: parts' =>
             '(sent, sd') <- try_sending_up_to s p sd ;;
             if sent =? p then go l' parts' sd'
             else Err (MissingFundsErr asset p sent)
         | _ :: _, [] => Panic "trySendingUpTo: index out of range"
         end) items parts sd
  | SCapped _ from cap =>
      c <- eval_as vs cap (expect_monetary_of_asset asset) ;;
      let capped := Z.min amount c in
      let capped := if capped <? 0 then 0 else capped in
      try_sending_up_to from capped sd
  end.

Definition try_sending_exact (src : source) (amount : Z) (sd : list entry) : res (list entry) :=
  '(sent, sd') <- try_sending_up_to src amount sd ;;
  if sent =? amount then Ok sd' else Err (MissingFundsErr asset amount sent).

Definition send_all_to_account (acct_e : expr) (overdraft : option Z) (sd : list entry) : res (Z * list entry) :=
  account <- eval_as vs acct_e expect_account ;;
  match (if String.eqb account WORLD then None else overdraft) with
  | None => Err (InvalidUnboundedInSendAll account)
  | Some od =>
      let sent := bget cache account asset + od - already_sent account sd in
      let sent := if sent <? 0 then 0 else sent in
      Ok (sent, push_sender account sent sd)
  end.

Fixpoint send_all (src : source) (sd : list entry) {struct src} : res (Z * list entry) :=
  match src with
  | SNil => Panic "sendAll: non exhaustive match (nil)"
  | SAccount e => send_all_to_account e (Some 0) sd
  | SOverdraft _ addr bounded =>
      match bounded with
      | Some b =>
          cap <- eval_as vs b (expect_monetary_of_asset asset) ;;
          send_all_to_account addr (Some cap) sd
      | None => send_all_to_account addr None sd
      end
  | SInorder _ srcs =>
      (fix go (l : list source) (total : Z) (sd : list entry) : res (Z * list entry) :=
         match l with
         | [] => Ok (total, sd)
         | s :: l' =>
             '(sent, sd') <- send_all s sd ;;
             go l' (total + sent) sd'
         end) srcs 0 sd
  | SCapped _ from cap =>
      c <- eval_as vs cap (expect_monetary_of_asset asset) ;;
      let c := if c <? 0 then 0 else c in
      try_sending_up_to from c sd
  | SAllot _ _ => Err InvalidAllotmentInSendAll
  end.

End Draw.
