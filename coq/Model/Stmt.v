(* interpreter.go: runStatement, runSendStatement, runSaveStatement, getPostings, setTxMeta, setAccountMeta. *)
From NS Require Export Source Dest.

Record state := mkstate {
  st_cache : balances;                               (* CachedBalances *)
  st_txmeta : list (string * value);                 (* TxMeta *)
  st_accmeta : list (string * list (string * string)) (* SetAccountsMeta *)
}.

Definition FnSetTxMeta := "set_tx_meta".
Definition FnSetAccountMeta := "set_account_meta".

(* getPostings: apply each posting to the cache *)
Definition apply_posting (c : balances) (p : posting) : balances :=
  let c1 := bset (psrc p, passet p) (bget c (psrc p) (passet p) - pamt p) c in
  bset (pdst p, passet p) (bget c1 (pdst p) (passet p) + pamt p) c1.

Definition apply_postings (c : balances) (ps : list posting) : balances := fold_left apply_posting ps c.

Definition eval_sent_amt (vs : env) (sv : sent) : res (string * option Z) :=
  match sv with
  | SVNil => Panic "evaluateSentAmt: non exhaustive match (nil)"
  | SVAll _ a => asset <- eval_as vs a expect_asset ;; Ok (asset, None)
  | SVLit _ m => '(asset, n) <- eval_as vs m expect_monetary ;; Ok (asset, Some n)
  end.

Definition get_postings (asset : string) (snd rcv : list entry) (st : state) : res (list posting * state) :=
  match reconcile asset snd rcv with
  | None => Panic "reconcile: out of fuel"          (* excluded by Proofs/ReconcileProofs: reconcile_total *)
  | Some ps => Ok (ps, mkstate (apply_postings (st_cache st) ps) (st_txmeta st) (st_accmeta st))
  end.

(* the draw list and the distribution list of a send statement *)
Definition send_lists (vs : env) (sv : sent) (src : source) (dst : dest) (cache : balances)
  : res (string * list entry * list entry) :=
  match sv with
  | SVNil => Panic "runSendStatement: non exhaustive match (nil)"
  | SVAll _ a =>
      asset <- eval_as vs a expect_asset ;;
      '(sent, snd) <- send_all vs cache asset src [] ;;
      rcv <- receive_from vs asset dst sent [] ;;
      Ok (asset, snd, rcv)
  | SVLit _ m =>
      '(asset, amt) <- eval_as vs m expect_monetary ;;
      if amt <? 0 then Err (NegativeAmountErr amt) else
      snd <- try_sending_exact vs cache asset src amt [] ;;
      rcv <- receive_from vs asset dst amt [] ;;
      Ok (asset, snd, rcv)
  end.

Definition run_send (vs : env) (sv : sent) (src : source) (dst : dest) (st : state) : res (list posting * state) :=
  '(asset, snd, rcv) <- send_lists vs sv src dst (st_cache st) ;;
  get_postings asset snd rcv st.

Definition run_save (vs : env) (sv : sent) (acct_e : expr) (st : state) : res (list posting * state) :=
  '(asset, amt) <- eval_sent_amt vs sv ;;
  account <- eval_as vs acct_e expect_account ;;
  let b := bget (st_cache st) account asset in
  match amt with
  | None =>
      let b' := if 0 <? b then 0 else b in
      Ok ([], mkstate (bset (account, asset) b' (st_cache st)) (st_txmeta st) (st_accmeta st))
  | Some n =>
      if n <? 0 then Err (NegativeAmountErr n) else
      let b' := if 0 <? b then (if b - n <? 0 then 0 else b - n) else b in
      Ok ([], mkstate (bset (account, asset) b' (st_cache st)) (st_txmeta st) (st_accmeta st))
  end.

(* args_parser.go: parse() reports a wrong argument count before any type error;
   otherwise the first argument of the wrong type. *)
Definition set_tx_meta (args : list value) (st : state) : res state :=
  match args with
  | [k; v] =>
      key <- expect_string k ;;
      Ok (mkstate (st_cache st) (aset key v (st_txmeta st)) (st_accmeta st))
  | _ => Err (BadArityErr 2 (Z.of_nat (List.length args)))
  end.

Definition set_account_meta (args : list value) (st : state) : res state :=
  match args with
  | [a; k; v] =>
      account <- expect_account a ;;
      key <- expect_string k ;;
      let am := match alookup account (st_accmeta st) with Some m => m | None => [] end in
      Ok (mkstate (st_cache st) (st_txmeta st) (aset account (aset key (value_string v) am) (st_accmeta st)))
  | _ => Err (BadArityErr 3 (Z.of_nat (List.length args)))
  end.

Definition run_stmt (vs : env) (s : stmt) (st : state) : res (list posting * state) :=
  match s with
  | StNil => Panic "runStatement: non exhaustive match (nil)"
  | StNilFnCall => Panic "runStatement: nil FnCall pointer"
  | StFnCall f =>
      args <- eval_exprs vs (fc_args f) ;;
      if String.eqb (fc_caller f) FnSetTxMeta then
        st' <- set_tx_meta args st ;; Ok ([], st')
      else if String.eqb (fc_caller f) FnSetAccountMeta then
        st' <- set_account_meta args st ;; Ok ([], st')
      else Err (UnboundFunctionErr (fc_caller f))
  | StSend _ sv src dst => run_send vs sv src dst st
  | StSave _ sv a => run_save vs sv a st
  end.

Fixpoint run_stmts (vs : env) (ss : list stmt) (st : state) : res (list posting * state) :=
  match ss with
  | [] => Ok ([], st)
  | s :: ss' =>
      '(ps, st1) <- run_stmt vs s st ;;
      '(ps', st2) <- run_stmts vs ss' st1 ;;
      Ok (ps ++ ps', st2)
  end.
