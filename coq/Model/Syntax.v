(* The AST of internal/parser/ast.go as the Go parser produces it, including what Go can
   represent and a total language cannot: nil interfaces (XNil) and typed nil pointers stored
   in interfaces (XNil<Kind>). The harness dumps the parser's output into these types. *)
From NS Require Export Base.

Record pos := mkpos { pline : Z; pchar : Z }.
Record range := mkrange { rstart : pos; rend : pos }.
Definition R (l1 c1 l2 c2 : Z) : range := mkrange (mkpos l1 c1) (mkpos l2 c2).
Definition norange : range := R 0 0 0 0.

Inductive infix_op := OpPlus | OpMinus | OpOther (s : string).

(* parser.ValueExpr *)
Inductive expr :=
| ENil                                   (* nil interface *)
| ENilMonetary                           (* a nil pointer to MonetaryLiteral *)
| ENilRatio                              (* a nil pointer to RatioLiteral *)
| EVar (r : range) (name : string)
| EAsset (r : range) (s : string)
| EString (r : range) (s : string)
| EAccount (r : range) (name : string)
| ENumber (r : range) (n : Z)
| EMonetary (r : range) (asset amount : expr)
| ERatio (r : range) (num den : Z)
| EInfix (r : range) (op : infix_op) (l rr : expr).

(* parser.AllotmentValue *)
Inductive allot :=
| ANil
| ANilRatio
| ARatio (r : range) (num den : Z)
| AVar (r : range) (name : string)
| ARemaining (r : range).

(* parser.Source *)
Inductive source :=
| SNil
| SAccount (e : expr)
| SInorder (r : range) (srcs : list source)
| SAllot (r : range) (items : list (range * allot * source))
| SCapped (r : range) (from : source) (cap : expr)
| SOverdraft (r : range) (addr : expr) (bounded : option expr).

(* parser.Destination / parser.KeptOrDestination *)
Inductive dest :=
| DNil
| DAccount (e : expr)
| DInorder (r : range) (clauses : list (range * expr * kod)) (remaining : kod)
| DAllot (r : range) (items : list (range * allot * kod))
with kod :=
| KNil
| KKept (r : range)
| KTo (d : dest).

(* parser.SentValue *)
Inductive sent :=
| SVNil
| SVLit (r : range) (e : expr)
| SVAll (r : range) (asset : expr).

Record fncall := mkfncall {
  fc_range : range;
  fc_caller_range : range;
  fc_caller : string;
  fc_args : list expr }.

(* parser.Statement *)
Inductive stmt :=
| StNil
| StNilFnCall                             (* a nil pointer to FnCall stored in the Statement interface *)
| StFnCall (f : fncall)
| StSend (r : range) (sv : sent) (src : source) (dst : dest)
| StSave (r : range) (sv : sent) (acct : expr).

Record vardecl := mkvardecl {
  vd_range : range;
  vd_name : option (range * string);
  vd_type : option (range * string);
  vd_origin : option fncall }.

Record program := mkprogram {
  p_vars : list vardecl;
  p_stmts : list stmt }.

(* ---- completeness: no nil of any kind anywhere (what an error-free parse produces) ---- *)
Fixpoint expr_complete (e : expr) : bool :=
  match e with
  | ENil | ENilMonetary | ENilRatio => false
  | EMonetary _ a b => expr_complete a && expr_complete b
  | EInfix _ op a b => match op with OpOther _ => false | _ => expr_complete a && expr_complete b end
  | _ => true
  end.

Definition allot_complete (a : allot) : bool :=
  match a with ANil | ANilRatio => false | _ => true end.

Fixpoint source_complete (s : source) : bool :=
  match s with
  | SNil => false
  | SAccount e => expr_complete e
  | SInorder _ l => (fix go (l : list source) := match l with [] => true | x :: l' => source_complete x && go l' end) l
  | SAllot _ items =>
      (fix go (l : list (range * allot * source)) :=
         match l with [] => true | (_, a, x) :: l' => allot_complete a && source_complete x && go l' end) items
  | SCapped _ from cap => source_complete from && expr_complete cap
  | SOverdraft _ addr b => expr_complete addr && match b with Some e => expr_complete e | None => true end
  end.

Fixpoint dest_complete (d : dest) : bool :=
  match d with
  | DNil => false
  | DAccount e => expr_complete e
  | DInorder _ cl rem =>
      (fix go (l : list (range * expr * kod)) :=
         match l with [] => true | (_, e, k) :: l' => expr_complete e && kod_complete k && go l' end) cl
      && kod_complete rem
  | DAllot _ items =>
      (fix go (l : list (range * allot * kod)) :=
         match l with [] => true | (_, a, k) :: l' => allot_complete a && kod_complete k && go l' end) items
  end
with kod_complete (k : kod) : bool :=
  match k with
  | KNil => false
  | KKept _ => true
  | KTo d => dest_complete d
  end.

Definition sent_complete (s : sent) : bool :=
  match s with SVNil => false | SVLit _ e => expr_complete e | SVAll _ e => expr_complete e end.

Definition fncall_complete (f : fncall) : bool := forallb expr_complete (fc_args f).

Definition stmt_complete (s : stmt) : bool :=
  match s with
  | StNil | StNilFnCall => false
  | StFnCall f => fncall_complete f
  | StSend _ sv src dst => sent_complete sv && source_complete src && dest_complete dst
  | StSave _ sv a => sent_complete sv && expr_complete a
  end.

Definition vardecl_complete (v : vardecl) : bool :=
  match vd_name v, vd_type v with
  | Some _, Some _ => match vd_origin v with Some f => fncall_complete f | None => true end
  | _, _ => false
  end.

Definition program_complete (p : program) : bool :=
  forallb vardecl_complete (p_vars p) && forallb stmt_complete (p_stmts p).
