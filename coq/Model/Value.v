(* interpreter/value.go, interpreter_error.go: values, typed errors, expect* helpers, String(). *)
From Coq Require Import DecimalString DecimalZ Ascii.
From NS Require Export Syntax.

Inductive value :=
| VString (s : string)
| VAsset (s : string)
| VPortion (q : Q)
| VAccount (s : string)
| VNumber (n : Z)
| VMonetary (asset : string) (amt : Z).

(* One constructor per error struct of interpreter_error.go (Gen/Tables.v lists them from the
   source; Proofs/TablesOk.v checks the two lists agree). Payloads kept where a property talks
   about them. *)
Inductive err :=
| MissingFundsErr (asset : string) (needed available : Z)
| InvalidMonetaryLiteral
| InvalidNumberLiteral
| MetadataNotFound
| TypeError (expected : string)
| UnboundVariableErr (name : string)
| BadPortionParsingErr
| MissingVariableErr (name : string)
| UnboundFunctionErr (name : string)
| BadArityErr (expected given : Z)
| InvalidTypeErr (name : string)
| NegativeBalanceError
| NegativeAmountErr (amt : Z)
| InvalidAllotmentInSendAll
| InvalidUnboundedInSendAll (name : string)
| MismatchedCurrencyError (expected got : string)
| InvalidAllotmentSum
| QueryBalanceError (msg : string)
| QueryMetadataError (msg : string)
| ExperimentalFeature
| InvalidAccountName (name : string).

Definition err_name (e : err) : string :=
  match e with
  | MissingFundsErr _ _ _ => "MissingFundsErr"
  | InvalidMonetaryLiteral => "InvalidMonetaryLiteral"
  | InvalidNumberLiteral => "InvalidNumberLiteral"
  | MetadataNotFound => "MetadataNotFound"
  | TypeError _ => "TypeError"
  | UnboundVariableErr _ => "UnboundVariableErr"
  | BadPortionParsingErr => "BadPortionParsingErr"
  | MissingVariableErr _ => "MissingVariableErr"
  | UnboundFunctionErr _ => "UnboundFunctionErr"
  | BadArityErr _ _ => "BadArityErr"
  | InvalidTypeErr _ => "InvalidTypeErr"
  | NegativeBalanceError => "NegativeBalanceError"
  | NegativeAmountErr _ => "NegativeAmountErr"
  | InvalidAllotmentInSendAll => "InvalidAllotmentInSendAll"
  | InvalidUnboundedInSendAll _ => "InvalidUnboundedInSendAll"
  | MismatchedCurrencyError _ _ => "MismatchedCurrencyError"
  | InvalidAllotmentSum => "InvalidAllotmentSum"
  | QueryBalanceError _ => "QueryBalanceError"
  | QueryMetadataError _ => "QueryMetadataError"
  | ExperimentalFeature => "ExperimentalFeature"
  | InvalidAccountName _ => "InvalidAccountName"
  end.

Definition res := result err.

(* ---- text of numbers: big.Int.String / big.Int.SetString(_, 10) ---- *)
Definition string_of_Z (z : Z) : string := NilZero.string_of_int (Z.to_int z).

Definition parse_int (s : string) : option Z :=
  match s with
  | String "+"%char s' => option_map (fun u => Z.of_int (Decimal.Pos u)) (NilZero.uint_of_string s')
  | _ => option_map Z.of_int (NilZero.int_of_string s)
  end.

(* big.Rat.String(): always "a/b" in lowest terms, b > 0 *)
Definition string_of_Q (q : Q) : string :=
  let r := Qred q in
  (string_of_Z (Qnum r) ++ "/" ++ string_of_Z (Zpos (Qden r)))%string.

(* Value.String() *)
Definition value_string (v : value) : string :=
  match v with
  | VString s => s
  | VAsset s => s
  | VAccount s => s
  | VNumber n => string_of_Z n
  | VMonetary a n => (a ++ " " ++ string_of_Z n)%string
  | VPortion q => string_of_Q q
  end.

(* type names of analysis/check.go (Gen/Tables.v re-extracts them) *)
Definition TypeMonetary := "monetary".
Definition TypeAccount := "account".
Definition TypePortion := "portion".
Definition TypeAsset := "asset".
Definition TypeNumber := "number".
Definition TypeString := "string".
Definition TypeAny := "any".

Definition value_type (v : value) : string :=
  match v with
  | VString _ => TypeString
  | VAsset _ => TypeAsset
  | VPortion _ => TypePortion
  | VAccount _ => TypeAccount
  | VNumber _ => TypeNumber
  | VMonetary _ _ => TypeMonetary
  end.

(* expect* *)
Definition expect_monetary (v : value) : res (string * Z) :=
  match v with VMonetary a n => Ok (a, n) | _ => Err (TypeError TypeMonetary) end.
Definition expect_monetary_of_asset (asset : string) (v : value) : res Z :=
  '(a, n) <- expect_monetary v ;;
  if String.eqb a asset then Ok n else Err (MismatchedCurrencyError asset a).
Definition expect_number (v : value) : res Z :=
  match v with VNumber n => Ok n | _ => Err (TypeError TypeNumber) end.
Definition expect_string (v : value) : res string :=
  match v with VString s => Ok s | _ => Err (TypeError TypeString) end.
Definition expect_asset (v : value) : res string :=
  match v with VAsset s => Ok s | _ => Err (TypeError TypeAsset) end.
Definition expect_account (v : value) : res string :=
  match v with VAccount s => Ok s | _ => Err (TypeError TypeAccount) end.
Definition expect_portion (v : value) : res Q :=
  match v with VPortion q => Ok q | _ => Err (TypeError TypePortion) end.
