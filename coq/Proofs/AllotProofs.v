(* C06: makeAllotment computes exactly the specified shares. *)
From Coq Require Import Lia Lqa Qround ZifyBool.
From NS Require Import Allot Shares.

Lemma fshare_spec n p : fshare n p = floor_share n p.
Proof. reflexivity. Qed.

Lemma zsum_cons x xs : zsum (x :: xs) = x + zsum xs.
Proof. reflexivity. Qed.

(* the leftover loop, closed form *)
Lemma bump_nth d xs i :
  nth i (bump d xs) 0 = nth i xs 0 + (if (Z.of_nat i <? d) && (i <? List.length xs)%nat then 1 else 0).
Proof.
  revert d i. induction xs as [|x xs IH]; intros d i.
  - destruct i; cbn [bump nth List.length]; rewrite Bool.andb_false_r; lia.
  - cbn [bump]. destruct (0 <? d) eqn:E.
    + destruct i as [|i]; cbn [nth List.length].
      * replace (Z.of_nat 0 <? d) with true by lia. cbn. lia.
      * rewrite IH. replace (Z.of_nat (S i) <? d) with (Z.of_nat i <? d - 1) by lia.
        replace (S i <? S (List.length xs))%nat with (i <? List.length xs)%nat by reflexivity. reflexivity.
    + destruct i as [|i]; cbn [nth List.length].
      * replace (Z.of_nat 0 <? d) with false by lia. cbn. lia.
      * rewrite IH. replace (Z.of_nat (S i) <? d) with false by lia.
        replace (Z.of_nat i <? d) with false by lia. reflexivity.
Qed.

Lemma bump_length d xs : List.length (bump d xs) = List.length xs.
Proof. revert d; induction xs as [|x xs IH]; intros d; cbn [bump]; [reflexivity|]. destruct (0 <? d); cbn; now rewrite IH. Qed.

Lemma zsum_bump d xs : 0 <= d <= Z.of_nat (List.length xs) -> zsum (bump d xs) = zsum xs + d.
Proof.
  revert d. induction xs as [|x xs IH]; intros d Hd; cbn [bump List.length] in *.
  - cbn. lia.
  - destruct (0 <? d) eqn:E; rewrite !zsum_cons.
    + rewrite IH by lia. lia.
    + assert (d = 0) by lia. subst. rewrite IH by lia. lia.
Qed.

Lemma nth_ext_default (l1 l2 : list Z) :
  List.length l1 = List.length l2 -> (forall i, nth i l1 0 = nth i l2 0) -> l1 = l2.
Proof. intros Hl H. apply (nth_ext l1 l2 0 0 Hl). intros i _. apply H. Qed.

(* the model's shares are the specified shares, for every amount and every portion list *)
Theorem shares_eq_spec n ps : shares n ps = spec_shares n ps.
Proof.
  apply nth_ext_default.
  - unfold shares, spec_shares. cbv zeta. rewrite bump_length. rewrite (map_length (fshare n)). rewrite map_length, seq_length. reflexivity.
  - intros i. unfold shares. cbv zeta. rewrite bump_nth, map_length.
    unfold spec_shares.
    destruct (Nat.ltb_spec i (List.length ps)) as [Hi|Hi].
    + assert (E1 : nth i (map (spec_share n ps) (seq 0 (List.length ps))) 0 = spec_share n ps i).
      { rewrite (nth_indep _ 0 (spec_share n ps 0%nat)) by (rewrite map_length, seq_length; exact Hi).
        rewrite map_nth, seq_nth by exact Hi. reflexivity. }
      assert (E2 : nth i (map (fshare n) ps) 0 = floor_share n (nth i ps 0%Q)).
      { rewrite (nth_indep _ 0 (fshare n 0%Q)) by (rewrite map_length; exact Hi).
        rewrite map_nth. reflexivity. }
      rewrite E1, E2. unfold spec_share, leftover.
      replace (i <? List.length ps)%nat with true by (symmetry; apply Nat.ltb_lt; exact Hi).
      reflexivity.
    + rewrite !nth_overflow; [|rewrite map_length, seq_length; lia|rewrite map_length; lia].
      rewrite Bool.andb_false_r. lia.
Qed.

(* floors: n - k < sum of floors <= n when the portions sum to one *)
Lemma floors_bounds n ps :
  (inject_Z (zsum (map (floor_share n) ps)) <= qtotal ps * inject_Z n)%Q /\
  (qtotal ps * inject_Z n < inject_Z (zsum (map (floor_share n) ps) + Z.of_nat (List.length ps)) \/ ps = [])%Q.
Proof.
  induction ps as [|p ps [IH1 IH2]].
  - cbn. change (inject_Z 0) with 0%Q. split; [lra|right; reflexivity].
  - cbn [map qtotal fold_right List.length]. rewrite zsum_cons. fold (qtotal ps).
    pose proof (Qfloor_le (p * inject_Z n)) as H1.
    pose proof (Qlt_floor (p * inject_Z n)) as H2.
    unfold floor_share at 1 3. rewrite !inject_Z_plus in *. split.
    + rewrite Qmult_plus_distr_l. lra.
    + left. rewrite Nat2Z.inj_succ. unfold Z.succ. rewrite !inject_Z_plus. rewrite Qmult_plus_distr_l.
      change (inject_Z 1) with 1%Q in *.
      destruct IH2 as [IH2|IH2]; [|subst ps].
      * lra.
      * cbn [map zsum qtotal fold_right List.length Z.of_nat]. change (inject_Z 0) with 0%Q. lra.
Qed.

Lemma spec_shares_length n ps : List.length (spec_shares n ps) = List.length ps.
Proof. unfold spec_shares. now rewrite map_length, seq_length. Qed.

(* C06, arithmetic core: shares add up to the amount; each is floor + at most one; the leftover
   units go to the earliest clauses; fewer leftover units than clauses *)
Theorem spec_shares_exact n ps :
  0 <= n -> ps <> [] -> (qtotal ps == 1)%Q ->
  zsum (spec_shares n ps) = n /\ 0 <= leftover n ps < Z.of_nat (List.length ps).
Proof.
  intros Hn Hne Hsum.
  destruct (floors_bounds n ps) as [H1 [H2|H2]]; [|contradiction].
  rewrite Hsum, Qmult_1_l in H1, H2. rewrite <- Zle_Qle in H1. rewrite <- Zlt_Qlt in H2.
  assert (Hr : 0 <= leftover n ps < Z.of_nat (List.length ps)) by (unfold leftover; lia).
  split; [|exact Hr].
  rewrite <- shares_eq_spec. unfold shares. change (map (fshare n) ps) with (map (floor_share n) ps).
  fold (leftover n ps). rewrite zsum_bump; [unfold leftover; lia|]. rewrite map_length. lia.
Qed.

Lemma spec_share_bounds n ps i :
  floor_share n (nth i ps 0%Q) <= spec_share n ps i <= floor_share n (nth i ps 0%Q) + 1.
Proof. unfold spec_share. destruct (_ && _)%bool; lia. Qed.

(* ---- clause lists: the model's portions are the denoted portions ---- *)
Definition clause_of_aportion (a : aportion) : clause := match a with PFixed q => Some q | PRemaining => None end.

Lemma fixed_total_spec aps : fixed_total aps = explicit_total (map clause_of_aportion aps).
Proof.
  unfold fixed_total, explicit_total, qsum, qtotal.
  induction aps as [|[q|] aps IH]; cbn [map fold_right clause_of_aportion]; [reflexivity| |]; now rewrite IH.
Qed.

Lemma last_remaining_shift aps : forall i acc,
  last_remaining aps i acc =
  match last_remaining aps 0 None with Some k => Some (i + k)%nat | None => acc end.
Proof.
  induction aps as [|a aps IH]; intros i acc; cbn [last_remaining]; [reflexivity|].
  destruct a as [q|].
  - rewrite (IH (S i) acc), (IH 1%nat None). destruct (last_remaining aps 0 None); [f_equal; lia|reflexivity].
  - rewrite (IH (S i) (Some i)), (IH 1%nat (Some 0%nat)). destruct (last_remaining aps 0 None); f_equal; lia.
Qed.

Lemma has_remaining_spec aps :
  has_remaining (map clause_of_aportion aps) = match last_remaining aps 0 None with Some _ => true | None => false end.
Proof.
  induction aps as [|a aps IH]; [reflexivity|].
  cbn [map has_remaining existsb last_remaining]. destruct a as [q|]; cbn [clause_of_aportion].
  - rewrite last_remaining_shift. unfold has_remaining in IH. rewrite IH. destruct (last_remaining aps 0 None); reflexivity.
  - rewrite last_remaining_shift. destruct (last_remaining aps 0 None); reflexivity.
Qed.

Lemma resolve_no_remaining aps : last_remaining aps 0 None = None ->
  forall j ri rem, resolve aps j ri rem = resolve_clauses (map clause_of_aportion aps) rem has_remaining.
Proof.
  induction aps as [|a aps IH]; intros E j ri rem; [reflexivity|].
  cbn [resolve map resolve_clauses last_remaining] in *. destruct a as [q|]; cbn [clause_of_aportion].
  - f_equal. apply IH. rewrite last_remaining_shift in E. destruct (last_remaining aps 0 None); [discriminate|reflexivity].
  - rewrite last_remaining_shift in E. destruct (last_remaining aps 0 None); discriminate.
Qed.

Lemma resolve_spec aps : forall i ri rem,
  last_remaining aps i None = Some ri \/ (last_remaining aps i None = None) ->
  (forall k, last_remaining aps i None = Some k -> k = ri) ->
  resolve aps i ri rem = resolve_clauses (map clause_of_aportion aps) rem has_remaining.
Proof.
  induction aps as [|a aps IH]; intros i ri rem H Hk; [reflexivity|].
  cbn [resolve map resolve_clauses]. destruct a as [q|]; cbn [clause_of_aportion].
  - f_equal. apply IH; cbn [last_remaining] in *; assumption.
  - cbn [last_remaining] in *.
    rewrite last_remaining_shift in H, Hk.
    rewrite has_remaining_spec.
    destruct (last_remaining aps 0 None) as [k|] eqn:E.
    + (* a later remaining clause is the last one *)
      assert (ri = (S i + k)%nat) by (symmetry; apply Hk; reflexivity). subst ri.
      replace (i =? S i + k)%nat with false by (symmetry; apply Nat.eqb_neq; lia).
      f_equal. apply IH.
      * left. rewrite last_remaining_shift, E. reflexivity.
      * intros k'. rewrite last_remaining_shift, E. intros [= <-]. reflexivity.
    + assert (ri = i) by (symmetry; apply Hk; reflexivity). subst ri.
      rewrite Nat.eqb_refl. f_equal.
      apply resolve_no_remaining. exact E.
Qed.

Theorem portions_of_spec aps :
  portions_of aps = match denoted_portions (map clause_of_aportion aps) with
                    | Some ps => Ok ps
                    | None => Err InvalidAllotmentSum
                    end.
Proof.
  unfold portions_of, denoted_portions. rewrite has_remaining_spec, <- fixed_total_spec.
  destruct (last_remaining aps 0 None) as [ri|] eqn:E.
  - destruct (Qle_bool (fixed_total aps) 1); [|reflexivity].
    f_equal. apply resolve_spec; [left; exact E|intros k; rewrite E; intros [= <-]; reflexivity].
  - destruct (Qeq_bool (fixed_total aps) 1); [|reflexivity].
    f_equal. apply resolve_spec; [right; exact E|intros k; rewrite E; discriminate].
Qed.

(* ---- accepted clause lists denote portions that sum to one ---- *)
Lemma resolve_clauses_length cs rem : List.length (resolve_clauses cs rem has_remaining) = List.length cs.
Proof. induction cs as [|[p|] cs IH]; cbn [resolve_clauses List.length]; congruence. Qed.

Lemma qtotal_resolve cs rem :
  (qtotal (resolve_clauses cs rem has_remaining) == explicit_total cs + (if has_remaining cs then rem else 0))%Q.
Proof.
  unfold explicit_total, qtotal, has_remaining.
  induction cs as [|[p|] cs IH]; cbn [resolve_clauses map fold_right existsb orb].
  - lra.
  - rewrite IH. lra.
  - rewrite IH. match goal with |- context [if existsb ?f cs then _ else _] => destruct (existsb f cs) end; lra.
Qed.

Theorem denoted_portions_sum cs ps : denoted_portions cs = Some ps -> (qtotal ps == 1)%Q /\ List.length ps = List.length cs.
Proof.
  unfold denoted_portions. destruct (has_remaining cs) eqn:Hr.
  - destruct (Qle_bool (explicit_total cs) 1) eqn:E; [|discriminate]. intros [= <-].
    split; [|apply resolve_clauses_length]. rewrite qtotal_resolve, Hr. lra.
  - destruct (Qeq_bool (explicit_total cs) 1) eqn:E; [|discriminate]. intros [= <-].
    split; [|apply resolve_clauses_length]. rewrite qtotal_resolve, Hr. apply Qeq_bool_iff in E. lra.
Qed.

Theorem denoted_portions_rejects cs :
  has_remaining cs = false -> ~ (explicit_total cs == 1)%Q -> denoted_portions cs = None.
Proof.
  intros Hr Hne. unfold denoted_portions. rewrite Hr.
  destruct (Qeq_bool (explicit_total cs) 1) eqn:E; [|reflexivity].
  apply Qeq_bool_iff in E. contradiction.
Qed.

Theorem denoted_portions_rejects_excess cs :
  has_remaining cs = true -> (1 < explicit_total cs)%Q -> denoted_portions cs = None.
Proof.
  intros Hr Hgt. unfold denoted_portions. rewrite Hr.
  destruct (Qle_bool (explicit_total cs) 1) eqn:E; [|reflexivity].
  apply Qle_bool_iff in E. lra.
Qed.

(* ---- makeAllotment as a whole ---- *)
Theorem make_allotment_spec vs n items aps :
  eval_allots vs items = Ok aps -> List.length aps = List.length items ->
  make_allotment vs n items =
    match denoted_portions (map clause_of_aportion aps) with
    | Some ps => Ok (spec_shares n ps)
    | None => Err InvalidAllotmentSum
    end.
Proof.
  intros He Hl. unfold make_allotment. rewrite He. cbn [bind]. rewrite portions_of_spec.
  destruct (denoted_portions (map clause_of_aportion aps)) as [ps|] eqn:Ed; cbn [bind]; [|reflexivity].
  rewrite shares_eq_spec, spec_shares_length.
  destruct (denoted_portions_sum _ _ Ed) as [_ Hlen]. rewrite map_length in Hlen.
  rewrite Hlen, Hl, Nat.eqb_refl. reflexivity.
Qed.

(* C06 in one statement, on the model of makeAllotment *)
Theorem allotment_exact vs n items aps :
  0 <= n -> items <> [] ->
  eval_allots vs items = Ok aps -> List.length aps = List.length items ->
  (exists ps, denoted_portions (map clause_of_aportion aps) = Some ps /\
     (qtotal ps == 1)%Q /\
     make_allotment vs n items = Ok (spec_shares n ps) /\
     zsum (spec_shares n ps) = n /\
     0 <= leftover n ps < Z.of_nat (List.length ps) /\
     (forall i, (i < List.length ps)%nat ->
        nth i (spec_shares n ps) 0 = floor_share n (nth i ps 0%Q) + (if Z.of_nat i <? leftover n ps then 1 else 0)))
  \/ (denoted_portions (map clause_of_aportion aps) = None /\ make_allotment vs n items = Err InvalidAllotmentSum).
Proof.
  intros Hn Hne He Hl. rewrite (make_allotment_spec vs n items aps He Hl).
  destruct (denoted_portions (map clause_of_aportion aps)) as [ps|] eqn:Ed; [left|right; split; reflexivity].
  destruct (denoted_portions_sum _ _ Ed) as [Hsum Hlen]. rewrite map_length in Hlen.
  assert (Hps : ps <> []).
  { intros ->. cbn in Hlen. destruct items; [contradiction|]. cbn in Hl. lia. }
  destruct (spec_shares_exact n ps Hn Hps Hsum) as [Hz Hr].
  exists ps. repeat split; try assumption; try lia.
  intros i Hi. unfold spec_shares.
  rewrite (nth_indep _ 0 (spec_share n ps 0%nat)) by (rewrite map_length, seq_length; exact Hi).
  rewrite map_nth, seq_nth by exact Hi. cbn [Nat.add]. unfold spec_share.
  replace (i <? List.length ps)%nat with true by (symmetry; apply Nat.ltb_lt; exact Hi).
  rewrite Bool.andb_true_r. reflexivity.
Qed.
