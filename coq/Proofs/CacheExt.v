(* C10, part 1: the statement phase reads the cache only through [bget] and writes it only through
   [bset]: two caches that answer every read alike give the same postings and metadata, and end up
   answering every read alike. *)
From Coq Require Import Lia.
From NS Require Import Run SyntaxInd LedgerProofs SourceProofs.

Definition cache_ext (c1 c2 : balances) : Prop := forall a x, bget c1 a x = bget c2 a x.

Lemma cache_ext_refl c : cache_ext c c.
Proof. intros a x; reflexivity. Qed.

Lemma cache_ext_bset c1 c2 a x v : cache_ext c1 c2 -> cache_ext (bset (a, x) v c1) (bset (a, x) v c2).
Proof. intros H a' x'. rewrite !bget_bset. destruct (_ && _); [reflexivity|apply H]. Qed.

Lemma cache_ext_apply_posting c1 c2 p : cache_ext c1 c2 -> cache_ext (apply_posting c1 p) (apply_posting c2 p).
Proof.
  intros H. unfold apply_posting. rewrite (H (psrc p) (passet p)).
  assert (H1 : cache_ext (bset (psrc p, passet p) (bget c2 (psrc p) (passet p) - pamt p) c1)
                         (bset (psrc p, passet p) (bget c2 (psrc p) (passet p) - pamt p) c2))
    by (apply cache_ext_bset, H).
  rewrite (H1 (pdst p) (passet p)). apply cache_ext_bset, H1.
Qed.

Lemma cache_ext_apply_postings ps : forall c1 c2, cache_ext c1 c2 -> cache_ext (apply_postings c1 ps) (apply_postings c2 ps).
Proof.
  unfold apply_postings. induction ps as [|p ps IH]; intros c1 c2 H; cbn [fold_left]; [exact H|].
  apply IH, cache_ext_apply_posting, H.
Qed.

Section Ext.
Variable vs : env.
Variables c1 c2 : balances.
Hypothesis Hext : cache_ext c1 c2.
Variable asset : string.

Lemma try_sending_to_account_ext e amount od sd :
  try_sending_to_account vs c1 asset e amount od sd = try_sending_to_account vs c2 asset e amount od sd.
Proof. unfold try_sending_to_account. destruct (eval_as vs e expect_account); cbn [bind]; try reflexivity. now rewrite Hext. Qed.

Lemma send_all_to_account_ext e od sd :
  send_all_to_account vs c1 asset e od sd = send_all_to_account vs c2 asset e od sd.
Proof. unfold send_all_to_account. destruct (eval_as vs e expect_account); cbn [bind]; try reflexivity. now rewrite Hext. Qed.

Lemma try_sending_up_to_ext : forall src amount sd,
  try_sending_up_to vs c1 asset src amount sd = try_sending_up_to vs c2 asset src amount sd.
Proof.
  induction src as [|e|r l IHl|r items IHi|r f c IH|r a b] using source_ind'; intros amount sd.
  - reflexivity.
  - apply try_sending_to_account_ext.
  - rewrite !try_inorder_eq. generalize amount at 2 4 as left. revert sd.
    induction l as [|s l IHl']; intros sd left; cbn [try_inorder]; [reflexivity|].
    inversion IHl as [|? ? Hs IHl'']; subst. rewrite Hs.
    destruct (try_sending_up_to vs c2 asset s left sd) as [[sent sd']| |]; cbn [bind]; try reflexivity.
    apply (IHl' IHl'').
  - rewrite !try_allot_eq.
    destruct (make_allotment vs amount _) as [parts| |]; cbn [bind]; try reflexivity.
    revert parts sd. induction items as [|[[r0 a0] s] items IHi']; intros parts sd; cbn [try_allot]; [reflexivity|].
    inversion IHi as [|? ? Hx IHi'']; subst. cbn [snd] in Hx.
    destruct parts as [|p parts]; [reflexivity|]. rewrite Hx.
    destruct (try_sending_up_to vs c2 asset s p sd) as [[sent sd']| |]; cbn [bind]; try reflexivity.
    destruct (sent =? p); [|reflexivity]. apply (IHi' IHi'').
  - cbn [try_sending_up_to]. destruct (eval_as vs c _); cbn [bind]; try reflexivity. apply IH.
  - cbn [try_sending_up_to]. destruct b as [b|].
    + destruct (eval_as vs b _); cbn [bind]; try reflexivity. apply try_sending_to_account_ext.
    + apply try_sending_to_account_ext.
Qed.

Lemma send_all_ext : forall src sd, send_all vs c1 asset src sd = send_all vs c2 asset src sd.
Proof.
  induction src as [|e|r l IHl|r items IHi|r f c IH|r a b] using source_ind'; intros sd.
  - reflexivity.
  - apply send_all_to_account_ext.
  - rewrite !send_all_inorder_eq. generalize 0 as total. revert sd.
    induction l as [|s l IHl']; intros sd total; cbn [send_all_inorder]; [reflexivity|].
    inversion IHl as [|? ? Hs IHl'']; subst. rewrite Hs.
    destruct (send_all vs c2 asset s sd) as [[sent sd']| |]; cbn [bind]; try reflexivity.
    apply (IHl' IHl'').
  - reflexivity.
  - cbn [send_all]. destruct (eval_as vs c _); cbn [bind]; try reflexivity. apply try_sending_up_to_ext.
  - cbn [send_all]. destruct b as [b|].
    + destruct (eval_as vs b _); cbn [bind]; try reflexivity. apply send_all_to_account_ext.
    + apply send_all_to_account_ext.
Qed.
End Ext.

(* outcomes of the statement phase compared up to the cache *)
Definition stmt_res_ext (r1 r2 : res (list posting * state)) : Prop :=
  match r1, r2 with
  | Ok (ps1, st1), Ok (ps2, st2) =>
      ps1 = ps2 /\ st_txmeta st1 = st_txmeta st2 /\ st_accmeta st1 = st_accmeta st2 /\ cache_ext (st_cache st1) (st_cache st2)
  | Err e1, Err e2 => e1 = e2
  | Panic w1, Panic w2 => w1 = w2
  | _, _ => False
  end.

Definition state_ext (st1 st2 : state) : Prop :=
  st_txmeta st1 = st_txmeta st2 /\ st_accmeta st1 = st_accmeta st2 /\ cache_ext (st_cache st1) (st_cache st2).

Lemma send_lists_ext vs sv src dst c1 c2 : cache_ext c1 c2 -> send_lists vs sv src dst c1 = send_lists vs sv src dst c2.
Proof.
  intros H. unfold send_lists. destruct sv as [|r m|r a]; [reflexivity| |].
  - destruct (eval_as vs m expect_monetary) as [[asset amt]| |]; cbn [bind]; try reflexivity.
    destruct (amt <? 0); [reflexivity|]. unfold try_sending_exact.
    now rewrite (try_sending_up_to_ext vs c1 c2 H asset).
  - destruct (eval_as vs a expect_asset) as [asset| |]; cbn [bind]; try reflexivity.
    now rewrite (send_all_ext vs c1 c2 H asset).
Qed.

Lemma run_stmt_ext vs s st1 st2 : state_ext st1 st2 -> stmt_res_ext (run_stmt vs s st1) (run_stmt vs s st2).
Proof.
  intros (Ht & Ha & Hc). destruct st1 as [c1 t1 a1], st2 as [c2 t2 a2]. cbn [st_txmeta st_accmeta st_cache] in *. subst t2 a2.
  destruct s as [| |f|r sv src dst|r sv a]; cbn [run_stmt stmt_res_ext]; try reflexivity.
  - destruct (eval_exprs vs (fc_args f)) as [args| |]; cbn [bind stmt_res_ext]; try reflexivity.
    destruct (String.eqb (fc_caller f) FnSetTxMeta).
    { unfold set_tx_meta. destruct args as [|k [|v [|? ?]]]; cbn [bind stmt_res_ext st_cache st_txmeta st_accmeta]; try reflexivity.
      destruct (expect_string k); cbn [bind stmt_res_ext st_cache st_txmeta st_accmeta]; try reflexivity. repeat split; exact Hc. }
    destruct (String.eqb (fc_caller f) FnSetAccountMeta); [|reflexivity].
    unfold set_account_meta. destruct args as [|x [|k [|v [|? ?]]]]; cbn [bind stmt_res_ext st_cache st_txmeta st_accmeta]; try reflexivity.
    destruct (expect_account x); cbn [bind stmt_res_ext]; try reflexivity.
    destruct (expect_string k); cbn [bind stmt_res_ext st_cache st_txmeta st_accmeta]; try reflexivity. repeat split; exact Hc.
  - unfold run_send. cbn [st_cache]. rewrite (send_lists_ext vs sv src dst c1 c2 Hc).
    destruct (send_lists vs sv src dst c2) as [[[asset sd] rcv]| |]; cbn [bind stmt_res_ext]; try reflexivity.
    unfold get_postings. destruct (reconcile asset sd rcv); cbn [stmt_res_ext st_cache st_txmeta st_accmeta]; [|reflexivity].
    repeat split. apply cache_ext_apply_postings, Hc.
  - unfold run_save. destruct (eval_sent_amt vs sv) as [[asset amt]| |]; cbn [bind stmt_res_ext]; try reflexivity.
    destruct (eval_as vs a expect_account) as [account| |]; cbn [bind stmt_res_ext st_cache]; try reflexivity.
    rewrite (Hc account asset).
    destruct amt as [n|]; [destruct (n <? 0); [reflexivity|]|]; cbn [stmt_res_ext st_cache st_txmeta st_accmeta];
      repeat split; apply cache_ext_bset, Hc.
Qed.

Theorem run_stmts_ext vs : forall ss st1 st2, state_ext st1 st2 -> stmt_res_ext (run_stmts vs ss st1) (run_stmts vs ss st2).
Proof.
  induction ss as [|s ss IH]; intros st1 st2 H; cbn [run_stmts].
  - cbn [stmt_res_ext]. destruct H as (Ht & Ha & Hc). repeat split; assumption.
  - pose proof (run_stmt_ext vs s st1 st2 H) as Hs.
    destruct (run_stmt vs s st1) as [[ps1 s1]| |], (run_stmt vs s st2) as [[ps2 s2]| |]; cbn [stmt_res_ext] in Hs; try contradiction;
      cbn [bind stmt_res_ext]; try exact Hs.
    destruct Hs as (-> & Ht & Ha & Hc).
    pose proof (IH s1 s2 (conj Ht (conj Ha Hc))) as Hr.
    destruct (run_stmts vs ss s1) as [[ps1' s1']| |], (run_stmts vs ss s2) as [[ps2' s2']| |]; cbn [stmt_res_ext] in Hr; try contradiction;
      cbn [bind stmt_res_ext]; try exact Hr.
    destruct Hr as (-> & Hr). split; [reflexivity|exact Hr].
Qed.
