(* C18: the checker, the hover lookup and go-to-definition never panic on a tree that has none of
   the shapes on which the Go code dereferences nil. *)
From Coq Require Import Lia.
From NS Require Import Check Hover SyntaxInd.

Definition npe {E A} (m : result E A) : Prop := forall w, m <> Panic w.

Lemma npe_ok {E A} (a : A) : npe (Ok a : result E A). Proof. intros w H; discriminate. Qed.
Lemma npe_bind {E A B} (m : result E A) (f : A -> result E B) : npe m -> (forall a, npe (f a)) -> npe (bind m f).
Proof. intros Hm Hf. destruct m as [a|e|w]; cbn [bind]; [apply Hf|intros w H; discriminate|exfalso; exact (Hm w eq_refl)]. Qed.
Lemma npe_if {E A} (b : bool) (x y : result E A) : npe x -> npe y -> npe (if b then x else y).
Proof. destruct b; auto. Qed.

(* ---- the safe shapes ---- *)
Fixpoint expr_safe (e : expr) : bool :=
  match e with
  | ENilMonetary | ENilRatio => false
  | EMonetary _ a b => expr_safe a && expr_safe b
  | EInfix _ _ l r => expr_safe l && expr_safe r
  | _ => true
  end.
Definition expr_present (e : expr) : bool := match e with ENil => false | _ => true end.
Definition allot_safe (a : allot) : bool := match a with ANilRatio => false | _ => true end.

Fixpoint source_safe (s : source) : bool :=
  match s with
  | SNil => true
  | SAccount e => expr_safe e && expr_present e
  | SInorder _ l => (fix go (l : list source) := match l with [] => true | x :: l' => source_safe x && go l' end) l
  | SAllot _ items =>
      (fix go (l : list (range * allot * source)) :=
         match l with [] => true | (_, a, x) :: l' => allot_safe a && source_safe x && go l' end) items
  | SCapped _ from cap => source_safe from && expr_safe cap
  | SOverdraft _ addr b => expr_safe addr && match b with Some e => expr_safe e | None => expr_present addr end
  end.

Fixpoint dest_safe (d : dest) : bool :=
  match d with
  | DNil => true
  | DAccount e => expr_safe e && expr_present e
  | DInorder _ cl rem =>
      (fix go (l : list (range * expr * kod)) :=
         match l with [] => true | (_, e, k) :: l' => expr_safe e && kod_safe k && go l' end) cl && kod_safe rem
  | DAllot _ items =>
      (fix go (l : list (range * allot * kod)) :=
         match l with [] => true | (_, a, k) :: l' => allot_safe a && kod_safe k && go l' end) items
  end
with kod_safe (k : kod) : bool :=
  match k with KNil | KKept _ => true | KTo d => dest_safe d end.

Definition sent_safe (sv : sent) : bool := match sv with SVNil => true | SVLit _ e | SVAll _ e => expr_safe e end.
Definition fncall_safe (f : fncall) : bool := forallb expr_safe (fc_args f).
Definition stmt_safe (s : stmt) : bool :=
  match s with
  | StNil => true
  | StNilFnCall => false
  | StFnCall f => fncall_safe f
  | StSend _ sv src dst => sent_safe sv && source_safe src && dest_safe dst
  | StSave _ sv a => sent_safe sv && expr_safe a
  end.
Definition vardecl_safe (d : vardecl) : bool :=
  match vd_origin d with Some f => fncall_safe f | None => true end
  && match vd_name d, vd_type d with Some _, None => false | _, _ => true end.
Definition tree_safe (p : program) : bool := forallb vardecl_safe (p_vars p) && forallb stmt_safe (p_stmts p).

Lemma expr_safe_range e : expr_safe e = true -> expr_present e = true -> exists r, expr_range e = Some r.
Proof. destruct e; cbn; intros; try discriminate; eexists; reflexivity. Qed.

(* ---- the checker ---- *)
Lemma npe_assert_has_type r req act s : npe (assert_has_type (Some r) req act s).
Proof. unfold assert_has_type. apply npe_if; apply npe_ok. Qed.

Lemma npe_check_expression : forall e req s, expr_safe e = true -> npe (check_expression e req s).
Proof.
  induction e as [| | |r name|r x|r x|r name|r n|r a IHa b IHb|r n d|r op l IHl rr IHr]; intros req s H; cbn [expr_safe check_expression] in *; try discriminate;
    try apply npe_ok; try apply npe_assert_has_type.
  - destruct (alookup name (cs_declared s)) as [d|]; [|apply npe_ok].
    destruct (vd_type d) as [[? t]|]; [|apply npe_ok]. apply npe_if; [apply npe_assert_has_type|apply npe_ok].
  - apply andb_prop in H. destruct H as [Ha Hb].
    apply npe_bind; [apply npe_assert_has_type|]. intros s1. apply npe_bind; [apply IHa, Ha|]. intros s2. apply IHb, Hb.
  - apply andb_prop in H. destruct H as [Hl Hr]. apply npe_if.
    + apply npe_bind; [apply IHl, Hl|]. intros s1. apply IHr, Hr.
    + cbv zeta. apply npe_bind; [apply npe_assert_has_type|]. intros s0.
      apply npe_bind; [apply IHl, Hl|]. intros s1. apply IHr, Hr.
Qed.

Lemma npe_check_args args : forall sig s, forallb expr_safe args = true -> npe (check_args args sig s).
Proof.
  induction args as [|a args IH]; intros sig s H; cbn [check_args]; [apply npe_ok|].
  cbn [forallb] in H. apply andb_prop in H. destruct H as [Ha Hs].
  destruct sig as [|t sig]; (apply npe_bind; [apply npe_check_expression, Ha|]); intros s1; apply IH, Hs.
Qed.

Lemma forallb_filter {A} (f g : A -> bool) l : forallb f l = true -> forallb f (filter g l) = true.
Proof. induction l as [|x l IH]; cbn; [auto|]. intros H. apply andb_prop in H. destruct H as [Hx Hl]. destruct (g x); cbn; [rewrite Hx|]; auto. Qed.

Lemma last_some_in {A} (l : list A) x : last (map Some l) None = Some x -> In x l.
Proof.
  induction l as [|y l IH]; cbn [map last]; [discriminate|].
  destruct l as [|z l]; cbn [map] in *; [intros [= <-]; left; reflexivity|]. intros H. right. apply IH, H.
Qed.

Lemma npe_check_fn_call_arity f res s : fncall_safe f = true -> npe (check_fn_call_arity f res s).
Proof.
  intros Hf. unfold check_fn_call_arity. cbv zeta.
  set (valid := filter (fun e => negb (is_interface_nil e)) (fc_args f)).
  assert (Hv : forallb expr_safe valid = true) by (apply forallb_filter, Hf).
  assert (Hp : forall e, In e valid -> expr_present e = true).
  { intros e He. apply filter_In in He. destruct He as [_ He]. destruct e; cbn in *; congruence. }
  destruct res as [b|].
  - apply npe_bind; [|intros s1; apply npe_check_args, Hv].
    apply npe_if; [apply npe_ok|]. apply npe_if; [|apply npe_ok].
    destruct (nth_error valid (List.length (b_params b))) as [first|] eqn:E1; [|apply npe_ok].
    destruct (last (map Some valid) None) as [lst|] eqn:E2; [|apply npe_ok].
    apply nth_error_In in E1. apply last_some_in in E2.
    rewrite forallb_forall in Hv.
    destruct (expr_safe_range first (Hv _ E1) (Hp _ E1)) as [r1 ->].
    destruct (expr_safe_range lst (Hv _ E2) (Hp _ E2)) as [r2 ->]. apply npe_ok.
  - apply npe_bind; [apply npe_check_args, Hv|]. intros s1. apply npe_ok.
Qed.

Lemma npe_with_capped f s : (forall s0, npe (f s0)) -> npe (with_capped f s).
Proof. intros H. unfold with_capped. apply npe_bind; [apply H|]. intros s1. apply npe_ok. Qed.

Lemma npe_check_allot_clause a last whole acc s : allot_safe a = true -> npe (check_allot_clause a last whole acc s).
Proof.
  destruct a as [| |r n d|r name|r]; cbn [allot_safe check_allot_clause]; intros H; try discriminate; try apply npe_ok.
  - destruct (q_of_ratio n d); apply npe_ok.
  - apply npe_bind; [apply npe_check_expression; reflexivity|]. intros s1. apply npe_ok.
  - apply npe_if; apply npe_ok.
Qed.

Lemma npe_check_source : forall src s, source_safe src = true -> npe (check_source src s).
Proof.
  induction src as [|e|r l IHl|r items IHi|r f c IH|r a b] using source_ind'; intros s H.
  - apply npe_ok.
  - cbn [source_safe] in H. apply andb_prop in H. destruct H as [He Hp].
    destruct (expr_safe_range e He Hp) as [re Hre].
    cbn [check_source]. apply npe_bind.
    + apply npe_if; [|apply npe_ok]. cbn [source_range]. rewrite Hre. apply npe_ok.
    + intros s0. apply npe_bind; [apply npe_check_expression, He|]. intros s1. destruct e; apply npe_ok.
  - cbn [source_safe] in H. cbn [check_source]. apply npe_bind; [apply npe_if; apply npe_ok|]. intros s0.
    clear s. revert s0. induction l as [|x l IHl']; intros s0; [apply npe_ok|].
    inversion IHl as [|? ? Hx IHl'']; subst. apply andb_prop in H. destruct H as [H1 H2].
    apply npe_bind; [apply Hx, H1|]. intros s1. apply (IHl' IHl'' H2).
  - cbn [source_safe] in H. cbn [check_source]. apply npe_bind; [apply npe_if; apply npe_ok|]. intros s0.
    apply npe_bind; [|intros [acc s2]; apply npe_ok].
    generalize (mkacc 0 None []) as acc. generalize (if cs_unbounded_send s0 then emit r DNoAllotmentInSendAll s0 else s0) as s1.
    clear s s0. induction items as [|[[ir a] x] items IHi']; intros s1 acc; [apply npe_ok|].
    inversion IHi as [|? ? Hx IHi'']; subst. cbn [snd] in Hx.
    apply andb_prop in H. destruct H as [H1 H3]. apply andb_prop in H1. destruct H1 as [H1 H2].
    apply npe_bind; [apply npe_check_allot_clause, H1|]. intros [acc' s'].
    apply npe_bind; [apply npe_with_capped; intros s00; apply Hx, H2|]. intros s''. apply (IHi' IHi'' H3).
  - cbn [source_safe] in H. apply andb_prop in H. destruct H as [Hf Hc].
    cbn [check_source]. apply npe_bind; [apply npe_if; apply npe_ok|]. intros s0.
    apply npe_with_capped. intros s00. apply npe_bind; [apply npe_check_expression, Hc|]. intros s1. apply IH, Hf.
  - cbn [source_safe] in H. apply andb_prop in H. destruct H as [Ha Hb].
    cbn [check_source]. apply npe_bind; [apply npe_if; apply npe_ok|]. intros s0.
    apply npe_bind.
    + destruct b as [be|].
      * rewrite Bool.andb_false_r. apply npe_ok.
      * destruct (expr_safe_range a Ha Hb) as [ra ->]. apply npe_if; apply npe_ok.
    + intros s3. apply npe_bind; [apply npe_check_expression, Ha|]. intros s4.
      destruct b as [be|]; [apply npe_check_expression, Hb|apply npe_ok].
Qed.

Lemma npe_check_dest :
  (forall d s, dest_safe d = true -> npe (check_destination d s)) /\
  (forall k s, kod_safe k = true -> npe (check_kod k s)).
Proof.
  apply (dest_kod_ind
    (fun d => forall s, dest_safe d = true -> npe (check_destination d s))
    (fun k => forall s, kod_safe k = true -> npe (check_kod k s))).
  - intros s _. apply npe_ok.
  - intros e s H. cbn [dest_safe] in H. apply andb_prop in H. destruct H as [He _]. apply npe_check_expression, He.
  - intros r cl rem Hcl Hrem s H. cbn [dest_safe] in H. apply andb_prop in H. destruct H as [H1 H2].
    cbn [check_destination]. apply npe_bind; [|intros s1; apply Hrem, H2].
    revert s. induction cl as [|[[cr ce] k] l IH]; intros s; [apply npe_ok|].
    inversion Hcl as [|? ? Hk Hcl']; subst. cbn [snd] in Hk.
    apply andb_prop in H1. destruct H1 as [H1 H3]. apply andb_prop in H1. destruct H1 as [Hce Hkc].
    apply npe_bind; [apply npe_check_expression, Hce|]. intros s'. apply npe_bind; [apply Hk, Hkc|]. intros s''. apply (IH Hcl' H3).
  - intros r items Hit s H. cbn [dest_safe] in H. cbn [check_destination].
    apply npe_bind; [|intros [acc s2]; apply npe_ok].
    generalize (mkacc 0 None []) as acc. revert s. induction items as [|[[ir a] k] items IH]; intros s acc; [apply npe_ok|].
    inversion Hit as [|? ? Hk Hit']; subst. cbn [snd] in Hk.
    apply andb_prop in H. destruct H as [H1 H3]. apply andb_prop in H1. destruct H1 as [H1 H2].
    apply npe_bind; [apply npe_check_allot_clause, H1|]. intros [acc' s'].
    apply npe_bind; [apply Hk, H2|]. intros s''. apply (IH Hit' H3).
  - intros s _. apply npe_ok.
  - intros r s _. apply npe_ok.
  - intros d IH s H. cbn [kod_safe] in H. cbn [check_kod]. apply IH, H.
Qed.

Lemma npe_check_sent sv s : sent_safe sv = true -> npe (check_sent_value sv s).
Proof. destruct sv; cbn [sent_safe check_sent_value]; intros H; [apply npe_ok|apply npe_check_expression, H|apply npe_check_expression, H]. Qed.

Lemma npe_check_statement st s : stmt_safe st = true -> npe (check_statement st s).
Proof.
  destruct st as [| |f|r sv src dst|r sv a]; cbn [stmt_safe check_statement]; intros H; try discriminate.
  - apply npe_check_fn_call_arity, H.
  - apply andb_prop in H. destruct H as [H Hd]. apply andb_prop in H. destruct H as [Hsv Hs]. cbv zeta.
    apply npe_bind; [apply npe_check_sent, Hsv|]. intros s1. apply npe_bind; [apply npe_check_source, Hs|]. intros s2.
    apply npe_check_dest, Hd.
  - apply andb_prop in H. destruct H as [Hsv Ha]. cbv zeta.
    apply npe_bind; [apply npe_check_sent, Hsv|]. intros s1. apply npe_check_expression, Ha.
Qed.

Lemma npe_check_var_decl d s : vardecl_safe d = true -> npe (check_var_decl d s).
Proof.
  intros H. unfold vardecl_safe in H. apply andb_prop in H. destruct H as [Hf _].
  unfold check_var_decl. cbv zeta. apply npe_bind; [|intros s3; apply npe_ok].
  destruct (vd_origin d) as [f|]; [|apply npe_ok].
  apply npe_bind; [|intros s3; apply npe_check_fn_call_arity, Hf].
  match goal with |- npe (match ?r with Some _ => _ | None => _ end) => destruct r as [b|] end; [|apply npe_ok].
  destruct (vd_name d) as [[rn n]|]; [|apply npe_ok]. destruct (vd_type d) as [[rt t]|]; [|apply npe_ok].
  apply npe_assert_has_type.
Qed.

Theorem check_program_no_panic p pd perm w : tree_safe p = true -> check_program p pd perm <> Panic w.
Proof.
  intros H. unfold tree_safe in H. apply andb_prop in H. destruct H as [Hv Hs].
  revert w. change (npe (check_program p pd perm)). unfold check_program.
  apply npe_bind.
  - generalize (initial_cstate pd) as s. induction (p_vars p) as [|d ds IH]; intros s; cbn [check_var_decls]; [apply npe_ok|].
    cbn [forallb] in Hv. apply andb_prop in Hv. destruct Hv as [Hd Hds].
    apply npe_bind; [apply npe_check_var_decl, Hd|]. intros s'. apply (IH Hds).
  - intros s1. apply npe_bind; [|intros s2; apply npe_ok].
    revert s1. induction (p_stmts p) as [|st ss IH]; intros s1; cbn [check_statements]; [apply npe_ok|].
    cbn [forallb] in Hs. apply andb_prop in Hs. destruct Hs as [Hst Hss].
    apply npe_bind; [apply npe_check_statement, Hst|]. intros s'. apply (IH Hss).
Qed.

(* ---- hover ---- *)
Lemma npe_orelse (a : hres) (b : unit -> hres) : npe a -> npe (b tt) -> npe (orelse a b).
Proof. intros Ha Hb. unfold orelse. destruct a as [[h|]| |]; auto. Qed.

Lemma npe_hover_expr : forall e p, expr_safe e = true -> npe (hover_expr e p).
Proof.
  induction e as [| | |r name|r x|r x|r name|r n|r a IHa b IHb|r n d|r op l IHl rr IHr]; intros p H; cbn [expr_safe hover_expr] in *; try discriminate; try apply npe_ok.
  - apply npe_if; apply npe_ok.
  - apply andb_prop in H. destruct H as [Ha Hb]. apply npe_if; [|apply npe_ok]. apply npe_orelse; [apply IHb, Hb|apply IHa, Ha].
  - apply andb_prop in H. destruct H as [Hl Hr]. apply npe_if; [|apply npe_ok]. apply npe_orelse; [apply IHl, Hl|apply IHr, Hr].
Qed.

Lemma npe_hover_allot a p : allot_safe a = true -> npe (hover_allot a p).
Proof. destruct a; cbn [allot_safe hover_allot]; intros H; try discriminate; try apply npe_ok. apply npe_hover_expr. reflexivity. Qed.

Lemma npe_hover_source : forall src p, source_safe src = true -> npe (hover_source src p).
Proof.
  induction src as [|e|r l IHl|r items IHi|r f c IH|r a b] using source_ind'; intros p H.
  - apply npe_ok.
  - cbn [source_safe] in H. apply andb_prop in H. destruct H as [He Hp]. destruct (expr_safe_range e He Hp) as [re Hre].
    cbn [hover_source source_range]. rewrite Hre. apply npe_if; [apply npe_ok|]. apply npe_hover_expr, He.
  - cbn [source_safe] in H. cbn [hover_source source_range]. apply npe_if; [apply npe_ok|].
    induction l as [|x l IHl']; [apply npe_ok|]. inversion IHl as [|? ? Hx IHl'']; subst.
    apply andb_prop in H. destruct H as [H1 H2]. apply npe_orelse; [apply Hx, H1|apply (IHl' IHl'' H2)].
  - cbn [source_safe] in H. cbn [hover_source source_range]. apply npe_if; [apply npe_ok|].
    induction items as [|[[ir a] x] items IHi']; [apply npe_ok|]. inversion IHi as [|? ? Hx IHi'']; subst. cbn [snd] in Hx.
    apply andb_prop in H. destruct H as [H1 H3]. apply andb_prop in H1. destruct H1 as [H1 H2].
    apply npe_if; [|apply (IHi' IHi'' H3)].
    apply npe_orelse; [apply npe_hover_allot, H1|]. apply npe_orelse; [apply Hx, H2|apply (IHi' IHi'' H3)].
  - cbn [source_safe] in H. apply andb_prop in H. destruct H as [Hf Hc]. cbn [hover_source source_range].
    apply npe_if; [apply npe_ok|]. apply npe_orelse; [apply npe_hover_expr, Hc|apply IH, Hf].
  - cbn [source_safe] in H. apply andb_prop in H. destruct H as [Ha Hb]. cbn [hover_source source_range].
    apply npe_if; [apply npe_ok|]. apply npe_orelse; [apply npe_hover_expr, Ha|].
    destruct b as [be|]; [apply npe_hover_expr, Hb|apply npe_ok].
Qed.

Lemma npe_hover_dest :
  (forall d p, dest_safe d = true -> npe (hover_dest d p)) /\ (forall k p, kod_safe k = true -> npe (hover_kod k p)).
Proof.
  apply (dest_kod_ind
    (fun d => forall p, dest_safe d = true -> npe (hover_dest d p))
    (fun k => forall p, kod_safe k = true -> npe (hover_kod k p))).
  - intros p _. apply npe_ok.
  - intros e p H. cbn [dest_safe] in H. apply andb_prop in H. destruct H as [He Hp]. destruct (expr_safe_range e He Hp) as [re Hre].
    cbn [hover_dest dest_range]. rewrite Hre. apply npe_if; [apply npe_ok|]. apply npe_hover_expr, He.
  - intros r cl rem Hcl Hrem p H. cbn [dest_safe] in H. apply andb_prop in H. destruct H as [H1 H2].
    cbn [hover_dest dest_range]. apply npe_if; [apply npe_ok|]. apply npe_orelse; [|apply Hrem, H2].
    induction cl as [|[[cr ce] k] l IH]; [apply npe_ok|]. inversion Hcl as [|? ? Hk Hcl']; subst. cbn [snd] in Hk.
    apply andb_prop in H1. destruct H1 as [H1 H3]. apply andb_prop in H1. destruct H1 as [Hce Hkc].
    apply npe_if; [|apply (IH Hcl' H3)].
    apply npe_orelse; [apply npe_hover_expr, Hce|]. apply npe_orelse; [apply Hk, Hkc|apply (IH Hcl' H3)].
  - intros r items Hit p H. cbn [dest_safe] in H. cbn [hover_dest dest_range]. apply npe_if; [apply npe_ok|].
    induction items as [|[[ir a] k] items IH]; [apply npe_ok|]. inversion Hit as [|? ? Hk Hit']; subst. cbn [snd] in Hk.
    apply andb_prop in H. destruct H as [H1 H3]. apply andb_prop in H1. destruct H1 as [H1 H2].
    apply npe_if; [|apply (IH Hit' H3)].
    apply npe_orelse; [apply npe_hover_allot, H1|]. apply npe_orelse; [apply Hk, H2|apply (IH Hit' H3)].
  - intros p _. apply npe_ok.
  - intros r p _. apply npe_ok.
  - intros d IH p H. cbn [kod_safe] in H. cbn [hover_kod]. apply IH, H.
Qed.

Lemma npe_hover_fncall f p : fncall_safe f = true -> npe (hover_fncall f p).
Proof.
  intros H. unfold hover_fncall. apply npe_if; [apply npe_ok|]. apply npe_if; [apply npe_ok|].
  unfold fncall_safe in H. induction (fc_args f) as [|a l IH]; [apply npe_ok|].
  cbn [forallb] in H. apply andb_prop in H. destruct H as [Ha Hl]. apply npe_orelse; [apply npe_hover_expr, Ha|apply IH, Hl].
Qed.

Lemma npe_hover_sent sv p : sent_safe sv = true -> npe (hover_sent sv p).
Proof. destruct sv; cbn [sent_safe hover_sent]; intros H; [apply npe_ok|apply npe_hover_expr, H|apply npe_hover_expr, H]. Qed.

Theorem hover_on_no_panic p pos w : tree_safe p = true -> hover_on p pos <> Panic w.
Proof.
  intros H. unfold tree_safe in H. apply andb_prop in H. destruct H as [Hv Hs].
  revert w. change (npe (hover_on p pos)). unfold hover_on. apply npe_orelse.
  - induction (p_vars p) as [|d ds IH]; [apply npe_ok|]. cbn [forallb] in Hv. apply andb_prop in Hv. destruct Hv as [Hd Hds].
    apply npe_orelse; [|apply IH, Hds]. unfold hover_vardecl. apply npe_if; [apply npe_ok|].
    unfold vardecl_safe in Hd. apply andb_prop in Hd. destruct Hd as [Hf _].
    destruct (vd_origin d) as [f|]; [apply npe_hover_fncall, Hf|apply npe_ok].
  - induction (p_stmts p) as [|st ss IH]; [apply npe_ok|]. cbn [forallb] in Hs. apply andb_prop in Hs. destruct Hs as [Hst Hss].
    apply npe_orelse; [|apply IH, Hss].
    destruct st as [| |f|r sv src dst|r sv a]; cbn [stmt_safe hover_stmt] in *; try discriminate.
    + apply npe_hover_fncall, Hst.
    + apply andb_prop in Hst. destruct Hst as [H Hd]. apply andb_prop in H. destruct H as [Hsv Hsrc].
      apply npe_if; [apply npe_ok|]. apply npe_orelse; [apply npe_hover_sent, Hsv|].
      apply npe_orelse; [apply npe_hover_source, Hsrc|apply npe_hover_dest, Hd].
    + apply andb_prop in Hst. destruct Hst as [Hsv Ha]. apply npe_if; [apply npe_ok|].
      apply npe_orelse; [apply npe_hover_sent, Hsv|apply npe_hover_expr, Ha].
Qed.
