(* C16 / C18 / C20: properties of the checker model (Model/Check.v). *)
From Coq Require Import Lia Permutation.
From NS Require Import Check Hover SyntaxInd.
From NS Require Tables Typing.

(* ---- the severity of every diagnostic kind is the one the code declares (regenerated table) ---- *)
Definition all_kinds : list diag_kind :=
  [ DBadAllotmentSum 0; DBadArity 0 0; DDivByZero; DDuplicateVariable ""; DEmptiedAccount ""; DFixedPortionVariable 0;
    DInvalidType ""; DInvalidUnboundedAccount; DInvalidWorldOverdraft; DNoAllotmentInSendAll; DParsing "";
    DRedundantRemaining; DRemainingIsNotLast; DTypeMismatch "" ""; DUnboundVariable ""; DUnboundedAccountIsNotLast;
    DUnknownFunction ""; DUnusedVar "" ].

Definition severity_name (s : severity) : string := match s with SevError => "ErrorSeverity" | SevWarning => "WarningSeverity" end.

Lemma severity_table_ok : Tables.severities = map (fun k => (kind_name k, severity_name (severity_of k))) all_kinds.
Proof. reflexivity. Qed.

Lemma all_kinds_exhaustive k : In (kind_name k) (map kind_name all_kinds).
Proof. destruct k; cbn; tauto. Qed.

Lemma severity_depends_on_kind_name k1 k2 : kind_name k1 = kind_name k2 -> severity_of k1 = severity_of k2.
Proof. destruct k1, k2; cbn; intros H; try discriminate; reflexivity. Qed.

(* the built-in table of the model is the one of the code *)
Definition ctx_name (c : fn_context) : string := match c with CtxStatement => "statement" | CtxOrigin => "origin" end.
(* the implementation's table, the specification's and the model's are the same *)
Lemma builtins_spec_ok : Tables.builtins = Typing.spec_builtins /\ Tables.allowed_types = Typing.spec_allowed_types.
Proof. split; reflexivity. Qed.

Lemma builtins_table_ok : Tables.builtins = map (fun b => (b_name b, ctx_name (b_ctx b), b_params b, b_return b)) builtins_table.
Proof. reflexivity. Qed.
Lemma allowed_types_ok : Tables.allowed_types = allowed_types.
Proof. reflexivity. Qed.

(* ---- C18: analysing the same text twice yields the same diagnostics and symbols, whatever the
   iteration order of the map of unused variables ---- *)
Lemma emit_diags r k s : cs_diags (emit r k s) = cs_diags s ++ [mkdiag r k].
Proof. reflexivity. Qed.

Lemma fold_emit_diags l : forall s,
  cs_diags (fold_left (fun acc (e : string * range) => emit (snd e) (DUnusedVar (fst e)) acc) l s)
  = cs_diags s ++ map (fun e : string * range => mkdiag (snd e) (DUnusedVar (fst e))) l.
Proof.
  induction l as [|e l IH]; intros s; cbn [fold_left map]; [now rewrite app_nil_r|].
  rewrite IH, emit_diags, <- app_assoc. reflexivity.
Qed.

Lemma fold_emit_declared l : forall s,
  cs_declared (fold_left (fun acc (e : string * range) => emit (snd e) (DUnusedVar (fst e)) acc) l s) = cs_declared s.
Proof. induction l as [|e l IH]; intros s; cbn [fold_left]; [reflexivity|]. rewrite IH. reflexivity. Qed.

Theorem check_order_independent p pd perm cs :
  (forall l, Permutation (perm l) l) ->
  check_program p pd perm = Ok cs ->
  exists cs0, check_default p pd = Ok cs0 /\ Permutation (cs_diags cs) (cs_diags cs0) /\ cs_declared cs = cs_declared cs0.
Proof.
  intros Hperm H. unfold check_default, check_program in *.
  destruct (check_var_decls (p_vars p) (initial_cstate pd)) as [s1| |]; cbn [bind] in *; try discriminate.
  destruct (check_statements (p_stmts p) s1) as [s2| |]; cbn [bind] in *; try discriminate.
  injection H as <-. eexists. split; [reflexivity|]. split.
  - rewrite !fold_emit_diags. apply Permutation_app_head, Permutation_map, Hperm.
  - rewrite !fold_emit_declared. reflexivity.
Qed.
