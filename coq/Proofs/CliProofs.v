(* C20: the command line reports exactly what the library computes (decision logic). *)
From Coq Require Import Lia.
From NS Require Import Cli.

Lemma errors_count_pos ds : (0 < errors_count ds)%nat <-> exists d, In d ds /\ severity_of (d_kind d) = SevError.
Proof.
  unfold errors_count. split.
  - intros H. destruct (filter _ ds) as [|d l] eqn:E; [cbn in H; lia|].
    assert (Hin : In d (filter (fun d => match severity_of (d_kind d) with SevError => true | _ => false end) ds)) by (rewrite E; left; reflexivity).
    apply filter_In in Hin. destruct Hin as [Hin Hs]. exists d. split; [exact Hin|]. destruct (severity_of (d_kind d)); [reflexivity|discriminate].
  - intros [d [Hin Hs]].
    assert (Hf : In d (filter (fun d => match severity_of (d_kind d) with SevError => true | _ => false end) ds)) by (apply filter_In; split; [exact Hin|rewrite Hs; reflexivity]).
    destruct (filter _ ds); [contradiction|cbn; lia].
Qed.

(* `numscript check` exits non-zero exactly when there is at least one error-severity diagnostic *)
Theorem check_exit_iff_error ds :
  cli_check_exit ds <> 0 <-> exists d, In d ds /\ severity_of (d_kind d) = SevError.
Proof.
  rewrite <- errors_count_pos. unfold cli_check_exit. destruct (Nat.eqb_spec (errors_count ds) 0) as [E|E]; split; intros H; try lia; try contradiction.
Qed.

(* every diagnostic is printed once, with its start position *)
Theorem check_prints_every_diagnostic ds :
  List.length (cli_check_printed ds) = List.length ds /\
  forall d, In d ds -> In (pline (rstart (d_range d)), pchar (rstart (d_range d)), severity_of (d_kind d)) (cli_check_printed ds).
Proof.
  unfold cli_check_printed. split; [apply map_length|]. intros d H. apply in_map_iff. exists d. split; [reflexivity|exact H].
Qed.

(* the three input channels merge into the same options when given the same data, hence the same run *)
Theorem inputs_channel_independent parse flag s v m b :
  cli_run parse (ChRaw (mkopts s v m b)) flag = cli_run parse (ChStdin (mkopts s v m b)) flag /\
  cli_run parse (ChRaw (mkopts s v m b)) flag = cli_run parse (ChFiles s v m b) flag.
Proof. split; reflexivity. Qed.

(* JSON mode prints the library's result, an error exits with the library's error *)
Theorem run_reports_library_result parse c flag p :
  parse (io_script (channel_opts c)) = Some p ->
  let o := channel_opts c in
  let lib := run_program p (io_vars o) (fun _ call => match call with CallBalances _ => AnsBalances (io_bal o) | CallMeta _ _ => AnsMeta (io_meta o) end) flag in
  match lib with
  | Ok x => cli_run parse c flag = CliPrinted x
  | Err e => cli_run parse c flag = CliFailed e
  | Panic _ => cli_run parse c flag = CliPanic
  end.
Proof. intros H. cbv zeta. unfold cli_run. rewrite H. destruct (run_program _ _ _ _); reflexivity. Qed.
