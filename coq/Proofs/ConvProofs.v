(* C13: the conversions between texts and values. *)
From Coq Require Import Lia Ascii DecimalString DecimalPos DecimalZ DecimalFacts.
From NS Require Import Conv Decimal.

(* ---- digit strings: the standard library's decimal parser computes the positional value ---- *)
Lemma digit_val_spec c d d' :
  uint_of_char c (Some d) = Some d' ->
  exists k, digit_val c = Some k /\ 0 <= k <= 9 /\
    (forall p, Pos.of_uint_acc d' p = Pos.of_uint_acc d (Z.to_pos (10 * Zpos p + k))) /\
    (k = 0 -> d' = Decimal.D0 d) /\
    (0 < k -> Pos.of_uint d' = Npos (Pos.of_uint_acc d (Z.to_pos k))).
Proof.
  intros H. apply uint_of_char_spec in H.
  destruct H as [[-> ->]|[[-> ->]|[[-> ->]|[[-> ->]|[[-> ->]|[[-> ->]|[[-> ->]|[[-> ->]|[[-> ->]|[-> ->]]]]]]]]]];
    [exists 0|exists 1|exists 2|exists 3|exists 4|exists 5|exists 6|exists 7|exists 8|exists 9];
    (split; [reflexivity|]); (split; [lia|]); (split; [intros p; cbn [Pos.of_uint_acc]; f_equal; lia|]);
    (split; [intros E; try reflexivity; try lia|intros E; try lia; try reflexivity]).
Qed.

Lemma digits_acc_pos s : forall u, NilEmpty.uint_of_string s = Some u ->
  forall p, digits_val_acc s (Zpos p) = Some (Zpos (Pos.of_uint_acc u p)).
Proof.
  induction s as [|c s IH]; intros u H p; cbn [NilEmpty.uint_of_string] in H.
  - injection H as <-. reflexivity.
  - destruct (NilEmpty.uint_of_string s) as [d|] eqn:E; [|destruct c as [[|] [|] [|] [|] [|] [|] [|] [|]]; discriminate].
    destruct (digit_val_spec c d u H) as [k [Hk [Hr [Hacc _]]]].
    cbn [digits_val_acc]. rewrite Hk. rewrite Hacc.
    replace (10 * Zpos p + k) with (Zpos (Z.to_pos (10 * Zpos p + k))) by lia.
    apply IH. reflexivity.
Qed.

Lemma digits_acc_zero s : forall u, NilEmpty.uint_of_string s = Some u ->
  digits_val_acc s 0 = Some (Z.of_N (Pos.of_uint u)).
Proof.
  induction s as [|c s IH]; intros u H; cbn [NilEmpty.uint_of_string] in H.
  - injection H as <-. reflexivity.
  - destruct (NilEmpty.uint_of_string s) as [d|] eqn:E; [|destruct c as [[|] [|] [|] [|] [|] [|] [|] [|]]; discriminate].
    destruct (digit_val_spec c d u H) as [k [Hk [Hr [_ [H0 Hpos]]]]].
    cbn [digits_val_acc]. rewrite Hk. replace (10 * 0 + k) with k by lia.
    destruct (Z.eq_dec k 0) as [->|Hne].
    + rewrite (H0 eq_refl). cbn [Pos.of_uint]. apply IH. reflexivity.
    + rewrite (Hpos ltac:(lia)). replace k with (Zpos (Z.to_pos k)) at 1 by lia.
      rewrite (digits_acc_pos s d E). reflexivity.
Qed.

Lemma digits_acc_some s : forall acc n, digits_val_acc s acc = Some n -> exists u, NilEmpty.uint_of_string s = Some u.
Proof.
  induction s as [|c s IH]; intros acc n H; cbn [digits_val_acc NilEmpty.uint_of_string] in *; [eexists; reflexivity|].
  destruct (digit_val c) as [k|] eqn:Ek; [|discriminate].
  destruct (IH _ _ H) as [u Hu]. rewrite Hu.
  unfold digit_val in Ek.
  destruct c as [[|] [|] [|] [|] [|] [|] [|] [|]]; cbn in Ek; try discriminate; cbn; eexists; reflexivity.
Qed.

Lemma first_char_digit c s acc n : digits_val_acc (String c s) acc = Some n -> Ascii.eqb c "-" = false /\ Ascii.eqb c "+" = false.
Proof.
  cbn [digits_val_acc]. destruct (digit_val c) as [k|] eqn:Ek; [|discriminate]. intros _.
  unfold digit_val in Ek. destruct c as [[|] [|] [|] [|] [|] [|] [|] [|]]; cbn in Ek; try discriminate; split; reflexivity.
Qed.

(* big.Int.SetString(_, 10) on a digit string (leading zeros allowed) is its positional value *)
Theorem parse_int_digits s n : digits_val s = Some n -> parse_int s = Some n.
Proof.
  unfold digits_val. destruct s as [|c s]; [discriminate|]. intros H.
  destruct (first_char_digit c s 0 n H) as [Hm Hp].
  destruct (digits_acc_some _ _ _ H) as [u Hu].
  rewrite (digits_acc_zero _ u Hu) in H. injection H as <-.
  unfold parse_int.
  assert (Hc : c <> "+"%char) by (intros ->; discriminate).
  assert (E : NilZero.int_of_string (String c s) = Some (Decimal.Pos u)).
  { unfold NilZero.int_of_string. rewrite Hm. unfold NilZero.uint_of_string. rewrite Hu. reflexivity. }
  destruct c as [[|] [|] [|] [|] [|] [|] [|] [|]]; try (rewrite E; reflexivity); cbn in Hp; discriminate.
Qed.

(* ---- numbers: big.Int.String then big.Int.SetString(_, 10) is the identity ---- *)
Lemma string_of_Z_not_plus z : forall s, string_of_Z z <> String "+" s.
Proof.
  intros s. unfold string_of_Z, NilZero.string_of_int. destruct (Z.to_int z) as [u|u] eqn:E; [|discriminate].
  unfold NilZero.string_of_uint. destruct u; cbn; discriminate.
Qed.

Theorem parse_int_string_of_Z z : parse_int (string_of_Z z) = Some z.
Proof.
  unfold parse_int. pose proof (string_of_Z_not_plus z) as Hp.
  assert (E : NilZero.int_of_string (string_of_Z z) = Some (Z.to_int z)).
  { unfold string_of_Z. apply NilZero.isi.
    - destruct z; cbn; [discriminate| |discriminate]. intros [= H]. exact (Unsigned.to_uint_nonnil _ H).
    - destruct z; cbn; try discriminate. intros [= H]. exact (Unsigned.to_uint_nonnil _ H). }
  destruct (string_of_Z z) as [|c s] eqn:Es.
  - cbn in E. discriminate.
  - destruct (Ascii.eqb_spec c "+") as [->|Hc]; [exfalso; exact (Hp s eq_refl)|].
    assert (G : option_map Z.of_int (NilZero.int_of_string (String c s)) = Some z) by (rewrite E; cbn; f_equal; apply DecimalZ.of_to).
    destruct c as [[|] [|] [|] [|] [|] [|] [|] [|]]; try exact G. exfalso. apply Hc. reflexivity.
Qed.

(* reading a number variable back from the text a number was rendered to *)
Theorem number_roundtrip z : parse_var TypeNumber (value_string (VNumber z)) = Ok (VNumber z).
Proof. unfold parse_var. cbn [value_string]. cbn. rewrite parse_int_string_of_Z. reflexivity. Qed.

Theorem string_roundtrip s : parse_var TypeString (value_string (VString s)) = Ok (VString s).
Proof. reflexivity. Qed.
Theorem asset_roundtrip s : parse_var TypeAsset (value_string (VAsset s)) = Ok (VAsset s).
Proof. reflexivity. Qed.
Theorem account_roundtrip s : valid_account_name s = true -> parse_var TypeAccount (value_string (VAccount s)) = Ok (VAccount s).
Proof.
  intros H. unfold parse_var, value_string.
  change (String.eqb TypeAccount TypeMonetary) with false. change (String.eqb TypeAccount TypeAccount) with true.
  cbv iota. rewrite H. reflexivity.
Qed.

(* ---- portion literals denote exactly their base-ten fraction ---- *)
Lemma split_at_none sep s a : split_at_char sep s = (a, None) -> split_on sep s = [s] /\ a = s.
Proof.
  revert a. induction s as [|c s IH]; intros a H; cbn [split_at_char split_on] in *.
  - injection H as <-. split; reflexivity.
  - destruct (Ascii.eqb c sep); [discriminate|].
    destruct (split_at_char sep s) as [a0 b0] eqn:E. injection H as <- ->.
    destruct (IH a0 eq_refl) as [H1 ->]. rewrite H1. split; reflexivity.
Qed.

Lemma split_at_some sep s a b : split_at_char sep s = (a, Some b) -> split_on sep s = a :: split_on sep b.
Proof.
  revert a. induction s as [|c s IH]; intros a H; cbn [split_at_char split_on] in *; [discriminate|].
  destruct (Ascii.eqb c sep) eqn:Ec.
  - injection H as <- <-. reflexivity.
  - destruct (split_at_char sep s) as [a0 b0] eqn:E. injection H as <- ->.
    rewrite (IH a0 eq_refl). reflexivity.
Qed.

Lemma digits_no_sep sep s acc n : digit_val sep = None -> digits_val_acc s acc = Some n -> split_on sep s = [s].
Proof.
  intros Hsep. revert acc. induction s as [|c s IH]; intros acc H; cbn [digits_val_acc split_on] in *; [reflexivity|].
  destruct (digit_val c) as [k|] eqn:Ek; [|discriminate].
  destruct (Ascii.eqb_spec c sep) as [->|Hne]; [congruence|].
  rewrite (IH _ H). reflexivity.
Qed.

Lemma digits_acc_app s1 s2 acc n1 : digits_val_acc s1 acc = Some n1 -> digits_val_acc (s1 ++ s2) acc = digits_val_acc s2 n1.
Proof.
  revert acc. induction s1 as [|c s1 IH]; intros acc H; cbn [digits_val_acc append] in *.
  - injection H as <-. reflexivity.
  - destruct (digit_val c); [|discriminate]. apply IH, H.
Qed.

Lemma digits_acc_shift s : forall acc n, digits_val_acc s 0 = Some n -> digits_val_acc s acc = Some (acc * pow10z (String.length s) + n).
Proof.
  induction s as [|c s IH]; intros acc n H; cbn [digits_val_acc String.length pow10z] in *.
  - injection H as <-. f_equal. lia.
  - destruct (digit_val c) as [k|]; [|discriminate].
    replace (10 * 0 + k) with k in H by lia.
    (* value of the tail starting from k, and from 10*acc + k *)
    destruct (digits_acc_some s k n H) as [u Hu].
    assert (exists m, digits_val_acc s 0 = Some m) as [m Hm] by (rewrite (digits_acc_zero s u Hu); eexists; reflexivity).
    rewrite (IH k m Hm) in H. injection H as <-. rewrite (IH (10 * acc + k) m Hm). f_equal. lia.
Qed.

Lemma pow10_pow10z k : Zpos (pow10 k) = pow10z k.
Proof. induction k as [|k IH]; cbn [pow10 pow10z]; [reflexivity|]. rewrite Pos2Z.inj_mul, IH. reflexivity. Qed.

Lemma last_char_percent text : ends_with_percent text = true -> last_char text = Some "%"%char.
Proof.
  unfold ends_with_percent, last_char. destruct (rev (list_ascii_of_string text)) as [|c l]; [discriminate|].
  cbn [hd_error]. destruct (Ascii.eqb_spec c "%") as [->|Hne]; [reflexivity|].
  destruct c as [[|] [|] [|] [|] [|] [|] [|] [|]]; try discriminate. exfalso. apply Hne. reflexivity.
Qed.

Lemma last_char_not_percent text : ends_with_percent text = false -> last_char text <> Some "%"%char.
Proof.
  unfold ends_with_percent, last_char. destruct (rev (list_ascii_of_string text)) as [|c l]; [discriminate|].
  cbn [hd_error]. intros H [= ->]. discriminate.
Qed.

Theorem percent_exact text n d :
  ends_with_percent text = true -> portion_denotes text = Some (n, d) -> portion_literal text = Some (n, d).
Proof.
  intros He H. unfold portion_denotes in H. rewrite He in H.
  unfold portion_literal, percent_literal. rewrite (last_char_percent text He).
  change (drop_last text) with (remove_last text).
  destruct (split_at_char "." (remove_last text)) as [i [f|]] eqn:Es.
  - destruct (digits_val i) as [ni|] eqn:Ei; [|discriminate]. destruct (digits_val f) as [nf|] eqn:Ef; [|discriminate].
    injection H as <- <-.
    rewrite (split_at_some _ _ _ _ Es).
    assert (Hf : split_on "." f = [f]).
    { unfold digits_val in Ef. destruct f; [discriminate|]. eapply digits_no_sep; [reflexivity|exact Ef]. }
    rewrite Hf. cbn [String.concat]. change ("" ++ f)%string with f.
    assert (Hv : digits_val (i ++ f) = Some (ni * pow10z (String.length f) + nf)).
    { unfold digits_val in *. destruct i as [|ci i]; [discriminate|]. cbn [append].
      change (String ci (i ++ f)) with (String ci i ++ f)%string.
      rewrite (digits_acc_app _ f 0 ni Ei). destruct f as [|cf f]; [discriminate|]. apply digits_acc_shift, Ef. }
    rewrite (parse_int_digits _ _ Hv). rewrite Pos2Z.inj_mul, pow10_pow10z. reflexivity.
  - destruct (digits_val i) as [ni|] eqn:Ei; [|discriminate]. injection H as <- <-.
    destruct (split_at_none _ _ _ Es) as [Hs ->]. rewrite Hs. rewrite (parse_int_digits _ _ Ei). reflexivity.
Qed.

(* ratio literals *)
Lemma digit_not_space c k : digit_val c = Some k -> Ascii.eqb c " " = false.
Proof. unfold digit_val. destruct c as [[|] [|] [|] [|] [|] [|] [|] [|]]; cbn; intros H; try discriminate; reflexivity. Qed.

Lemma trim_right_digits s acc n : digits_val_acc s acc = Some n -> trim_right s = s.
Proof.
  revert acc. induction s as [|c s IH]; intros acc H; cbn [digits_val_acc trim_right] in *; [reflexivity|].
  destruct (digit_val c) as [k|] eqn:Ek; [|discriminate]. rewrite (IH _ H).
  destruct s; [rewrite (digit_not_space c k Ek)|]; reflexivity.
Qed.

Lemma trim_left_digits c s acc n : digits_val_acc (String c s) acc = Some n -> trim_left (String c s) = String c s.
Proof.
  cbn [digits_val_acc trim_left]. destruct (digit_val c) as [k|] eqn:Ek; [|discriminate]. intros _.
  rewrite (digit_not_space c k Ek). reflexivity.
Qed.

Lemma trim_right_cons c s :
  trim_right (String c s) = match trim_right s with
                            | EmptyString => if Ascii.eqb c " " then EmptyString else String c EmptyString
                            | t => String c t
                            end.
Proof. reflexivity. Qed.

Lemma strip_space_r_head c s : exists t, strip_space_r (String c s) = String c t.
Proof.
  cbn [strip_space_r]. destruct s as [|c1 s1]; [eexists; reflexivity|].
  destruct c1 as [[|] [|] [|] [|] [|] [|] [|] [|]]; try (eexists; reflexivity). destruct s1; eexists; reflexivity.
Qed.

(* a digit string followed by at most one space: trimming gives the digit string *)
Lemma trim_strip_r a n : digits_val (strip_space_r a) = Some n -> trim a = strip_space_r a.
Proof.
  unfold digits_val. destruct (strip_space_r a) as [|c0 x0] eqn:Ex; [discriminate|]. intros H.
  assert (Hne : strip_space_r a <> EmptyString) by (rewrite Ex; discriminate).
  rewrite <- Ex in *. clear c0 x0 Ex.
  unfold trim.
  assert (G : forall a acc m, digits_val_acc (strip_space_r a) acc = Some m -> strip_space_r a <> EmptyString ->
              trim_right a = strip_space_r a /\ trim_left a = a).
  { clear. induction a as [|c a IH]; intros acc m H Hne; [contradiction|].
    cbn [strip_space_r] in *.
    destruct a as [|c1 a1].
    - cbn [digits_val_acc] in H. destruct (digit_val c) as [k|] eqn:Ek; [|discriminate].
      cbn [trim_right trim_left]. rewrite (digit_not_space c k Ek). split; reflexivity.
    - destruct (Ascii.eqb_spec c1 " ") as [->|Hc1].
      + destruct a1 as [|c2 a2].
        * cbn [digits_val_acc] in H. destruct (digit_val c) as [k|] eqn:Ek; [|discriminate].
          cbn [trim_right trim_left]. rewrite (digit_not_space c k Ek). cbn. split; reflexivity.
        * (* a space followed by more text: the stripped string still contains the space, not a digit string *)
          exfalso. cbn [digits_val_acc] in H. destruct (digit_val c) as [k|]; [|discriminate].
          destruct (strip_space_r_head " " (String c2 a2)) as [t Ht]. rewrite Ht in H. cbn in H. discriminate.
      + assert (E : match String c1 a1 with String " " EmptyString => String c EmptyString | _ => String c (strip_space_r (String c1 a1)) end
                    = String c (strip_space_r (String c1 a1))).
        { destruct c1 as [[|] [|] [|] [|] [|] [|] [|] [|]]; try reflexivity. destruct a1; [exfalso; apply Hc1; reflexivity|reflexivity]. }
        rewrite E in *. cbn [digits_val_acc] in H. destruct (digit_val c) as [k|] eqn:Ek; [|discriminate].
        assert (Hne' : strip_space_r (String c1 a1) <> EmptyString).
        { cbn [strip_space_r]. destruct a1 as [|c2 a2]; [discriminate|]. destruct c2 as [[|] [|] [|] [|] [|] [|] [|] [|]]; try discriminate; destruct a2; discriminate. }
        destruct (IH _ _ H Hne') as [IH1 _].
        rewrite trim_right_cons, IH1. cbn [trim_left]. rewrite (digit_not_space c k Ek).
        split; [|reflexivity]. destruct (strip_space_r (String c1 a1)); [contradiction|reflexivity]. }
  destruct (G a 0 n H Hne) as [G1 G2]. rewrite G2. exact G1.
Qed.

Lemma trim_strip_l b n : digits_val (strip_space_l b) = Some n -> trim b = strip_space_l b.
Proof.
  unfold digits_val, trim. destruct (strip_space_l b) as [|c x] eqn:Ex; [discriminate|]. intros H.
  unfold strip_space_l in Ex.
  destruct b as [|c0 b0]; [discriminate|].
  destruct (Ascii.eqb_spec c0 " ") as [->|Hc0].
  - subst b0. change (trim_left (String " " (String c x))) with (trim_left (String c x)).
    rewrite (trim_left_digits c x 0 n H). apply (trim_right_digits _ 0 n H).
  - assert (E : String c0 b0 = String c x) by (destruct c0 as [[|] [|] [|] [|] [|] [|] [|] [|]]; try exact Ex; exfalso; apply Hc0; reflexivity).
    rewrite E. rewrite (trim_left_digits c x 0 n H). apply (trim_right_digits _ 0 n H).
Qed.

Theorem ratio_exact text n d :
  ends_with_percent text = false -> portion_denotes text = Some (n, d) -> portion_literal text = Some (n, d).
Proof.
  intros He H. unfold portion_denotes in H. rewrite He in H.
  unfold portion_literal.
  assert (Hl : match last_char text with Some "%"%char => percent_literal text | _ => ratio_literal text end = ratio_literal text).
  { pose proof (last_char_not_percent text He) as Hn. destruct (last_char text) as [c|]; [|reflexivity].
    destruct c as [[|] [|] [|] [|] [|] [|] [|] [|]]; try reflexivity. exfalso. apply Hn. reflexivity. }
  rewrite Hl. unfold ratio_literal.
  destruct (split_at_char "/" text) as [a [b|]] eqn:Es; [|discriminate].
  destruct (digits_val (strip_space_r a)) as [na|] eqn:Ea; [|discriminate].
  destruct (digits_val (strip_space_l b)) as [nb|] eqn:Eb; [|discriminate]. injection H as <- <-.
  rewrite (split_at_some _ _ _ _ Es).
  assert (Hb : split_on "/" b = [b]).
  { unfold digits_val in Eb. destruct (strip_space_l b) as [|c x] eqn:Ex; [discriminate|]. unfold strip_space_l in Ex.
    destruct b as [|c0 b0]; [discriminate|].
    destruct (Ascii.eqb_spec c0 " ") as [->|Hc0].
    - subst b0. pose proof (digits_no_sep "/" (String c x) 0 nb eq_refl Eb) as Hx.
      change (split_on "/" (String " " (String c x))) with
        (match split_on "/" (String c x) with [] => [String " " EmptyString] | y :: l => String " " y :: l end).
      rewrite Hx. reflexivity.
    - assert (E : String c0 b0 = String c x) by (destruct c0 as [[|] [|] [|] [|] [|] [|] [|] [|]]; try exact Ex; exfalso; apply Hc0; reflexivity).
      rewrite E. apply (digits_no_sep "/" _ 0 nb eq_refl Eb). }
  rewrite Hb. rewrite (trim_strip_r a na Ea), (trim_strip_l b nb Eb).
  rewrite (parse_int_digits _ _ Ea), (parse_int_digits _ _ Eb). reflexivity.
Qed.

(* C13, first sentence: a portion literal denotes exactly its fraction in base ten *)
Theorem portion_literal_exact text n d : portion_denotes text = Some (n, d) -> portion_literal text = Some (n, d).
Proof. intros H. destruct (ends_with_percent text) eqn:E; [apply percent_exact|apply ratio_exact]; assumption. Qed.
