(* C13: the remaining render-then-read round trips: monetary and portion values written with
   Value.String() (the text account metadata holds) and read back by parseVar. *)
From Coq Require Import Ascii Lia DecimalString.
From NS Require Import Run ConvProofs.
Open Scope string_scope.

(* ---- characters of the decimal rendering ---- *)
Lemma all_chars_uint (P : ascii -> bool) :
  P "0"%char = true -> P "1"%char = true -> P "2"%char = true -> P "3"%char = true -> P "4"%char = true ->
  P "5"%char = true -> P "6"%char = true -> P "7"%char = true -> P "8"%char = true -> P "9"%char = true ->
  forall u, all_chars P (NilEmpty.string_of_uint u) = true.
Proof.
  intros H0 H1 H2 H3 H4 H5 H6 H7 H8 H9. induction u; cbn [NilEmpty.string_of_uint all_chars]; try reflexivity;
    rewrite IHu, Bool.andb_true_r; assumption.
Qed.

Lemma all_chars_nzuint (P : ascii -> bool) :
  P "0"%char = true -> P "1"%char = true -> P "2"%char = true -> P "3"%char = true -> P "4"%char = true ->
  P "5"%char = true -> P "6"%char = true -> P "7"%char = true -> P "8"%char = true -> P "9"%char = true ->
  forall u, all_chars P (NilZero.string_of_uint u) = true.
Proof.
  intros. unfold NilZero.string_of_uint. destruct u; try (apply all_chars_uint; assumption).
  cbn [all_chars]. rewrite H. reflexivity.
Qed.

Lemma nzuint_nonempty u : NilZero.string_of_uint u <> "".
Proof. destruct u; cbn; discriminate. Qed.

(* ---- splitting ---- *)
Lemma split_on_nosep sep s : all_chars (fun c => negb (Ascii.eqb c sep)) s = true -> split_on sep s = [s].
Proof.
  induction s as [|c s IH]; cbn [all_chars split_on]; [reflexivity|]. intros H. apply Bool.andb_true_iff in H.
  destruct H as [Hc Hs]. apply Bool.negb_true_iff in Hc. rewrite Hc, (IH Hs). reflexivity.
Qed.

Lemma split_on_app sep a b : all_chars (fun c => negb (Ascii.eqb c sep)) a = true ->
  split_on sep (a ++ String sep b) = a :: split_on sep b.
Proof.
  induction a as [|c a IH]; cbn [all_chars split_on append].
  - intros _. now rewrite Ascii.eqb_refl.
  - intros H. apply Bool.andb_true_iff in H. destruct H as [Hc Hs]. apply Bool.negb_true_iff in Hc.
    rewrite Hc, (IH Hs). reflexivity.
Qed.

Lemma string_of_Z_no (sep : ascii) z :
  negb (Ascii.eqb "-"%char sep) = true ->
  negb (Ascii.eqb "0"%char sep) = true -> negb (Ascii.eqb "1"%char sep) = true -> negb (Ascii.eqb "2"%char sep) = true ->
  negb (Ascii.eqb "3"%char sep) = true -> negb (Ascii.eqb "4"%char sep) = true -> negb (Ascii.eqb "5"%char sep) = true ->
  negb (Ascii.eqb "6"%char sep) = true -> negb (Ascii.eqb "7"%char sep) = true -> negb (Ascii.eqb "8"%char sep) = true ->
  negb (Ascii.eqb "9"%char sep) = true ->
  all_chars (fun c => negb (Ascii.eqb c sep)) (string_of_Z z) = true.
Proof.
  intros Hm H0 H1 H2 H3 H4 H5 H6 H7 H8 H9. unfold string_of_Z, NilZero.string_of_int.
  destruct (Z.to_int z) as [u|u].
  - apply all_chars_nzuint; assumption.
  - cbn [all_chars]. rewrite Hm. apply all_chars_nzuint; assumption.
Qed.

(* ---- monetary ---- *)
Theorem monetary_roundtrip a n :
  all_chars (fun c => negb (Ascii.eqb c " "%char)) a = true ->
  parse_var TypeMonetary (value_string (VMonetary a n)) = Ok (VMonetary a n).
Proof.
  intros Ha. unfold parse_var. change (String.eqb TypeMonetary TypeMonetary) with true. cbv iota. cbn [value_string].
  unfold parse_monetary. change (a ++ " " ++ string_of_Z n) with (a ++ String " "%char (string_of_Z n)).
  rewrite (split_on_app " "%char a _ Ha).
  rewrite (split_on_nosep " "%char (string_of_Z n)) by (apply string_of_Z_no; reflexivity).
  now rewrite parse_int_string_of_Z.
Qed.

(* ---- portion ---- *)
Lemma string_of_Z_nonneg z : 0 <= z -> exists u, string_of_Z z = NilZero.string_of_uint u.
Proof.
  intros H. unfold string_of_Z, NilZero.string_of_int. destruct z as [|p|p]; cbn [Z.to_int]; [eexists; reflexivity|eexists; reflexivity|lia].
Qed.

Lemma is_digit_chars : forall u, all_chars is_digit (NilZero.string_of_uint u) = true.
Proof. apply all_chars_nzuint; reflexivity. Qed.

Lemma nonempty_digits_nz u : nonempty_digits (NilZero.string_of_uint u) = true.
Proof.
  unfold nonempty_digits. rewrite is_digit_chars, Bool.andb_true_r.
  destruct (NilZero.string_of_uint u) eqn:E; [exfalso; exact (nzuint_nonempty u E)|reflexivity].
Qed.

Lemma in_all_chars P s c : all_chars P s = true -> In c (list_ascii_of_string s) -> P c = true.
Proof.
  induction s as [|c0 s IH]; cbn [all_chars list_ascii_of_string In]; [intros _ []|].
  intros H. apply Bool.andb_true_iff in H. destruct H as [Hc Hs]. intros [<-|Hin]; [exact Hc|exact (IH Hs Hin)].
Qed.

Lemma last_char_in s c : last_char s = Some c -> In c (list_ascii_of_string s).
Proof.
  unfold last_char. intros H. apply in_rev. destruct (rev (list_ascii_of_string s)) as [|x l]; [discriminate|].
  injection H as ->. left. reflexivity.
Qed.

Lemma list_ascii_app a b : list_ascii_of_string (a ++ b) = (list_ascii_of_string a ++ list_ascii_of_string b)%list.
Proof. induction a as [|c a IH]; cbn [append list_ascii_of_string app]; [reflexivity|now rewrite IH]. Qed.

Lemma last_char_app a b : b <> "" -> last_char (a ++ b) = last_char b.
Proof.
  intros Hb. unfold last_char. rewrite list_ascii_app, rev_app_distr.
  destruct (rev (list_ascii_of_string b)) as [|x l] eqn:E; [|reflexivity].
  exfalso. apply Hb. destruct b; [reflexivity|]. cbn [list_ascii_of_string rev] in E. destruct (rev (list_ascii_of_string b)); discriminate.
Qed.

Lemma strip_trailing_digits s : all_chars is_digit s = true -> strip_one_trailing_space s = s.
Proof.
  intros H. unfold strip_one_trailing_space. destruct (rev (list_ascii_of_string s)) as [|c l] eqn:E; [reflexivity|].
  assert (Hin : In c (list_ascii_of_string s)) by (apply in_rev; rewrite E; left; reflexivity).
  pose proof (in_all_chars _ _ _ H Hin) as Hd.
  replace (is_re_space c) with false; [reflexivity|].
  unfold is_digit in Hd. unfold is_re_space. apply Bool.andb_true_iff in Hd. destruct Hd as [H1 H2].
  apply Nat.leb_le in H1. symmetry. repeat (apply Bool.orb_false_iff; split); apply Nat.eqb_neq; lia.
Qed.

Lemma strip_leading_digits s : all_chars is_digit s = true -> strip_one_leading_space s = s.
Proof.
  destruct s as [|c s]; [reflexivity|]. cbn [all_chars strip_one_leading_space]. intros H.
  apply Bool.andb_true_iff in H. destruct H as [Hd _].
  replace (is_re_space c) with false; [reflexivity|].
  unfold is_digit in Hd. unfold is_re_space. apply Bool.andb_true_iff in Hd. destruct Hd as [H1 H2].
  apply Nat.leb_le in H1. symmetry. repeat (apply Bool.orb_false_iff; split); apply Nat.eqb_neq; lia.
Qed.

Lemma digits_to_Z_string_of_Z z : digits_to_Z (string_of_Z z) = z.
Proof. unfold digits_to_Z. now rewrite parse_int_string_of_Z. Qed.

(* the text of a portion n/d (n >= 0) is read back as n # d *)
Lemma parse_portion_text_render n d : 0 <= n ->
  parse_portion_text (string_of_Z n ++ "/" ++ string_of_Z (Zpos d)) = Some (n # d).
Proof.
  intros Hn. destruct (string_of_Z_nonneg n Hn) as (un & En).
  destruct (string_of_Z_nonneg (Zpos d) ltac:(lia)) as (ud & Ed).
  unfold parse_portion_text.
  assert (Hlast : last_char (string_of_Z n ++ "/" ++ string_of_Z (Z.pos d)) <> Some "%"%char).
  { change (string_of_Z n ++ "/" ++ string_of_Z (Z.pos d)) with (string_of_Z n ++ (String "/"%char (string_of_Z (Z.pos d)))).
    rewrite last_char_app by discriminate.
    change (String "/"%char (string_of_Z (Z.pos d))) with ("/" ++ string_of_Z (Z.pos d)).
    rewrite last_char_app by (rewrite Ed; apply nzuint_nonempty).
    intros H. apply last_char_in in H. rewrite Ed in H. pose proof (in_all_chars _ _ _ (is_digit_chars ud) H) as Hd. discriminate. }
  destruct (last_char (string_of_Z n ++ "/" ++ string_of_Z (Z.pos d))) as [[[] [] [] [] [] [] [] []]|];
    try (exfalso; apply Hlast; reflexivity);
    (change (string_of_Z n ++ "/" ++ string_of_Z (Z.pos d)) with (string_of_Z n ++ (String "/"%char (string_of_Z (Z.pos d))));
     rewrite (split_on_app "/"%char (string_of_Z n)) by (apply string_of_Z_no; reflexivity);
     rewrite (split_on_nosep "/"%char (string_of_Z (Z.pos d))) by (apply string_of_Z_no; reflexivity);
     rewrite (strip_trailing_digits (string_of_Z n)) by (rewrite En; apply is_digit_chars);
     rewrite (strip_leading_digits (string_of_Z (Z.pos d))) by (rewrite Ed; apply is_digit_chars);
     rewrite En at 1; rewrite Ed at 1; rewrite !nonempty_digits_nz; cbn [andb];
     rewrite !digits_to_Z_string_of_Z; reflexivity).
Qed.

(* a portion in [0, 1] written with Value.String() (big.Rat: lowest terms) is read back as the same
   fraction in lowest terms *)
Theorem portion_roundtrip q : (0 <= q)%Q -> (q <= 1)%Q ->
  parse_var TypePortion (value_string (VPortion q)) = Ok (VPortion (Qred q)).
Proof.
  intros H0 H1. unfold parse_var.
  change (String.eqb TypePortion TypeMonetary) with false. change (String.eqb TypePortion TypeAccount) with false.
  change (String.eqb TypePortion TypePortion) with true. cbv iota. cbn [value_string]. unfold parse_portion, string_of_Q.
  assert (Hn : 0 <= Qnum (Qred q)).
  { pose proof (Qred_correct q) as Hc. assert (Hq : (0 <= Qred q)%Q) by (rewrite Hc; exact H0).
    unfold Qle in Hq. cbn in Hq. lia. }
  rewrite (parse_portion_text_render (Qnum (Qred q)) (Qden (Qred q)) Hn).
  replace (Qnum (Qred q) # Qden (Qred q)) with (Qred q) by (destruct (Qred q); reflexivity).
  assert (Hle0 : Qle_bool 0 (Qred q) = true) by (apply Qle_bool_iff; rewrite Qred_correct; exact H0).
  assert (Hle1 : Qle_bool (Qred q) 1 = true) by (apply Qle_bool_iff; rewrite Qred_correct; exact H1).
  rewrite Hle0, Hle1. reflexivity.
Qed.
