(* C13: the text of a portion read as a VARIABLE (interpreter: ParsePortionSpecific) denotes the
   same base-ten fraction as the same text read as a literal (parser): both equal Spec/Decimal's
   portion_denotes. *)
From Coq Require Import Ascii Lia.
From NS Require Import Run Conv Decimal ConvProofs ConvRoundtrip.
Open Scope string_scope.

Lemma digit_val_is_digit c k : digit_val c = Some k -> is_digit c = true.
Proof.
  unfold digit_val, is_digit. destruct ((48 <=? Z.of_nat (nat_of_ascii c)) && (Z.of_nat (nat_of_ascii c) <=? 57))%Z eqn:E; [|discriminate].
  intros _. apply andb_prop in E. destruct E as [E1 E2]. apply Z.leb_le in E1, E2.
  apply Bool.andb_true_iff. split; apply Nat.leb_le; lia.
Qed.

Lemma digits_all_chars s : forall acc n, digits_val_acc s acc = Some n -> all_chars is_digit s = true.
Proof.
  induction s as [|c s IH]; intros acc n H; cbn [digits_val_acc all_chars] in *; [reflexivity|].
  destruct (digit_val c) as [k|] eqn:Ek; [|discriminate]. rewrite (digit_val_is_digit c k Ek), (IH _ _ H). reflexivity.
Qed.

Lemma digits_val_nonempty s n : digits_val s = Some n -> nonempty_digits s = true /\ digits_to_Z s = n.
Proof.
  intros H. split.
  - unfold nonempty_digits. unfold digits_val in H. destruct s as [|c s]; [discriminate|].
    cbn [String.eqb negb andb]. exact (digits_all_chars _ _ _ H).
  - unfold digits_to_Z. now rewrite (parse_int_digits _ _ H).
Qed.

Lemma digits_val_all s n : digits_val s = Some n -> all_chars is_digit s = true.
Proof. unfold digits_val. destruct s; [discriminate|]. apply digits_all_chars. Qed.

(* a digit string followed by at most one space *)
Lemma strip_r_cases a n : digits_val (strip_space_r a) = Some n -> a = strip_space_r a \/ a = strip_space_r a ++ " ".
Proof.
  unfold digits_val. destruct (strip_space_r a) as [|c0 x0] eqn:Ex; [discriminate|]. rewrite <- Ex. clear c0 x0 Ex.
  generalize 0%Z as acc. revert n. induction a as [|c a IH]; intros n acc H; [left; reflexivity|].
  cbn [strip_space_r] in *. destruct a as [|c1 a1]; [left; reflexivity|].
  destruct (Ascii.eqb_spec c1 " ") as [->|Hc1].
  - destruct a1 as [|c2 a2]; [right; reflexivity|].
    exfalso. cbn [digits_val_acc] in H. destruct (digit_val c) as [k|]; [|discriminate].
    destruct (strip_space_r_head " " (String c2 a2)) as [t Ht]. rewrite Ht in H. cbn in H. discriminate.
  - assert (E : match String c1 a1 with String " " EmptyString => String c EmptyString | _ => String c (strip_space_r (String c1 a1)) end
                = String c (strip_space_r (String c1 a1))).
    { destruct c1 as [[|] [|] [|] [|] [|] [|] [|] [|]]; try reflexivity. destruct a1; [exfalso; apply Hc1; reflexivity|reflexivity]. }
    rewrite E in *. cbn [digits_val_acc] in H. destruct (digit_val c) as [k|]; [|discriminate].
    destruct (IH _ _ H) as [G|G]; [left|right]; cbn [append]; f_equal; exact G.
Qed.

Lemma string_of_list_of_string s : string_of_list_ascii (list_ascii_of_string s) = s.
Proof. induction s as [|c s IH]; cbn; [reflexivity|now rewrite IH]. Qed.

Lemma strip_trailing_one_space x : strip_one_trailing_space (x ++ " ") = x.
Proof.
  unfold strip_one_trailing_space. rewrite list_ascii_app, rev_app_distr. cbn [list_ascii_of_string rev app].
  change (is_re_space " "%char) with true. cbv iota. rewrite rev_involutive. apply string_of_list_of_string.
Qed.

Lemma strip_var_r a n : digits_val (strip_space_r a) = Some n -> strip_one_trailing_space a = strip_space_r a.
Proof.
  intros H. destruct (strip_r_cases a n H) as [E|E].
  - rewrite <- E in *. apply strip_trailing_digits, (digits_val_all _ _ H).
  - rewrite E at 1. apply strip_trailing_one_space.
Qed.

Lemma strip_var_l b n : digits_val (strip_space_l b) = Some n -> strip_one_leading_space b = strip_space_l b.
Proof.
  intros H. destruct b as [|c0 b0]; [discriminate|]. unfold strip_space_l in *.
  destruct (Ascii.eqb_spec c0 " ") as [->|Hc0].
  - reflexivity.
  - assert (E : match c0 with " "%char => b0 | _ => String c0 b0 end = String c0 b0).
    { destruct c0 as [[|] [|] [|] [|] [|] [|] [|] [|]]; try reflexivity. exfalso. apply Hc0. reflexivity. }
    rewrite E in *. apply strip_leading_digits, (digits_val_all _ _ H).
Qed.

(* every text that denotes a fraction n/d (d > 0) in base ten is read, as a portion variable, as n # d *)
Theorem portion_var_exact text n d :
  portion_denotes text = Some (n, d) -> (0 < d)%Z -> parse_portion_text text = Some (n # Z.to_pos d).
Proof.
  intros H Hd. unfold portion_denotes in H. unfold parse_portion_text.
  destruct (ends_with_percent text) eqn:He.
  - rewrite (last_char_percent text He). change (drop_last text) with (remove_last text).
    destruct (split_at_char "." (remove_last text)) as [i [f|]] eqn:Es.
    + destruct (digits_val i) as [ni|] eqn:Ei; [|discriminate]. destruct (digits_val f) as [nf|] eqn:Ef; [|discriminate].
      injection H as <- <-. rewrite (split_at_some _ _ _ _ Es).
      assert (Hf : split_on "." f = [f]).
      { unfold digits_val in Ef. destruct f; [discriminate|]. eapply digits_no_sep; [reflexivity|exact Ef]. }
      rewrite Hf. destruct (digits_val_nonempty _ _ Ei) as [Ni _]. destruct (digits_val_nonempty _ _ Ef) as [Nf _]. rewrite Ni, Nf. cbn [andb].
      assert (Hv : digits_val (i ++ f) = Some (ni * pow10z (String.length f) + nf)%Z).
      { unfold digits_val in *. destruct i as [|ci i]; [discriminate|]. cbn [append].
        change (String ci (i ++ f)) with (String ci i ++ f)%string.
        rewrite (digits_acc_app _ f 0 ni Ei). destruct f as [|cf f]; [discriminate|]. apply digits_acc_shift, Ef. }
      rewrite (proj2 (digits_val_nonempty _ _ Hv)). f_equal. f_equal.
      rewrite <- pow10_pow10z. reflexivity.
    + destruct (digits_val i) as [ni|] eqn:Ei; [|discriminate]. injection H as <- <-.
      destruct (split_at_none _ _ _ Es) as [Hs ->]. rewrite Hs.
      destruct (digits_val_nonempty _ _ Ei) as [Ni Zi]. rewrite Ni, Zi. reflexivity.
  - assert (Hl : forall A (x y : A), match last_char text with Some "%"%char => x | _ => y end = y).
    { intros A x y. pose proof (last_char_not_percent text He) as Hn. destruct (last_char text) as [c|]; [|reflexivity].
      destruct c as [[|] [|] [|] [|] [|] [|] [|] [|]]; try reflexivity. exfalso. apply Hn. reflexivity. }
    rewrite Hl.
    destruct (split_at_char "/" text) as [a [b|]] eqn:Es; [|discriminate].
    destruct (digits_val (strip_space_r a)) as [na|] eqn:Ea; [|discriminate].
    destruct (digits_val (strip_space_l b)) as [nb|] eqn:Eb; [|discriminate]. injection H as <- <-.
    rewrite (split_at_some _ _ _ _ Es).
    assert (Hb : split_on "/" b = [b]).
    { unfold digits_val in Eb. destruct (strip_space_l b) as [|c x] eqn:Ex; [discriminate|]. unfold strip_space_l in Ex.
      destruct b as [|c0 b0]; [discriminate|].
      destruct (Ascii.eqb_spec c0 " ") as [->|Hc0].
      - subst b0. pose proof (digits_no_sep "/" (String c x) 0 nb eq_refl Eb) as Hx.
        change (split_on "/" (String " " (String c x))) with
          (match split_on "/" (String c x) with [] => [String " " EmptyString] | y :: l => String " " y :: l end).
        rewrite Hx. reflexivity.
      - assert (E : String c0 b0 = String c x) by (destruct c0 as [[|] [|] [|] [|] [|] [|] [|] [|]]; try exact Ex; exfalso; apply Hc0; reflexivity).
        rewrite E. apply (digits_no_sep "/" _ 0 nb eq_refl Eb). }
    rewrite Hb. rewrite (strip_var_r a na Ea), (strip_var_l b nb Eb).
    destruct (digits_val_nonempty _ _ Ea) as [Na Za]. destruct (digits_val_nonempty _ _ Eb) as [Nb Zb].
    rewrite Na, Nb, Za, Zb. cbn [andb]. destruct nb as [|p|p]; try lia. reflexivity.
Qed.
