(* C05: laws of the destination distribution (Spec/Distribution.v) and refinement of the model of
   receiveFrom (Model/Dest.v) to it. *)
From Coq Require Import Lia Lqa ZifyBool.
From NS Require Import Dest EvalTrees AllotProofs GreedyProofs SourceProofs SyntaxInd.

Section EdestInd.
  Variable P : edest -> Prop.
  Variable Q : ekod -> Prop.
  Hypothesis HA : forall a, P (EDAccount a).
  Hypothesis HI : forall cl rem, Forall (fun c : Z * ekod => Q (snd c)) cl -> Q rem -> P (EDInorder cl rem).
  Hypothesis HL : forall items, Forall (fun it : clause * ekod => Q (snd it)) items -> P (EDAllot items).
  Hypothesis HK : Q EKept.
  Hypothesis HT : forall d, P d -> Q (ETo d).
  Fixpoint edest_ind' (d : edest) : P d :=
    match d with
    | EDAccount a => HA a
    | EDInorder cl rem =>
        HI cl rem ((fix go (l : list (Z * ekod)) : Forall (fun c => Q (snd c)) l :=
                      match l with [] => Forall_nil _ | c :: l' => Forall_cons c (ekod_ind' (snd c)) (go l') end) cl)
           (ekod_ind' rem)
    | EDAllot items =>
        HL items ((fix go (l : list (clause * ekod)) : Forall (fun it => Q (snd it)) l :=
                     match l with [] => Forall_nil _ | it :: l' => Forall_cons it (ekod_ind' (snd it)) (go l') end) items)
    end
  with ekod_ind' (k : ekod) : Q k :=
    match k with EKept => HK | ETo d => HT d (edest_ind' d) end.
  Lemma edest_ekod_ind : (forall d, P d) /\ (forall k, Q k).
  Proof. split; [exact edest_ind'|exact ekod_ind']. Qed.
End EdestInd.

(* the loops of [distribute] as top-level functions *)
Fixpoint dist_inorder (rem : ekod) (l : list (Z * ekod)) (left : Z) : option (list (string * Z)) :=
  match l with
  | [] => if left =? 0 then Some [] else distribute_kod rem left
  | (cap, k) :: l' =>
      let amt := Z.max 0 (Z.min cap left) in
      if amt =? 0 then dist_inorder rem l' left
      else match distribute_kod k amt, dist_inorder rem l' (left - amt) with
           | Some x, Some y => Some (x ++ y)
           | _, _ => None
           end
  end.

Fixpoint dist_allot (l : list (clause * ekod)) (shares : list Z) : option (list (string * Z)) :=
  match l, shares with
  | [], _ => Some []
  | (_, k) :: l', s :: shares' =>
      match distribute_kod k s, dist_allot l' shares' with
      | Some x, Some y => Some (x ++ y)
      | _, _ => None
      end
  | _ :: _, [] => None
  end.

Lemma dist_inorder_eq cl rem n : distribute (EDInorder cl rem) n = dist_inorder rem cl n.
Proof.
  cbn [distribute]. revert n. induction cl as [|[cap k] l IH]; intros n; cbn [dist_inorder]; [reflexivity|].
  cbv zeta. destruct (_ =? 0); [apply IH|]. rewrite IH. reflexivity.
Qed.

Lemma dist_allot_eq items n :
  distribute (EDAllot items) n =
  match denoted_portions (map fst items) with
  | None => None
  | Some ps => dist_allot items (spec_shares n ps)
  end.
Proof.
  cbn [distribute]. destruct (denoted_portions (map fst items)) as [ps|]; [|reflexivity].
  generalize (spec_shares n ps) as shares. induction items as [|[c k] l IH]; intros shares; cbn [dist_allot]; [reflexivity|].
  destruct shares as [|s shares]; [reflexivity|]. rewrite IH. reflexivity.
Qed.

(* well-formed: explicit portions are non-negative *)
Fixpoint wf_edest (d : edest) : Prop :=
  match d with
  | EDAccount _ => True
  | EDInorder cl rem =>
      (fix go (l : list (Z * ekod)) : Prop := match l with [] => True | (_, k) :: l' => wf_ekod k /\ go l' end) cl /\ wf_ekod rem
  | EDAllot items =>
      (fix go (l : list (clause * ekod)) : Prop :=
         match l with
         | [] => True
         | (c, k) :: l' => (match c with Some p => (0 <= p)%Q | None => True end) /\ wf_ekod k /\ go l'
         end) items
  end
with wf_ekod (k : ekod) : Prop :=
  match k with EKept => True | ETo d => wf_edest d end.

Lemma total_app (a b : list (string * Z)) : total (a ++ b) = total a + total b.
Proof. unfold total. rewrite map_app. apply zsum_app. Qed.

(* C05, conservation: what is credited (to accounts or to the kept marker) is exactly what was
   sent, and nothing is credited a negative amount *)
Theorem distribute_conserves :
  (forall d n cr, wf_edest d -> 0 <= n -> distribute d n = Some cr ->
     total cr = n /\ Forall (fun e : string * Z => 0 <= snd e) cr) /\
  (forall k n cr, wf_ekod k -> 0 <= n -> distribute_kod k n = Some cr ->
     total cr = n /\ Forall (fun e : string * Z => 0 <= snd e) cr).
Proof.
  apply (edest_ekod_ind
    (fun d => forall n cr, wf_edest d -> 0 <= n -> distribute d n = Some cr -> total cr = n /\ Forall (fun e : string * Z => 0 <= snd e) cr)
    (fun k => forall n cr, wf_ekod k -> 0 <= n -> distribute_kod k n = Some cr -> total cr = n /\ Forall (fun e : string * Z => 0 <= snd e) cr)).
  - intros a n cr _ Hn H. cbn in H. injection H as <-. split; [cbn; lia|repeat constructor; cbn; lia].
  - intros cl rem Hcl Hrem n cr Hwf Hn H. rewrite dist_inorder_eq in H. cbn in Hwf. destruct Hwf as [Hwcl Hwrem].
    revert n cr Hn H. induction cl as [|[cap k] l IH]; intros n cr Hn H; cbn [dist_inorder] in H.
    + destruct (n =? 0) eqn:E; [injection H as <-; split; [cbn; lia|constructor]|].
      apply Hrem; assumption.
    + inversion Hcl as [|? ? Hk Hcl']; subst. cbn [snd] in Hk. destruct Hwcl as [Hwk Hwl].
      cbv zeta in H. destruct (Z.max 0 (Z.min cap n) =? 0) eqn:E; [apply (IH Hcl' Hwl n cr Hn H)|].
      destruct (distribute_kod k (Z.max 0 (Z.min cap n))) as [x|] eqn:Ex; [|discriminate].
      destruct (dist_inorder rem l (n - Z.max 0 (Z.min cap n))) as [y|] eqn:Ey; [|discriminate].
      injection H as <-.
      destruct (Hk (Z.max 0 (Z.min cap n)) x Hwk ltac:(lia) Ex) as [Hx1 Hx2].
      destruct (IH Hcl' Hwl (n - Z.max 0 (Z.min cap n)) y ltac:(lia) Ey) as [Hy1 Hy2].
      split; [rewrite total_app; lia|apply Forall_app; split; assumption].
  - intros items Hit n cr Hwf Hn H. rewrite dist_allot_eq in H.
    destruct (denoted_portions (map fst items)) as [ps|] eqn:Ed; [|discriminate].
    assert (Hcl : Forall (fun c : clause => match c with Some p => (0 <= p)%Q | None => True end) (map fst items)).
    { clear -Hwf. induction items as [|[c x] l IH]; cbn [map fst]; constructor; cbn in Hwf; [tauto|apply IH; tauto]. }
    pose proof (spec_shares_nonneg n ps Hn (denoted_nonneg _ _ Hcl Ed)) as Hsh.
    destruct (denoted_portions_sum _ _ Ed) as [Hsum Hlen]. rewrite map_length in Hlen.
    assert (Hps : ps <> []).
    { intros ->. destruct items; [cbn in Ed; discriminate|cbn in Hlen; discriminate]. }
    destruct (spec_shares_exact n ps Hn Hps Hsum) as [Hz _].
    assert (G : forall shares cr, Forall (fun x => 0 <= x) shares -> List.length shares = List.length items ->
              dist_allot items shares = Some cr -> total cr = zsum shares /\ Forall (fun e : string * Z => 0 <= snd e) cr).
    { clear H Ed Hcl Hsh Hlen Hps Hz Hsum ps cr. cbn in Hwf.
      induction items as [|[c k] l IH]; intros shares cr Hsh Hl H; cbn [dist_allot] in H.
      - injection H as <-. destruct shares; [|discriminate]. split; [reflexivity|constructor].
      - destruct shares as [|s shares]; [discriminate|]. inversion Hsh; subst.
        inversion Hit as [|? ? Hk Hit']; subst. cbn [snd] in Hk. destruct Hwf as [_ [Hwk Hwl]].
        destruct (distribute_kod k s) as [x|] eqn:Ex; [|discriminate].
        destruct (dist_allot l shares) as [y|] eqn:Ey; [|discriminate]. injection H as <-.
        destruct (Hk s x Hwk ltac:(assumption) Ex) as [Hx1 Hx2]. cbn [List.length] in Hl.
        destruct (IH Hit' Hwl shares y ltac:(assumption) ltac:(lia) Ey) as [Hy1 Hy2].
        split; [rewrite total_app; change (zsum (s :: shares)) with (s + zsum shares); lia|apply Forall_app; split; assumption]. }
    destruct (G _ _ Hsh ltac:(rewrite spec_shares_length; exact Hlen) H) as [G1 G2]. split; [lia|exact G2].
  - intros n cr _ Hn H. cbn in H. injection H as <-. split; [cbn; lia|repeat constructor; cbn; lia].
  - intros d IH n cr Hwf Hn H. cbn in H, Hwf. apply IH; assumption.
Qed.

(* C05: each `max` clause receives min(its cap, what is left), a negative cap counting as zero,
   and what follows is distributed from what remains (definitional reading of the spec) *)
Lemma inorder_clause cap k l rem n :
  distribute (EDInorder ((cap, k) :: l) rem) n =
  let amt := Z.max 0 (Z.min cap n) in
  if amt =? 0 then distribute (EDInorder l rem) n
  else match distribute_kod k amt, distribute (EDInorder l rem) (n - amt) with
       | Some x, Some y => Some (x ++ y)
       | _, _ => None
       end.
Proof. rewrite !dist_inorder_eq. cbn [dist_inorder]. cbv zeta. destruct (_ =? 0); [reflexivity|]. rewrite dist_inorder_eq. reflexivity. Qed.

Lemma inorder_remaining rem n :
  distribute (EDInorder [] rem) n = if n =? 0 then Some [] else distribute_kod rem n.
Proof. reflexivity. Qed.

Lemma kept_credits_nobody n : distribute_kod EKept n = Some [(KEPT, n)].
Proof. reflexivity. Qed.

(* ---------------- refinement: the model computes the specified distribution ---------------- *)
Definition nonzero (cr : list (string * Z)) : list (string * Z) := filter (fun e => negb (snd e =? 0)) cr.

Lemma nonzero_app a b : nonzero (a ++ b) = nonzero a ++ nonzero b.
Proof. unfold nonzero. apply filter_app. Qed.

Section Refine.
Variable vs : env.
Variable asset : string.

Definition match_dist (m : res (list entry)) (rcv : list entry) (o : option (list (string * Z))) : Prop :=
  match o with
  | Some cr => m = Ok (rcv ++ nonzero cr)
  | None => m = Err InvalidAllotmentSum
  end.

Fixpoint recv_inorder (rem : kod) (l : list (range * expr * kod)) (left : Z) (rcv : list entry) : res (list entry) :=
  match l with
  | [] => if left =? 0 then Ok rcv else receive_kod vs asset rem left rcv
  | (_, cap_e, k) :: l' =>
      cap <- eval_as vs cap_e (expect_monetary_of_asset asset) ;;
      if left =? 0 then Ok rcv
      else
        let amt := Z.min cap left in
        let amt := if amt <? 0 then 0 else amt in
        if amt =? 0 then recv_inorder rem l' left rcv
        else rcv' <- receive_kod vs asset k amt rcv ;; recv_inorder rem l' (left - amt) rcv'
  end.

Fixpoint recv_allot (l : list (range * allot * kod)) (parts : list Z) (rcv : list entry) : res (list entry) :=
  match l, parts with
  | [], _ => Ok rcv
  | (_, _, k) :: l', p :: parts' => rcv' <- receive_kod vs asset k p rcv ;; recv_allot l' parts' rcv'
  | _ :: _, [] => Panic "receiveFrom: index out of range"
  end.

Lemma receive_inorder_nil r rem n rcv :
  receive_from vs asset (DInorder r [] rem) n rcv = if n =? 0 then Ok rcv else receive_kod vs asset rem n rcv.
Proof. reflexivity. Qed.

Lemma receive_inorder_cons r r0 ce k l rem n rcv :
  receive_from vs asset (DInorder r ((r0, ce, k) :: l) rem) n rcv =
  (cap <- eval_as vs ce (expect_monetary_of_asset asset) ;;
   if n =? 0 then Ok rcv
   else
     let amt := Z.min cap n in
     let amt := if amt <? 0 then 0 else amt in
     if amt =? 0 then receive_from vs asset (DInorder r l rem) n rcv
     else rcv' <- receive_kod vs asset k amt rcv ;; receive_from vs asset (DInorder r l rem) (n - amt) rcv').
Proof. reflexivity. Qed.

Lemma recv_inorder_eq r cl rem n rcv : receive_from vs asset (DInorder r cl rem) n rcv = recv_inorder rem cl n rcv.
Proof.
  revert n rcv. induction cl as [|[[r0 ce] k] l IH]; intros n rcv.
  - apply receive_inorder_nil.
  - rewrite receive_inorder_cons. cbn [recv_inorder].
    destruct (eval_as vs ce (expect_monetary_of_asset asset)) as [cap| |]; cbn [bind]; try reflexivity.
    destruct (n =? 0); [reflexivity|]. cbv zeta. destruct (_ =? 0); [apply IH|].
    destruct (receive_kod vs asset k _ rcv); cbn [bind]; try reflexivity. apply IH.
Qed.

Lemma receive_allot_step l parts rcv :
  (fix go (l : list (range * allot * kod)) (parts : list Z) (rcv : list entry) : res (list entry) :=
     match l, parts with
     | [], _ => Ok rcv
     | (_, _, k) :: l', p :: parts' => rcv' <- receive_kod vs asset k p rcv ;; go l' parts' rcv'
     | _ :: _, [] => Panic "receiveFrom: index out of range"
     end) l parts rcv = recv_allot l parts rcv.
Proof.
  revert parts rcv. induction l as [|[[r1 a1] k1] l IH]; intros parts rcv; cbn [recv_allot]; [reflexivity|].
  destruct parts as [|p parts]; [reflexivity|].
  destruct (receive_kod vs asset k1 p rcv); cbn [bind]; try reflexivity; try apply IH.
Qed.

Lemma recv_allot_eq r items n rcv :
  receive_from vs asset (DAllot r items) n rcv =
  (parts <- make_allotment vs n (map (fun it => snd (fst it)) items) ;; recv_allot items parts rcv).
Proof.
  change (receive_from vs asset (DAllot r items) n rcv) with
    (parts <- make_allotment vs n (map (fun it => snd (fst it)) items) ;;
     (fix go (l : list (range * allot * kod)) (parts : list Z) (rcv : list entry) : res (list entry) :=
        match l, parts with
        | [], _ => Ok rcv
        | (_, _, k) :: l', p :: parts' => rcv' <- receive_kod vs asset k p rcv ;; go l' parts' rcv'
        | _ :: _, [] => Panic "receiveFrom: index out of range"
        end) items parts rcv).
  destruct (make_allotment vs n _) as [parts| |]; cbn [bind]; try reflexivity.
Qed.

Lemma push_receiver_nonzero a n rcv : push_receiver a n rcv = rcv ++ nonzero [(a, n)].
Proof. unfold push_receiver, nonzero. cbn [filter snd]. destruct (n =? 0); cbn [negb]; [now rewrite app_nil_r|reflexivity]. Qed.

Theorem receive_refines :
  (forall d ed n rcv, eval_edest vs asset d = Some ed -> match_dist (receive_from vs asset d n rcv) rcv (distribute ed n)) /\
  (forall k ek n rcv, eval_ekod vs asset k = Some ek -> match_dist (receive_kod vs asset k n rcv) rcv (distribute_kod ek n)).
Proof.
  apply (dest_kod_ind
    (fun d => forall ed n rcv, eval_edest vs asset d = Some ed -> match_dist (receive_from vs asset d n rcv) rcv (distribute ed n))
    (fun k => forall ek n rcv, eval_ekod vs asset k = Some ek -> match_dist (receive_kod vs asset k n rcv) rcv (distribute_kod ek n))).
  - intros ed n rcv H. discriminate.
  - intros e ed n rcv H. cbn [eval_edest] in H.
    destruct (ok_opt (eval_as vs e expect_account)) as [a|] eqn:Ea; [|discriminate]. injection H as <-.
    apply ok_opt_some in Ea. cbn [receive_from distribute match_dist]. rewrite Ea. cbn [bind].
    rewrite push_receiver_nonzero. reflexivity.
  - (* in-order *)
    intros r cl rem Hcl Hrem ed n rcv H. rewrite eval_edest_inorder_eq in H.
    destruct (eval_edest_clauses vs asset cl) as [ecl|] eqn:Ecl; [|discriminate].
    destruct (eval_ekod vs asset rem) as [erem|] eqn:Erem; [|discriminate]. injection H as <-.
    rewrite recv_inorder_eq, dist_inorder_eq.
    revert ecl Ecl n rcv. induction cl as [|[[r0 ce] k] l IH]; intros ecl Ecl n rcv.
    + injection Ecl as <-. cbn [recv_inorder dist_inorder].
      destruct (n =? 0); [cbn; now rewrite app_nil_r|]. apply Hrem. reflexivity.
    + inversion Hcl as [|? ? Hk Hcl']; subst. cbn [snd] in Hk. cbn [eval_edest_clauses] in Ecl.
      destruct (ok_opt (eval_as vs ce (expect_monetary_of_asset asset))) as [cap|] eqn:Ec; [|discriminate].
      destruct (eval_ekod vs asset k) as [ek|] eqn:Ek; [|discriminate].
      destruct (eval_edest_clauses vs asset l) as [el|] eqn:El; [|discriminate]. injection Ecl as <-.
      apply ok_opt_some in Ec. cbn [recv_inorder dist_inorder]. rewrite Ec. cbn [bind]. cbv zeta.
      replace (if Z.min cap n <? 0 then 0 else Z.min cap n) with (Z.max 0 (Z.min cap n))
        by (destruct (Z.min cap n <? 0) eqn:E; lia).
      destruct (n =? 0) eqn:En.
      * (* nothing left: the model stops; the spec skips every remaining clause *)
        assert (n = 0) by lia. subst n.
        replace (Z.max 0 (Z.min cap 0) =? 0) with true by lia.
        clear -El. revert el El. induction l as [|[[r1 ce1] k1] l IH]; intros el El.
        -- injection El as <-. cbn. now rewrite app_nil_r.
        -- cbn [eval_edest_clauses] in El.
           destruct (ok_opt (eval_as vs ce1 (expect_monetary_of_asset asset))) as [cap1|]; [|discriminate].
           destruct (eval_ekod vs asset k1) as [ek1|]; [|discriminate].
           destruct (eval_edest_clauses vs asset l) as [el'|]; [|discriminate]. injection El as <-.
           cbn [dist_inorder]. cbv zeta. replace (Z.max 0 (Z.min cap1 0) =? 0) with true by lia. apply (IH el' eq_refl).
      * destruct (Z.max 0 (Z.min cap n) =? 0) eqn:Ea; [apply (IH Hcl' el eq_refl)|].
        specialize (Hk ek (Z.max 0 (Z.min cap n)) rcv eq_refl).
        destruct (distribute_kod ek (Z.max 0 (Z.min cap n))) as [x|]; cbn [match_dist] in Hk; rewrite Hk; cbn [bind]; [|reflexivity].
        specialize (IH Hcl' el eq_refl (n - Z.max 0 (Z.min cap n)) (rcv ++ nonzero x)).
        destruct (dist_inorder erem el (n - Z.max 0 (Z.min cap n))) as [y|]; cbn [match_dist] in *; rewrite IH; [|reflexivity].
        rewrite nonzero_app, app_assoc. reflexivity.
  - (* allotment *)
    intros r items Hit ed n rcv H. rewrite eval_edest_allot_eq in H.
    destruct (eval_edest_items vs asset items) as [eitems|] eqn:El; [|discriminate]. injection H as <-.
    rewrite recv_allot_eq, dist_allot_eq.
    assert (Hcl : Forall2 (fun a c => clause_of vs a = Some c) (map (fun it : range * allot * kod => snd (fst it)) items) (map fst eitems)
                  /\ Forall2 (fun (it : range * allot * kod) (ei : clause * ekod) => eval_ekod vs asset (snd it) = Some (snd ei)) items eitems).
    { clear -El. revert eitems El. induction items as [|[[r0 a] k] l IH]; intros eitems El.
      - injection El as <-. split; constructor.
      - cbn [eval_edest_items] in El.
        destruct (clause_of vs a) as [c|] eqn:Ec; [|discriminate].
        destruct (eval_ekod vs asset k) as [e1|] eqn:E1; [|discriminate].
        destruct (eval_edest_items vs asset l) as [el'|] eqn:El'; [|discriminate].
        injection El as <-. destruct (IH el' eq_refl) as [H1 H2]. split; constructor; cbn; assumption. }
    destruct Hcl as [Hcl Hsub].
    destruct (eval_allots_clauses vs _ _ Hcl) as [aps [Hea [Hm Hlen]]].
    rewrite (make_allotment_spec vs n _ aps Hea Hlen), Hm.
    destruct (denoted_portions (map fst eitems)) as [ps|] eqn:Edp; cbn [bind match_dist]; [|reflexivity].
    assert (Hlsh : List.length (spec_shares n ps) = List.length items).
    { rewrite spec_shares_length. destruct (denoted_portions_sum _ _ Edp) as [_ Hl2]. rewrite map_length in Hl2.
      rewrite Hl2. symmetry. eapply Forall2_len. exact Hsub. }
    revert Hlsh. generalize (spec_shares n ps) as shares. clear Hcl Hea Hm Hlen aps El Edp.
    revert rcv. induction Hsub as [|[[r0 a] k] [c ek] items eitems Hk Hsub IH']; intros rcv shares Hlsh.
    + cbn. now rewrite app_nil_r.
    + inversion Hit as [|? ? Hx Hit']; subst. cbn [snd] in Hx, Hk.
      cbn [recv_allot dist_allot]. destruct shares as [|sh shares]; [discriminate|]. cbn [List.length] in Hlsh.
      specialize (Hx ek sh rcv Hk). destruct (distribute_kod ek sh) as [x|]; cbn [match_dist] in Hx; rewrite Hx; cbn [bind]; [|reflexivity].
      specialize (IH' Hit' (rcv ++ nonzero x) shares ltac:(lia)).
      destruct (dist_allot eitems shares) as [y|]; cbn [match_dist] in *; rewrite IH'; [|reflexivity].
      rewrite nonzero_app, app_assoc. reflexivity.
  - intros ek n rcv H. discriminate.
  - intros r ek n rcv H. injection H as <-. cbn [receive_kod distribute_kod match_dist]. rewrite push_receiver_nonzero. reflexivity.
  - intros d IH ek n rcv H. cbn [eval_ekod] in H. destruct (eval_edest vs asset d) as [ed|] eqn:Ed; [|discriminate].
    injection H as <-. cbn [receive_kod distribute_kod]. apply IH. reflexivity.
Qed.
End Refine.
