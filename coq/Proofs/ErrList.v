(* The error values of the interpreter model, one representative per constructor: needs nothing from
   the regenerated tables, so that the judges still run when a table obligation fails. *)
From NS Require Import Run.

(* one representative per error constructor, in the alphabetical order of the Go type names *)
Definition all_errs : list err :=
  [ BadArityErr 0 0; BadPortionParsingErr; ExperimentalFeature; InvalidAccountName "";
    InvalidAllotmentInSendAll; InvalidAllotmentSum; InvalidMonetaryLiteral; InvalidNumberLiteral;
    InvalidTypeErr ""; InvalidUnboundedInSendAll ""; MetadataNotFound; MismatchedCurrencyError "" "";
    MissingFundsErr "" 0 0; MissingVariableErr ""; NegativeAmountErr 0; NegativeBalanceError;
    QueryBalanceError ""; QueryMetadataError ""; TypeError ""; UnboundFunctionErr ""; UnboundVariableErr "" ].

Lemma all_errs_exhaustive : forall e, In (err_name e) (map err_name all_errs).
Proof. intros e; destruct e; cbn; tauto. Qed.

