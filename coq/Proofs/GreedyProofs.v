(* C04 / C03 / C01: laws of the left-to-right greedy draw (Spec/Greedy.v), on evaluated trees. *)
From Coq Require Import Lia Lqa Qround ZifyBool.
From NS Require Import Base Shares Greedy AllotProofs.

Section EsrcInd.
  Variable P : esrc -> Prop.
  Hypothesis HAccount : forall a od, P (ESAccount a od).
  Hypothesis HInorder : forall l, Forall P l -> P (ESInorder l).
  Hypothesis HAllot : forall items, Forall (fun it : clause * esrc => P (snd it)) items -> P (ESAllot items).
  Hypothesis HCapped : forall c s, P s -> P (ESCapped c s).
  Fixpoint esrc_ind' (s : esrc) : P s :=
    match s with
    | ESAccount a od => HAccount a od
    | ESInorder l => HInorder l ((fix go (l : list esrc) : Forall P l :=
        match l with [] => Forall_nil P | x :: l' => Forall_cons x (esrc_ind' x) (go l') end) l)
    | ESAllot items => HAllot items ((fix go (l : list (clause * esrc)) : Forall (fun it => P (snd it)) l :=
        match l with [] => Forall_nil _ | it :: l' => Forall_cons it (esrc_ind' (snd it)) (go l') end) items)
    | ESCapped c s => HCapped c s (esrc_ind' s)
    end.
End EsrcInd.

(* ---- leaves ---- *)
Fixpoint leaves (s : esrc) : list (string * option Z) :=
  match s with
  | ESAccount a od => [(a, od)]
  | ESInorder l => flat_map leaves l
  | ESAllot items => flat_map (fun it : clause * esrc => leaves (snd it)) items
  | ESCapped _ s' => leaves s'
  end.

(* every explicit portion of every allotment is non-negative *)
Fixpoint wf_esrc (s : esrc) : Prop :=
  match s with
  | ESAccount _ _ => True
  | ESInorder l => (fix go (l : list esrc) : Prop := match l with [] => True | x :: l' => wf_esrc x /\ go l' end) l
  | ESAllot items =>
      (fix go (l : list (clause * esrc)) : Prop :=
         match l with
         | [] => True
         | (c, x) :: l' => (match c with Some p => (0 <= p)%Q | None => True end) /\ wf_esrc x /\ go l'
         end) items
  | ESCapped _ s' => wf_esrc s'
  end.

Lemma zsum_app l1 l2 : zsum (l1 ++ l2) = zsum l1 + zsum l2.
Proof. unfold zsum. induction l1 as [|x l1 IH]; cbn [app fold_right]; lia. Qed.

Lemma pulled_of_app p q a : pulled_of (p ++ q) a = pulled_of p a + pulled_of q a.
Proof. unfold pulled_of. rewrite map_app. apply zsum_app. Qed.

Lemma pulled_of_single a g b : pulled_of [(a, g)] b = if String.eqb a b then g else 0.
Proof. unfold pulled_of. cbn. destruct (String.eqb a b); lia. Qed.

(* ---- non-negative shares ---- *)
Lemma floor_share_nonneg n p : 0 <= n -> (0 <= p)%Q -> 0 <= floor_share n p.
Proof.
  intros Hn Hp. unfold floor_share.
  assert (H : (0 <= p * inject_Z n)%Q).
  { apply Qmult_le_0_compat; [exact Hp|]. change 0%Q with (inject_Z 0). rewrite <- Zle_Qle. exact Hn. }
  apply Qfloor_resp_le in H. cbn in H. exact H.
Qed.

Lemma spec_share_nonneg n ps i : 0 <= n -> Forall (fun p => (0 <= p)%Q) ps -> 0 <= spec_share n ps i.
Proof.
  intros Hn Hps. unfold spec_share.
  assert (0 <= floor_share n (nth i ps 0%Q)).
  { apply floor_share_nonneg; [exact Hn|].
    destruct (Nat.ltb_spec i (List.length ps)) as [Hi|Hi].
    - rewrite Forall_forall in Hps. apply Hps, nth_In, Hi.
    - rewrite nth_overflow by lia. lra. }
  destruct (_ && _)%bool; lia.
Qed.

Lemma spec_shares_nonneg n ps : 0 <= n -> Forall (fun p => (0 <= p)%Q) ps -> Forall (fun x => 0 <= x) (spec_shares n ps).
Proof.
  intros Hn Hps. unfold spec_shares. apply Forall_forall. intros x Hx.
  apply in_map_iff in Hx. destruct Hx as [i [<- _]]. apply spec_share_nonneg; assumption.
Qed.

(* the portions denoted by an accepted clause list whose explicit portions are non-negative *)
Lemma resolve_nonneg cs rem :
  (0 <= rem)%Q -> Forall (fun c : clause => match c with Some p => (0 <= p)%Q | None => True end) cs ->
  Forall (fun p => (0 <= p)%Q) (resolve_clauses cs rem has_remaining).
Proof.
  intros Hr H. induction H as [|c cs Hc H IH]; cbn [resolve_clauses]; [constructor|].
  destruct c as [p|]; constructor; try assumption.
  destruct (has_remaining cs); [lra|assumption].
Qed.

Lemma denoted_nonneg cs ps :
  Forall (fun c : clause => match c with Some p => (0 <= p)%Q | None => True end) cs ->
  denoted_portions cs = Some ps -> Forall (fun p => (0 <= p)%Q) ps.
Proof.
  intros H. unfold denoted_portions. destruct (has_remaining cs).
  - destruct (Qle_bool (explicit_total cs) 1) eqn:E; [|discriminate]. intros [= <-].
    apply resolve_nonneg; [|exact H]. apply Qle_bool_iff in E. lra.
  - destruct (Qeq_bool (explicit_total cs) 1); [|discriminate]. intros [= <-].
    apply resolve_nonneg; [lra|exact H].
Qed.

Section Laws.
Variable bal : string -> Z.

(* C04: an account gives min(what is still needed, its balance plus granted overdraft less what
   it already gave), never a negative amount; an unbounded account gives everything needed *)
Lemma leaf_gives_bounded a od need p :
  leaf_gives bal a (Some od) need p = Z.min need (Z.max 0 (bal a + od - pulled_of p a)).
Proof. reflexivity. Qed.
Lemma leaf_gives_unbounded a need p : leaf_gives bal a None need p = need.
Proof. reflexivity. Qed.

Lemma leaf_gives_range a od need p : 0 <= need -> 0 <= leaf_gives bal a od need p <= need.
Proof. intros H. destruct od as [od|]; cbn [leaf_gives]; lia. Qed.

(* what a draw appends to the pulled list *)
Definition extends (p p' : pulled) (g : Z) : Prop :=
  exists q, p' = p ++ q /\ Forall (fun e : string * Z => 0 < snd e) q /\ zsum (map snd q) = g.

Lemma extends_refl p : extends p p 0.
Proof. exists []. rewrite app_nil_r. repeat split; constructor. Qed.

Lemma extends_trans p p' p'' g g' : extends p p' g -> extends p' p'' g' -> extends p p'' (g + g').
Proof.
  intros [q [-> [Hq Hs]]] [q' [-> [Hq' Hs']]]. exists (q ++ q'). rewrite app_assoc. repeat split.
  - apply Forall_app; split; assumption.
  - rewrite map_app, zsum_app. lia.
Qed.

(* bounded-account law: after the draw, an account all of whose leaves are bounded by M has
   given at most max(what it had given before, balance + M) *)
Definition bounded_by (s : esrc) (a : string) (M : Z) : Prop :=
  forall od, In (a, od) (leaves s) -> exists k, od = Some k /\ k <= M.

Definition draw_post (s : esrc) (need : Z) (p : pulled) (g : Z) (p' : pulled) : Prop :=
  0 <= g <= need /\ extends p p' g /\
  (forall a M, bounded_by s a M -> pulled_of p' a <= Z.max (pulled_of p a) (bal a + M)) /\
  (forall a, (forall od, ~ In (a, od) (leaves s)) -> pulled_of p' a = pulled_of p a).

Lemma draw_leaf a od need p :
  0 <= need ->
  let g := leaf_gives bal a od need p in
  draw_post (ESAccount a od) need p g (if g =? 0 then p else p ++ [(a, g)]).
Proof.
  intros Hn g. pose proof (leaf_gives_range a od need p Hn) as Hg. fold g in Hg.
  unfold draw_post. split; [exact Hg|]. split; [|split].
  - destruct (g =? 0) eqn:E.
    + assert (g = 0) by lia. replace g with 0 by lia. apply extends_refl.
    + exists [(a, g)]. repeat split; [constructor; [cbn; lia|constructor]|cbn; lia].
  - intros b M Hb. destruct (g =? 0) eqn:E; [lia|].
    rewrite pulled_of_app, pulled_of_single. destruct (String.eqb a b) eqn:Eab; [|lia].
    apply String.eqb_eq in Eab. subst b.
    destruct (Hb od (or_introl eq_refl)) as [k [-> Hk]].
    unfold g. cbn [leaf_gives]. lia.
  - intros b Hb. destruct (g =? 0); [reflexivity|].
    rewrite pulled_of_app, pulled_of_single. destruct (String.eqb a b) eqn:Eab; [|lia].
    apply String.eqb_eq in Eab. subst b. exfalso. apply (Hb od). left. reflexivity.
Qed.

Lemma bounded_by_inorder_hd x l a M : bounded_by (ESInorder (x :: l)) a M -> bounded_by x a M /\ bounded_by (ESInorder l) a M.
Proof.
  intros H. split; intros od Hin; apply H; cbn [leaves flat_map]; apply in_or_app; [left|right]; exact Hin.
Qed.

Lemma bounded_by_allot_hd c x l a M : bounded_by (ESAllot ((c, x) :: l)) a M -> bounded_by x a M /\ bounded_by (ESAllot l) a M.
Proof.
  intros H. split; intros od Hin; apply H; cbn [leaves flat_map snd]; apply in_or_app; [left|right]; exact Hin.
Qed.

(* the inner loops of [draw], as top-level functions (definitionally equal to the nested fixes) *)
Fixpoint draw_inorder (need : Z) (l : list esrc) (left : Z) (p : pulled) : draw_result :=
  match l with
  | [] => Drawn (need - left) p
  | s :: l' => match draw bal s left p with
               | Drawn g p' => draw_inorder need l' (left - g) p'
               | r => r
               end
  end.

Fixpoint draw_allot (need : Z) (l : list (clause * esrc)) (shares : list Z) (p : pulled) : draw_result :=
  match l, shares with
  | [], _ => Drawn need p
  | (_, s) :: l', sh :: shares' =>
      match draw bal s sh p with
      | Drawn g p' => if g =? sh then draw_allot need l' shares' p' else Short sh g
      | r => r
      end
  | _ :: _, [] => BadAllotment
  end.

Lemma draw_inorder_eq l need p : draw bal (ESInorder l) need p = draw_inorder need l need p.
Proof.
  cbn [draw]. generalize need at 2 4 as left. revert p.
  induction l as [|s l IH]; intros p left; cbn [draw_inorder]; [reflexivity|].
  destruct (draw bal s left p); try reflexivity. apply IH.
Qed.

Lemma draw_allot_eq items need p :
  draw bal (ESAllot items) need p =
  match denoted_portions (map fst items) with
  | None => BadAllotment
  | Some ps => draw_allot need items (spec_shares need ps) p
  end.
Proof.
  cbn [draw]. destruct (denoted_portions (map fst items)) as [ps|]; [|reflexivity].
  generalize (spec_shares need ps) as shares. revert p.
  induction items as [|[c s] l IH]; intros p shares; cbn [draw_allot]; [reflexivity|].
  destruct shares as [|sh shares]; [reflexivity|].
  destruct (draw bal s sh p); try reflexivity. destruct (_ =? _); [apply IH|reflexivity].
Qed.

Theorem draw_bounds : forall s need p g p',
  wf_esrc s -> 0 <= need -> draw bal s need p = Drawn g p' -> draw_post s need p g p'.
Proof.
  induction s as [a od|l IHl|items IHi|c s IH] using esrc_ind'; intros need p g p' Hwf Hn Hd.
  - cbn [draw] in Hd. injection Hd as <- <-. apply draw_leaf. exact Hn.
  - rewrite draw_inorder_eq in Hd.
    (* generalised over the amount still needed *)
    assert (G : forall left p0, 0 <= left <= need -> draw_inorder need l left p0 = Drawn g p' ->
                need - left <= g <= need /\ extends p0 p' (g - (need - left)) /\
                (forall a M, bounded_by (ESInorder l) a M -> pulled_of p' a <= Z.max (pulled_of p0 a) (bal a + M)) /\
                (forall a, (forall od, ~ In (a, od) (leaves (ESInorder l))) -> pulled_of p' a = pulled_of p0 a)).
    { clear Hd p. induction l as [|x l IHl']; intros left p0 Hl Hd; cbn [draw_inorder] in Hd.
      - injection Hd as <- <-. split; [lia|]. split; [replace (need - left - (need - left)) with 0 by lia; apply extends_refl|].
        split; intros; [lia|reflexivity].
      - inversion IHl as [|? ? Hx IHl'']; subst. cbn in Hwf. destruct Hwf as [Hwx Hwl].
        destruct (draw bal x left p0) as [gx px| |] eqn:Ex; try discriminate.
        destruct (Hx left p0 gx px Hwx ltac:(lia) Ex) as [Hgx [Hex [Hbx Hnx]]].
        destruct (IHl' IHl'' Hwl (left - gx) px ltac:(lia) Hd) as [Hg [Hext [Hb Hno]]].
        split; [lia|]. split; [|split].
        + replace (g - (need - left)) with (gx + (g - (need - (left - gx)))) by lia.
          eapply extends_trans; eassumption.
        + intros a M Hbd. apply bounded_by_inorder_hd in Hbd. destruct Hbd as [Hb1 Hb2].
          specialize (Hbx a M Hb1). specialize (Hb a M Hb2). lia.
        + intros a Hna. rewrite Hno, Hnx; [reflexivity| |].
          * intros od Hin. apply (Hna od). cbn [leaves flat_map]. apply in_or_app. left. exact Hin.
          * intros od Hin. apply (Hna od). cbn [leaves flat_map]. apply in_or_app. right. exact Hin. }
    destruct (G need p ltac:(lia) Hd) as [Hg [Hext [Hb Hno]]].
    unfold draw_post. replace (g - (need - need)) with g in Hext by lia. repeat split; try lia; assumption.
  - rewrite draw_allot_eq in Hd.
    destruct (denoted_portions (map fst items)) as [ps|] eqn:Ed; [|discriminate].
    assert (Hcl : Forall (fun c : clause => match c with Some p => (0 <= p)%Q | None => True end) (map fst items)).
    { clear -Hwf. induction items as [|[c x] l IH]; cbn [map fst]; constructor.
      - cbn in Hwf. tauto.
      - apply IH. cbn in Hwf. tauto. }
    pose proof (spec_shares_nonneg need ps Hn (denoted_nonneg _ _ Hcl Ed)) as Hsh.
    assert (G : forall shares p0, Forall (fun x => 0 <= x) shares -> List.length shares = List.length items ->
                draw_allot need items shares p0 = Drawn g p' ->
                g = need /\ extends p0 p' (zsum shares) /\
                (forall a M, bounded_by (ESAllot items) a M -> pulled_of p' a <= Z.max (pulled_of p0 a) (bal a + M)) /\
                (forall a, (forall od, ~ In (a, od) (leaves (ESAllot items))) -> pulled_of p' a = pulled_of p0 a)).
    { clear Hd Ed Hcl Hsh p ps. induction items as [|[c x] l IHl']; intros shares p0 Hsh Hlen Hd; cbn [draw_allot] in Hd.
      - injection Hd as <- <-. destruct shares; [|discriminate]. split; [reflexivity|]. split; [apply extends_refl|].
        split; intros; [lia|reflexivity].
      - destruct shares as [|sh shares]; [discriminate|].
        inversion Hsh as [|? ? Hsh0 Hsh']; subst.
        inversion IHi as [|? ? Hx IHi']; subst. cbn [snd] in Hx.
        cbn in Hwf. destruct Hwf as [_ [Hwx Hwl]].
        destruct (draw bal x sh p0) as [gx px| |] eqn:Ex; try discriminate.
        destruct (gx =? sh) eqn:Egs; [|discriminate].
        destruct (Hx sh p0 gx px Hwx Hsh0 Ex) as [Hgx [Hex [Hbx Hnx]]].
        cbn [List.length] in Hlen.
        destruct (IHl' IHi' Hwl shares px Hsh' ltac:(lia) Hd) as [Hg [Hext [Hb Hno]]].
        split; [exact Hg|]. split; [|split].
        + change (zsum (sh :: shares)) with (sh + zsum shares). replace sh with gx by lia.
          eapply extends_trans; eassumption.
        + intros a M Hbd. apply bounded_by_allot_hd in Hbd. destruct Hbd as [Hb1 Hb2].
          specialize (Hbx a M Hb1). specialize (Hb a M Hb2). lia.
        + intros a Hna. rewrite Hno, Hnx; [reflexivity| |].
          * intros od Hin. apply (Hna od). cbn [leaves flat_map snd]. apply in_or_app. left. exact Hin.
          * intros od Hin. apply (Hna od). cbn [leaves flat_map snd]. apply in_or_app. right. exact Hin. }
    destruct (denoted_portions_sum _ _ Ed) as [Hsum Hlen]. rewrite map_length in Hlen.
    assert (Hps : ps <> []).
    { intros ->. destruct items; [cbn in Ed; discriminate|cbn in Hlen; discriminate]. }
    destruct (spec_shares_exact need ps Hn Hps Hsum) as [Hz _].
    destruct (G _ p Hsh ltac:(rewrite spec_shares_length; exact Hlen) Hd) as [Hg [Hext [Hb Hno]]]. subst g.
    rewrite Hz in Hext.
    unfold draw_post. split; [lia|]. split; [exact Hext|]. split; assumption.
  - cbn [draw] in Hd. cbn in Hwf.
    destruct (IH (Z.max 0 (Z.min need c)) p g p' Hwf ltac:(lia) Hd) as [Hg [Hext [Hb Hno]]].
    unfold draw_post. split; [lia|]. split; [exact Hext|]. split; [exact Hb|exact Hno].
Qed.
End Laws.

(* ---- further laws of the greedy draw (C04) ---- *)
Section MoreLaws.
Variable bal : string -> Z.

Definition shift_drawn (k : Z) (r : draw_result) : draw_result :=
  match r with Drawn g p => Drawn (k + g) p | r => r end.

Lemma draw_inorder_shift need l left p :
  draw_inorder bal need l left p = shift_drawn (need - left) (draw_inorder bal left l left p).
Proof.
  revert need left p. induction l as [|s l IH]; intros need left p; cbn [draw_inorder shift_drawn].
  - f_equal. lia.
  - destruct (draw bal s left p) as [g p'| |]; cbn [shift_drawn]; try reflexivity.
    rewrite (IH need (left - g) p'), (IH left (left - g) p').
    destruct (draw_inorder bal (left - g) l (left - g) p'); cbn [shift_drawn]; try reflexivity. f_equal. lia.
Qed.

(* in-order: a later source is asked only for what the earlier ones could not give *)
Theorem inorder_sequential s l need p :
  draw bal (ESInorder (s :: l)) need p =
  match draw bal s need p with
  | Drawn g p' => shift_drawn g (draw bal (ESInorder l) (need - g) p')
  | r => r
  end.
Proof.
  rewrite draw_inorder_eq. cbn [draw_inorder]. destruct (draw bal s need p) as [g p'| |]; try reflexivity.
  rewrite draw_inorder_shift, draw_inorder_eq. f_equal. lia.
Qed.

Theorem inorder_empty need p : draw bal (ESInorder []) need p = Drawn 0 p.
Proof. cbn. f_equal. lia. Qed.

(* a cap is a minimum, a negative cap counts as zero *)
Theorem cap_is_min c s need p : draw bal (ESCapped c s) need p = draw bal s (Z.max 0 (Z.min need c)) p.
Proof. reflexivity. Qed.

Lemma extends_zero p p' : extends p p' 0 -> p' = p.
Proof.
  intros [q [-> [Hq Hs]]]. destruct q as [|e q]; [now rewrite app_nil_r|].
  exfalso. inversion Hq as [|? ? He Hq']; subst.
  assert (0 <= zsum (map snd q)).
  { clear -Hq'. induction Hq' as [|x l Hx H IH]; [cbn; lia|]. cbn [map]. rewrite zsum_cons. lia. }
  cbn [map] in Hs. rewrite zsum_cons in Hs. lia.
Qed.

(* once the need is satisfied, later sources are untouched *)
Theorem nothing_needed_nothing_taken s p g p' : wf_esrc s -> draw bal s 0 p = Drawn g p' -> g = 0 /\ p' = p.
Proof.
  intros Hwf H. destruct (draw_bounds bal s 0 p g p' Hwf ltac:(lia) H) as [Hg [Hext _]].
  assert (g = 0) by lia. subst g. split; [reflexivity|apply (extends_zero _ _ Hext)].
Qed.

(* send-all: a bounded account is drained to exactly its limit (balance + overdraft, less what it
   already gave), unbounded accounts and allotments are rejected, a cap turns the rest into an
   ordinary draw of at most the cap *)
Theorem drain_account a od p :
  drain bal (ESAccount a (Some od)) p =
  let g := Z.max 0 (bal a + od - pulled_of p a) in Drained g (if g =? 0 then p else p ++ [(a, g)]).
Proof. reflexivity. Qed.
Theorem drain_rejects_unbounded a p : drain bal (ESAccount a None) p = Rejected.
Proof. reflexivity. Qed.
Theorem drain_rejects_allotment items p : drain bal (ESAllot items) p = Rejected.
Proof. reflexivity. Qed.
Theorem drain_capped c s p :
  drain bal (ESCapped c s) p =
  match draw bal s (Z.max 0 c) p with
  | Drawn g p' => Drained g p'
  | Short a b => DrainShort a b
  | BadAllotment => DrainBadAllotment
  end.
Proof. reflexivity. Qed.

Fixpoint drain_inorder' (l : list esrc) (tot : Z) (p : pulled) : drain_result :=
  match l with
  | [] => Drained tot p
  | s :: l' => match drain bal s p with
               | Drained g p' => drain_inorder' l' (tot + g) p'
               | r => r
               end
  end.

Lemma drain_inorder_eq' l p : drain bal (ESInorder l) p = drain_inorder' l 0 p.
Proof.
  cbn [drain]. generalize 0 as tot. revert p.
  induction l as [|s l IH]; intros p tot; cbn [drain_inorder']; [reflexivity|].
  destruct (drain bal s p); try reflexivity; try apply IH.
Qed.

Theorem drain_bounds : forall s p g p',
  wf_esrc s -> drain bal s p = Drained g p' -> 0 <= g /\ extends p p' g /\
  (forall a M, bounded_by s a M -> pulled_of p' a <= Z.max (pulled_of p a) (bal a + M)).
Proof.
  induction s as [a od|l IHl|items IHi|c s IH] using esrc_ind'; intros p g p' Hwf Hd.
  - destruct od as [od|]; [|discriminate]. rewrite drain_account in Hd. cbv zeta in Hd. injection Hd as <- <-.
    set (g := Z.max 0 (bal a + od - pulled_of p a)). split; [lia|]. split.
    + destruct (g =? 0) eqn:E; [replace g with 0 by lia; apply extends_refl|].
      exists [(a, g)]. repeat split; [constructor; [cbn; lia|constructor]|cbn; lia].
    + intros b M Hb. destruct (g =? 0) eqn:E; [lia|].
      rewrite pulled_of_app, pulled_of_single. destruct (String.eqb a b) eqn:Eab; [|lia].
      apply String.eqb_eq in Eab. subst b. destruct (Hb (Some od) (or_introl eq_refl)) as [k [[= <-] Hk]]. lia.
  - rewrite drain_inorder_eq' in Hd.
    assert (G : forall tot p0, 0 <= tot -> drain_inorder' l tot p0 = Drained g p' ->
              tot <= g /\ extends p0 p' (g - tot) /\
              (forall a M, bounded_by (ESInorder l) a M -> pulled_of p' a <= Z.max (pulled_of p0 a) (bal a + M))).
    { clear Hd p. induction l as [|x l IHl']; intros tot p0 Ht Hd; cbn [drain_inorder'] in Hd.
      - injection Hd as <- <-. split; [lia|]. split; [replace (tot - tot) with 0 by lia; apply extends_refl|]. intros; lia.
      - inversion IHl as [|? ? Hx IHl'']; subst. cbn in Hwf. destruct Hwf as [Hwx Hwl].
        destruct (drain bal x p0) as [gx px| | |] eqn:Ex; try discriminate.
        destruct (Hx p0 gx px Hwx Ex) as [Hgx [Hex Hbx]].
        destruct (IHl' IHl'' Hwl (tot + gx) px ltac:(lia) Hd) as [Hg [Hext Hb]].
        split; [lia|]. split.
        + replace (g - tot) with (gx + (g - (tot + gx))) by lia. eapply extends_trans; eassumption.
        + intros a M Hbd. apply bounded_by_inorder_hd in Hbd. destruct Hbd as [Hb1 Hb2].
          specialize (Hbx a M Hb1). specialize (Hb a M Hb2). lia. }
    destruct (G 0 p ltac:(lia) Hd) as [Hg [Hext Hb]]. replace (g - 0) with g in Hext by lia. repeat split; assumption.
  - discriminate.
  - rewrite drain_capped in Hd. cbn in Hwf.
    destruct (draw bal s (Z.max 0 c) p) as [g0 p0| |] eqn:Ed; try discriminate. injection Hd as <- <-.
    destruct (draw_bounds bal s (Z.max 0 c) p g0 p0 Hwf ltac:(lia) Ed) as [Hg [Hext [Hb _]]].
    split; [lia|]. split; [exact Hext|exact Hb].
Qed.
End MoreLaws.
