(* Balances (association lists) and ledgers (functions): lookup/update lemmas, replay of postings,
   and the invariant "the interpreter's cache never exceeds the ledger". *)
From Coq Require Import Lia ZifyBool.
From NS Require Import Base Stmt Ledger AllotProofs GreedyProofs.

Lemma cell_eqb_refl k : cell_eqb k k = true.
Proof. unfold cell_eqb. now rewrite !String.eqb_refl. Qed.

Lemma cell_eqb_eq k k' : cell_eqb k k' = true <-> k = k'.
Proof.
  unfold cell_eqb. destruct k as [a x], k' as [a' x']. cbn [fst snd]. split.
  - intros H. apply andb_prop in H. destruct H as [H1 H2]. apply String.eqb_eq in H1, H2. congruence.
  - intros [= -> ->]. now rewrite !String.eqb_refl.
Qed.

Lemma bfind_bset k v c k' : bfind k' (bset k v c) = if cell_eqb k' k then Some v else bfind k' c.
Proof.
  induction c as [|[k0 v0] c IH]; cbn [bset bfind].
  - destruct (cell_eqb k' k); reflexivity.
  - destruct (cell_eqb k k0) eqn:E.
    + apply cell_eqb_eq in E. subst k0. cbn [bfind]. destruct (cell_eqb k' k); reflexivity.
    + cbn [bfind]. destruct (cell_eqb k' k0) eqn:E2.
      * apply cell_eqb_eq in E2. subst k0.
        destruct (cell_eqb k' k) eqn:E3; [|reflexivity].
        apply cell_eqb_eq in E3. subst k'. rewrite cell_eqb_refl in E. discriminate.
      * exact IH.
Qed.

Lemma bget_bset a x v c a' x' :
  bget (bset (a, x) v c) a' x' = if (String.eqb a' a && String.eqb x' x)%bool then v else bget c a' x'.
Proof. unfold bget. rewrite bfind_bset. unfold cell_eqb. cbn [fst snd]. destruct (_ && _)%bool; reflexivity. Qed.

(* one posting applied to the cache: the same arithmetic as on the ledger *)
Lemma bget_apply_posting c p a x :
  bget (apply_posting c p) a x =
  bget c a x
  - (if (String.eqb a (psrc p) && String.eqb x (passet p))%bool then pamt p else 0)
  + (if (String.eqb a (pdst p) && String.eqb x (passet p))%bool then pamt p else 0).
Proof.
  unfold apply_posting. rewrite !bget_bset. rewrite (String.eqb_refl (passet p)), Bool.andb_true_r.
  destruct (String.eqb a (pdst p)) eqn:Ed; destruct (String.eqb a (psrc p)) eqn:Es;
    destruct (String.eqb x (passet p)) eqn:Ex; cbn [andb]; try lia.
  - (* a is both source and destination *)
    apply String.eqb_eq in Ed, Es. rewrite <- Ed, <- Es, String.eqb_refl.
    apply String.eqb_eq in Ex. subst x. lia.
  - (* a is the destination only *)
    apply String.eqb_eq in Ed, Ex. subst a x. rewrite Es. lia.
  - (* a is the source only *)
    apply String.eqb_eq in Es, Ex. subst a x. lia.
Qed.

Definition cache_le (c : balances) (L : ledger) : Prop := forall a x, bget c a x <= L a x.

Lemma cache_le_apply c L p : cache_le c L -> cache_le (apply_posting c p) (apply1 L p).
Proof. intros H a x. rewrite bget_apply_posting. unfold apply1. specialize (H a x). lia. Qed.

Lemma cache_le_apply_postings ps : forall c L, cache_le c L -> cache_le (apply_postings c ps) (replay L ps).
Proof.
  unfold apply_postings, replay. induction ps as [|p ps IH]; intros c L H; cbn [fold_left]; [exact H|].
  apply IH, cache_le_apply, H.
Qed.

Lemma cache_le_lower c L a x v : cache_le c L -> v <= bget c a x -> cache_le (bset (a, x) v c) L.
Proof.
  intros H Hv a' x'. rewrite bget_bset. destruct (String.eqb a' a && String.eqb x' x)%bool eqn:E; [|apply H].
  apply andb_prop in E. destruct E as [E1 E2]. apply String.eqb_eq in E1, E2. subst. specialize (H a x). lia.
Qed.

Lemma replay_app L ps qs : replay L (ps ++ qs) = replay (replay L ps) qs.
Proof. unfold replay. apply fold_left_app. Qed.

(* replay in terms of debits and credits *)
Lemma replay_debits_credits ps : forall L a x, replay L ps a x = L a x - debits ps a x + credits ps a x.
Proof.
  unfold replay, debits, credits. induction ps as [|p ps IH]; intros L a x; cbn [fold_left map].
  - cbn. lia.
  - rewrite IH. unfold apply1. rewrite !zsum_cons.
    rewrite (String.eqb_sym (psrc p) a), (String.eqb_sym (passet p) x), (String.eqb_sym (pdst p) a). lia.
Qed.

Lemma debits_nonneg ps a x : Forall (fun p => 0 < pamt p) ps -> 0 <= debits ps a x.
Proof.
  unfold debits. induction 1 as [|p ps Hp H IH]; cbn [map]; [cbn; lia|]. rewrite zsum_cons. destruct (_ && _)%bool; lia.
Qed.
Lemma credits_nonneg ps a x : Forall (fun p => 0 < pamt p) ps -> 0 <= credits ps a x.
Proof.
  unfold credits. induction 1 as [|p ps Hp H IH]; cbn [map]; [cbn; lia|]. rewrite zsum_cons. destruct (_ && _)%bool; lia.
Qed.

Lemma debits_app ps qs a x : debits (ps ++ qs) a x = debits ps a x + debits qs a x.
Proof. unfold debits. rewrite map_app. apply zsum_app. Qed.

(* a prefix never debits more than the whole (positive amounts) *)
Lemma debits_prefix ps qs a x : Forall (fun p => 0 < pamt p) (ps ++ qs) -> debits ps a x <= debits (ps ++ qs) a x.
Proof. intros H. rewrite debits_app. apply Forall_app in H. destruct H as [_ H]. pose proof (debits_nonneg qs a x H). lia. Qed.
