(* The reference lexer: positions are exact. Every token of [lex_text] is a piece of the input, the
   pieces come in order without overlap, and a token's (line, column) is the position reached by
   walking the text before it (line feeds counted, column in code points since the last line feed);
   every lexical error is reported at the position of a character of the input. *)
From Coq Require Import Lia.
From NS Require Import Lexer.
Open Scope Z_scope.

(* the same lexer without accumulators *)
Fixpoint lex' (fuel : nat) (l : list Z) (line col : Z) : list token * list (Z * Z) :=
  match fuel with
  | O => ([], [])
  | S fuel' =>
    match l with
    | [] => ([], [])
    | c :: l' =>
        match best_rule rules l (None, O) with
        | (Some k, n) =>
            let txt := firstn n l in
            let '(line', col') := advance txt line col in
            let r := lex' fuel' (skipn n l) line' col' in
            match k with
            | Some kind => (mktoken kind txt line col :: fst r, snd r)
            | None => r
            end
        | (None, _) =>
            let txt := firstn (S (viable_len l)) l in
            let '(line', col') := advance txt line col in
            let r := lex' fuel' (skipn (S (viable_len l)) l) line' col' in
            (fst r, (line, col) :: snd r)
        end
    end
  end.

Lemma lex_lex' fuel : forall l line col acc errs,
  lex fuel l line col acc errs =
  (rev acc ++ fst (lex' fuel l line col), rev errs ++ snd (lex' fuel l line col)).
Proof.
  induction fuel as [|fuel IH]; intros l line col acc errs; cbn [lex lex'].
  - now rewrite !app_nil_r.
  - destruct l as [|c l']; [now rewrite !app_nil_r|].
    destruct (best_rule rules (c :: l') (None, O)) as [[k|] n].
    + destruct (advance (firstn n (c :: l')) line col) as [line' col'].
      destruct k as [kind|]; rewrite IH; cbn [fst snd rev]; [|reflexivity].
      now rewrite <- app_assoc.
    + destruct (advance (firstn (S (viable_len (c :: l'))) (c :: l')) line col) as [line' col'].
      rewrite IH. cbn [fst snd rev]. now rewrite <- app_assoc.
Qed.

Lemma advance_app a : forall b line col,
  advance (a ++ b) line col = advance b (fst (advance a line col)) (snd (advance a line col)).
Proof.
  induction a as [|c a IH]; intros b line col; cbn [advance app fst snd]; [reflexivity|].
  destruct (c =? 10); apply IH.
Qed.

(* tokens tile the text, in order, at their exact positions *)
Fixpoint tiled (consumed rest : list Z) (toks : list token) : Prop :=
  match toks with
  | [] => True
  | t :: ts => exists skipped rest',
      rest = skipped ++ tk_text t ++ rest'
      /\ (tk_line t, tk_col t) = advance (consumed ++ skipped) 0 0
      /\ tiled (consumed ++ skipped ++ tk_text t) rest' ts
  end.

Lemma tiled_shift ts : forall consumed pre rest,
  tiled (consumed ++ pre) rest ts -> tiled consumed (pre ++ rest) ts.
Proof.
  destruct ts as [|t ts]; intros consumed pre rest H; [exact I|].
  destruct H as (sk & rest' & -> & Hpos & Hrest).
  exists (pre ++ sk), rest'. repeat split.
  - now rewrite <- app_assoc.
  - now rewrite app_assoc.
  - now rewrite <- !app_assoc in *.
Qed.

Definition err_located (whole : list Z) (e : Z * Z) : Prop :=
  exists pre c post, whole = pre ++ c :: post /\ e = advance pre 0 0.

Lemma lex'_tiled fuel : forall l consumed line col,
  (line, col) = advance consumed 0 0 ->
  tiled consumed l (fst (lex' fuel l line col))
  /\ Forall (err_located (consumed ++ l)) (snd (lex' fuel l line col)).
Proof.
  induction fuel as [|fuel IH]; intros l consumed line col Hpos; cbn [lex'].
  - split; [exact I|constructor].
  - destruct l as [|c l']; [split; [exact I|constructor]|].
    destruct (best_rule rules (c :: l') (None, O)) as [[k|] n].
    + destruct (advance (firstn n (c :: l')) line col) as [line' col'] eqn:Ea.
      assert (Hsplit : c :: l' = firstn n (c :: l') ++ skipn n (c :: l')) by (symmetry; apply firstn_skipn).
      assert (Hpos' : (line', col') = advance (consumed ++ firstn n (c :: l')) 0 0).
      { rewrite advance_app, <- Hpos. cbn [fst snd]. now rewrite Ea. }
      destruct (IH (skipn n (c :: l')) (consumed ++ firstn n (c :: l')) line' col' Hpos') as [Ht He].
      rewrite <- app_assoc, <- Hsplit in He.
      destruct k as [kind|]; cbn [fst snd].
      * split; [|exact He].
        exists [], (skipn n (c :: l')). cbn [tk_text tk_line tk_col app]. rewrite app_nil_r.
        repeat split; [exact Hsplit|exact Hpos|exact Ht].
      * split; [|exact He]. revert Ht Hsplit. generalize (firstn n (c :: l')) (skipn n (c :: l')). intros pre post Ht ->. now apply tiled_shift.
    + clear n. set (n := S (viable_len (c :: l'))).
      destruct (advance (firstn n (c :: l')) line col) as [line' col'] eqn:Ea.
      assert (Hsplit : c :: l' = firstn n (c :: l') ++ skipn n (c :: l')) by (symmetry; apply firstn_skipn).
      assert (Hpos' : (line', col') = advance (consumed ++ firstn n (c :: l')) 0 0).
      { rewrite advance_app, <- Hpos. cbn [fst snd]. now rewrite Ea. }
      destruct (IH (skipn n (c :: l')) (consumed ++ firstn n (c :: l')) line' col' Hpos') as [Ht He].
      rewrite <- app_assoc, <- Hsplit in He. cbn [fst snd]. split.
      * revert Ht Hsplit. generalize (firstn n (c :: l')) (skipn n (c :: l')). intros pre post Ht ->. now apply tiled_shift.
      * constructor; [|exact He]. exists consumed, c, l'. split; [reflexivity|exact Hpos].
Qed.

Theorem lex_positions_exact (l : list Z) :
  tiled [] l (fst (lex_text l)) /\ Forall (err_located l) (snd (lex_text l)).
Proof.
  unfold lex_text. rewrite lex_lex'. cbn [rev app fst snd].
  exact (lex'_tiled (S (List.length l)) l [] 0 0 eq_refl).
Qed.

(* a position reached by walking a prefix is inside the text: its line exists and its column does
   not exceed the length of that line *)
Fixpoint line_lengths (l : list Z) (cur : Z) : list Z :=
  match l with
  | [] => [cur]
  | c :: l' => if c =? 10 then cur :: line_lengths l' 0 else line_lengths l' (cur + 1)
  end.

Lemma advance_inside pre : forall post line col ls,
  0 <= col ->
  let p := advance pre line col in
  let lens := line_lengths (pre ++ post) col in
  (line <= fst p < line + Z.of_nat (List.length lens)) /\
  0 <= snd p <= nth (Z.to_nat (fst p - line)) lens ls.
Proof.
  induction pre as [|c pre IH]; intros post line col ls Hcol; cbn [advance app line_lengths].
  - cbn [fst snd]. rewrite Z.sub_diag. cbn [Z.to_nat].
    assert (Hge : forall post col, 0 <= col -> exists x xs, line_lengths post col = x :: xs /\ col <= x).
    { clear. induction post as [|c post IH]; intros col Hc; cbn [line_lengths].
      - exists col, []. split; [reflexivity|lia].
      - destruct (c =? 10).
        + exists col, (line_lengths post 0). split; [reflexivity|lia].
        + destruct (IH (col + 1) ltac:(lia)) as (x & xs & E & Hx). exists x, xs. split; [exact E|lia]. }
    destruct (Hge post col Hcol) as (x & xs & E & Hx). rewrite E. cbn [List.length nth]. lia.
  - destruct (c =? 10).
    + specialize (IH post (line + 1) 0 ls ltac:(lia)). cbn zeta in IH.
      destruct IH as [[H1 H2] H3]. cbn [List.length]. split; [lia|].
      replace (Z.to_nat (fst (advance pre (line + 1) 0) - line))
        with (S (Z.to_nat (fst (advance pre (line + 1) 0) - (line + 1)))) by lia.
      cbn [nth]. exact H3.
    + exact (IH post line (col + 1) ls ltac:(lia)).
Qed.

Theorem lex_errors_inside (l : list Z) :
  Forall (fun e : Z * Z =>
            let lens := line_lengths l 0 in
            0 <= fst e < Z.of_nat (List.length lens) /\ 0 <= snd e <= nth (Z.to_nat (fst e)) lens 0)
         (snd (lex_text l)).
Proof.
  eapply Forall_impl; [|exact (proj2 (lex_positions_exact l))].
  intros e (pre & c & post & -> & ->). cbn zeta.
  pose proof (advance_inside pre (c :: post) 0 0 0 ltac:(lia)) as H. cbn zeta in H.
  rewrite Z.sub_0_r in H. lia.
Qed.
