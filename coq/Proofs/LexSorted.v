(* The reference lexer: tokens do not span lines and come in order. No token rule of Numscript.g4
   matches a line feed (only the skipped rules - white space, comments - do), so a token's range
   (its line, its column, its column plus its length) ends where the walk over the text has arrived,
   and the next token starts at or after that position. *)
From Coq Require Import Lia.
From NS Require Import Lexer LexProofs.
Open Scope Z_scope.

Definition notlf (c : Z) : Prop := (c =? 10) = false.
Definition nolf (n : nat) (l : list Z) : Prop := Forall notlf (firstn n l).

Lemma nolf_O l : nolf O l. Proof. constructor. Qed.
Lemma nolf_nil n : nolf n []. Proof. unfold nolf. rewrite firstn_nil. constructor. Qed.
Lemma nolf_S c n l : notlf c -> nolf n l -> nolf (S n) (c :: l).
Proof. intros Hc H. unfold nolf. cbn [firstn]. constructor; assumption. Qed.

Lemma skipn_add {A} a b (l : list A) : skipn (a + b) l = skipn b (skipn a l).
Proof. revert l. induction a as [|a IH]; intros l; [reflexivity|]. destruct l; cbn [Nat.add skipn]; [now rewrite skipn_nil|apply IH]. Qed.

Lemma firstn_add {A} a b (l : list A) : firstn (a + b) l = firstn a l ++ firstn b (skipn a l).
Proof. revert l. induction a as [|a IH]; intros l; [reflexivity|]. destruct l; cbn [Nat.add firstn skipn app]; [now rewrite firstn_nil|now rewrite IH]. Qed.

Lemma nolf_add a b l : nolf a l -> nolf b (skipn a l) -> nolf (a + b) l.
Proof. unfold nolf. intros Ha Hb. rewrite firstn_add. apply Forall_app. split; assumption. Qed.

Lemma nolf_span f l : (forall c, f c = true -> notlf c) -> nolf (span_len f l) l.
Proof.
  intros Hf. induction l as [|c l IH]; cbn [span_len]; [apply nolf_nil|].
  destruct (f c) eqn:E; [apply nolf_S; [apply Hf, E|exact IH]|apply nolf_O].
Qed.

Lemma nolf_one c l : notlf c -> nolf 1 (c :: l).
Proof. intros H. apply nolf_S; [exact H|apply nolf_O]. Qed.

(* character classes without the line feed *)
Lemma digit_notlf c : is_digit c = true -> notlf c.
Proof. unfold is_digit, in_range, notlf. intros H. apply andb_prop in H. destruct H as [H1 H2]. apply Z.leb_le in H1. apply Z.eqb_neq. lia. Qed.
Lemma lower_notlf c : is_lower c = true -> notlf c.
Proof. unfold is_lower, in_range, notlf. intros H. apply andb_prop in H. destruct H as [H1 H2]. apply Z.leb_le in H1. apply Z.eqb_neq. lia. Qed.
Lemma upper_notlf c : is_upper c = true -> notlf c.
Proof. unfold is_upper, in_range, notlf. intros H. apply andb_prop in H. destruct H as [H1 H2]. apply Z.leb_le in H1. apply Z.eqb_neq. lia. Qed.
Lemma eqb_notlf k c : k <> 10 -> (c =? k) = true -> notlf c.
Proof. intros Hk H. apply Z.eqb_eq in H. subst c. apply Z.eqb_neq. exact Hk. Qed.

Ltac classes :=
  repeat match goal with
         | H : (_ || _) = true |- _ => apply Bool.orb_prop in H; destruct H as [H|H]
         end;
  first [ eapply digit_notlf; eassumption | eapply lower_notlf; eassumption | eapply upper_notlf; eassumption
        | eapply eqb_notlf; [|eassumption]; lia ].

Lemma ident_tail_notlf c : is_ident_tail c = true -> notlf c. Proof. unfold is_ident_tail. intros H. classes. Qed.
Lemma var_head_notlf c : is_var_head c = true -> notlf c. Proof. unfold is_var_head. intros H. classes. Qed.
Lemma var_tail_notlf c : is_var_tail c = true -> notlf c. Proof. unfold is_var_tail. intros H. classes. Qed.
Lemma acct_notlf c : is_acct c = true -> notlf c. Proof. unfold is_acct. intros H. classes. Qed.
Lemma asset_notlf c : is_asset c = true -> notlf c. Proof. unfold is_asset. intros H. classes. Qed.

(* ---- the token rules ---- *)
Lemma starts_with_firstn p : forall l, starts_with p l = true -> firstn (List.length p) l = p.
Proof.
  induction p as [|a p IH]; intros l H; [reflexivity|]. destruct l as [|b l]; [discriminate|].
  cbn [starts_with] in H. apply andb_prop in H. destruct H as [E H]. apply Z.eqb_eq in E. subst b.
  cbn [List.length firstn]. now rewrite IH.
Qed.

Lemma nolf_lit lit l : forallb (fun c => negb (c =? 10)) lit = true -> nolf (m_lit lit l) l.
Proof.
  intros Hl. unfold m_lit. destruct (starts_with lit l) eqn:E; [|apply nolf_O].
  unfold nolf. rewrite (starts_with_firstn _ _ E). rewrite forallb_forall in Hl. apply Forall_forall. intros c Hc.
  specialize (Hl c Hc). unfold notlf. destruct (c =? 10); [discriminate|reflexivity].
Qed.

Lemma nolf_ratio l : nolf (m_ratio l) l.
Proof.
  unfold m_ratio. destruct (span_len is_digit l) as [|n1'] eqn:E1; [apply nolf_O|]. set (n1 := S n1') in *.
  assert (H1 : nolf n1 l) by (rewrite <- E1; apply nolf_span, digit_notlf).
  set (r1 := skipn n1 l).
  assert (G : forall s1 r2, nolf s1 r1 -> r2 = skipn s1 r1 ->
              nolf (match r2 with
                    | 47 :: r3 => let '(s2, r4) := match r3 with 32 :: r => (1%nat, r) | _ => (O, r3) end in
                                  match span_len is_digit r4 with O => O | S _ => (n1 + s1 + 1 + s2 + span_len is_digit r4)%nat end
                    | _ => O end) l).
  { intros s1 r2 Hs1 Er2. destruct r2 as [|c r3]; [apply nolf_O|].
    destruct (Z.eqb_spec c 47) as [->|Hc]; [|destruct c as [|p|p]; try apply nolf_O; do 6 (destruct p; try apply nolf_O); contradiction].
    assert (H2 : nolf (n1 + s1 + 1) l).
    { apply nolf_add; [apply nolf_add; [exact H1|exact Hs1]|]. rewrite skipn_add. fold r1. rewrite <- Er2. apply nolf_one. reflexivity. }
    assert (E3 : skipn (n1 + s1 + 1) l = r3).
    { rewrite !skipn_add. fold r1. rewrite <- Er2. reflexivity. }
    assert (G2 : forall s2 r4, nolf s2 r3 -> r4 = skipn s2 r3 ->
                 nolf (match span_len is_digit r4 with O => O | S _ => (n1 + s1 + 1 + s2 + span_len is_digit r4)%nat end) l).
    { intros s2 r4 Hs2 Er4. destruct (span_len is_digit r4) as [|m] eqn:E4; [apply nolf_O|].
      apply nolf_add; [apply nolf_add; [exact H2|rewrite E3; exact Hs2]|].
      rewrite skipn_add, E3, <- Er4, <- E4. apply nolf_span, digit_notlf. }
    destruct r3 as [|c3 r]; [exact (G2 O [] (nolf_O _) eq_refl)|].
    destruct (Z.eqb_spec c3 32) as [->|Hc3].
    - exact (G2 1%nat r (nolf_one 32 _ (eq_refl : notlf 32)) eq_refl).
    - assert (K : match c3 with 32 => (1%nat, r) | _ => (O, c3 :: r) end = (O, c3 :: r)).
      { destruct c3 as [|p|p]; try reflexivity. do 6 (destruct p; try reflexivity). contradiction. }
      rewrite K. exact (G2 O (c3 :: r) (nolf_O _) eq_refl). }
  destruct r1 as [|c r] eqn:Er1.
  - exact (G O [] (nolf_O _) eq_refl).
  - destruct (Z.eqb_spec c 32) as [->|Hc].
    + exact (G 1%nat r (nolf_one 32 _ (eq_refl : notlf 32)) eq_refl).
    + assert (K : match c with 32 => (1%nat, r) | _ => (O, c :: r) end = (O, c :: r)).
      { destruct c as [|p|p]; try reflexivity. do 6 (destruct p; try reflexivity). contradiction. }
      rewrite K. exact (G O (c :: r) (nolf_O _) eq_refl).
Qed.

Lemma nolf_percent l : nolf (m_percent l) l.
Proof.
  unfold m_percent. destruct (span_len is_digit l) as [|n1'] eqn:E1; [apply nolf_O|]. set (n1 := S n1') in *.
  assert (H1 : nolf n1 l) by (rewrite <- E1; apply nolf_span, digit_notlf).
  destruct (skipn n1 l) as [|c r] eqn:Er; [apply nolf_O|].
  destruct (Z.eqb_spec c 37) as [->|H37].
  - replace (S n1) with (n1 + 1)%nat by lia. apply nolf_add; [exact H1|]. rewrite Er. apply (nolf_one 37 r eq_refl).
  - destruct (Z.eqb_spec c 46) as [->|H46].
    + destruct (span_len is_digit r) as [|n2'] eqn:E2; [apply nolf_O|]. set (n2 := S n2') in *.
      destruct (skipn n2 r) as [|c2 r2] eqn:Er2; [apply nolf_O|].
      destruct (Z.eqb_spec c2 37) as [->|H2]; [|destruct c2 as [|p|p]; try apply nolf_O; do 6 (destruct p; try apply nolf_O); contradiction].
      apply nolf_add; [apply nolf_add; [apply nolf_add; [exact H1|rewrite Er; apply (nolf_one 46 r eq_refl)]|]|].
      * rewrite skipn_add, Er. cbn [skipn]. rewrite <- E2. apply nolf_span, digit_notlf.
      * rewrite !skipn_add, Er. cbn [skipn]. rewrite Er2. apply (nolf_one 37 r2 eq_refl).
    + destruct c as [|p|p]; try apply nolf_O. do 6 (destruct p; try apply nolf_O); contradiction.
Qed.

Lemma nolf_string_scan : forall l pb consumed best pre,
  Forall notlf pre -> List.length pre = consumed -> (best <= consumed)%nat ->
  Forall notlf (firstn (m_string_scan l pb consumed best) (pre ++ l)).
Proof.
  induction l as [|c l IH]; intros pb consumed best pre Hpre Hlen Hb; cbn [m_string_scan].
  - rewrite app_nil_r. clear -Hpre. revert best. induction Hpre; intros best; destruct best; cbn [firstn]; constructor; auto.
  - assert (Hfst : forall n, (n <= consumed)%nat -> Forall notlf (firstn n (pre ++ c :: l))).
    { intros n Hn. rewrite firstn_app. replace (n - List.length pre)%nat with O by lia. cbn [firstn]. rewrite app_nil_r.
      clear -Hpre. revert n. induction Hpre; intros n; destruct n; cbn [firstn]; constructor; auto. }
    destruct (is_nl c) eqn:Enl; [apply Hfst, Hb|].
    assert (Hc : notlf c).
    { unfold is_nl in Enl. apply Bool.orb_false_elim in Enl. exact (proj2 Enl). }
    assert (Hpre' : Forall notlf (pre ++ [c])) by (apply Forall_app; split; [exact Hpre|constructor; [exact Hc|constructor]]).
    assert (Hlen' : List.length (pre ++ [c]) = S consumed) by (rewrite app_length; cbn; lia).
    assert (E : pre ++ c :: l = (pre ++ [c]) ++ l) by (now rewrite <- app_assoc).
    destruct (c =? 34).
    + destruct pb.
      * rewrite E. apply IH; [exact Hpre'|exact Hlen'|lia].
      * rewrite E, firstn_app, Hlen', Nat.sub_diag, firstn_O, app_nil_r, <- Hlen', firstn_all. exact Hpre'.
    + rewrite E. apply IH; [exact Hpre'|exact Hlen'|lia].
Qed.

Lemma nolf_string l : nolf (m_string l) l.
Proof.
  unfold m_string, nolf. destruct l as [|c l']; [constructor|].
  destruct (Z.eqb_spec c 34) as [->|H]; [|destruct c as [|p|p]; try constructor; do 6 (destruct p; try constructor); contradiction].
  exact (nolf_string_scan l' false 1%nat O [34] (Forall_cons _ (eq_refl : notlf 34) (Forall_nil _)) eq_refl ltac:(lia)).
Qed.

Lemma nolf_identifier l : nolf (m_identifier l) l.
Proof.
  unfold m_identifier. destruct (span_len is_lower l) as [|n'] eqn:E; [apply nolf_O|].
  apply nolf_add; [rewrite <- E; apply nolf_span, lower_notlf|apply nolf_span, ident_tail_notlf].
Qed.

Lemma nolf_number l : nolf (m_number l) l.
Proof.
  unfold m_number. destruct l as [|c l']; [apply nolf_nil|].
  destruct (Z.eqb_spec c 45) as [->|H].
  - destruct (span_len is_digit l') as [|n] eqn:E; [apply nolf_O|]. apply nolf_S; [reflexivity|rewrite <- E; apply nolf_span, digit_notlf].
  - assert (K : match c with 45 => match span_len is_digit l' with O => O | S n => S (S n) end | _ => span_len is_digit (c :: l') end = span_len is_digit (c :: l')).
    { destruct c as [|p|p]; try reflexivity. do 6 (destruct p; try reflexivity). contradiction. }
    change (nolf (match c with 45 => match span_len is_digit l' with O => O | S n => S (S n) end | _ => span_len is_digit (c :: l') end) (c :: l')).
    rewrite K. apply nolf_span, digit_notlf.
Qed.

Lemma nolf_varname l : nolf (m_varname l) l.
Proof.
  unfold m_varname. destruct l as [|c l']; [apply nolf_O|].
  destruct (Z.eqb_spec c 36) as [->|H]; [|destruct c as [|p|p]; try apply nolf_O; do 6 (destruct p; try apply nolf_O); contradiction].
  destruct (span_len is_var_head l') as [|n] eqn:E; [apply nolf_O|].
  change (1 + S n + span_len is_var_tail (skipn (S n) l'))%nat with (S (S n + span_len is_var_tail (skipn (S n) l'))).
  apply nolf_S; [reflexivity|]. apply nolf_add; [rewrite <- E; apply nolf_span, var_head_notlf|apply nolf_span, var_tail_notlf].
Qed.

Lemma nolf_account_segs fuel : forall l0 l consumed, nolf consumed l0 -> l = skipn consumed l0 -> nolf (m_account_segs fuel l consumed) l0.
Proof.
  induction fuel as [|fuel IH]; intros l0 l consumed Hc El; cbn [m_account_segs]; [exact Hc|].
  destruct l as [|c l']; [exact Hc|].
  destruct (Z.eqb_spec c 58) as [->|H]; [|destruct c as [|p|p]; try exact Hc; do 6 (destruct p; try exact Hc); contradiction].
  destruct (span_len is_acct l') as [|n] eqn:E; [exact Hc|].
  apply IH.
  - apply nolf_add; [apply nolf_add; [exact Hc|rewrite <- El; apply (nolf_one 58 l' eq_refl)]|].
    rewrite skipn_add, <- El. cbn [skipn]. rewrite <- E. apply nolf_span, acct_notlf.
  - rewrite !skipn_add, <- El. reflexivity.
Qed.

Lemma nolf_account l : nolf (m_account l) l.
Proof.
  unfold m_account. destruct l as [|c l']; [apply nolf_O|].
  destruct (Z.eqb_spec c 64) as [->|H]; [|destruct c as [|p|p]; try apply nolf_O; do 7 (destruct p; try apply nolf_O); contradiction].
  destruct (span_len is_acct l') as [|n] eqn:E; [apply nolf_O|].
  apply nolf_account_segs.
  - change (1 + S n)%nat with (S (S n)). apply nolf_S; [reflexivity|rewrite <- E; apply nolf_span, acct_notlf].
  - reflexivity.
Qed.

Lemma nolf_asset l : nolf (m_asset l) l.
Proof. apply nolf_span, asset_notlf. Qed.

(* ---- every token rule is line-feed free; the rule that wins is one of them ---- *)
Definition rule_ok (r : option tkind * (list Z -> nat)) : Prop :=
  match fst r with Some _ => forall l, nolf (snd r l) l | None => True end.

Lemma rules_ok : Forall rule_ok rules.
Proof.
  unfold rules.
  repeat (apply Forall_cons; [first [exact I | intros l; cbn [snd]; first [apply nolf_lit; reflexivity | apply nolf_ratio | apply nolf_percent
          | apply nolf_string | apply nolf_identifier | apply nolf_number | apply nolf_varname | apply nolf_account | apply nolf_asset]]|]).
  apply Forall_nil.
Qed.

Definition best_ok (l : list Z) (b : option (option tkind) * nat) : Prop :=
  match fst b with Some (Some _) => nolf (snd b) l | _ => True end.

Lemma best_rule_ok rs l : Forall rule_ok rs -> forall best, best_ok l best -> best_ok l (best_rule rs l best).
Proof.
  induction 1 as [|[k m] rs Hr _ IH]; intros best Hb; cbn [best_rule]; [exact Hb|].
  destruct (snd best <? m l)%nat; [|apply IH, Hb]. apply IH. unfold best_ok. cbn [fst snd].
  destruct k as [kind|]; [exact (Hr l)|exact I].
Qed.

(* ---- order ---- *)
Definition zpos_le (a b : Z * Z) : Prop := fst a < fst b \/ (fst a = fst b /\ snd a <= snd b).

Lemma zpos_le_refl a : zpos_le a a. Proof. right. split; [reflexivity|lia]. Qed.
Lemma zpos_le_trans a b c : zpos_le a b -> zpos_le b c -> zpos_le a c.
Proof. unfold zpos_le. intros [H1|[H1 H1']] [H2|[H2 H2']]; [left; lia|left; lia|left; lia|right; lia]. Qed.

Lemma advance_ge cs : forall line col, zpos_le (line, col) (advance cs line col).
Proof.
  induction cs as [|c cs IH]; intros line col; cbn [advance]; [apply zpos_le_refl|].
  destruct (c =? 10).
  - eapply zpos_le_trans; [|apply IH]. left. cbn. lia.
  - eapply zpos_le_trans; [|apply IH]. right. cbn. lia.
Qed.

Lemma advance_nolf cs : forall line col, Forall notlf cs -> advance cs line col = (line, col + Z.of_nat (List.length cs)).
Proof.
  induction cs as [|c cs IH]; intros line col H; cbn [advance List.length]; [f_equal; lia|].
  inversion H as [|? ? Hc Hcs]; subst. unfold notlf in Hc. rewrite Hc, (IH _ _ Hcs). f_equal. lia.
Qed.

(* each token starts at or after [p], and the next ones at or after its end *)
Fixpoint ordered_from (p : Z * Z) (ts : list token) : Prop :=
  match ts with
  | [] => True
  | t :: ts' => zpos_le p (tk_line t, tk_col t) /\ ordered_from (tk_line t, tk_col t + tk_len t) ts'
  end.

Lemma ordered_from_weaken p p' ts : zpos_le p p' -> ordered_from p' ts -> ordered_from p ts.
Proof. destruct ts as [|t ts]; [trivial|]. intros H [H1 H2]. split; [exact (zpos_le_trans _ _ _ H H1)|exact H2]. Qed.

Lemma lex'_ordered fuel : forall l line col, ordered_from (line, col) (fst (lex' fuel l line col)).
Proof.
  induction fuel as [|fuel IH]; intros l line col; cbn [lex']; [exact I|].
  destruct l as [|c l']; [exact I|].
  pose proof (best_rule_ok rules (c :: l') rules_ok (None, O) I) as Hb.
  destruct (best_rule rules (c :: l') (None, O)) as [[k|] n].
  - destruct (advance (firstn n (c :: l')) line col) as [line' col'] eqn:Ea.
    destruct k as [kind|]; cbn [fst snd].
    + unfold best_ok in Hb. cbn [fst snd] in Hb. rewrite (advance_nolf _ _ _ Hb) in Ea. injection Ea as <- <-.
      split; [apply zpos_le_refl|]. cbn [tk_line tk_col]. unfold tk_len. cbn [tk_text]. apply IH.
    + eapply ordered_from_weaken; [|apply IH]. rewrite <- Ea. apply advance_ge.
  - destruct (advance (firstn (S (viable_len (c :: l'))) (c :: l')) line col) as [line' col'] eqn:Ea. cbn [fst snd].
    eapply ordered_from_weaken; [|apply IH]. rewrite <- Ea. apply advance_ge.
Qed.

Theorem lex_tokens_ordered (l : list Z) : ordered_from (0, 0) (fst (lex_text l)).
Proof. unfold lex_text. rewrite lex_lex'. cbn [rev app fst]. apply lex'_ordered. Qed.

(* and no token contains a line feed *)
Lemma lex'_nolf fuel : forall l line col, Forall (fun t => Forall notlf (tk_text t)) (fst (lex' fuel l line col)).
Proof.
  induction fuel as [|fuel IH]; intros l line col; cbn [lex']; [constructor|].
  destruct l as [|c l']; [constructor|].
  pose proof (best_rule_ok rules (c :: l') rules_ok (None, O) I) as Hb.
  destruct (best_rule rules (c :: l') (None, O)) as [[k|] n].
  - destruct (advance (firstn n (c :: l')) line col) as [line' col'].
    destruct k as [kind|]; cbn [fst snd]; [|apply IH]. constructor; [exact Hb|apply IH].
  - destruct (advance (firstn (S (viable_len (c :: l'))) (c :: l')) line col) as [line' col']. cbn [fst snd]. apply IH.
Qed.

Theorem lex_tokens_single_line (l : list Z) : Forall (fun t => Forall notlf (tk_text t)) (fst (lex_text l)).
Proof. unfold lex_text. rewrite lex_lex'. cbn [rev app fst]. apply lex'_nolf. Qed.
