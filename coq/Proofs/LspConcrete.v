(* C19: the concrete server model used by the correspondence (Corr/Judge.lsp_impl) answers every
   request of every history as the specification (fresh analysis of the latest text) does. *)
From NS Require Import Judge MetaProofs.

Section Concrete.
Variable texts : list (program * list diag).

Definition st_inv (st : list (string * (nat * analysis))) : Prop :=
  forall u t a, alookup u st = Some (t, a) -> a = analyse_text texts t.
Definition st_abs (st : list (string * (nat * analysis))) : list (string * nat) := map (fun e => (fst e, fst (snd e))) st.

Lemma st_abs_lookup st u : alookup u (st_abs st) = option_map fst (alookup u st).
Proof. induction st as [|[k [t a]] st IH]; cbn; [reflexivity|]. destruct (String.eqb u k); [reflexivity|exact IH]. Qed.

Lemma st_abs_aset st u t a : st_abs (aset u (t, a) st) = aset u t (st_abs st).
Proof.
  induction st as [|[k [t0 a0]] st IH]; [reflexivity|]. cbn [aset st_abs map fst snd].
  destruct (String.eqb u k); cbn [map fst snd]; [reflexivity|]. f_equal. exact IH.
Qed.

Lemma st_inv_aset st u t : st_inv st -> st_inv (aset u (t, analyse_text texts t) st).
Proof.
  intros H u' t' a' Hl. rewrite alookup_aset in Hl. destruct (String.eqb u' u); [injection Hl as <- <-; reflexivity|exact (H u' t' a' Hl)].
Qed.

Theorem lsp_refinement : forall h st, st_inv st -> lsp_impl texts st h = lsp_spec texts (st_abs st) h.
Proof.
  induction h as [|r h IH]; intros st Hinv; [reflexivity|].
  destruct r as [u t|u t|u l c|u l c|u]; cbn [lsp_impl lsp_spec].
  - f_equal. rewrite <- (st_abs_aset st u t (analyse_text texts t)). apply IH, st_inv_aset, Hinv.
  - f_equal. rewrite <- (st_abs_aset st u t (analyse_text texts t)). apply IH, st_inv_aset, Hinv.
  - rewrite st_abs_lookup. f_equal; [|apply IH, Hinv].
    destruct (alookup u st) as [[t a]|] eqn:E; cbn [option_map fst snd]; [rewrite (Hinv u t a E)|]; reflexivity.
  - rewrite st_abs_lookup. f_equal; [|apply IH, Hinv].
    destruct (alookup u st) as [[t a]|] eqn:E; cbn [option_map fst snd]; [rewrite (Hinv u t a E)|]; reflexivity.
  - rewrite st_abs_lookup. f_equal; [|apply IH, Hinv].
    destruct (alookup u st) as [[t a]|] eqn:E; cbn [option_map fst snd]; [rewrite (Hinv u t a E)|]; reflexivity.
Qed.

Corollary lsp_refinement_initial h : lsp_impl texts [] h = lsp_spec texts [] h.
Proof. apply (lsp_refinement h []). intros u t a H. discriminate. Qed.
End Concrete.
