(* C19: the document store of the language server refines the specification "answer from a fresh
   analysis of the latest text of that document", for every request history. *)
From NS Require Import Base DocStore MetaProofs.

Section Refinement.
Variables Text Analysis Pos HoverAns DefAns SymAns Diags : Type.
Variable analyse : Text -> Analysis.
Variable hover_of : Analysis -> Pos -> HoverAns.
Variable def_of : Analysis -> Pos -> DefAns.
Variable syms_of : Analysis -> SymAns.
Variable diags_of : Analysis -> Diags.
Variables (no_hover : HoverAns) (no_def : DefAns) (no_syms : SymAns).

Notation spec_step := (spec_step Text Analysis Pos HoverAns DefAns SymAns Diags analyse hover_of def_of syms_of diags_of no_hover no_def no_syms).
Notation impl_step := (impl_step Text Analysis Pos HoverAns DefAns SymAns Diags analyse hover_of def_of syms_of diags_of no_hover no_def no_syms).
Notation spec_run := (spec_run Text Analysis Pos HoverAns DefAns SymAns Diags analyse hover_of def_of syms_of diags_of no_hover no_def no_syms).
Notation impl_run := (impl_run Text Analysis Pos HoverAns DefAns SymAns Diags analyse hover_of def_of syms_of diags_of no_hover no_def no_syms).

(* abstraction: forget the stored analysis; invariant: it is the analysis of the stored text *)
Definition abs (st : impl_state Text Analysis) : spec_state Text := map (fun e => (fst e, fst (snd e))) st.
Definition inv (st : impl_state Text Analysis) : Prop := forall u t a, alookup u st = Some (t, a) -> a = analyse t.

Lemma alookup_abs st u : alookup u (abs st) = option_map fst (alookup u st).
Proof. induction st as [|[k [t a]] st IH]; cbn; [reflexivity|]. destruct (String.eqb u k); [reflexivity|exact IH]. Qed.

Lemma abs_aset st u t a : abs (aset u (t, a) st) = aset u t (abs st).
Proof.
  induction st as [|[k [t0 a0]] st IH]; [reflexivity|]. cbn [aset abs map fst snd].
  destruct (String.eqb u k); cbn [map fst snd]; [reflexivity|]. f_equal. exact IH.
Qed.

Lemma inv_aset st u t : inv st -> inv (aset u (t, analyse t) st).
Proof.
  intros H u' t' a' Hl. rewrite alookup_aset in Hl. destruct (String.eqb u' u); [injection Hl as <- <-; reflexivity|exact (H u' t' a' Hl)].
Qed.

Lemma step_refines st r :
  inv st -> let '(st', out) := impl_step st r in let '(sp', out') := spec_step (abs st) r in
            inv st' /\ abs st' = sp' /\ out = out'.
Proof.
  intros Hinv. destruct r as [u t|u t|u p|u p|u|]; cbn [DocStore.impl_step DocStore.spec_step].
  - split; [apply inv_aset, Hinv|]. split; [apply abs_aset|reflexivity].
  - split; [apply inv_aset, Hinv|]. split; [apply abs_aset|reflexivity].
  - split; [exact Hinv|]. split; [reflexivity|]. rewrite alookup_abs. destruct (alookup u st) as [[t a]|] eqn:E; cbn; [|reflexivity].
    rewrite (Hinv u t a E). reflexivity.
  - split; [exact Hinv|]. split; [reflexivity|]. rewrite alookup_abs. destruct (alookup u st) as [[t a]|] eqn:E; cbn; [|reflexivity].
    rewrite (Hinv u t a E). reflexivity.
  - split; [exact Hinv|]. split; [reflexivity|]. rewrite alookup_abs. destruct (alookup u st) as [[t a]|] eqn:E; cbn; [|reflexivity].
    rewrite (Hinv u t a E). reflexivity.
  - split; [exact Hinv|]. split; reflexivity.
Qed.

(* after ANY history, every response (and every published diagnostic set) is what the specification
   answers: never from a stale text, never from another document *)
Theorem docstore_refinement : forall rs st, inv st -> impl_run st rs = spec_run (abs st) rs.
Proof.
  induction rs as [|r rs IH]; intros st Hinv; cbn [DocStore.impl_run DocStore.spec_run]; [reflexivity|].
  pose proof (step_refines st r Hinv) as H.
  destruct (impl_step st r) as [st' out]. destruct (spec_step (abs st) r) as [sp' out'].
  destruct H as [Hinv' [Habs ->]]. rewrite <- Habs. f_equal. apply IH, Hinv'.
Qed.

Corollary docstore_refinement_initial rs : impl_run [] rs = spec_run [] rs.
Proof. apply (docstore_refinement rs []). intros u t a H. discriminate. Qed.
End Refinement.
