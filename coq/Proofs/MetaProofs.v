(* C09: metadata overriding, and independence of postings from metadata. *)
From Coq Require Import Lia.
From NS Require Import Stmt.

Definition ok_opt' {A} (m : res A) : option A := match m with Ok a => Some a | _ => None end.

Lemma alookup_aset {A} k (v : A) m k' : alookup k' (aset k v m) = if String.eqb k' k then Some v else alookup k' m.
Proof.
  induction m as [|[k0 v0] m IH]; cbn [aset alookup].
  - destruct (String.eqb k' k); reflexivity.
  - destruct (String.eqb k k0) eqn:E.
    + apply String.eqb_eq in E. subst k0. cbn [alookup]. destruct (String.eqb k' k); reflexivity.
    + cbn [alookup]. destruct (String.eqb k' k0) eqn:E2.
      * apply String.eqb_eq in E2. subst k0. destruct (String.eqb k' k) eqn:E3; [|reflexivity].
        apply String.eqb_eq in E3. subst k'. rewrite String.eqb_refl in E. discriminate.
      * exact IH.
Qed.

Lemma set_tx_meta_override k v st st' k' :
  set_tx_meta [VString k; v] st = Ok st' ->
  alookup k' (st_txmeta st') = if String.eqb k' k then Some v else alookup k' (st_txmeta st).
Proof. cbn. intros [= <-]. cbn [st_txmeta]. apply alookup_aset. Qed.

Definition acc_meta_get (m : list (string * list (string * string))) (a k : string) : option string :=
  match alookup a m with Some am => alookup k am | None => None end.

Lemma set_account_meta_override a k v st st' a' k' :
  set_account_meta [VAccount a; VString k; v] st = Ok st' ->
  acc_meta_get (st_accmeta st') a' k' =
  if (String.eqb a' a && String.eqb k' k)%bool then Some (value_string v) else acc_meta_get (st_accmeta st) a' k'.
Proof.
  cbn. intros [= <-]. cbn [st_accmeta]. unfold acc_meta_get. rewrite alookup_aset.
  destruct (String.eqb a' a) eqn:Ea; cbn [andb]; [|reflexivity].
  apply String.eqb_eq in Ea. subst a'. rewrite alookup_aset.
  destruct (String.eqb k' k); [reflexivity|]. destruct (alookup a (st_accmeta st)); reflexivity.
Qed.

(* postings of a statement do not depend on the metadata written so far *)
Lemma run_stmt_postings_indep_meta vs s st tm am :
  option_map fst (ok_opt' (run_stmt vs s (mkstate (st_cache st) tm am))) = option_map fst (ok_opt' (run_stmt vs s st)).
Proof.
  destruct s as [| |f|r sv src dst|r sv a]; cbn [run_stmt]; try reflexivity.
  - destruct (eval_exprs vs (fc_args f)) as [args| |]; cbn [bind]; try reflexivity.
    destruct (String.eqb (fc_caller f) FnSetTxMeta).
    + unfold set_tx_meta. destruct args as [|k [|v [|x rest]]]; try reflexivity.
      destruct (expect_string k); reflexivity.
    + destruct (String.eqb (fc_caller f) FnSetAccountMeta); [|reflexivity].
      unfold set_account_meta. destruct args as [|a0 [|k [|v [|x rest]]]]; try reflexivity.
      destruct (expect_account a0); cbn [bind]; try reflexivity. destruct (expect_string k); reflexivity.
  - unfold run_send. cbn [st_cache]. destruct (send_lists vs sv src dst (st_cache st)) as [[[asset sd] rcv]| |]; cbn [bind]; try reflexivity.
    unfold get_postings. cbn [st_cache]. destruct (reconcile asset sd rcv); reflexivity.
  - unfold run_save. destruct (eval_sent_amt vs sv) as [[asset amt]| |]; cbn [bind]; try reflexivity.
    destruct (eval_as vs a expect_account); cbn [bind]; try reflexivity.
    destruct amt as [n|]; [destruct (n <? 0)|]; reflexivity.
Qed.
