(* C16: the checker model's bookkeeping of variable names agrees with the independent traversal of
   Spec/Names.v (expression level; sources, destinations and statements iterate it). *)
From Coq Require Import Lia.
From NS Require Import Check Names SoundnessProofs.

(* the diagnostics a step added *)
Definition new_diags (s s' : cstate) : list diag := skipn (List.length (cs_diags s)) (cs_diags s').

Definition unbound_diags (ds : list diag) : list use :=
  flat_map (fun d => match d_kind d with DUnboundVariable n => [(n, d_range d)] | _ => [] end) ds.

Lemma unbound_diags_app a b : unbound_diags (a ++ b) = unbound_diags a ++ unbound_diags b.
Proof. unfold unbound_diags. apply flat_map_app. Qed.

Lemma new_diags_app s D s' : cs_diags s' = cs_diags s ++ D -> new_diags s s' = D.
Proof.
  intros H. unfold new_diags. rewrite H. rewrite skipn_app, Nat.sub_diag, skipn_all. reflexivity.
Qed.

(* a step summarised by what it appended and what it did to the name tables *)
Definition names_step (us : list use) (s s' : cstate) : Prop :=
  exists D, cs_diags s' = cs_diags s ++ D
    /\ unbound_diags D = filter (fun u : use => negb (amem (fst u) (cs_declared s))) us
    /\ cs_declared s' = cs_declared s
    /\ cs_unused s' = fold_left (fun acc (u : use) => aremove (fst u) acc) us (cs_unused s).

Lemma names_step_nil s : names_step [] s s.
Proof. exists []. repeat split; try reflexivity. now rewrite app_nil_r. Qed.

Lemma names_step_app us1 us2 s1 s2 s3 : names_step us1 s1 s2 -> names_step us2 s2 s3 -> names_step (us1 ++ us2) s1 s3.
Proof.
  intros [D1 [H1 [U1 [G1 N1]]]] [D2 [H2 [U2 [G2 N2]]]]. exists (D1 ++ D2). repeat split.
  - rewrite H2, H1, app_assoc. reflexivity.
  - rewrite unbound_diags_app, U1, U2, G1, filter_app. reflexivity.
  - congruence.
  - rewrite N2, N1, fold_left_app. reflexivity.
Qed.

Lemma names_step_assert r req act s s' : assert_has_type (Some r) req act s = Ok s' -> names_step [] s s'.
Proof.
  intros H. destruct (assert_has_type_spec _ _ _ _ _ H) as [[-> _]| ->]; [apply names_step_nil|].
  exists [mkdiag r (DTypeMismatch req act)]. repeat split; reflexivity.
Qed.

Theorem check_expression_names_step : forall e t s s', check_expression e t s = Ok s' -> names_step (uses_expr e) s s'.
Proof.
  induction e as [| | |r name|r x|r x|r name|r n|r a IHa b IHb|r n d|r op l IHl rr IHr]; intros t s s' H; cbn [check_expression] in H; cbn [uses_expr];
    try discriminate; try (injection H as <-; apply names_step_nil); try (eapply names_step_assert; eassumption).
  - unfold assert_has_type in H. destruct (_ || _); [injection H as <-; apply names_step_nil|discriminate].
  - (* variable *)
    cbv zeta in H. unfold amem. destruct (alookup name (cs_declared s)) as [d0|] eqn:Ed.
    + assert (G : forall s2, cs_diags s2 = cs_diags s -> cs_declared s2 = cs_declared s -> cs_unused s2 = aremove name (cs_unused s) ->
                  names_step [(name, r)] s s2).
      { intros s2 A B C. exists []. cbn [filter fst]. unfold amem. rewrite Ed. cbn [negb]. repeat split; try assumption. now rewrite app_nil_r. }
      destruct (vd_type d0) as [[? ty]|]; [destruct (is_type_allowed ty)|]; try (injection H as <-; apply G; reflexivity).
      destruct (assert_has_type_spec _ _ _ _ _ H) as [[-> _]| ->]; [apply G; reflexivity|].
      exists [mkdiag r (DTypeMismatch t ty)]. cbn [filter fst]. unfold amem. rewrite Ed. cbn [negb]. repeat split; reflexivity.
    + injection H as <-. exists [mkdiag r (DUnboundVariable name)]. cbn [filter fst]. unfold amem. rewrite Ed. cbn [negb]. repeat split; reflexivity.
  - destruct (assert_has_type (Some r) t TypeMonetary s) as [s1| |] eqn:E1; cbn [bind] in H; try discriminate.
    destruct (check_expression a TypeAsset s1) as [s2| |] eqn:E2; cbn [bind] in H; try discriminate.
    change (uses_expr a ++ uses_expr b) with ([] ++ (uses_expr a ++ uses_expr b)).
    eapply names_step_app; [eapply names_step_assert; exact E1|]. eapply names_step_app; [eapply IHa; exact E2|eapply IHb; exact H].
  - destruct (String.eqb t TypeNumber || String.eqb t TypeMonetary).
    + destruct (check_expression l t s) as [s1| |] eqn:E1; cbn [bind] in H; try discriminate.
      eapply names_step_app; [eapply IHl; exact E1|eapply IHr; exact H].
    + cbv zeta in H.
      match type of H with context [assert_has_type (Some r) t ?ty s] => destruct (assert_has_type (Some r) t ty s) as [s0| |] eqn:E0 end; cbn [bind] in H; try discriminate.
      match type of H with context [check_expression l ?ty s0] => destruct (check_expression l ty s0) as [s1| |] eqn:E1 end; cbn [bind] in H; try discriminate.
      change (uses_expr l ++ uses_expr rr) with ([] ++ (uses_expr l ++ uses_expr rr)).
      eapply names_step_app; [eapply names_step_assert; exact E0|]. eapply names_step_app; [eapply IHl; exact E1|eapply IHr; exact H].
Qed.

Theorem check_expression_names e t s s' :
  check_expression e t s = Ok s' ->
  unbound_diags (new_diags s s') = filter (fun u : use => negb (amem (fst u) (cs_declared s))) (uses_expr e)
  /\ cs_declared s' = cs_declared s
  /\ cs_unused s' = fold_left (fun acc (u : use) => aremove (fst u) acc) (uses_expr e) (cs_unused s).
Proof.
  intros H. destruct (check_expression_names_step e t s s' H) as [D [H1 [U [G N]]]].
  rewrite (new_diags_app s D s' H1). repeat split; assumption.
Qed.
