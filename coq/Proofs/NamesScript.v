(* C16, script level: the checker's variable diagnostics are exactly those of Spec/Names.v - unbound
   uses, repeated declarations, declarations never used - for whole programs. *)
From Coq Require Import Lia.
From NS Require Import Check Names SyntaxInd SoundnessProofs NamesProofs.

Definition is_name_kind (k : diag_kind) : bool :=
  match k with DUnboundVariable _ | DDuplicateVariable _ | DUnusedVar _ => true | _ => false end.
(* the diagnostics about variable names, in order of emission *)
Definition name_diags (ds : list diag) : list diag := filter (fun d => is_name_kind (d_kind d)) ds.
Definition udiags (s : cstate) : list diag := name_diags (cs_diags s).
Definition unbd (us : list use) : list diag := map (fun u : use => mkdiag (snd u) (DUnboundVariable (fst u))) us.
Definition rm_uses (us : list use) (m : list (string * range)) := fold_left (fun acc (u : use) => aremove (fst u) acc) us m.
Definition unb (s : cstate) (us : list use) := filter (fun u : use => negb (amem (fst u) (cs_declared s))) us.

(* what a checking step does to the name bookkeeping, all other diagnostics and fields ignored:
   the only name diagnostics it adds are the unbound uses, in order *)
(* error-severity diagnostics are never retracted *)
Definition mono (s s' : cstate) : Prop :=
  (Nat.leb (errors_count (cs_diags s)) (errors_count (cs_diags s')) && Nat.leb (List.length (cs_diags s)) (List.length (cs_diags s'))) = true.

Lemma mono_le s s' : mono s s' <->
  (errors_count (cs_diags s) <= errors_count (cs_diags s'))%nat /\ (List.length (cs_diags s) <= List.length (cs_diags s'))%nat.
Proof. unfold mono. rewrite Bool.andb_true_iff, !Nat.leb_le. tauto. Qed.

Lemma mono_refl s : mono s s.
Proof. apply mono_le. split; apply le_n. Qed.
Lemma mono_same_diags s s' : cs_diags s' = cs_diags s -> mono s s'.
Proof. intros H. apply mono_le. rewrite H. split; apply le_n. Qed.
Lemma mono_trans a b c : mono a b -> mono b c -> mono a c.
Proof. rewrite !mono_le. intros [A1 A2] [B1 B2]. split; [exact (Nat.le_trans _ _ _ A1 B1)|exact (Nat.le_trans _ _ _ A2 B2)]. Qed.

Definition vstep (us : list use) (s s' : cstate) : Prop :=
  udiags s' = udiags s ++ unbd (unb s us) /\ cs_declared s' = cs_declared s /\ cs_unused s' = rm_uses us (cs_unused s)
  /\ mono s s'.

Definition vsame (s s' : cstate) : Prop :=
  udiags s' = udiags s /\ cs_declared s' = cs_declared s /\ cs_unused s' = cs_unused s /\ mono s s'.

Lemma vsame_refl s : vsame s s. Proof. repeat split. apply mono_refl. Qed.
Lemma vsame_trans a b c : vsame a b -> vsame b c -> vsame a c.
Proof. intros (A1 & A2 & A3 & A4) (B1 & B2 & B3 & B4). split; [congruence|]. split; [congruence|]. split; [congruence|]. exact (mono_trans _ _ _ A4 B4). Qed.

Lemma vstep_of_same s s' : vsame s s' -> vstep [] s s'.
Proof. intros (A & B & C & D). repeat split; [unfold unb, unbd; cbn [filter map]; now rewrite app_nil_r|exact B|exact C|exact D]. Qed.

Lemma vstep_app us1 us2 s1 s2 s3 : vstep us1 s1 s2 -> vstep us2 s2 s3 -> vstep (us1 ++ us2) s1 s3.
Proof.
  intros (A1 & B1 & C1 & D1) (A2 & B2 & C2 & D2). repeat split.
  - rewrite A2, A1. unfold unb, unbd. rewrite B1, filter_app, map_app, app_assoc. reflexivity.
  - congruence.
  - rewrite C2, C1. unfold rm_uses. now rewrite fold_left_app.
  - exact (mono_trans _ _ _ D1 D2).
Qed.

Lemma errors_count_app a b : errors_count (a ++ b) = (errors_count a + errors_count b)%nat.
Proof. unfold errors_count. now rewrite filter_app, app_length. Qed.

Lemma mono_emit r k s : mono s (emit r k s).
Proof. apply mono_le. cbn [emit cs_diags]. rewrite errors_count_app, app_length. lia. Qed.

Lemma mono_extends s s' : extends_diags s s' -> mono s s'.
Proof. intros (D & H & _). apply mono_le. rewrite H, errors_count_app, app_length. lia. Qed.

Lemma vstep_same_l us s0 s s' : vsame s0 s -> vstep us s s' -> vstep us s0 s'.
Proof. intros H1 H2. exact (vstep_app [] us _ _ _ (vstep_of_same _ _ H1) H2). Qed.
Lemma vstep_same_r us s s' s1 : vstep us s s' -> vsame s' s1 -> vstep us s s1.
Proof. intros H1 H2. rewrite <- (app_nil_r us). exact (vstep_app us [] _ _ _ H1 (vstep_of_same _ _ H2)). Qed.

Definition not_unbound (k : diag_kind) : Prop := is_name_kind k = false.

Lemma name_diags_app a b : name_diags (a ++ b) = name_diags a ++ name_diags b.
Proof. apply filter_app. Qed.

Lemma vsame_emit r k s : not_unbound k -> vsame s (emit r k s).
Proof.
  intros Hk. repeat split; [|apply mono_emit]. unfold udiags. cbn [emit cs_diags]. rewrite name_diags_app.
  unfold name_diags at 2. cbn [filter d_kind]. rewrite Hk. now rewrite app_nil_r.
Qed.

Lemma vsame_assert r req act s s' : assert_has_type (Some r) req act s = Ok s' -> vsame s s'.
Proof. intros H. destruct (assert_has_type_spec _ _ _ _ _ H) as [[-> _]| ->]; [apply vsame_refl|apply vsame_emit; reflexivity]. Qed.

Lemma vstep_expr : forall e t s s', check_expression e t s = Ok s' -> vstep (uses_expr e) s s'.
Proof.
  induction e as [| | |r name|r x|r x|r name|r n|r a IHa b IHb|r n d|r op l IHl rr IHr]; intros t s s' H; cbn [check_expression] in H; cbn [uses_expr];
    try discriminate; try (injection H as <-; apply vstep_of_same, vsame_refl); try (apply vstep_of_same; eapply vsame_assert; eassumption).
  - unfold assert_has_type in H. destruct (_ || _); [injection H as <-; apply vstep_of_same, vsame_refl|discriminate].
  - (* variable *)
    cbv zeta in H. destruct (alookup name (cs_declared s)) as [d0|] eqn:Ed.
    + assert (G : forall s2, udiags s2 = udiags s -> cs_declared s2 = cs_declared s -> cs_unused s2 = aremove name (cs_unused s) ->
                  mono s s2 -> vstep [(name, r)] s s2).
      { intros s2 A B C D. unfold vstep, unb, unbd. cbn [filter fst]. unfold amem. rewrite Ed. cbn [negb map]. repeat split; try assumption. now rewrite app_nil_r. }
      destruct (vd_type d0) as [[? ty]|]; [destruct (is_type_allowed ty)|]; try (injection H as <-; apply G; try reflexivity; apply mono_same_diags; reflexivity).
      destruct (assert_has_type_spec _ _ _ _ _ H) as [[-> _]| ->]; [apply G; try reflexivity; apply mono_same_diags; reflexivity|].
      apply G; try reflexivity.
      * unfold udiags. cbn [emit cs_diags]. rewrite name_diags_app. cbn. now rewrite app_nil_r.
      * apply mono_le. cbn [emit cs_diags]. rewrite errors_count_app, app_length. lia.
    + injection H as <-. unfold vstep, unb, unbd. cbn [filter fst]. unfold amem. rewrite Ed. cbn [negb map fst snd]. repeat split; [|apply mono_emit].
      unfold udiags. cbn [emit cs_diags]. rewrite name_diags_app. reflexivity.
  - destruct (assert_has_type (Some r) t TypeMonetary s) as [s1| |] eqn:E1; cbn [bind] in H; try discriminate.
    destruct (check_expression a TypeAsset s1) as [s2| |] eqn:E2; cbn [bind] in H; try discriminate.
    eapply vstep_same_l; [eapply vsame_assert; exact E1|]. eapply vstep_app; [eapply IHa; exact E2|eapply IHb; exact H].
  - destruct (String.eqb t TypeNumber || String.eqb t TypeMonetary).
    + destruct (check_expression l t s) as [s1| |] eqn:E1; cbn [bind] in H; try discriminate.
      eapply vstep_app; [eapply IHl; exact E1|eapply IHr; exact H].
    + cbv zeta in H.
      match type of H with context [assert_has_type (Some r) t ?ty s] => destruct (assert_has_type (Some r) t ty s) as [s0| |] eqn:E0 end; cbn [bind] in H; try discriminate.
      match type of H with context [check_expression l ?ty s0] => destruct (check_expression l ty s0) as [s1| |] eqn:E1 end; cbn [bind] in H; try discriminate.
      eapply vstep_same_l; [eapply vsame_assert; exact E0|]. eapply vstep_app; [eapply IHl; exact E1|eapply IHr; exact H].
Qed.

Lemma vsame_set_uis b s : vsame s (set_unbounded_in_send b s). Proof. repeat split. apply mono_same_diags. reflexivity. Qed.
Lemma vsame_set_em l s : vsame s (set_emptied l s). Proof. repeat split. apply mono_same_diags. reflexivity. Qed.
Lemma vsame_set_us b s : vsame s (set_unbounded_send b s). Proof. repeat split. apply mono_same_diags. reflexivity. Qed.
Lemma vsame_add_fnres r b s : vsame s (add_fnres r b s). Proof. repeat split. apply mono_same_diags. reflexivity. Qed.


Ltac vsame_tac :=
  repeat match goal with
         | |- vsame ?s ?s => apply vsame_refl
         | |- vsame _ (if ?b then _ else _) => destruct b
         | |- vsame _ (emit _ _ _) => eapply vsame_trans; [|apply vsame_emit; reflexivity]
         | |- vsame _ (set_unbounded_in_send _ _) => eapply vsame_trans; [|apply vsame_set_uis]
         | |- vsame _ (set_emptied _ _) => eapply vsame_trans; [|apply vsame_set_em]
         | |- vsame _ (set_unbounded_send _ _) => eapply vsame_trans; [|apply vsame_set_us]
         | |- vsame _ (add_fnres _ _ _) => eapply vsame_trans; [|apply vsame_add_fnres]
         end.

Lemma vstep_with_capped f us s s' :
  (forall s0 s1, f s0 = Ok s1 -> vstep us s0 s1) -> with_capped f s = Ok s' -> vstep us s s'.
Proof.
  intros Hf H. unfold with_capped in H.
  destruct (f (set_unbounded_send false (set_unbounded_in_send false s))) as [s1| |] eqn:E; cbn [bind] in H; try discriminate.
  injection H as <-. eapply vstep_same_l; [|eapply vstep_same_r; [exact (Hf _ _ E)|]]; vsame_tac.
Qed.

Lemma vsame_bad_allotment sum rng rem vars s : vsame s (check_bad_allotment_sum sum rng rem vars s).
Proof.
  unfold check_bad_allotment_sum. destruct (Qcompare sum 1).
  - assert (H : forall l s0, vsame s s0 -> vsame s (fold_left (fun acc r => emit r (DFixedPortionVariable 0) acc) l s0)).
    { induction l as [|x l IH]; intros s0 H0; cbn [fold_left]; [exact H0|]. apply IH. eapply vsame_trans; [exact H0|apply vsame_emit; reflexivity]. }
    destruct rem; [eapply vsame_trans; [apply H, vsame_refl|apply vsame_emit; reflexivity]|apply H, vsame_refl].
  - destruct rem; [apply vsame_refl|]. destruct vars as [|v [|v2 vars]]; try apply vsame_refl; apply vsame_emit; reflexivity.
  - apply vsame_emit; reflexivity.
Qed.

Lemma vstep_allot_clause a is_last whole acc s acc' s' :
  check_allot_clause a is_last whole acc s = Ok (acc', s') -> vstep (uses_allot a) s s'.
Proof.
  destruct a as [| |r n d|r name|r]; cbn [check_allot_clause uses_allot]; intros H; try discriminate.
  - injection H as _ <-. apply vstep_of_same, vsame_refl.
  - destruct (q_of_ratio n d); injection H as _ <-; apply vstep_of_same; [apply vsame_refl|apply vsame_emit; reflexivity].
  - destruct (check_expression (EVar r name) TypePortion s) as [s1| |] eqn:E; cbn [bind] in H; try discriminate.
    injection H as _ <-. exact (vstep_expr _ _ _ _ E).
  - destruct is_last; injection H as _ <-; apply vstep_of_same; [apply vsame_refl|apply vsame_emit; reflexivity].
Qed.

Lemma prelude_same (o : option range) s s0 :
  (if cs_unbounded_in_send s
   then match o with
        | Some r => Ok (emit r DUnboundedAccountIsNotLast s)
        | None => Panic "checkSource: GetRange on a source without expression"
        end
   else Ok s) = (Ok s0 : result unit cstate) -> vsame s s0.
Proof.
  destruct (cs_unbounded_in_send s); [destruct o; [|discriminate]|]; intros H; injection H as <-; [apply vsame_emit; reflexivity|apply vsame_refl].
Qed.

Lemma vstep_source : forall src s s', check_source src s = Ok s' -> vstep (uses_source src) s s'.
Proof.
  induction src as [|e|r l IHl|r items IHi|r f c IH|r a b] using source_ind'; intros s s' H.
  - injection H as <-. apply vstep_of_same, vsame_refl.
  - (* account *)
    cbn [check_source] in H. cbn [uses_source].
    match type of H with (bind ?pre _) = _ => destruct pre as [s0| |] eqn:Ep end; cbn [bind] in H; try discriminate.
    apply prelude_same in Ep. eapply vstep_same_l; [exact Ep|].
    destruct (check_expression e TypeAccount s0) as [s1| |] eqn:E1; cbn [bind] in H; try discriminate.
    eapply vstep_same_r; [exact (vstep_expr _ _ _ _ E1)|].
    destruct e; try (injection H as <-; apply vsame_refl).
    injection H as <-. vsame_tac.
  - (* in order *)
    cbn [check_source] in H. cbn [uses_source].
    match type of H with (bind ?pre _) = _ => destruct pre as [s0| |] eqn:Ep end; cbn [bind] in H; try discriminate.
    apply prelude_same in Ep. eapply vstep_same_l; [exact Ep|]. clear Ep s.
    revert s0 H. induction l as [|x l IHl']; intros s0 H; cbn [flat_map].
    + injection H as <-. apply vstep_of_same, vsame_refl.
    + inversion IHl as [|? ? Hx IHl'']; subst.
      destruct (check_source x s0) as [s1| |] eqn:E1; cbn [bind] in H; try discriminate.
      eapply vstep_app; [exact (Hx _ _ E1)|exact (IHl' IHl'' _ H)].
  - (* allotment *)
    cbn [check_source] in H. cbn [uses_source].
    match type of H with (bind ?pre _) = _ => destruct pre as [s0| |] eqn:Ep end; cbn [bind] in H; try discriminate.
    apply prelude_same in Ep. eapply vstep_same_l; [exact Ep|]. clear Ep s.
    match type of H with (bind ?loop _) = _ => destruct loop as [[acc s2]| |] eqn:El end; cbn [bind] in H; try discriminate.
    injection H as <-. eapply vstep_same_r; [|apply vsame_bad_allotment].
    eapply (vstep_same_l _ _ (if cs_unbounded_send s0 then emit r DNoAllotmentInSendAll s0 else s0)); [vsame_tac|].
    revert El. generalize (mkacc 0 None []) as acc0. generalize (if cs_unbounded_send s0 then emit r DNoAllotmentInSendAll s0 else s0) as s1.
    induction items as [|[[r0 a0] x] items IHi']; intros s1 acc0 El; cbn [flat_map].
    + injection El as _ <-. apply vstep_of_same, vsame_refl.
    + inversion IHi as [|? ? Hx IHi'']; subst. cbn [snd fst] in *.
      destruct (check_allot_clause a0 _ r acc0 s1) as [[acc1 s1']| |] eqn:Ec; cbn [bind] in El; try discriminate.
      destruct (with_capped (check_source x) s1') as [s1''| |] eqn:Ew; cbn [bind] in El; try discriminate.
      rewrite <- app_assoc. eapply vstep_app; [exact (vstep_allot_clause _ _ _ _ _ _ _ Ec)|].
      eapply vstep_app; [exact (vstep_with_capped _ _ _ _ Hx Ew)|exact (IHi' IHi'' _ _ El)].
  - (* capped *)
    cbn [check_source] in H. cbn [uses_source].
    match type of H with (bind ?pre _) = _ => destruct pre as [s0| |] eqn:Ep end; cbn [bind] in H; try discriminate.
    apply prelude_same in Ep. eapply vstep_same_l; [exact Ep|].
    refine (vstep_with_capped _ _ _ _ _ H). intros sa sb Hab.
    destruct (check_expression c TypeMonetary sa) as [s1| |] eqn:E1; cbn [bind] in Hab; try discriminate.
    eapply vstep_app; [exact (vstep_expr _ _ _ _ E1)|exact (IH _ _ Hab)].
  - (* overdraft *)
    cbn [check_source] in H. cbn [uses_source].
    match type of H with (bind ?pre _) = _ => destruct pre as [s0| |] eqn:Ep end; cbn [bind] in H; try discriminate.
    apply prelude_same in Ep. eapply vstep_same_l; [exact Ep|]. clear Ep s.
    match type of H with (bind ?m _) = _ => destruct m as [s3| |] eqn:E3 end; cbn [bind] in H; try discriminate.
    assert (H3 : vsame s0 s3).
    { revert E3. match goal with |- (if ?c then _ else _) = _ -> _ => destruct c end.
      - destruct (expr_range a); [|discriminate]. intros E3. injection E3 as <-.
        eapply vsame_trans; [|apply vsame_emit; reflexivity]. destruct b; destruct a; vsame_tac.
      - intros E3. injection E3 as <-. destruct b; destruct a; vsame_tac. }
    eapply vstep_same_l; [exact H3|].
    destruct (check_expression a TypeAccount s3) as [s4| |] eqn:E4; cbn [bind] in H; try discriminate.
    destruct b as [b|].
    + eapply vstep_app; [exact (vstep_expr _ _ _ _ E4)|exact (vstep_expr _ _ _ _ H)].
    + injection H as <-. rewrite app_nil_r. exact (vstep_expr _ _ _ _ E4).
Qed.

Lemma vstep_dest :
  (forall d s s', check_destination d s = Ok s' -> vstep (uses_dest d) s s') /\
  (forall k s s', check_kod k s = Ok s' -> vstep (uses_kod k) s s').
Proof.
  apply (dest_kod_ind
    (fun d => forall s s', check_destination d s = Ok s' -> vstep (uses_dest d) s s')
    (fun k => forall s s', check_kod k s = Ok s' -> vstep (uses_kod k) s s')).
  - intros s s' H. injection H as <-. apply vstep_of_same, vsame_refl.
  - intros e s s' H. exact (vstep_expr _ _ _ _ H).
  - intros r cl rem Hcl Hrem s s' H. cbn [check_destination] in H. cbn [uses_dest].
    match type of H with (bind ?loop _) = _ => destruct loop as [s1| |] eqn:El end; cbn [bind] in H; try discriminate.
    eapply vstep_app; [|exact (Hrem _ _ H)]. clear H s'.
    revert s El. induction cl as [|[[cr ce] k] l IH]; intros s El; cbn [flat_map].
    + injection El as <-. apply vstep_of_same, vsame_refl.
    + inversion Hcl as [|? ? Hk Hcl']; subst. cbn [snd fst] in *.
      destruct (check_expression ce TypeMonetary s) as [sa| |] eqn:Ea; cbn [bind] in El; try discriminate.
      destruct (check_kod k sa) as [sb| |] eqn:Eb; cbn [bind] in El; try discriminate.
      rewrite <- app_assoc. eapply vstep_app; [exact (vstep_expr _ _ _ _ Ea)|].
      eapply vstep_app; [exact (Hk _ _ Eb)|exact (IH Hcl' _ El)].
  - intros r items Hit s s' H. cbn [check_destination] in H. cbn [uses_dest].
    match type of H with (bind ?loop _) = _ => destruct loop as [[acc s2]| |] eqn:El end; cbn [bind] in H; try discriminate.
    injection H as <-. eapply vstep_same_r; [|apply vsame_bad_allotment].
    revert El. generalize (mkacc 0 None []) as acc0. revert s.
    induction items as [|[[ir a] k] items IH]; intros s acc0 El; cbn [flat_map].
    + injection El as _ <-. apply vstep_of_same, vsame_refl.
    + inversion Hit as [|? ? Hk Hit']; subst. cbn [snd fst] in *.
      destruct (check_allot_clause a _ r acc0 s) as [[acc1 sa]| |] eqn:Ec; cbn [bind] in El; try discriminate.
      destruct (check_kod k sa) as [sb| |] eqn:Eb; cbn [bind] in El; try discriminate.
      rewrite <- app_assoc. eapply vstep_app; [exact (vstep_allot_clause _ _ _ _ _ _ _ Ec)|].
      eapply vstep_app; [exact (Hk _ _ Eb)|exact (IH Hit' _ _ El)].
  - intros s s' H. injection H as <-. apply vstep_of_same, vsame_refl.
  - intros r s s' H. injection H as <-. apply vstep_of_same, vsame_refl.
  - intros d IH s s' H. exact (IH _ _ H).
Qed.

Lemma vstep_sent sv s s' : check_sent_value sv s = Ok s' -> vstep (uses_sent sv) s s'.
Proof.
  destruct sv as [|r m|r a]; cbn [check_sent_value uses_sent]; intros H.
  - injection H as <-. apply vstep_of_same, vsame_refl.
  - exact (vstep_expr _ _ _ _ H).
  - exact (vstep_expr _ _ _ _ H).
Qed.

Lemma vstep_args : forall args sig s s', check_args args sig s = Ok s' -> vstep (flat_map uses_expr args) s s'.
Proof.
  induction args as [|a args IH]; intros sig s s' H; cbn [check_args flat_map] in *.
  - injection H as <-. apply vstep_of_same, vsame_refl.
  - destruct sig as [|t sig].
    + destruct (check_expression a TypeAny s) as [s1| |] eqn:E; cbn [bind] in H; try discriminate.
      eapply vstep_app; [exact (vstep_expr _ _ _ _ E)|exact (IH _ _ _ H)].
    + destruct (check_expression a t s) as [s1| |] eqn:E; cbn [bind] in H; try discriminate.
      eapply vstep_app; [exact (vstep_expr _ _ _ _ E)|exact (IH _ _ _ H)].
Qed.

Lemma uses_filter_nil args : flat_map uses_expr (filter (fun e => negb (is_interface_nil e)) args) = flat_map uses_expr args.
Proof.
  induction args as [|a args IH]; cbn [filter flat_map]; [reflexivity|].
  destruct a; cbn [is_interface_nil negb flat_map uses_expr app]; rewrite IH; reflexivity.
Qed.

Lemma vstep_fncall f res s s' : check_fn_call_arity f res s = Ok s' -> vstep (uses_fncall f) s s'.
Proof.
  unfold check_fn_call_arity, uses_fncall. rewrite <- (uses_filter_nil (fc_args f)).
  set (valid := filter (fun e => negb (is_interface_nil e)) (fc_args f)).
  destruct res as [b|].
  - intros H. match type of H with (bind ?m _) = _ => destruct m as [s1| |] eqn:E1 end; cbn [bind] in H; try discriminate.
    eapply vstep_same_l; [|exact (vstep_args _ _ _ _ H)].
    revert E1. destruct (_ <? _)%nat; [intros E1; injection E1 as <-; apply vsame_emit; reflexivity|].
    destruct (_ <? _)%nat; [|intros E1; injection E1 as <-; apply vsame_refl].
    destruct (nth_error valid _); [|intros E1; injection E1 as <-; apply vsame_refl].
    destruct (last _ _); [|intros E1; injection E1 as <-; apply vsame_refl].
    destruct (expr_range _); [|discriminate]. destruct (expr_range _); [|discriminate].
    intros E1; injection E1 as <-; apply vsame_emit; reflexivity.
  - intros H. destruct (check_args valid [] s) as [s1| |] eqn:E1; cbn [bind] in H; try discriminate.
    injection H as <-. eapply vstep_same_r; [exact (vstep_args _ _ _ _ E1)|apply vsame_emit; reflexivity].
Qed.

Lemma vstep_statement st s s' : check_statement st s = Ok s' -> vstep (uses_stmt st) s s'.
Proof.
  unfold check_statement. destruct st as [| |f|r sv src dst|r sv a]; cbn [uses_stmt]; intros H; try discriminate.
  - injection H as <-. apply vstep_of_same. vsame_tac.
  - eapply vstep_same_l; [|exact (vstep_fncall _ _ _ _ H)].
    destruct (find_builtin (fc_caller f)) as [b|]; [destruct (b_ctx b)|]; vsame_tac.
  - destruct (check_sent_value sv _) as [s1| |] eqn:E1; cbn [bind] in H; try discriminate.
    destruct (check_source src s1) as [s2| |] eqn:E2; cbn [bind] in H; try discriminate.
    eapply vstep_same_l; [|eapply vstep_app; [exact (vstep_sent _ _ _ E1)|eapply vstep_app; [exact (vstep_source _ _ _ E2)|exact (proj1 vstep_dest _ _ _ H)]]].
    vsame_tac.
  - destruct (check_sent_value sv _) as [s1| |] eqn:E1; cbn [bind] in H; try discriminate.
    eapply vstep_same_l; [|eapply vstep_app; [exact (vstep_sent _ _ _ E1)|exact (vstep_expr _ _ _ _ H)]].
    vsame_tac.
Qed.

Lemma vstep_statements : forall ss s s', check_statements ss s = Ok s' -> vstep (flat_map uses_stmt ss) s s'.
Proof.
  induction ss as [|st ss IH]; intros s s' H; cbn [check_statements flat_map] in *.
  - injection H as <-. apply vstep_of_same, vsame_refl.
  - destruct (check_statement st (set_unbounded_in_send false s)) as [s1| |] eqn:E; cbn [bind] in H; try discriminate.
    eapply vstep_app; [|exact (IH _ _ H)]. eapply vstep_same_l; [|exact (vstep_statement _ _ _ E)]. vsame_tac.
Qed.

(* ================= program level ================= *)
Definition dup_diags (ds : list diag) : list use :=
  flat_map (fun d => match d_kind d with DDuplicateVariable n => [(n, d_range d)] | _ => [] end) ds.
Definition unused_diags (ds : list diag) : list use :=
  flat_map (fun d => match d_kind d with DUnusedVar n => [(n, d_range d)] | _ => [] end) ds.

Definition PU (s : cstate) := unbound_diags (cs_diags s).
Definition PD (s : cstate) := dup_diags (cs_diags s).
Definition PN (s : cstate) := unused_diags (cs_diags s).

Lemma proj_name_diags (f : diag -> list use) ds :
  (forall d, is_name_kind (d_kind d) = false -> f d = []) -> flat_map f (name_diags ds) = flat_map f ds.
Proof.
  intros Hf. unfold name_diags. induction ds as [|d ds IH]; cbn [filter flat_map]; [reflexivity|].
  destruct (is_name_kind (d_kind d)) eqn:E; cbn [flat_map]; [now rewrite IH|]. now rewrite (Hf d E), IH.
Qed.

Lemma PU_udiags s : PU s = unbound_diags (udiags s).
Proof. unfold PU, udiags, unbound_diags. symmetry. apply proj_name_diags. intros d H. destruct (d_kind d); try reflexivity; discriminate. Qed.
Lemma PD_udiags s : PD s = dup_diags (udiags s).
Proof. unfold PD, udiags, dup_diags. symmetry. apply proj_name_diags. intros d H. destruct (d_kind d); try reflexivity; discriminate. Qed.
Lemma PN_udiags s : PN s = unused_diags (udiags s).
Proof. unfold PN, udiags, unused_diags. symmetry. apply proj_name_diags. intros d H. destruct (d_kind d); try reflexivity; discriminate. Qed.

Lemma unbound_diags_unbd us : unbound_diags (unbd us) = us.
Proof. unfold unbd, unbound_diags. induction us as [|[n r] us IH]; cbn; [reflexivity|now rewrite IH]. Qed.
Lemma dup_diags_unbd us : dup_diags (unbd us) = [].
Proof. unfold unbd, dup_diags. induction us as [|[n r] us IH]; cbn; [reflexivity|exact IH]. Qed.
Lemma unused_diags_unbd us : unused_diags (unbd us) = [].
Proof. unfold unbd, unused_diags. induction us as [|[n r] us IH]; cbn; [reflexivity|exact IH]. Qed.

(* ---- the specification depends on the declared names through membership only ---- *)
Definition same_names (d1 d2 : list string) : Prop := forall n, mem_str n d1 = mem_str n d2.

Lemma same_names_cons n d1 d2 : same_names d1 d2 -> same_names (n :: d1) (n :: d2).
Proof. intros H x. cbn [mem_str]. now rewrite H. Qed.

Lemma unbound_ext es : forall d1 d2, same_names d1 d2 -> unbound_uses d1 es = unbound_uses d2 es.
Proof.
  induction es as [|[n r|n r] es IH]; intros d1 d2 H; cbn [unbound_uses]; [reflexivity| |].
  - apply IH, same_names_cons, H.
  - rewrite (H n), (IH d1 d2 H). reflexivity.
Qed.
Lemma duplicate_ext es : forall d1 d2, same_names d1 d2 -> duplicate_decls d1 es = duplicate_decls d2 es.
Proof.
  induction es as [|[n r|n r] es IH]; intros d1 d2 H; cbn [duplicate_decls]; [reflexivity| |].
  - rewrite (H n), (IH (n :: d1) (n :: d2) (same_names_cons n _ _ H)). reflexivity.
  - apply IH, H.
Qed.
Lemma unused_ext es : forall d1 d2, same_names d1 d2 -> unused_decls d1 es = unused_decls d2 es.
Proof.
  induction es as [|[n r|n r] es IH]; intros d1 d2 H; cbn [unused_decls]; [reflexivity| |].
  - rewrite (H n), (IH (n :: d1) (n :: d2) (same_names_cons n _ _ H)). reflexivity.
  - apply IH, H.
Qed.

Definition declared_after (d : list string) (es : list event) : list string :=
  fold_left (fun d e => match e with Declare n _ => n :: d | Use _ _ => d end) es d.

Lemma declared_after_ext es : forall d1 d2, same_names d1 d2 -> same_names (declared_after d1 es) (declared_after d2 es).
Proof.
  induction es as [|[n r|n r] es IH]; intros d1 d2 H; cbn [declared_after fold_left]; [exact H| |].
  - apply IH, same_names_cons, H.
  - apply IH, H.
Qed.

Lemma unbound_app es1 : forall d es2, unbound_uses d (es1 ++ es2) = unbound_uses d es1 ++ unbound_uses (declared_after d es1) es2.
Proof.
  induction es1 as [|[n r|n r] es1 IH]; intros d es2; cbn [app unbound_uses declared_after fold_left]; [reflexivity| |].
  - apply IH.
  - rewrite IH, app_assoc. reflexivity.
Qed.
Lemma duplicate_app es1 : forall d es2, duplicate_decls d (es1 ++ es2) = duplicate_decls d es1 ++ duplicate_decls (declared_after d es1) es2.
Proof.
  induction es1 as [|[n r|n r] es1 IH]; intros d es2; cbn [app duplicate_decls declared_after fold_left]; [reflexivity| |].
  - rewrite IH, app_assoc. reflexivity.
  - apply IH.
Qed.
Lemma used_later_app n es1 es2 : used_later n (es1 ++ es2) = used_later n es1 || used_later n es2.
Proof.
  induction es1 as [|[m r|m r] es1 IH]; cbn [app used_later]; [reflexivity|exact IH|]. rewrite IH. now rewrite Bool.orb_assoc.
Qed.
Lemma unused_app es1 : forall d es2,
  unused_decls d (es1 ++ es2) =
  filter (fun u : use => negb (used_later (fst u) es2)) (unused_decls d es1) ++ unused_decls (declared_after d es1) es2.
Proof.
  induction es1 as [|[n r|n r] es1 IH]; intros d es2; cbn [app unused_decls declared_after fold_left]; [reflexivity| |].
  - rewrite IH, used_later_app, filter_app, app_assoc. f_equal. f_equal.
    destruct (mem_str n d); cbn [orb]; [reflexivity|].
    destruct (used_later n es1); cbn [orb filter]; [reflexivity|].
    cbn [fst]. destruct (used_later n es2); reflexivity.
  - apply IH.
Qed.

Definition use_events (us : list use) : list event := map (fun u : use => Use (fst u) (snd u)) us.

Lemma unbound_use_events d us : unbound_uses d (use_events us) = filter (fun u : use => negb (mem_str (fst u) d)) us.
Proof.
  induction us as [|[n r] us IH]; cbn [use_events map unbound_uses filter fst snd]; [reflexivity|].
  fold (use_events us). rewrite IH. destruct (mem_str n d); reflexivity.
Qed.
Lemma duplicate_use_events d us : duplicate_decls d (use_events us) = [].
Proof. induction us as [|[n r] us IH]; cbn [use_events map duplicate_decls]; [reflexivity|exact IH]. Qed.
Lemma unused_use_events d us : unused_decls d (use_events us) = [].
Proof. induction us as [|[n r] us IH]; cbn [use_events map unused_decls]; [reflexivity|exact IH]. Qed.
Lemma declared_after_use_events d us : declared_after d (use_events us) = d.
Proof. unfold declared_after. induction us as [|[n r] us IH]; cbn [use_events map fold_left]; [reflexivity|exact IH]. Qed.

Lemma aremove_filter {A} k (m : list (string * A)) : aremove k m = filter (fun e => negb (String.eqb k (fst e))) m.
Proof.
  induction m as [|[k' v] m IH]; cbn [aremove filter fst]; [reflexivity|]. destruct (String.eqb k k'); cbn [negb]; now rewrite IH.
Qed.

Lemma filter_filter {A} (f g : A -> bool) l : filter f (filter g l) = filter (fun x => g x && f x) l.
Proof.
  induction l as [|x l IH]; cbn [filter]; [reflexivity|]. destruct (g x); cbn [andb filter]; [destruct (f x); now rewrite IH|exact IH].
Qed.

Lemma filter_ext_in' {A} (f g : A -> bool) l : (forall x, f x = g x) -> filter f l = filter g l.
Proof. intros H. induction l as [|x l IH]; cbn [filter]; [reflexivity|]. now rewrite H, IH. Qed.

Lemma rm_uses_filter us : forall m, rm_uses us m = filter (fun e : use => negb (used_later (fst e) (use_events us))) m.
Proof.
  unfold rm_uses. induction us as [|[n r] us IH]; intros m; cbn [fold_left use_events map used_later fst snd].
  - symmetry. clear. induction m as [|x m IHm]; cbn [filter negb]; [reflexivity|]. f_equal. exact IHm.
  - fold (use_events us). rewrite IH, aremove_filter, filter_filter. apply filter_ext_in'. intros [k v]. cbn [fst].
    rewrite String.eqb_sym. now rewrite Bool.negb_orb.
Qed.

(* ---- the step relation on programs ---- *)
Definition dkeys (s : cstate) : list string := map fst (cs_declared s).

Definition pstep (es : list event) (s s' : cstate) : Prop :=
  PU s' = PU s ++ unbound_uses (dkeys s) es
  /\ PD s' = PD s ++ duplicate_decls (dkeys s) es
  /\ PN s' = PN s
  /\ same_names (dkeys s') (declared_after (dkeys s) es)
  /\ cs_unused s' = filter (fun e : use => negb (used_later (fst e) es)) (cs_unused s) ++ unused_decls (dkeys s) es.

Lemma amem_keys {A} n (m : list (string * A)) : amem n m = mem_str n (map fst m).
Proof.
  unfold amem. induction m as [|[k v] m IH]; cbn [alookup map fst mem_str]; [reflexivity|].
  destruct (String.eqb n k); cbn [orb]; [reflexivity|exact IH].
Qed.

Lemma filter_true {A} (l : list A) : filter (fun _ => true) l = l.
Proof. induction l as [|x l IH]; cbn [filter]; [reflexivity|now rewrite IH]. Qed.

Lemma pstep_nil s s' : vsame s s' -> pstep [] s s'.
Proof.
  intros (A & B & C & _). unfold pstep, dkeys. rewrite !PU_udiags, !PD_udiags, !PN_udiags, A, B, C.
  cbn [unbound_uses duplicate_decls unused_decls declared_after fold_left used_later negb]. rewrite !app_nil_r, filter_true.
  repeat split; try (intros n; reflexivity).
Qed.

Lemma pstep_uses us s s' : vstep us s s' -> pstep (use_events us) s s'.
Proof.
  intros (A & B & C & _). unfold pstep, dkeys.
  rewrite !PU_udiags, !PD_udiags, !PN_udiags, A, B, C.
  rewrite unbound_diags_app, unbound_diags_unbd. unfold dup_diags, unused_diags. rewrite !flat_map_app.
  fold (dup_diags (unbd (unb s us))). fold (unused_diags (unbd (unb s us))). rewrite dup_diags_unbd, unused_diags_unbd, !app_nil_r.
  rewrite unbound_use_events, duplicate_use_events, unused_use_events, declared_after_use_events, rm_uses_filter, !app_nil_r.
  repeat split; try (intros n; reflexivity).
  f_equal. unfold unb. apply filter_ext_in'. intros [n r]. cbn [fst]. now rewrite amem_keys.
Qed.

Lemma pstep_app es1 es2 s1 s2 s3 : pstep es1 s1 s2 -> pstep es2 s2 s3 -> pstep (es1 ++ es2) s1 s3.
Proof.
  intros (U1 & D1 & N1 & K1 & X1) (U2 & D2 & N2 & K2 & X2). unfold pstep. repeat split.
  - rewrite U2, U1, unbound_app, <- app_assoc. f_equal. f_equal. apply unbound_ext, K1.
  - rewrite D2, D1, duplicate_app, <- app_assoc. f_equal. f_equal. apply duplicate_ext, K1.
  - congruence.
  - intros n. rewrite (K2 n). unfold declared_after at 2. rewrite fold_left_app. fold (declared_after (dkeys s1) es1).
    apply (declared_after_ext es2 _ _ K1).
  - rewrite X2, X1, unused_app, filter_app, filter_filter, <- app_assoc. f_equal.
    + apply filter_ext_in'. intros [n r]. cbn [fst]. now rewrite used_later_app, Bool.negb_orb.
    + f_equal. apply unused_ext, K1.
Qed.

(* ---- declarations ---- *)
Lemma mem_str_app' c l1 l2 : mem_str c (l1 ++ l2) = mem_str c l1 || mem_str c l2.
Proof. induction l1 as [|x l1 IH]; cbn [mem_str app]; [reflexivity|]. rewrite IH. now rewrite Bool.orb_assoc. Qed.

Definition header_events (d : vardecl) : list event :=
  match vd_name d with Some (r, n) => [Declare n r] | None => [] end.

Definition declare_name (d : vardecl) (s1 : cstate) : cstate :=
  match vd_name d with
  | Some (r, name) =>
      if amem name (cs_declared s1) then emit r (DDuplicateVariable name) s1
      else mkcstate (cs_unbounded_in_send s1) (cs_emptied s1) (cs_unbounded_send s1)
                    (cs_declared s1 ++ [(name, d)]) (cs_unused s1 ++ [(name, r)])
                    (cs_varres s1) (cs_fnres s1) (cs_diags s1)
  | None => s1
  end.

Lemma pstep_declare d s : pstep (header_events d) s (declare_name d s).
Proof.
  unfold header_events, declare_name. destruct (vd_name d) as [[r name]|]; [|apply pstep_nil, vsame_refl].
  unfold pstep, dkeys. cbn [unbound_uses duplicate_decls unused_decls declared_after fold_left used_later negb orb].
  rewrite filter_true, !app_nil_r, <- amem_keys.
  destruct (amem name (cs_declared s)) eqn:Em.
  - unfold PU, PD, PN, unbound_diags, dup_diags, unused_diags. cbn [emit cs_diags cs_declared cs_unused]. rewrite !flat_map_app. cbn [flat_map d_kind d_range app].
    rewrite !app_nil_r. repeat split. intros x. cbn [mem_str]. rewrite amem_keys in Em.
    destruct (String.eqb x name) eqn:E; [apply String.eqb_eq in E; subst x; now rewrite Em|reflexivity].
  - cbn [cs_diags cs_declared cs_unused]. unfold PU, PD, PN. cbn [cs_diags]. rewrite !app_nil_r. repeat split.
    intros x. rewrite map_app, mem_str_app'. cbn [map fst mem_str]. rewrite Bool.orb_false_r. apply Bool.orb_comm.
Qed.

Lemma pstep_same_l es s0 s s' : vsame s0 s -> pstep es s s' -> pstep es s0 s'.
Proof. intros H1 H2. exact (pstep_app [] es _ _ _ (pstep_nil _ _ H1) H2). Qed.
Lemma pstep_same_r es s s' s1 : pstep es s s' -> vsame s' s1 -> pstep es s s1.
Proof. intros H1 H2. rewrite <- (app_nil_r es). exact (pstep_app es [] _ _ _ H1 (pstep_nil _ _ H2)). Qed.

Lemma pstep_var_decl d s s' : check_var_decl d s = Ok s' -> pstep (events_decl d) s s'.
Proof.
  unfold check_var_decl, events_decl. fold (header_events d).
  set (s1 := match vd_type d with Some (r, t) => if is_type_allowed t then s else emit r (DInvalidType t) s | None => s end).
  assert (H1 : vsame s s1) by (unfold s1; destruct (vd_type d) as [[r t]|]; vsame_tac).
  intros H. match type of H with (bind ?m _) = _ => destruct m as [s3| |] eqn:E3 end; cbn [bind] in H; try discriminate.
  injection H as <-. fold (declare_name d s3).
  eapply pstep_same_l; [exact H1|]. eapply pstep_app; [|apply pstep_declare].
  destruct (vd_origin d) as [f|].
  - fold (use_events (uses_fncall f)).
    match type of E3 with (bind ?m _) = _ => destruct m as [s2| |] eqn:E2 end; cbn [bind] in E3; try discriminate.
    eapply pstep_same_l; [|exact (pstep_uses _ _ _ (vstep_fncall _ _ _ _ E3))].
    revert E2. destruct (find_builtin (fc_caller f)) as [b|]; [destruct (b_ctx b)|]; try (intros E2; injection E2 as <-; apply vsame_refl).
    destruct (vd_name d) as [[rn nm]|]; [destruct (vd_type d) as [[rt ty]|]|]; try (intros E2; injection E2 as <-; vsame_tac).
    intros E2. eapply vsame_trans; [apply vsame_add_fnres|exact (vsame_assert _ _ _ _ _ E2)].
  - injection E3 as <-. apply pstep_nil, vsame_refl.
Qed.

Lemma pstep_var_decls : forall ds s s', check_var_decls ds s = Ok s' -> pstep (flat_map events_decl ds) s s'.
Proof.
  induction ds as [|d ds IH]; intros s s' H; cbn [check_var_decls flat_map] in *.
  - injection H as <-. apply pstep_nil, vsame_refl.
  - destruct (check_var_decl d s) as [s1| |] eqn:E; cbn [bind] in H; try discriminate.
    eapply pstep_app; [exact (pstep_var_decl _ _ _ E)|exact (IH _ _ H)].
Qed.

(* the final loop emits one UnusedVar per entry left *)
Lemma fold_unused l : forall s,
  let s' := fold_left (fun acc (e : string * range) => emit (snd e) (DUnusedVar (fst e)) acc) l s in
  PU s' = PU s /\ PD s' = PD s /\ PN s' = PN s ++ l.
Proof.
  induction l as [|[n r] l IH]; intros s; cbn [fold_left].
  - repeat split. now rewrite app_nil_r.
  - destruct (IH (emit r (DUnusedVar n) s)) as (A & B & C). cbn zeta in *. cbn [fst snd] in *. rewrite A, B, C.
    unfold PU, PD, PN, unbound_diags, dup_diags, unused_diags. cbn [emit cs_diags]. rewrite !flat_map_app. cbn [flat_map d_kind d_range app].
    rewrite !app_nil_r, <- app_assoc. repeat split.
Qed.

(* ---- the theorem: for every program the checker accepts to analyse (it never refuses: C18), the
   three families of variable diagnostics are exactly the specification's, in order ---- *)
Theorem check_program_names p s :
  check_default p [] = Ok s ->
  unbound_diags (cs_diags s) = unbound_uses [] (events p)
  /\ dup_diags (cs_diags s) = duplicate_decls [] (events p)
  /\ unused_diags (cs_diags s) = unused_decls [] (events p).
Proof.
  unfold check_default, check_program. intros H.
  destruct (check_var_decls (p_vars p) (initial_cstate [])) as [s1| |] eqn:E1; cbn [bind] in H; try discriminate.
  destruct (check_statements (p_stmts p) s1) as [s2| |] eqn:E2; cbn [bind] in H; try discriminate.
  injection H as <-.
  pose proof (pstep_app _ _ _ _ _ (pstep_var_decls _ _ _ E1) (pstep_uses _ _ _ (vstep_statements _ _ _ E2))) as (U & D & N & _ & X).
  fold (events p) in U, D, X. change (flat_map events_decl (p_vars p) ++ use_events (flat_map uses_stmt (p_stmts p))) with (events p) in *.
  destruct (fold_unused (cs_unused s2) s2) as (A & B & C). cbn zeta in *.
  fold (PU (fold_left (fun acc e => emit (snd e) (DUnusedVar (fst e)) acc) (cs_unused s2) s2)).
  fold (PD (fold_left (fun acc e => emit (snd e) (DUnusedVar (fst e)) acc) (cs_unused s2) s2)).
  fold (PN (fold_left (fun acc e => emit (snd e) (DUnusedVar (fst e)) acc) (cs_unused s2) s2)).
  rewrite A, B, C, U, D, N, X. cbn. repeat split.
Qed.
