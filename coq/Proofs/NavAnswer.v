(* C19, navigation: the answers of the language server at a position are those of
   Spec/Navigation.v. Combines the traversal (NavHover.v) with the resolutions recorded by the
   checker (NavRes.v). *)
From Coq Require Import Lia.
From NS Require Import Check Hover Names Navigation CheckNoPanic NavHover NavRes.

Definition hov (t : target) : hover := match t with TVar r n _ => HVariable r n | TFn r n _ => HBuiltin r n end.

Lemma hrange_hov t : hrange (hov t) = trange t. Proof. destruct t; reflexivity. Qed.

Lemma hov_var_targets before us : map hov (var_targets before us) = hovs us.
Proof. unfold var_targets, hovs. rewrite map_map. reflexivity. Qed.

Lemma hov_fncall_targets ctx before f : map hov (fncall_targets ctx before f) = hov_fncall f.
Proof. unfold fncall_targets, hov_fncall. cbn [map hov]. now rewrite hov_var_targets. Qed.

Lemma hov_decl_targets : forall ds before, map hov (decl_targets before ds) = flat_map hov_vardecl ds.
Proof.
  induction ds as [|d ds IH]; intros before; cbn [decl_targets flat_map]; [reflexivity|].
  rewrite map_app, IH. f_equal. unfold hov_vardecl. destruct (vd_origin d); [apply hov_fncall_targets|reflexivity].
Qed.

Lemma hov_stmt_targets vars st : map hov (stmt_targets vars st) = hov_stmt st.
Proof. destruct st; cbn [stmt_targets hov_stmt]; try apply hov_var_targets. apply hov_fncall_targets. Qed.

Lemma hov_targets p : map hov (targets p) = hov_program p.
Proof.
  unfold targets, hov_program. rewrite map_app, hov_decl_targets. f_equal.
  induction (p_stmts p) as [|s ss IH]; cbn [flat_map]; [reflexivity|]. now rewrite map_app, hov_stmt_targets, IH.
Qed.

(* ---- the traversal returns the one target at the position ---- *)
Lemma at_pos_in p q t : In t (at_pos p q) <-> In t (targets p) /\ contains (trange t) q = true.
Proof. unfold at_pos. apply filter_In. Qed.

Lemma hover_on_target p q t : tree_safe p = true -> nested p = true -> at_pos p q = [t] -> hover_on p q = Ok (Some (hov t)).
Proof.
  intros Hs Hn Ha. destruct (hover_on p q) as [[h|]|u|w] eqn:E.
  - destruct (hover_on_sound _ _ _ E) as [Hin Hc]. rewrite <- hov_targets in Hin. apply in_map_iff in Hin. destruct Hin as [t' [<- Ht']].
    rewrite hrange_hov in Hc. assert (K : In t' (at_pos p q)) by (apply at_pos_in; split; assumption).
    rewrite Ha in K. destruct K as [<-|[]]. reflexivity.
  - exfalso. assert (K : In t (at_pos p q)) by (rewrite Ha; left; reflexivity). apply at_pos_in in K. destruct K as [K1 K2].
    pose proof (hover_on_complete p q Hn E (hov t)) as C. rewrite <- hov_targets, hrange_hov in C.
    rewrite (C (in_map hov _ _ K1)) in K2. discriminate.
  - exfalso. exact (hover_on_no_err _ _ _ E).
  - exfalso. exact (hover_on_no_panic _ _ _ Hs E).
Qed.

Lemma hover_on_nothing p q : tree_safe p = true -> at_pos p q = [] -> hover_on p q = Ok None.
Proof.
  intros Hs Ha. destruct (hover_on p q) as [[h|]|u|w] eqn:E; [|reflexivity| |].
  - exfalso. destruct (hover_on_sound _ _ _ E) as [Hin Hc]. rewrite <- hov_targets in Hin. apply in_map_iff in Hin. destruct Hin as [t' [<- Ht']].
    rewrite hrange_hov in Hc. assert (K : In t' (at_pos p q)) by (apply at_pos_in; split; assumption). rewrite Ha in K. exact K.
  - exfalso. exact (hover_on_no_err _ _ _ E).
  - exfalso. exact (hover_on_no_panic _ _ _ Hs E).
Qed.

(* ---- looking a range up in the recorded resolutions ---- *)
Lemma range_eqb_eq a b : range_eqb a b = true -> a = b.
Proof.
  unfold range_eqb. destruct a as [[al ac] [bl bc]], b as [[cl cc] [dl dc]]. cbn [rstart rend pline pchar].
  rewrite !Bool.andb_true_iff, !Z.eqb_eq. intros [[[-> ->] ->] ->]. reflexivity.
Qed.
Lemma range_eqb_refl a : range_eqb a a = true.
Proof. unfold range_eqb. now rewrite !Z.eqb_refl. Qed.

Lemma find_hd_filter {A} (f : A -> bool) l : find f l = hd_error (filter f l).
Proof. induction l as [|x l IH]; cbn [find filter]; [reflexivity|]. destruct (f x); [reflexivity|exact IH]. Qed.

Lemma filter_rev' {A} (f : A -> bool) l : filter f (rev l) = rev (filter f l).
Proof.
  induction l as [|x l IH]; cbn [rev filter]; [reflexivity|]. rewrite filter_app, IH. cbn [filter].
  destruct (f x); cbn [rev]; [reflexivity|now rewrite app_nil_r].
Qed.

Section Lookup.
  Context {A : Type} (g : target -> list (range * A)).
  Hypothesis g_key : forall t e, In e (g t) -> fst e = trange t.
  Hypothesis g_one : forall t, (List.length (g t) <= 1)%nat.

  Lemma filter_all {B} (f : B -> bool) l : (forall x, In x l -> f x = true) -> filter f l = l.
  Proof. induction l as [|x l IH]; intros H; cbn [filter]; [reflexivity|]. rewrite (H x (or_introl eq_refl)), IH; [reflexivity|]. intros y Hy. apply H. right. exact Hy. Qed.
  Lemma filter_none {B} (f : B -> bool) l : (forall x, In x l -> f x = false) -> filter f l = [].
  Proof. induction l as [|x l IH]; intros H; cbn [filter]; [reflexivity|]. rewrite (H x (or_introl eq_refl)). apply IH. intros y Hy. apply H. right. exact Hy. Qed.

  Lemma entries_at q r : contains r q = true -> forall ts t,
    filter (fun t => contains (trange t) q) ts = [t] -> trange t = r ->
    filter (fun e : range * A => range_eqb (fst e) r) (flat_map g ts) = g t.
  Proof.
    intros Hr. induction ts as [|x ts IH]; intros t H Ht; cbn [filter flat_map] in *; [discriminate|].
    rewrite filter_app. destruct (contains (trange x) q) eqn:Ex.
    - injection H as -> H. rewrite (filter_all _ (g t)), (filter_none _ (flat_map g ts)); [apply app_nil_r| |].
      + intros e He. apply in_flat_map in He. destruct He as [y [Hy He]]. destruct (range_eqb (fst e) r) eqn:Er; [|reflexivity].
        apply range_eqb_eq in Er. rewrite (g_key _ _ He) in Er.
        assert (K : In y (filter (fun t => contains (trange t) q) ts)) by (apply filter_In; split; [exact Hy|rewrite Er; exact Hr]).
        rewrite H in K. destruct K.
      + intros e He. rewrite (g_key _ _ He), Ht. apply range_eqb_refl.
    - rewrite (filter_none _ (g x)); [exact (IH t H Ht)|].
      intros e He. destruct (range_eqb (fst e) r) eqn:Er; [|reflexivity]. apply range_eqb_eq in Er. rewrite (g_key _ _ He) in Er.
      rewrite Er, Hr in Ex. discriminate.
  Qed.

  Lemma lookup_at q ts t : filter (fun t => contains (trange t) q) ts = [t] ->
    lookup_range (trange t) (rev (flat_map g ts)) = match g t with e :: _ => Some (snd e) | [] => None end.
  Proof.
    intros H. assert (Hc : contains (trange t) q = true).
    { assert (K : In t (filter (fun t => contains (trange t) q) ts)) by (rewrite H; left; reflexivity). apply filter_In in K. exact (proj2 K). }
    unfold lookup_range. rewrite find_hd_filter, filter_rev', (entries_at q _ Hc ts t H eq_refl).
    pose proof (g_one t) as L. destruct (g t) as [|e [|e2 l]]; cbn [List.length] in L; [reflexivity|reflexivity|lia].
  Qed.

  Lemma lookup_none q r ts : contains r q = true -> filter (fun t => contains (trange t) q) ts = [] ->
    lookup_range r (rev (flat_map g ts)) = None.
  Proof.
    intros Hr H. unfold lookup_range. rewrite find_hd_filter, filter_rev', filter_none; [reflexivity|].
    intros e He. apply in_flat_map in He. destruct He as [y [Hy He]]. destruct (range_eqb (fst e) r) eqn:Er; [|reflexivity].
    apply range_eqb_eq in Er. rewrite (g_key _ _ He) in Er.
    assert (K : In y (filter (fun t => contains (trange t) q) ts)) by (apply filter_In; split; [exact Hy|rewrite Er; exact Hr]).
    rewrite H in K. destruct K.
  Qed.
  (* the same for any target of a list whose ranges are pairwise distinct *)
  Lemma entries_of ts t : NoDup (map trange ts) -> In t ts ->
    filter (fun e : range * A => range_eqb (fst e) (trange t)) (flat_map g ts) = g t.
  Proof.
    induction ts as [|x ts IH]; intros Hnd Hin; [destruct Hin|]. cbn [map] in Hnd. inversion Hnd as [|? ? Hx Hnd']; subst.
    cbn [flat_map]. rewrite filter_app. destruct Hin as [->|Hin].
    - rewrite (filter_all _ (g t)), (filter_none _ (flat_map g ts)); [apply app_nil_r| |].
      + intros e He. apply in_flat_map in He. destruct He as [y [Hy He]]. destruct (range_eqb (fst e) (trange t)) eqn:Er; [|reflexivity].
        apply range_eqb_eq in Er. rewrite (g_key _ _ He) in Er. exfalso. apply Hx. rewrite <- Er. apply in_map. exact Hy.
      + intros e He. rewrite (g_key _ _ He). apply range_eqb_refl.
    - rewrite (filter_none _ (g x)); [exact (IH Hnd' Hin)|].
      intros e He. destruct (range_eqb (fst e) (trange t)) eqn:Er; [|reflexivity]. apply range_eqb_eq in Er. rewrite (g_key _ _ He) in Er.
      exfalso. apply Hx. rewrite Er. apply in_map. exact Hin.
  Qed.

  Lemma lookup_in ts t : NoDup (map trange ts) -> In t ts ->
    lookup_range (trange t) (rev (flat_map g ts)) = match g t with e :: _ => Some (snd e) | [] => None end.
  Proof.
    intros Hnd Hin. unfold lookup_range. rewrite find_hd_filter, filter_rev', (entries_of ts t Hnd Hin).
    pose proof (g_one t) as L. destruct (g t) as [|e [|e2 l]]; cbn [List.length] in L; [reflexivity|reflexivity|lia].
  Qed.
End Lookup.

Lemma distinct_nodup p : distinct_ranges p = true -> NoDup (map trange (targets p)).
Proof.
  unfold distinct_ranges. generalize (map trange (targets p)). induction l as [|r l IH]; intros H; [constructor|].
  apply andb_prop in H. destruct H as [H1 H2]. constructor; [|exact (IH H2)].
  intros Hin. apply Bool.negb_true_iff in H1. assert (K : existsb (range_eqb r) l = true) by (apply existsb_exists; exists r; split; [exact Hin|apply range_eqb_refl]).
  rewrite K in H1. discriminate.
Qed.

(* where at least one target contains the position, the traversal finds one of them *)
Lemma hover_on_some_target p q : tree_safe p = true -> nested p = true -> at_pos p q <> [] ->
  exists t, In t (at_pos p q) /\ hover_on p q = Ok (Some (hov t)).
Proof.
  intros Hs Hn Ha. destruct (hover_on p q) as [[h|]|u|w] eqn:E.
  - destruct (hover_on_sound _ _ _ E) as [Hin Hc]. rewrite <- hov_targets in Hin. apply in_map_iff in Hin. destruct Hin as [t' [<- Ht']].
    rewrite hrange_hov in Hc. exists t'. split; [apply at_pos_in; split; assumption|reflexivity].
  - exfalso. destruct (at_pos p q) as [|t l] eqn:Et; [apply Ha; reflexivity|].
    assert (K : In t (at_pos p q)) by (rewrite Et; left; reflexivity). apply at_pos_in in K. destruct K as [K1 K2].
    pose proof (hover_on_complete p q Hn E (hov t)) as C. rewrite <- hov_targets, hrange_hov in C.
    rewrite (C (in_map hov _ _ K1)) in K2. discriminate.
  - exfalso. exact (hover_on_no_err _ _ _ E).
  - exfalso. exact (hover_on_no_panic _ _ _ Hs E).
Qed.

Definition var_entry (t : target) : list (range * vardecl) := match t with TVar r _ (Some d) => [(r, d)] | _ => [] end.

Lemma var_entry_key t e : In e (var_entry t) -> fst e = trange t.
Proof. destruct t as [r n [d|]|r n c]; cbn; intros []; subst; try reflexivity; contradiction. Qed.
Lemma var_entry_one t : (List.length (var_entry t) <= 1)%nat.
Proof. destruct t as [r n [d|]|r n c]; cbn; lia. Qed.
Lemma fn_entry_key t e : In e (fn_entry t) -> fst e = trange t.
Proof.
  destruct t as [r n od|r n c]; cbn [fn_entry]; [intros []|]. destruct (find_builtin n) as [b|]; [destruct (ctx_eqb _ _)|]; cbn; intros []; subst; try reflexivity; contradiction.
Qed.
Lemma fn_entry_one t : (List.length (fn_entry t) <= 1)%nat.
Proof. destruct t as [r n od|r n c]; cbn [fn_entry]; [cbn; lia|]. destruct (find_builtin n) as [b|]; [destruct (ctx_eqb _ _)|]; cbn; lia. Qed.

(* ---- declarations referred to by targets are named and, in a safe tree, typed ---- *)
Lemma first_decl_in n ds d : first_decl n ds = Some d -> In d ds /\ named n d = true.
Proof. unfold first_decl. intros H. apply find_some in H. exact H. Qed.

Lemma decl_targets_decls : forall ds before t, In t (decl_targets before ds) ->
  forall r n d, t = TVar r n (Some d) -> In d (before ++ ds) /\ named n d = true.
Proof.
  induction ds as [|d0 ds IH]; intros before t Ht r n d ->; cbn [decl_targets] in Ht; [destruct Ht|].
  apply in_app_or in Ht. destruct Ht as [Ht|Ht].
  - destruct (vd_origin d0) as [f|]; [|destruct Ht]. destruct Ht as [Ht|Ht]; [discriminate|].
    unfold var_targets in Ht. apply in_map_iff in Ht. destruct Ht as [u [Eu _]]. injection Eu as _ <- Ed.
    destruct (first_decl_in _ _ _ Ed) as [I N]. split; [apply in_or_app; left; exact I|exact N].
  - destruct (IH _ _ Ht r n d eq_refl) as [I N]. split; [|exact N]. rewrite <- app_assoc in I. exact I.
Qed.

Lemma target_decl p r n d : In (TVar r n (Some d)) (targets p) -> In d (p_vars p) /\ named n d = true.
Proof.
  unfold targets. intros H. apply in_app_or in H. destruct H as [H|H].
  - exact (decl_targets_decls _ [] _ H r n d eq_refl).
  - apply in_flat_map in H. destruct H as [st [_ H]].
    assert (K : In (TVar r n (Some d)) (var_targets (p_vars p) (uses_stmt st)) \/ exists f, In (TVar r n (Some d)) (var_targets (p_vars p) (uses_fncall f))).
    { destruct st; cbn [stmt_targets] in H; try (left; exact H). destruct H as [H|H]; [discriminate|]. right. eexists. exact H. }
    assert (G : forall us, In (TVar r n (Some d)) (var_targets (p_vars p) us) -> In d (p_vars p) /\ named n d = true).
    { intros us Hu. unfold var_targets in Hu. apply in_map_iff in Hu. destruct Hu as [u [Eu _]]. injection Eu as _ <- Ed. exact (first_decl_in _ _ _ Ed). }
    destruct K as [K|[f K]]; exact (G _ K).
Qed.

Lemma safe_decl p d n : tree_safe p = true -> In d (p_vars p) -> named n d = true ->
  exists nr ty tr, vd_name d = Some (nr, n) /\ vd_type d = Some (tr, ty).
Proof.
  unfold tree_safe, named. intros Hs Hd Hn. apply andb_prop in Hs. destruct Hs as [Hv _]. rewrite forallb_forall in Hv. specialize (Hv d Hd).
  unfold vardecl_safe in Hv. apply andb_prop in Hv. destruct Hv as [_ Hv].
  destruct (vd_name d) as [[nr m]|]; [|discriminate]. apply String.eqb_eq in Hn. subst m.
  destruct (vd_type d) as [[tr ty]|]; [|discriminate]. exists nr, ty, tr. split; reflexivity.
Qed.

(* ================= the theorems ================= *)
Theorem navigation_exact p pd perm cs txt q t :
  tree_safe p = true -> nested p = true -> check_program p pd perm = Ok cs -> at_pos p q = [t] ->
  handle_hover (mkdoc txt p cs) q = Ok (hover_of t) /\ handle_definition (mkdoc txt p cs) q = Ok (definition_of t).
Proof.
  intros Hs Hn Hc Ha. destruct (check_program_resolutions _ _ _ _ Hc) as [Hv Hf].
  pose proof (hover_on_target p q t Hs Hn Ha) as Hh.
  assert (Hin : In t (targets p)) by (assert (K : In t (at_pos p q)) by (rewrite Ha; left; reflexivity); apply at_pos_in in K; exact (proj1 K)).
  unfold handle_hover, handle_definition, goto_definition. cbn [doc_prog doc_check]. rewrite Hh. cbn [bind].
  destruct t as [r n od|r n ctx]; cbn [hov].
  - rewrite Hv. change (var_entries (targets p)) with (flat_map var_entry (targets p)).
    pose proof (lookup_at var_entry var_entry_key var_entry_one q (targets p) (TVar r n od) Ha) as L. cbn [trange] in L.
    rewrite !L. cbn [var_entry].
    destruct od as [d|]; cbn [snd hover_of definition_of]; [|split; reflexivity].
    destruct (target_decl p r n d Hin) as [Hd Hnm]. destruct (safe_decl p d n Hs Hd Hnm) as (nr & ty & tr & En & Et).
    rewrite En, Et. split; reflexivity.
  - rewrite Hf. change (fn_entries (targets p)) with (flat_map fn_entry (targets p)).
    pose proof (lookup_at fn_entry fn_entry_key fn_entry_one q (targets p) (TFn r n ctx) Ha) as L. cbn [trange] in L.
    rewrite !L. cbn [fn_entry hover_of definition_of].
    destruct (find_builtin n) as [b|]; [destruct (ctx_eqb (b_ctx b) ctx)|]; cbn [snd]; split; reflexivity.
Qed.

Theorem navigation_nothing p pd perm cs txt q :
  tree_safe p = true -> check_program p pd perm = Ok cs -> at_pos p q = [] ->
  handle_hover (mkdoc txt p cs) q = Ok None /\ handle_definition (mkdoc txt p cs) q = Ok None.
Proof.
  intros Hs Hc Ha. unfold handle_hover, handle_definition, goto_definition. cbn [doc_prog doc_check].
  rewrite (hover_on_nothing p q Hs Ha). cbn [bind]. split; reflexivity.
Qed.

(* positions lying in SEVERAL targets (the end of one token is the start of the next: `[$a$b]`; Range.Contains
   includes both ends): the answer is that of one of them *)
Theorem navigation_some p pd perm cs txt q :
  tree_safe p = true -> nested p = true -> distinct_ranges p = true -> check_program p pd perm = Ok cs -> at_pos p q <> [] ->
  exists t, In t (at_pos p q)
            /\ handle_hover (mkdoc txt p cs) q = Ok (hover_of t) /\ handle_definition (mkdoc txt p cs) q = Ok (definition_of t).
Proof.
  intros Hs Hn Hd Hc Ha. destruct (check_program_resolutions _ _ _ _ Hc) as [Hv Hf].
  destruct (hover_on_some_target p q Hs Hn Ha) as [t [Ht Hh]]. exists t. split; [exact Ht|].
  assert (Hin : In t (targets p)) by (apply at_pos_in in Ht; exact (proj1 Ht)).
  pose proof (distinct_nodup p Hd) as Hnd.
  unfold handle_hover, handle_definition, goto_definition. cbn [doc_prog doc_check]. rewrite Hh. cbn [bind].
  destruct t as [r n od|r n ctx]; cbn [hov].
  - rewrite Hv. change (var_entries (targets p)) with (flat_map var_entry (targets p)).
    pose proof (lookup_in var_entry var_entry_key var_entry_one (targets p) (TVar r n od) Hnd Hin) as L. cbn [trange] in L.
    rewrite !L. cbn [var_entry].
    destruct od as [d|]; cbn [snd hover_of definition_of]; [|split; reflexivity].
    destruct (target_decl p r n d Hin) as [Hdd Hnm]. destruct (safe_decl p d n Hs Hdd Hnm) as (nr & ty & tr & En & Et).
    rewrite En, Et. split; reflexivity.
  - rewrite Hf. change (fn_entries (targets p)) with (flat_map fn_entry (targets p)).
    pose proof (lookup_in fn_entry fn_entry_key fn_entry_one (targets p) (TFn r n ctx) Hnd Hin) as L. cbn [trange] in L.
    rewrite !L. cbn [fn_entry hover_of definition_of].
    destruct (find_builtin n) as [b|]; [destruct (ctx_eqb (b_ctx b) ctx)|]; cbn [snd]; split; reflexivity.
Qed.
