(* C19, navigation: the hover traversal (analysis/hover.go) finds exactly the targets of
   Spec/Navigation.v - whatever it returns is a variable use / callee name of the tree whose range
   contains the position, and on a tree whose ranges are nested it returns nothing only when no such
   target contains the position. *)
From Coq Require Import Lia.
From NS Require Import Check Hover Names Navigation SyntaxInd.

Definition hrange (h : hover) : range := match h with HVariable r _ | HBuiltin r _ => r end.
Definition hov_use (u : use) : hover := HVariable (snd u) (fst u).
Definition hovs (us : list use) : list hover := map hov_use us.

(* ---- geometry ---- *)
Lemma pos_ge_refl a : pos_ge a a = true.
Proof. unfold pos_ge. rewrite Z.eqb_refl. apply Z.leb_refl. Qed.

Lemma pos_ge_trans a b c : pos_ge a b = true -> pos_ge b c = true -> pos_ge a c = true.
Proof.
  unfold pos_ge.
  destruct (Z.eqb_spec (pline a) (pline b)) as [E1|E1]; destruct (Z.eqb_spec (pline b) (pline c)) as [E2|E2];
    destruct (Z.eqb_spec (pline a) (pline c)) as [E3|E3]; rewrite ?Z.leb_le, ?Z.ltb_lt; lia.
Qed.

Lemma within_refl r : within r r = true.
Proof. unfold within. now rewrite !pos_ge_refl. Qed.

Lemma within_contains a b q : within a b = true -> contains a q = true -> contains b q = true.
Proof.
  unfold within, contains. intros H1 H2. apply andb_prop in H1. apply andb_prop in H2. destruct H1 as [A B], H2 as [C D].
  apply andb_true_intro. split; [exact (pos_ge_trans _ _ _ C A)|exact (pos_ge_trans _ _ _ B D)].
Qed.

Lemma within_trans a b c : within a b = true -> within b c = true -> within a c = true.
Proof.
  unfold within. intros H1 H2. apply andb_prop in H1. apply andb_prop in H2. destruct H1 as [A B], H2 as [C D].
  apply andb_true_intro. split; [exact (pos_ge_trans _ _ _ A C)|exact (pos_ge_trans _ _ _ D B)].
Qed.

Section Hok.
(* [full = false]: only "what is found is a target" (no assumption on the ranges);
   [full = true]: also "nothing found means no target there" (ranges nested) *)
Variable full : bool.
Definition nest (b : bool) : Prop := full = true -> b = true.
Lemma nest_and a b : nest (a && b) -> nest a /\ nest b.
Proof. unfold nest. intros H. split; intros F; destruct (andb_prop _ _ (H F)); assumption. Qed.

Definition hok (hs : list hover) (q : pos) (res : hres) : Prop :=
  match res with
  | Ok (Some h) => In h hs /\ contains (hrange h) q = true
  | Ok None => full = true -> forall h, In h hs -> contains (hrange h) q = false
  | Err _ => False          (* the traversal has no error value *)
  | Panic _ => True         (* excluded separately: C18 *)
  end.

Lemma hok_nil q : hok [] q (Ok None).
Proof. intros _ h []. Qed.

Lemma hok_incl hs hs' q res : (forall h, In h hs <-> In h hs') -> hok hs q res -> hok hs' q res.
Proof.
  intros E. destruct res as [[h|]| |]; cbn [hok]; [|intros H F x Hx; apply (H F), E, Hx|trivial|trivial].
  intros [H1 H2]. split; [apply E, H1|exact H2].
Qed.

Lemma hok_orelse hs1 hs2 q a b : hok hs1 q a -> hok hs2 q (b tt) -> hok (hs1 ++ hs2) q (orelse a b).
Proof.
  destruct a as [[h|]| |]; cbn [hok orelse]; intros Ha Hb; try exact I; try contradiction.
  - destruct Ha as [H1 H2]. split; [apply in_or_app; left; exact H1|exact H2].
  - destruct (b tt) as [[h|]| |]; cbn [hok] in *; try exact I; try contradiction.
    + destruct Hb as [H1 H2]. split; [apply in_or_app; right; exact H1|exact H2].
    + intros F h Hh. apply in_app_or in Hh. destruct Hh as [Hh|Hh]; [apply (Ha F), Hh|apply (Hb F), Hh].
Qed.

(* a skipped part: none of its targets contains the position *)
Lemma hok_skip hs1 hs2 q res : (full = true -> forall h, In h hs1 -> contains (hrange h) q = false) -> hok hs2 q res -> hok (hs1 ++ hs2) q res.
Proof.
  intros H1. destruct res as [[h|]| |]; cbn [hok]; try trivial.
  - intros [A B]. split; [apply in_or_app; right; exact A|exact B].
  - intros H2 F h Hh. apply in_app_or in Hh. destruct Hh as [Hh|Hh]; [apply (H1 F), Hh|apply (H2 F), Hh].
Qed.

Lemma outside r q hs : contains r q = false -> (full = true -> forall h, In h hs -> within (hrange h) r = true) ->
  full = true -> forall h, In h hs -> contains (hrange h) q = false.
Proof.
  intros Hr Hw F h Hh. destruct (contains (hrange h) q) eqn:E; [|reflexivity].
  rewrite (within_contains _ _ _ (Hw F h Hh) E) in Hr. discriminate.
Qed.

Lemma uses_within_hovs r us : nest (uses_within r us) -> full = true -> forall h, In h (hovs us) -> within (hrange h) r = true.
Proof.
  unfold uses_within, hovs. intros H F. specialize (H F). rewrite forallb_forall in H. intros h Hh. apply in_map_iff in Hh. destruct Hh as [u [<- Hu]]. exact (H u Hu).
Qed.

(* pruning by the enclosing node's range *)
Lemma hok_prune r hs q (x : hres) :
  (full = true -> forall h, In h hs -> within (hrange h) r = true) -> hok hs q x -> hok hs q (if contains r q then x else Ok None).
Proof. intros Hw Hx. destruct (contains r q) eqn:E; [exact Hx|]. exact (outside r q hs E Hw). Qed.

Lemma hok_prune_neg r hs q (x : hres) :
  (full = true -> forall h, In h hs -> within (hrange h) r = true) -> hok hs q x -> hok hs q (if negb (contains r q) then Ok None else x).
Proof. intros Hw Hx. destruct (contains r q) eqn:E; cbn [negb]; [exact Hx|]. exact (outside r q hs E Hw). Qed.

Lemma hovs_app a b : hovs (a ++ b) = hovs a ++ hovs b.
Proof. apply map_app. Qed.

Lemma in_swap {A} (a b : list A) : forall h, In h (b ++ a) <-> In h (a ++ b).
Proof. intros h. rewrite !in_app_iff. tauto. Qed.

(* ---- expressions ---- *)
Lemma hok_expr : forall e q, nest (nested_expr e) -> hok (hovs (uses_expr e)) q (hover_expr e q).
Proof.
  induction e as [| | |r name|r x|r x|r name|r n|r a IHa b IHb|r n d|r op l IHl rr IHr]; intros q H; cbn [hover_expr uses_expr hovs map];
    try apply hok_nil; try exact I.
  - destruct (contains r q) eqn:E; cbn [hok].
    + split; [left; reflexivity|exact E].
    + intros _ h [<-|[]]. exact E.
  - cbn [nested_expr] in H. apply nest_and in H. destruct H as [H Hb]. apply nest_and in H. destruct H as [Hw Ha].
    apply hok_prune; [exact (uses_within_hovs _ _ Hw)|]. fold (hovs (uses_expr a ++ uses_expr b)). rewrite hovs_app.
    eapply hok_incl; [apply in_swap|]. apply hok_orelse; [apply IHb, Hb|apply IHa, Ha].
  - cbn [nested_expr] in H. apply nest_and in H. destruct H as [H Hr]. apply nest_and in H. destruct H as [Hw Hl].
    apply hok_prune; [exact (uses_within_hovs _ _ Hw)|]. fold (hovs (uses_expr l ++ uses_expr rr)). rewrite hovs_app.
    apply hok_orelse; [apply IHl, Hl|apply IHr, Hr].
Qed.

Lemma hok_allot a q : hok (hovs (uses_allot a)) q (hover_allot a q).
Proof.
  destruct a as [| |r n d|r name|r]; cbn [hover_allot uses_allot hovs map]; try apply hok_nil; try exact I.
  exact (hok_expr (EVar r name) q (fun _ => eq_refl)).
Qed.

Lemma hovs_flat_map {A} (f : A -> list use) l : hovs (flat_map f l) = flat_map (fun x => hovs (f x)) l.
Proof. induction l as [|x l IH]; cbn [flat_map]; [reflexivity|]. now rewrite hovs_app, IH. Qed.

(* ---- sources ---- *)
Lemma hok_source : forall src q, nest (nested_source src) -> hok (hovs (uses_source src)) q (hover_source src q).
Proof.
  induction src as [|e|r l IHl|r items IHi|r f c IH|r a b] using source_ind'; intros q H.
  - apply hok_nil.
  - cbn [nested_source source_range] in H. cbn [hover_source source_range uses_source].
    destruct (expr_range e) as [re|]; [|exact I]. apply nest_and in H. destruct H as [Hw He].
    apply hok_prune_neg; [exact (uses_within_hovs _ _ Hw)|]. apply hok_expr, He.
  - cbn [nested_source source_range] in H. cbn [hover_source source_range]. apply nest_and in H. destruct H as [Hw Hn].
    apply hok_prune_neg; [exact (uses_within_hovs _ _ Hw)|]. clear Hw. cbn [uses_source].
    induction l as [|x l IHl']; [apply hok_nil|]. inversion IHl as [|? ? Hx IHl'']; subst.
    apply nest_and in Hn. destruct Hn as [H1 H2]. cbn [flat_map]. rewrite hovs_app.
    apply hok_orelse; [apply Hx, H1|apply (IHl' IHl'' H2)].
  - cbn [nested_source source_range] in H. cbn [hover_source source_range]. apply nest_and in H. destruct H as [Hw Hn].
    apply hok_prune_neg; [exact (uses_within_hovs _ _ Hw)|]. clear Hw. cbn [uses_source].
    induction items as [|[[ir a] x] items IHi']; [apply hok_nil|]. inversion IHi as [|? ? Hx IHi'']; subst. cbn [snd] in Hx.
    apply nest_and in Hn. destruct Hn as [H1 H3]. apply nest_and in H1. destruct H1 as [Hwi H2].
    cbn [flat_map fst snd]. rewrite hovs_app.
    destruct (contains ir q) eqn:E.
    + rewrite hovs_app, <- app_assoc. apply hok_orelse; [apply hok_allot|]. apply hok_orelse; [apply Hx, H2|apply (IHi' IHi'' H3)].
    + apply hok_skip; [|apply (IHi' IHi'' H3)]. exact (outside ir q _ E (uses_within_hovs _ _ Hwi)).
  - cbn [nested_source source_range] in H. cbn [hover_source source_range uses_source]. apply nest_and in H. destruct H as [Hw Hn].
    apply nest_and in Hn. destruct Hn as [Hc Hf].
    apply hok_prune_neg; [exact (uses_within_hovs _ _ Hw)|]. rewrite hovs_app. apply hok_orelse; [apply hok_expr, Hc|apply IH, Hf].
  - cbn [nested_source source_range] in H. cbn [hover_source source_range uses_source]. apply nest_and in H. destruct H as [Hw Hn].
    apply nest_and in Hn. destruct Hn as [Ha Hb].
    apply hok_prune_neg; [exact (uses_within_hovs _ _ Hw)|]. rewrite hovs_app. apply hok_orelse; [apply hok_expr, Ha|].
    destruct b as [be|]; [apply hok_expr, Hb|apply hok_nil].
Qed.

(* ---- destinations ---- *)
Lemma hok_dest :
  (forall d q, nest (nested_dest d) -> hok (hovs (uses_dest d)) q (hover_dest d q)) /\
  (forall k q, nest (nested_kod k) -> hok (hovs (uses_kod k)) q (hover_kod k q)).
Proof.
  apply (dest_kod_ind
    (fun d => forall q, nest (nested_dest d) -> hok (hovs (uses_dest d)) q (hover_dest d q))
    (fun k => forall q, nest (nested_kod k) -> hok (hovs (uses_kod k)) q (hover_kod k q))).
  - intros q _. apply hok_nil.
  - intros e q H. cbn [nested_dest dest_range] in H. cbn [hover_dest dest_range uses_dest].
    destruct (expr_range e) as [re|]; [|exact I]. apply nest_and in H. destruct H as [Hw He].
    apply hok_prune_neg; [exact (uses_within_hovs _ _ Hw)|]. apply hok_expr, He.
  - intros r cl rem Hcl Hrem q H. cbn [nested_dest dest_range] in H. cbn [hover_dest dest_range]. apply nest_and in H. destruct H as [Hw Hn].
    apply nest_and in Hn. destruct Hn as [H1 H2].
    apply hok_prune_neg; [exact (uses_within_hovs _ _ Hw)|]. clear Hw. cbn [uses_dest]. rewrite hovs_app.
    apply hok_orelse; [|apply Hrem, H2].
    induction cl as [|[[cr ce] k] l IH]; [apply hok_nil|]. inversion Hcl as [|? ? Hk Hcl']; subst. cbn [snd] in Hk.
    apply nest_and in H1. destruct H1 as [H1 H3]. apply nest_and in H1. destruct H1 as [H1 Hkn]. apply nest_and in H1. destruct H1 as [Hwi Hce].
    cbn [flat_map fst snd]. rewrite hovs_app.
    destruct (contains cr q) eqn:E.
    + rewrite hovs_app, <- app_assoc. apply hok_orelse; [apply hok_expr, Hce|]. apply hok_orelse; [apply Hk, Hkn|apply (IH Hcl' H3)].
    + apply hok_skip; [|apply (IH Hcl' H3)]. exact (outside cr q _ E (uses_within_hovs _ _ Hwi)).
  - intros r items Hit q H. cbn [nested_dest dest_range] in H. cbn [hover_dest dest_range]. apply nest_and in H. destruct H as [Hw Hn].
    apply hok_prune_neg; [exact (uses_within_hovs _ _ Hw)|]. clear Hw. cbn [uses_dest].
    induction items as [|[[ir a] k] items IH]; [apply hok_nil|]. inversion Hit as [|? ? Hk Hit']; subst. cbn [snd] in Hk.
    apply nest_and in Hn. destruct Hn as [H1 H3]. apply nest_and in H1. destruct H1 as [Hwi Hkn].
    cbn [flat_map fst snd]. rewrite hovs_app.
    destruct (contains ir q) eqn:E.
    + rewrite hovs_app, <- app_assoc. apply hok_orelse; [apply hok_allot|]. apply hok_orelse; [apply Hk, Hkn|apply (IH Hit' H3)].
    + apply hok_skip; [|apply (IH Hit' H3)]. exact (outside ir q _ E (uses_within_hovs _ _ Hwi)).
  - intros q _. apply hok_nil.
  - intros r q _. apply hok_nil.
  - intros d IH q H. cbn [nested_kod] in H. cbn [hover_kod uses_kod]. apply IH, H.
Qed.

Lemma hok_sent sv q : nest (nested_sent sv) -> hok (hovs (uses_sent sv)) q (hover_sent sv q).
Proof. destruct sv as [|r m|r a]; cbn [nested_sent hover_sent uses_sent]; intros H; [apply hok_nil|apply hok_expr, H|apply hok_expr, H]. Qed.

(* ---- function calls: the callee's name is a target too ---- *)
Definition hov_fncall (f : fncall) : list hover := HBuiltin (fc_caller_range f) (fc_caller f) :: hovs (uses_fncall f).

Lemma nest_forallb {A} (f : A -> bool) x l : nest (forallb f (x :: l)) -> nest (f x) /\ nest (forallb f l).
Proof. cbn [forallb]. apply nest_and. Qed.

Lemma hok_args args q : nest (forallb nested_expr args) ->
  hok (hovs (flat_map uses_expr args)) q
      ((fix go (l : list expr) : hres := match l with [] => Ok None | a :: l' => orelse (hover_expr a q) (fun _ => go l') end) args).
Proof.
  induction args as [|a l IH]; intros H; [apply hok_nil|]. apply nest_forallb in H. destruct H as [Ha Hl].
  cbn [flat_map]. rewrite hovs_app. apply hok_orelse; [apply hok_expr, Ha|apply IH, Hl].
Qed.

Lemma hok_fncall f q : nest (nested_fncall f) -> hok (hov_fncall f) q (hover_fncall f q).
Proof.
  unfold nested_fncall, hover_fncall, hov_fncall. intros H. apply nest_and in H. destruct H as [H Ha]. apply nest_and in H. destruct H as [Hc Hw].
  apply hok_prune_neg.
  - intros F h [<-|Hh]; [exact (Hc F)|exact (uses_within_hovs _ _ Hw F h Hh)].
  - destruct (contains (fc_caller_range f) q) eqn:E.
    + cbn [hok]. split; [left; reflexivity|exact E].
    + change (HBuiltin (fc_caller_range f) (fc_caller f) :: hovs (uses_fncall f)) with ([HBuiltin (fc_caller_range f) (fc_caller f)] ++ hovs (uses_fncall f)).
      apply hok_skip; [intros _ h [<-|[]]; exact E|]. exact (hok_args _ q Ha).
Qed.

(* ---- statements, declarations, programs ---- *)
Definition hov_stmt (s : stmt) : list hover :=
  match s with StFnCall f => hov_fncall f | _ => hovs (uses_stmt s) end.

Lemma hok_stmt s q : nest (nested_stmt s) -> hok (hov_stmt s) q (hover_stmt s q).
Proof.
  destruct s as [| |f|r sv src dst|r sv a]; cbn [nested_stmt hover_stmt hov_stmt]; intros H; try apply hok_nil; try exact I.
  - apply hok_fncall, H.
  - apply nest_and in H. destruct H as [H Hd]. apply nest_and in H. destruct H as [H Hs]. apply nest_and in H. destruct H as [Hw Hv].
    apply hok_prune_neg; [exact (uses_within_hovs _ _ Hw)|]. cbn [uses_stmt]. rewrite !hovs_app.
    apply hok_orelse; [apply hok_sent, Hv|]. apply hok_orelse; [apply hok_source, Hs|apply (proj1 hok_dest), Hd].
  - apply nest_and in H. destruct H as [H Ha]. apply nest_and in H. destruct H as [Hw Hv].
    apply hok_prune_neg; [exact (uses_within_hovs _ _ Hw)|]. cbn [uses_stmt]. rewrite !hovs_app.
    apply hok_orelse; [apply hok_sent, Hv|apply hok_expr, Ha].
Qed.

Definition hov_vardecl (d : vardecl) : list hover :=
  match vd_origin d with Some f => hov_fncall f | None => [] end.

Lemma hok_vardecl d q : nest (nested_vardecl d) -> hok (hov_vardecl d) q (hover_vardecl d q).
Proof.
  unfold nested_vardecl, hover_vardecl, hov_vardecl. destruct (vd_origin d) as [f|].
  - intros H. apply nest_and in H. destruct H as [H Hf]. apply nest_and in H. destruct H as [Hc Hw].
    apply hok_prune_neg; [|apply hok_fncall, Hf].
    unfold hov_fncall. intros F h [<-|Hh]; [exact (Hc F)|exact (uses_within_hovs _ _ Hw F h Hh)].
  - intros _. destruct (negb _); apply hok_nil.
Qed.

Definition hov_program (p : program) : list hover := flat_map hov_vardecl (p_vars p) ++ flat_map hov_stmt (p_stmts p).

Lemma hok_program p q : nest (nested p) -> hok (hov_program p) q (hover_on p q).
Proof.
  unfold nested, hover_on, hov_program. intros H. apply nest_and in H. destruct H as [Hv Hs].
  apply hok_orelse.
  - induction (p_vars p) as [|d ds IH]; [apply hok_nil|]. apply nest_forallb in Hv. destruct Hv as [Hd Hds].
    cbn [flat_map]. apply hok_orelse; [apply hok_vardecl, Hd|apply IH, Hds].
  - induction (p_stmts p) as [|s ss IH]; [apply hok_nil|]. apply nest_forallb in Hs. destruct Hs as [Hd Hds].
    cbn [flat_map]. apply hok_orelse; [apply hok_stmt, Hd|apply IH, Hds].
Qed.
End Hok.

(* whatever the traversal returns is a target whose range contains the position - no assumption *)
Theorem hover_on_sound p q h : hover_on p q = Ok (Some h) -> In h (hov_program p) /\ contains (hrange h) q = true.
Proof.
  intros H. pose proof (hok_program false p q (fun F => False_ind _ (Bool.diff_false_true F))) as K. rewrite H in K. exact K.
Qed.

(* on nested ranges, nothing returned means that no target contains the position *)
Theorem hover_on_complete p q : nested p = true -> hover_on p q = Ok None -> forall h, In h (hov_program p) -> contains (hrange h) q = false.
Proof.
  intros N H. pose proof (hok_program true p q (fun _ => N)) as K. rewrite H in K. exact (K eq_refl).
Qed.

Theorem hover_on_no_err p q u : hover_on p q <> Err u.
Proof.
  intros H. pose proof (hok_program false p q (fun F => False_ind _ (Bool.diff_false_true F))) as K. rewrite H in K. exact K.
Qed.
