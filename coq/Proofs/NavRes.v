(* C19, navigation: what the checker records for hover / go-to-definition. Every use of a variable
   that has a declaration in scope is entered in varResolution with that declaration (uses are
   keyed by their range in the model, by the node's address in Go); nothing else touches it.
   The chain of lemmas mirrors Proofs/NamesScript.v with a different view of the state. *)
From Coq Require Import Lia.
From NS Require Import Check Hover Names Navigation SyntaxInd SoundnessProofs.

Definition res_uses (decl : list (string * vardecl)) (us : list use) : list (range * vardecl) :=
  flat_map (fun u : use => match alookup (fst u) decl with Some d => [(snd u, d)] | None => [] end) us.

Definition rstep (us : list use) (s s' : cstate) : Prop :=
  cs_declared s' = cs_declared s /\ cs_fnres s' = cs_fnres s /\
  cs_varres s' = rev (res_uses (cs_declared s) us) ++ cs_varres s.

Definition rsame (s s' : cstate) : Prop :=
  cs_declared s' = cs_declared s /\ cs_fnres s' = cs_fnres s /\ cs_varres s' = cs_varres s.

Lemma rsame_refl s : rsame s s. Proof. repeat split. Qed.
Lemma rsame_trans a b c : rsame a b -> rsame b c -> rsame a c.
Proof. intros (A1 & A2 & A3) (B1 & B2 & B3). repeat split; congruence. Qed.

Lemma rstep_of_same s s' : rsame s s' -> rstep [] s s'.
Proof. intros (A & B & C). repeat split; assumption. Qed.

Lemma res_uses_app decl a b : res_uses decl (a ++ b) = res_uses decl a ++ res_uses decl b.
Proof. apply flat_map_app. Qed.

Lemma rstep_app us1 us2 s1 s2 s3 : rstep us1 s1 s2 -> rstep us2 s2 s3 -> rstep (us1 ++ us2) s1 s3.
Proof.
  intros (A1 & B1 & C1) (A2 & B2 & C2). repeat split; try congruence.
  rewrite C2, C1, A1, res_uses_app, rev_app_distr, app_assoc. reflexivity.
Qed.

Lemma rstep_same_l us s0 s s' : rsame s0 s -> rstep us s s' -> rstep us s0 s'.
Proof. intros H1 H2. exact (rstep_app [] us _ _ _ (rstep_of_same _ _ H1) H2). Qed.
Lemma rstep_same_r us s s' s1 : rstep us s s' -> rsame s' s1 -> rstep us s s1.
Proof. intros H1 H2. rewrite <- (app_nil_r us). exact (rstep_app us [] _ _ _ H1 (rstep_of_same _ _ H2)). Qed.

Lemma rsame_emit r k s : rsame s (emit r k s).
Proof. repeat split. Qed.

Lemma rsame_assert r req act s s' : assert_has_type (Some r) req act s = Ok s' -> rsame s s'.
Proof. intros H. destruct (assert_has_type_spec _ _ _ _ _ H) as [[-> _]| ->]; [apply rsame_refl|apply rsame_emit]. Qed.

Lemma rstep_expr : forall e t s s', check_expression e t s = Ok s' -> rstep (uses_expr e) s s'.
Proof.
  induction e as [| | |r name|r x|r x|r name|r n|r a IHa b IHb|r n d|r op l IHl rr IHr]; intros t s s' H; cbn [check_expression] in H; cbn [uses_expr];
    try discriminate; try (injection H as <-; apply rstep_of_same, rsame_refl); try (apply rstep_of_same; eapply rsame_assert; eassumption).
  - unfold assert_has_type in H. destruct (_ || _); [injection H as <-; apply rstep_of_same, rsame_refl|discriminate].
  - (* variable *)
    cbv zeta in H. unfold rstep, res_uses. cbn [flat_map fst snd]. destruct (alookup name (cs_declared s)) as [d0|] eqn:Ed.
    + assert (G : forall s2, cs_declared s2 = cs_declared s -> cs_fnres s2 = cs_fnres s -> cs_varres s2 = (r, d0) :: cs_varres s ->
                  cs_declared s2 = cs_declared s /\ cs_fnres s2 = cs_fnres s /\ cs_varres s2 = rev ([(r, d0)] ++ []) ++ cs_varres s).
      { intros s2 A B C. repeat split; assumption. }
      destruct (vd_type d0) as [[? ty]|]; [destruct (is_type_allowed ty)|]; try (injection H as <-; apply G; reflexivity).
      destruct (assert_has_type_spec _ _ _ _ _ H) as [[-> _]| ->]; apply G; reflexivity.
    + injection H as <-. repeat split.
  - destruct (assert_has_type (Some r) t TypeMonetary s) as [s1| |] eqn:E1; cbn [bind] in H; try discriminate.
    destruct (check_expression a TypeAsset s1) as [s2| |] eqn:E2; cbn [bind] in H; try discriminate.
    eapply rstep_same_l; [eapply rsame_assert; exact E1|]. eapply rstep_app; [eapply IHa; exact E2|eapply IHb; exact H].
  - destruct (String.eqb t TypeNumber || String.eqb t TypeMonetary).
    + destruct (check_expression l t s) as [s1| |] eqn:E1; cbn [bind] in H; try discriminate.
      eapply rstep_app; [eapply IHl; exact E1|eapply IHr; exact H].
    + cbv zeta in H.
      match type of H with context [assert_has_type (Some r) t ?ty s] => destruct (assert_has_type (Some r) t ty s) as [s0| |] eqn:E0 end; cbn [bind] in H; try discriminate.
      match type of H with context [check_expression l ?ty s0] => destruct (check_expression l ty s0) as [s1| |] eqn:E1 end; cbn [bind] in H; try discriminate.
      eapply rstep_same_l; [eapply rsame_assert; exact E0|]. eapply rstep_app; [eapply IHl; exact E1|eapply IHr; exact H].
Qed.

Lemma rsame_set_uis b s : rsame s (set_unbounded_in_send b s). Proof. repeat split. Qed.
Lemma rsame_set_em l s : rsame s (set_emptied l s). Proof. repeat split. Qed.
Lemma rsame_set_us b s : rsame s (set_unbounded_send b s). Proof. repeat split. Qed.

Ltac rsame_tac :=
  repeat match goal with
         | |- rsame ?s ?s => apply rsame_refl
         | |- rsame _ (if ?b then _ else _) => destruct b
         | |- rsame _ (emit _ _ _) => eapply rsame_trans; [|apply rsame_emit; reflexivity]
         | |- rsame _ (set_unbounded_in_send _ _) => eapply rsame_trans; [|apply rsame_set_uis]
         | |- rsame _ (set_emptied _ _) => eapply rsame_trans; [|apply rsame_set_em]
         | |- rsame _ (set_unbounded_send _ _) => eapply rsame_trans; [|apply rsame_set_us]
         end.

Lemma rstep_with_capped f us s s' :
  (forall s0 s1, f s0 = Ok s1 -> rstep us s0 s1) -> with_capped f s = Ok s' -> rstep us s s'.
Proof.
  intros Hf H. unfold with_capped in H.
  destruct (f (set_unbounded_send false (set_unbounded_in_send false s))) as [s1| |] eqn:E; cbn [bind] in H; try discriminate.
  injection H as <-. eapply rstep_same_l; [|eapply rstep_same_r; [exact (Hf _ _ E)|]]; rsame_tac.
Qed.

Lemma rsame_bad_allotment sum rng rem vars s : rsame s (check_bad_allotment_sum sum rng rem vars s).
Proof.
  unfold check_bad_allotment_sum. destruct (Qcompare sum 1).
  - assert (H : forall l s0, rsame s s0 -> rsame s (fold_left (fun acc r => emit r (DFixedPortionVariable 0) acc) l s0)).
    { induction l as [|x l IH]; intros s0 H0; cbn [fold_left]; [exact H0|]. apply IH. eapply rsame_trans; [exact H0|apply rsame_emit; reflexivity]. }
    destruct rem; [eapply rsame_trans; [apply H, rsame_refl|apply rsame_emit; reflexivity]|apply H, rsame_refl].
  - destruct rem; [apply rsame_refl|]. destruct vars as [|v [|v2 vars]]; try apply rsame_refl; apply rsame_emit; reflexivity.
  - apply rsame_emit; reflexivity.
Qed.

Lemma rstep_allot_clause a is_last whole acc s acc' s' :
  check_allot_clause a is_last whole acc s = Ok (acc', s') -> rstep (uses_allot a) s s'.
Proof.
  destruct a as [| |r n d|r name|r]; cbn [check_allot_clause uses_allot]; intros H; try discriminate.
  - injection H as _ <-. apply rstep_of_same, rsame_refl.
  - destruct (q_of_ratio n d); injection H as _ <-; apply rstep_of_same; [apply rsame_refl|apply rsame_emit; reflexivity].
  - destruct (check_expression (EVar r name) TypePortion s) as [s1| |] eqn:E; cbn [bind] in H; try discriminate.
    injection H as _ <-. exact (rstep_expr _ _ _ _ E).
  - destruct is_last; injection H as _ <-; apply rstep_of_same; [apply rsame_refl|apply rsame_emit; reflexivity].
Qed.

Lemma prelude_same (o : option range) s s0 :
  (if cs_unbounded_in_send s
   then match o with
        | Some r => Ok (emit r DUnboundedAccountIsNotLast s)
        | None => Panic "checkSource: GetRange on a source without expression"
        end
   else Ok s) = (Ok s0 : result unit cstate) -> rsame s s0.
Proof.
  destruct (cs_unbounded_in_send s); [destruct o; [|discriminate]|]; intros H; injection H as <-; [apply rsame_emit; reflexivity|apply rsame_refl].
Qed.

Lemma rstep_source : forall src s s', check_source src s = Ok s' -> rstep (uses_source src) s s'.
Proof.
  induction src as [|e|r l IHl|r items IHi|r f c IH|r a b] using source_ind'; intros s s' H.
  - injection H as <-. apply rstep_of_same, rsame_refl.
  - (* account *)
    cbn [check_source] in H. cbn [uses_source].
    match type of H with (bind ?pre _) = _ => destruct pre as [s0| |] eqn:Ep end; cbn [bind] in H; try discriminate.
    apply prelude_same in Ep. eapply rstep_same_l; [exact Ep|].
    destruct (check_expression e TypeAccount s0) as [s1| |] eqn:E1; cbn [bind] in H; try discriminate.
    eapply rstep_same_r; [exact (rstep_expr _ _ _ _ E1)|].
    destruct e; try (injection H as <-; apply rsame_refl).
    injection H as <-. rsame_tac.
  - (* in order *)
    cbn [check_source] in H. cbn [uses_source].
    match type of H with (bind ?pre _) = _ => destruct pre as [s0| |] eqn:Ep end; cbn [bind] in H; try discriminate.
    apply prelude_same in Ep. eapply rstep_same_l; [exact Ep|]. clear Ep s.
    revert s0 H. induction l as [|x l IHl']; intros s0 H; cbn [flat_map].
    + injection H as <-. apply rstep_of_same, rsame_refl.
    + inversion IHl as [|? ? Hx IHl'']; subst.
      destruct (check_source x s0) as [s1| |] eqn:E1; cbn [bind] in H; try discriminate.
      eapply rstep_app; [exact (Hx _ _ E1)|exact (IHl' IHl'' _ H)].
  - (* allotment *)
    cbn [check_source] in H. cbn [uses_source].
    match type of H with (bind ?pre _) = _ => destruct pre as [s0| |] eqn:Ep end; cbn [bind] in H; try discriminate.
    apply prelude_same in Ep. eapply rstep_same_l; [exact Ep|]. clear Ep s.
    match type of H with (bind ?loop _) = _ => destruct loop as [[acc s2]| |] eqn:El end; cbn [bind] in H; try discriminate.
    injection H as <-. eapply rstep_same_r; [|apply rsame_bad_allotment].
    eapply (rstep_same_l _ _ (if cs_unbounded_send s0 then emit r DNoAllotmentInSendAll s0 else s0)); [rsame_tac|].
    revert El. generalize (mkacc 0 None []) as acc0. generalize (if cs_unbounded_send s0 then emit r DNoAllotmentInSendAll s0 else s0) as s1.
    induction items as [|[[r0 a0] x] items IHi']; intros s1 acc0 El; cbn [flat_map].
    + injection El as _ <-. apply rstep_of_same, rsame_refl.
    + inversion IHi as [|? ? Hx IHi'']; subst. cbn [snd fst] in *.
      destruct (check_allot_clause a0 _ r acc0 s1) as [[acc1 s1']| |] eqn:Ec; cbn [bind] in El; try discriminate.
      destruct (with_capped (check_source x) s1') as [s1''| |] eqn:Ew; cbn [bind] in El; try discriminate.
      rewrite <- app_assoc. eapply rstep_app; [exact (rstep_allot_clause _ _ _ _ _ _ _ Ec)|].
      eapply rstep_app; [exact (rstep_with_capped _ _ _ _ Hx Ew)|exact (IHi' IHi'' _ _ El)].
  - (* capped *)
    cbn [check_source] in H. cbn [uses_source].
    match type of H with (bind ?pre _) = _ => destruct pre as [s0| |] eqn:Ep end; cbn [bind] in H; try discriminate.
    apply prelude_same in Ep. eapply rstep_same_l; [exact Ep|].
    refine (rstep_with_capped _ _ _ _ _ H). intros sa sb Hab.
    destruct (check_expression c TypeMonetary sa) as [s1| |] eqn:E1; cbn [bind] in Hab; try discriminate.
    eapply rstep_app; [exact (rstep_expr _ _ _ _ E1)|exact (IH _ _ Hab)].
  - (* overdraft *)
    cbn [check_source] in H. cbn [uses_source].
    match type of H with (bind ?pre _) = _ => destruct pre as [s0| |] eqn:Ep end; cbn [bind] in H; try discriminate.
    apply prelude_same in Ep. eapply rstep_same_l; [exact Ep|]. clear Ep s.
    match type of H with (bind ?m _) = _ => destruct m as [s3| |] eqn:E3 end; cbn [bind] in H; try discriminate.
    assert (H3 : rsame s0 s3).
    { revert E3. match goal with |- (if ?c then _ else _) = _ -> _ => destruct c end.
      - destruct (expr_range a); [|discriminate]. intros E3. injection E3 as <-.
        eapply rsame_trans; [|apply rsame_emit; reflexivity]. destruct b; destruct a; rsame_tac.
      - intros E3. injection E3 as <-. destruct b; destruct a; rsame_tac. }
    eapply rstep_same_l; [exact H3|].
    destruct (check_expression a TypeAccount s3) as [s4| |] eqn:E4; cbn [bind] in H; try discriminate.
    destruct b as [b|].
    + eapply rstep_app; [exact (rstep_expr _ _ _ _ E4)|exact (rstep_expr _ _ _ _ H)].
    + injection H as <-. rewrite app_nil_r. exact (rstep_expr _ _ _ _ E4).
Qed.

Lemma rstep_dest :
  (forall d s s', check_destination d s = Ok s' -> rstep (uses_dest d) s s') /\
  (forall k s s', check_kod k s = Ok s' -> rstep (uses_kod k) s s').
Proof.
  apply (dest_kod_ind
    (fun d => forall s s', check_destination d s = Ok s' -> rstep (uses_dest d) s s')
    (fun k => forall s s', check_kod k s = Ok s' -> rstep (uses_kod k) s s')).
  - intros s s' H. injection H as <-. apply rstep_of_same, rsame_refl.
  - intros e s s' H. exact (rstep_expr _ _ _ _ H).
  - intros r cl rem Hcl Hrem s s' H. cbn [check_destination] in H. cbn [uses_dest].
    match type of H with (bind ?loop _) = _ => destruct loop as [s1| |] eqn:El end; cbn [bind] in H; try discriminate.
    eapply rstep_app; [|exact (Hrem _ _ H)]. clear H s'.
    revert s El. induction cl as [|[[cr ce] k] l IH]; intros s El; cbn [flat_map].
    + injection El as <-. apply rstep_of_same, rsame_refl.
    + inversion Hcl as [|? ? Hk Hcl']; subst. cbn [snd fst] in *.
      destruct (check_expression ce TypeMonetary s) as [sa| |] eqn:Ea; cbn [bind] in El; try discriminate.
      destruct (check_kod k sa) as [sb| |] eqn:Eb; cbn [bind] in El; try discriminate.
      rewrite <- app_assoc. eapply rstep_app; [exact (rstep_expr _ _ _ _ Ea)|].
      eapply rstep_app; [exact (Hk _ _ Eb)|exact (IH Hcl' _ El)].
  - intros r items Hit s s' H. cbn [check_destination] in H. cbn [uses_dest].
    match type of H with (bind ?loop _) = _ => destruct loop as [[acc s2]| |] eqn:El end; cbn [bind] in H; try discriminate.
    injection H as <-. eapply rstep_same_r; [|apply rsame_bad_allotment].
    revert El. generalize (mkacc 0 None []) as acc0. revert s.
    induction items as [|[[ir a] k] items IH]; intros s acc0 El; cbn [flat_map].
    + injection El as _ <-. apply rstep_of_same, rsame_refl.
    + inversion Hit as [|? ? Hk Hit']; subst. cbn [snd fst] in *.
      destruct (check_allot_clause a _ r acc0 s) as [[acc1 sa]| |] eqn:Ec; cbn [bind] in El; try discriminate.
      destruct (check_kod k sa) as [sb| |] eqn:Eb; cbn [bind] in El; try discriminate.
      rewrite <- app_assoc. eapply rstep_app; [exact (rstep_allot_clause _ _ _ _ _ _ _ Ec)|].
      eapply rstep_app; [exact (Hk _ _ Eb)|exact (IH Hit' _ _ El)].
  - intros s s' H. injection H as <-. apply rstep_of_same, rsame_refl.
  - intros r s s' H. injection H as <-. apply rstep_of_same, rsame_refl.
  - intros d IH s s' H. exact (IH _ _ H).
Qed.

Lemma rstep_sent sv s s' : check_sent_value sv s = Ok s' -> rstep (uses_sent sv) s s'.
Proof.
  destruct sv as [|r m|r a]; cbn [check_sent_value uses_sent]; intros H.
  - injection H as <-. apply rstep_of_same, rsame_refl.
  - exact (rstep_expr _ _ _ _ H).
  - exact (rstep_expr _ _ _ _ H).
Qed.

Lemma rstep_args : forall args sig s s', check_args args sig s = Ok s' -> rstep (flat_map uses_expr args) s s'.
Proof.
  induction args as [|a args IH]; intros sig s s' H; cbn [check_args flat_map] in *.
  - injection H as <-. apply rstep_of_same, rsame_refl.
  - destruct sig as [|t sig].
    + destruct (check_expression a TypeAny s) as [s1| |] eqn:E; cbn [bind] in H; try discriminate.
      eapply rstep_app; [exact (rstep_expr _ _ _ _ E)|exact (IH _ _ _ H)].
    + destruct (check_expression a t s) as [s1| |] eqn:E; cbn [bind] in H; try discriminate.
      eapply rstep_app; [exact (rstep_expr _ _ _ _ E)|exact (IH _ _ _ H)].
Qed.

Lemma uses_filter_nil args : flat_map uses_expr (filter (fun e => negb (is_interface_nil e)) args) = flat_map uses_expr args.
Proof.
  induction args as [|a args IH]; cbn [filter flat_map]; [reflexivity|].
  destruct a; cbn [is_interface_nil negb flat_map uses_expr app]; rewrite IH; reflexivity.
Qed.

Lemma rstep_fncall f res s s' : check_fn_call_arity f res s = Ok s' -> rstep (uses_fncall f) s s'.
Proof.
  unfold check_fn_call_arity, uses_fncall. rewrite <- (uses_filter_nil (fc_args f)).
  set (valid := filter (fun e => negb (is_interface_nil e)) (fc_args f)).
  destruct res as [b|].
  - intros H. match type of H with (bind ?m _) = _ => destruct m as [s1| |] eqn:E1 end; cbn [bind] in H; try discriminate.
    eapply rstep_same_l; [|exact (rstep_args _ _ _ _ H)].
    revert E1. destruct (_ <? _)%nat; [intros E1; injection E1 as <-; apply rsame_emit; reflexivity|].
    destruct (_ <? _)%nat; [|intros E1; injection E1 as <-; apply rsame_refl].
    destruct (nth_error valid _); [|intros E1; injection E1 as <-; apply rsame_refl].
    destruct (last _ _); [|intros E1; injection E1 as <-; apply rsame_refl].
    destruct (expr_range _); [|discriminate]. destruct (expr_range _); [|discriminate].
    intros E1; injection E1 as <-; apply rsame_emit; reflexivity.
  - intros H. destruct (check_args valid [] s) as [s1| |] eqn:E1; cbn [bind] in H; try discriminate.
    injection H as <-. eapply rstep_same_r; [exact (rstep_args _ _ _ _ E1)|apply rsame_emit; reflexivity].
Qed.

(* ================= program level: the resolutions are those of Spec/Navigation.v ================= *)
Definition var_entries (ts : list target) : list (range * vardecl) :=
  flat_map (fun t => match t with TVar r _ (Some d) => [(r, d)] | _ => [] end) ts.
Definition fn_entry (t : target) : list (range * builtin) :=
  match t with
  | TFn r n ctx => match find_builtin n with Some b => if ctx_eqb (b_ctx b) ctx then [(r, b)] else [] | None => [] end
  | _ => []
  end.
Definition fn_entries (ts : list target) : list (range * builtin) := flat_map fn_entry ts.

Definition nstep (ts : list target) (s s' : cstate) : Prop :=
  cs_varres s' = rev (var_entries ts) ++ cs_varres s /\ cs_fnres s' = rev (fn_entries ts) ++ cs_fnres s.

Lemma nstep_nil s s' : rsame s s' -> nstep [] s s'.
Proof. intros (_ & B & C). split; assumption. Qed.

Lemma nstep_app t1 t2 s1 s2 s3 : nstep t1 s1 s2 -> nstep t2 s2 s3 -> nstep (t1 ++ t2) s1 s3.
Proof.
  intros (A1 & B1) (A2 & B2). unfold nstep, var_entries, fn_entries. rewrite !flat_map_app, !rev_app_distr, <- !app_assoc.
  split; [rewrite A2, A1|rewrite B2, B1]; reflexivity.
Qed.

(* the checker's scope agrees with "first declaration of that name so far" *)
Definition scope_ok (before : list vardecl) (s : cstate) : Prop := forall n, alookup n (cs_declared s) = first_decl n before.

Lemma var_entries_targets before s us : scope_ok before s -> var_entries (var_targets before us) = res_uses (cs_declared s) us.
Proof.
  intros Hs. unfold var_entries, var_targets, res_uses. induction us as [|[n r] us IH]; cbn [map flat_map fst snd]; [reflexivity|].
  rewrite IH, Hs. destruct (first_decl n before); reflexivity.
Qed.
Lemma fn_entries_var_targets before us : fn_entries (var_targets before us) = [].
Proof. unfold fn_entries, var_targets. induction us as [|u us IH]; cbn [map flat_map fn_entry]; [reflexivity|exact IH]. Qed.

Lemma nstep_uses before us s s' : scope_ok before s -> rstep us s s' -> nstep (var_targets before us) s s'.
Proof.
  intros Hs (_ & B & C). split; [rewrite (var_entries_targets _ _ _ Hs); exact C|rewrite fn_entries_var_targets; exact B].
Qed.

Lemma scope_ok_same before s s' : cs_declared s' = cs_declared s -> scope_ok before s -> scope_ok before s'.
Proof. intros E H n. rewrite E. apply H. Qed.

Lemma nstep_statement vars st s s' : scope_ok vars s -> check_statement st s = Ok s' ->
  nstep (stmt_targets vars st) s s' /\ cs_declared s' = cs_declared s.
Proof.
  intros Hs. unfold check_statement. destruct st as [| |f|r sv src dst|r sv a]; cbn [stmt_targets uses_stmt]; intros H; try discriminate.
  - injection H as <-. split; [apply nstep_nil; repeat split|reflexivity].
  - pose proof (rstep_fncall _ _ _ _ H) as R. unfold fncall_targets.
    change (TFn (fc_caller_range f) (fc_caller f) CtxStatement :: var_targets vars (uses_fncall f))
      with ([TFn (fc_caller_range f) (fc_caller f) CtxStatement] ++ var_targets vars (uses_fncall f)).
    split.
    + eapply nstep_app; [|eapply nstep_uses; [|exact R]].
      * unfold nstep, fn_entries. cbn [var_entries flat_map fn_entry app rev].
        destruct (find_builtin (fc_caller f)) as [b|]; [destruct (b_ctx b)|]; cbn [ctx_eqb rev app]; split; reflexivity.
      * apply (scope_ok_same vars s); [|exact Hs]. destruct (find_builtin (fc_caller f)) as [b|]; [destruct (b_ctx b)|]; reflexivity.
    + destruct R as (D & _). rewrite D. destruct (find_builtin (fc_caller f)) as [b|]; [destruct (b_ctx b)|]; reflexivity.
  - destruct (check_sent_value sv _) as [s1| |] eqn:E1; cbn [bind] in H; try discriminate.
    destruct (check_source src s1) as [s2| |] eqn:E2; cbn [bind] in H; try discriminate.
    pose proof (rstep_app _ _ _ _ _ (rstep_sent _ _ _ E1) (rstep_app _ _ _ _ _ (rstep_source _ _ _ E2) (proj1 rstep_dest _ _ _ H))) as R.
    split; [eapply nstep_uses; [|exact R]; apply (scope_ok_same vars s); [reflexivity|exact Hs]|destruct R as (D & _); rewrite D; reflexivity].
  - destruct (check_sent_value sv _) as [s1| |] eqn:E1; cbn [bind] in H; try discriminate.
    pose proof (rstep_app _ _ _ _ _ (rstep_sent _ _ _ E1) (rstep_expr _ _ _ _ H)) as R.
    split; [eapply nstep_uses; [|exact R]; apply (scope_ok_same vars s); [reflexivity|exact Hs]|destruct R as (D & _); rewrite D; reflexivity].
Qed.

Lemma nstep_statements vars : forall ss s s', scope_ok vars s -> check_statements ss s = Ok s' ->
  nstep (flat_map (stmt_targets vars) ss) s s'.
Proof.
  induction ss as [|st ss IH]; intros s s' Hs H; cbn [check_statements flat_map] in *.
  - injection H as <-. apply nstep_nil, rsame_refl.
  - destruct (check_statement st (set_unbounded_in_send false s)) as [s1| |] eqn:E; cbn [bind] in H; try discriminate.
    destruct (nstep_statement vars st (set_unbounded_in_send false s) s1 (scope_ok_same vars s _ eq_refl Hs) E) as [N D].
    apply (nstep_app _ _ s s1 s'); [exact N|]. apply IH; [|exact H]. apply (scope_ok_same vars s); [exact D|exact Hs].
Qed.

(* ---- declarations ---- *)
Lemma find_app {A} (f : A -> bool) l1 l2 : find f (l1 ++ l2) = match find f l1 with Some x => Some x | None => find f l2 end.
Proof. induction l1 as [|x l1 IH]; cbn [app find]; [reflexivity|]. destruct (f x); [reflexivity|exact IH]. Qed.

Lemma alookup_app {A} n (m1 m2 : list (string * A)) : alookup n (m1 ++ m2) = match alookup n m1 with Some x => Some x | None => alookup n m2 end.
Proof. induction m1 as [|[k v] m1 IH]; cbn [app alookup]; [reflexivity|]. destruct (String.eqb n k); [reflexivity|exact IH]. Qed.

Lemma nstep_var_decl before d s s' : scope_ok before s -> check_var_decl d s = Ok s' ->
  nstep (match vd_origin d with Some f => fncall_targets CtxOrigin before f | None => [] end) s s' /\ scope_ok (before ++ [d]) s'.
Proof.
  intros Hs. unfold check_var_decl.
  set (s1 := match vd_type d with Some (r, t) => if is_type_allowed t then s else emit r (DInvalidType t) s | None => s end).
  assert (H1 : rsame s s1) by (unfold s1; destruct (vd_type d) as [[r t]|]; rsame_tac).
  intros H. match type of H with (bind ?m _) = _ => destruct m as [s3| |] eqn:E3 end; cbn [bind] in H; try discriminate.
  injection H as <-.
  assert (N : nstep (match vd_origin d with Some f => fncall_targets CtxOrigin before f | None => [] end) s s3 /\ cs_declared s3 = cs_declared s).
  { destruct (vd_origin d) as [f|].
    - match type of E3 with (bind ?m _) = _ => destruct m as [s2| |] eqn:E2 end; cbn [bind] in E3; try discriminate.
      pose proof (rstep_fncall _ _ _ _ E3) as R. unfold fncall_targets.
      change (TFn (fc_caller_range f) (fc_caller f) CtxOrigin :: var_targets before (uses_fncall f))
        with ([TFn (fc_caller_range f) (fc_caller f) CtxOrigin] ++ var_targets before (uses_fncall f)).
      assert (K : nstep [TFn (fc_caller_range f) (fc_caller f) CtxOrigin] s s2 /\ cs_declared s2 = cs_declared s).
      { unfold nstep, fn_entries. cbn [var_entries flat_map fn_entry app rev]. revert E2.
        destruct (find_builtin (fc_caller f)) as [b|]; [destruct (b_ctx b)|]; cbn [ctx_eqb rev app];
          try (intros E2; injection E2 as <-; destruct H1 as (A & B & C); repeat split; assumption).
        assert (G : forall sx, rsame (add_fnres (fc_caller_range f) b s1) sx ->
                    (cs_varres sx = cs_varres s /\ cs_fnres sx = (fc_caller_range f, b) :: cs_fnres s) /\ cs_declared sx = cs_declared s).
        { intros sx (A & B & C). destruct H1 as (A1 & B1 & C1). cbn [add_fnres cs_declared cs_fnres cs_varres] in *. repeat split; congruence. }
        destruct (vd_name d) as [[rn nm]|]; [destruct (vd_type d) as [[rt ty]|]|]; intros E2;
          try (injection E2 as <-; apply G, rsame_refl).
        apply G. exact (rsame_assert _ _ _ _ _ E2). }
      destruct K as [K KD]. split.
      + eapply nstep_app; [exact K|]. eapply nstep_uses; [|exact R]. apply (scope_ok_same before s); [exact KD|exact Hs].
      + destruct R as (D & _). congruence.
    - injection E3 as <-. destruct H1 as (A & B & C). split; [split; assumption|exact A]. }
  destruct N as [N D]. split.
  - destruct (vd_name d) as [[r name]|]; [destruct (amem name (cs_declared s3))|]; exact N.
  - intros n. unfold first_decl. rewrite find_app. fold (first_decl n before). rewrite <- Hs, <- D. cbn [find]. unfold named.
    destruct (vd_name d) as [[r name]|] eqn:En.
    + unfold amem. destruct (alookup name (cs_declared s3)) as [d0|] eqn:Ea.
      * cbn [emit cs_declared]. destruct (alookup n (cs_declared s3)) eqn:En'; [reflexivity|].
        destruct (String.eqb_spec n name) as [->|_]; [congruence|reflexivity].
      * cbn [cs_declared]. rewrite alookup_app. cbn [alookup]. destruct (alookup n (cs_declared s3)); [reflexivity|].
        destruct (String.eqb n name); reflexivity.
    + destruct (alookup n (cs_declared s3)); reflexivity.
Qed.

Lemma nstep_var_decls : forall ds before s s', scope_ok before s -> check_var_decls ds s = Ok s' ->
  nstep (decl_targets before ds) s s' /\ scope_ok (before ++ ds) s'.
Proof.
  induction ds as [|d ds IH]; intros before s s' Hs H; cbn [check_var_decls decl_targets] in *.
  - injection H as <-. rewrite app_nil_r. split; [apply nstep_nil, rsame_refl|exact Hs].
  - destruct (check_var_decl d s) as [s1| |] eqn:E; cbn [bind] in H; try discriminate.
    destruct (nstep_var_decl before d s s1 Hs E) as [N1 S1].
    destruct (IH (before ++ [d]) s1 s' S1 H) as [N2 S2]. rewrite <- app_assoc in S2.
    split; [exact (nstep_app _ _ _ _ _ N1 N2)|exact S2].
Qed.

Lemma fold_emit_res l : forall s,
  let s' := fold_left (fun acc (e : string * range) => emit (snd e) (DUnusedVar (fst e)) acc) l s in
  cs_varres s' = cs_varres s /\ cs_fnres s' = cs_fnres s /\ cs_declared s' = cs_declared s.
Proof.
  induction l as [|x l IH]; intros s; cbn [fold_left]; [repeat split|]. destruct (IH (emit (snd x) (DUnusedVar (fst x)) s)) as (A & B & C).
  cbn zeta in *. rewrite A, B, C. repeat split.
Qed.

(* the maps the server consults are exactly the entries of the specification's targets *)
Theorem check_program_resolutions p pd perm cs : check_program p pd perm = Ok cs ->
  cs_varres cs = rev (var_entries (targets p)) /\ cs_fnres cs = rev (fn_entries (targets p)).
Proof.
  unfold check_program. intros H.
  destruct (check_var_decls (p_vars p) (initial_cstate pd)) as [s1| |] eqn:E1; cbn [bind] in H; try discriminate.
  destruct (check_statements (p_stmts p) s1) as [s2| |] eqn:E2; cbn [bind] in H; try discriminate.
  injection H as <-.
  assert (S0 : scope_ok [] (initial_cstate pd)) by (intros n; reflexivity).
  destruct (nstep_var_decls _ [] _ _ S0 E1) as [N1 S1]. cbn [app] in S1.
  pose proof (nstep_app _ _ _ _ _ N1 (nstep_statements _ _ _ _ S1 E2)) as (A & B).
  destruct (fold_emit_res (perm (cs_unused s2)) s2) as (A' & B' & _). cbn zeta in *. fold (targets p) in A, B.
  rewrite A', B', A, B. cbn [initial_cstate cs_varres cs_fnres]. rewrite !app_nil_r. split; reflexivity.
Qed.
