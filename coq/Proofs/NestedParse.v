(* The trees of the grammar have nested ranges: for every derivation over tokens that come in order
   (what the lexer produces: Proofs/LexSorted.v), each node's range encloses the ranges of the
   variable uses and callee names below it - the hypothesis [nested] of C19_navigation_exact - and
   the tree has none of the nil shapes ([tree_safe]). With the soundness of the reference parser:
   every text it accepts yields such a tree. *)
From Coq Require Import Lia.
From NS Require Import Lexer Parser Grammar Check Hover Names Navigation CheckNoPanic NavHover LexProofs LexSorted ParserSound.
Open Scope Z_scope.

Definition tstart (t : token) : pos := rstart (tok_range t).
Definition tend (t : token) : pos := rend (tok_range t).

(* tokens in order: each ends at or after its start, the next starts at or after its end *)
Fixpoint chain (ts : list token) : Prop :=
  match ts with
  | [] => True
  | t :: ts' =>
      pos_ge (tend t) (tstart t) = true
      /\ match ts' with [] => True | t' :: _ => pos_ge (tstart t') (tend t) = true end
      /\ chain ts'
  end.

Lemma chain_cons_inv x l : chain (x :: l) -> chain l.
Proof. intros (_ & _ & H). exact H. Qed.

Lemma chain_app_inv a : forall b, chain (a ++ b) -> chain a /\ chain b.
Proof.
  induction a as [|x a IH]; intros b H; [split; [exact I|exact H]|].
  cbn [app chain] in H. destruct H as (H1 & H2 & H3). destruct (IH b H3) as [Ha Hb]. split; [|exact Hb].
  cbn [chain]. split; [exact H1|]. split; [|exact Ha]. destruct a as [|y a]; [exact I|exact H2].
Qed.

Lemma chain_first_le : forall l x y, chain (x :: l) -> In y l -> pos_ge (tstart y) (tend x) = true.
Proof.
  induction l as [|y0 l IH]; intros x y H Hy; [destruct Hy|].
  destruct H as (_ & H2 & H3). destruct Hy as [<-|Hy]; [exact H2|].
  pose proof (IH y0 y H3 Hy) as K. destruct H3 as (H4 & _ & _).
  exact (pos_ge_trans _ _ _ K (pos_ge_trans _ _ _ H4 H2)).
Qed.

Lemma start_ge_hd ts t : chain ts -> In t ts -> pos_ge (tstart t) (tstart (hd tok0 ts)) = true.
Proof.
  destruct ts as [|x l]; intros H Ht; [destruct Ht|]. cbn [hd]. destruct Ht as [<-|Ht]; [apply pos_ge_refl|].
  pose proof (chain_first_le l x t H Ht) as K. destruct H as (H1 & _ & _). exact (pos_ge_trans _ _ _ K H1).
Qed.

Lemma last_in {A} (l : list A) d : l <> [] -> In (last l d) l.
Proof.
  induction l as [|x l IH]; intros H; [contradiction|]. destruct l as [|y l]; [left; reflexivity|].
  right. apply IH. discriminate.
Qed.

Lemma end_le_last : forall ts t, chain ts -> In t ts -> pos_ge (tend (last ts tok0)) (tend t) = true.
Proof.
  induction ts as [|x l IH]; intros t H Ht; [destruct Ht|].
  destruct l as [|y l].
  - destruct Ht as [<-|[]]. apply pos_ge_refl.
  - change (last (x :: y :: l) tok0) with (last (y :: l) tok0).
    destruct Ht as [<-|Ht]; [|exact (IH t (chain_cons_inv _ _ H) Ht)].
    assert (Hin : In (last (y :: l) tok0) (y :: l)) by (apply last_in; discriminate).
    pose proof (chain_first_le _ _ _ H Hin) as K.
    pose proof (chain_cons_inv _ _ H) as Hc.
    assert (G : forall z l0, chain l0 -> In z l0 -> pos_ge (tend z) (tstart z) = true).
    { clear. intros z l0. induction l0 as [|w l0 IH0]; intros Hc Hz; [destruct Hz|]. destruct Hz as [<-|Hz]; [exact (proj1 Hc)|exact (IH0 (chain_cons_inv _ _ Hc) Hz)]. }
    exact (pos_ge_trans _ _ _ (G _ _ Hc Hin) K).
Qed.

Lemma token_within ts r t : chain ts -> bounds ts r -> In t ts -> within (tok_range t) r = true.
Proof.
  intros Hc (Hne & Hs & He) Ht. unfold within. rewrite Hs, He.
  apply andb_true_intro. split; [exact (start_ge_hd ts t Hc Ht)|exact (end_le_last ts t Hc Ht)].
Qed.

(* ---- uses come from tokens ---- *)
Definition utok (ts : list token) (us : list use) : Prop := forall u, In u us -> exists t, In t ts /\ snd u = tok_range t.

Lemma utok_nil ts : utok ts []. Proof. intros u []. Qed.
Lemma utok_mono ts ts' us : (forall t, In t ts -> In t ts') -> utok ts us -> utok ts' us.
Proof. intros Hi H u Hu. destruct (H u Hu) as (t & Ht & E). exists t. split; [apply Hi, Ht|exact E]. Qed.
Lemma utok_app ts us1 us2 : utok ts us1 -> utok ts us2 -> utok ts (us1 ++ us2).
Proof. intros H1 H2 u Hu. apply in_app_or in Hu. destruct Hu as [Hu|Hu]; [apply H1, Hu|apply H2, Hu]. Qed.

Lemma uses_within_of ts r us : chain ts -> bounds ts r -> utok ts us -> uses_within r us = true.
Proof.
  intros Hc Hb Hu. unfold uses_within. apply forallb_forall. intros u Hin. destruct (Hu u Hin) as (t & Ht & ->).
  exact (token_within ts r t Hc Hb Ht).
Qed.

Ltac inc := let t := fresh "t" in let H := fresh "H" in
  intros t H; repeat first [progress cbn [In app] | rewrite in_app_iff]; repeat first [progress cbn [In app] in H | rewrite in_app_iff in H]; tauto.

(* ---- expressions ---- *)
Lemma number_shape t e ok : number_of_token t = Some (e, ok) -> uses_expr e = [] /\ nested_expr e = true /\ expr_safe e = true /\ expr_present e = true.
Proof. unfold number_of_token. destruct (number_literal (text_of t)) as [[n o]|]; [|discriminate]. intros H. injection H as <- _. repeat split. Qed.
Lemma ratio_shape t e : ratio_of_token t = Some e -> uses_expr e = [] /\ nested_expr e = true /\ expr_safe e = true /\ expr_present e = true.
Proof. unfold ratio_of_token. destruct (portion_literal (text_of t)) as [[n d]|]; [|discriminate]. intros H. injection H as <-. repeat split. Qed.

Lemma expr_utok : (forall ts e, DAtom ts e -> utok ts (uses_expr e)) /\ (forall ts e, DExpr ts e -> utok ts (uses_expr e)).
Proof.
  split.
  - intros ts e D. induction D using DAtom_mut with (P0 := fun ts e _ => utok ts (uses_expr e)); cbn [uses_expr]; try apply utok_nil.
    + intros u [<-|[]]. exists t. split; [left; reflexivity|reflexivity].
    + rewrite (proj1 (number_shape _ _ _ e0)). apply utok_nil.
    + rewrite (proj1 (ratio_shape _ _ e0)). apply utok_nil.
    + apply utok_app; [eapply utok_mono; [|exact IHD]; inc|eapply utok_mono; [|exact IHD0]; inc].
    + exact IHD.
    + apply utok_app; [eapply utok_mono; [|exact IHD]; inc|eapply utok_mono; [|exact IHD0]; inc].
    + apply utok_app; [eapply utok_mono; [|exact IHD]; inc|eapply utok_mono; [|exact IHD0]; inc].
  - intros ts e D. induction D using DExpr_mut with (P := fun ts e _ => utok ts (uses_expr e)); cbn [uses_expr]; try apply utok_nil.
    + intros u [<-|[]]. exists t. split; [left; reflexivity|reflexivity].
    + rewrite (proj1 (number_shape _ _ _ e0)). apply utok_nil.
    + rewrite (proj1 (ratio_shape _ _ e0)). apply utok_nil.
    + apply utok_app; [eapply utok_mono; [|exact IHD1]; inc|eapply utok_mono; [|exact IHD2]; inc].
    + exact IHD.
    + apply utok_app; [eapply utok_mono; [|exact IHD]; inc|eapply utok_mono; [|exact IHD0]; inc].
    + apply utok_app; [eapply utok_mono; [|exact IHD]; inc|eapply utok_mono; [|exact IHD0]; inc].
Qed.

Ltac chsplit H :=
  match type of H with
  | chain (?a ++ ?b) =>
      let H1 := fresh "Hc" in let H2 := fresh "Hc" in
      destruct (chain_app_inv a b H) as [H1 H2]; try chsplit H1; try chsplit H2
  | chain (?x :: ?l) => let H1 := fresh "Hc" in pose proof (chain_cons_inv x l H) as H1; try chsplit H1
  | _ => idtac
  end.

Definition egood (e : expr) : Prop := nested_expr e = true /\ expr_safe e = true /\ expr_present e = true.

Lemma egood_infix ts r op l rr : chain ts -> bounds ts r -> utok ts (uses_expr l ++ uses_expr rr) -> egood l -> egood rr -> egood (EInfix r op l rr).
Proof.
  intros Hc Hb Hu (N1 & S1 & _) (N2 & S2 & _). unfold egood. cbn [nested_expr expr_safe expr_present].
  rewrite (uses_within_of ts r _ Hc Hb Hu), N1, N2, S1, S2. repeat split.
Qed.
Lemma egood_monetary ts r a n : chain ts -> bounds ts r -> utok ts (uses_expr a ++ uses_expr n) -> egood a -> egood n -> egood (EMonetary r a n).
Proof.
  intros Hc Hb Hu (N1 & S1 & _) (N2 & S2 & _). unfold egood. cbn [nested_expr expr_safe expr_present].
  rewrite (uses_within_of ts r _ Hc Hb Hu), N1, N2, S1, S2. repeat split.
Qed.

Lemma expr_good : (forall ts e, DAtom ts e -> chain ts -> egood e) /\ (forall ts e, DExpr ts e -> chain ts -> egood e).
Proof.
  assert (Hnum : forall t e ok, number_of_token t = Some (e, ok) -> egood e) by (intros t e ok H; exact (proj2 (number_shape _ _ _ H))).
  assert (Hrat : forall t e, ratio_of_token t = Some e -> egood e) by (intros t e H; exact (proj2 (ratio_shape _ _ H))).
  split.
  - intros ts e D. induction D using DAtom_mut with (P0 := fun ts e _ => chain ts -> egood e); intros Hc; try (repeat split; fail).
    + exact (Hnum _ _ _ e0).
    + exact (Hrat _ _ e0).
    + pose proof (proj1 expr_bounds _ _ (DA_monetary lb ta a tn n rb i d d0 i0)) as Hb. cbn [expr_rng] in Hb.
      pose proof Hc as Hw. chsplit Hc.
      apply (egood_monetary _ _ _ _ Hw Hb); [|apply IHD; assumption|apply IHD0; assumption].
      apply utok_app; [eapply utok_mono; [|exact (proj2 expr_utok _ _ d)]; inc|eapply utok_mono; [|exact (proj2 expr_utok _ _ d0)]; inc].
    + apply IHD, Hc.
    + pose proof (proj2 expr_bounds _ _ (DE_plus tl l op tr r d i D)) as Hb. cbn [expr_rng] in Hb.
      pose proof Hc as Hw. chsplit Hc.
      apply (egood_infix _ _ _ _ _ Hw Hb); [|apply IHD; assumption|apply IHD0; assumption].
      apply utok_app; [eapply utok_mono; [|exact (proj2 expr_utok _ _ d)]; inc|eapply utok_mono; [|exact (proj1 expr_utok _ _ D)]; inc].
    + pose proof (proj2 expr_bounds _ _ (DE_minus tl l op tr r d i D)) as Hb. cbn [expr_rng] in Hb.
      pose proof Hc as Hw. chsplit Hc.
      apply (egood_infix _ _ _ _ _ Hw Hb); [|apply IHD; assumption|apply IHD0; assumption].
      apply utok_app; [eapply utok_mono; [|exact (proj2 expr_utok _ _ d)]; inc|eapply utok_mono; [|exact (proj1 expr_utok _ _ D)]; inc].
  - intros ts e D. induction D using DExpr_mut with (P := fun ts e _ => chain ts -> egood e); intros Hc; try (repeat split; fail).
    + exact (Hnum _ _ _ e0).
    + exact (Hrat _ _ e0).
    + pose proof (proj1 expr_bounds _ _ (DA_monetary lb ta a tn n rb i D1 D2 i0)) as Hb. cbn [expr_rng] in Hb.
      pose proof Hc as Hw. chsplit Hc.
      apply (egood_monetary _ _ _ _ Hw Hb); [|apply IHD1; assumption|apply IHD2; assumption].
      apply utok_app; [eapply utok_mono; [|exact (proj2 expr_utok _ _ D1)]; inc|eapply utok_mono; [|exact (proj2 expr_utok _ _ D2)]; inc].
    + apply IHD, Hc.
    + pose proof (proj2 expr_bounds _ _ (DE_plus tl l op tr r D i d)) as Hb. cbn [expr_rng] in Hb.
      pose proof Hc as Hw. chsplit Hc.
      apply (egood_infix _ _ _ _ _ Hw Hb); [|apply IHD; assumption|apply IHD0; assumption].
      apply utok_app; [eapply utok_mono; [|exact (proj2 expr_utok _ _ D)]; inc|eapply utok_mono; [|exact (proj1 expr_utok _ _ d)]; inc].
    + pose proof (proj2 expr_bounds _ _ (DE_minus tl l op tr r D i d)) as Hb. cbn [expr_rng] in Hb.
      pose proof Hc as Hw. chsplit Hc.
      apply (egood_infix _ _ _ _ _ Hw Hb); [|apply IHD; assumption|apply IHD0; assumption].
      apply utok_app; [eapply utok_mono; [|exact (proj2 expr_utok _ _ D)]; inc|eapply utok_mono; [|exact (proj1 expr_utok _ _ d)]; inc].
Qed.

(* ---- sources ---- *)
Definition nested_sitem (it : range * allot * source) : bool :=
  uses_within (fst (fst it)) (uses_allot (snd (fst it)) ++ uses_source (snd it)) && nested_source (snd it).
Definition safe_sitem (it : range * allot * source) : bool := allot_safe (snd (fst it)) && source_safe (snd it).
Definition uses_sitem (it : range * allot * source) : list use := uses_allot (snd (fst it)) ++ uses_source (snd it).

Lemma nested_inorder r l : nested_source (SInorder r l) = uses_within r (flat_map uses_source l) && forallb nested_source l.
Proof. reflexivity. Qed.
Lemma nested_allot r items : nested_source (SAllot r items) = uses_within r (flat_map uses_sitem items) && forallb nested_sitem items.
Proof.
  cbn [nested_source source_range uses_source]. f_equal.
  induction items as [|[[ir a] x] l IH]; [reflexivity|]. cbn [forallb]. unfold nested_sitem at 1. cbn [fst snd]. now rewrite <- IH.
Qed.
Lemma safe_inorder r l : source_safe (SInorder r l) = forallb source_safe l.
Proof. reflexivity. Qed.
Lemma safe_allot r items : source_safe (SAllot r items) = forallb safe_sitem items.
Proof. cbn [source_safe]. induction items as [|[[ir a] x] l IH]; [reflexivity|]. cbn [forallb]. unfold safe_sitem at 1. cbn [fst snd]. now rewrite <- IH. Qed.

Scheme DSource_mut := Induction for DSource Sort Prop
  with DSources_mut := Induction for DSources Sort Prop
  with DSrcClauses_mut := Induction for DSrcClauses Sort Prop.
Combined Scheme DSource_comb from DSource_mut, DSources_mut, DSrcClauses_mut.

Lemma allotment_shape a al : DAllotment a al -> allot_safe al = true /\ utok [a] (uses_allot al).
Proof.
  intros D. destruct D; cbn [allot_safe uses_allot]; split; try reflexivity; try apply utok_nil.
  intros u [<-|[]]. exists t. split; [left; reflexivity|reflexivity].
Qed.

Definition sgood ts (s : source) : Prop := nested_source s = true /\ source_safe s = true /\ utok ts (uses_source s).

Lemma source_good :
  (forall ts s, DSource ts s -> chain ts -> sgood ts s) /\
  (forall ts l, DSources ts l -> chain ts -> forallb nested_source l = true /\ forallb source_safe l = true /\ utok ts (flat_map uses_source l)) /\
  (forall ts items, DSrcClauses ts items -> chain ts ->
     forallb nested_sitem items = true /\ forallb safe_sitem items = true /\ utok ts (flat_map uses_sitem items)).
Proof.
  apply DSource_comb.
  - (* account *)
    intros ts e D Hc. destruct (proj2 expr_good _ _ D Hc) as (N & S & Pz). pose proof (proj2 expr_utok _ _ D) as U.
    pose proof (proj2 expr_bounds _ _ D) as Hb.
    unfold sgood. cbn [nested_source source_range source_safe uses_source]. destruct e; try discriminate; cbn [expr_range expr_rng] in *;
      rewrite ?(uses_within_of ts _ _ Hc Hb U), ?N, ?S; repeat split; exact U.
  - (* unbounded *)
    intros ts e al u o D i i0 i1 Hc. pose proof Hc as Hw. chsplit Hc.
    destruct (proj2 expr_good _ _ D ltac:(assumption)) as (N & S & Pz).
    assert (U : utok (ts ++ [al; u; o]) (uses_expr e ++ [])) by (rewrite app_nil_r; eapply utok_mono; [|exact (proj2 expr_utok _ _ D)]; inc).
    pose proof (source_bounds _ _ (DS_unbounded ts e al u o D i i0 i1)) as Hb. cbn [source_rng] in Hb.
    unfold sgood. cbn [nested_source source_range source_safe uses_source].
    rewrite (uses_within_of _ _ _ Hw Hb U), N, S, Pz. repeat split. exact U.
  - (* bounded *)
    intros ts e al o up to tb b D i i0 i1 i2 D0 Hc. pose proof Hc as Hw. chsplit Hc.
    destruct (proj2 expr_good _ _ D ltac:(assumption)) as (N & S & Pz).
    destruct (proj2 expr_good _ _ D0 ltac:(assumption)) as (N0 & S0 & Pz0).
    assert (U : utok (ts ++ al :: o :: up :: to :: tb) (uses_expr e ++ uses_expr b)).
    { apply utok_app; [eapply utok_mono; [|exact (proj2 expr_utok _ _ D)]; inc|eapply utok_mono; [|exact (proj2 expr_utok _ _ D0)]; inc]. }
    pose proof (source_bounds _ _ (DS_bounded ts e al o up to tb b D i i0 i1 i2 D0)) as Hb. cbn [source_rng] in Hb.
    unfold sgood. cbn [nested_source source_range source_safe uses_source].
    rewrite (uses_within_of _ _ _ Hw Hb U), N, S, N0, S0. repeat split. exact U.
  - (* capped *)
    intros mx tc cap fr tf from i D i0 D0 IH Hc. pose proof Hc as Hw. chsplit Hc.
    destruct (proj2 expr_good _ _ D ltac:(assumption)) as (N & S & Pz).
    destruct (IH ltac:(assumption)) as (N0 & S0 & U0).
    assert (U : utok (mx :: tc ++ fr :: tf) (uses_expr cap ++ uses_source from)).
    { apply utok_app; [eapply utok_mono; [|exact (proj2 expr_utok _ _ D)]; inc|eapply utok_mono; [|exact U0]; inc]. }
    pose proof (source_bounds _ _ (DS_capped mx tc cap fr tf from i D i0 D0)) as Hb. cbn [source_rng] in Hb.
    unfold sgood. cbn [nested_source source_range source_safe uses_source].
    rewrite (uses_within_of _ _ _ Hw Hb U), N, S, N0, S0. repeat split. exact U.
  - (* in order *)
    intros lb tss l rb i D IH i0 Hc. pose proof Hc as Hw. chsplit Hc.
    destruct (IH ltac:(assumption)) as (N0 & S0 & U0).
    assert (U : utok (lb :: tss ++ [rb]) (flat_map uses_source l)) by (eapply utok_mono; [|exact U0]; inc).
    pose proof (source_bounds _ _ (DS_inorder lb tss l rb i D i0)) as Hb. cbn [source_rng] in Hb.
    unfold sgood. rewrite nested_inorder, safe_inorder, (uses_within_of _ _ _ Hw Hb U), N0, S0. repeat split. exact U.
  - (* allotment *)
    intros lb tcs items rb i D IH n i0 Hc. pose proof Hc as Hw. chsplit Hc.
    destruct (IH ltac:(assumption)) as (N0 & S0 & U0).
    assert (U : utok (lb :: tcs ++ [rb]) (flat_map uses_sitem items)) by (eapply utok_mono; [|exact U0]; inc).
    pose proof (source_bounds _ _ (DS_allot lb tcs items rb i D n i0)) as Hb. cbn [source_rng] in Hb.
    unfold sgood. rewrite nested_allot, safe_allot, (uses_within_of _ _ _ Hw Hb U), N0, S0. repeat split.
    cbn [uses_source]. exact U.
  - intros _. repeat split. apply utok_nil.
  - intros t1 s t2 l D IH D0 IH0 Hc. chsplit Hc.
    destruct (IH ltac:(assumption)) as (N & S & U). destruct (IH0 ltac:(assumption)) as (N0 & S0 & U0).
    cbn [forallb flat_map]. rewrite N, S, N0, S0. repeat split.
    apply utok_app; [eapply utok_mono; [|exact U]; inc|eapply utok_mono; [|exact U0]; inc].
  - intros _. repeat split. apply utok_nil.
  - intros a al fr ts s t2 l Da i D IH D0 IH0 Hc. pose proof Hc as Hw. chsplit Hc.
    destruct (allotment_shape _ _ Da) as [Sa Ua].
    destruct (IH ltac:(assumption)) as (N & S & U). destruct (IH0 ltac:(assumption)) as (N0 & S0 & U0).
    assert (Ui : utok (a :: fr :: ts) (uses_allot al ++ uses_source s)).
    { apply utok_app; [eapply utok_mono; [|exact Ua]; inc|eapply utok_mono; [|exact U]; inc]. }
    assert (Hb : bounds (a :: fr :: ts) (span (tok_range a) (source_rng s))).
    { change (a :: fr :: ts) with ([a] ++ [fr] ++ ts). apply bounds_span; [apply bounds_single|exact (source_bounds _ _ D)]. }
    assert (Hci : chain (a :: fr :: ts)).
    { change (a :: fr :: ts ++ t2) with ((a :: fr :: ts) ++ t2) in Hw. exact (proj1 (chain_app_inv _ _ Hw)). }
    cbn [forallb flat_map]. unfold nested_sitem at 1, safe_sitem at 1, uses_sitem at 1. cbn [fst snd].
    rewrite (uses_within_of _ _ _ Hci Hb Ui), N, S, Sa, N0, S0. repeat split.
    apply utok_app; [eapply utok_mono; [|exact Ui]; inc|eapply utok_mono; [|exact U0]; inc].
Qed.

(* ---- destinations ---- *)
Definition nested_dcl (c : range * expr * kod) : bool :=
  uses_within (fst (fst c)) (uses_expr (snd (fst c)) ++ uses_kod (snd c)) && nested_expr (snd (fst c)) && nested_kod (snd c).
Definition safe_dcl (c : range * expr * kod) : bool := expr_safe (snd (fst c)) && kod_safe (snd c).
Definition uses_dcl (c : range * expr * kod) : list use := uses_expr (snd (fst c)) ++ uses_kod (snd c).
Definition nested_ditem (it : range * allot * kod) : bool :=
  uses_within (fst (fst it)) (uses_allot (snd (fst it)) ++ uses_kod (snd it)) && nested_kod (snd it).
Definition safe_ditem (it : range * allot * kod) : bool := allot_safe (snd (fst it)) && kod_safe (snd it).
Definition uses_ditem (it : range * allot * kod) : list use := uses_allot (snd (fst it)) ++ uses_kod (snd it).

Lemma nested_dinorder r cl rem :
  nested_dest (DInorder r cl rem) = uses_within r (flat_map uses_dcl cl ++ uses_kod rem) && (forallb nested_dcl cl && nested_kod rem).
Proof.
  cbn [nested_dest dest_range uses_dest]. f_equal. f_equal.
  induction cl as [|[[cr e] k] l IH]; [reflexivity|]. cbn [forallb]. unfold nested_dcl at 1. cbn [fst snd]. now rewrite <- IH.
Qed.
Lemma nested_dallot r items : nested_dest (DAllot r items) = uses_within r (flat_map uses_ditem items) && forallb nested_ditem items.
Proof.
  cbn [nested_dest dest_range uses_dest]. f_equal.
  induction items as [|[[ir a] k] l IH]; [reflexivity|]. cbn [forallb]. unfold nested_ditem at 1. cbn [fst snd]. now rewrite <- IH.
Qed.
Lemma safe_dinorder r cl rem : dest_safe (DInorder r cl rem) = forallb safe_dcl cl && kod_safe rem.
Proof.
  cbn [dest_safe]. f_equal. induction cl as [|[[cr e] k] l IH]; [reflexivity|]. cbn [forallb]. unfold safe_dcl at 1. cbn [fst snd]. now rewrite <- IH.
Qed.
Lemma safe_dallot r items : dest_safe (DAllot r items) = forallb safe_ditem items.
Proof.
  cbn [dest_safe]. induction items as [|[[ir a] k] l IH]; [reflexivity|]. cbn [forallb]. unfold safe_ditem at 1. cbn [fst snd]. now rewrite <- IH.
Qed.

Scheme DDest_mut := Induction for DDest Sort Prop
  with DKod_mut := Induction for DKod Sort Prop
  with DInClauses_mut := Induction for DInClauses Sort Prop
  with DDstClauses_mut := Induction for DDstClauses Sort Prop.
Combined Scheme DDest_comb from DDest_mut, DKod_mut, DInClauses_mut, DDstClauses_mut.

(* a keptOrDestination ends where its last token ends *)
Lemma kod_end_last tk k : DKod tk k -> tk <> [] /\ rend (kod_end k norange) = tend (last tk tok0).
Proof.
  intros D. destruct D as [t i|t ts d i D].
  - split; [discriminate|reflexivity].
  - split; [discriminate|]. cbn [kod_end]. destruct (dest_bounds _ _ D) as (Hne & _ & He). rewrite He.
    destruct ts as [|x l]; [contradiction|reflexivity].
Qed.

Lemma clause_bounds hd0 mid tk k : DKod tk k -> bounds (hd0 :: mid ++ tk) (span (tok_range hd0) (kod_end k norange)).
Proof.
  intros D. destruct (kod_end_last _ _ D) as [Hne He]. repeat split; [discriminate|].
  cbn [span rend]. rewrite He. change (hd0 :: mid ++ tk) with ((hd0 :: mid) ++ tk). now rewrite last_app_ne.
Qed.

Definition dgood ts (d : dest) : Prop := nested_dest d = true /\ dest_safe d = true /\ utok ts (uses_dest d).
Definition kgood ts (k : kod) : Prop := nested_kod k = true /\ kod_safe k = true /\ utok ts (uses_kod k).

Lemma dest_good :
  (forall ts d, DDest ts d -> chain ts -> dgood ts d) /\
  (forall ts k, DKod ts k -> chain ts -> kgood ts k) /\
  (forall ts cl, DInClauses ts cl -> chain ts -> forallb nested_dcl cl = true /\ forallb safe_dcl cl = true /\ utok ts (flat_map uses_dcl cl)) /\
  (forall ts items, DDstClauses ts items -> chain ts ->
     forallb nested_ditem items = true /\ forallb safe_ditem items = true /\ utok ts (flat_map uses_ditem items)).
Proof.
  apply DDest_comb.
  - (* account *)
    intros ts e D Hc. destruct (proj2 expr_good _ _ D Hc) as (N & S & Pz). pose proof (proj2 expr_utok _ _ D) as U.
    pose proof (proj2 expr_bounds _ _ D) as Hb.
    unfold dgood. cbn [nested_dest dest_range dest_safe uses_dest]. destruct e; try discriminate; cbn [expr_range expr_rng] in *;
      rewrite ?(uses_within_of ts _ _ Hc Hb U), ?N, ?S; repeat split; exact U.
  - (* in order *)
    intros lb tcl cl rm tk rem rb i D IH ncl i0 D0 IH0 i1 Hc. pose proof Hc as Hw. chsplit Hc.
    destruct (IH ltac:(assumption)) as (N & S & U). destruct (IH0 ltac:(assumption)) as (N0 & S0 & U0).
    assert (Uw : utok (lb :: tcl ++ rm :: tk ++ [rb]) (flat_map uses_dcl cl ++ uses_kod rem)).
    { apply utok_app; [eapply utok_mono; [|exact U]; inc|eapply utok_mono; [|exact U0]; inc]. }
    pose proof (dest_bounds _ _ (DD_inorder lb tcl cl rm tk rem rb i D ncl i0 D0 i1)) as Hb. cbn [dest_rng] in Hb.
    unfold dgood. rewrite nested_dinorder, safe_dinorder, (uses_within_of _ _ _ Hw Hb Uw), N, S, N0, S0. repeat split.
    cbn [uses_dest]. exact Uw.
  - (* allotment *)
    intros lb tcs items rb i D IH n i0 Hc. pose proof Hc as Hw. chsplit Hc.
    destruct (IH ltac:(assumption)) as (N & S & U).
    assert (Uw : utok (lb :: tcs ++ [rb]) (flat_map uses_ditem items)) by (eapply utok_mono; [|exact U]; inc).
    pose proof (dest_bounds _ _ (DD_allot lb tcs items rb i D n i0)) as Hb. cbn [dest_rng] in Hb.
    unfold dgood. rewrite nested_dallot, safe_dallot, (uses_within_of _ _ _ Hw Hb Uw), N, S. repeat split.
    cbn [uses_dest]. exact Uw.
  - (* kept *) intros t i _. repeat split. apply utok_nil.
  - (* to *)
    intros t ts d i D IH Hc. destruct (IH (chain_cons_inv _ _ Hc)) as (N & S & U). unfold kgood. cbn [nested_kod kod_safe uses_kod].
    repeat split; [exact N|exact S|eapply utok_mono; [|exact U]; inc].
  - intros _. repeat split. apply utok_nil.
  - (* max e kod, clauses *)
    intros mx tc cap tk k t2 l i D D0 IH D1 IH1 Hc. pose proof Hc as Hw. chsplit Hc.
    destruct (proj2 expr_good _ _ D ltac:(assumption)) as (Ne & Se & _).
    destruct (IH ltac:(assumption)) as (N & S & U). destruct (IH1 ltac:(assumption)) as (N1 & S1 & U1).
    assert (Ui : utok (mx :: tc ++ tk) (uses_expr cap ++ uses_kod k)).
    { apply utok_app; [eapply utok_mono; [|exact (proj2 expr_utok _ _ D)]; inc|eapply utok_mono; [|exact U]; inc]. }
    pose proof (clause_bounds mx tc tk k D0) as Hb.
    assert (Hci : chain (mx :: tc ++ tk)).
    { replace (mx :: tc ++ tk ++ t2) with ((mx :: tc ++ tk) ++ t2) in Hw by (cbn [app]; now rewrite <- app_assoc). exact (proj1 (chain_app_inv _ _ Hw)). }
    cbn [forallb flat_map]. unfold nested_dcl at 1, safe_dcl at 1, uses_dcl at 1. cbn [fst snd].
    rewrite (uses_within_of _ _ _ Hci Hb Ui), Ne, Se, N, S, N1, S1. repeat split.
    apply utok_app; [eapply utok_mono; [|exact Ui]; inc|eapply utok_mono; [|exact U1]; inc].
  - intros _. repeat split. apply utok_nil.
  - (* allotment clause *)
    intros a al tk k t2 l Da D IH D1 IH1 Hc. pose proof Hc as Hw. chsplit Hc.
    destruct (allotment_shape _ _ Da) as [Sa Ua].
    destruct (IH ltac:(assumption)) as (N & S & U). destruct (IH1 ltac:(assumption)) as (N1 & S1 & U1).
    assert (Ui : utok (a :: tk) (uses_allot al ++ uses_kod k)).
    { apply utok_app; [eapply utok_mono; [|exact Ua]; inc|eapply utok_mono; [|exact U]; inc]. }
    pose proof (clause_bounds a [] tk k D) as Hb. cbn [app] in Hb.
    assert (Hci : chain (a :: tk)).
    { change (a :: tk ++ t2) with ((a :: tk) ++ t2) in Hw. exact (proj1 (chain_app_inv _ _ Hw)). }
    cbn [forallb flat_map]. unfold nested_ditem at 1, safe_ditem at 1, uses_ditem at 1. cbn [fst snd].
    rewrite (uses_within_of _ _ _ Hci Hb Ui), Sa, N, S, N1, S1. repeat split.
    apply utok_app; [eapply utok_mono; [|exact Ui]; inc|eapply utok_mono; [|exact U1]; inc].
Qed.

(* ---- sent values, calls, statements, declarations ---- *)
Lemma sent_good ts sv : DSent ts sv -> chain ts -> nested_sent sv = true /\ sent_safe sv = true /\ utok ts (uses_sent sv).
Proof.
  intros D Hc. destruct D as [ts e D|lb ta a st rb i D i0 i1]; cbn [nested_sent sent_safe uses_sent].
  - destruct (proj2 expr_good _ _ D Hc) as (N & S & _). repeat split; [exact N|exact S|exact (proj2 expr_utok _ _ D)].
  - chsplit Hc. destruct (proj2 expr_good _ _ D ltac:(assumption)) as (N & S & _).
    repeat split; [exact N|exact S|eapply utok_mono; [|exact (proj2 expr_utok _ _ D)]; inc].
Qed.

Lemma args_good ts args : DArgs ts args -> chain ts ->
  forallb nested_expr args = true /\ forallb expr_safe args = true /\ utok ts (flat_map uses_expr args).
Proof.
  induction 1 as [ts e D|ts e c t2 l D i D0 IH]; intros Hc; cbn [forallb flat_map].
  - destruct (proj2 expr_good _ _ D Hc) as (N & S & _). rewrite N, S, app_nil_r. repeat split. exact (proj2 expr_utok _ _ D).
  - chsplit Hc. destruct (proj2 expr_good _ _ D ltac:(assumption)) as (N & S & _). destruct (IH ltac:(assumption)) as (N0 & S0 & U0).
    rewrite N, S, N0, S0. repeat split.
    apply utok_app; [eapply utok_mono; [|exact (proj2 expr_utok _ _ D)]; inc|eapply utok_mono; [|exact U0]; inc].
Qed.

Lemma fncall_good ts f : DFnCall ts f -> chain ts ->
  nested_fncall f = true /\ fncall_safe f = true /\ utok ts (uses_fncall f) /\ (exists t, In t ts /\ fc_caller_range f = tok_range t).
Proof.
  intros D Hc. pose proof (fncall_bounds _ _ D) as Hb. destruct D as [name lp rp i i0 i1|name lp ta args rp i i0 D i1];
    unfold nested_fncall, fncall_safe, uses_fncall; cbn [fc_range fc_caller_range fc_args flat_map forallb] in *.
  - rewrite (token_within _ _ name Hc Hb (or_introl eq_refl)). repeat split; [apply utok_nil|].
    exists name. split; [left; reflexivity|reflexivity].
  - pose proof Hc as Hw. chsplit Hc. destruct (args_good _ _ D ltac:(assumption)) as (N & S & U).
    assert (Uw : utok (name :: lp :: ta ++ [rp]) (flat_map uses_expr args)) by (eapply utok_mono; [|exact U]; inc).
    rewrite (token_within _ _ name Hw Hb (or_introl eq_refl)), (uses_within_of _ _ _ Hw Hb Uw), N, S. repeat split; [exact Uw|].
    exists name. split; [left; reflexivity|reflexivity].
Qed.

Lemma stmt_good ts s : DStmt ts s -> chain ts -> nested_stmt s = true /\ stmt_safe s = true.
Proof.
  intros D Hc. pose proof (stmt_bounds _ _ D) as Hb. destruct D as [sd tsv sv lp so e1 tsrc src de e2 tdst dst rp i D i0 i1 i2 D0 i3 i4 D1 i5|sa tsv sv fr ta a i D i0 D0|ts f D];
    cbn [stmt_rng nested_stmt stmt_safe] in *.
  - pose proof Hc as Hw. chsplit Hc.
    destruct (sent_good _ _ D ltac:(assumption)) as (N & S & U).
    destruct (proj1 source_good _ _ D0 ltac:(assumption)) as (N0 & S0 & U0).
    destruct (proj1 dest_good _ _ D1 ltac:(assumption)) as (N1 & S1 & U1).
    assert (Uw : utok (sd :: tsv ++ lp :: so :: e1 :: tsrc ++ de :: e2 :: tdst ++ [rp]) (uses_sent sv ++ uses_source src ++ uses_dest dst)).
    { apply utok_app; [eapply utok_mono; [|exact U]; inc|apply utok_app; [eapply utok_mono; [|exact U0]; inc|eapply utok_mono; [|exact U1]; inc]]. }
    cbn [uses_stmt]. rewrite (uses_within_of _ _ _ Hw Hb Uw), N, S, N0, S0, N1, S1. split; reflexivity.
  - pose proof Hc as Hw. chsplit Hc.
    destruct (sent_good _ _ D ltac:(assumption)) as (N & S & U).
    destruct (proj2 expr_good _ _ D0 ltac:(assumption)) as (N0 & S0 & _).
    assert (Uw : utok (sa :: tsv ++ fr :: ta) (uses_sent sv ++ uses_expr a)).
    { apply utok_app; [eapply utok_mono; [|exact U]; inc|eapply utok_mono; [|exact (proj2 expr_utok _ _ D0)]; inc]. }
    cbn [uses_stmt]. rewrite (uses_within_of _ _ _ Hw Hb Uw), N, S, N0, S0. split; reflexivity.
  - destruct (fncall_good _ _ D Hc) as (N & S & _ & _). split; assumption.
Qed.

Lemma stmts_good ts ss : DStmts ts ss -> chain ts -> forallb nested_stmt ss = true /\ forallb stmt_safe ss = true.
Proof.
  induction 1 as [|t1 s t2 l D D0 IH]; intros Hc; cbn [forallb]; [split; reflexivity|].
  chsplit Hc. destruct (stmt_good _ _ D ltac:(assumption)) as [N S]. destruct (IH ltac:(assumption)) as [N0 S0].
  rewrite N, S, N0, S0. split; reflexivity.
Qed.

Lemma vardecls_good ts ds : DVarDecls ts ds -> chain ts -> forallb nested_vardecl ds = true /\ forallb vardecl_safe ds = true.
Proof.
  induction 1 as [|ty name t2 l i i0 D IH|ty name eq tf f t2 l i i0 i1 D D0 IH]; intros Hc; cbn [forallb]; [split; reflexivity| |].
  - chsplit Hc. destruct (IH ltac:(assumption)) as [N S]. unfold nested_vardecl at 1, vardecl_safe at 1. cbn [vd_origin vd_name vd_type].
    rewrite N, S. split; reflexivity.
  - pose proof Hc as Hw. chsplit Hc. destruct (IH ltac:(assumption)) as [N S].
    destruct (fncall_good _ _ D ltac:(assumption)) as (Nf & Sf & Uf & (tc & Htc & Ec)).
    assert (Hb : bounds (ty :: name :: eq :: tf) (span (tok_range ty) (fc_range f))).
    { change (ty :: name :: eq :: tf) with ([ty] ++ [name; eq] ++ tf). apply bounds_span; [apply bounds_single|exact (fncall_bounds _ _ D)]. }
    assert (Hci : chain (ty :: name :: eq :: tf)).
    { change (ty :: name :: eq :: tf ++ t2) with ((ty :: name :: eq :: tf) ++ t2) in Hw. exact (proj1 (chain_app_inv _ _ Hw)). }
    assert (Uw : utok (ty :: name :: eq :: tf) (uses_fncall f)) by (eapply utok_mono; [|exact Uf]; inc).
    unfold nested_vardecl at 1, vardecl_safe at 1. cbn [vd_origin vd_name vd_type vd_range].
    rewrite Ec, (token_within _ _ tc Hci Hb ltac:(right; right; right; exact Htc)), (uses_within_of _ _ _ Hci Hb Uw), Nf, Sf, N, S. split; reflexivity.
Qed.

Theorem program_good ts p : DProgram ts p -> chain ts -> nested p = true /\ tree_safe p = true.
Proof.
  intros D Hc. destruct D as [v lb td ds rb ts ss i i0 D i1 D0|ts ss D]; unfold nested, tree_safe; cbn [p_vars p_stmts forallb].
  - chsplit Hc. destruct (vardecls_good _ _ D ltac:(assumption)) as [N S]. destruct (stmts_good _ _ D0 ltac:(assumption)) as [N0 S0].
    rewrite N, S, N0, S0. split; reflexivity.
  - destruct (stmts_good _ _ D Hc) as [N S]. rewrite N, S. split; reflexivity.
Qed.

(* ---- the lexer's tokens are in order ---- *)
Lemma ordered_chain : forall ts p, ordered_from p ts -> chain ts.
Proof.
  induction ts as [|t ts IH]; intros p H; [exact I|]. destruct H as [_ H]. cbn [chain]. split; [|split].
  - unfold tend, tstart, tok_range, R, pos_ge. cbn [rstart rend pline pchar]. rewrite Z.eqb_refl. apply Z.leb_le. unfold tk_len. lia.
  - destruct ts as [|t' ts]; [exact I|]. destruct H as [H _].
    unfold tend, tstart, tok_range, R, pos_ge. cbn [rstart rend pline pchar]. unfold zpos_le in H. cbn [fst snd] in H.
    destruct (Z.eqb_spec (tk_line t') (tk_line t)) as [E|E]; [apply Z.leb_le; lia|apply Z.ltb_lt; lia].
  - exact (IH _ H).
Qed.

(* every text the reference parser accepts yields a tree with nested ranges and no nil shape *)
Theorem accepted_text_nested text p : parse_text text = Parsed p -> nested p = true /\ tree_safe p = true.
Proof.
  intros H. destruct (parse_text_sound _ _ H) as [D _].
  exact (program_good _ _ D (ordered_chain _ _ (lex_tokens_ordered text))).
Qed.

(* ================= derivations have no nil node at all ================= *)
Lemma expr_complete_of : (forall ts e, DAtom ts e -> expr_complete e = true) /\ (forall ts e, DExpr ts e -> expr_complete e = true).
Proof.
  assert (Hnum : forall t e ok, number_of_token t = Some (e, ok) -> expr_complete e = true).
  { intros t e ok H. unfold number_of_token in H. destruct (number_literal (text_of t)) as [[n o]|]; [|discriminate]. injection H as <- _. reflexivity. }
  assert (Hrat : forall t e, ratio_of_token t = Some e -> expr_complete e = true).
  { intros t e H. unfold ratio_of_token in H. destruct (portion_literal (text_of t)) as [[n d]|]; [|discriminate]. injection H as <-. reflexivity. }
  split.
  - intros ts e D. induction D using DAtom_mut with (P0 := fun ts e _ => expr_complete e = true); cbn [expr_complete]; try reflexivity;
      try (eapply Hnum; eassumption); try (eapply Hrat; eassumption); try exact IHD; rewrite IHD, IHD0; reflexivity.
  - intros ts e D. induction D using DExpr_mut with (P := fun ts e _ => expr_complete e = true); cbn [expr_complete]; try reflexivity;
      try (eapply Hnum; eassumption); try (eapply Hrat; eassumption); try exact IHD; first [rewrite IHD1, IHD2|rewrite IHD, IHD0]; reflexivity.
Qed.

Lemma allot_complete_of a al : DAllotment a al -> allot_complete al = true.
Proof. intros D. destruct D; reflexivity. Qed.

Lemma source_complete_inorder r l : source_complete (SInorder r l) = forallb source_complete l.
Proof. reflexivity. Qed.
Definition complete_sitem (it : range * allot * source) : bool := allot_complete (snd (fst it)) && source_complete (snd it).
Lemma source_complete_allot r items : source_complete (SAllot r items) = forallb complete_sitem items.
Proof. cbn [source_complete]. induction items as [|[[ir a] x] l IH]; [reflexivity|]. cbn [forallb]. unfold complete_sitem at 1. cbn [fst snd]. now rewrite <- IH. Qed.

Lemma source_complete_of :
  (forall ts s, DSource ts s -> source_complete s = true) /\
  (forall ts l, DSources ts l -> forallb source_complete l = true) /\
  (forall ts items, DSrcClauses ts items -> forallb complete_sitem items = true).
Proof.
  apply DSource_comb.
  - intros ts e D. exact (proj2 expr_complete_of _ _ D).
  - intros ts e al u o D _ _ _. cbn [source_complete]. now rewrite (proj2 expr_complete_of _ _ D).
  - intros ts e al o up to tb b D _ _ _ _ D0. cbn [source_complete]. now rewrite (proj2 expr_complete_of _ _ D), (proj2 expr_complete_of _ _ D0).
  - intros mx tc cap fr tf from _ D _ _ IH. cbn [source_complete]. now rewrite IH, (proj2 expr_complete_of _ _ D).
  - intros lb tss l rb _ _ IH _. rewrite source_complete_inorder. exact IH.
  - intros lb tcs items rb _ _ IH _ _. rewrite source_complete_allot. exact IH.
  - reflexivity.
  - intros t1 s t2 l _ IH _ IH0. cbn [forallb]. now rewrite IH, IH0.
  - reflexivity.
  - intros a al fr ts s t2 l Da _ _ IH _ IH0. cbn [forallb]. unfold complete_sitem at 1. cbn [fst snd]. now rewrite (allot_complete_of _ _ Da), IH, IH0.
Qed.

Definition complete_dcl (c : range * expr * kod) : bool := expr_complete (snd (fst c)) && kod_complete (snd c).
Definition complete_ditem (it : range * allot * kod) : bool := allot_complete (snd (fst it)) && kod_complete (snd it).
Lemma dest_complete_inorder r cl rem : dest_complete (DInorder r cl rem) = forallb complete_dcl cl && kod_complete rem.
Proof. cbn [dest_complete]. f_equal. induction cl as [|[[cr e] k] l IH]; [reflexivity|]. cbn [forallb]. unfold complete_dcl at 1. cbn [fst snd]. now rewrite <- IH. Qed.
Lemma dest_complete_allot r items : dest_complete (DAllot r items) = forallb complete_ditem items.
Proof. cbn [dest_complete]. induction items as [|[[ir a] k] l IH]; [reflexivity|]. cbn [forallb]. unfold complete_ditem at 1. cbn [fst snd]. now rewrite <- IH. Qed.

Lemma dest_complete_of :
  (forall ts d, DDest ts d -> dest_complete d = true) /\
  (forall ts k, DKod ts k -> kod_complete k = true) /\
  (forall ts cl, DInClauses ts cl -> forallb complete_dcl cl = true) /\
  (forall ts items, DDstClauses ts items -> forallb complete_ditem items = true).
Proof.
  apply DDest_comb.
  - intros ts e D. exact (proj2 expr_complete_of _ _ D).
  - intros lb tcl cl rm tk rem rb _ _ IH _ _ _ IH0 _. rewrite dest_complete_inorder. now rewrite IH, IH0.
  - intros lb tcs items rb _ _ IH _ _. rewrite dest_complete_allot. exact IH.
  - reflexivity.
  - intros t ts d _ _ IH. exact IH.
  - reflexivity.
  - intros mx tc cap tk k t2 l _ D _ IH _ IH0. cbn [forallb]. unfold complete_dcl at 1. cbn [fst snd]. now rewrite (proj2 expr_complete_of _ _ D), IH, IH0.
  - reflexivity.
  - intros a al tk k t2 l Da _ IH _ IH0. cbn [forallb]. unfold complete_ditem at 1. cbn [fst snd]. now rewrite (allot_complete_of _ _ Da), IH, IH0.
Qed.

Lemma sent_complete_of ts sv : DSent ts sv -> sent_complete sv = true.
Proof. intros D. destruct D as [ts e D|lb ta a st rb _ D _ _]; exact (proj2 expr_complete_of _ _ D). Qed.
Lemma args_complete_of ts args : DArgs ts args -> forallb expr_complete args = true.
Proof. induction 1 as [ts e D|ts e c t2 l D _ _ IH]; cbn [forallb]; rewrite (proj2 expr_complete_of _ _ D); [reflexivity|exact IH]. Qed.
Lemma fncall_complete_of ts f : DFnCall ts f -> fncall_complete f = true.
Proof. intros D. destruct D as [| name lp ta args rp _ _ Da _]; [reflexivity|exact (args_complete_of _ _ Da)]. Qed.
Lemma stmt_complete_of ts s : DStmt ts s -> stmt_complete s = true.
Proof.
  intros D. destruct D as [sd tsv sv lp so e1 tsrc src de e2 tdst dst rp _ D _ _ _ D0 _ _ D1 _|sa tsv sv fr ta a _ D _ D0|ts f D]; cbn [stmt_complete].
  - now rewrite (sent_complete_of _ _ D), (proj1 source_complete_of _ _ D0), (proj1 dest_complete_of _ _ D1).
  - now rewrite (sent_complete_of _ _ D), (proj2 expr_complete_of _ _ D0).
  - exact (fncall_complete_of _ _ D).
Qed.

Theorem program_complete_of ts p : DProgram ts p -> program_complete p = true.
Proof.
  assert (Hs : forall ts ss, DStmts ts ss -> forallb stmt_complete ss = true).
  { induction 1 as [|t1 s t2 l D _ IH]; [reflexivity|]. cbn [forallb]. now rewrite (stmt_complete_of _ _ D), IH. }
  assert (Hv : forall ts ds, DVarDecls ts ds -> forallb vardecl_complete ds = true).
  { induction 1 as [|ty name t2 l _ _ _ IH|ty name eq tf f t2 l _ _ _ Df _ IH]; [reflexivity| |]; cbn [forallb]; unfold vardecl_complete at 1; cbn [vd_name vd_type vd_origin];
      [exact IH|now rewrite (fncall_complete_of _ _ Df), IH]. }
  intros D. destruct D as [v lb td ds rb ts ss _ _ Dv _ Ds|ts ss Ds]; unfold program_complete; cbn [p_vars p_stmts forallb]; [now rewrite (Hv _ _ Dv), (Hs _ _ Ds)|exact (Hs _ _ Ds)].
Qed.

Theorem accepted_text_complete text p : parse_text text = Parsed p -> program_complete p = true.
Proof. intros H. exact (program_complete_of _ _ (proj1 (parse_text_sound _ _ H))). Qed.
