(* C12: executing a complete AST (no nil node: what an error-free parse produces) never panics,
   whatever the variables, the balances, the metadata and the store's answers. *)
From Coq Require Import Lia ZifyBool.
From NS Require Import Run SyntaxInd.
From NS Require Tables TablesOk ErrList.

Definition np {A} (m : res A) : Prop := forall w, m <> Panic w.

Lemma np_ok {A} (a : A) : np (Ok a : res A).
Proof. intros w H. discriminate. Qed.
Lemma np_err {A} e : np (Err e : res A).
Proof. intros w H. discriminate. Qed.
Lemma np_bind {A B} (m : res A) (f : A -> res B) : np m -> (forall a, m = Ok a -> np (f a)) -> np (bind m f).
Proof.
  intros Hm Hf. destruct m as [a|e|w]; cbn [bind]; [apply Hf; reflexivity|apply np_err|exfalso; exact (Hm w eq_refl)].
Qed.
Lemma np_if {A} (b : bool) (x y : res A) : np x -> np y -> np (if b then x else y).
Proof. destruct b; auto. Qed.

Ltac np_expect := match goal with
  | |- np (expect_monetary ?v) => destruct v; cbn; (apply np_ok || apply np_err)
  | |- np (expect_number ?v) => destruct v; cbn; (apply np_ok || apply np_err)
  | |- np (expect_string ?v) => destruct v; cbn; (apply np_ok || apply np_err)
  | |- np (expect_asset ?v) => destruct v; cbn; (apply np_ok || apply np_err)
  | |- np (expect_account ?v) => destruct v; cbn; (apply np_ok || apply np_err)
  | |- np (expect_portion ?v) => destruct v; cbn; (apply np_ok || apply np_err)
  end.

Lemma np_expect_monetary_of_asset a v : np (expect_monetary_of_asset a v).
Proof. unfold expect_monetary_of_asset. apply np_bind; [np_expect|]. intros [x n] _. apply np_if; [apply np_ok|apply np_err]. Qed.

Section Exprs.
Variable vs : env.

Lemma np_eval_expr e : expr_complete e = true -> np (eval_expr vs e).
Proof.
  induction e as [| | |r name|r s|r s|r name|r n|r a IHa b IHb|r n d|r op l IHl rr IHr]; cbn [expr_complete eval_expr]; intros H; try discriminate;
    try apply np_ok.
  - destruct (alookup name vs); [apply np_ok|apply np_err].
  - apply andb_prop in H. destruct H as [Ha Hb].
    apply np_bind; [apply IHa, Ha|]. intros va _. apply np_bind; [np_expect|]. intros asset _.
    apply np_bind; [apply IHb, Hb|]. intros vn _. apply np_bind; [np_expect|]. intros amt _. apply np_ok.
  - destruct (d =? 0); [apply np_err|]. destruct d; (apply np_ok || apply np_err).
  - destruct op as [| |s]; [| |discriminate]; apply andb_prop in H; destruct H as [Hl Hr];
      (apply np_bind; [apply IHl, Hl|]); intros vl _; destruct vl; try apply np_err;
      (apply np_bind; [apply IHr, Hr|]); intros vr _;
      try (apply np_bind; [np_expect|]; intros n2 _; apply np_ok);
      try (apply np_bind; [np_expect|]; intros [a2 n2] _; apply np_if; [apply np_ok|apply np_err]).
Qed.

Lemma np_eval_as {A} e (expect : value -> res A) : expr_complete e = true -> (forall v, np (expect v)) -> np (eval_as vs e expect).
Proof. intros He Hx. unfold eval_as. apply np_bind; [apply np_eval_expr, He|]. intros v _. apply Hx. Qed.

Lemma np_expect_account v : np (expect_account v). Proof. np_expect. Qed.
Lemma np_expect_asset v : np (expect_asset v). Proof. np_expect. Qed.
Lemma np_expect_monetary v : np (expect_monetary v). Proof. np_expect. Qed.
Lemma np_expect_portion v : np (expect_portion v). Proof. np_expect. Qed.
Lemma np_expect_string v : np (expect_string v). Proof. np_expect. Qed.

Lemma np_eval_exprs es : forallb expr_complete es = true -> np (eval_exprs vs es).
Proof.
  induction es as [|e es IH]; cbn [forallb eval_exprs]; intros H; [apply np_ok|].
  apply andb_prop in H. destruct H as [He Hes].
  apply np_bind; [apply np_eval_expr, He|]. intros v _. apply np_bind; [apply IH, Hes|]. intros vs' _. apply np_ok.
Qed.

(* allotments *)
Lemma eval_allots_ok items aps :
  forallb allot_complete items = true -> eval_allots vs items = Ok aps -> List.length aps = List.length items.
Proof.
  revert aps. induction items as [|a items IH]; intros aps Hc H; cbn [eval_allots] in H.
  - injection H as <-. reflexivity.
  - cbn [forallb] in Hc. apply andb_prop in Hc. destruct Hc as [Ha Hc].
    destruct a as [| |r n d|r name|r]; cbn [allot_complete] in Ha; try discriminate.
    + destruct d as [|dp|dp]; cbn [bind] in H; try discriminate;
        (destruct (eval_allots vs items) as [ps| |] eqn:E; cbn [bind] in H; try discriminate; injection H as <-; cbn [List.length]; f_equal; apply IH; [exact Hc|reflexivity]).
    + destruct (eval_as vs (EVar r name) expect_portion); cbn [bind] in H; try discriminate.
      destruct (eval_allots vs items) as [ps| |] eqn:E; cbn [bind] in H; try discriminate. injection H as <-. cbn [List.length]. f_equal. apply IH; [exact Hc|reflexivity].
    + cbn [bind] in H. destruct (eval_allots vs items) as [ps| |] eqn:E; cbn [bind] in H; try discriminate. injection H as <-. cbn [List.length]. f_equal. apply IH; [exact Hc|reflexivity].
Qed.

Lemma np_eval_allots items : forallb allot_complete items = true -> np (eval_allots vs items).
Proof.
  induction items as [|a items IH]; cbn [forallb eval_allots]; intros H; [apply np_ok|].
  apply andb_prop in H. destruct H as [Ha Hc].
  apply np_bind.
  - destruct a as [| |r n d|r name|r]; cbn [allot_complete] in Ha; try discriminate;
      try (destruct d; (apply np_ok || apply np_err));
      try (apply np_bind; [unfold eval_as; cbn [eval_expr]; apply np_bind; [destruct (alookup name vs); [apply np_ok|apply np_err]|intros v _; np_expect]|]; intros q _; apply np_ok);
      try apply np_ok.
  - intros p _. apply np_bind; [apply IH, Hc|]. intros ps _. apply np_ok.
Qed.

Lemma resolve_length ps i ri rem : List.length (resolve ps i ri rem) = List.length ps.
Proof. revert i. induction ps as [|[q|] ps IH]; intros i; cbn [resolve List.length]; [reflexivity| |]; now rewrite IH. Qed.

Lemma portions_of_length aps ps : portions_of aps = Ok ps -> List.length ps = List.length aps.
Proof.
  unfold portions_of. destruct (last_remaining aps 0 None).
  - destruct (Qle_bool _ _); [|discriminate]. intros [= <-]. apply resolve_length.
  - destruct (Qeq_bool _ _); [|discriminate]. intros [= <-]. apply resolve_length.
Qed.

Lemma bump_length d xs : List.length (bump d xs) = List.length xs.
Proof. revert d; induction xs as [|x xs IH]; intros d; cbn [bump]; [reflexivity|]. destruct (0 <? d); cbn; now rewrite IH. Qed.

Lemma shares_length n ps : List.length (shares n ps) = List.length ps.
Proof. unfold shares. cbv zeta. rewrite bump_length, map_length. reflexivity. Qed.

Lemma np_make_allotment n items : forallb allot_complete items = true -> np (make_allotment vs n items).
Proof.
  intros Hc. unfold make_allotment. apply np_bind; [apply np_eval_allots, Hc|]. intros aps Ha.
  apply np_bind.
  - unfold portions_of. destruct (last_remaining aps 0 None); (apply np_if; [apply np_ok|apply np_err]).
  - intros ps Hp. cbv zeta. rewrite shares_length, (portions_of_length _ _ Hp), (eval_allots_ok _ _ Hc Ha), Nat.eqb_refl. apply np_ok.
Qed.

Lemma make_allotment_length n items parts : make_allotment vs n items = Ok parts -> List.length parts = List.length items.
Proof.
  unfold make_allotment. destruct (eval_allots vs items) as [aps| |]; cbn [bind]; try discriminate.
  destruct (portions_of aps) as [ps| |]; cbn [bind]; try discriminate. cbv zeta.
  destruct (Nat.eqb_spec (List.length (shares n ps)) (List.length items)) as [E|E]; [|discriminate]. intros [= <-]. exact E.
Qed.
End Exprs.

(* ---- sources ---- *)
Section Sources.
Variable vs : env.
Variable cache : balances.
Variable asset : string.

Lemma np_try_account e amount od sd : expr_complete e = true -> np (try_sending_to_account vs cache asset e amount od sd).
Proof. intros H. unfold try_sending_to_account. apply np_bind; [apply np_eval_as; [exact H|apply np_expect_account]|]. intros a _. apply np_ok. Qed.

Lemma items_complete_allots (items : list (range * allot * source)) :
  source_complete (SAllot norange items) = true ->
  forallb allot_complete (map (fun it => snd (fst it)) items) = true /\ Forall (fun it => source_complete (snd it) = true) items.
Proof.
  cbn [source_complete]. induction items as [|[[r a] s] items IH]; intros H; [split; [reflexivity|constructor]|].
  apply andb_prop in H. destruct H as [H1 H3]. apply andb_prop in H1. destruct H1 as [H1 H2].
  destruct (IH H3) as [IH1 IH2]. split; [cbn [map forallb fst snd]; rewrite H1; exact IH1|constructor; [exact H2|exact IH2]].
Qed.

Lemma np_try_sending : forall src amount sd, source_complete src = true -> np (try_sending_up_to vs cache asset src amount sd).
Proof.
  induction src as [|e|r l IHl|r items IHi|r f c IH|r a b] using source_ind'; intros amount sd Hc; cbn [source_complete] in Hc; try discriminate.
  - cbn [try_sending_up_to]. apply np_try_account, Hc.
  - cbn [try_sending_up_to]. generalize amount at 2 as left. revert sd.
    induction l as [|s l IHl']; intros sd left; [apply np_ok|].
    inversion IHl as [|? ? Hs IHl'']; subst. apply andb_prop in Hc. destruct Hc as [Hc1 Hc2].
    apply np_bind; [apply Hs, Hc1|]. intros [sent sd'] _. apply (IHl' IHl'' Hc2).
  - destruct (items_complete_allots items Hc) as [Ha Hs].
    cbn [try_sending_up_to]. apply np_bind; [apply np_make_allotment, Ha|]. intros parts Hp.
    apply make_allotment_length in Hp. rewrite map_length in Hp.
    clear Hc Ha. revert parts Hp sd. induction items as [|[[r0 a] s] items IHi']; intros parts Hp sd; [apply np_ok|].
    destruct parts as [|p parts]; [discriminate|]. cbn [List.length] in Hp.
    inversion IHi as [|? ? Hx IHi'']; subst. inversion Hs as [|? ? Hs1 Hs2]; subst. cbn [snd] in Hx, Hs1.
    apply np_bind; [apply Hx, Hs1|]. intros [sent sd'] _. apply np_if; [|apply np_err].
    apply (IHi' IHi'' Hs2). lia.
  - apply andb_prop in Hc. destruct Hc as [Hf Hcap]. cbn [try_sending_up_to].
    apply np_bind; [apply np_eval_as; [exact Hcap|apply np_expect_monetary_of_asset]|]. intros cap _. apply IH, Hf.
  - apply andb_prop in Hc. destruct Hc as [Ha Hb]. cbn [try_sending_up_to]. destruct b as [be|].
    + apply np_bind; [apply np_eval_as; [exact Hb|apply np_expect_monetary_of_asset]|]. intros cap _. apply np_try_account, Ha.
    + apply np_try_account, Ha.
Qed.

Lemma np_send_all_account e od sd : expr_complete e = true -> np (send_all_to_account vs cache asset e od sd).
Proof.
  intros H. unfold send_all_to_account. apply np_bind; [apply np_eval_as; [exact H|apply np_expect_account]|]. intros a _.
  destruct (if String.eqb a WORLD then None else od); [apply np_ok|apply np_err].
Qed.

Lemma np_send_all : forall src sd, source_complete src = true -> np (send_all vs cache asset src sd).
Proof.
  induction src as [|e|r l IHl|r items IHi|r f c IH|r a b] using source_ind'; intros sd Hc; cbn [source_complete] in Hc; try discriminate.
  - cbn [send_all]. apply np_send_all_account, Hc.
  - cbn [send_all]. generalize 0 as total. revert sd.
    induction l as [|s l IHl']; intros sd total; [apply np_ok|].
    inversion IHl as [|? ? Hs IHl'']; subst. apply andb_prop in Hc. destruct Hc as [Hc1 Hc2].
    apply np_bind; [apply Hs, Hc1|]. intros [sent sd'] _. apply (IHl' IHl'' Hc2).
  - apply andb_prop in Hc. destruct Hc as [Hf Hcap]. cbn [send_all].
    apply np_bind; [apply np_eval_as; [exact Hcap|apply np_expect_monetary_of_asset]|]. intros cap _. apply np_try_sending, Hf.
  - apply andb_prop in Hc. destruct Hc as [Ha Hb]. cbn [send_all]. destruct b as [be|].
    + apply np_bind; [apply np_eval_as; [exact Hb|apply np_expect_monetary_of_asset]|]. intros cap _. apply np_send_all_account, Ha.
    + apply np_send_all_account, Ha.
Qed.
End Sources.

(* ---- destinations ---- *)
Section Dests.
Variable vs : env.
Variable asset : string.

Lemma np_push_receiver a n rcv : np (Ok (push_receiver a n rcv) : res (list entry)).
Proof. apply np_ok. Qed.

Lemma ditems_complete (items : list (range * allot * kod)) :
  (fix go (l : list (range * allot * kod)) :=
     match l with [] => true | (_, a, k) :: l' => allot_complete a && kod_complete k && go l' end) items = true ->
  forallb allot_complete (map (fun it => snd (fst it)) items) = true /\ Forall (fun it => kod_complete (snd it) = true) items.
Proof.
  induction items as [|[[r a] k] items IH]; intros H; [split; [reflexivity|constructor]|].
  apply andb_prop in H. destruct H as [H1 H3]. apply andb_prop in H1. destruct H1 as [H1 H2].
  destruct (IH H3) as [IH1 IH2]. split; [cbn [map forallb fst snd]; rewrite H1; exact IH1|constructor; [exact H2|exact IH2]].
Qed.

Lemma np_receive :
  (forall d n rcv, dest_complete d = true -> np (receive_from vs asset d n rcv)) /\
  (forall k n rcv, kod_complete k = true -> np (receive_kod vs asset k n rcv)).
Proof.
  apply (dest_kod_ind
    (fun d => forall n rcv, dest_complete d = true -> np (receive_from vs asset d n rcv))
    (fun k => forall n rcv, kod_complete k = true -> np (receive_kod vs asset k n rcv))).
  - intros n rcv H. discriminate.
  - intros e n rcv H. cbn [dest_complete] in H. cbn [receive_from].
    apply np_bind; [apply np_eval_as; [exact H|apply np_expect_account]|]. intros a _. apply np_ok.
  - intros r cl rem Hcl Hrem n rcv H. cbn [dest_complete] in H. apply andb_prop in H. destruct H as [H1 H2].
    revert n rcv. induction cl as [|[[r0 ce] k] l IH]; intros n rcv.
    + change (np (if n =? 0 then Ok rcv else receive_kod vs asset rem n rcv)). apply np_if; [apply np_ok|apply Hrem, H2].
    + inversion Hcl as [|? ? Hk Hcl']; subst. cbn [snd] in Hk.
      apply andb_prop in H1. destruct H1 as [H1 H3]. apply andb_prop in H1. destruct H1 as [Hce Hkc].
      change (np (cap <- eval_as vs ce (expect_monetary_of_asset asset) ;;
                  if n =? 0 then Ok rcv
                  else let amt := Z.min cap n in let amt := if amt <? 0 then 0 else amt in
                       if amt =? 0 then receive_from vs asset (DInorder r l rem) n rcv
                       else rcv' <- receive_kod vs asset k amt rcv ;; receive_from vs asset (DInorder r l rem) (n - amt) rcv')).
      apply np_bind; [apply np_eval_as; [exact Hce|apply np_expect_monetary_of_asset]|]. intros cap _.
      apply np_if; [apply np_ok|]. cbv zeta. apply np_if; [apply (IH Hcl' H3)|].
      apply np_bind; [apply Hk, Hkc|]. intros rcv' _. apply (IH Hcl' H3).
  - intros r items Hit n rcv H. cbn [dest_complete] in H. destruct (ditems_complete items H) as [Ha Hk].
    change (np (parts <- make_allotment vs n (map (fun it => snd (fst it)) items) ;;
                (fix go (l : list (range * allot * kod)) (parts : list Z) (rcv : list entry) : res (list entry) :=
                   match l, parts with
                   | [], _ => Ok rcv
                   | (_, _, k) :: l', p :: parts' => rcv' <- receive_kod vs asset k p rcv ;; go l' parts' rcv'
                   | _ :: _, [] => Panic "receiveFrom: index out of range"
                   end) items parts rcv)).
    apply np_bind; [apply np_make_allotment, Ha|]. intros parts Hp.
    apply make_allotment_length in Hp. rewrite map_length in Hp.
    clear H Ha. revert parts Hp rcv. induction items as [|[[r0 a] k] items IH]; intros parts Hp rcv; [apply np_ok|].
    destruct parts as [|p parts]; [discriminate|]. cbn [List.length] in Hp.
    inversion Hit as [|? ? Hx Hit']; subst. inversion Hk as [|? ? Hk1 Hk2]; subst. cbn [snd] in Hx, Hk1.
    apply np_bind; [apply Hx, Hk1|]. intros rcv' _. apply (IH Hit' Hk2). lia.
  - intros n rcv H. discriminate.
  - intros r n rcv _. apply np_ok.
  - intros d IH n rcv H. cbn [kod_complete] in H. cbn [receive_kod]. apply IH, H.
Qed.
End Dests.

(* ---- the reconciler never runs out of fuel ---- *)
Lemma drop_units_length k S : (List.length (drop_units k S) <= List.length S)%nat.
Proof.
  revert k. induction S as [|[s m] S IH]; intros k; cbn [drop_units]; [lia|].
  destruct (k <=? 0); [lia|]. destruct (k <? m); cbn [List.length]; [lia|]. specialize (IH (k - m)). lia.
Qed.

Lemma rec_loop_total asset fuel : forall S R acc, (List.length S + List.length R < fuel)%nat ->
  exists out, rec_loop asset fuel S R acc = Some out.
Proof.
  induction fuel as [|fuel IH]; intros S R acc Hf; [lia|]. cbn [rec_loop].
  destruct R as [|[r rm] R']; [eexists; reflexivity|].
  destruct (String.eqb r KEPT_ADDR).
  - apply IH. pose proof (drop_units_length rm S). cbn [List.length] in Hf. lia.
  - destruct S as [|[s sm] S']; [eexists; reflexivity|].
    destruct (sm ?= rm); apply IH; cbn [List.length] in *; lia.
Qed.

Lemma reconcile_total_fn asset S R : exists ps, reconcile asset S R = Some ps.
Proof.
  unfold reconcile, reconcile_fuel. destruct (rec_loop_total asset (List.length S + List.length R + 1) S R []) as [out H]; [lia|].
  rewrite H. eexists. reflexivity.
Qed.

(* ---- statements ---- *)
Lemma np_eval_sent_amt vs sv : sent_complete sv = true -> np (eval_sent_amt vs sv).
Proof.
  destruct sv as [|r e|r e]; cbn [sent_complete eval_sent_amt]; intros H; try discriminate.
  - apply np_bind; [apply np_eval_as; [exact H|apply np_expect_monetary]|]. intros [a n] _. apply np_ok.
  - apply np_bind; [apply np_eval_as; [exact H|apply np_expect_asset]|]. intros a _. apply np_ok.
Qed.

Lemma np_get_postings asset sd rcv st : np (get_postings asset sd rcv st).
Proof. unfold get_postings. destruct (reconcile_total_fn asset sd rcv) as [ps ->]. apply np_ok. Qed.

Lemma np_run_stmt vs s st : stmt_complete s = true -> np (run_stmt vs s st).
Proof.
  destruct s as [| |f|r sv src dst|r sv a]; cbn [stmt_complete run_stmt]; intros H; try discriminate.
  - apply np_bind; [apply np_eval_exprs, H|]. intros args _.
    apply np_if; [|apply np_if; [|apply np_err]].
    + apply np_bind; [|intros st' _; apply np_ok]. unfold set_tx_meta.
      destruct args as [|k [|v [|x rest]]]; try apply np_err. apply np_bind; [np_expect|]. intros key _. apply np_ok.
    + apply np_bind; [|intros st' _; apply np_ok]. unfold set_account_meta.
      destruct args as [|a0 [|k [|v [|x rest]]]]; try apply np_err.
      apply np_bind; [np_expect|]. intros account _. apply np_bind; [np_expect|]. intros key _. apply np_ok.
  - apply andb_prop in H. destruct H as [H Hd]. apply andb_prop in H. destruct H as [Hsv Hs].
    unfold run_send. apply np_bind; [|intros [[asset sd] rcv] _; apply np_get_postings].
    unfold send_lists. destruct sv as [|r0 m|r0 a]; cbn [sent_complete] in Hsv; try discriminate.
    + apply np_bind; [apply np_eval_as; [exact Hsv|apply np_expect_monetary]|]. intros [asset amt] _.
      apply np_if; [apply np_err|].
      apply np_bind.
      * unfold try_sending_exact. apply np_bind; [apply np_try_sending, Hs|]. intros [sent sd'] _. apply np_if; [apply np_ok|apply np_err].
      * intros sd _. apply np_bind; [apply np_receive, Hd|]. intros rcv _. apply np_ok.
    + apply np_bind; [apply np_eval_as; [exact Hsv|apply np_expect_asset]|]. intros asset _.
      apply np_bind; [apply np_send_all, Hs|]. intros [sent sd] _.
      apply np_bind; [apply np_receive, Hd|]. intros rcv _. apply np_ok.
  - apply andb_prop in H. destruct H as [Hsv Ha]. unfold run_save.
    apply np_bind; [apply np_eval_sent_amt, Hsv|]. intros [asset amt] _.
    apply np_bind; [apply np_eval_as; [exact Ha|apply np_expect_account]|]. intros account _.
    destruct amt as [n|]; [apply np_if; [apply np_err|apply np_ok]|apply np_ok].
Qed.

Lemma np_run_stmts vs ss : forall st, forallb stmt_complete ss = true -> np (run_stmts vs ss st).
Proof.
  induction ss as [|s ss IH]; intros st H; cbn [run_stmts]; [apply np_ok|].
  cbn [forallb] in H. apply andb_prop in H. destruct H as [Hs Hss].
  apply np_bind; [apply np_run_stmt, Hs|]. intros [ps st1] _.
  apply np_bind; [apply IH, Hss|]. intros [ps' st2] _. apply np_ok.
Qed.

(* ---- preload, variables, RunProgram ---- *)
(* the store answers each kind of call with the same kind of answer, or an error *)
Definition store_wellbehaved (sb : store) : Prop :=
  forall i call, match call, sb i call with
                 | CallBalances _, AnsMeta _ => False
                 | CallMeta _ _, AnsBalances _ => False
                 | _, _ => True
                 end.

Lemma np_find_queries vs asset : forall src q, source_complete src = true -> np (find_queries vs asset src q).
Proof.
  induction src as [|e|r l IHl|r items IHi|r f c IH|r a b] using source_ind'; intros q Hc; cbn [source_complete] in Hc; try discriminate.
  - cbn [find_queries]. apply np_bind; [apply np_eval_as; [exact Hc|apply np_expect_account]|]. intros a _. apply np_ok.
  - cbn [find_queries]. revert q. induction l as [|s l IHl']; intros q; [apply np_ok|].
    inversion IHl as [|? ? Hs IHl'']; subst. apply andb_prop in Hc. destruct Hc as [Hc1 Hc2].
    apply np_bind; [apply Hs, Hc1|]. intros q' _. apply (IHl' IHl'' Hc2).
  - destruct (items_complete_allots items Hc) as [_ Hs]. cbn [find_queries]. clear Hc.
    revert q. induction items as [|[[r0 a] s] items IHi']; intros q; [apply np_ok|].
    inversion IHi as [|? ? Hx IHi'']; subst. inversion Hs as [|? ? Hs1 Hs2]; subst. cbn [snd] in Hx, Hs1.
    apply np_bind; [apply Hx, Hs1|]. intros q' _. apply (IHi' IHi'' Hs2).
  - apply andb_prop in Hc. destruct Hc as [Hf _]. cbn [find_queries]. apply IH, Hf.
  - apply andb_prop in Hc. destruct Hc as [Ha Hb]. cbn [find_queries]. destruct b; [|apply np_ok].
    apply np_bind; [apply np_eval_as; [exact Ha|apply np_expect_account]|]. intros x _. apply np_ok.
Qed.

Lemma np_find_queries_stmts vs ss : forall q, forallb stmt_complete ss = true -> np (find_queries_stmts vs ss q).
Proof.
  induction ss as [|s ss IH]; intros q H; cbn [find_queries_stmts]; [apply np_ok|].
  cbn [forallb] in H. apply andb_prop in H. destruct H as [Hs Hss].
  apply np_bind; [|intros q' _; apply IH, Hss].
  destruct s as [| |f|r sv src dst|r sv a]; cbn [stmt_complete find_queries_stmt] in *; try discriminate; try apply np_ok.
  - apply andb_prop in Hs. destruct Hs as [Hs _]. apply andb_prop in Hs. destruct Hs as [Hsv Hsrc].
    apply np_bind; [apply np_eval_sent_amt, Hsv|]. intros [asset amt] _. apply np_find_queries, Hsrc.
  - apply andb_prop in Hs. destruct Hs as [Hsv Ha].
    apply np_bind; [apply np_eval_sent_amt, Hsv|]. intros [asset amt] _.
    apply np_bind; [apply np_eval_as; [exact Ha|apply np_expect_account]|]. intros x _. apply np_ok.
Qed.

Lemma np_run_balances_query sb rs : store_wellbehaved sb -> forall w, run_balances_query sb rs <> Panic w.
Proof.
  intros Hsb w. unfold run_balances_query. destruct (filter_query (rs_cache rs) (rs_query rs)) as [|x l] eqn:E; [discriminate|].
  specialize (Hsb (rs_ncalls rs) (CallBalances (x :: l))). cbv zeta. destruct (sb (rs_ncalls rs) (CallBalances (x :: l))) eqn:Ea; [discriminate|exfalso; cbn in Hsb; rewrite Ea in Hsb; exact Hsb|discriminate].
Qed.

Lemma np_lift_store {A} wrap (m : result string A) : (forall w, m <> Panic w) -> np (lift_store wrap m).
Proof. intros H. destruct m; cbn; [apply np_ok|apply np_err|exfalso; exact (H why eq_refl)]. Qed.

Lemma np_parse_var ty raw : np (parse_var ty raw).
Proof.
  unfold parse_var. repeat (apply np_if); try apply np_ok; try apply np_err.
  - unfold parse_monetary. destruct (split_on _ raw) as [|a [|b [|c l]]]; try apply np_err. destruct (parse_int b); [apply np_ok|apply np_err].
  - unfold parse_portion. destruct (parse_portion_text raw); [apply np_if; [apply np_ok|apply np_err]|apply np_err].
  - destruct (parse_int raw); [apply np_ok|apply np_err].
Qed.

Lemma np_two_args {A B} args (e1 : value -> res A) (e2 : value -> res B) :
  (forall v, np (e1 v)) -> (forall v, np (e2 v)) -> np (two_args args e1 e2).
Proof.
  intros H1 H2. unfold two_args. destruct args as [|a [|b [|c l]]]; try apply np_err.
  apply np_bind; [apply H1|]. intros x _. apply np_bind; [apply H2|]. intros y _. apply np_ok.
Qed.

Lemma np_get_balance sb account asset rs : store_wellbehaved sb -> np (get_balance sb account asset rs).
Proof.
  intros Hsb. unfold get_balance. apply np_bind; [apply np_lift_store, np_run_balances_query, Hsb|]. intros rs2 _. apply np_ok.
Qed.

Lemma np_handle_origin sb flag vs ty f rs :
  store_wellbehaved sb -> fncall_complete f = true -> np (handle_origin sb flag vs ty f rs).
Proof.
  intros Hsb Hf. unfold handle_origin. apply np_bind; [apply np_eval_exprs, Hf|]. intros args _.
  apply np_if; [|apply np_if; [|apply np_if; [|apply np_err]]].
  - apply np_bind; [apply np_two_args; [apply np_expect_account|apply np_expect_string]|]. intros [account key] _.
    specialize (Hsb (rs_ncalls rs) (CallMeta account key)). cbv zeta.
    destruct (sb (rs_ncalls rs) (CallMeta account key)) eqn:Ea; [exfalso; cbn in Hsb; rewrite Ea in Hsb; exact Hsb| |apply np_err].
    destruct (alookup account m); [|apply np_err]. destruct (alookup key l); [|apply np_err].
    apply np_bind; [apply np_parse_var|]. intros v _. apply np_ok.
  - apply np_bind; [apply np_two_args; [apply np_expect_account|apply np_expect_asset]|]. intros [account asset] _.
    apply np_bind; [apply np_get_balance, Hsb|]. intros [b rs'] _. apply np_if; [apply np_err|apply np_ok].
  - apply np_if; [apply np_err|].
    apply np_bind; [apply np_two_args; [apply np_expect_account|apply np_expect_asset]|]. intros [account asset] _.
    apply np_bind; [apply np_get_balance, Hsb|]. intros [b rs'] _. apply np_ok.
Qed.

Lemma np_parse_vars sb flag raw : store_wellbehaved sb ->
  forall decls vs rs, forallb vardecl_complete decls = true -> np (parse_vars sb flag decls raw vs rs).
Proof.
  intros Hsb. induction decls as [|d decls IH]; intros vs rs H; cbn [parse_vars]; [apply np_ok|].
  cbn [forallb] in H. apply andb_prop in H. destruct H as [Hd Hds]. unfold vardecl_complete in Hd.
  destruct (vd_name d) as [[rn name]|]; [|discriminate]. destruct (vd_type d) as [[rt ty]|]; [|discriminate].
  apply np_bind.
  - destruct (vd_origin d) as [f|].
    + apply np_handle_origin; assumption.
    + destruct (alookup name raw); [|apply np_err]. apply np_bind; [apply np_parse_var|]. intros v _. apply np_ok.
  - intros [v rs'] _. apply IH, Hds.
Qed.

(* C12: no panic *)
Theorem run_program_no_panic p raw sb flag :
  program_complete p = true -> store_wellbehaved sb -> forall w, run_program p raw sb flag <> Panic w.
Proof.
  intros Hp Hsb. unfold program_complete in Hp. apply andb_prop in Hp. destruct Hp as [Hv Hs].
  unfold run_program. apply np_bind.
  - unfold prepare. apply np_bind; [apply np_parse_vars; assumption|]. intros [vs rs1] _.
    apply np_bind; [apply np_find_queries_stmts, Hs|]. intros q _.
    apply np_bind; [apply np_lift_store, np_run_balances_query, Hsb|]. intros rs2 _. apply np_ok.
  - intros [vs rs2] _. apply np_bind; [apply np_run_stmts, Hs|]. intros [ps st] _. apply np_ok.
Qed.

(* ---- store faults surface as execution errors carrying the store's message ---- *)
Lemma balances_fault sb rs msg :
  filter_query (rs_cache rs) (rs_query rs) <> [] ->
  sb (rs_ncalls rs) (CallBalances (filter_query (rs_cache rs) (rs_query rs))) = AnsError msg ->
  lift_store QueryBalanceError (run_balances_query sb rs) = Err (QueryBalanceError msg).
Proof.
  intros Hne Hans. unfold run_balances_query. destruct (filter_query (rs_cache rs) (rs_query rs)) as [|x l]; [contradiction|].
  cbv zeta. rewrite Hans. reflexivity.
Qed.

Lemma meta_fault sb flag vs ty f rs account key msg :
  fc_caller f = FnVarOriginMeta ->
  eval_exprs vs (fc_args f) = Ok [VAccount account; VString key] ->
  sb (rs_ncalls rs) (CallMeta account key) = AnsError msg ->
  handle_origin sb flag vs ty f rs = Err (QueryMetadataError msg).
Proof.
  intros Hc Ha Hans. unfold handle_origin. rewrite Ha, Hc. cbn [bind]. rewrite String.eqb_refl.
  cbn [two_args expect_account expect_string bind]. rewrite Hans. reflexivity.
Qed.

(* every error value of the model is one of the typed errors of interpreter_error.go *)
Lemma errors_are_typed (e : err) : In (err_name e) Tables.runtime_errors.
Proof.
  destruct TablesOk.tables_ok_core as [_ [H _]]. rewrite H. apply ErrList.all_errs_exhaustive.
Qed.
