(* C01: no unauthorized overdraft. Replaying the postings of a successful execution never drives
   an account below the lower of its starting balance and minus the largest overdraft granted. *)
From Coq Require Import Lia ZifyBool.
From NS Require Import Stmt EvalTrees Pairing Ledger ReconcileProofs AllotProofs GreedyProofs SourceProofs DestProofs StmtProofs LedgerProofs.

(* evaluated statements *)
Inductive estmt :=
| ESend (asset : string) (amount : option Z) (src : esrc) (dst : edest)
| EOther.

Definition eval_stmt (vs : env) (s : stmt) : option estmt :=
  match s with
  | StSend _ sv src dst =>
      match ok_opt (eval_sent_amt vs sv) with
      | Some (asset, amt) =>
          match eval_esrc vs asset src, eval_edest vs asset dst with
          | Some es, Some ed => Some (ESend asset amt es ed)
          | _, _ => None
          end
      | None => None
      end
  | StSave _ _ _ | StFnCall _ => Some EOther
  | StNil | StNilFnCall => None
  end.

Definition wf_estmt (e : estmt) : Prop :=
  match e with ESend _ _ s d => wf_esrc s /\ wf_edest d | EOther => True end.

(* the leaves of the sources of a statement: (account, asset, grant) with None = unbounded *)
Definition stmt_leaves (e : estmt) : list (string * string * option Z) :=
  match e with
  | ESend asset _ s _ => map (fun l : string * option Z => (fst l, asset, snd l)) (leaves s)
  | EOther => []
  end.

(* every grant given to account [a] for asset [c] is bounded, by at most G *)
Definition grants_ok (g : list (string * string * option Z)) (a c : string) (G : Z) : Prop :=
  forall od, In (a, c, od) g -> exists k, od = Some k /\ k <= G.

Lemma debits_debited ps a c asset :
  Forall (fun q => passet q = asset) ps ->
  debits ps a c = if String.eqb asset c then debited ps a else 0.
Proof.
  unfold debits, debited. induction 1 as [|p ps Hp H IH]; cbn [map].
  - destruct (String.eqb asset c); reflexivity.
  - rewrite !zsum_cons, IH, Hp. destruct (String.eqb asset c); destruct (String.eqb (psrc p) a); cbn [andb]; lia.
Qed.

Lemma posting_ok_pos S R ps : Forall (posting_ok S R) ps -> Forall (fun p => 0 < pamt p) ps.
Proof. apply Forall_impl. intros p [H _]. exact H. Qed.

(* what a successful send statement guarantees, from the draw bound of Spec/Greedy *)
Definition send_facts (cache : balances) (asset : string) (es : esrc) (ps : list posting) : Prop :=
  Forall (fun p => 0 < pamt p) ps /\
  Forall (fun q => passet q = asset) ps /\
  (forall a M, bounded_by es a M -> debited ps a <= Z.max 0 (bget cache a asset + M)) /\
  (forall a, (forall od, ~ In (a, od) (leaves es)) -> debited ps a <= 0).

Lemma run_send_facts vs r sv src dst st ps st' asset amt es ed :
  run_stmt vs (StSend r sv src dst) st = Ok (ps, st') ->
  eval_stmt vs (StSend r sv src dst) = Some (ESend asset amt es ed) ->
  wf_esrc es -> wf_edest ed ->
  send_facts (st_cache st) asset es ps /\ st_cache st' = apply_postings (st_cache st) ps.
Proof.
  intros Hrun Hev Hws Hwd. cbn [run_stmt] in Hrun. cbn [eval_stmt] in Hev.
  destruct (ok_opt (eval_sent_amt vs sv)) as [[asset0 amt0]|] eqn:Esv; [|discriminate].
  destruct (eval_esrc vs asset0 src) as [es0|] eqn:Es; [|discriminate].
  destruct (eval_edest vs asset0 dst) as [ed0|] eqn:Ed; [|discriminate].
  injection Hev as <- <- <- <-. apply ok_opt_some in Esv.
  destruct sv as [|r0 m|r0 a]; cbn [eval_sent_amt] in Esv; [discriminate| |].
  - (* fixed amount *)
    destruct (eval_as vs m expect_monetary) as [[a0 n0]| |] eqn:Em; cbn [bind] in Esv; try discriminate.
    injection Esv as <- <-.
    destruct (Z.ltb_spec n0 0) as [Hneg|Hn].
    { rewrite (run_send_negative vs r0 m src dst a0 n0 st Em Hneg) in Hrun. discriminate. }
    pose proof (run_send_fixed vs (st_cache st) r0 m src dst a0 n0 es0 ed0 st Em Hn Es Hws Ed Hwd eq_refl) as H.
    unfold draw_exact in H.
    destruct (draw (fun a => bget (st_cache st) a a0) es0 n0 []) as [g p|x y|] eqn:Edraw;
      [|rewrite H in Hrun; discriminate|rewrite H in Hrun; discriminate].
    destruct (g =? n0) eqn:Eg; [|rewrite H in Hrun; discriminate].
    destruct (distribute ed0 n0) as [cr|]; [|rewrite H in Hrun; discriminate].
    destruct H as [ps0 [Hrs [_ [_ [Hok [Hasset [Hdeb _]]]]]]]. rewrite Hrs in Hrun. injection Hrun as <- <-.
    destruct (draw_bounds _ es0 n0 [] g p Hws Hn Edraw) as [_ [_ [Hb Hno]]].
    split; [|reflexivity]. unfold send_facts. split; [exact (posting_ok_pos _ _ _ Hok)|]. split; [exact Hasset|]. split.
    + intros a M Hbd. specialize (Hb a M Hbd). specialize (Hdeb a). cbn in Hb. lia.
    + intros a Hna. specialize (Hno a Hna). specialize (Hdeb a). cbn in Hno. lia.
  - (* send all *)
    destruct (eval_as vs a expect_asset) as [a0| |] eqn:Ea; cbn [bind] in Esv; try discriminate.
    injection Esv as <- <-.
    pose proof (run_send_all vs (st_cache st) r0 a src dst a0 es0 ed0 st Ea Es Hws Ed Hwd eq_refl) as H.
    destruct (drain (fun x => bget (st_cache st) x a0) es0 []) as [g p| |x y|] eqn:Edrain.
    + destruct (distribute ed0 g) as [cr|]; [|rewrite H in Hrun; discriminate].
      destruct H as [ps0 [Hrs [_ [_ [Hok [Hasset [Hdeb _]]]]]]]. rewrite Hrs in Hrun. injection Hrun as <- <-.
      destruct (drain_bounds _ es0 [] g p Hws Edrain) as [_ [Hext Hb]].
      split; [|reflexivity]. unfold send_facts. split; [exact (posting_ok_pos _ _ _ Hok)|]. split; [exact Hasset|]. split.
      * intros a1 M Hbd. specialize (Hb a1 M Hbd). specialize (Hdeb a1). cbn in Hb. lia.
      * intros a1 Hna. specialize (Hdeb a1).
        (* an account without leaves is bounded by any M, in particular by one that leaves nothing *)
        assert (Hbd : bounded_by es0 a1 (- bget (st_cache st) a1 a0)) by (intros od Hin; exfalso; exact (Hna od Hin)).
        specialize (Hb a1 _ Hbd). cbn in Hb. lia.
    + destruct H as [e [H _]]. rewrite H in Hrun. discriminate.
    + rewrite H in Hrun. discriminate.
    + rewrite H in Hrun. discriminate.
Qed.

(* within one send statement: every prefix of its postings respects the bound *)
Lemma send_stmt_bound cache asset es ps L a c G ps1 ps2 :
  send_facts cache asset es ps -> cache_le cache L ->
  grants_ok (stmt_leaves (ESend asset None es (EDAccount ""))) a c G ->
  ps = ps1 ++ ps2 ->
  Z.min (L a c) (- G) <= replay L ps1 a c.
Proof.
  intros [Hpos [Hasset [Hb Hno]]] Hle Hg ->.
  rewrite replay_debits_credits.
  apply Forall_app in Hpos as Hpos'. destruct Hpos' as [Hpos1 _].
  pose proof (credits_nonneg ps1 a c Hpos1) as Hc.
  pose proof (debits_prefix ps1 ps2 a c Hpos) as Hd.
  rewrite (debits_debited (ps1 ++ ps2) a c asset Hasset) in Hd.
  destruct (String.eqb asset c) eqn:Eac; [|lia].
  apply String.eqb_eq in Eac. subst c.
  (* either the account has a leaf in this statement, bounded by G, or it is not debited at all *)
  destruct (in_dec (fun x y : string => string_dec x y) a (map fst (leaves es))) as [Hin|Hnin].
  - assert (Hbd : bounded_by es a G).
    { intros od Hod. apply (Hg od). cbn [stmt_leaves]. apply in_map_iff. exists (a, od). split; [reflexivity|exact Hod]. }
    specialize (Hb a G Hbd). specialize (Hle a asset). lia.
  - assert (Hna : forall od, ~ In (a, od) (leaves es)).
    { intros od Hod. apply Hnin. apply in_map_iff. exists (a, od). split; [reflexivity|exact Hod]. }
    specialize (Hno a Hna). lia.
Qed.

(* ---------------- whole scripts ---------------- *)
Fixpoint eval_stmts (vs : env) (ss : list stmt) : option (list estmt) :=
  match ss with
  | [] => Some []
  | s :: ss' => match eval_stmt vs s, eval_stmts vs ss' with Some e, Some es => Some (e :: es) | _, _ => None end
  end.

Definition all_leaves (es : list estmt) : list (string * string * option Z) := flat_map stmt_leaves es.

Lemma run_save_cache vs r sv a st ps st' L :
  run_stmt vs (StSave r sv a) st = Ok (ps, st') -> cache_le (st_cache st) L ->
  ps = [] /\ cache_le (st_cache st') L.
Proof.
  intros H Hle. cbn [run_stmt] in H. unfold run_save in H.
  destruct (eval_sent_amt vs sv) as [[asset amt]| |]; cbn [bind] in H; try discriminate.
  destruct (eval_as vs a expect_account) as [account| |]; cbn [bind] in H; try discriminate.
  destruct amt as [n|].
  - destruct (n <? 0) eqn:En; [discriminate|]. injection H as <- <-. split; [reflexivity|]. cbn [st_cache].
    apply cache_le_lower; [exact Hle|].
    destruct (0 <? bget (st_cache st) account asset) eqn:E1; [|lia].
    destruct (bget (st_cache st) account asset - n <? 0) eqn:E2; lia.
  - injection H as <- <-. split; [reflexivity|]. cbn [st_cache]. apply cache_le_lower; [exact Hle|].
    destruct (0 <? bget (st_cache st) account asset) eqn:E1; lia.
Qed.

Lemma run_fncall_cache vs f st ps st' :
  run_stmt vs (StFnCall f) st = Ok (ps, st') -> ps = [] /\ st_cache st' = st_cache st.
Proof.
  intros H. cbn [run_stmt] in H.
  destruct (eval_exprs vs (fc_args f)) as [args| |]; cbn [bind] in H; try discriminate.
  destruct (String.eqb (fc_caller f) FnSetTxMeta).
  - unfold set_tx_meta in H. destruct args as [|k [|v [|x rest]]]; cbn [bind] in H; try discriminate.
    destruct (expect_string k); cbn [bind] in H; try discriminate. injection H as <- <-. split; reflexivity.
  - destruct (String.eqb (fc_caller f) FnSetAccountMeta); [|discriminate].
    unfold set_account_meta in H. destruct args as [|a0 [|k [|v [|x rest]]]]; cbn [bind] in H; try discriminate.
    destruct (expect_account a0); cbn [bind] in H; try discriminate.
    destruct (expect_string k); cbn [bind] in H; try discriminate. injection H as <- <-. split; reflexivity.
Qed.

Lemma grants_ok_app g1 g2 a c G : grants_ok (g1 ++ g2) a c G -> grants_ok g1 a c G /\ grants_ok g2 a c G.
Proof. intros H. split; intros od Hin; apply H; apply in_or_app; [left|right]; exact Hin. Qed.

(* C01 on the statement list: invariant "cache <= ledger", bound re-established at every prefix *)
Theorem run_stmts_overdraft vs : forall ss es st ps st' L0 L a c G,
  run_stmts vs ss st = Ok (ps, st') ->
  eval_stmts vs ss = Some es -> Forall wf_estmt es ->
  cache_le (st_cache st) L ->
  grants_ok (all_leaves es) a c G ->
  Z.min (L0 a c) (- G) <= L a c ->
  forall ps1 ps2, ps = ps1 ++ ps2 -> Z.min (L0 a c) (- G) <= replay L ps1 a c.
Proof.
  induction ss as [|s ss IH]; intros es st ps st' L0 L a c G Hrun Hev Hwf Hle Hg Hinv ps1 ps2 Hsplit.
  - cbn in Hrun. injection Hrun as <- <-. destruct ps1; [exact Hinv|discriminate].
  - cbn [run_stmts] in Hrun. cbn [eval_stmts] in Hev.
    destruct (run_stmt vs s st) as [[psa st1]| |] eqn:Es; cbn [bind] in Hrun; try discriminate.
    destruct (run_stmts vs ss st1) as [[psb st2]| |] eqn:Ess; cbn [bind] in Hrun; try discriminate.
    injection Hrun as <- <-.
    destruct (eval_stmt vs s) as [e|] eqn:Ee; [|discriminate].
    destruct (eval_stmts vs ss) as [es'|] eqn:Ees; [|discriminate]. injection Hev as <-.
    inversion Hwf as [|? ? Hwe Hwf']; subst.
    cbn [all_leaves flat_map] in Hg. apply grants_ok_app in Hg. destruct Hg as [Hg1 Hg2].
    (* facts about the first statement: its postings, and the invariant after it *)
    assert (Hfirst : (forall q1 q2, psa = q1 ++ q2 -> Z.min (L0 a c) (- G) <= replay L q1 a c)
                     /\ cache_le (st_cache st1) (replay L psa)).
    { destruct s as [| |f|r sv src dst|r sv acct]; try discriminate.
      - destruct (run_fncall_cache vs f st psa st1 Es) as [-> Hc]. split.
        + intros q1 q2 Hq. destruct q1; [exact Hinv|discriminate].
        + rewrite Hc. exact Hle.
      - destruct e as [asset amt esrc0 edst0|]; [|cbn in Ee; destruct (ok_opt (eval_sent_amt vs sv)) as [[? ?]|]; [destruct (eval_esrc vs _ src); [destruct (eval_edest vs _ dst)|]|]; discriminate].
        destruct Hwe as [Hws Hwd].
        destruct (run_send_facts vs r sv src dst st psa st1 asset amt esrc0 edst0 Es Ee Hws Hwd) as [Hf Hc]. split.
        + intros q1 q2 Hq.
          pose proof (send_stmt_bound (st_cache st) asset esrc0 psa L a c G q1 q2 Hf Hle) as Hb.
          cbn [stmt_leaves] in Hb, Hg1. specialize (Hb Hg1 Hq). lia.
        + rewrite Hc. apply cache_le_apply_postings. exact Hle.
      - destruct (run_save_cache vs r sv acct st psa st1 L Es Hle) as [-> Hc]. split.
        + intros q1 q2 Hq. destruct q1; [exact Hinv|discriminate].
        + exact Hc. }
    destruct Hfirst as [Hf1 Hf2].
    (* where does the prefix end? *)
    assert (Hcases : (exists q2, psa = ps1 ++ q2) \/ (exists q1, ps1 = psa ++ q1 /\ psb = q1 ++ ps2)).
    { clear -Hsplit. revert ps1 Hsplit. induction psa as [|p psa IHp]; intros ps1 H.
      - right. exists ps1. split; [reflexivity|exact H].
      - destruct ps1 as [|p1 ps1].
        + left. eexists. reflexivity.
        + cbn [app] in H. injection H as <- H. destruct (IHp ps1 H) as [[q2 ->]|[q1 [-> Hq]]].
          * left. exists q2. reflexivity.
          * right. exists q1. split; [reflexivity|exact Hq]. }
    destruct Hcases as [[q2 Hq]|[q1 [-> Hq]]].
    + apply (Hf1 ps1 q2 Hq).
    + rewrite replay_app.
      refine (IH es' st1 psb st2 L0 (replay L psa) a c G Ess eq_refl Hwf' Hf2 Hg2 _ q1 ps2 Hq).
      apply (Hf1 psa [] (eq_sym (app_nil_r psa))).
Qed.

(* C01 from the starting balances *)
Theorem no_unauthorized_overdraft vs ss es B st ps st' a c G :
  run_stmts vs ss st = Ok (ps, st') -> st_cache st = B ->
  eval_stmts vs ss = Some es -> Forall wf_estmt es ->
  grants_ok (all_leaves es) a c G ->
  forall ps1 ps2, ps = ps1 ++ ps2 -> Z.min (bget B a c) (- G) <= replay (ledger_of B) ps1 a c.
Proof.
  intros Hrun Hc Hev Hwf Hg ps1 ps2 Hsplit.
  refine (run_stmts_overdraft vs ss es st ps st' (ledger_of B) (ledger_of B) a c G Hrun Hev Hwf _ Hg _ ps1 ps2 Hsplit).
  - rewrite Hc. intros x y. unfold ledger_of. lia.
  - unfold ledger_of. lia.
Qed.

(* C02 on statement lists: every posting is positive, none is addressed to the kept marker, and the
   postings come grouped by statement, each group carrying the asset of its send statement *)
Definition stmt_asset (e : estmt) : option string := match e with ESend a _ _ _ => Some a | EOther => None end.

Fixpoint grouped (es : list estmt) (ps : list posting) : Prop :=
  match es with
  | [] => ps = []
  | e :: es' => exists p1 p2, ps = p1 ++ p2 /\
                  (match stmt_asset e with Some a => Forall (fun q => passet q = a) p1 | None => p1 = [] end) /\
                  grouped es' p2
  end.

Lemma run_send_wellformed vs r sv src dst st ps st' asset amt es ed :
  run_stmt vs (StSend r sv src dst) st = Ok (ps, st') ->
  eval_stmt vs (StSend r sv src dst) = Some (ESend asset amt es ed) ->
  wf_esrc es -> wf_edest ed ->
  Forall (fun p => 0 < pamt p /\ pdst p <> KEPT_ADDR /\ passet p = asset) ps.
Proof.
  intros Hrun Hev Hws Hwd. cbn [run_stmt] in Hrun. cbn [eval_stmt] in Hev.
  destruct (ok_opt (eval_sent_amt vs sv)) as [[asset0 amt0]|] eqn:Esv; [|discriminate].
  destruct (eval_esrc vs asset0 src) as [es0|] eqn:Es; [|discriminate].
  destruct (eval_edest vs asset0 dst) as [ed0|] eqn:Ed; [|discriminate].
  injection Hev as <- <- <- <-. apply ok_opt_some in Esv.
  assert (G : forall S R ps0, Forall (posting_ok S R) ps0 -> Forall (fun q => passet q = asset0) ps0 ->
              Forall (fun p => 0 < pamt p /\ pdst p <> KEPT_ADDR /\ passet p = asset0) ps0).
  { intros S R ps0 H1 H2. rewrite Forall_forall in *. intros p Hp. destruct (H1 p Hp) as [Ha [Hb _]]. repeat split; auto. }
  destruct sv as [|r0 m|r0 a]; cbn [eval_sent_amt] in Esv; [discriminate| |].
  - destruct (eval_as vs m expect_monetary) as [[a0 n0]| |] eqn:Em; cbn [bind] in Esv; try discriminate.
    injection Esv as <- <-.
    destruct (Z.ltb_spec n0 0) as [Hneg|Hn].
    { rewrite (run_send_negative vs r0 m src dst a0 n0 st Em Hneg) in Hrun. discriminate. }
    pose proof (run_send_fixed vs (st_cache st) r0 m src dst a0 n0 es0 ed0 st Em Hn Es Hws Ed Hwd eq_refl) as H.
    destruct (draw_exact (fun a => bget (st_cache st) a a0) es0 n0) as [g p|x y|];
      [|rewrite H in Hrun; discriminate|rewrite H in Hrun; discriminate].
    destruct (distribute ed0 n0) as [cr|]; [|rewrite H in Hrun; discriminate].
    destruct H as [ps0 [Hrs [_ [_ [Hok [Hasset _]]]]]]. rewrite Hrs in Hrun. injection Hrun as <- <-.
    exact (G _ _ _ Hok Hasset).
  - destruct (eval_as vs a expect_asset) as [a0| |] eqn:Ea; cbn [bind] in Esv; try discriminate.
    injection Esv as <- <-.
    pose proof (run_send_all vs (st_cache st) r0 a src dst a0 es0 ed0 st Ea Es Hws Ed Hwd eq_refl) as H.
    destruct (drain (fun x => bget (st_cache st) x a0) es0 []) as [g p| |x y|].
    + destruct (distribute ed0 g) as [cr|]; [|rewrite H in Hrun; discriminate].
      destruct H as [ps0 [Hrs [_ [_ [Hok [Hasset _]]]]]]. rewrite Hrs in Hrun. injection Hrun as <- <-.
      exact (G _ _ _ Hok Hasset).
    + destruct H as [e [H _]]. rewrite H in Hrun. discriminate.
    + rewrite H in Hrun. discriminate.
    + rewrite H in Hrun. discriminate.
Qed.

Theorem run_stmts_wellformed vs : forall ss es st ps st',
  run_stmts vs ss st = Ok (ps, st') -> eval_stmts vs ss = Some es -> Forall wf_estmt es ->
  Forall (fun p => 0 < pamt p /\ pdst p <> KEPT_ADDR) ps /\ grouped es ps.
Proof.
  induction ss as [|s ss IH]; intros es st ps st' Hrun Hev Hwf.
  - cbn in Hrun, Hev. injection Hrun as <- <-. injection Hev as <-. split; [constructor|reflexivity].
  - cbn [run_stmts] in Hrun. cbn [eval_stmts] in Hev.
    destruct (run_stmt vs s st) as [[psa st1]| |] eqn:Es; cbn [bind] in Hrun; try discriminate.
    destruct (run_stmts vs ss st1) as [[psb st2]| |] eqn:Ess; cbn [bind] in Hrun; try discriminate.
    injection Hrun as <- <-.
    destruct (eval_stmt vs s) as [e|] eqn:Ee; [|discriminate].
    destruct (eval_stmts vs ss) as [es'|] eqn:Ees; [|discriminate]. injection Hev as <-.
    inversion Hwf as [|? ? Hwe Hwf']; subst.
    destruct (IH es' st1 psb st2 Ess eq_refl Hwf') as [IH1 IH2].
    assert (Hfirst : Forall (fun p => 0 < pamt p /\ pdst p <> KEPT_ADDR) psa /\
                     match stmt_asset e with Some a => Forall (fun q => passet q = a) psa | None => psa = [] end).
    { destruct s as [| |f|r sv src dst|r sv acct]; try discriminate.
      - destruct (run_fncall_cache vs f st psa st1 Es) as [-> _]. cbn in Ee. injection Ee as <-. split; [constructor|reflexivity].
      - destruct e as [asset amt esrc0 edst0|]; [|cbn in Ee; destruct (ok_opt (eval_sent_amt vs sv)) as [[? ?]|]; [destruct (eval_esrc vs _ src); [destruct (eval_edest vs _ dst)|]|]; discriminate].
        destruct Hwe as [Hws Hwd].
        pose proof (run_send_wellformed vs r sv src dst st psa st1 asset amt esrc0 edst0 Es Ee Hws Hwd) as H.
        split; [eapply Forall_impl; [|exact H]; cbn; tauto|cbn [stmt_asset]; eapply Forall_impl; [|exact H]; cbn; tauto].
      - assert (psa = []) as ->.
        { cbn [run_stmt] in Es. unfold run_save in Es.
          destruct (eval_sent_amt vs sv) as [[asset amt]| |]; cbn [bind] in Es; try discriminate.
          destruct (eval_as vs acct expect_account); cbn [bind] in Es; try discriminate.
          destruct amt as [n|]; [destruct (n <? 0); [discriminate|]|]; injection Es as <- _; reflexivity. }
        cbn in Ee. injection Ee as <-. split; [constructor|reflexivity]. }
    destruct Hfirst as [H1 H2]. split; [apply Forall_app; split; assumption|].
    cbn [grouped]. exists psa, psb. repeat split; assumption.
Qed.
