(* C14 / C15: the reference parser is complete for the declarative grammar of Spec/Grammar.v: every
   token sequence the grammar derives is accepted, with the very tree of the derivation (the grammar
   is unambiguous), and the fuel the parser is started with is always enough. With
   Proofs/ParserSound.v: the reference parser decides the grammar. *)
From Coq Require Import Lia.
From NS Require Import Grammar ParserSound.

Definition is_pm (t : token) : bool := match tk_kind t with TPlus | TMinus => true | _ => false end.
(* what follows an expression is never a plus or minus sign *)
Definition nopm (rest : list token) : Prop := match rest with t :: _ => is_pm t = false | [] => True end.

Lemma is_kind_kind k t : is_kind k t -> tk_kind t = k.
Proof. unfold is_kind, tk_is. destruct k, (tk_kind t); intros H; try discriminate; reflexivity. Qed.

Lemma tail_stops f l rest bad : nopm rest -> parse_infix_tail (S f) l rest bad = Some (l, rest, bad).
Proof.
  intros H. cbn [parse_infix_tail]. destruct rest as [|t ts]; [reflexivity|]. cbn [nopm] in H. unfold is_pm in H.
  destruct (tk_kind t); try reflexivity; discriminate.
Qed.

(* the first token of an expression is not a sign *)
Lemma expr_first : (forall ts e, DAtom ts e -> nopm ts /\ ts <> []) /\ (forall ts e, DExpr ts e -> nopm ts /\ ts <> []).
Proof.
  split.
  - intros ts e D. induction D using DAtom_mut with (P0 := fun ts e _ => nopm ts /\ ts <> []);
      try (split; [cbn [nopm]; unfold is_pm; match goal with H : is_kind _ _ |- _ => rewrite (is_kind_kind _ _ H) end; reflexivity|discriminate]).
    + split; [|discriminate]. cbn [nopm]. unfold is_pm. destruct o as [H|H]; rewrite (is_kind_kind _ _ H); reflexivity.
    + exact IHD.
    + destruct IHD as [H1 H2]. split; [|destruct tl; [contradiction|discriminate]]. destruct tl; [contradiction|exact H1].
    + destruct IHD as [H1 H2]. split; [|destruct tl; [contradiction|discriminate]]. destruct tl; [contradiction|exact H1].
  - intros ts e D. induction D using DExpr_mut with (P := fun ts e _ => nopm ts /\ ts <> []);
      try (split; [cbn [nopm]; unfold is_pm; match goal with H : is_kind _ _ |- _ => rewrite (is_kind_kind _ _ H) end; reflexivity|discriminate]).
    + split; [|discriminate]. cbn [nopm]. unfold is_pm. destruct o as [H|H]; rewrite (is_kind_kind _ _ H); reflexivity.
    + exact IHD.
    + destruct IHD as [H1 H2]. split; [|destruct tl; [contradiction|discriminate]]. destruct tl; [contradiction|exact H1].
    + destruct IHD as [H1 H2]. split; [|destruct tl; [contradiction|discriminate]]. destruct tl; [contradiction|exact H1].
Qed.

Lemma nopm_app ts rest : nopm ts -> ts <> [] -> nopm (ts ++ rest).
Proof. destruct ts; [contradiction|trivial]. Qed.

Lemma expect_ok k t rest : is_kind k t -> expect k (t :: rest) = Some (t, rest).
Proof. unfold expect, is_kind. intros ->. reflexivity. Qed.

Combined Scheme DAtomExpr_comb from DAtom_mut, DExpr_mut.

(* ---- expressions ---- *)
Lemma expr_complete :
  (forall ts e, DAtom ts e -> forall fuel rest bad, (2 * List.length ts + 1 <= fuel)%nat ->
     exists bad', parse_atom fuel (ts ++ rest) bad = Some (e, rest, bad')) /\
  (forall tl l, DExpr tl l -> forall fuel rest bad, (2 * List.length tl + 2 <= fuel)%nat ->
     exists f1 bad1, (fuel <= f1 + List.length tl + 1)%nat /\ parse_expr fuel (tl ++ rest) bad = parse_infix_tail f1 l rest bad1).
Proof.
  assert (Single : forall (t : token) k, tk_kind t = k -> forall fuel, (2 * 1 + 1 <= fuel)%nat -> exists f, fuel = S f).
  { intros t k _ fuel H. destruct fuel; [lia|eexists; reflexivity]. }
  apply (DAtomExpr_comb
    (fun ts e _ => forall fuel rest bad, (2 * List.length ts + 1 <= fuel)%nat -> exists bad', parse_atom fuel (ts ++ rest) bad = Some (e, rest, bad'))
    (fun tl l _ => forall fuel rest bad, (2 * List.length tl + 2 <= fuel)%nat ->
       exists f1 bad1, (fuel <= f1 + List.length tl + 1)%nat /\ parse_expr fuel (tl ++ rest) bad = parse_infix_tail f1 l rest bad1)).
  - intros t i fuel rest bad Hf. destruct fuel as [|f]; [cbn in Hf; lia|]. cbn [app parse_atom]. rewrite (is_kind_kind _ _ i). eexists; reflexivity.
  - intros t i fuel rest bad Hf. destruct fuel as [|f]; [cbn in Hf; lia|]. cbn [app parse_atom]. rewrite (is_kind_kind _ _ i). eexists; reflexivity.
  - intros t i fuel rest bad Hf. destruct fuel as [|f]; [cbn in Hf; lia|]. cbn [app parse_atom]. rewrite (is_kind_kind _ _ i). eexists; reflexivity.
  - intros t i fuel rest bad Hf. destruct fuel as [|f]; [cbn in Hf; lia|]. cbn [app parse_atom]. rewrite (is_kind_kind _ _ i). eexists; reflexivity.
  - intros t e ok i En fuel rest bad Hf. destruct fuel as [|f]; [cbn in Hf; lia|]. cbn [app parse_atom]. rewrite (is_kind_kind _ _ i), En. eexists; reflexivity.
  - intros t e o Er fuel rest bad Hf. destruct fuel as [|f]; [cbn in Hf; lia|]. cbn [app parse_atom].
    destruct o as [i|i]; rewrite (is_kind_kind _ _ i), Er; eexists; reflexivity.
  - (* monetary *)
    intros lb ta a tn n rb i Da IHa Dn IHn i0 fuel rest bad Hf. destruct fuel as [|f]; [cbn in Hf; lia|].
    cbn [app parse_atom]. rewrite (is_kind_kind _ _ i). rewrite <- !app_assoc.
    cbn [List.length] in Hf. rewrite !app_length in Hf. cbn [List.length] in Hf.
    destruct (IHa f (tn ++ [rb] ++ rest) bad ltac:(lia)) as (f1 & bad1 & Hf1 & E1). rewrite E1.
    destruct (proj2 expr_first _ _ Dn) as [Hn1 Hn2].
    destruct f1 as [|f1]; [lia|].
    rewrite (tail_stops f1 a _ bad1 (nopm_app _ _ Hn1 Hn2)).
    destruct (IHn f ([rb] ++ rest) bad1 ltac:(lia)) as (f2 & bad2 & Hf2 & E2). rewrite E2.
    destruct f2 as [|f2]; [lia|].
    rewrite (tail_stops f2 n _ bad2); [|cbn [app nopm]; unfold is_pm; rewrite (is_kind_kind _ _ i0); reflexivity].
    cbn [app]. rewrite (expect_ok _ _ _ i0). eexists; reflexivity.
  - (* an atom as an expression *)
    intros ts e Da IHa fuel rest bad Hf. destruct fuel as [|f]; [lia|]. cbn [parse_expr].
    destruct (IHa f rest bad ltac:(lia)) as (bad' & E). rewrite E. exists f, bad'. split; [lia|reflexivity].
  - (* plus *)
    intros tl l op tr r Dl IHl i Dr IHr fuel rest bad Hf. rewrite app_length in Hf. cbn [List.length] in Hf.
    rewrite <- app_assoc. cbn [app].
    destruct (IHl fuel (op :: tr ++ rest) bad ltac:(lia)) as (f0 & bad0 & Hf0 & E0). rewrite E0.
    destruct f0 as [|f0]; [lia|]. cbn [parse_infix_tail]. rewrite (is_kind_kind _ _ i).
    destruct (IHr f0 rest bad0 ltac:(lia)) as (bad2 & E2). rewrite E2.
    exists f0, bad2. split; [rewrite app_length; cbn [List.length]; lia|reflexivity].
  - (* minus *)
    intros tl l op tr r Dl IHl i Dr IHr fuel rest bad Hf. rewrite app_length in Hf. cbn [List.length] in Hf.
    rewrite <- app_assoc. cbn [app].
    destruct (IHl fuel (op :: tr ++ rest) bad ltac:(lia)) as (f0 & bad0 & Hf0 & E0). rewrite E0.
    destruct f0 as [|f0]; [lia|]. cbn [parse_infix_tail]. rewrite (is_kind_kind _ _ i).
    destruct (IHr f0 rest bad0 ltac:(lia)) as (bad2 & E2). rewrite E2.
    exists f0, bad2. split; [rewrite app_length; cbn [List.length]; lia|reflexivity].
Qed.

Lemma parse_expr_complete ts e : DExpr ts e -> forall fuel rest bad, nopm rest -> (2 * List.length ts + 2 <= fuel)%nat ->
  exists bad', parse_expr fuel (ts ++ rest) bad = Some (e, rest, bad').
Proof.
  intros D fuel rest bad Hr Hf. destruct (proj2 expr_complete _ _ D fuel rest bad Hf) as (f1 & bad1 & Hf1 & E). rewrite E.
  destruct f1 as [|f1]; [lia|]. rewrite (tail_stops f1 e rest bad1 Hr). eexists; reflexivity.
Qed.

(* ---- first tokens ---- *)
Definition first_expr (t : token) : bool :=
  match tk_kind t with TVarName | TAsset | TString | TAccount | TNumber | TRatio | TPercent | TLBracket => true | _ => false end.
Definition first_src (t : token) : bool := first_expr t || tk_is TMax t || tk_is TLBrace t.

Lemma expr_first_kind : (forall ts e, DAtom ts e -> exists t ts', ts = t :: ts' /\ first_expr t = true) /\
                        (forall ts e, DExpr ts e -> exists t ts', ts = t :: ts' /\ first_expr t = true).
Proof.
  apply (DAtomExpr_comb (fun ts e _ => exists t ts', ts = t :: ts' /\ first_expr t = true) (fun ts e _ => exists t ts', ts = t :: ts' /\ first_expr t = true));
    try (intros; eexists; eexists; split; [reflexivity|]; unfold first_expr;
         match goal with H : is_kind _ _ |- _ => rewrite (is_kind_kind _ _ H) end; reflexivity).
  - intros t e o _. exists t, []. split; [reflexivity|]. unfold first_expr. destruct o as [K|K]; rewrite (is_kind_kind _ _ K); reflexivity.
  - intros ts e _ IH. exact IH.
  - intros tl l op tr r _ (t & ts' & -> & K) _ _ _. exists t, (ts' ++ op :: tr). split; [reflexivity|exact K].
  - intros tl l op tr r _ (t & ts' & -> & K) _ _ _. exists t, (ts' ++ op :: tr). split; [reflexivity|exact K].
Qed.

Lemma source_first ts s : DSource ts s -> exists t ts', ts = t :: ts' /\ first_src t = true.
Proof.
  intros D. destruct D as [ts e D|ts e al u o D|ts e al o up to tb b D|mx tc cap fr tf from i|lb tss l rb i|lb tcs items rb i].
  - destruct (proj2 expr_first_kind _ _ D) as (t & ts' & -> & K). exists t, ts'. split; [reflexivity|]. unfold first_src. now rewrite K.
  - destruct (proj2 expr_first_kind _ _ D) as (t & ts' & -> & K). eexists t, _. split; [reflexivity|]. unfold first_src. now rewrite K.
  - destruct (proj2 expr_first_kind _ _ D) as (t & ts' & -> & K). eexists t, _. split; [reflexivity|]. unfold first_src. now rewrite K.
  - eexists mx, _. split; [reflexivity|]. unfold first_src. unfold is_kind in i. rewrite i. now rewrite Bool.orb_true_r.
  - eexists lb, _. split; [reflexivity|]. unfold first_src. unfold is_kind in i. rewrite i. now rewrite Bool.orb_true_r.
  - eexists lb, _. split; [reflexivity|]. unfold first_src. unfold is_kind in i. rewrite i. now rewrite Bool.orb_true_r.
Qed.

(* what may follow a source: not a sign (the address would go on) and not `allowing` *)
Definition sfollow (rest : list token) : Prop :=
  match rest with t :: _ => is_pm t = false /\ tk_is TAllowing t = false | [] => True end.
Lemma sfollow_nopm rest : sfollow rest -> nopm rest.
Proof. destruct rest; [trivial|]. intros [H _]. exact H. Qed.

Lemma first_src_follow t rest : first_src t = true -> sfollow (t :: rest).
Proof.
  unfold first_src, first_expr, sfollow, is_pm, tk_is. destruct (tk_kind t); cbn; intros H; try discriminate; split; reflexivity.
Qed.
Lemma rbrace_follow rb rest : is_kind TRBrace rb -> sfollow (rb :: rest).
Proof. unfold is_kind, sfollow, is_pm, tk_is. destruct (tk_kind rb); intros H; try discriminate; split; reflexivity. Qed.

Lemma allot_complete a al : DAllotment a al -> parse_allot a = Some al /\ is_allot_start a = true.
Proof.
  intros D. destruct D as [t n d o E|t i|t i]; unfold parse_allot, is_allot_start.
  - destruct o as [i|i]; rewrite (is_kind_kind _ _ i), E; split; reflexivity.
  - rewrite (is_kind_kind _ _ i). split; reflexivity.
  - rewrite (is_kind_kind _ _ i). split; reflexivity.
Qed.
Lemma allot_start_follow a rest : is_allot_start a = true -> sfollow (a :: rest).
Proof. unfold is_allot_start, sfollow, is_pm, tk_is. destruct (tk_kind a); intros H; try discriminate; split; reflexivity. Qed.

(* ---- `{`: in-order list or allotment? the second token decides ---- *)
Definition nofrom (rest : list token) : Prop := match rest with t :: _ => tk_is TFrom t = false | [] => True end.
Definition not_clause (l : list token) : Prop :=
  match l with a :: f :: _ => is_allot_start a && tk_is TFrom f = false | _ => True end.

Lemma expr_second : (forall ts e, DAtom ts e -> forall rest, nofrom rest -> not_clause (ts ++ rest)) /\
                    (forall ts e, DExpr ts e -> forall rest, nofrom rest -> not_clause (ts ++ rest)).
Proof.
  assert (Single : forall t rest, nofrom rest -> not_clause ([t] ++ rest)).
  { intros t rest H. cbn [app not_clause]. destruct rest as [|f r]; [exact I|]. cbn [nofrom] in H. rewrite H. apply Bool.andb_false_r. }
  apply (DAtomExpr_comb (fun ts e _ => forall rest, nofrom rest -> not_clause (ts ++ rest)) (fun ts e _ => forall rest, nofrom rest -> not_clause (ts ++ rest)));
    try (intros; apply Single; assumption).
  - intros lb ta a tn n rb i _ _ _ _ _ rest _. cbn [app not_clause].
    destruct ((ta ++ tn ++ [rb]) ++ rest) as [|x y]; [exact I|]. unfold is_allot_start. rewrite (is_kind_kind _ _ i). reflexivity.
  - intros ts e _ IH. exact IH.
  - intros tl l op tr r _ IH i _ _ rest _. rewrite <- app_assoc. apply IH. cbn [app nofrom]. unfold tk_is. rewrite (is_kind_kind _ _ i). reflexivity.
  - intros tl l op tr r _ IH i _ _ rest _. rewrite <- app_assoc. apply IH. cbn [app nofrom]. unfold tk_is. rewrite (is_kind_kind _ _ i). reflexivity.
Qed.

Lemma source_second ts s : DSource ts s -> forall rest, nofrom rest -> not_clause (ts ++ rest).
Proof.
  assert (Brace : forall k t l, tk_kind t = k -> is_allot_start t = false -> not_clause (t :: l)).
  { intros k t l _ H. cbn [not_clause]. destruct l; [exact I|]. now rewrite H. }
  intros D rest Hr. destruct D as [ts e D|ts e al u o D i|ts e al o up to tb b D i|mx tc cap fr tf from i|lb tss l rb i|lb tcs items rb i].
  - exact (proj2 expr_second _ _ D rest Hr).
  - rewrite <- app_assoc. apply (proj2 expr_second _ _ D). cbn [app nofrom]. unfold tk_is. rewrite (is_kind_kind _ _ i). reflexivity.
  - rewrite <- app_assoc. apply (proj2 expr_second _ _ D). cbn [app nofrom]. unfold tk_is. rewrite (is_kind_kind _ _ i). reflexivity.
  - cbn [app]. eapply Brace; [reflexivity|]. unfold is_allot_start. now rewrite (is_kind_kind _ _ i).
  - cbn [app]. eapply Brace; [reflexivity|]. unfold is_allot_start. now rewrite (is_kind_kind _ _ i).
  - cbn [app]. eapply Brace; [reflexivity|]. unfold is_allot_start. now rewrite (is_kind_kind _ _ i).
Qed.

(* ---- sources ---- *)
Lemma account_plain ts e : DExpr ts e -> forall fuel rest bad, sfollow rest -> (2 * List.length ts + 2 <= fuel)%nat ->
  exists bad', parse_account_source fuel (ts ++ rest) bad = Some (SAccount e, rest, bad').
Proof.
  intros D fuel rest bad Hr Hf. unfold parse_account_source.
  destruct (parse_expr_complete _ _ D fuel rest bad (sfollow_nopm _ Hr) Hf) as (bad' & E). rewrite E.
  destruct rest as [|al r]; [eexists; reflexivity|]. destruct Hr as [_ Hal]. rewrite Hal. eexists; reflexivity.
Qed.

Lemma nopm_kind k t rest : is_kind k t -> (match k with TPlus | TMinus => false | _ => true end) = true -> nopm (t :: rest).
Proof. intros i Hk. cbn [nopm]. unfold is_pm. rewrite (is_kind_kind _ _ i). destruct k; try reflexivity; discriminate. Qed.

Lemma account_unbounded ts e al u o : DExpr ts e -> is_kind TAllowing al -> is_kind TUnbounded u -> is_kind TOverdraft o ->
  forall fuel rest bad, (2 * List.length ts + 2 <= fuel)%nat ->
  exists bad', parse_account_source fuel ((ts ++ [al; u; o]) ++ rest) bad = Some (SOverdraft (span (expr_rng e) (tok_range o)) e None, rest, bad').
Proof.
  intros D ia iu io fuel rest bad Hf. unfold parse_account_source. rewrite <- app_assoc. cbn [app].
  destruct (parse_expr_complete _ _ D fuel (al :: u :: o :: rest) bad (nopm_kind _ _ _ ia eq_refl) Hf) as (bad' & E). rewrite E.
  unfold is_kind in ia, iu, io. rewrite ia, iu, io. cbn [andb]. eexists; reflexivity.
Qed.

Lemma account_bounded ts e al o up to tb b : DExpr ts e -> is_kind TAllowing al -> is_kind TOverdraft o -> is_kind TUp up -> is_kind TTo to -> DExpr tb b ->
  forall fuel rest bad, nopm rest -> (2 * List.length ts + 2 <= fuel)%nat -> (2 * List.length tb + 2 <= fuel)%nat ->
  exists bad', parse_account_source fuel ((ts ++ al :: o :: up :: to :: tb) ++ rest) bad
               = Some (SOverdraft (span (expr_rng e) (expr_rng b)) e (Some b), rest, bad').
Proof.
  intros D ia io iu it Db fuel rest bad Hr Hf Hfb. unfold parse_account_source. rewrite <- app_assoc. cbn [app].
  destruct (parse_expr_complete _ _ D fuel (al :: o :: up :: to :: tb ++ rest) bad (nopm_kind _ _ _ ia eq_refl) Hf) as (bad1 & E). rewrite E.
  assert (Hno : tk_is TUnbounded o = false) by (unfold tk_is; rewrite (is_kind_kind _ _ io); reflexivity).
  unfold is_kind in ia. rewrite ia, Hno. cbn [andb]. unfold is_kind in io. rewrite io.
  rewrite (expect_ok _ _ _ iu), (expect_ok _ _ _ it).
  destruct (parse_expr_complete _ _ Db fuel rest bad1 Hr Hfb) as (bad2 & E2). rewrite E2. eexists; reflexivity.
Qed.

Lemma parse_source_default f t ts bad : first_expr t = true -> parse_source (S f) (t :: ts) bad = parse_account_source f (t :: ts) bad.
Proof. unfold first_expr. cbn [parse_source]. destruct (tk_kind t); intros H; try discriminate; reflexivity. Qed.

From NS Require Import NestedParse.   (* the mutual induction schemes of the grammar *)

Lemma first_src_not_from t : first_src t = true -> tk_is TFrom t = false.
Proof. unfold first_src, first_expr, tk_is. destruct (tk_kind t); cbn; intros H; try reflexivity; discriminate. Qed.
Lemma first_src_not_rbrace t : first_src t = true -> tk_is TRBrace t = false.
Proof. unfold first_src, first_expr, tk_is. destruct (tk_kind t); cbn; intros H; try reflexivity; discriminate. Qed.

Lemma sources_not_clause ts l : DSources ts l -> forall rb rest, is_kind TRBrace rb -> not_clause (ts ++ rb :: rest).
Proof.
  intros D rb rest i. destruct D as [|t1 s t2 l D D0].
  - cbn [app not_clause]. destruct rest; [exact I|]. unfold is_allot_start. now rewrite (is_kind_kind _ _ i).
  - rewrite <- app_assoc. apply (source_second _ _ D).
    destruct D0 as [|t3 s3 t4 l4 D3 _]; cbn [app nofrom].
    + unfold tk_is. now rewrite (is_kind_kind _ _ i).
    + destruct (source_first _ _ D3) as (t & ts' & -> & Ht). cbn [app]. exact (first_src_not_from _ Ht).
Qed.

Lemma source_complete :
  (forall ts s, DSource ts s -> forall fuel rest bad, sfollow rest -> (2 * List.length ts + 3 <= fuel)%nat ->
     exists bad', parse_source fuel (ts ++ rest) bad = Some (s, rest, bad')) /\
  (forall ts l, DSources ts l -> forall fuel rb rest bad, is_kind TRBrace rb -> (2 * List.length ts + 4 <= fuel)%nat ->
     exists bad', parse_sources fuel (ts ++ rb :: rest) bad = Some (l, rb :: rest, bad')) /\
  (forall ts items, DSrcClauses ts items -> items <> [] -> forall fuel rb rest bad, is_kind TRBrace rb -> (2 * List.length ts + 4 <= fuel)%nat ->
     exists bad', parse_src_clauses fuel (ts ++ rb :: rest) bad = Some (items, rb :: rest, bad')).
Proof.
  apply (DSource_comb
    (fun ts s _ => forall fuel rest bad, sfollow rest -> (2 * List.length ts + 3 <= fuel)%nat ->
       exists bad', parse_source fuel (ts ++ rest) bad = Some (s, rest, bad'))
    (fun ts l _ => forall fuel rb rest bad, is_kind TRBrace rb -> (2 * List.length ts + 4 <= fuel)%nat ->
       exists bad', parse_sources fuel (ts ++ rb :: rest) bad = Some (l, rb :: rest, bad'))
    (fun ts items _ => items <> [] -> forall fuel rb rest bad, is_kind TRBrace rb -> (2 * List.length ts + 4 <= fuel)%nat ->
       exists bad', parse_src_clauses fuel (ts ++ rb :: rest) bad = Some (items, rb :: rest, bad'))).
  - (* account *)
    intros ts e D fuel rest bad Hr Hf. destruct fuel as [|f]; [lia|].
    destruct (proj2 expr_first_kind _ _ D) as (t & ts' & E & Ht). rewrite E. cbn [app]. rewrite (parse_source_default _ _ _ _ Ht).
    change (t :: ts' ++ rest) with ((t :: ts') ++ rest). rewrite <- E. apply (account_plain _ _ D); [exact Hr|lia].
  - (* unbounded overdraft *)
    intros ts e al u o D ia iu io fuel rest bad Hr Hf. destruct fuel as [|f]; [lia|]. rewrite app_length in Hf. cbn [List.length] in Hf.
    destruct (proj2 expr_first_kind _ _ D) as (t & ts' & E & Ht).
    assert (E2 : (ts ++ [al; u; o]) ++ rest = t :: (ts' ++ [al; u; o]) ++ rest) by (rewrite E; reflexivity).
    rewrite E2, (parse_source_default _ _ _ _ Ht), <- E2. apply (account_unbounded _ _ _ _ _ D ia iu io). lia.
  - (* bounded overdraft *)
    intros ts e al o up to tb b D ia io iu it Db fuel rest bad Hr Hf. destruct fuel as [|f]; [lia|]. rewrite app_length in Hf. cbn [List.length] in Hf.
    destruct (proj2 expr_first_kind _ _ D) as (t & ts' & E & Ht).
    assert (E2 : (ts ++ al :: o :: up :: to :: tb) ++ rest = t :: (ts' ++ al :: o :: up :: to :: tb) ++ rest) by (rewrite E; reflexivity).
    rewrite E2, (parse_source_default _ _ _ _ Ht), <- E2. apply (account_bounded _ _ _ _ _ _ _ _ D ia io iu it Db); [exact (sfollow_nopm _ Hr)|lia|lia].
  - (* max cap from source *)
    intros mx tc cap fr tf from im Dc ifr Df IH fuel rest bad Hr Hf. destruct fuel as [|f]; [lia|].
    cbn [List.length] in Hf. rewrite app_length in Hf. cbn [List.length] in Hf.
    cbn [app parse_source]. rewrite (is_kind_kind _ _ im). rewrite <- app_assoc. cbn [app].
    destruct (parse_expr_complete _ _ Dc f (fr :: tf ++ rest) bad (nopm_kind _ _ _ ifr eq_refl) ltac:(lia)) as (bad1 & E1). rewrite E1.
    rewrite (expect_ok _ _ _ ifr). destruct (IH f rest bad1 Hr ltac:(lia)) as (bad3 & E3). rewrite E3. eexists; reflexivity.
  - (* in order *)
    intros lb tss l rb ilb Ds IH irb fuel rest bad Hr Hf. destruct fuel as [|f]; [lia|].
    cbn [List.length] in Hf. rewrite app_length in Hf. cbn [List.length] in Hf.
    cbn [app parse_source]. rewrite (is_kind_kind _ _ ilb). rewrite <- app_assoc. cbn [app].
    destruct (IH f rb rest bad irb ltac:(lia)) as (bad2 & E2).
    pose proof (sources_not_clause _ _ Ds rb rest irb) as Hn.
    assert (G : match tss ++ rb :: rest with
                | a :: f0 :: _ =>
                    if is_allot_start a && tk_is TFrom f0
                    then match parse_src_clauses f (tss ++ rb :: rest) bad with
                         | Some (items, ts2, bad2) => match expect TRBrace ts2 with Some (rb0, ts3) => Some (SAllot (span (tok_range lb) (tok_range rb0)) items, ts3, bad2) | None => None end
                         | None => None end
                    else match parse_sources f (tss ++ rb :: rest) bad with
                         | Some (l0, ts2, bad2) => match expect TRBrace ts2 with Some (rb0, ts3) => Some (SInorder (span (tok_range lb) (tok_range rb0)) l0, ts3, bad2) | None => None end
                         | None => None end
                | _ => match parse_sources f (tss ++ rb :: rest) bad with
                       | Some (l0, ts2, bad2) => match expect TRBrace ts2 with Some (rb0, ts3) => Some (SInorder (span (tok_range lb) (tok_range rb0)) l0, ts3, bad2) | None => None end
                       | None => None end
                end = Some (SInorder (span (tok_range lb) (tok_range rb)) l, rest, bad2)).
    { rewrite E2, (expect_ok _ _ _ irb). destruct (tss ++ rb :: rest) as [|a [|f0 r0]]; try reflexivity. cbn [not_clause] in Hn. now rewrite Hn. }
    exists bad2. exact G.
  - (* allotment *)
    intros lb tcs items rb ilb Dc IH Hne irb fuel rest bad Hr Hf. destruct fuel as [|f]; [lia|].
    cbn [List.length] in Hf. rewrite app_length in Hf. cbn [List.length] in Hf.
    cbn [app parse_source]. rewrite (is_kind_kind _ _ ilb). rewrite <- app_assoc. cbn [app].
    destruct (IH Hne f rb rest bad irb ltac:(lia)) as (bad2 & E2).
    destruct Dc as [|a al fr ts s t2 l0 Da ifr Ds Dl]; [contradiction|].
    destruct (allot_complete _ _ Da) as [_ Hst]. cbn [app] in *. unfold is_kind in ifr. rewrite Hst, ifr. cbn [andb].
    rewrite E2, (expect_ok _ _ _ irb). eexists; reflexivity.
  - (* no more sources *)
    intros fuel rb rest bad irb Hf. destruct fuel as [|f]; [lia|]. cbn [app parse_sources]. unfold is_kind in irb. rewrite irb. eexists; reflexivity.
  - (* a source, then more *)
    intros t1 s t2 l Ds IHs Dl IHl fuel rb rest bad irb Hf. destruct fuel as [|f]; [lia|]. rewrite app_length in Hf.
    destruct (source_first _ _ Ds) as (t & ts' & E & Ht).
    pose proof (first_src_not_rbrace _ Ht) as Hnb.
    rewrite <- app_assoc. subst t1. cbn [app parse_sources]. rewrite Hnb.
    change (t :: ts' ++ t2 ++ rb :: rest) with ((t :: ts') ++ t2 ++ rb :: rest).
    assert (Hfol : sfollow (t2 ++ rb :: rest)).
    { destruct Dl as [|t3 s3 t4 l4 D3 _]; cbn [app]; [exact (rbrace_follow _ _ irb)|].
      destruct (source_first _ _ D3) as (x & xs & -> & Hx). cbn [app]. exact (first_src_follow _ _ Hx). }
    destruct (IHs f (t2 ++ rb :: rest) bad Hfol ltac:(lia)) as (bad1 & E1). rewrite E1.
    cbn [List.length] in Hf.
    destruct (IHl f rb rest bad1 irb ltac:(lia)) as (bad2 & E2). rewrite E2. eexists; reflexivity.
  - (* no clause: excluded *)
    intros H. contradiction.
  - (* a clause, then more *)
    intros a al fr ts s t2 l Da ifr Ds IHs Dl IHl _ fuel rb rest bad irb Hf. destruct fuel as [|f]; [lia|].
    cbn [List.length] in Hf. rewrite app_length in Hf.
    destruct (allot_complete _ _ Da) as [Hpa Hst]. cbn [app parse_src_clauses]. unfold is_kind in ifr. rewrite Hst, ifr, Hpa. cbn [andb].
    rewrite <- app_assoc.
    assert (Hfol : sfollow (t2 ++ rb :: rest)).
    { destruct Dl as [|a2 al2 fr2 ts2 s2 t3 l3 Da2 _ _ _]; cbn [app]; [exact (rbrace_follow _ _ irb)|].
      exact (allot_start_follow _ _ (proj2 (allot_complete _ _ Da2))). }
    destruct (IHs f (t2 ++ rb :: rest) bad Hfol ltac:(lia)) as (bad2 & E2). rewrite E2.
    destruct Dl as [|a2 al2 fr2 ts2 s2 t3 l3 Da2 ifr2 Ds2 Dl2].
    + cbn [app]. unfold is_kind in irb. rewrite irb. eexists; reflexivity.
    + assert (Hnb : tk_is TRBrace a2 = false).
      { pose proof (proj2 (allot_complete _ _ Da2)) as H2. unfold is_allot_start, tk_is in *. destruct (tk_kind a2); try reflexivity; discriminate. }
      cbn [app]. rewrite Hnb.
      assert (Hne : (span (tok_range a2) (source_rng s2), al2, s2) :: l3 <> []) by discriminate.
      destruct (IHl Hne f rb rest bad2 irb ltac:(cbn [List.length]; rewrite ?app_length; cbn [List.length] in *; rewrite ?app_length in *; lia)) as (bad3 & E3).
      cbn [app] in E3. rewrite E3. eexists; reflexivity.
Qed.

(* ---- destinations ---- *)
Definition nomax (rest : list token) : Prop := match rest with t :: _ => tk_is TMax t = false | [] => True end.

Lemma kod_first tk k : DKod tk k -> exists t ts', tk = t :: ts' /\ (tk_is TTo t || tk_is TKept t) = true.
Proof.
  intros D. destruct D as [t i|t ts d i D]; eexists t, _; (split; [reflexivity|]); unfold is_kind in i; rewrite i; [apply Bool.orb_true_r|reflexivity].
Qed.
Lemma kod_first_nopm tk k rest : DKod tk k -> nopm (tk ++ rest).
Proof.
  intros D. destruct (kod_first _ _ D) as (t & ts' & -> & H). cbn [app nopm]. unfold is_pm, tk_is in *. destruct (tk_kind t); try reflexivity; discriminate.
Qed.

Lemma parse_dest_default f t ts bad : first_expr t = true ->
  parse_dest (S f) (t :: ts) bad = match parse_expr f (t :: ts) bad with Some (e, ts1, bad1) => Some (DAccount e, ts1, bad1) | None => None end.
Proof. unfold first_expr. cbn [parse_dest]. destruct (tk_kind t); intros H; try discriminate; reflexivity. Qed.

Lemma inclauses_first ts cl : DInClauses ts cl -> cl <> [] -> exists mx ts', ts = mx :: ts' /\ tk_is TMax mx = true /\ ts' <> [].
Proof.
  intros D Hne. destruct D as [|mx tc cap tk k t2 l i Dc Dk Dl]; [contradiction|].
  exists mx, (tc ++ tk ++ t2). split; [reflexivity|]. split; [exact i|].
  pose proof (proj2 (proj2 expr_first _ _ Dc)) as Hn. destruct tc; [contradiction|discriminate].
Qed.

Lemma dest_complete :
  (forall ts d, DDest ts d -> forall fuel rest bad, nopm rest -> (2 * List.length ts + 3 <= fuel)%nat ->
     exists bad', parse_dest fuel (ts ++ rest) bad = Some (d, rest, bad')) /\
  (forall ts k, DKod ts k -> forall fuel rest bad, nopm rest -> (2 * List.length ts + 2 <= fuel)%nat ->
     exists bad', parse_kod fuel (ts ++ rest) bad = Some (k, rest, bad')) /\
  (forall ts cl, DInClauses ts cl -> forall fuel rest bad, nomax rest -> nopm rest -> (2 * List.length ts + 1 <= fuel)%nat ->
     exists bad', parse_inorder_clauses fuel (ts ++ rest) bad = Some (cl, rest, bad')) /\
  (forall ts items, DDstClauses ts items -> items <> [] -> forall fuel rb rest bad, is_kind TRBrace rb -> (2 * List.length ts + 1 <= fuel)%nat ->
     exists bad', parse_dst_clauses fuel (ts ++ rb :: rest) bad = Some (items, rb :: rest, bad')).
Proof.
  apply (DDest_comb
    (fun ts d _ => forall fuel rest bad, nopm rest -> (2 * List.length ts + 3 <= fuel)%nat ->
       exists bad', parse_dest fuel (ts ++ rest) bad = Some (d, rest, bad'))
    (fun ts k _ => forall fuel rest bad, nopm rest -> (2 * List.length ts + 2 <= fuel)%nat ->
       exists bad', parse_kod fuel (ts ++ rest) bad = Some (k, rest, bad'))
    (fun ts cl _ => forall fuel rest bad, nomax rest -> nopm rest -> (2 * List.length ts + 1 <= fuel)%nat ->
       exists bad', parse_inorder_clauses fuel (ts ++ rest) bad = Some (cl, rest, bad'))
    (fun ts items _ => items <> [] -> forall fuel rb rest bad, is_kind TRBrace rb -> (2 * List.length ts + 1 <= fuel)%nat ->
       exists bad', parse_dst_clauses fuel (ts ++ rb :: rest) bad = Some (items, rb :: rest, bad'))).
  - (* account *)
    intros ts e D fuel rest bad Hr Hf. destruct fuel as [|f]; [lia|].
    destruct (proj2 expr_first_kind _ _ D) as (t & ts' & E & Ht). rewrite E. cbn [app]. rewrite (parse_dest_default _ _ _ _ Ht).
    change (t :: ts' ++ rest) with ((t :: ts') ++ rest). rewrite <- E.
    destruct (parse_expr_complete _ _ D f rest bad Hr ltac:(lia)) as (bad' & E1). rewrite E1. eexists; reflexivity.
  - (* in order *)
    intros lb tcl cl rm tk rem rb ilb Dcl IHcl Hne irm Dk IHk irb fuel rest bad Hr Hf. destruct fuel as [|f]; [lia|].
    cbn [List.length] in Hf. rewrite !app_length in Hf. cbn [List.length] in Hf. rewrite app_length in Hf. cbn [List.length] in Hf.
    cbn [app parse_dest]. rewrite (is_kind_kind _ _ ilb).
    destruct (inclauses_first _ _ Dcl Hne) as (mx & ts' & E & Hmx & Hts').
    assert (Hrm1 : nomax (rm :: tk ++ [rb] ++ rest)) by (cbn [nomax]; unfold tk_is; rewrite (is_kind_kind _ _ irm); reflexivity).
    assert (Hrm2 : nopm (rm :: tk ++ [rb] ++ rest)) by (exact (nopm_kind _ _ _ irm eq_refl)).
    destruct (IHcl f (rm :: tk ++ [rb] ++ rest) bad Hrm1 Hrm2 ltac:(lia)) as (bad2 & E2).
    assert (Hrb : nopm ([rb] ++ rest)) by (exact (nopm_kind _ _ _ irb eq_refl)).
    destruct (IHk f ([rb] ++ rest) bad2 Hrb ltac:(lia)) as (bad4 & E4).
    assert (Eq : (tcl ++ rm :: tk ++ [rb]) ++ rest = tcl ++ rm :: tk ++ [rb] ++ rest) by (rewrite <- app_assoc; cbn [app]; rewrite <- app_assoc; reflexivity).
    rewrite Eq. rewrite E in *. cbn [app] in *.
    destruct ts' as [|k0 ts'']; [contradiction|]. cbn [app].
    assert (Hns : is_allot_start mx = false) by (unfold is_allot_start, tk_is in *; destruct (tk_kind mx); try reflexivity; discriminate).
    rewrite Hns. cbn [andb]. cbn [app] in E2. rewrite E2, (expect_ok _ _ _ irm), E4. cbn [app]. rewrite (expect_ok _ _ _ irb). eexists; reflexivity.
  - (* allotment *)
    intros lb tcs items rb ilb Dc IH Hne irb fuel rest bad Hr Hf. destruct fuel as [|f]; [lia|].
    cbn [List.length] in Hf. rewrite app_length in Hf. cbn [List.length] in Hf.
    cbn [app parse_dest]. rewrite (is_kind_kind _ _ ilb). rewrite <- app_assoc. cbn [app].
    destruct (IH Hne f rb rest bad irb ltac:(lia)) as (bad2 & E2).
    destruct Dc as [|a al tk k t2 l0 Da Dk Dl]; [contradiction|].
    destruct (allot_complete _ _ Da) as [_ Hst]. destruct (kod_first _ _ Dk) as (k0 & tk' & -> & Hk0).
    cbn [app] in *. rewrite Hst, Hk0. cbn [andb]. rewrite E2, (expect_ok _ _ _ irb). eexists; reflexivity.
  - (* kept *)
    intros t i fuel rest bad Hr Hf. destruct fuel as [|f]; [lia|]. cbn [app parse_kod]. rewrite (is_kind_kind _ _ i). eexists; reflexivity.
  - (* to destination *)
    intros t ts d i Dd IH fuel rest bad Hr Hf. destruct fuel as [|f]; [lia|]. cbn [List.length] in Hf. cbn [app parse_kod]. rewrite (is_kind_kind _ _ i).
    destruct (IH f rest bad Hr ltac:(lia)) as (bad1 & E1). rewrite E1. eexists; reflexivity.
  - (* no more ordered clauses *)
    intros fuel rest bad Hm Hr Hf. destruct fuel as [|f]; [lia|]. cbn [app parse_inorder_clauses].
    destruct rest as [|t r]; [eexists; reflexivity|]. cbn [nomax] in Hm. rewrite Hm. eexists; reflexivity.
  - (* max cap kod, then more *)
    intros mx tc cap tk k t2 l imx Dc Dk IHk Dl IHl fuel rest bad Hm Hr Hf. destruct fuel as [|f]; [lia|].
    cbn [List.length] in Hf. rewrite !app_length in Hf.
    cbn [app parse_inorder_clauses]. unfold is_kind in imx. rewrite imx. rewrite <- !app_assoc.
    destruct (parse_expr_complete _ _ Dc f (tk ++ t2 ++ rest) bad (kod_first_nopm _ _ _ Dk) ltac:(lia)) as (bad1 & E1). rewrite E1.
    assert (Hfol : nopm (t2 ++ rest)).
    { destruct Dl as [|mx2 tc2 cap2 tk2 k2 t3 l3 imx2 _ _ _]; cbn [app]; [exact Hr|]. exact (nopm_kind _ _ _ imx2 eq_refl). }
    destruct (IHk f (t2 ++ rest) bad1 Hfol ltac:(lia)) as (bad2 & E2). rewrite E2.
    destruct (IHl f rest bad2 Hm Hr ltac:(lia)) as (bad3 & E3). rewrite E3. eexists; reflexivity.
  - intros H. contradiction.
  - (* allotment clause, then more *)
    intros a al tk k t2 l Da Dk IHk Dl IHl _ fuel rb rest bad irb Hf. destruct fuel as [|f]; [lia|].
    cbn [List.length] in Hf. rewrite app_length in Hf.
    destruct (allot_complete _ _ Da) as [Hpa Hst]. cbn [app parse_dst_clauses]. rewrite Hst, Hpa. rewrite <- app_assoc.
    assert (Hfol : nopm (t2 ++ rb :: rest)).
    { destruct Dl as [|a2 al2 tk2 k2 t3 l3 Da2 _ _]; cbn [app]; [exact (nopm_kind _ _ _ irb eq_refl)|].
      exact (sfollow_nopm _ (allot_start_follow _ _ (proj2 (allot_complete _ _ Da2)))). }
    destruct (IHk f (t2 ++ rb :: rest) bad Hfol ltac:(lia)) as (bad2 & E2). rewrite E2.
    destruct Dl as [|a2 al2 tk2 k2 t3 l3 Da2 Dk2 Dl2].
    + cbn [app]. unfold is_kind in irb. rewrite irb. eexists; reflexivity.
    + assert (Hnb : tk_is TRBrace a2 = false).
      { pose proof (proj2 (allot_complete _ _ Da2)) as H2. unfold is_allot_start, tk_is in *. destruct (tk_kind a2); try reflexivity; discriminate. }
      cbn [app]. rewrite Hnb.
      assert (Hne : (span (tok_range a2) (kod_end k2 norange), al2, k2) :: l3 <> []) by discriminate.
      destruct (IHl Hne f rb rest bad2 irb ltac:(cbn [List.length] in *; rewrite ?app_length in *; lia)) as (bad3 & E3).
      cbn [app] in E3. rewrite E3. eexists; reflexivity.
Qed.

(* ---- sent values ---- *)
Lemma expr_bracket_inv : forall ts e, DExpr ts e -> forall lb ts', ts = lb :: ts' -> is_kind TLBracket lb ->
  exists ta a tn n more, ts' = ta ++ tn ++ more /\ DExpr ta a /\ DExpr tn n.
Proof.
  intros ts e D. induction D as [ts e Da|tl l op tr r Dl IH i Dr|tl l op tr r Dl IH i Dr]; intros lb ts' E ilb.
  - destruct Da as [t i|t i|t i|t i|t e0 ok i En|t e0 o Er|lb0 ta a tn n rb i Da Dn i0];
      try (injection E as <- <-; exfalso; pose proof (is_kind_kind _ _ ilb) as K; first [rewrite (is_kind_kind _ _ i) in K; discriminate | destruct o as [o|o]; rewrite (is_kind_kind _ _ o) in K; discriminate]).
    injection E as <- <-. exists ta, a, tn, n, [rb]. split; [reflexivity|]. split; assumption.
  - destruct tl as [|x tl']; [destruct (proj2 (proj2 expr_first _ _ Dl)); reflexivity|]. cbn [app] in E. injection E as <- <-.
    destruct (IH x tl' eq_refl ilb) as (ta & a & tn & n & more & -> & Da & Dn).
    exists ta, a, tn, n, (more ++ op :: tr). split; [now rewrite <- !app_assoc|]. split; assumption.
  - destruct tl as [|x tl']; [destruct (proj2 (proj2 expr_first _ _ Dl)); reflexivity|]. cbn [app] in E. injection E as <- <-.
    destruct (IH x tl' eq_refl ilb) as (ta & a & tn & n & more & -> & Da & Dn).
    exists ta, a, tn, n, (more ++ op :: tr). split; [now rewrite <- !app_assoc|]. split; assumption.
Qed.

Lemma first_expr_not_star t : first_expr t = true -> tk_is TStar t = false.
Proof. unfold first_expr, tk_is. destruct (tk_kind t); intros H; try reflexivity; discriminate. Qed.

Lemma sent_complete ts sv : DSent ts sv -> forall fuel rest bad, nopm rest -> (2 * List.length ts + 2 <= fuel)%nat ->
  exists bad', parse_sent fuel (ts ++ rest) bad = Some (sv, rest, bad').
Proof.
  intros D fuel rest bad Hr Hf. destruct D as [ts e D|lb ta a st rb ilb Da ist irb].
  - destruct (parse_expr_complete _ _ D fuel rest bad Hr Hf) as (bad' & E). unfold parse_sent. rewrite E.
    destruct (proj2 expr_first_kind _ _ D) as (t & ts' & Ets & Ht). rewrite Ets in *. cbn [app].
    destruct (tk_is TLBracket t) eqn:Elb; [|eexists; reflexivity].
    destruct (expr_bracket_inv _ _ D t ts' eq_refl Elb) as (ta & a & tn & n & more & -> & Da & Dn).
    rewrite <- !app_assoc.
    assert (Hn : nopm (tn ++ more ++ rest)) by (destruct (proj2 expr_first _ _ Dn) as [H1 H2]; exact (nopm_app _ _ H1 H2)).
    cbn [List.length] in Hf. rewrite !app_length in Hf.
    destruct (parse_expr_complete _ _ Da fuel (tn ++ more ++ rest) bad Hn ltac:(lia)) as (bad1 & E1). rewrite E1.
    destruct (proj2 expr_first_kind _ _ Dn) as (x & xs & -> & Hx). cbn [app].
    destruct (xs ++ more ++ rest) as [|y ys]; [eexists; reflexivity|]. rewrite (first_expr_not_star _ Hx). cbn [andb]. eexists; reflexivity.
  - cbn [List.length] in Hf. rewrite app_length in Hf. cbn [List.length] in Hf.
    unfold parse_sent. cbn [app]. unfold is_kind in ilb. rewrite ilb. rewrite <- app_assoc. cbn [app].
    destruct (parse_expr_complete _ _ Da fuel (st :: rb :: rest) bad (nopm_kind _ _ _ ist eq_refl) ltac:(lia)) as (bad1 & E1). rewrite E1.
    unfold is_kind in ist, irb. rewrite ist, irb. cbn [andb]. eexists; reflexivity.
Qed.

(* ---- arguments and calls ---- *)
Lemma args_complete ts args : DArgs ts args -> forall fuel rp rest bad, is_kind TRParens rp -> (2 * List.length ts + 2 <= fuel)%nat ->
  exists bad', parse_args fuel (ts ++ rp :: rest) bad = Some (args, rp :: rest, bad').
Proof.
  induction 1 as [ts e D|ts e c t2 l D ic Dl IH]; intros fuel rp rest bad irp Hf; (destruct fuel as [|f]; [lia|]).
  - cbn [parse_args]. destruct (parse_expr_complete _ _ D (S f) (rp :: rest) bad (nopm_kind _ _ _ irp eq_refl) Hf) as (bad1 & E). rewrite E.
    assert (Hc : tk_is TComma rp = false) by (unfold tk_is; rewrite (is_kind_kind _ _ irp); reflexivity). rewrite Hc. eexists; reflexivity.
  - rewrite app_length in Hf. cbn [List.length] in Hf. cbn [parse_args]. rewrite <- app_assoc. cbn [app].
    destruct (parse_expr_complete _ _ D (S f) (c :: t2 ++ rp :: rest) bad (nopm_kind _ _ _ ic eq_refl) ltac:(lia)) as (bad1 & E). rewrite E.
    unfold is_kind in ic. rewrite ic. destruct (IH f rp rest bad1 irp ltac:(lia)) as (bad3 & E3). rewrite E3. eexists; reflexivity.
Qed.

Lemma args_first ts args : DArgs ts args -> exists t ts', ts = t :: ts' /\ first_expr t = true.
Proof.
  intros D. destruct D as [ts e D|ts e c t2 l D _ _]; destruct (proj2 expr_first_kind _ _ D) as (t & ts' & -> & H); eexists t, _; (split; [reflexivity|exact H]).
Qed.

Lemma fncall_complete ts f : DFnCall ts f -> forall fuel rest bad, (2 * List.length ts + 2 <= fuel)%nat ->
  exists bad', parse_fncall fuel (ts ++ rest) bad = Some (f, rest, bad').
Proof.
  intros D fuel rest bad Hf. destruct D as [name lp rp o ilp irp|name lp ta args rp o ilp Da irp].
  - unfold parse_fncall. cbn [app]. assert (Hn : (tk_is TIdentifier name || tk_is TOverdraft name) = true) by (destruct o as [o|o]; unfold is_kind in o; rewrite o; [reflexivity|apply Bool.orb_true_r]).
    unfold is_kind in ilp, irp. rewrite Hn, ilp, irp. cbn [andb]. eexists; reflexivity.
  - cbn [List.length] in Hf. rewrite app_length in Hf. cbn [List.length] in Hf.
    unfold parse_fncall. cbn [app]. assert (Hn : (tk_is TIdentifier name || tk_is TOverdraft name) = true) by (destruct o as [o|o]; unfold is_kind in o; rewrite o; [reflexivity|apply Bool.orb_true_r]).
    unfold is_kind in ilp. rewrite Hn, ilp. cbn [andb]. rewrite <- app_assoc. cbn [app].
    destruct (args_first _ _ Da) as (t & ts' & E & Ht).
    assert (Hnr : tk_is TRParens t = false) by (unfold first_expr, tk_is in *; destruct (tk_kind t); try reflexivity; discriminate).
    destruct (args_complete _ _ Da fuel rp rest bad irp ltac:(lia)) as (bad3 & E3).
    rewrite E in *. cbn [app] in *. rewrite Hnr, E3, (expect_ok _ _ _ irp). eexists; reflexivity.
Qed.

(* ---- statements ---- *)
Definition first_stmt (t : token) : bool := match tk_kind t with TSend | TSave | TIdentifier | TOverdraft => true | _ => false end.

Lemma stmt_first ts s : DStmt ts s -> exists t ts', ts = t :: ts' /\ first_stmt t = true /\ (2 <= List.length ts')%nat.
Proof.
  intros D. destruct D as [sd tsv sv lp so e1 tsrc src de e2 tdst dst rp i _ _ _ _ _ _ _ _ _|sa tsv sv fr ta a i Dsv _ _|ts f D].
  - eexists sd, _. split; [reflexivity|]. split; [unfold first_stmt; now rewrite (is_kind_kind _ _ i)|]. rewrite app_length. cbn [List.length]. lia.
  - eexists sa, _. split; [reflexivity|]. split; [unfold first_stmt; now rewrite (is_kind_kind _ _ i)|]. rewrite app_length. cbn [List.length].
    assert (1 <= List.length tsv)%nat; [|lia]. destruct Dsv as [ts e D|]; [|cbn; lia]. destruct (proj2 expr_first_kind _ _ D) as (t & ts' & -> & _). cbn; lia.
  - destruct D as [name lp rp o _ _|name lp ta args rp o _ _ _]; eexists name, _; (split; [reflexivity|]);
      (split; [unfold first_stmt; destruct o as [o|o]; now rewrite (is_kind_kind _ _ o)|cbn [List.length]; rewrite ?app_length; cbn [List.length]; lia]).
Qed.

Lemma first_stmt_nopm t rest : first_stmt t = true -> nopm (t :: rest).
Proof. unfold first_stmt, nopm, is_pm. destruct (tk_kind t); intros H; try reflexivity; discriminate. Qed.

Lemma stmt_complete ts s : DStmt ts s -> forall fuel rest bad, nopm rest -> (2 * List.length ts + 3 <= fuel)%nat ->
  exists bad', parse_statement fuel (ts ++ rest) bad = Some (s, rest, bad').
Proof.
  intros D fuel rest bad Hr Hf.
  destruct D as [sd tsv sv lp so e1 tsrc src de e2 tdst dst rp isd Dsv ilp iso ie1 Dsrc ide ie2 Ddst irp|sa tsv sv fr ta a isa Dsv ifr Da|ts f D].
  - cbn [List.length] in Hf. repeat (rewrite app_length in Hf; cbn [List.length] in Hf).
    unfold parse_statement. cbn [app]. rewrite (is_kind_kind _ _ isd).
    assert (Eq : (tsv ++ lp :: so :: e1 :: tsrc ++ de :: e2 :: tdst ++ [rp]) ++ rest = tsv ++ lp :: so :: e1 :: tsrc ++ de :: e2 :: tdst ++ rp :: rest).
    { rewrite <- app_assoc. cbn [app]. rewrite <- app_assoc. cbn [app]. rewrite <- app_assoc. reflexivity. }
    rewrite Eq.
    destruct (sent_complete _ _ Dsv fuel (lp :: so :: e1 :: tsrc ++ de :: e2 :: tdst ++ rp :: rest) bad (nopm_kind _ _ _ ilp eq_refl) ltac:(lia)) as (bad1 & E1). rewrite E1.
    rewrite (expect_ok _ _ _ ilp), (expect_ok _ _ _ iso), (expect_ok _ _ _ ie1).
    assert (Hfol : sfollow (de :: e2 :: tdst ++ rp :: rest)).
    { cbn [sfollow]. unfold is_pm, tk_is. rewrite (is_kind_kind _ _ ide). split; reflexivity. }
    destruct (proj1 source_complete _ _ Dsrc fuel _ bad1 Hfol ltac:(lia)) as (bad5 & E5). rewrite E5.
    rewrite (expect_ok _ _ _ ide), (expect_ok _ _ _ ie2).
    destruct (proj1 dest_complete _ _ Ddst fuel (rp :: rest) bad5 (nopm_kind _ _ _ irp eq_refl) ltac:(lia)) as (bad8 & E8). rewrite E8.
    rewrite (expect_ok _ _ _ irp). eexists; reflexivity.
  - cbn [List.length] in Hf. repeat (rewrite app_length in Hf; cbn [List.length] in Hf).
    unfold parse_statement. cbn [app]. rewrite (is_kind_kind _ _ isa). rewrite <- app_assoc. cbn [app].
    destruct (sent_complete _ _ Dsv fuel (fr :: ta ++ rest) bad (nopm_kind _ _ _ ifr eq_refl) ltac:(lia)) as (bad1 & E1). rewrite E1.
    rewrite (expect_ok _ _ _ ifr).
    destruct (parse_expr_complete _ _ Da fuel rest bad1 Hr ltac:(lia)) as (bad3 & E3). rewrite E3. eexists; reflexivity.
  - destruct (fncall_complete _ _ D fuel rest bad ltac:(lia)) as (bad1 & E1).
    assert (Hk : exists t ts', ts = t :: ts' /\ (tk_kind t = TIdentifier \/ tk_kind t = TOverdraft)).
    { destruct D as [name lp rp o _ _|name lp ta args rp o _ _ _]; eexists name, _; (split; [reflexivity|]); destruct o as [o|o]; [left|right|left|right]; exact (is_kind_kind _ _ o). }
    destruct Hk as (t & ts' & -> & Hk). unfold parse_statement. cbn [app] in *.
    destruct Hk as [Hk|Hk]; rewrite Hk; rewrite E1; eexists; reflexivity.
Qed.

Lemma stmts_complete ts ss : DStmts ts ss -> forall fuel bad, (2 * List.length ts + 4 <= fuel)%nat ->
  exists bad', parse_statements fuel ts bad = Some (ss, bad').
Proof.
  induction 1 as [|t1 s t2 l D Dl IH]; intros fuel bad Hf; (destruct fuel as [|f]; [lia|]).
  - cbn [parse_statements]. eexists; reflexivity.
  - rewrite app_length in Hf. destruct (stmt_first _ _ D) as (t & ts' & E & Ht & Hlen).
    assert (Hr : nopm t2).
    { destruct Dl as [|t3 s3 t4 l4 D3 _]; [exact I|]. destruct (stmt_first _ _ D3) as (x & xs & -> & Hx & _). cbn [app]. exact (first_stmt_nopm _ _ Hx). }
    destruct (stmt_complete _ _ D (S f) t2 bad Hr ltac:(lia)) as (bad1 & E1).
    assert (Hl1 : (3 <= List.length t1)%nat) by (rewrite E; cbn [List.length]; lia).
    destruct (IH f bad1 ltac:(lia)) as (bad2 & E2).
    assert (G : forall X, parse_statements (S f) (t1 ++ t2) bad = X ->
                match parse_statement (S f) (t1 ++ t2) bad with
                | Some (s0, ts1, bad1) => match parse_statements f ts1 bad1 with Some (l0, bad2) => Some (s0 :: l0, bad2) | None => None end
                | None => None end = X).
    { intros X <-. subst t1. reflexivity. }
    eexists. apply eq_sym. apply eq_sym. rewrite <- (G _ eq_refl). rewrite E1, E2. reflexivity.
Qed.

(* ---- declarations ---- *)
Lemma vardecls_complete ts ds : DVarDecls ts ds -> forall fuel rb rest bad, is_kind TRBrace rb -> (2 * List.length ts + 3 <= fuel)%nat ->
  exists bad', parse_vardecls fuel (ts ++ rb :: rest) bad = Some (ds, rb :: rest, bad').
Proof.
  induction 1 as [|ty name t2 l ity iname Dl IH|ty name eq tf f t2 l ity iname ieq Df Dl IH]; intros fuel rb rest bad irb Hf; (destruct fuel as [|fu]; [lia|]).
  - cbn [app parse_vardecls]. unfold is_kind in irb. destruct rest as [|x xs]; rewrite irb; eexists; reflexivity.
  - cbn [List.length] in Hf. cbn [app parse_vardecls].
    assert (Hnb : tk_is TRBrace ty = false) by (unfold tk_is; rewrite (is_kind_kind _ _ ity); reflexivity).
    unfold is_kind in ity, iname. rewrite Hnb, ity, iname. cbn [andb].
    destruct (IH fu rb rest bad irb ltac:(lia)) as (bad3 & E3).
    assert (Hne : exists x xs, t2 ++ rb :: rest = x :: xs /\ tk_is TEq x = false).
    { destruct Dl as [|ty2 name2 t3 l3 ity2 _ _|ty2 name2 eq2 tf2 f2 t3 l3 ity2 _ _ _ _]; cbn [app]; eexists _, _; (split; [reflexivity|]); unfold tk_is;
        [rewrite (is_kind_kind _ _ irb)|rewrite (is_kind_kind _ _ ity2)|rewrite (is_kind_kind _ _ ity2)]; reflexivity. }
    destruct Hne as (x & xs & Ex & Hx). rewrite Ex in *. rewrite Hx, E3. eexists; reflexivity.
  - cbn [List.length] in Hf. rewrite app_length in Hf. cbn [app parse_vardecls].
    assert (Hnb : tk_is TRBrace ty = false) by (unfold tk_is; rewrite (is_kind_kind _ _ ity); reflexivity).
    unfold is_kind in ity, iname, ieq. rewrite Hnb, ity, iname, ieq. cbn [andb]. rewrite <- app_assoc.
    destruct (fncall_complete _ _ Df (S fu) (t2 ++ rb :: rest) bad ltac:(lia)) as (bad3 & E3). rewrite E3.
    destruct (IH fu rb rest bad3 irb ltac:(lia)) as (bad4 & E4). rewrite E4. eexists; reflexivity.
Qed.

(* ================= programs ================= *)
Lemma first_stmt_not_vars t : first_stmt t = true -> tk_is TVars t = false.
Proof. unfold first_stmt, tk_is. destruct (tk_kind t); intros H; try reflexivity; discriminate. Qed.

Lemma stmts_first ts ss : DStmts ts ss -> forall v rest, ts = v :: rest -> first_stmt v = true.
Proof.
  intros D. destruct D as [|t1 s t2 l D _]; intros v rest E; [discriminate|].
  destruct (stmt_first _ _ D) as (t & ts' & -> & Ht & _). cbn [app] in E. injection E as <- _. exact Ht.
Qed.

Theorem parse_tokens_complete ts p : DProgram ts p -> exists n, parse_tokens ts = Some (p, n).
Proof.
  intros D. destruct D as [v lb td ds rb ts ss iv ilb Dv irb Ds|ts ss Ds].
  - unfold parse_tokens. unfold is_kind in iv, ilb. rewrite iv, ilb.
    set (fuel := (2 * List.length (v :: lb :: td ++ rb :: ts) + 6)%nat).
    assert (Hf : (2 * (List.length td + List.length ts) + 10 <= fuel)%nat) by (unfold fuel; cbn [List.length]; rewrite app_length; cbn [List.length]; lia).
    destruct (vardecls_complete _ _ Dv fuel rb ts O irb ltac:(lia)) as (bad & E). rewrite E.
    rewrite (expect_ok _ _ _ irb). destruct (stmts_complete _ _ Ds fuel bad ltac:(lia)) as (bad' & E'). rewrite E'. eexists; reflexivity.
  - assert (G : exists n, match parse_statements (2 * List.length ts + 6) ts O with Some (ss0, bad) => Some (mkprogram [] ss0, bad) | None => None end = Some (mkprogram [] ss, n)).
    { destruct (stmts_complete _ _ Ds (2 * List.length ts + 6)%nat O ltac:(lia)) as (bad' & E'). rewrite E'. eexists; reflexivity. }
    unfold parse_tokens. destruct ts as [|v [|lb ts1]]; try exact G.
    rewrite (first_stmt_not_vars _ (stmts_first _ _ Ds v (lb :: ts1) eq_refl)). exact G.
Qed.

(* the reference parser decides the grammar, and the grammar is unambiguous *)
Theorem parser_decides ts p : DProgram ts p <-> exists n, parse_tokens ts = Some (p, n).
Proof. split; [apply parse_tokens_complete|intros [n H]; exact (parse_tokens_sound _ _ _ H)]. Qed.

Theorem grammar_unambiguous ts p p' : DProgram ts p -> DProgram ts p' -> p = p'.
Proof.
  intros D D'. destruct (parse_tokens_complete _ _ D) as [n E]. destruct (parse_tokens_complete _ _ D') as [n' E'].
  rewrite E in E'. injection E' as -> _. reflexivity.
Qed.

(* a text is a valid script when its characters lex without error into a token sequence the grammar derives *)
Definition valid_text (text : list Z) : Prop := snd (lex_text text) = [] /\ exists p, DProgram (fst (lex_text text)) p.

Theorem accepts_iff_valid text : parse_text text <> Rejected <-> valid_text text.
Proof.
  unfold parse_text, valid_text. destruct (lex_text text) as [ts errs]. cbn [fst snd]. split.
  - destruct errs as [|e errs]; [|intros H; exfalso; apply H; reflexivity].
    destruct (parse_tokens ts) as [[p n]|] eqn:E; [|intros H; exfalso; apply H; reflexivity].
    intros _. split; [reflexivity|]. exists p. exact (parse_tokens_sound _ _ _ E).
  - intros [-> [p D]]. destruct (parse_tokens_complete _ _ D) as [n E]. rewrite E. destruct n; discriminate.
Qed.

(* and what it returns for a valid text is the one tree the grammar gives it *)
Theorem accepted_tree_is_the_derivation text p :
  valid_text text -> DProgram (fst (lex_text text)) p -> exists n, parse_text text = match n with O => Parsed p | S _ => ParsedOutOfRange p n end.
Proof.
  intros [He _] D. unfold parse_text. destruct (lex_text text) as [ts errs]. cbn [fst snd] in *. subst errs.
  destruct (parse_tokens_complete _ _ D) as [n E]. rewrite E. exists n. destruct n; reflexivity.
Qed.
