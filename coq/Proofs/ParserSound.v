(* C15: the reference parser is sound for the declarative grammar of Spec/Grammar.v: whatever it
   accepts, the tree it returns is a derivation of exactly the tokens it consumed - structure,
   literal values and the range of every node. *)
From Coq Require Import Lia.
From NS Require Import Grammar.

Lemma expect_spec k ts t rest : expect k ts = Some (t, rest) -> ts = t :: rest /\ is_kind k t.
Proof.
  unfold expect. destruct ts as [|t0 ts']; [discriminate|]. destruct (tk_is k t0) eqn:E; [|discriminate].
  intros H. injection H as <- <-. split; [reflexivity|exact E].
Qed.

Lemma kind_is t k : tk_kind t = k -> tk_is k t = true.
Proof. intros <-. unfold tk_is. destruct (tk_kind t); reflexivity. Qed.

Definition consumed_by {A} (D : list token -> A -> Prop) (ts rest : list token) (x : A) : Prop :=
  exists c, ts = c ++ rest /\ D c x.

(* ---- expressions ---- *)
Lemma expr_sound : forall fuel,
  (forall ts bad e rest bad', parse_atom fuel ts bad = Some (e, rest, bad') -> consumed_by DAtom ts rest e)
  /\ (forall ts bad e rest bad', parse_expr fuel ts bad = Some (e, rest, bad') -> consumed_by DExpr ts rest e)
  /\ (forall left tl ts bad e rest bad', parse_infix_tail fuel left ts bad = Some (e, rest, bad') -> DExpr tl left ->
        exists c, ts = c ++ rest /\ DExpr (tl ++ c) e).
Proof.
  induction fuel as [|fuel (IHa & IHe & IHt)]; [repeat split; intros; discriminate|].
  repeat split.
  - (* atom *)
    intros ts bad e rest bad' H. cbn [parse_atom] in H. destruct ts as [|t ts']; [discriminate|].
    destruct (tk_kind t) eqn:Ek; try discriminate.
    + (* [ asset amount ] *)
      destruct (parse_expr fuel ts' bad) as [[[a ts1] bad1]|] eqn:E1; [|discriminate].
      destruct (parse_expr fuel ts1 bad1) as [[[n ts2] bad2]|] eqn:E2; [|discriminate].
      destruct (expect TRBracket ts2) as [[rb ts3]|] eqn:E3; [|discriminate]. injection H as <- <- <-.
      destruct (IHe _ _ _ _ _ E1) as (ca & -> & Da). destruct (IHe _ _ _ _ _ E2) as (cn & -> & Dn).
      destruct (expect_spec _ _ _ _ E3) as [-> Hrb].
      exists (t :: ca ++ cn ++ [rb]). split; [cbn [app]; now rewrite <- !app_assoc|].
      apply DA_monetary; [exact (kind_is _ _ Ek)|exact Da|exact Dn|exact Hrb].
    + destruct (ratio_of_token t) as [e0|] eqn:Er; [|discriminate]. injection H as <- <- <-.
      exists [t]. split; [reflexivity|]. apply DA_portion; [left; exact (kind_is _ _ Ek)|exact Er].
    + destruct (ratio_of_token t) as [e0|] eqn:Er; [|discriminate]. injection H as <- <- <-.
      exists [t]. split; [reflexivity|]. apply DA_portion; [right; exact (kind_is _ _ Ek)|exact Er].
    + injection H as <- <- <-. exists [t]. split; [reflexivity|]. apply DA_string, (kind_is _ _ Ek).
    + destruct (number_of_token t) as [[e0 ok]|] eqn:En; [|discriminate]. injection H as <- <- <-.
      exists [t]. split; [reflexivity|]. eapply DA_number; [exact (kind_is _ _ Ek)|exact En].
    + injection H as <- <- <-. exists [t]. split; [reflexivity|]. apply DA_var, (kind_is _ _ Ek).
    + injection H as <- <- <-. exists [t]. split; [reflexivity|]. apply DA_account, (kind_is _ _ Ek).
    + injection H as <- <- <-. exists [t]. split; [reflexivity|]. apply DA_asset, (kind_is _ _ Ek).
  - (* expression *)
    intros ts bad e rest bad' H. cbn [parse_expr] in H.
    destruct (parse_atom fuel ts bad) as [[[l ts1] bad1]|] eqn:E1; [|discriminate].
    destruct (IHa _ _ _ _ _ E1) as (c1 & -> & Dl).
    destruct (IHt _ c1 _ _ _ _ _ H (DE_atom _ _ Dl)) as (c & -> & De).
    exists (c1 ++ c). split; [now rewrite app_assoc|exact De].
  - (* tail of an infix chain *)
    intros left tl ts bad e rest bad' H Dl. cbn [parse_infix_tail] in H.
    destruct ts as [|t ts']; [injection H as <- <- <-; exists []; split; [reflexivity|now rewrite app_nil_r]|].
    destruct (tk_kind t) eqn:Ek;
      try (injection H as <- <- <-; exists []; split; [reflexivity|now rewrite app_nil_r]).
    + destruct (parse_atom fuel ts' bad) as [[[r ts2] bad2]|] eqn:E2; [|discriminate].
      destruct (IHa _ _ _ _ _ E2) as (cr & -> & Dr).
      assert (Dn : DExpr (tl ++ t :: cr) (EInfix (span (expr_rng left) (expr_rng r)) OpPlus left r))
        by (apply DE_plus; [exact Dl|exact (kind_is _ _ Ek)|exact Dr]).
      destruct (IHt _ _ _ _ _ _ _ H Dn) as (c & -> & De).
      exists (t :: cr ++ c). split; [cbn [app]; now rewrite <- app_assoc|]. rewrite <- app_assoc in De. exact De.
    + destruct (parse_atom fuel ts' bad) as [[[r ts2] bad2]|] eqn:E2; [|discriminate].
      destruct (IHa _ _ _ _ _ E2) as (cr & -> & Dr).
      assert (Dn : DExpr (tl ++ t :: cr) (EInfix (span (expr_rng left) (expr_rng r)) OpMinus left r))
        by (apply DE_minus; [exact Dl|exact (kind_is _ _ Ek)|exact Dr]).
      destruct (IHt _ _ _ _ _ _ _ H Dn) as (c & -> & De).
      exists (t :: cr ++ c). split; [cbn [app]; now rewrite <- app_assoc|]. rewrite <- app_assoc in De. exact De.
Qed.

Lemma parse_expr_sound fuel ts bad e rest bad' : parse_expr fuel ts bad = Some (e, rest, bad') -> consumed_by DExpr ts rest e.
Proof. exact (proj1 (proj2 (expr_sound fuel)) ts bad e rest bad'). Qed.

(* ---- allotments ---- *)
Lemma parse_allot_sound a al : parse_allot a = Some al -> DAllotment a al.
Proof.
  unfold parse_allot. destruct (tk_kind a) eqn:Ek; try discriminate.
  - intros H. injection H as <-. apply DAl_remaining, (kind_is _ _ Ek).
  - destruct (portion_literal (text_of a)) as [[n d]|] eqn:Ep; [|discriminate]. intros H. injection H as <-.
    apply DAl_portion; [left; exact (kind_is _ _ Ek)|exact Ep].
  - destruct (portion_literal (text_of a)) as [[n d]|] eqn:Ep; [|discriminate]. intros H. injection H as <-.
    apply DAl_portion; [right; exact (kind_is _ _ Ek)|exact Ep].
  - intros H. injection H as <-. apply DAl_var, (kind_is _ _ Ek).
Qed.

(* ---- sources ---- *)
Lemma account_source_sound fuel ts bad s rest bad' :
  parse_account_source fuel ts bad = Some (s, rest, bad') -> consumed_by DSource ts rest s.
Proof.
  unfold parse_account_source. intros H.
  destruct (parse_expr fuel ts bad) as [[[addr ts1] bad1]|] eqn:E1; [|discriminate].
  destruct (parse_expr_sound _ _ _ _ _ _ E1) as (ca & Hts & Da).
  destruct ts1 as [|al ts2]; [injection H as <- <- <-; exists ca; split; [exact Hts|apply DS_account, Da]|].
  destruct (tk_is TAllowing al) eqn:Eal; [|injection H as <- <- <-; exists ca; split; [exact Hts|apply DS_account, Da]].
  destruct ts2 as [|u [|o ts3]]; try discriminate.
  destruct (tk_is TUnbounded u && tk_is TOverdraft o) eqn:Euo.
  - apply andb_prop in Euo. destruct Euo as [Eu Eo]. injection H as <- <- <-.
    exists (ca ++ [al; u; o]). split; [rewrite Hts, <- app_assoc; reflexivity|apply DS_unbounded; assumption].
  - destruct (tk_is TOverdraft u) eqn:Eou; [|discriminate].
    destruct (expect TUp (o :: ts3)) as [[up ts4]|] eqn:Eup; [|discriminate].
    destruct (expect TTo ts4) as [[to ts5]|] eqn:Eto; [|discriminate].
    destruct (parse_expr fuel ts5 bad1) as [[[b ts6] bad6]|] eqn:Eb; [|discriminate].
    injection H as <- <- <-.
    destruct (expect_spec _ _ _ _ Eup) as [Hup Kup]. injection Hup as <- <-.
    destruct (expect_spec _ _ _ _ Eto) as [-> Kto].
    destruct (parse_expr_sound _ _ _ _ _ _ Eb) as (cb & -> & Db).
    exists (ca ++ al :: u :: o :: to :: cb). split; [rewrite Hts, <- app_assoc; reflexivity|apply DS_bounded; assumption].
Qed.

Lemma source_sound : forall fuel,
  (forall ts bad s rest bad', parse_source fuel ts bad = Some (s, rest, bad') -> consumed_by DSource ts rest s)
  /\ (forall ts bad l rest bad', parse_sources fuel ts bad = Some (l, rest, bad') -> consumed_by DSources ts rest l)
  /\ (forall ts bad l rest bad', parse_src_clauses fuel ts bad = Some (l, rest, bad') -> consumed_by DSrcClauses ts rest l /\ l <> []).
Proof.
  induction fuel as [|fuel (IHs & IHl & IHc)]; [repeat split; intros; discriminate|].
  assert (Hinorder : forall t ts' bad s rest bad',
            tk_kind t = TLBrace ->
            match parse_sources fuel ts' bad with
            | Some (l, ts2, bad2) =>
                match expect TRBrace ts2 with
                | Some (rb, ts3) => Some (SInorder (span (tok_range t) (tok_range rb)) l, ts3, bad2)
                | None => None
                end
            | None => None
            end = Some (s, rest, bad') -> consumed_by DSource (t :: ts') rest s).
  { intros t ts' bad s rest bad' Ek H.
    destruct (parse_sources fuel ts' bad) as [[[l ts2] bad2]|] eqn:E1; [|discriminate].
    destruct (expect TRBrace ts2) as [[rb ts3]|] eqn:E2; [|discriminate]. injection H as <- <- <-.
    destruct (IHl _ _ _ _ _ E1) as (cl & -> & Dl). destruct (expect_spec _ _ _ _ E2) as [-> Hrb].
    exists (t :: cl ++ [rb]). split; [cbn [app]; now rewrite <- app_assoc|].
    apply DS_inorder; [exact (kind_is _ _ Ek)|exact Dl|exact Hrb]. }
  split; [|split].
  - (* one source *)
    intros ts bad s rest bad' H. cbn [parse_source] in H. destruct ts as [|t ts']; [discriminate|].
    destruct (tk_kind t) eqn:Ek.
    all: try (exact (account_source_sound _ _ _ _ _ _ H)).
    + (* max cap from source *)
      destruct (parse_expr fuel ts' bad) as [[[cap ts1] bad1]|] eqn:E1; [|discriminate].
      destruct (expect TFrom ts1) as [[fr ts2]|] eqn:E2; [|discriminate].
      destruct (parse_source fuel ts2 bad1) as [[[from ts3] bad3]|] eqn:E3; [|discriminate]. injection H as <- <- <-.
      destruct (parse_expr_sound _ _ _ _ _ _ E1) as (cc & -> & Dc). destruct (expect_spec _ _ _ _ E2) as [-> Kfr].
      destruct (IHs _ _ _ _ _ E3) as (cf & -> & Df).
      exists (t :: cc ++ fr :: cf). split; [cbn [app]; rewrite <- app_assoc; reflexivity|].
      apply DS_capped; [exact (kind_is _ _ Ek)|exact Dc|exact Kfr|exact Df].
    + (* braces *)
      destruct ts' as [|a [|f ts'']]; try (eapply Hinorder; eassumption).
      destruct (is_allot_start a && tk_is TFrom f) eqn:Eaf; [|eapply Hinorder; eassumption].
      destruct (parse_src_clauses fuel (a :: f :: ts'') bad) as [[[items ts2] bad2]|] eqn:E1; [|discriminate].
      destruct (expect TRBrace ts2) as [[rb ts3]|] eqn:E2; [|discriminate]. injection H as <- <- <-.
      destruct (IHc _ _ _ _ _ E1) as [(cc & Hc & Dc) Hne]. destruct (expect_spec _ _ _ _ E2) as [-> Hrb].
      exists (t :: cc ++ [rb]). split; [cbn [app]; rewrite Hc, <- app_assoc; reflexivity|].
      apply DS_allot; [exact (kind_is _ _ Ek)|exact Dc|exact Hne|exact Hrb].
  - (* sources up to the closing brace *)
    intros ts bad l rest bad' H. cbn [parse_sources] in H. destruct ts as [|t ts']; [discriminate|].
    destruct (tk_is TRBrace t); [injection H as <- <- <-; exists []; split; [reflexivity|constructor]|].
    destruct (parse_source fuel (t :: ts') bad) as [[[s ts1] bad1]|] eqn:E1; [|discriminate].
    destruct (parse_sources fuel ts1 bad1) as [[[l' ts2] bad2]|] eqn:E2; [|discriminate]. injection H as <- <- <-.
    destruct (IHs _ _ _ _ _ E1) as (c1 & Hc1 & D1). destruct (IHl _ _ _ _ _ E2) as (c2 & -> & D2).
    exists (c1 ++ c2). split; [rewrite Hc1, app_assoc; reflexivity|constructor; assumption].
  - (* allotment clauses *)
    intros ts bad l rest bad' H. cbn [parse_src_clauses] in H. destruct ts as [|a [|f ts1]]; try discriminate.
    destruct (is_allot_start a && tk_is TFrom f) eqn:Eaf; [|discriminate]. apply andb_prop in Eaf. destruct Eaf as [_ Ef].
    destruct (parse_allot a) as [al|] eqn:Ea; [|discriminate].
    destruct (parse_source fuel ts1 bad) as [[[s ts2] bad2]|] eqn:E1; [|discriminate].
    destruct (IHs _ _ _ _ _ E1) as (cs & -> & Ds). pose proof (parse_allot_sound _ _ Ea) as Dal.
    destruct ts2 as [|t ts2']; [discriminate|].
    destruct (tk_is TRBrace t).
    + injection H as <- <- <-. split; [|discriminate]. exists (a :: f :: cs ++ []). split; [cbn [app]; now rewrite app_nil_r|].
      apply DSc_cons; [exact Dal|exact Ef|exact Ds|constructor].
    + destruct (parse_src_clauses fuel (t :: ts2') bad2) as [[[l' ts3] bad3]|] eqn:E2; [|discriminate]. injection H as <- <- <-.
      destruct (IHc _ _ _ _ _ E2) as [(c2 & Hc2 & D2) _]. split; [|discriminate].
      exists (a :: f :: cs ++ c2). split; [cbn [app]; rewrite Hc2, <- app_assoc; reflexivity|].
      apply DSc_cons; assumption.
Qed.

Lemma parse_source_sound fuel ts bad s rest bad' : parse_source fuel ts bad = Some (s, rest, bad') -> consumed_by DSource ts rest s.
Proof. exact (proj1 (source_sound fuel) ts bad s rest bad'). Qed.

(* ---- destinations ---- *)
Lemma dest_sound : forall fuel,
  (forall ts bad d rest bad', parse_dest fuel ts bad = Some (d, rest, bad') -> consumed_by DDest ts rest d)
  /\ (forall ts bad k rest bad', parse_kod fuel ts bad = Some (k, rest, bad') -> consumed_by DKod ts rest k)
  /\ (forall ts bad l rest bad', parse_inorder_clauses fuel ts bad = Some (l, rest, bad') -> consumed_by DInClauses ts rest l)
  /\ (forall ts bad l rest bad', parse_dst_clauses fuel ts bad = Some (l, rest, bad') -> consumed_by DDstClauses ts rest l /\ l <> []).
Proof.
  induction fuel as [|fuel (IHd & IHk & IHi & IHc)]; [split; [|split; [|split]]; intros; discriminate|].
  split; [|split; [|split]].
  - (* destination *)
    intros ts bad d rest bad' H. cbn [parse_dest] in H. destruct ts as [|t ts']; [discriminate|].
    destruct (tk_kind t) eqn:Ek.
    all: try (destruct (parse_expr fuel (t :: ts') bad) as [[[e ts1] bad1]|] eqn:E1; [|discriminate]; injection H as <- <- <-;
              destruct (parse_expr_sound _ _ _ _ _ _ E1) as (ce & Hts & De); exists ce; split; [exact Hts|apply DD_account, De]).
    destruct ts' as [|a [|k ts'']]; try discriminate.
    destruct (is_allot_start a && (tk_is TTo k || tk_is TKept k)) eqn:Eak.
    + destruct (parse_dst_clauses fuel (a :: k :: ts'') bad) as [[[items ts2] bad2]|] eqn:E1; [|discriminate].
      destruct (expect TRBrace ts2) as [[rb ts3]|] eqn:E2; [|discriminate]. injection H as <- <- <-.
      destruct (IHc _ _ _ _ _ E1) as [(cc & Hc & Dc) Hne]. destruct (expect_spec _ _ _ _ E2) as [-> Hrb].
      exists (t :: cc ++ [rb]). split; [cbn [app]; rewrite Hc, <- app_assoc; reflexivity|].
      apply DD_allot; [exact (kind_is _ _ Ek)|exact Dc|exact Hne|exact Hrb].
    + destruct (parse_inorder_clauses fuel (a :: k :: ts'') bad) as [[[cl ts2] bad2]|] eqn:E1; [|discriminate].
      destruct (expect TRemaining ts2) as [[rm ts3]|] eqn:E2; [|discriminate].
      destruct (parse_kod fuel ts3 bad2) as [[[rem ts4] bad4]|] eqn:E3; [|discriminate].
      destruct (expect TRBrace ts4) as [[rb ts5]|] eqn:E4; [|discriminate]. injection H as <- <- <-.
      destruct (IHi _ _ _ _ _ E1) as (ccl & Hc & Dcl). destruct (expect_spec _ _ _ _ E2) as [-> Hrm].
      destruct (IHk _ _ _ _ _ E3) as (ck & -> & Dk). destruct (expect_spec _ _ _ _ E4) as [-> Hrb].
      exists (t :: ccl ++ rm :: ck ++ [rb]). split; [cbn [app]; rewrite Hc, <- !app_assoc; cbn [app]; rewrite <- app_assoc; reflexivity|].
      apply DD_inorder; [exact (kind_is _ _ Ek)|exact Dcl| |exact Hrm|exact Dk|exact Hrb].
      (* without a `max` clause the text would have started `remaining to|kept` and been read as an allotment *)
      intros ->. inversion Dcl; subst. cbn [app] in Hc. injection Hc as -> Hk.
      assert (Hst : is_allot_start rm = true) by (unfold is_allot_start; unfold is_kind, tk_is in Hrm; destruct (tk_kind rm); try discriminate; reflexivity).
      rewrite Hst in Eak. cbn [andb] in Eak.
      destruct Dk as [tk0 ik|tk0 tsd dd ik Dd]; cbn [app] in Hk; injection Hk as -> _; unfold is_kind in ik; rewrite ik in Eak; [rewrite Bool.orb_true_r in Eak|]; discriminate.
  - (* kept or destination *)
    intros ts bad k rest bad' H. cbn [parse_kod] in H. destruct ts as [|t ts']; [discriminate|].
    destruct (tk_kind t) eqn:Ek; try discriminate.
    + destruct (parse_dest fuel ts' bad) as [[[d ts1] bad1]|] eqn:E1; [|discriminate]. injection H as <- <- <-.
      destruct (IHd _ _ _ _ _ E1) as (cd & -> & Dd). exists (t :: cd). split; [reflexivity|].
      apply DK_to; [exact (kind_is _ _ Ek)|exact Dd].
    + injection H as <- <- <-. exists [t]. split; [reflexivity|apply DK_kept, (kind_is _ _ Ek)].
  - (* ordered clauses *)
    intros ts bad l rest bad' H. cbn [parse_inorder_clauses] in H.
    destruct ts as [|t ts']; [injection H as <- <- <-; exists []; split; [reflexivity|constructor]|].
    destruct (tk_is TMax t) eqn:Em; [|injection H as <- <- <-; exists []; split; [reflexivity|constructor]].
    destruct (parse_expr fuel ts' bad) as [[[cap ts1] bad1]|] eqn:E1; [|discriminate].
    destruct (parse_kod fuel ts1 bad1) as [[[k ts2] bad2]|] eqn:E2; [|discriminate].
    destruct (parse_inorder_clauses fuel ts2 bad2) as [[[l' ts3] bad3]|] eqn:E3; [|discriminate]. injection H as <- <- <-.
    destruct (parse_expr_sound _ _ _ _ _ _ E1) as (cc & -> & Dc). destruct (IHk _ _ _ _ _ E2) as (ck & -> & Dk).
    destruct (IHi _ _ _ _ _ E3) as (cl & -> & Dl).
    exists (t :: cc ++ ck ++ cl). split; [cbn [app]; rewrite <- !app_assoc; reflexivity|].
    apply DIc_cons; [exact Em|exact Dc|exact Dk|exact Dl].
  - (* allotment clauses *)
    intros ts bad l rest bad' H. cbn [parse_dst_clauses] in H. destruct ts as [|a ts1]; [discriminate|].
    destruct (is_allot_start a); [|discriminate].
    destruct (parse_allot a) as [al|] eqn:Ea; [|discriminate].
    destruct (parse_kod fuel ts1 bad) as [[[k ts2] bad2]|] eqn:E1; [|discriminate].
    destruct (IHk _ _ _ _ _ E1) as (ck & -> & Dk). pose proof (parse_allot_sound _ _ Ea) as Dal.
    destruct ts2 as [|t ts2']; [discriminate|].
    destruct (tk_is TRBrace t).
    + injection H as <- <- <-. split; [|discriminate]. exists (a :: ck ++ []). split; [cbn [app]; now rewrite app_nil_r|].
      apply DDc_cons; [exact Dal|exact Dk|constructor].
    + destruct (parse_dst_clauses fuel (t :: ts2') bad2) as [[[l' ts3] bad3]|] eqn:E2; [|discriminate]. injection H as <- <- <-.
      destruct (IHc _ _ _ _ _ E2) as [(c2 & Hc2 & D2) _]. split; [|discriminate].
      exists (a :: ck ++ c2). split; [cbn [app]; rewrite Hc2, <- app_assoc; reflexivity|].
      apply DDc_cons; assumption.
Qed.

Lemma parse_dest_sound fuel ts bad d rest bad' : parse_dest fuel ts bad = Some (d, rest, bad') -> consumed_by DDest ts rest d.
Proof. exact (proj1 (dest_sound fuel) ts bad d rest bad'). Qed.

(* ---- sent value, arguments, calls ---- *)
Lemma parse_sent_sound fuel ts bad sv rest bad' : parse_sent fuel ts bad = Some (sv, rest, bad') -> consumed_by DSent ts rest sv.
Proof.
  unfold parse_sent. intros H.
  assert (Hlit : match parse_expr fuel ts bad with
                 | Some (e, ts1, bad1) => Some (SVLit (expr_rng e) e, ts1, bad1)
                 | None => None
                 end = Some (sv, rest, bad') -> consumed_by DSent ts rest sv).
  { intros G. destruct (parse_expr fuel ts bad) as [[[e ts1] bad1]|] eqn:E1; [|discriminate]. injection G as <- <- <-.
    destruct (parse_expr_sound _ _ _ _ _ _ E1) as (ce & Hts & De). exists ce. split; [exact Hts|apply DSv_lit, De]. }
  destruct ts as [|lb ts']; [discriminate|].
  destruct (tk_is TLBracket lb) eqn:Elb; [|exact (Hlit H)].
  destruct (parse_expr fuel ts' bad) as [[[a ts1] bad1]|] eqn:E1; [|discriminate].
  destruct ts1 as [|st [|rb ts2]]; try exact (Hlit H).
  destruct (tk_is TStar st && tk_is TRBracket rb) eqn:Esr; [|exact (Hlit H)].
  apply andb_prop in Esr. destruct Esr as [Est Erb]. injection H as <- <- <-.
  destruct (parse_expr_sound _ _ _ _ _ _ E1) as (ca & -> & Da).
  exists (lb :: ca ++ [st; rb]). split; [cbn [app]; rewrite <- app_assoc; reflexivity|apply DSv_all; assumption].
Qed.

Lemma parse_args_sound : forall fuel ts bad l rest bad', parse_args fuel ts bad = Some (l, rest, bad') -> consumed_by DArgs ts rest l.
Proof.
  induction fuel as [|fuel IH]; intros ts bad l rest bad' H; [discriminate|]. cbn [parse_args] in H.
  destruct (parse_expr (S fuel) ts bad) as [[[e ts1] bad1]|] eqn:E1; [|discriminate].
  destruct (parse_expr_sound _ _ _ _ _ _ E1) as (ce & Hts & De).
  destruct ts1 as [|c ts2]; [injection H as <- <- <-; exists ce; split; [exact Hts|apply DAr_one, De]|].
  destruct (tk_is TComma c) eqn:Ec; [|injection H as <- <- <-; exists ce; split; [exact Hts|apply DAr_one, De]].
  destruct (parse_args fuel ts2 bad1) as [[[l' ts3] bad3]|] eqn:E2; [|discriminate]. injection H as <- <- <-.
  destruct (IH _ _ _ _ _ E2) as (c2 & -> & D2).
  exists (ce ++ c :: c2). split; [rewrite Hts, <- app_assoc; reflexivity|apply DAr_cons; assumption].
Qed.

Lemma parse_fncall_sound fuel ts bad f rest bad' : parse_fncall fuel ts bad = Some (f, rest, bad') -> consumed_by DFnCall ts rest f.
Proof.
  unfold parse_fncall. intros H. destruct ts as [|name [|lp ts1]]; try discriminate.
  destruct ((tk_is TIdentifier name || tk_is TOverdraft name) && tk_is TLParens lp) eqn:En; [|discriminate].
  apply andb_prop in En. destruct En as [En Elp]. apply Bool.orb_true_iff in En.
  destruct ts1 as [|rp ts2]; [discriminate|].
  destruct (tk_is TRParens rp) eqn:Erp.
  - injection H as <- <- <-. exists [name; lp; rp]. split; [reflexivity|apply DF_noargs; assumption].
  - destruct (parse_args fuel (rp :: ts2) bad) as [[[args ts3] bad3]|] eqn:E1; [|discriminate].
    destruct (expect TRParens ts3) as [[rp' ts4]|] eqn:E2; [|discriminate]. injection H as <- <- <-.
    destruct (parse_args_sound _ _ _ _ _ _ E1) as (ca & Hc & Da). destruct (expect_spec _ _ _ _ E2) as [-> Hrp].
    exists (name :: lp :: ca ++ [rp']). split; [cbn [app]; rewrite Hc, <- app_assoc; reflexivity|apply DF_args; assumption].
Qed.

(* ---- statements ---- *)
Lemma parse_statement_sound fuel ts bad s rest bad' : parse_statement fuel ts bad = Some (s, rest, bad') -> consumed_by DStmt ts rest s.
Proof.
  unfold parse_statement. intros H. destruct ts as [|t ts']; [discriminate|].
  destruct (tk_kind t) eqn:Ek.
  all: try (destruct (parse_fncall fuel (t :: ts') bad) as [[[f ts1] bad1]|] eqn:E1; [|discriminate]; injection H as <- <- <-;
            destruct (parse_fncall_sound _ _ _ _ _ _ E1) as (cf & Hts & Df); exists cf; split; [exact Hts|apply DSt_call, Df]).
  - (* send *)
    destruct (parse_sent fuel ts' bad) as [[[sv ts1] bad1]|] eqn:E1; [|discriminate].
    destruct (expect TLParens ts1) as [[lp ts2]|] eqn:E2; [|discriminate].
    destruct (expect TSource ts2) as [[so ts3]|] eqn:E3; [|discriminate].
    destruct (expect TEq ts3) as [[e1 ts4]|] eqn:E4; [|discriminate].
    destruct (parse_source fuel ts4 bad1) as [[[src ts5] bad5]|] eqn:E5; [|discriminate].
    destruct (expect TDestination ts5) as [[de ts6]|] eqn:E6; [|discriminate].
    destruct (expect TEq ts6) as [[e2 ts7]|] eqn:E7; [|discriminate].
    destruct (parse_dest fuel ts7 bad5) as [[[dst ts8] bad8]|] eqn:E8; [|discriminate].
    destruct (expect TRParens ts8) as [[rp ts9]|] eqn:E9; [|discriminate]. injection H as <- <- <-.
    destruct (parse_sent_sound _ _ _ _ _ _ E1) as (csv & -> & Dsv).
    destruct (expect_spec _ _ _ _ E2) as [-> K2]. destruct (expect_spec _ _ _ _ E3) as [-> K3]. destruct (expect_spec _ _ _ _ E4) as [-> K4].
    destruct (parse_source_sound _ _ _ _ _ _ E5) as (csrc & -> & Dsrc).
    destruct (expect_spec _ _ _ _ E6) as [-> K6]. destruct (expect_spec _ _ _ _ E7) as [-> K7].
    destruct (parse_dest_sound _ _ _ _ _ _ E8) as (cdst & -> & Ddst). destruct (expect_spec _ _ _ _ E9) as [-> K9].
    exists (t :: csv ++ lp :: so :: e1 :: csrc ++ de :: e2 :: cdst ++ [rp]). split.
    + cbn [app]. rewrite <- !app_assoc. cbn [app]. rewrite <- !app_assoc. cbn [app]. rewrite <- !app_assoc. reflexivity.
    + apply DSt_send; try assumption. exact (kind_is _ _ Ek).
  - (* save *)
    destruct (parse_sent fuel ts' bad) as [[[sv ts1] bad1]|] eqn:E1; [|discriminate].
    destruct (expect TFrom ts1) as [[fr ts2]|] eqn:E2; [|discriminate].
    destruct (parse_expr fuel ts2 bad1) as [[[a ts3] bad3]|] eqn:E3; [|discriminate]. injection H as <- <- <-.
    destruct (parse_sent_sound _ _ _ _ _ _ E1) as (csv & -> & Dsv). destruct (expect_spec _ _ _ _ E2) as [-> K2].
    destruct (parse_expr_sound _ _ _ _ _ _ E3) as (ca & -> & Da).
    exists (t :: csv ++ fr :: ca). split; [cbn [app]; rewrite <- app_assoc; reflexivity|].
    apply DSt_save; try assumption. exact (kind_is _ _ Ek).
Qed.

Lemma parse_statements_sound : forall fuel ts bad l bad', parse_statements fuel ts bad = Some (l, bad') -> DStmts ts l.
Proof.
  induction fuel as [|fuel IH]; intros ts bad l bad' H; [discriminate|]. cbn [parse_statements] in H.
  destruct ts as [|t ts']; [injection H as <- <-; constructor|].
  destruct (parse_statement (S fuel) (t :: ts') bad) as [[[s ts1] bad1]|] eqn:E1; [|discriminate].
  destruct (parse_statements fuel ts1 bad1) as [[l' bad2]|] eqn:E2; [|discriminate]. injection H as <- <-.
  destruct (parse_statement_sound _ _ _ _ _ _ E1) as (c1 & -> & D1). constructor; [exact D1|exact (IH _ _ _ _ E2)].
Qed.

(* ---- declarations ---- *)
Lemma parse_vardecls_sound : forall fuel ts bad l rest bad', parse_vardecls fuel ts bad = Some (l, rest, bad') -> consumed_by DVarDecls ts rest l.
Proof.
  induction fuel as [|fuel IH]; intros ts bad l rest bad' H; [discriminate|]. cbn [parse_vardecls] in H.
  destruct ts as [|ty [|name ts1]]; [discriminate| |].
  - destruct (tk_is TRBrace ty); [|discriminate]. injection H as <- <- <-. exists []. split; [reflexivity|constructor].
  - destruct (tk_is TRBrace ty); [injection H as <- <- <-; exists []; split; [reflexivity|constructor]|].
    destruct (tk_is TIdentifier ty && tk_is TVarName name) eqn:Etn; [|discriminate]. apply andb_prop in Etn. destruct Etn as [Ety Enm].
    destruct ts1 as [|eq ts2]; [discriminate|].
    destruct (tk_is TEq eq) eqn:Eeq.
    + destruct (parse_fncall (S fuel) ts2 bad) as [[[f ts3] bad3]|] eqn:E1; [|discriminate].
      destruct (parse_vardecls fuel ts3 bad3) as [[[l' ts4] bad4]|] eqn:E2; [|discriminate]. injection H as <- <- <-.
      destruct (parse_fncall_sound _ _ _ _ _ _ E1) as (cf & -> & Df). destruct (IH _ _ _ _ _ E2) as (c2 & -> & D2).
      exists (ty :: name :: eq :: cf ++ c2). split; [cbn [app]; rewrite <- app_assoc; reflexivity|apply DV_origin; assumption].
    + destruct (parse_vardecls fuel (eq :: ts2) bad) as [[[l' ts4] bad4]|] eqn:E2; [|discriminate]. injection H as <- <- <-.
      destruct (IH _ _ _ _ _ E2) as (c2 & Hc & D2).
      exists (ty :: name :: c2). split; [cbn [app]; now rewrite Hc|apply DV_plain; assumption].
Qed.

(* ---- programs ---- *)
Theorem parse_tokens_sound ts p n : parse_tokens ts = Some (p, n) -> DProgram ts p.
Proof.
  unfold parse_tokens. intros H.
  assert (Hplain : match parse_statements (2 * List.length ts + 6) ts O with Some (ss, bad) => Some (mkprogram [] ss, bad) | None => None end = Some (p, n) ->
                   DProgram ts p).
  { intros G. destruct (parse_statements _ ts O) as [[ss bad]|] eqn:E; [|discriminate]. injection G as <- <-.
    apply DP_novars, (parse_statements_sound _ _ _ _ _ E). }
  destruct ts as [|v [|lb ts1]]; try exact (Hplain H).
  destruct (tk_is TVars v) eqn:Ev; [|exact (Hplain H)].
  destruct (tk_is TLBrace lb) eqn:Elb; [|discriminate].
  destruct (parse_vardecls _ ts1 O) as [[[ds ts2] bad]|] eqn:E1; [|discriminate].
  destruct (expect TRBrace ts2) as [[rb ts3]|] eqn:E2; [|discriminate].
  destruct (parse_statements _ ts3 bad) as [[ss bad']|] eqn:E3; [|discriminate]. injection H as <- <-.
  destruct (parse_vardecls_sound _ _ _ _ _ _ E1) as (cd & -> & Dd). destruct (expect_spec _ _ _ _ E2) as [-> Hrb].
  apply DP_vars; try assumption. exact (parse_statements_sound _ _ _ _ _ E3).
Qed.

(* a text the reference parser accepts: its tokens derive the tree, and every token sits at its exact position *)
Theorem parse_text_sound text p :
  parse_text text = Parsed p -> DProgram (fst (lex_text text)) p /\ snd (lex_text text) = [].
Proof.
  unfold parse_text. destruct (lex_text text) as [ts errs]. destruct errs; [|discriminate].
  destruct (parse_tokens ts) as [[p0 n]|] eqn:E; [|discriminate]. destruct n; [|discriminate].
  intros H. injection H as <-. split; [exact (parse_tokens_sound _ _ _ E)|reflexivity].
Qed.

(* ================= ranges: first token to last token ================= *)
Definition tok0 : token := mktoken TPlus [] 0 0.

(* [r] starts where the first token of [ts] starts and ends where its last token ends *)
Definition bounds (ts : list token) (r : range) : Prop :=
  ts <> [] /\ rstart r = rstart (tok_range (hd tok0 ts)) /\ rend r = rend (tok_range (last ts tok0)).

Lemma bounds_single t : bounds [t] (tok_range t).
Proof. repeat split. discriminate. Qed.

Lemma last_app_ne {A} (a b : list A) d : b <> [] -> last (a ++ b) d = last b d.
Proof.
  intros Hb. induction a as [|x a IH]; [reflexivity|]. cbn [app].
  destruct (a ++ b) as [|y l] eqn:E.
  - apply app_eq_nil in E. destruct E as [_ E]. contradiction.
  - cbn [last] in *. exact IH.
Qed.

Lemma hd_app_ne {A} (a b : list A) d : a <> [] -> hd d (a ++ b) = hd d a.
Proof. destruct a; [contradiction|reflexivity]. Qed.

Lemma bounds_span ta tb ra rb mid : bounds ta ra -> bounds tb rb -> bounds (ta ++ mid ++ tb) (span ra rb).
Proof.
  intros (Na & Sa & _) (Nb & _ & Eb). repeat split.
  - destruct ta; [contradiction|discriminate].
  - cbn [span rstart]. rewrite Sa. now rewrite hd_app_ne.
  - cbn [span rend]. rewrite Eb. rewrite app_assoc. now rewrite last_app_ne.
Qed.

Lemma bounds_span2 ta tb ra rb : bounds ta ra -> bounds tb rb -> bounds (ta ++ tb) (span ra rb).
Proof. intros Ha Hb. exact (bounds_span ta tb ra rb [] Ha Hb). Qed.

Lemma number_token_range t e ok : number_of_token t = Some (e, ok) -> expr_rng e = tok_range t.
Proof. unfold number_of_token. destruct (number_literal (text_of t)) as [[n o]|]; [|discriminate]. intros H. injection H as <- _. reflexivity. Qed.
Lemma ratio_token_range t e : ratio_of_token t = Some e -> expr_rng e = tok_range t.
Proof. unfold ratio_of_token. destruct (portion_literal (text_of t)) as [[n d]|]; [|discriminate]. intros H. injection H as <-. reflexivity. Qed.

Scheme DAtom_mut := Induction for DAtom Sort Prop
  with DExpr_mut := Induction for DExpr Sort Prop.

Lemma expr_bounds : (forall ts e, DAtom ts e -> bounds ts (expr_rng e)) /\ (forall ts e, DExpr ts e -> bounds ts (expr_rng e)).
Proof.
  split.
  - intros ts e D. induction D using DAtom_mut with (P0 := fun ts e _ => bounds ts (expr_rng e)); cbn [expr_rng]; try apply bounds_single.
    + rewrite (number_token_range _ _ _ e0). apply bounds_single.
    + rewrite (ratio_token_range _ _ e0). apply bounds_single.
    + change (lb :: ta ++ tn ++ [rb]) with ([lb] ++ (ta ++ tn) ++ [rb]) || idtac.
      replace (lb :: ta ++ tn ++ [rb]) with ([lb] ++ (ta ++ tn) ++ [rb]) by (cbn [app]; now rewrite <- app_assoc).
      apply bounds_span; apply bounds_single.
    + exact IHD.
    + change (tl ++ op :: tr) with (tl ++ [op] ++ tr). apply bounds_span; assumption.
    + change (tl ++ op :: tr) with (tl ++ [op] ++ tr). apply bounds_span; assumption.
  - intros ts e D. induction D using DExpr_mut with (P := fun ts e _ => bounds ts (expr_rng e)); cbn [expr_rng]; try apply bounds_single.
    + rewrite (number_token_range _ _ _ e0). apply bounds_single.
    + rewrite (ratio_token_range _ _ e0). apply bounds_single.
    + replace (lb :: ta ++ tn ++ [rb]) with ([lb] ++ (ta ++ tn) ++ [rb]) by (cbn [app]; now rewrite <- app_assoc).
      apply bounds_span; apply bounds_single.
    + exact IHD.
    + change (tl ++ op :: tr) with (tl ++ [op] ++ tr). apply bounds_span; assumption.
    + change (tl ++ op :: tr) with (tl ++ [op] ++ tr). apply bounds_span; assumption.
Qed.

Lemma source_bounds ts s : DSource ts s -> bounds ts (source_rng s).
Proof.
  intros D. induction D; cbn [source_rng].
  - exact (proj2 expr_bounds _ _ H).
  - change (ts ++ [al; u; o]) with (ts ++ [al; u] ++ [o]). apply bounds_span; [exact (proj2 expr_bounds _ _ H)|apply bounds_single].
  - change (ts ++ al :: o :: up :: to :: tb) with (ts ++ [al; o; up; to] ++ tb).
    apply bounds_span; [exact (proj2 expr_bounds _ _ H)|exact (proj2 expr_bounds _ _ H4)].
  - replace (mx :: tc ++ fr :: tf) with ([mx] ++ (tc ++ [fr]) ++ tf) by (cbn [app]; rewrite <- app_assoc; reflexivity).
    apply bounds_span; [apply bounds_single|exact IHD].
  - change (lb :: tss ++ [rb]) with ([lb] ++ tss ++ [rb]). apply bounds_span; apply bounds_single.
  - change (lb :: tcs ++ [rb]) with ([lb] ++ tcs ++ [rb]). apply bounds_span; apply bounds_single.
Qed.

Lemma dest_bounds ts d : DDest ts d -> bounds ts (dest_rng d).
Proof.
  intros D. destruct D; cbn [dest_rng].
  - exact (proj2 expr_bounds _ _ H).
  - replace (lb :: tcl ++ rm :: tk ++ [rb]) with ([lb] ++ (tcl ++ rm :: tk) ++ [rb]) by (cbn [app]; rewrite <- app_assoc; reflexivity).
    apply bounds_span; apply bounds_single.
  - change (lb :: tcs ++ [rb]) with ([lb] ++ tcs ++ [rb]). apply bounds_span; apply bounds_single.
Qed.

Lemma fncall_bounds ts f : DFnCall ts f -> bounds ts (fc_range f).
Proof.
  intros D. destruct D; cbn [fc_range].
  - change [name; lp; rp] with ([name] ++ [lp] ++ [rp]). apply bounds_span; apply bounds_single.
  - change (name :: lp :: ta ++ [rp]) with ([name] ++ (lp :: ta) ++ [rp]). apply bounds_span; apply bounds_single.
Qed.

Definition stmt_rng (s : stmt) : range :=
  match s with StSend r _ _ _ | StSave r _ _ => r | StFnCall f => fc_range f | _ => norange end.

Lemma stmt_bounds ts s : DStmt ts s -> bounds ts (stmt_rng s).
Proof.
  intros D. destruct D; cbn [stmt_rng].
  - match goal with |- bounds (?sd :: ?mid ++ [?rp]) _ => idtac | _ => idtac end.
    replace (sd :: tsv ++ lp :: so :: e1 :: tsrc ++ de :: e2 :: tdst ++ [rp])
      with ([sd] ++ (tsv ++ lp :: so :: e1 :: tsrc ++ de :: e2 :: tdst) ++ [rp]).
    + apply bounds_span; apply bounds_single.
    + cbn [app]. rewrite <- !app_assoc. cbn [app]. rewrite <- !app_assoc. cbn [app]. reflexivity.
  - replace (sa :: tsv ++ fr :: ta) with ([sa] ++ (tsv ++ [fr]) ++ ta) by (cbn [app]; rewrite <- app_assoc; reflexivity).
    apply bounds_span; [apply bounds_single|exact (proj2 expr_bounds _ _ H2)].
  - exact (fncall_bounds _ _ H).
Qed.
