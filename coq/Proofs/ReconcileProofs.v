(* C07: the reconciler realises the first-come-first-served pairing (unit-expansion spec). *)
From Coq Require Import Lia.
From NS Require Import Reconcile Pairing.

Lemma count_app s d l1 l2 : count s d (l1 ++ l2) = count s d l1 + count s d l2.
Proof. induction l1 as [|p l1 IH]; cbn [count app]; lia. Qed.

Lemma flow_app ps qs s d : flow (ps ++ qs) s d = flow ps s d + flow qs s d.
Proof. induction ps as [|p ps IH]; cbn [flow app]; lia. Qed.

Lemma flow_rev ps s d : flow (rev ps) s d = flow ps s d.
Proof. induction ps as [|p ps IH]; cbn [rev flow]; [reflexivity|]. rewrite flow_app, IH. cbn [flow]. lia. Qed.

Lemma flow_emit asset acc s r a s' d' :
  flow (emit asset acc s r a) s' d' =
  flow acc s' d' + (if (String.eqb s s' && String.eqb r d')%bool then a else 0).
Proof.
  unfold emit. destruct acc as [|p acc]; cbn [flow].
  - cbn. lia.
  - destruct (String.eqb (psrc p) s) eqn:E1; destruct (String.eqb (pdst p) r) eqn:E2; cbn [andb flow psrc pdst pamt]; try lia.
    apply String.eqb_eq in E1, E2. subst.
    destruct (String.eqb (psrc p) s' && String.eqb (pdst p) d')%bool; lia.
Qed.

Lemma count_repeat s d s' d' n :
  count s' d' (repeat (s, d) n) = if (String.eqb s s' && String.eqb d d')%bool then Z.of_nat n else 0.
Proof.
  induction n as [|n IH]; cbn [repeat count].
  - destruct (_ && _)%bool; reflexivity.
  - rewrite IH. unfold hit. cbn [fst snd]. destruct (String.eqb s s' && String.eqb d d')%bool; lia.
Qed.

Lemma combine_repeat {A B} (a : A) (b : B) n X Y :
  combine (repeat a n ++ X) (repeat b n ++ Y) = repeat (a, b) n ++ combine X Y.
Proof. induction n as [|n IH]; cbn; [reflexivity|]. now rewrite IH. Qed.

Lemma repeat_add {A} (a : A) n m : repeat a (n + m) = repeat a n ++ repeat a m.
Proof. induction n; cbn; [reflexivity|]. now f_equal. Qed.

Lemma expand_cons e l : expand (e :: l) = repeat (fst e) (Z.to_nat (snd e)) ++ expand l.
Proof. reflexivity. Qed.

(* units paired with KEPT never count for a real destination *)
Lemma count_kept_prefix s d (X : list string) k Y :
  d <> KEPT_ADDR ->
  count s d (combine X (repeat KEPT_ADDR k ++ Y)) = count s d (combine (skipn k X) Y).
Proof.
  intros Hd. revert X. induction k as [|k IH]; intros X; cbn [repeat app skipn]; [reflexivity|].
  destruct X as [|x X]; [cbn; destruct Y; reflexivity|].
  cbn [combine count]. rewrite IH. unfold hit. cbn [fst snd].
  destruct (String.eqb KEPT_ADDR d) eqn:E; [apply String.eqb_eq in E; congruence|].
  rewrite Bool.andb_false_r. lia.
Qed.

Lemma expand_drop_units k S :
  pos_entries S -> 0 <= k ->
  expand (drop_units k S) = skipn (Z.to_nat k) (expand S).
Proof.
  intros HS. revert k. induction HS as [|[s m] S Hm HS IH]; intros k Hk.
  - cbn. now rewrite skipn_nil.
  - cbn [snd] in Hm. cbn [drop_units].
    destruct (k <=? 0) eqn:E0.
    + assert (k = 0) by lia. subst. reflexivity.
    + destruct (k <? m) eqn:E1.
      * rewrite !expand_cons. cbn [fst snd].
        replace (Z.to_nat m) with (Z.to_nat k + Z.to_nat (m - k))%nat by lia.
        rewrite repeat_add, <- app_assoc.
        rewrite skipn_app, repeat_length, Nat.sub_diag. cbn [skipn].
        rewrite (skipn_all2 (n:=Z.to_nat k)) by (rewrite repeat_length; lia). reflexivity.
      * rewrite IH by lia. rewrite expand_cons. cbn [fst snd].
        rewrite skipn_app, repeat_length.
        rewrite (skipn_all2 (n:=Z.to_nat k)) by (rewrite repeat_length; lia). cbn [app].
        f_equal. lia.
Qed.

Lemma pos_drop_units k S : pos_entries S -> pos_entries (drop_units k S).
Proof.
  intros HS. revert k. induction HS as [|[s m] S Hm HS IH]; intros k; cbn [drop_units]; [constructor|].
  destruct (k <=? 0); [constructor; assumption|].
  destruct (k <? m) eqn:E; [constructor; [cbn [snd] in *; lia|assumption]|apply IH].
Qed.

Lemma length_drop_units k S : (List.length (drop_units k S) <= List.length S)%nat.
Proof.
  revert k. induction S as [|[s m] S IH]; intros k; cbn [drop_units]; [lia|].
  destruct (k <=? 0); [lia|]. destruct (k <? m); cbn [List.length]; [lia|]. specialize (IH (k - m)). lia.
Qed.

(* the loop never runs out of fuel, and computes the pairing *)
Lemma rec_loop_flow asset fuel : forall S R acc,
  pos_entries S -> pos_entries R ->
  (List.length S + List.length R < fuel)%nat ->
  exists out, rec_loop asset fuel S R acc = Some out /\
    forall s d, d <> KEPT_ADDR -> flow out s d = flow acc s d + flow_units S R s d.
Proof.
  induction fuel as [|fuel IH]; intros S R acc HS HR Hf; [lia|].
  cbn [rec_loop]. destruct R as [|[r rm] R'].
  - exists acc. split; [reflexivity|]. intros s d _. unfold flow_units. rewrite combine_nil. cbn. lia.
  - inversion HR as [|? ? Hrm HR']; subst. cbn [snd] in Hrm.
    destruct (String.eqb r KEPT_ADDR) eqn:Er.
    + apply String.eqb_eq in Er; subst r.
      destruct (IH (drop_units rm S) R' acc) as [out [Hout Hflow]]; try assumption.
      * now apply pos_drop_units.
      * pose proof (length_drop_units rm S). cbn [List.length] in Hf. lia.
      * exists out. split; [exact Hout|]. intros s d Hd. rewrite Hflow by assumption.
        unfold flow_units. rewrite (expand_cons (KEPT_ADDR, rm)). cbn [fst snd].
        rewrite count_kept_prefix by assumption.
        rewrite expand_drop_units by (assumption || lia). reflexivity.
    + destruct S as [|[s0 sm] S'].
      * exists acc. split; [reflexivity|]. intros s d _. unfold flow_units. cbn. lia.
      * inversion HS as [|? ? Hsm HS']; subst. cbn [snd] in Hsm.
        destruct (Z.compare_spec sm rm) as [C|C|C].
        -- subst rm.
           destruct (IH S' R' (emit asset acc s0 r sm)) as [out [Hout Hflow]]; try assumption; [cbn [List.length] in Hf; lia|].
           exists out. split; [exact Hout|]. intros s d Hd. rewrite Hflow by assumption.
           rewrite flow_emit. unfold flow_units. rewrite !expand_cons. cbn [fst snd].
           rewrite combine_repeat, count_app, count_repeat.
           destruct (_ && _)%bool; lia.
        -- destruct (IH S' ((r, rm - sm) :: R') (emit asset acc s0 r sm)) as [out [Hout Hflow]]; try assumption;
             [constructor; [cbn [snd]; lia|assumption] | cbn [List.length] in *; lia |].
           exists out. split; [exact Hout|]. intros s d Hd. rewrite Hflow by assumption.
           rewrite flow_emit. unfold flow_units. rewrite !expand_cons. cbn [fst snd].
           replace (Z.to_nat rm) with (Z.to_nat sm + Z.to_nat (rm - sm))%nat by lia.
           rewrite repeat_add, <- app_assoc, combine_repeat, count_app, count_repeat.
           destruct (_ && _)%bool; lia.
        -- destruct (IH ((s0, sm - rm) :: S') R' (emit asset acc s0 r rm)) as [out [Hout Hflow]]; try assumption;
             [constructor; [cbn [snd]; lia|assumption] | cbn [List.length] in *; lia |].
           exists out. split; [exact Hout|]. intros s d Hd. rewrite Hflow by assumption.
           rewrite flow_emit. unfold flow_units. rewrite !expand_cons. cbn [fst snd].
           replace (Z.to_nat sm) with (Z.to_nat rm + Z.to_nat (sm - rm))%nat by lia.
           rewrite repeat_add, <- app_assoc, combine_repeat, count_app, count_repeat.
           destruct (_ && _)%bool; lia.
Qed.

Theorem reconcile_flow asset S R :
  pos_entries S -> pos_entries R ->
  exists ps, reconcile asset S R = Some ps /\
    forall s d, d <> KEPT_ADDR -> flow ps s d = flow_units S R s d.
Proof.
  intros HS HR. unfold reconcile, reconcile_fuel.
  destruct (rec_loop_flow asset (List.length S + List.length R + 1) S R [] HS HR) as [out [Hout Hflow]]; [lia|].
  rewrite Hout. cbn [option_map]. eexists. split; [reflexivity|].
  intros s d Hd. rewrite flow_rev, Hflow by assumption. cbn [flow]. lia.
Qed.

(* ---- no posting names the kept marker, amounts are positive, names come from the inputs ---- *)
Definition posting_ok (S R : list entry) (p : posting) : Prop :=
  0 < pamt p /\ pdst p <> KEPT_ADDR /\ In (psrc p) (map fst S) /\ In (pdst p) (map fst R).

Lemma emit_ok asset S R acc s r a :
  Forall (posting_ok S R) acc -> 0 < a -> r <> KEPT_ADDR -> In s (map fst S) -> In r (map fst R) ->
  Forall (posting_ok S R) (emit asset acc s r a).
Proof.
  intros Hacc Ha Hr Hs Hr'. unfold emit. destruct acc as [|p acc].
  - constructor; [|constructor]. repeat split; cbn; assumption.
  - inversion Hacc as [|? ? Hp Hacc']; subst.
    destruct (String.eqb (psrc p) s && String.eqb (pdst p) r)%bool.
    + constructor; [|assumption]. destruct Hp as [Hp1 _]. repeat split; cbn; try assumption; lia.
    + constructor; [|assumption]. repeat split; cbn; assumption.
Qed.

Lemma drop_units_names k S : incl (map fst (drop_units k S)) (map fst S).
Proof.
  revert k. induction S as [|[s m] S IH]; intros k; cbn [drop_units]; [apply incl_refl|].
  destruct (k <=? 0); [apply incl_refl|]. destruct (k <? m); [cbn; apply incl_refl|].
  cbn [map fst]. apply incl_tl, IH.
Qed.

Lemma rec_loop_ok asset S0 R0 fuel : forall S R acc out,
  pos_entries S -> pos_entries R ->
  incl (map fst S) (map fst S0) -> incl (map fst R) (map fst R0) ->
  Forall (posting_ok S0 R0) acc ->
  rec_loop asset fuel S R acc = Some out -> Forall (posting_ok S0 R0) out.
Proof.
  induction fuel as [|fuel IH]; intros S R acc out HS HR HiS HiR Hacc H; [discriminate|].
  cbn [rec_loop] in H. destruct R as [|[r rm] R'].
  - injection H as <-. assumption.
  - inversion HR as [|? ? Hrm HR']; subst. cbn [snd] in Hrm.
    assert (HiR' : incl (map fst R') (map fst R0)) by (intros x Hx; apply HiR; cbn; auto).
    assert (Hr0 : In r (map fst R0)) by (apply HiR; cbn; auto).
    destruct (String.eqb r KEPT_ADDR) eqn:Er.
    + eapply IH; [| | | | |exact H]; try assumption.
      * now apply pos_drop_units.
      * eapply incl_tran; [apply drop_units_names|assumption].
    + assert (Hrk : r <> KEPT_ADDR) by (intros ->; rewrite String.eqb_refl in Er; discriminate).
      destruct S as [|[s0 sm] S'].
      * injection H as <-. assumption.
      * inversion HS as [|? ? Hsm HS']; subst. cbn [snd] in Hsm.
        assert (HiS' : incl (map fst S') (map fst S0)) by (intros x Hx; apply HiS; cbn; auto).
        assert (Hs0 : In s0 (map fst S0)) by (apply HiS; cbn; auto).
        destruct (Z.compare_spec sm rm) as [C|C|C].
        -- eapply IH; [| | | | |exact H]; try assumption. apply emit_ok; assumption.
        -- eapply IH; [| | | | |exact H]; try assumption.
           ++ constructor; [cbn [snd]; lia|assumption].
           ++ apply emit_ok; assumption.
        -- eapply IH; [| | | | |exact H]; try assumption.
           ++ constructor; [cbn [snd]; lia|assumption].
           ++ apply emit_ok; try assumption.
Qed.

Theorem reconcile_postings_ok asset S R ps :
  pos_entries S -> pos_entries R -> reconcile asset S R = Some ps -> Forall (posting_ok S R) ps.
Proof.
  intros HS HR H. unfold reconcile in H.
  destruct (rec_loop asset (reconcile_fuel S R) S R []) as [out|] eqn:E; [|discriminate].
  injection H as <-. apply Forall_rev.
  eapply rec_loop_ok; [exact HS|exact HR|apply incl_refl|apply incl_refl|constructor|exact E].
Qed.

Lemma emit_asset asset acc s r a :
  Forall (fun p => passet p = asset) acc -> Forall (fun p => passet p = asset) (emit asset acc s r a).
Proof.
  intros H. unfold emit. destruct acc as [|p acc]; [repeat constructor|].
  inversion H; subst. destruct (_ && _)%bool; constructor; cbn; auto.
Qed.

Lemma rec_loop_asset asset fuel : forall S R acc out,
  Forall (fun p => passet p = asset) acc -> rec_loop asset fuel S R acc = Some out ->
  Forall (fun p => passet p = asset) out.
Proof.
  induction fuel as [|fuel IH]; intros S R acc out Hacc H; [discriminate|].
  cbn [rec_loop] in H. destruct R as [|[r rm] R']; [injection H as <-; assumption|].
  destruct (String.eqb r KEPT_ADDR); [eapply IH; eassumption|].
  destruct S as [|[s0 sm] S']; [injection H as <-; assumption|].
  destruct (sm ?= rm); (eapply IH; [|exact H]); apply emit_asset; assumption.
Qed.

Theorem reconcile_asset asset S R ps :
  reconcile asset S R = Some ps -> Forall (fun p => passet p = asset) ps.
Proof.
  unfold reconcile. destruct (rec_loop asset _ S R []) as [out|] eqn:E; [|discriminate].
  intros [= <-]. apply Forall_rev. eapply rec_loop_asset; [constructor|exact E].
Qed.

(* everything C07 states about the reconciler, in one statement *)
Theorem reconcile_spec : forall asset S R,
  pos_entries S -> pos_entries R ->
  exists ps, reconcile asset S R = Some ps /\
    (forall s d, d <> KEPT_ADDR -> flow ps s d = flow_units S R s d) /\
    Forall (posting_ok S R) ps /\
    Forall (fun p => passet p = asset) ps.
Proof.
  intros asset S R HS HR.
  destruct (reconcile_flow asset S R HS HR) as [ps [H1 H2]].
  exists ps. repeat split; try assumption.
  - exact (reconcile_postings_ok asset S R ps HS HR H1).
  - exact (reconcile_asset asset S R ps H1).
Qed.
