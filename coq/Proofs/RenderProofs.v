From Coq Require Import Lia.
From NS Require Import Render.
Open Scope Z_scope.

Lemma zseq_in n : forall start x, In x (zseq start n) -> start <= x < start + Z.of_nat n.
Proof.
  induction n as [|n IH]; intros start x H; cbn [zseq] in H; [contradiction|].
  destruct H as [<-|H]; [lia|]. apply IH in H. lia.
Qed.

Lemma lens_nonneg_nth (lens : list Z) : Forall (fun x => 0 <= x) lens -> forall i, 0 <= nth i lens 0.
Proof.
  intros H. induction H as [|x l Hx _ IH]; intros [|i]; cbn [nth]; try lia. apply IH.
Qed.

Theorem render_safe (lens : list Z) (r : range) :
  Forall (fun x => 0 <= x) lens -> range_wf lens r -> show_on_source_ok lens r = true.
Proof.
  intros Hl (Hs & He & Hc & Hchars). unfold show_on_source_ok.
  repeat (apply andb_true_intro; split); try (apply Z.leb_le; lia).
  apply forallb_forall. intros src Hin. apply zseq_in in Hin.
  unfold show_line_ok. pose proof (lens_nonneg_nth lens Hl (Z.to_nat src)) as Hn.
  destruct (pline (rstart r) =? pline (rend r)) eqn:Eq.
  - apply Z.eqb_eq in Eq.
    assert (src = pline (rstart r)) as -> by lia.
    rewrite Z.eqb_refl. rewrite <- Eq, Z.eqb_refl.
    apply andb_true_intro; split; apply Z.leb_le; lia.
  - apply Z.eqb_neq in Eq. destruct Hchars as [Hc1 Hc2].
    destruct (pline (rstart r) =? src) eqn:E1; destruct (pline (rend r) =? src) eqn:E2;
      try apply Z.eqb_eq in E1; try apply Z.eqb_eq in E2;
      apply andb_true_intro; split; apply Z.leb_le; subst; try lia.
Qed.
