(* C08: `save` lowers the visible balance, produces no posting, and what it reserves cannot be moved
   by later statements that grant the account no overdraft. *)
From Coq Require Import Lia ZifyBool.
From NS Require Import Stmt EvalTrees Ledger GreedyProofs DestProofs LedgerProofs OverdraftProofs.

(* the effect of a save statement on the state *)
Theorem save_lowers vs r sv acct_e st asset amt account :
  eval_sent_amt vs sv = Ok (asset, amt) -> eval_as vs acct_e expect_account = Ok account ->
  (match amt with Some n => 0 <= n | None => True end) ->
  run_stmt vs (StSave r sv acct_e) st =
    Ok ([], mkstate (bset (account, asset) (save_visible (bget (st_cache st) account asset) amt) (st_cache st))
                    (st_txmeta st) (st_accmeta st)).
Proof.
  intros Hs Ha Hn. cbn [run_stmt]. unfold run_save. rewrite Hs. cbn [bind]. rewrite Ha. cbn [bind].
  unfold save_visible. destruct amt as [n|].
  - replace (n <? 0) with false by lia. repeat f_equal.
    destruct (0 <? bget (st_cache st) account asset) eqn:E1; destruct (bget (st_cache st) account asset <=? 0) eqn:E2; try lia.
    destruct (bget (st_cache st) account asset - n <? 0) eqn:E3; lia.
  - repeat f_equal. destruct (0 <? bget (st_cache st) account asset) eqn:E1; lia.
Qed.

Theorem save_negative_rejected vs r sv acct_e st asset n account :
  eval_sent_amt vs sv = Ok (asset, Some n) -> eval_as vs acct_e expect_account = Ok account -> n < 0 ->
  run_stmt vs (StSave r sv acct_e) st = Err (NegativeAmountErr n).
Proof.
  intros Hs Ha Hn. cbn [run_stmt]. unfold run_save. rewrite Hs. cbn [bind]. rewrite Ha. cbn [bind].
  replace (n <? 0) with true by lia. reflexivity.
Qed.

(* the visible balance after a save: lowered by n but not below zero, `*` hides everything, a
   balance that is not positive is left as it is *)
Lemma save_visible_spec v n :
  save_visible v (Some n) = (if v <=? 0 then v else Z.max 0 (v - n)) /\ save_visible v None = Z.min v 0.
Proof. split; reflexivity. Qed.

Lemma save_visible_le v n : (match n with Some k => 0 <= k | None => True end) -> save_visible v n <= v.
Proof. unfold save_visible. destruct n as [k|]; [destruct (v <=? 0) eqn:E|]; lia. Qed.

(* shifting one cell of a ledger commutes with replay *)
Definition shift (L : ledger) (x c : string) (r : Z) : ledger :=
  fun a y => if (String.eqb a x && String.eqb y c)%bool then L a y - r else L a y.

Lemma replay_shift L x c r ps a y : replay (shift L x c r) ps a y = shift (replay L ps) x c r a y.
Proof. rewrite replay_debits_credits. unfold shift. rewrite replay_debits_credits. destruct (_ && _)%bool; lia. Qed.

(* what is not visible cannot be moved: for an account whose later source occurrences are all
   plain (no overdraft grant), every later prefix keeps at least ledger - max(0, visible) *)
Theorem reserve_kept vs ss es st ps st' L x c :
  run_stmts vs ss st = Ok (ps, st') -> eval_stmts vs ss = Some es -> Forall wf_estmt es ->
  cache_le (st_cache st) L ->
  grants_ok (all_leaves es) x c 0 ->
  forall ps1 ps2, ps = ps1 ++ ps2 -> L x c - Z.max 0 (bget (st_cache st) x c) <= replay L ps1 x c.
Proof.
  intros Hrun Hev Hwf Hle Hg ps1 ps2 Hsplit.
  set (r := L x c - Z.max 0 (bget (st_cache st) x c)).
  assert (Hle' : cache_le (st_cache st) (shift L x c r)).
  { intros a y. unfold shift. destruct (String.eqb a x && String.eqb y c)%bool eqn:E; [|apply Hle].
    apply andb_prop in E. destruct E as [E1 E2]. apply String.eqb_eq in E1, E2. subst a y. unfold r. lia. }
  pose proof (run_stmts_overdraft vs ss es st ps st' (shift L x c r) (shift L x c r) x c 0 Hrun Hev Hwf Hle' Hg ltac:(lia) ps1 ps2 Hsplit) as H.
  rewrite replay_shift in H. unfold shift in H. rewrite !String.eqb_refl in H. cbn [andb] in H. unfold r in *. lia.
Qed.
