(* C17, script level. Part B (this half): if every expression position of a construct evaluates
   acceptably for the type its position requires, the interpreter's traversals of that construct
   never fail with an error of the static class. Part A (below): a check that reports no error
   guarantees exactly that premise. *)
From Coq Require Import Lia Ascii.
From NS Require Import Run Check SyntaxInd SoundnessProofs SourceProofs DestProofs.

(* outcome without static-class failure (panics are C12's business) *)
Definition nonstatic {A} (m : res A) : Prop :=
  match m with Ok _ => True | Err e => ~ static_err e | Panic _ => True end.

Definition good (vs : env) (p : expr * string) : Prop := outcome_ok (snd p) (eval_expr vs (fst p)).

Lemma nonstatic_bind {A B} (m : res A) (f : A -> res B) :
  nonstatic m -> (forall a, m = Ok a -> nonstatic (f a)) -> nonstatic (bind m f).
Proof. destruct m as [a|e|w]; cbn [bind nonstatic]; intros H G; [apply G; reflexivity|exact H|exact I]. Qed.

Lemma nonstatic_ok {A} (a : A) : nonstatic (Ok a : res A). Proof. exact I. Qed.

Ltac ns_err := cbn [nonstatic static_err]; intros [].

(* ---- typed positions of the tree ---- *)
Definition pos_allot (a : allot) : list (expr * string) :=
  match a with AVar r n => [(EVar r n, TypePortion)] | _ => [] end.

Fixpoint pos_source (s : source) : list (expr * string) :=
  match s with
  | SNil => []
  | SAccount e => [(e, TypeAccount)]
  | SInorder _ l => flat_map pos_source l
  | SAllot _ items => flat_map (fun it : range * allot * source => pos_allot (snd (fst it)) ++ pos_source (snd it)) items
  | SCapped _ from cap => (cap, TypeMonetary) :: pos_source from
  | SOverdraft _ addr b => (addr, TypeAccount) :: match b with Some e => [(e, TypeMonetary)] | None => [] end
  end.

Fixpoint pos_dest (d : dest) : list (expr * string) :=
  match d with
  | DNil => []
  | DAccount e => [(e, TypeAccount)]
  | DInorder _ cl rem => flat_map (fun c : range * expr * kod => (snd (fst c), TypeMonetary) :: pos_kod (snd c)) cl ++ pos_kod rem
  | DAllot _ items => flat_map (fun it : range * allot * kod => pos_allot (snd (fst it)) ++ pos_kod (snd it)) items
  end
with pos_kod (k : kod) : list (expr * string) :=
  match k with KTo d => pos_dest d | _ => [] end.

Definition pos_sent (sv : sent) : list (expr * string) :=
  match sv with SVLit _ e => [(e, TypeMonetary)] | SVAll _ e => [(e, TypeAsset)] | SVNil => [] end.

Definition all_good (vs : env) (ps : list (expr * string)) : Prop := forall p, In p ps -> good vs p.

Lemma all_good_app vs a b : all_good vs (a ++ b) <-> all_good vs a /\ all_good vs b.
Proof.
  unfold all_good. split.
  - intros H. split; intros p Hp; apply H, in_or_app; [left|right]; exact Hp.
  - intros [Ha Hb] p Hp. apply in_app_or in Hp. destruct Hp; [apply Ha|apply Hb]; assumption.
Qed.
Lemma all_good_cons vs p ps : all_good vs (p :: ps) <-> good vs p /\ all_good vs ps.
Proof. change (p :: ps) with ([p] ++ ps). rewrite all_good_app. unfold all_good. cbn [In]. intuition (subst; auto). Qed.
Lemma all_good_nil vs : all_good vs []. Proof. intros p []. Qed.

Section B.
Variable vs : env.

(* ---- leaves ---- *)
Lemma ns_eval_account e : good vs (e, TypeAccount) -> nonstatic (eval_as vs e expect_account).
Proof.
  unfold good, eval_as. cbn [fst snd]. destruct (eval_expr vs e) as [v| |]; cbn [bind outcome_ok nonstatic]; auto.
  intros [H|H]; [discriminate|]. destruct v; try discriminate. exact I.
Qed.
Lemma ns_eval_asset e : good vs (e, TypeAsset) -> nonstatic (eval_as vs e expect_asset).
Proof.
  unfold good, eval_as. cbn [fst snd]. destruct (eval_expr vs e) as [v| |]; cbn [bind outcome_ok nonstatic]; auto.
  intros [H|H]; [discriminate|]. destruct v; try discriminate. exact I.
Qed.
Lemma ns_eval_portion e : good vs (e, TypePortion) -> nonstatic (eval_as vs e expect_portion).
Proof.
  unfold good, eval_as. cbn [fst snd]. destruct (eval_expr vs e) as [v| |]; cbn [bind outcome_ok nonstatic]; auto.
  intros [H|H]; [discriminate|]. destruct v; try discriminate. exact I.
Qed.
Lemma ns_eval_monetary e : good vs (e, TypeMonetary) -> nonstatic (eval_as vs e expect_monetary).
Proof.
  unfold good, eval_as. cbn [fst snd]. destruct (eval_expr vs e) as [v| |]; cbn [bind outcome_ok nonstatic]; auto.
  intros [H|H]; [discriminate|]. destruct v; try discriminate. exact I.
Qed.
Lemma ns_eval_monetary_of e asset : good vs (e, TypeMonetary) -> nonstatic (eval_as vs e (expect_monetary_of_asset asset)).
Proof.
  unfold good, eval_as. cbn [fst snd]. destruct (eval_expr vs e) as [v| |]; cbn [bind outcome_ok nonstatic]; auto.
  intros [H|H]; [discriminate|]. destruct v; try discriminate. unfold expect_monetary_of_asset. cbn [expect_monetary bind].
  destruct (String.eqb _ _); [exact I|ns_err].
Qed.

Lemma ns_eval_allots : forall items, all_good vs (flat_map pos_allot items) -> nonstatic (eval_allots vs items).
Proof.
  induction items as [|a items IH]; intros H; cbn [eval_allots]; [exact I|].
  cbn [flat_map] in H. apply all_good_app in H. destruct H as [Ha Hr].
  apply nonstatic_bind.
  - destruct a as [| |r n d|r name|r]; cbn [pos_allot] in Ha; try exact I.
    + destruct d; [ns_err|exact I|exact I].
    + apply nonstatic_bind; [apply ns_eval_portion, Ha; left; reflexivity|intros; exact I].
  - intros p _. apply nonstatic_bind; [apply IH, Hr|intros; exact I].
Qed.

Lemma ns_make_allotment n items : all_good vs (flat_map pos_allot items) -> nonstatic (make_allotment vs n items).
Proof.
  intros H. unfold make_allotment. apply nonstatic_bind; [apply ns_eval_allots, H|]. intros aps _.
  apply nonstatic_bind.
  - unfold portions_of. destruct (last_remaining aps 0 None); [destruct (Qle_bool _ _)|destruct (Qeq_bool _ _)]; try exact I; ns_err.
  - intros ps _. cbv zeta. destruct (Nat.eqb _ _); exact I.
Qed.

Lemma pos_allot_items {X} (items : list (range * allot * X)) (f : X -> list (expr * string)) :
  all_good vs (flat_map (fun it : range * allot * X => pos_allot (snd (fst it)) ++ f (snd it)) items) ->
  all_good vs (flat_map pos_allot (map (fun it => snd (fst it)) items)).
Proof.
  induction items as [|[[r a] x] items IH]; cbn [flat_map map fst snd]; intros H; [apply all_good_nil|].
  apply all_good_app in H. destruct H as [H1 H2]. apply all_good_app in H1. destruct H1 as [Ha _].
  apply all_good_app. split; [exact Ha|apply IH, H2].
Qed.

(* ---- sources ---- *)
Section Src.
Variable cache : balances.
Variable asset : string.

Lemma ns_try_account e amount od sd : good vs (e, TypeAccount) -> nonstatic (try_sending_to_account vs cache asset e amount od sd).
Proof. intros H. unfold try_sending_to_account. apply nonstatic_bind; [apply ns_eval_account, H|intros; exact I]. Qed.

Lemma ns_sendall_account e od sd : good vs (e, TypeAccount) -> nonstatic (send_all_to_account vs cache asset e od sd).
Proof.
  intros H. unfold send_all_to_account. apply nonstatic_bind; [apply ns_eval_account, H|]. intros a _.
  destruct (if String.eqb a WORLD then None else od); [exact I|ns_err].
Qed.

Lemma ns_try_sending : forall src amount sd, all_good vs (pos_source src) -> nonstatic (try_sending_up_to vs cache asset src amount sd).
Proof.
  induction src as [|e|r l IHl|r items IHi|r f c IH|r a b] using source_ind'; intros amount sd H.
  - exact I.
  - apply ns_try_account, H. left. reflexivity.
  - rewrite try_inorder_eq. generalize amount at 2 as left. revert sd. cbn [pos_source] in H.
    induction l as [|x l IHl']; intros sd left; cbn [try_inorder]; [exact I|].
    inversion IHl as [|? ? Hx IHl'']; subst. cbn [flat_map] in H. apply all_good_app in H. destruct H as [H1 H2].
    apply nonstatic_bind; [apply Hx, H1|]. intros [sent sd'] _. apply (IHl' IHl'' H2).
  - rewrite try_allot_eq. cbn [pos_source] in H. apply nonstatic_bind; [apply ns_make_allotment, (pos_allot_items items pos_source H)|].
    intros parts _. revert parts sd. induction items as [|[[r0 a0] x] items IHi']; intros parts sd; cbn [try_allot]; [exact I|].
    inversion IHi as [|? ? Hx IHi'']; subst. cbn [snd] in Hx. cbn [flat_map fst snd] in H.
    apply all_good_app in H. destruct H as [H1 H2]. apply all_good_app in H1. destruct H1 as [_ H1].
    destruct parts as [|p parts]; [exact I|].
    apply nonstatic_bind; [apply Hx, H1|]. intros [sent sd'] _. destruct (sent =? p); [apply (IHi' IHi'' H2)|ns_err].
  - cbn [try_sending_up_to]. cbn [pos_source] in H. apply all_good_cons in H. destruct H as [Hc Hf].
    apply nonstatic_bind; [apply ns_eval_monetary_of, Hc|]. intros cap _. apply IH, Hf.
  - cbn [try_sending_up_to]. cbn [pos_source] in H. apply all_good_cons in H. destruct H as [Ha Hb].
    destruct b as [b|].
    + apply nonstatic_bind; [apply ns_eval_monetary_of, Hb; left; reflexivity|]. intros cap _. apply ns_try_account, Ha.
    + apply ns_try_account, Ha.
Qed.

Lemma ns_send_all : forall src sd, all_good vs (pos_source src) -> nonstatic (send_all vs cache asset src sd).
Proof.
  induction src as [|e|r l IHl|r items IHi|r f c IH|r a b] using source_ind'; intros sd H.
  - exact I.
  - apply ns_sendall_account, H. left. reflexivity.
  - rewrite send_all_inorder_eq. generalize 0 as total. revert sd. cbn [pos_source] in H.
    induction l as [|x l IHl']; intros sd total; cbn [send_all_inorder]; [exact I|].
    inversion IHl as [|? ? Hx IHl'']; subst. cbn [flat_map] in H. apply all_good_app in H. destruct H as [H1 H2].
    apply nonstatic_bind; [apply Hx, H1|]. intros [sent sd'] _. apply (IHl' IHl'' H2).
  - cbn [send_all]. ns_err.
  - cbn [send_all]. cbn [pos_source] in H. apply all_good_cons in H. destruct H as [Hc Hf].
    apply nonstatic_bind; [apply ns_eval_monetary_of, Hc|]. intros cap _. apply ns_try_sending, Hf.
  - cbn [send_all]. cbn [pos_source] in H. apply all_good_cons in H. destruct H as [Ha Hb].
    destruct b as [b|].
    + apply nonstatic_bind; [apply ns_eval_monetary_of, Hb; left; reflexivity|]. intros cap _. apply ns_sendall_account, Ha.
    + apply ns_sendall_account, Ha.
Qed.
End Src.
End B.

Section B2.
Variable vs : env.

(* ---- the preload traversal ---- *)
Lemma ns_find_queries asset : forall src q, all_good vs (pos_source src) -> nonstatic (find_queries vs asset src q).
Proof.
  induction src as [|e|r l IHl|r items IHi|r f c IH|r a b] using source_ind'; intros q H; cbn [find_queries].
  - exact I.
  - apply nonstatic_bind; [apply ns_eval_account, H; left; reflexivity|intros; exact I].
  - cbn [pos_source] in H. revert q. induction l as [|x l IHl']; intros q; [exact I|].
    inversion IHl as [|? ? Hx IHl'']; subst. cbn [flat_map] in H. apply all_good_app in H. destruct H as [H1 H2].
    apply nonstatic_bind; [apply Hx, H1|]. intros q' _. apply (IHl' IHl'' H2).
  - cbn [pos_source] in H. revert q. induction items as [|[[r0 a0] x] items IHi']; intros q; [exact I|].
    inversion IHi as [|? ? Hx IHi'']; subst. cbn [snd] in Hx. cbn [flat_map fst snd] in H.
    apply all_good_app in H. destruct H as [H1 H2]. apply all_good_app in H1. destruct H1 as [_ H1].
    apply nonstatic_bind; [apply Hx, H1|]. intros q' _. apply (IHi' IHi'' H2).
  - cbn [pos_source] in H. apply all_good_cons in H. apply IH, (proj2 H).
  - cbn [pos_source] in H. apply all_good_cons in H. destruct H as [Ha _]. destruct b; [|exact I].
    apply nonstatic_bind; [apply ns_eval_account, Ha|intros; exact I].
Qed.

(* ---- destinations ---- *)
Lemma ns_receive asset :
  (forall d amount rcv, all_good vs (pos_dest d) -> nonstatic (receive_from vs asset d amount rcv)) /\
  (forall k amount rcv, all_good vs (pos_kod k) -> nonstatic (receive_kod vs asset k amount rcv)).
Proof.
  apply (dest_kod_ind
    (fun d => forall amount rcv, all_good vs (pos_dest d) -> nonstatic (receive_from vs asset d amount rcv))
    (fun k => forall amount rcv, all_good vs (pos_kod k) -> nonstatic (receive_kod vs asset k amount rcv))).
  - intros; exact I.
  - intros e amount rcv H. cbn [receive_from]. apply nonstatic_bind; [apply ns_eval_account, H; left; reflexivity|intros; exact I].
  - intros r cl rem Hcl Hrem amount rcv H. rewrite recv_inorder_eq. cbn [pos_dest] in H. apply all_good_app in H. destruct H as [Hc Hr].
    revert amount rcv. induction cl as [|[[r0 ce] k] l IH]; intros amount rcv; cbn [recv_inorder].
    + destruct (amount =? 0); [exact I|apply Hrem, Hr].
    + inversion Hcl as [|? ? Hk Hcl']; subst. cbn [snd] in Hk. cbn [flat_map fst snd] in Hc.
      apply all_good_cons in Hc. destruct Hc as [Hcap Hc]. apply all_good_app in Hc. destruct Hc as [Hkk Hc].
      apply nonstatic_bind; [apply ns_eval_monetary_of, Hcap|]. intros cap _.
      destruct (amount =? 0); [exact I|]. cbv zeta. destruct (_ =? 0); [apply (IH Hcl' Hc)|].
      apply nonstatic_bind; [apply Hk, Hkk|]. intros rcv' _. apply (IH Hcl' Hc).
  - intros r items Hit amount rcv H. rewrite recv_allot_eq. cbn [pos_dest] in H.
    apply nonstatic_bind; [apply ns_make_allotment, (pos_allot_items vs items pos_kod H)|]. intros parts _.
    revert parts rcv. induction items as [|[[r0 a0] k] items IH]; intros parts rcv; cbn [recv_allot]; [exact I|].
    inversion Hit as [|? ? Hk Hit']; subst. cbn [snd] in Hk. cbn [flat_map fst snd] in H.
    apply all_good_app in H. destruct H as [H1 H2]. apply all_good_app in H1. destruct H1 as [_ H1].
    destruct parts as [|p parts]; [exact I|].
    apply nonstatic_bind; [apply Hk, H1|]. intros rcv' _. apply (IH Hit' H2).
  - intros; exact I.
  - intros; exact I.
  - intros d IH amount rcv H. cbn [receive_kod]. apply IH, H.
Qed.

(* ---- statements ---- *)
Lemma ns_eval_sent sv : all_good vs (pos_sent sv) -> nonstatic (eval_sent_amt vs sv).
Proof.
  destruct sv as [|r m|r a]; cbn [pos_sent eval_sent_amt]; intros H; [exact I| |].
  - apply nonstatic_bind; [apply ns_eval_monetary, H; left; reflexivity|]. intros [asset n] _. exact I.
  - apply nonstatic_bind; [apply ns_eval_asset, H; left; reflexivity|]. intros; exact I.
Qed.

Definition pos_send (sv : sent) (src : source) (dst : dest) := pos_sent sv ++ pos_source src ++ pos_dest dst.

Lemma ns_run_send sv src dst st : all_good vs (pos_send sv src dst) -> nonstatic (run_send vs sv src dst st).
Proof.
  unfold pos_send. intros H. apply all_good_app in H. destruct H as [Hs H]. apply all_good_app in H. destruct H as [Hsrc Hdst].
  unfold run_send. apply nonstatic_bind.
  - unfold send_lists. destruct sv as [|r m|r a]; cbn [pos_sent] in Hs; [exact I| |].
    + apply nonstatic_bind; [apply ns_eval_monetary, Hs; left; reflexivity|]. intros [asset amt] _.
      destruct (amt <? 0); [ns_err|].
      apply nonstatic_bind.
      * unfold try_sending_exact. apply nonstatic_bind; [apply ns_try_sending, Hsrc|]. intros [sent sd'] _. destruct (_ =? _); [exact I|ns_err].
      * intros sd _. apply nonstatic_bind; [apply (proj1 (ns_receive asset)), Hdst|intros; exact I].
    + apply nonstatic_bind; [apply ns_eval_asset, Hs; left; reflexivity|]. intros asset _.
      apply nonstatic_bind; [apply ns_send_all, Hsrc|]. intros [sent sd] _.
      apply nonstatic_bind; [apply (proj1 (ns_receive asset)), Hdst|intros; exact I].
  - intros [[asset sd] rcv] _. unfold get_postings. destruct (reconcile asset sd rcv); exact I.
Qed.

Lemma ns_run_save sv a st : all_good vs (pos_sent sv) -> good vs (a, TypeAccount) -> nonstatic (run_save vs sv a st).
Proof.
  intros Hs Ha. unfold run_save. apply nonstatic_bind; [apply ns_eval_sent, Hs|]. intros [asset amt] _.
  apply nonstatic_bind; [apply ns_eval_account, Ha|]. intros account _.
  destruct amt as [n|]; [destruct (n <? 0); [ns_err|exact I]|exact I].
Qed.

Lemma ns_find_queries_stmt s q :
  match s with
  | StSend _ sv src dst => all_good vs (pos_send sv src dst)
  | StSave _ sv a => all_good vs (pos_sent sv) /\ good vs (a, TypeAccount)
  | _ => True
  end -> nonstatic (find_queries_stmt vs s q).
Proof.
  destruct s as [| |f|r sv src dst|r sv a]; cbn [find_queries_stmt]; intros H; try exact I.
  - unfold pos_send in H. apply all_good_app in H. destruct H as [Hs H]. apply all_good_app in H. destruct H as [Hsrc _].
    apply nonstatic_bind; [apply ns_eval_sent, Hs|]. intros [asset amt] _. apply ns_find_queries, Hsrc.
  - destruct H as [Hs Ha]. apply nonstatic_bind; [apply ns_eval_sent, Hs|]. intros [asset amt] _.
    apply nonstatic_bind; [apply ns_eval_account, Ha|intros; exact I].
Qed.
End B2.

(* ================= Part A: what a check without errors guarantees ================= *)
From NS Require Import Names NamesProofs NamesScript CheckProofs.

Definition noerr (s : cstate) : Prop := errors_count (cs_diags s) = O.

Definition good' (vs : env) (p : expr * string) : Prop := expr_complete (fst p) = true -> good vs p.
Definition all_good' (vs : env) (ps : list (expr * string)) : Prop := forall p, In p ps -> good' vs p.

(* a checking step: if the final state has no error, the positions it checked are good under every
   environment typed by the declarations in force; errors are never retracted; declarations stay *)
Definition sstep (ps : list (expr * string)) (s s' : cstate) : Prop :=
  (forall vs, noerr s' -> env_typed (cs_declared s) vs -> all_good' vs ps)
  /\ mono s s' /\ cs_declared s' = cs_declared s.

Lemma noerr_back s s' : mono s s' -> noerr s' -> noerr s.
Proof. rewrite mono_le. unfold noerr. lia. Qed.

Lemma sstep_of_same s s' : vsame s s' -> sstep [] s s'.
Proof. intros (_ & B & _ & D). repeat split; [intros vs _ _ p []|exact D|exact B]. Qed.

Lemma sstep_app ps1 ps2 s1 s2 s3 : sstep ps1 s1 s2 -> sstep ps2 s2 s3 -> sstep (ps1 ++ ps2) s1 s3.
Proof.
  intros (A1 & M1 & D1) (A2 & M2 & D2). repeat split.
  - intros vs Hn He p Hp. apply in_app_or in Hp. destruct Hp as [Hp|Hp].
    + exact (A1 vs (noerr_back _ _ M2 Hn) He p Hp).
    + refine (A2 vs Hn _ p Hp). now rewrite D1.
  - exact (mono_trans _ _ _ M1 M2).
  - congruence.
Qed.

Lemma sstep_same_l ps s0 s s' : vsame s0 s -> sstep ps s s' -> sstep ps s0 s'.
Proof. intros H1 H2. exact (sstep_app [] ps _ _ _ (sstep_of_same _ _ H1) H2). Qed.
Lemma sstep_same_r ps s s' s1 : sstep ps s s' -> vsame s' s1 -> sstep ps s s1.
Proof. intros H1 H2. rewrite <- (app_nil_r ps). exact (sstep_app ps [] _ _ _ H1 (sstep_of_same _ _ H2)). Qed.

(* expressions only ever report errors *)
Lemma expr_diags_errors : forall e t s s', check_expression e t s = Ok s' ->
  exists D, cs_diags s' = cs_diags s ++ D /\ errors_count D = List.length D.
Proof.
  assert (Hassert : forall r req act s s', assert_has_type (Some r) req act s = Ok s' ->
            exists D, cs_diags s' = cs_diags s ++ D /\ errors_count D = List.length D).
  { intros r req act s s' H. destruct (assert_has_type_spec _ _ _ _ _ H) as [[-> _]| ->].
    - exists []. split; [now rewrite app_nil_r|reflexivity].
    - exists [mkdiag r (DTypeMismatch req act)]. split; reflexivity. }
  assert (Happ : forall s1 s2 s3 : cstate,
            (exists D, cs_diags s2 = cs_diags s1 ++ D /\ errors_count D = List.length D) ->
            (exists D, cs_diags s3 = cs_diags s2 ++ D /\ errors_count D = List.length D) ->
            exists D, cs_diags s3 = cs_diags s1 ++ D /\ errors_count D = List.length D).
  { intros s1 s2 s3 (D1 & H1 & E1) (D2 & H2 & E2). exists (D1 ++ D2). split; [rewrite H2, H1, app_assoc; reflexivity|].
    rewrite errors_count_app, app_length. lia. }
  assert (Hrefl : forall s : cstate, exists D, cs_diags s = cs_diags s ++ D /\ errors_count D = List.length D).
  { intros s. exists []. split; [now rewrite app_nil_r|reflexivity]. }
  induction e as [| | |r name|r x|r x|r name|r n|r a IHa b IHb|r n d|r op l IHl rr IHr]; intros t s s' H; cbn [check_expression] in H;
    try discriminate; try (injection H as <-; apply Hrefl); try (eapply Hassert; eassumption).
  - unfold assert_has_type in H. destruct (_ || _); [injection H as <-; apply Hrefl|discriminate].
  - cbv zeta in H. destruct (alookup name (cs_declared s)) as [d0|].
    + destruct (vd_type d0) as [[? ty]|]; [destruct (is_type_allowed ty)|];
        try (injection H as <-; exists []; split; [cbn [cs_diags]; now rewrite app_nil_r|reflexivity]).
      destruct (assert_has_type_spec _ _ _ _ _ H) as [[-> _]| ->]; [exists []; split; [cbn [cs_diags]; now rewrite app_nil_r|reflexivity]|].
      exists [mkdiag r (DTypeMismatch t ty)]. split; reflexivity.
    + injection H as <-. exists [mkdiag r (DUnboundVariable name)]. split; reflexivity.
  - destruct (assert_has_type (Some r) t TypeMonetary s) as [s1| |] eqn:E1; cbn [bind] in H; try discriminate.
    destruct (check_expression a TypeAsset s1) as [s2| |] eqn:E2; cbn [bind] in H; try discriminate.
    eapply Happ; [eapply Hassert; exact E1|]. eapply Happ; [eapply IHa; exact E2|eapply IHb; exact H].
  - destruct (String.eqb t TypeNumber || String.eqb t TypeMonetary).
    + destruct (check_expression l t s) as [s1| |] eqn:E1; cbn [bind] in H; try discriminate.
      eapply Happ; [eapply IHl; exact E1|eapply IHr; exact H].
    + cbv zeta in H.
      match type of H with context [assert_has_type (Some r) t ?ty s] => destruct (assert_has_type (Some r) t ty s) as [s0| |] eqn:E0 end; cbn [bind] in H; try discriminate.
      match type of H with context [check_expression l ?ty s0] => destruct (check_expression l ty s0) as [s1| |] eqn:E1 end; cbn [bind] in H; try discriminate.
      eapply Happ; [eapply Hassert; exact E0|]. eapply Happ; [eapply IHl; exact E1|eapply IHr; exact H].
Qed.

Lemma sstep_expr e t s s' : check_expression e t s = Ok s' -> sstep [(e, t)] s s'.
Proof.
  intros H. pose proof (vstep_expr e t s s' H) as (_ & B & _ & M). repeat split; [|exact M|exact B].
  intros vs Hn He p [<-|[]] Hc. cbn [fst] in Hc. unfold good. cbn [fst snd].
  destruct (expr_diags_errors e t s s' H) as (D & HD & ED).
  assert (D = []).
  { unfold noerr in Hn. rewrite HD, errors_count_app in Hn. destruct D; [reflexivity|cbn [List.length] in ED; lia]. }
  subst D. rewrite app_nil_r in HD. exact (check_expression_sound e t s s' vs Hc H HD He).
Qed.

Lemma sstep_with_capped f ps s s' :
  (forall s0 s1, f s0 = Ok s1 -> sstep ps s0 s1) -> with_capped f s = Ok s' -> sstep ps s s'.
Proof.
  intros Hf H. unfold with_capped in H.
  destruct (f (set_unbounded_send false (set_unbounded_in_send false s))) as [s1| |] eqn:E; cbn [bind] in H; try discriminate.
  injection H as <-. eapply sstep_same_l; [|eapply sstep_same_r; [exact (Hf _ _ E)|]]; vsame_tac.
Qed.

Lemma sstep_allot_clause a is_last whole acc s acc' s' :
  check_allot_clause a is_last whole acc s = Ok (acc', s') -> sstep (pos_allot a) s s'.
Proof.
  destruct a as [| |r n d|r name|r]; cbn [check_allot_clause pos_allot]; intros H; try discriminate.
  - injection H as _ <-. apply sstep_of_same, vsame_refl.
  - destruct (q_of_ratio n d); injection H as _ <-; apply sstep_of_same; [apply vsame_refl|apply vsame_emit; reflexivity].
  - destruct (check_expression (EVar r name) TypePortion s) as [s1| |] eqn:E; cbn [bind] in H; try discriminate.
    injection H as _ <-. exact (sstep_expr _ _ _ _ E).
  - destruct is_last; injection H as _ <-; apply sstep_of_same; [apply vsame_refl|apply vsame_emit; reflexivity].
Qed.

Lemma sstep_source : forall src s s', check_source src s = Ok s' -> sstep (pos_source src) s s'.
Proof.
  induction src as [|e|r l IHl|r items IHi|r f c IH|r a b] using source_ind'; intros s s' H.
  - injection H as <-. apply sstep_of_same, vsame_refl.
  - cbn [check_source] in H. cbn [pos_source].
    match type of H with (bind ?pre _) = _ => destruct pre as [s0| |] eqn:Ep end; cbn [bind] in H; try discriminate.
    apply prelude_same in Ep. eapply sstep_same_l; [exact Ep|].
    destruct (check_expression e TypeAccount s0) as [s1| |] eqn:E1; cbn [bind] in H; try discriminate.
    eapply sstep_same_r; [exact (sstep_expr _ _ _ _ E1)|].
    destruct e; try (injection H as <-; apply vsame_refl).
    injection H as <-. vsame_tac.
  - cbn [check_source] in H. cbn [pos_source].
    match type of H with (bind ?pre _) = _ => destruct pre as [s0| |] eqn:Ep end; cbn [bind] in H; try discriminate.
    apply prelude_same in Ep. eapply sstep_same_l; [exact Ep|]. clear Ep s.
    revert s0 H. induction l as [|x l IHl']; intros s0 H; cbn [flat_map].
    + injection H as <-. apply sstep_of_same, vsame_refl.
    + inversion IHl as [|? ? Hx IHl'']; subst.
      destruct (check_source x s0) as [s1| |] eqn:E1; cbn [bind] in H; try discriminate.
      eapply sstep_app; [exact (Hx _ _ E1)|exact (IHl' IHl'' _ H)].
  - cbn [check_source] in H. cbn [pos_source].
    match type of H with (bind ?pre _) = _ => destruct pre as [s0| |] eqn:Ep end; cbn [bind] in H; try discriminate.
    apply prelude_same in Ep. eapply sstep_same_l; [exact Ep|]. clear Ep s.
    match type of H with (bind ?loop _) = _ => destruct loop as [[acc s2]| |] eqn:El end; cbn [bind] in H; try discriminate.
    injection H as <-. eapply sstep_same_r; [|apply vsame_bad_allotment].
    eapply (sstep_same_l _ _ (if cs_unbounded_send s0 then emit r DNoAllotmentInSendAll s0 else s0)); [vsame_tac|].
    revert El. generalize (mkacc 0 None []) as acc0. generalize (if cs_unbounded_send s0 then emit r DNoAllotmentInSendAll s0 else s0) as s1.
    induction items as [|[[r0 a0] x] items IHi']; intros s1 acc0 El; cbn [flat_map].
    + injection El as _ <-. apply sstep_of_same, vsame_refl.
    + inversion IHi as [|? ? Hx IHi'']; subst. cbn [snd fst] in *.
      destruct (check_allot_clause a0 _ r acc0 s1) as [[acc1 s1']| |] eqn:Ec; cbn [bind] in El; try discriminate.
      destruct (with_capped (check_source x) s1') as [s1''| |] eqn:Ew; cbn [bind] in El; try discriminate.
      rewrite <- app_assoc. eapply sstep_app; [exact (sstep_allot_clause _ _ _ _ _ _ _ Ec)|].
      eapply sstep_app; [exact (sstep_with_capped _ _ _ _ Hx Ew)|exact (IHi' IHi'' _ _ El)].
  - cbn [check_source] in H. cbn [pos_source].
    match type of H with (bind ?pre _) = _ => destruct pre as [s0| |] eqn:Ep end; cbn [bind] in H; try discriminate.
    apply prelude_same in Ep. eapply sstep_same_l; [exact Ep|].
    refine (sstep_with_capped _ _ _ _ _ H). intros sa sb Hab.
    destruct (check_expression c TypeMonetary sa) as [s1| |] eqn:E1; cbn [bind] in Hab; try discriminate.
    change ((c, TypeMonetary) :: pos_source f) with ([(c, TypeMonetary)] ++ pos_source f).
    eapply sstep_app; [exact (sstep_expr _ _ _ _ E1)|exact (IH _ _ Hab)].
  - cbn [check_source] in H. cbn [pos_source].
    match type of H with (bind ?pre _) = _ => destruct pre as [s0| |] eqn:Ep end; cbn [bind] in H; try discriminate.
    apply prelude_same in Ep. eapply sstep_same_l; [exact Ep|]. clear Ep s.
    match type of H with (bind ?m _) = _ => destruct m as [s3| |] eqn:E3 end; cbn [bind] in H; try discriminate.
    assert (H3 : vsame s0 s3).
    { revert E3. match goal with |- (if ?c then _ else _) = _ -> _ => destruct c end.
      - destruct (expr_range a); [|discriminate]. intros E3. injection E3 as <-.
        eapply vsame_trans; [|apply vsame_emit; reflexivity]. destruct b; destruct a; vsame_tac.
      - intros E3. injection E3 as <-. destruct b; destruct a; vsame_tac. }
    eapply sstep_same_l; [exact H3|].
    destruct (check_expression a TypeAccount s3) as [s4| |] eqn:E4; cbn [bind] in H; try discriminate.
    destruct b as [b|].
    + change [(a, TypeAccount); (b, TypeMonetary)] with ([(a, TypeAccount)] ++ [(b, TypeMonetary)]).
      eapply sstep_app; [exact (sstep_expr _ _ _ _ E4)|exact (sstep_expr _ _ _ _ H)].
    + injection H as <-. exact (sstep_expr _ _ _ _ E4).
Qed.

Lemma sstep_dest :
  (forall d s s', check_destination d s = Ok s' -> sstep (pos_dest d) s s') /\
  (forall k s s', check_kod k s = Ok s' -> sstep (pos_kod k) s s').
Proof.
  apply (dest_kod_ind
    (fun d => forall s s', check_destination d s = Ok s' -> sstep (pos_dest d) s s')
    (fun k => forall s s', check_kod k s = Ok s' -> sstep (pos_kod k) s s')).
  - intros s s' H. injection H as <-. apply sstep_of_same, vsame_refl.
  - intros e s s' H. exact (sstep_expr _ _ _ _ H).
  - intros r cl rem Hcl Hrem s s' H. cbn [check_destination] in H. cbn [pos_dest].
    match type of H with (bind ?loop _) = _ => destruct loop as [s1| |] eqn:El end; cbn [bind] in H; try discriminate.
    eapply sstep_app; [|exact (Hrem _ _ H)]. clear H s'.
    revert s El. induction cl as [|[[cr ce] k] l IH]; intros s El; cbn [flat_map].
    + injection El as <-. apply sstep_of_same, vsame_refl.
    + inversion Hcl as [|? ? Hk Hcl']; subst. cbn [snd fst] in *.
      destruct (check_expression ce TypeMonetary s) as [sa| |] eqn:Ea; cbn [bind] in El; try discriminate.
      destruct (check_kod k sa) as [sb| |] eqn:Eb; cbn [bind] in El; try discriminate.
      change (((ce, TypeMonetary) :: pos_kod k) ++ flat_map (fun c : range * expr * kod => (snd (fst c), TypeMonetary) :: pos_kod (snd c)) l)
        with ([(ce, TypeMonetary)] ++ (pos_kod k ++ flat_map (fun c : range * expr * kod => (snd (fst c), TypeMonetary) :: pos_kod (snd c)) l)).
      eapply sstep_app; [exact (sstep_expr _ _ _ _ Ea)|].
      eapply sstep_app; [exact (Hk _ _ Eb)|exact (IH Hcl' _ El)].
  - intros r items Hit s s' H. cbn [check_destination] in H. cbn [pos_dest].
    match type of H with (bind ?loop _) = _ => destruct loop as [[acc s2]| |] eqn:El end; cbn [bind] in H; try discriminate.
    injection H as <-. eapply sstep_same_r; [|apply vsame_bad_allotment].
    revert El. generalize (mkacc 0 None []) as acc0. revert s.
    induction items as [|[[ir a] k] items IH]; intros s acc0 El; cbn [flat_map].
    + injection El as _ <-. apply sstep_of_same, vsame_refl.
    + inversion Hit as [|? ? Hk Hit']; subst. cbn [snd fst] in *.
      destruct (check_allot_clause a _ r acc0 s) as [[acc1 sa]| |] eqn:Ec; cbn [bind] in El; try discriminate.
      destruct (check_kod k sa) as [sb| |] eqn:Eb; cbn [bind] in El; try discriminate.
      rewrite <- app_assoc. eapply sstep_app; [exact (sstep_allot_clause _ _ _ _ _ _ _ Ec)|].
      eapply sstep_app; [exact (Hk _ _ Eb)|exact (IH Hit' _ _ El)].
  - intros s s' H. injection H as <-. apply sstep_of_same, vsame_refl.
  - intros r s s' H. injection H as <-. apply sstep_of_same, vsame_refl.
  - intros d IH s s' H. exact (IH _ _ H).
Qed.

Lemma sstep_sent sv s s' : check_sent_value sv s = Ok s' -> sstep (pos_sent sv) s s'.
Proof.
  destruct sv as [|r m|r a]; cbn [check_sent_value pos_sent]; intros H.
  - injection H as <-. apply sstep_of_same, vsame_refl.
  - exact (sstep_expr _ _ _ _ H).
  - exact (sstep_expr _ _ _ _ H).
Qed.

(* ================= function calls ================= *)
Definition fn_stmt_ok (vs : env) (f : fncall) : Prop :=
  (fc_caller f = FnSetTxMeta /\ exists k v, fc_args f = [k; v] /\ good vs (k, TypeString) /\ good vs (v, TypeAny))
  \/ (fc_caller f = FnSetAccountMeta /\ exists a k v, fc_args f = [a; k; v]
        /\ good vs (a, TypeAccount) /\ good vs (k, TypeString) /\ good vs (v, TypeAny)).

Definition stmt_ok (vs : env) (st : stmt) : Prop :=
  match st with
  | StSend _ sv src dst => all_good vs (pos_send sv src dst)
  | StSave _ sv a => all_good vs (pos_sent sv) /\ good vs (a, TypeAccount)
  | StFnCall f => fn_stmt_ok vs f
  | _ => True
  end.

Lemma good_value vs e t v : good vs (e, t) -> eval_expr vs e = Ok v -> t = TypeAny \/ value_type v = t.
Proof. unfold good. cbn [fst snd]. intros H E. rewrite E in H. exact H. Qed.

Lemma good_nonstatic vs e t : good vs (e, t) -> nonstatic (eval_expr vs e).
Proof. unfold good. cbn [fst snd]. destruct (eval_expr vs e); cbn; auto. Qed.

Ltac ns_from H E := let X := fresh in pose proof (good_nonstatic _ _ _ H) as X; rewrite E in X; exact X.

Lemma ns_run_stmt vs st s : stmt_ok vs st -> nonstatic (run_stmt vs st s).
Proof.
  destruct st as [| |f|r sv src dst|r sv a]; cbn [stmt_ok run_stmt]; intros H; try exact I.
  - destruct H as [(Hc & k & v & Ha & Hk & Hv)|(Hc & a & k & v & Ha & Hacc & Hk & Hv)]; rewrite Ha, Hc; cbn [eval_exprs].
    + destruct (eval_expr vs k) as [vk| |] eqn:Ek; cbn [bind]; [|ns_from Hk Ek|exact I].
      destruct (eval_expr vs v) as [vv| |] eqn:Ev; cbn [bind]; [|ns_from Hv Ev|exact I].
      change (String.eqb FnSetTxMeta FnSetTxMeta) with true. cbv iota.
      unfold set_tx_meta. destruct (good_value _ _ _ _ Hk Ek) as [Hx|Hx]; [discriminate|].
      destruct vk; try discriminate. cbn [expect_string bind]. exact I.
    + destruct (eval_expr vs a) as [va| |] eqn:Ea; cbn [bind]; [|ns_from Hacc Ea|exact I].
      destruct (eval_expr vs k) as [vk| |] eqn:Ek; cbn [bind]; [|ns_from Hk Ek|exact I].
      destruct (eval_expr vs v) as [vv| |] eqn:Ev; cbn [bind]; [|ns_from Hv Ev|exact I].
      change (String.eqb FnSetAccountMeta FnSetTxMeta) with false. change (String.eqb FnSetAccountMeta FnSetAccountMeta) with true. cbv iota.
      unfold set_account_meta.
      destruct (good_value _ _ _ _ Hacc Ea) as [Hx|Hx]; [discriminate|]. destruct va; try discriminate.
      destruct (good_value _ _ _ _ Hk Ek) as [Hy|Hy]; [discriminate|]. destruct vk; try discriminate.
      cbn [expect_account expect_string bind]. exact I.
  - apply ns_run_send, H.
  - destruct H as [Hs Ha]. apply ns_run_save; assumption.
Qed.

Lemma ns_run_stmts vs : forall ss s, (forall st, In st ss -> stmt_ok vs st) -> nonstatic (run_stmts vs ss s).
Proof.
  induction ss as [|st ss IH]; intros s H; cbn [run_stmts]; [exact I|].
  apply nonstatic_bind; [apply ns_run_stmt, H; left; reflexivity|]. intros [ps s1] _.
  apply nonstatic_bind; [apply IH; intros st' Hin; apply H; right; exact Hin|]. intros [ps' s2] _. exact I.
Qed.

Lemma ns_find_queries_stmts vs : forall ss q, (forall st, In st ss -> stmt_ok vs st) -> nonstatic (find_queries_stmts vs ss q).
Proof.
  induction ss as [|st ss IH]; intros q H; cbn [find_queries_stmts]; [exact I|].
  apply nonstatic_bind.
  - apply ns_find_queries_stmt. specialize (H st (or_introl eq_refl)). destruct st; try exact I; exact H.
  - intros q' _. apply IH. intros st' Hin. apply H. right. exact Hin.
Qed.

(* variable origins *)
Definition origin_ok (vs : env) (ty : string) (f : fncall) : Prop :=
  is_type_allowed ty = true /\
  ((fc_caller f = FnVarOriginMeta /\ exists a k, fc_args f = [a; k] /\ good vs (a, TypeAccount) /\ good vs (k, TypeString))
   \/ ((fc_caller f = FnVarOriginBalance \/ fc_caller f = FnVarOriginOverdraft) /\ ty = TypeMonetary
       /\ exists a c, fc_args f = [a; c] /\ good vs (a, TypeAccount) /\ good vs (c, TypeAsset))).

Lemma parse_var_sound ty raw : is_type_allowed ty = true ->
  match parse_var ty raw with Ok v => value_type v = ty | Err e => ~ static_err e | Panic _ => True end.
Proof.
  intros H. unfold is_type_allowed, allowed_types in H. cbn [mem_str] in H.
  unfold parse_var.
  destruct (String.eqb ty TypeMonetary) eqn:E1.
  { apply String.eqb_eq in E1. subst ty. unfold parse_monetary. destruct (split_on " "%char raw) as [|a [|b [|? ?]]]; try (cbn; intros []).
    destruct (parse_int b); [reflexivity|cbn; intros []]. }
  destruct (String.eqb ty TypeAccount) eqn:E2.
  { apply String.eqb_eq in E2. subst ty. destruct (valid_account_name raw); [reflexivity|cbn; intros []]. }
  destruct (String.eqb ty TypePortion) eqn:E3.
  { apply String.eqb_eq in E3. subst ty. unfold parse_portion. destruct (parse_portion_text raw); [destruct (_ && _); [reflexivity|cbn; intros []]|cbn; intros []]. }
  destruct (String.eqb ty TypeAsset) eqn:E4; [apply String.eqb_eq in E4; subst ty; reflexivity|].
  destruct (String.eqb ty TypeNumber) eqn:E5.
  { apply String.eqb_eq in E5. subst ty. destruct (parse_int raw); [reflexivity|cbn; intros []]. }
  destruct (String.eqb ty TypeString) eqn:E6; [apply String.eqb_eq in E6; subst ty; reflexivity|].
  exfalso. cbn in H. discriminate.
Qed.

Lemma two_args_sound {A B} vs a b (ea : value -> res A) (eb : value -> res B) ta tb va vb :
  good vs (a, ta) -> good vs (b, tb) -> eval_expr vs a = Ok va -> eval_expr vs b = Ok vb ->
  (forall v, ta = TypeAny \/ value_type v = ta -> nonstatic (ea v)) ->
  (forall v, tb = TypeAny \/ value_type v = tb -> nonstatic (eb v)) ->
  nonstatic (two_args [va; vb] ea eb).
Proof.
  intros Ha Hb Ea Eb Fa Fb. unfold two_args. apply nonstatic_bind; [apply Fa, (good_value _ _ _ _ Ha Ea)|]. intros x _.
  apply nonstatic_bind; [apply Fb, (good_value _ _ _ _ Hb Eb)|intros; exact I].
Qed.

Lemma expect_account_ns v : TypeAccount = TypeAny \/ value_type v = TypeAccount -> nonstatic (expect_account v).
Proof. intros [H|H]; [discriminate|]. destruct v; try discriminate. exact I. Qed.
Lemma expect_string_ns v : TypeString = TypeAny \/ value_type v = TypeString -> nonstatic (expect_string v).
Proof. intros [H|H]; [discriminate|]. destruct v; try discriminate. exact I. Qed.
Lemma expect_asset_ns v : TypeAsset = TypeAny \/ value_type v = TypeAsset -> nonstatic (expect_asset v).
Proof. intros [H|H]; [discriminate|]. destruct v; try discriminate. exact I. Qed.

(* the outcome of evaluating an origin: no static failure, and a value of the declared type *)
Lemma handle_origin_sound sb flag vs ty f rs : origin_ok vs ty f ->
  match handle_origin sb flag vs ty f rs with
  | Ok (v, _) => value_type v = ty
  | Err e => ~ static_err e
  | Panic _ => True
  end.
Proof.
  intros [Hty [(Hc & a & k & Ha & Ga & Gk)|(Hc & Hm & a & c & Ha & Ga & Gc)]]; unfold handle_origin; rewrite Ha; cbn [eval_exprs].
  - destruct (eval_expr vs a) as [va| |] eqn:Ea; cbn [bind]; [|ns_from Ga Ea|exact I].
    destruct (eval_expr vs k) as [vk| |] eqn:Ek; cbn [bind]; [|ns_from Gk Ek|exact I].
    rewrite Hc. change (String.eqb FnVarOriginMeta FnVarOriginMeta) with true. cbv iota.
    pose proof (two_args_sound vs a k expect_account expect_string _ _ va vk Ga Gk Ea Ek expect_account_ns expect_string_ns) as H2.
    destruct (two_args [va; vk] expect_account expect_string) as [[account key]| |]; cbn [bind nonstatic] in *; [|exact H2|exact I].
    destruct (sb (rs_ncalls rs) (CallMeta account key)); try exact I; [|cbn; intros []].
    destruct (alookup account m) as [am|]; [|cbn; intros []]. destruct (alookup key am) as [raw|]; [|cbn; intros []].
    pose proof (parse_var_sound ty raw Hty) as Hp. destruct (parse_var ty raw); cbn [bind]; exact Hp.
  - destruct (eval_expr vs a) as [va| |] eqn:Ea; cbn [bind]; [|ns_from Ga Ea|exact I].
    destruct (eval_expr vs c) as [vc| |] eqn:Ec; cbn [bind]; [|ns_from Gc Ec|exact I].
    pose proof (two_args_sound vs a c expect_account expect_asset _ _ va vc Ga Gc Ea Ec expect_account_ns expect_asset_ns) as H2.
    destruct Hc as [Hc|Hc]; rewrite Hc.
    + change (String.eqb FnVarOriginBalance FnVarOriginMeta) with false. change (String.eqb FnVarOriginBalance FnVarOriginBalance) with true. cbv iota.
      destruct (two_args [va; vc] expect_account expect_asset) as [[account asset]| |]; cbn [bind nonstatic] in *; [|exact H2|exact I].
      unfold get_balance. destruct (run_balances_query sb _) as [rs2|msg|w]; cbn [lift_store bind]; [|cbn; intros []|exact I].
      destruct (_ <? 0); [cbn; intros []|]. subst ty. reflexivity.
    + change (String.eqb FnVarOriginOverdraft FnVarOriginMeta) with false. change (String.eqb FnVarOriginOverdraft FnVarOriginBalance) with false.
      change (String.eqb FnVarOriginOverdraft FnVarOriginOverdraft) with true. cbv iota.
      destruct (negb flag); [cbn; intros []|].
      destruct (two_args [va; vc] expect_account expect_asset) as [[account asset]| |]; cbn [bind nonstatic] in *; [|exact H2|exact I].
      unfold get_balance. destruct (run_balances_query sb _) as [rs2|msg|w]; cbn [lift_store bind]; [|cbn; intros []|exact I].
      subst ty. reflexivity.
Qed.

(* ================= Part A, function calls and statements ================= *)
Lemma sstep_nil_of_vstep us s s' : vstep us s s' -> sstep [] s s'.
Proof. intros (_ & B & _ & M). repeat split; [intros vs _ _ p []|exact M|exact B]. Qed.

Lemma sstep_args : forall args sig s s', check_args args sig s = Ok s' -> sstep (combine args sig) s s'.
Proof.
  induction args as [|a args IH]; intros sig s s' H; cbn [check_args combine] in *.
  - injection H as <-. apply sstep_of_same, vsame_refl.
  - destruct sig as [|t sig].
    + destruct (check_expression a TypeAny s) as [s1| |] eqn:E; cbn [bind] in H; try discriminate.
      change (@nil (expr * string)) with (@nil (expr * string) ++ []).
      eapply sstep_app; [exact (sstep_nil_of_vstep _ _ _ (vstep_expr _ _ _ _ E))|exact (sstep_nil_of_vstep _ _ _ (vstep_args _ _ _ _ H))].
    + destruct (check_expression a t s) as [s1| |] eqn:E; cbn [bind] in H; try discriminate.
      change ((a, t) :: combine args sig) with ([(a, t)] ++ combine args sig).
      eapply sstep_app; [exact (sstep_expr _ _ _ _ E)|exact (IH _ _ _ H)].
Qed.

Lemma filter_complete args : forallb expr_complete args = true -> filter (fun e => negb (is_interface_nil e)) args = args.
Proof.
  induction args as [|a args IH]; cbn [forallb filter]; [reflexivity|]. intros H. apply andb_prop in H. destruct H as [Ha Hr].
  destruct a; cbn [expr_complete] in Ha; try discriminate; cbn [is_interface_nil negb]; now rewrite (IH Hr).
Qed.

Lemma complete_range e : expr_complete e = true -> exists r, expr_range e = Some r.
Proof. destruct e; cbn [expr_complete expr_range]; try discriminate; intros _; eexists; reflexivity. Qed.

Lemma not_noerr_emit r k s : severity_of k = SevError -> ~ noerr (emit r k s).
Proof. intros Hk Hn. unfold noerr in Hn. cbn [emit cs_diags] in Hn. rewrite errors_count_app in Hn. unfold errors_count in Hn at 2. cbn [filter d_kind] in Hn. rewrite Hk in Hn. cbn in Hn. lia. Qed.

Lemma fncall_resolved f b s s' :
  check_fn_call_arity f (Some b) s = Ok s' -> fncall_complete f = true ->
  sstep (combine (fc_args f) (b_params b)) s s' /\ (noerr s' -> List.length (fc_args f) = List.length (b_params b)).
Proof.
  intros H Hc. unfold check_fn_call_arity in H. unfold fncall_complete in Hc. rewrite (filter_complete _ Hc) in H.
  match type of H with (bind ?m _) = _ => destruct m as [s1| |] eqn:E1 end; cbn [bind] in H; try discriminate.
  pose proof (vstep_args _ _ _ _ H) as (_ & _ & _ & M1).
  assert (Hs1 : vsame s s1 /\ (noerr s1 -> List.length (fc_args f) = List.length (b_params b))).
  { revert E1. destruct (_ <? _)%nat eqn:L1.
    - intros E1. injection E1 as <-. split; [apply vsame_emit; reflexivity|]. intros Hn. exfalso. exact (not_noerr_emit _ (DBadArity _ _) _ eq_refl Hn).
    - destruct (List.length (b_params b) <? List.length (fc_args f))%nat eqn:L2.
      + apply Nat.ltb_lt in L2.
        destruct (nth_error (fc_args f) (List.length (b_params b))) as [first|] eqn:En; [|apply nth_error_None in En; lia].
        destruct (last (map Some (fc_args f)) None) as [lst|] eqn:El.
        * assert (Hf : expr_complete first = true) by (rewrite forallb_forall in Hc; apply Hc, (nth_error_In _ _ En)).
          assert (Hl : expr_complete lst = true).
          { rewrite forallb_forall in Hc. apply Hc. clear -El. induction (fc_args f) as [|x l IH]; cbn [map last] in El; [discriminate|].
            destruct l as [|y l]; cbn [map] in *; [injection El as <-; left; reflexivity|right; apply IH, El]. }
          destruct (complete_range _ Hf) as [r1 ->]. destruct (complete_range _ Hl) as [r2 ->].
          intros E1. injection E1 as <-. split; [apply vsame_emit; reflexivity|]. intros Hn. exfalso. exact (not_noerr_emit _ (DBadArity _ _) _ eq_refl Hn).
        * exfalso. clear -El L2. destruct (fc_args f) as [|x l]; [cbn in L2; lia|]. clear L2.
          revert x El. induction l as [|y l IH]; intros x El; cbn [map last] in El; [discriminate|]. exact (IH y El).
      + intros E1. injection E1 as <-. split; [apply vsame_refl|]. intros _. apply Nat.ltb_ge in L1, L2. lia. }
  destruct Hs1 as [Hv Hlen]. split.
  - eapply sstep_same_l; [exact Hv|exact (sstep_args _ _ _ _ H)].
  - intros Hn. apply Hlen. exact (noerr_back _ _ M1 Hn).
Qed.

Lemma fncall_unresolved f s s' : check_fn_call_arity f None s = Ok s' -> ~ noerr s'.
Proof.
  unfold check_fn_call_arity. intros H. destruct (check_args _ [] s) as [s1| |]; cbn [bind] in H; try discriminate.
  injection H as <-. apply not_noerr_emit. reflexivity.
Qed.

Lemma combine_good vs args sig :
  all_good' vs (combine args sig) -> forallb expr_complete args = true -> List.length args = List.length sig ->
  Forall2 (fun a t => good vs (a, t)) args sig.
Proof.
  revert sig. induction args as [|a args IH]; intros [|t sig] H Hc Hl; cbn [List.length] in Hl; try discriminate; [constructor|].
  cbn [forallb] in Hc. apply andb_prop in Hc. destruct Hc as [Ha Hr]. constructor.
  - apply (H (a, t)); [left; reflexivity|exact Ha].
  - apply IH; [intros p Hp; apply H; right; exact Hp|exact Hr|lia].
Qed.

Lemma statement_builtin name b : find_builtin name = Some b -> b_ctx b = CtxStatement ->
  (name = FnSetAccountMeta /\ b_params b = [TypeAccount; TypeString; TypeAny]) \/ (name = FnSetTxMeta /\ b_params b = [TypeString; TypeAny]).
Proof.
  unfold find_builtin, builtins_table. cbn [find b_name].
  destruct (String.eqb "balance" name) eqn:E1; [intros [= <-]; discriminate|].
  destruct (String.eqb "meta" name) eqn:E2; [intros [= <-]; discriminate|].
  destruct (String.eqb "overdraft" name) eqn:E3; [intros [= <-]; discriminate|].
  destruct (String.eqb "set_account_meta" name) eqn:E4; [intros [= <-] _; left; split; [symmetry; apply String.eqb_eq, E4|reflexivity]|].
  destruct (String.eqb "set_tx_meta" name) eqn:E5; [intros [= <-] _; right; split; [symmetry; apply String.eqb_eq, E5|reflexivity]|].
  discriminate.
Qed.

Lemma origin_builtin name b : find_builtin name = Some b -> b_ctx b = CtxOrigin ->
  (name = FnVarOriginBalance /\ b_params b = [TypeAccount; TypeAsset] /\ b_return b = TypeMonetary)
  \/ (name = FnVarOriginMeta /\ b_params b = [TypeAccount; TypeString] /\ b_return b = TypeAny)
  \/ (name = FnVarOriginOverdraft /\ b_params b = [TypeAccount; TypeAsset] /\ b_return b = TypeMonetary).
Proof.
  unfold find_builtin, builtins_table. cbn [find b_name].
  destruct (String.eqb "balance" name) eqn:E1; [intros [= <-] _; left; repeat split; symmetry; apply String.eqb_eq, E1|].
  destruct (String.eqb "meta" name) eqn:E2; [intros [= <-] _; right; left; repeat split; symmetry; apply String.eqb_eq, E2|].
  destruct (String.eqb "overdraft" name) eqn:E3; [intros [= <-] _; right; right; repeat split; symmetry; apply String.eqb_eq, E3|].
  destruct (String.eqb "set_account_meta" name) eqn:E4; [intros [= <-]; discriminate|].
  destruct (String.eqb "set_tx_meta" name) eqn:E5; [intros [= <-]; discriminate|].
  discriminate.
Qed.

(* every typed position of a complete construct is a complete expression *)
Definition all_complete (ps : list (expr * string)) : Prop := forall p, In p ps -> expr_complete (fst p) = true.

Lemma all_complete_app a b : all_complete a -> all_complete b -> all_complete (a ++ b).
Proof. intros Ha Hb p Hp. apply in_app_or in Hp. destruct Hp; [apply Ha|apply Hb]; assumption. Qed.

Lemma pos_complete_allot a : all_complete (pos_allot a).
Proof. destruct a; cbn [pos_allot]; intros p Hp; try contradiction. destruct Hp as [<-|[]]. reflexivity. Qed.

Lemma pos_complete_source : forall src, source_complete src = true -> all_complete (pos_source src).
Proof.
  induction src as [|e|r l IHl|r items IHi|r f c IH|r a b] using source_ind'; cbn [source_complete pos_source]; intros H.
  - discriminate.
  - intros p [<-|[]]. exact H.
  - revert H. induction l as [|x l IHl']; intros H; cbn [flat_map]; [intros p []|].
    inversion IHl as [|? ? Hx IHl'']; subst. apply andb_prop in H. destruct H as [H1 H2].
    apply all_complete_app; [apply Hx, H1|apply (IHl' IHl'' H2)].
  - revert H. induction items as [|[[r0 a0] x] items IHi']; intros H; cbn [flat_map]; [intros p []|].
    inversion IHi as [|? ? Hx IHi'']; subst. cbn [snd fst] in *. apply andb_prop in H. destruct H as [H1 H2]. apply andb_prop in H1. destruct H1 as [_ H1].
    apply all_complete_app; [apply all_complete_app; [apply pos_complete_allot|apply Hx, H1]|apply (IHi' IHi'' H2)].
  - apply andb_prop in H. destruct H as [Hf Hc]. intros p [<-|Hp]; [exact Hc|exact (IH Hf p Hp)].
  - apply andb_prop in H. destruct H as [Ha Hb]. intros p [<-|Hp]; [exact Ha|]. destruct b; [destruct Hp as [<-|[]]; exact Hb|contradiction].
Qed.

Lemma pos_complete_dest :
  (forall d, dest_complete d = true -> all_complete (pos_dest d)) /\ (forall k, kod_complete k = true -> all_complete (pos_kod k)).
Proof.
  apply (dest_kod_ind (fun d => dest_complete d = true -> all_complete (pos_dest d)) (fun k => kod_complete k = true -> all_complete (pos_kod k))).
  - discriminate.
  - intros e H p [<-|[]]. exact H.
  - intros r cl rem Hcl Hrem H. cbn [dest_complete pos_dest] in *. apply andb_prop in H. destruct H as [H1 H2].
    apply all_complete_app; [|apply Hrem, H2]. clear H2 Hrem.
    revert H1. induction cl as [|[[r0 ce] k] l IH]; intros H1; cbn [flat_map]; [intros p []|].
    inversion Hcl as [|? ? Hk Hcl']; subst. cbn [snd fst] in *. apply andb_prop in H1. destruct H1 as [H1 H3]. apply andb_prop in H1. destruct H1 as [Hce Hkc].
    apply all_complete_app; [|apply (IH Hcl' H3)]. intros p [<-|Hp]; [exact Hce|exact (Hk Hkc p Hp)].
  - intros r items Hit H. cbn [dest_complete pos_dest] in *.
    revert H. induction items as [|[[r0 a] k] items IH]; intros H; cbn [flat_map]; [intros p []|].
    inversion Hit as [|? ? Hk Hit']; subst. cbn [snd fst] in *. apply andb_prop in H. destruct H as [H1 H3]. apply andb_prop in H1. destruct H1 as [_ Hkc].
    apply all_complete_app; [apply all_complete_app; [apply pos_complete_allot|apply Hk, Hkc]|apply (IH Hit' H3)].
  - discriminate.
  - intros r _ p [].
  - intros d IH H. exact (IH H).
Qed.

Lemma pos_complete_sent sv : sent_complete sv = true -> all_complete (pos_sent sv).
Proof. destruct sv; cbn [sent_complete pos_sent]; intros H p Hp; try contradiction; destruct Hp as [<-|[]]; exact H. Qed.

(* a statement checked without error is acceptable to the interpreter *)
Lemma statement_sound st s s' vs :
  check_statement st s = Ok s' -> stmt_complete st = true -> noerr s' -> env_typed (cs_declared s) vs -> stmt_ok vs st.
Proof.
  unfold check_statement. destruct st as [| |f|r sv src dst|r sv a]; cbn [stmt_complete stmt_ok]; intros H Hc Hn He; try discriminate.
  - (* function call *)
    destruct (find_builtin (fc_caller f)) as [b|] eqn:Eb; [destruct (b_ctx b) eqn:Ec|].
    + destruct (fncall_resolved _ _ _ _ H Hc) as [(A & _ & _) Hlen]. specialize (Hlen Hn).
      specialize (A vs Hn He). pose proof (combine_good vs _ _ A Hc Hlen) as F2.
      destruct (statement_builtin _ _ Eb Ec) as [[Hname Hp]|[Hname Hp]]; rewrite Hp in F2.
      * right. split; [exact Hname|]. inversion F2 as [|a0 t0 l0 l0' G0 F3]; subst. inversion F3 as [|a1 t1 l1 l1' G1 F4]; subst.
        inversion F4 as [|a2 t2 l2 l2' G2 F5]; subst. inversion F5; subst. eexists _, _, _. repeat split; eassumption.
      * left. split; [exact Hname|]. inversion F2 as [|a0 t0 l0 l0' G0 F3]; subst. inversion F3 as [|a1 t1 l1 l1' G1 F4]; subst.
        inversion F4; subst. eexists _, _. repeat split; eassumption.
    + exfalso. exact (fncall_unresolved _ _ _ H Hn).
    + exfalso. exact (fncall_unresolved _ _ _ H Hn).
  - (* send *)
    apply andb_prop in Hc. destruct Hc as [Hc Hcd]. apply andb_prop in Hc. destruct Hc as [Hcs Hcsrc].
    destruct (check_sent_value sv _) as [s1| |] eqn:E1; cbn [bind] in H; try discriminate.
    destruct (check_source src s1) as [s2| |] eqn:E2; cbn [bind] in H; try discriminate.
    assert (S : sstep (pos_send sv src dst) s s').
    { unfold pos_send. eapply sstep_same_l; [|eapply sstep_app; [exact (sstep_sent _ _ _ E1)|eapply sstep_app; [exact (sstep_source _ _ _ E2)|exact (proj1 sstep_dest _ _ _ H)]]].
      vsame_tac. }
    destruct S as (A & _ & _). specialize (A vs Hn He).
    intros p Hp. apply (A p Hp).
    unfold pos_send in Hp. refine (all_complete_app _ _ (pos_complete_sent _ Hcs) (all_complete_app _ _ (pos_complete_source _ Hcsrc) (proj1 pos_complete_dest _ Hcd)) p Hp).
  - (* save *)
    apply andb_prop in Hc. destruct Hc as [Hcs Hca].
    destruct (check_sent_value sv _) as [s1| |] eqn:E1; cbn [bind] in H; try discriminate.
    assert (S : sstep (pos_sent sv ++ [(a, TypeAccount)]) s s').
    { eapply sstep_same_l; [|eapply sstep_app; [exact (sstep_sent _ _ _ E1)|exact (sstep_expr _ _ _ _ H)]]. vsame_tac. }
    destruct S as (A & _ & _). specialize (A vs Hn He). split.
    + intros p Hp. apply (A p (in_or_app _ _ _ (or_introl Hp))). exact (pos_complete_sent _ Hcs p Hp).
    + apply (A (a, TypeAccount)); [apply in_or_app; right; left; reflexivity|exact Hca].
Qed.

(* ================= statements, declarations, programs ================= *)
Lemma statements_sound vs : forall ss s s',
  check_statements ss s = Ok s' -> forallb stmt_complete ss = true -> noerr s' -> env_typed (cs_declared s) vs ->
  forall st, In st ss -> stmt_ok vs st.
Proof.
  induction ss as [|st0 ss IH]; intros s s' H Hc Hn He st Hin; [contradiction|].
  cbn [check_statements forallb] in *. apply andb_prop in Hc. destruct Hc as [Hc0 Hcs].
  destruct (check_statement st0 (set_unbounded_in_send false s)) as [s1| |] eqn:E; cbn [bind] in H; try discriminate.
  pose proof (vstep_statements _ _ _ H) as (_ & _ & _ & M).
  pose proof (vstep_statement _ _ _ E) as (_ & D1 & _ & _).
  destruct Hin as [<-|Hin].
  - exact (statement_sound _ _ _ vs E Hc0 (noerr_back _ _ M Hn) He).
  - refine (IH s1 s' H Hcs Hn _ st Hin). rewrite D1. exact He.
Qed.

Lemma alookup_aset' {A} k (v : A) m k' : alookup k' (aset k v m) = if String.eqb k' k then Some v else alookup k' m.
Proof.
  induction m as [|[k0 v0] m IH]; cbn [aset alookup].
  - destruct (String.eqb k' k); reflexivity.
  - destruct (String.eqb k k0) eqn:E; cbn [alookup].
    + apply String.eqb_eq in E. subst k0. destruct (String.eqb k' k); reflexivity.
    + destruct (String.eqb k' k0) eqn:E'.
      * apply String.eqb_eq in E'. subst k0. rewrite String.eqb_sym, E. reflexivity.
      * exact IH.
Qed.

Lemma alookup_snoc {A} k (v : A) m k' :
  alookup k' (m ++ [(k, v)]) = match alookup k' m with Some x => Some x | None => if String.eqb k' k then Some v else None end.
Proof.
  induction m as [|[k0 v0] m IH]; cbn [app alookup]; [reflexivity|]. destruct (String.eqb k' k0); [reflexivity|exact IH].
Qed.

Lemma env_typed_declare declared vs name d rt ty v :
  env_typed declared vs -> amem name declared = false ->
  vd_type d = Some (rt, ty) -> is_type_allowed ty = true -> value_type v = ty ->
  env_typed (declared ++ [(name, d)]) (aset name v vs).
Proof.
  intros He Hm Ht Ha Hv n d0 Hl. rewrite alookup_snoc in Hl. rewrite alookup_aset'.
  destruct (alookup n declared) as [d1|] eqn:E1.
  - injection Hl as <-. assert (String.eqb n name = false) as ->.
    { destruct (String.eqb n name) eqn:E; [|reflexivity]. apply String.eqb_eq in E. subst n. unfold amem in Hm. rewrite E1 in Hm. discriminate. }
    exact (He n d1 E1).
  - destruct (String.eqb n name); [|discriminate]. injection Hl as <-. eexists rt, ty, v. repeat split; assumption.
Qed.

Lemma mono_fncall f res s s' : check_fn_call_arity f res s = Ok s' -> mono s s'.
Proof. intros H. exact (proj2 (proj2 (proj2 (vstep_fncall _ _ _ _ H)))). Qed.

(* one declaration: what a check without error says, and what the interpreter then does *)
Lemma var_decl_sound sb flag raw d s s' vs rs :
  check_var_decl d s = Ok s' -> vardecl_complete d = true -> noerr s' -> env_typed (cs_declared s) vs ->
  match vd_name d, vd_type d with
  | Some (_, name), Some (_, ty) =>
      match (match vd_origin d with
             | None => match alookup name raw with
                       | None => Err (MissingVariableErr name)
                       | Some r => v <- parse_var ty r ;; Ok (v, rs)
                       end
             | Some f => handle_origin sb flag vs ty f rs
             end) with
      | Ok (v, _) => env_typed (cs_declared s') (aset name v vs)
      | Err e => ~ static_err e
      | Panic _ => True
      end
  | _, _ => True
  end.
Proof.
  unfold check_var_decl, vardecl_complete. intros H Hc Hn He.
  destruct (vd_name d) as [[rn name]|] eqn:En; [|exact I]. destruct (vd_type d) as [[rt ty]|] eqn:Et; [|exact I].
  set (s1 := if is_type_allowed ty then s else emit rt (DInvalidType ty) s) in H.
  match type of H with (bind ?m _) = _ => destruct m as [s3| |] eqn:E3 end; cbn [bind] in H; try discriminate.
  injection H as <-.
  (* no duplicate *)
  destruct (amem name (cs_declared s3)) eqn:Edup; [exfalso; exact (not_noerr_emit _ (DDuplicateVariable _) _ eq_refl Hn)|].
  assert (Hn3 : noerr s3) by exact Hn.
  (* the type is allowed *)
  assert (M13 : mono s1 s3 /\ cs_declared s3 = cs_declared s1).
  { destruct (vd_origin d) as [f|]; [|injection E3 as <-; split; [apply mono_same_diags; reflexivity|reflexivity]].
    match type of E3 with (bind ?m _) = _ => destruct m as [s2| |] eqn:E2 end; cbn [bind] in E3; try discriminate.
    pose proof (vstep_fncall _ _ _ _ E3) as (_ & D & _ & M).
    assert (V : vsame s1 s2).
    { revert E2. destruct (find_builtin (fc_caller f)) as [b|]; [destruct (b_ctx b)|]; try (intros E2; injection E2 as <-; apply vsame_refl).
      intros E2. eapply vsame_trans; [apply vsame_add_fnres|exact (vsame_assert _ _ _ _ _ E2)]. }
    destruct V as (_ & D2 & _ & M2). split; [exact (mono_trans _ _ _ M2 M)|congruence]. }
  destruct M13 as [M13 D13].
  assert (Hallowed : is_type_allowed ty = true).
  { destruct (is_type_allowed ty) eqn:Ea; [reflexivity|]. exfalso. unfold s1 in M13.
    exact (not_noerr_emit _ (DInvalidType _) _ eq_refl (noerr_back _ _ M13 Hn3)). }
  assert (Hs1 : s1 = s) by (unfold s1; now rewrite Hallowed). rewrite Hs1 in *. clear s1 Hs1.
  cbn [cs_declared]. rewrite D13.
  destruct (vd_origin d) as [f|] eqn:Eo.
  - (* origin *)
    match type of E3 with (bind ?m _) = _ => destruct m as [s2| |] eqn:E2 end; cbn [bind] in E3; try discriminate.
    destruct (find_builtin (fc_caller f)) as [b|] eqn:Eb; [destruct (b_ctx b) eqn:Ec|];
      try (exfalso; injection E2 as <-; exact (fncall_unresolved _ _ _ E3 Hn3)).
    pose proof (mono_fncall _ _ _ _ E3) as M23.
    destruct (fncall_resolved _ _ _ _ E3 Hc) as [(A & _ & _) Hlen]. specialize (Hlen Hn3).
    assert (D2 : cs_declared s2 = cs_declared s).
    { destruct (vsame_assert _ _ _ _ _ E2) as (_ & D & _ & _). exact D. }
    assert (He2 : env_typed (cs_declared s2) vs) by (rewrite D2; exact He).
    pose proof (combine_good vs _ _ (A vs Hn3 He2) Hc Hlen) as F2.
    (* the declared type agrees with what the origin returns *)
    assert (Hret : b_return b = TypeAny \/ b_return b = ty).
    { destruct (assert_has_type_spec _ _ _ _ _ E2) as [[_ Hr]|Hr]; [exact Hr|].
      exfalso. rewrite Hr in M23. exact (not_noerr_emit _ (DTypeMismatch _ _) _ eq_refl (noerr_back _ _ M23 Hn3)). }
    assert (Ho : origin_ok vs ty f).
    { split; [exact Hallowed|].
      destruct (origin_builtin _ _ Eb Ec) as [(Hname & Hp & Hr)|[(Hname & Hp & Hr)|(Hname & Hp & Hr)]]; rewrite Hp in F2;
        inversion F2 as [|a0 t0 l0 l0' G0 F3]; subst; inversion F3 as [|a1 t1 l1 l1' G1 F4]; subst; inversion F4; subst.
      - right. split; [left; exact Hname|]. split; [rewrite Hr in Hret; destruct Hret as [Hx|Hx]; [discriminate|symmetry; exact Hx]|].
        eexists _, _. repeat split; eassumption.
      - left. split; [exact Hname|]. eexists _, _. repeat split; eassumption.
      - right. split; [right; exact Hname|]. split; [rewrite Hr in Hret; destruct Hret as [Hx|Hx]; [discriminate|symmetry; exact Hx]|].
        eexists _, _. repeat split; eassumption. }
    pose proof (handle_origin_sound sb flag vs ty f rs Ho) as Hh.
    destruct (handle_origin sb flag vs ty f rs) as [[v rs']| |]; [|exact Hh|exact I].
    apply (env_typed_declare _ _ _ _ rt ty v He); [rewrite <- D13; exact Edup|exact Et|exact Hallowed|exact Hh].
  - (* a plain variable *)
    destruct (alookup name raw) as [r|]; [|cbn; intros []].
    pose proof (parse_var_sound ty r Hallowed) as Hp. destruct (parse_var ty r) as [v| |]; cbn [bind]; [|exact Hp|exact I].
    apply (env_typed_declare _ _ _ _ rt ty v He); [rewrite <- D13; exact Edup|exact Et|exact Hallowed|exact Hp].
Qed.

Lemma mono_var_decl d s s' : check_var_decl d s = Ok s' -> mono s s'.
Proof.
  unfold check_var_decl. intros H.
  match type of H with (bind ?m _) = _ => destruct m as [s3| |] eqn:E3 end; cbn [bind] in H; try discriminate.
  injection H as <-.
  assert (M1 : mono s (match vd_type d with Some (r, t) => if is_type_allowed t then s else emit r (DInvalidType t) s | None => s end)).
  { destruct (vd_type d) as [[r t]|]; [destruct (is_type_allowed t); [apply mono_same_diags; reflexivity|apply mono_emit]|apply mono_same_diags; reflexivity]. }
  assert (M2 : mono (match vd_type d with Some (r, t) => if is_type_allowed t then s else emit r (DInvalidType t) s | None => s end) s3).
  { destruct (vd_origin d) as [f|]; [|injection E3 as <-; apply mono_same_diags; reflexivity].
    match type of E3 with (bind ?m _) = _ => destruct m as [s2| |] eqn:E2 end; cbn [bind] in E3; try discriminate.
    refine (mono_trans _ _ _ _ (mono_fncall _ _ _ _ E3)).
    revert E2. destruct (find_builtin (fc_caller f)) as [b|]; [destruct (b_ctx b)|]; try (intros E2; injection E2 as <-; apply mono_same_diags; reflexivity).
    destruct (vd_name d) as [[rn nm]|]; [destruct (vd_type d) as [[rt ty]|]|]; try (intros E2; injection E2 as <-; apply mono_same_diags; reflexivity).
    intros E2. destruct (vsame_assert _ _ _ _ _ E2) as (_ & _ & _ & M). exact M. }
  refine (mono_trans _ _ _ (mono_trans _ _ _ M1 M2) _).
  destruct (vd_name d) as [[r name]|]; [|apply mono_same_diags; reflexivity]. destruct (amem name (cs_declared s3)); [apply mono_emit|apply mono_same_diags; reflexivity].
Qed.

Lemma mono_var_decls : forall ds s s', check_var_decls ds s = Ok s' -> mono s s'.
Proof.
  induction ds as [|d ds IH]; intros s s' H; cbn [check_var_decls] in H; [injection H as <-; apply mono_refl|].
  destruct (check_var_decl d s) as [s1| |] eqn:E; cbn [bind] in H; try discriminate.
  exact (mono_trans _ _ _ (mono_var_decl _ _ _ E) (IH _ _ H)).
Qed.

Lemma vars_sound sb flag raw : forall ds s s' vs rs,
  check_var_decls ds s = Ok s' -> forallb vardecl_complete ds = true -> noerr s' -> env_typed (cs_declared s) vs ->
  match parse_vars sb flag ds raw vs rs with
  | Ok (vs', _) => env_typed (cs_declared s') vs'
  | Err e => ~ static_err e
  | Panic _ => True
  end.
Proof.
  induction ds as [|d ds IH]; intros s s' vs rs H Hc Hn He; cbn [check_var_decls parse_vars forallb] in *.
  - injection H as <-. exact He.
  - apply andb_prop in Hc. destruct Hc as [Hcd Hcs].
    destruct (check_var_decl d s) as [s1| |] eqn:E; cbn [bind] in H; try discriminate.
    pose proof (var_decl_sound sb flag raw d s s1 vs rs E Hcd (noerr_back _ _ (mono_var_decls _ _ _ H) Hn) He) as Hd.
    destruct (vd_name d) as [[rn name]|]; [|exact I]. destruct (vd_type d) as [[rt ty]|]; [|exact I].
    match type of Hd with match ?m' with _ => _ end =>
      match goal with |- match (bind ?m _) with _ => _ end => change m with m' end;
      destruct m' as [[v rs']| |]
    end; cbn [bind]; [|exact Hd|exact I].
    exact (IH s1 s' _ rs' H Hcs Hn Hd).
Qed.

(* ---- C17, whole scripts ---- *)
Theorem check_program_sound p s raw sb flag :
  program_complete p = true ->
  check_default p [] = Ok s -> errors_count (cs_diags s) = O ->
  nonstatic (run_program p raw sb flag).
Proof.
  unfold program_complete, check_default, check_program. intros Hc H Hn.
  apply andb_prop in Hc. destruct Hc as [Hcv Hcs].
  destruct (check_var_decls (p_vars p) (initial_cstate [])) as [s1| |] eqn:E1; cbn [bind] in H; try discriminate.
  destruct (check_statements (p_stmts p) s1) as [s2| |] eqn:E2; cbn [bind] in H; try discriminate.
  injection H as <-.
  assert (Hn2 : noerr s2).
  { unfold noerr. rewrite fold_emit_diags, errors_count_app in Hn. lia. }
  pose proof (vstep_statements _ _ _ E2) as (_ & _ & _ & M12).
  assert (Hn1 : noerr s1) by exact (noerr_back _ _ M12 Hn2).
  assert (He0 : env_typed (cs_declared (initial_cstate [])) []) by (intros n d Hl; discriminate).
  pose proof (vars_sound sb flag raw (p_vars p) (initial_cstate []) s1 [] (mkrstate [] [] 0 []) E1 Hcv Hn1 He0) as Hv.
  unfold run_program, prepare.
  destruct (parse_vars sb flag (p_vars p) raw [] (mkrstate [] [] 0 [])) as [[vs rs1]| |]; cbn [bind nonstatic]; [|exact Hv|exact I].
  pose proof (statements_sound vs _ _ _ E2 Hcs Hn2 Hv) as Hst.
  apply nonstatic_bind.
  - apply nonstatic_bind; [apply ns_find_queries_stmts, Hst|]. intros q _.
    apply nonstatic_bind; [|intros; exact I].
    destruct (run_balances_query sb _) as [x|msg|w]; cbn [lift_store nonstatic]; [exact I|intros []|exact I].
  - intros [vs' rs2] Hp.
    assert (vs' = vs) as ->.
    { destruct (find_queries_stmts vs (p_stmts p) (rs_query rs1)); cbn [bind] in Hp; try discriminate.
      destruct (lift_store QueryBalanceError _); cbn [bind] in Hp; try discriminate. now injection Hp as <- _. }
    apply nonstatic_bind; [apply ns_run_stmts, Hst|]. intros [ps st] _. exact I.
Qed.
