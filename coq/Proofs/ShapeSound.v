(* C17, second sentence: when the checker reports nothing at all, execution does not fail because
   of the shape of a send-all source (an allotment, @world, an unbounded overdraft not enclosed in a
   `max`). Part 1: every interpreter function other than send_all never produces such an error. *)
From Coq Require Import Lia Ascii.
From NS Require Import Run Check SyntaxInd SoundnessProofs SourceProofs DestProofs.
From NS Require Import Names NamesProofs NamesScript ScriptSound CheckProofs.

Definition shape_err (e : err) : Prop :=
  match e with InvalidAllotmentInSendAll | InvalidUnboundedInSendAll _ => True | _ => False end.

Definition ns {A} (m : res A) : Prop := match m with Err e => ~ shape_err e | _ => True end.

Lemma ns_bind {A B} (m : res A) (f : A -> res B) : ns m -> (forall a, ns (f a)) -> ns (bind m f).
Proof. destruct m; cbn [bind ns]; auto. Qed.

Ltac nse := cbn [ns shape_err]; intros [].

Lemma ns_expect_account v : ns (expect_account v). Proof. destruct v; cbn; try exact I; intros []. Qed.
Lemma ns_expect_asset v : ns (expect_asset v). Proof. destruct v; cbn; try exact I; intros []. Qed.
Lemma ns_expect_string v : ns (expect_string v). Proof. destruct v; cbn; try exact I; intros []. Qed.
Lemma ns_expect_number v : ns (expect_number v). Proof. destruct v; cbn; try exact I; intros []. Qed.
Lemma ns_expect_portion v : ns (expect_portion v). Proof. destruct v; cbn; try exact I; intros []. Qed.
Lemma ns_expect_monetary v : ns (expect_monetary v). Proof. destruct v; cbn; try exact I; intros []. Qed.
Lemma ns_expect_monetary_of a v : ns (expect_monetary_of_asset a v).
Proof. unfold expect_monetary_of_asset. apply ns_bind; [apply ns_expect_monetary|]. intros [x n]. destruct (String.eqb _ _); [exact I|nse]. Qed.

Lemma ns_eval_expr vs : forall e, ns (eval_expr vs e).
Proof.
  induction e as [| | |r name|r x|r x|r name|r n|r a IHa b IHb|r n d|r op l IHl rr IHr]; cbn [eval_expr]; try exact I.
  - destruct (alookup name vs); [exact I|nse].
  - apply ns_bind; [exact IHa|]. intros va. apply ns_bind; [apply ns_expect_asset|]. intros asset.
    apply ns_bind; [exact IHb|]. intros vn. apply ns_bind; [apply ns_expect_number|]. intros; exact I.
  - destruct (d =? 0); [nse|]. destruct d; try exact I; nse.
  - destruct op; try exact I;
      (apply ns_bind; [exact IHl|]; intros vl; destruct vl; try nse;
       [apply ns_bind; [exact IHr|]; intros vr; apply ns_bind; [apply ns_expect_number|]; intros; exact I
       |apply ns_bind; [exact IHr|]; intros vr; apply ns_bind; [apply ns_expect_monetary|]; intros [a2 n2]; destruct (String.eqb _ _); [exact I|nse]]).
Qed.

Lemma ns_eval_as {A} vs e (f : value -> res A) : (forall v, ns (f v)) -> ns (eval_as vs e f).
Proof. intros H. unfold eval_as. apply ns_bind; [apply ns_eval_expr|exact H]. Qed.

Lemma ns_eval_exprs vs : forall es, ns (eval_exprs vs es).
Proof.
  induction es as [|e es IH]; cbn [eval_exprs]; [exact I|].
  apply ns_bind; [apply ns_eval_expr|]. intros v. apply ns_bind; [exact IH|]. intros; exact I.
Qed.

Lemma ns_eval_allots vs : forall items, ns (eval_allots vs items).
Proof.
  induction items as [|a items IH]; cbn [eval_allots]; [exact I|].
  apply ns_bind.
  - destruct a as [| |r n d|r name|r]; try exact I.
    + destruct d; try exact I. nse.
    + apply ns_bind; [apply ns_eval_as, ns_expect_portion|intros; exact I].
  - intros p. apply ns_bind; [exact IH|intros; exact I].
Qed.

Lemma ns_make_allotment vs n items : ns (make_allotment vs n items).
Proof.
  unfold make_allotment. apply ns_bind; [apply ns_eval_allots|]. intros aps. apply ns_bind.
  - unfold portions_of. destruct (last_remaining aps 0 None); [destruct (Qle_bool _ _)|destruct (Qeq_bool _ _)]; try exact I; nse.
  - intros ps. cbv zeta. destruct (Nat.eqb _ _); exact I.
Qed.

Section Draw.
Variable vs : env.
Variable cache : balances.
Variable asset : string.

Lemma ns_try_account e amount od sd : ns (try_sending_to_account vs cache asset e amount od sd).
Proof. unfold try_sending_to_account. apply ns_bind; [apply ns_eval_as, ns_expect_account|intros; exact I]. Qed.

Lemma ns_try_sending : forall src amount sd, ns (try_sending_up_to vs cache asset src amount sd).
Proof.
  induction src as [|e|r l IHl|r items IHi|r f c IH|r a b] using source_ind'; intros amount sd.
  - exact I.
  - apply ns_try_account.
  - rewrite try_inorder_eq. generalize amount at 2 as left. revert sd.
    induction l as [|x l IHl']; intros sd left; cbn [try_inorder]; [exact I|].
    inversion IHl as [|? ? Hx IHl'']; subst. apply ns_bind; [apply Hx|]. intros [sent sd']. apply (IHl' IHl'').
  - rewrite try_allot_eq. apply ns_bind; [apply ns_make_allotment|]. intros parts. revert parts sd.
    induction items as [|[[r0 a0] x] items IHi']; intros parts sd; cbn [try_allot]; [exact I|].
    inversion IHi as [|? ? Hx IHi'']; subst. cbn [snd] in Hx. destruct parts as [|p parts]; [exact I|].
    apply ns_bind; [apply Hx|]. intros [sent sd']. destruct (sent =? p); [apply (IHi' IHi'')|nse].
  - cbn [try_sending_up_to]. apply ns_bind; [apply ns_eval_as, ns_expect_monetary_of|]. intros cap. apply IH.
  - cbn [try_sending_up_to]. destruct b as [b|].
    + apply ns_bind; [apply ns_eval_as, ns_expect_monetary_of|]. intros cap. apply ns_try_account.
    + apply ns_try_account.
Qed.
End Draw.

Lemma ns_receive vs asset :
  (forall d amount rcv, ns (receive_from vs asset d amount rcv)) /\ (forall k amount rcv, ns (receive_kod vs asset k amount rcv)).
Proof.
  apply (dest_kod_ind (fun d => forall amount rcv, ns (receive_from vs asset d amount rcv)) (fun k => forall amount rcv, ns (receive_kod vs asset k amount rcv))).
  - intros; exact I.
  - intros e amount rcv. cbn [receive_from]. apply ns_bind; [apply ns_eval_as, ns_expect_account|intros; exact I].
  - intros r cl rem Hcl Hrem amount rcv. rewrite recv_inorder_eq. revert amount rcv.
    induction cl as [|[[r0 ce] k] l IH]; intros amount rcv; cbn [recv_inorder].
    + destruct (amount =? 0); [exact I|apply Hrem].
    + inversion Hcl as [|? ? Hk Hcl']; subst. cbn [snd] in Hk.
      apply ns_bind; [apply ns_eval_as, ns_expect_monetary_of|]. intros cap.
      destruct (amount =? 0); [exact I|]. cbv zeta. destruct (_ =? 0); [apply (IH Hcl')|].
      apply ns_bind; [apply Hk|]. intros rcv'. apply (IH Hcl').
  - intros r items Hit amount rcv. rewrite recv_allot_eq. apply ns_bind; [apply ns_make_allotment|]. intros parts. revert parts rcv.
    induction items as [|[[r0 a0] k] items IH]; intros parts rcv; cbn [recv_allot]; [exact I|].
    inversion Hit as [|? ? Hk Hit']; subst. cbn [snd] in Hk. destruct parts as [|p parts]; [exact I|].
    apply ns_bind; [apply Hk|]. intros rcv'. apply (IH Hit').
  - intros; exact I.
  - intros; exact I.
  - intros d IH amount rcv. cbn [receive_kod]. apply IH.
Qed.

Lemma ns_find_queries vs asset : forall src q, ns (find_queries vs asset src q).
Proof.
  induction src as [|e|r l IHl|r items IHi|r f c IH|r a b] using source_ind'; intros q; cbn [find_queries].
  - exact I.
  - apply ns_bind; [apply ns_eval_as, ns_expect_account|intros; exact I].
  - revert q. induction l as [|x l IHl']; intros q; [exact I|]. inversion IHl as [|? ? Hx IHl'']; subst.
    apply ns_bind; [apply Hx|]. intros q'. apply (IHl' IHl'').
  - revert q. induction items as [|[[r0 a0] x] items IHi']; intros q; [exact I|]. inversion IHi as [|? ? Hx IHi'']; subst. cbn [snd] in Hx.
    apply ns_bind; [apply Hx|]. intros q'. apply (IHi' IHi'').
  - apply IH.
  - destruct b; [|exact I]. apply ns_bind; [apply ns_eval_as, ns_expect_account|intros; exact I].
Qed.

Lemma ns_eval_sent vs sv : ns (eval_sent_amt vs sv).
Proof.
  destruct sv; cbn [eval_sent_amt]; [exact I| |].
  - apply ns_bind; [apply ns_eval_as, ns_expect_monetary|]. intros [a n]. exact I.
  - apply ns_bind; [apply ns_eval_as, ns_expect_asset|]. intros; exact I.
Qed.

Lemma ns_find_queries_stmts vs : forall ss q, ns (find_queries_stmts vs ss q).
Proof.
  induction ss as [|s ss IH]; intros q; cbn [find_queries_stmts]; [exact I|].
  apply ns_bind; [|intros q'; apply IH].
  destruct s as [| |f|r sv src dst|r sv a]; cbn [find_queries_stmt]; try exact I.
  - apply ns_bind; [apply ns_eval_sent|]. intros [asset amt]. apply ns_find_queries.
  - apply ns_bind; [apply ns_eval_sent|]. intros [asset amt]. apply ns_bind; [apply ns_eval_as, ns_expect_account|intros; exact I].
Qed.

Lemma ns_parse_var ty raw : ns (parse_var ty raw).
Proof.
  unfold parse_var.
  destruct (String.eqb ty TypeMonetary).
  { unfold parse_monetary. destruct (split_on " "%char raw) as [|a [|b [|? ?]]]; try nse. destruct (parse_int b); [exact I|nse]. }
  destruct (String.eqb ty TypeAccount); [destruct (valid_account_name raw); [exact I|nse]|].
  destruct (String.eqb ty TypePortion).
  { unfold parse_portion. destruct (parse_portion_text raw); [destruct (_ && _); [exact I|nse]|nse]. }
  destruct (String.eqb ty TypeAsset); [exact I|].
  destruct (String.eqb ty TypeNumber); [destruct (parse_int raw); [exact I|nse]|].
  destruct (String.eqb ty TypeString); [exact I|nse].
Qed.

Lemma ns_two_args {A B} args (ea : value -> res A) (eb : value -> res B) :
  (forall v, ns (ea v)) -> (forall v, ns (eb v)) -> ns (two_args args ea eb).
Proof.
  intros Ha Hb. unfold two_args. destruct args as [|a [|b [|? ?]]]; try nse.
  apply ns_bind; [apply Ha|]. intros x. apply ns_bind; [apply Hb|intros; exact I].
Qed.

Lemma ns_get_balance sb a c rs : ns (get_balance sb a c rs).
Proof.
  unfold get_balance. apply ns_bind; [|intros; exact I].
  destruct (run_balances_query sb _); cbn [lift_store]; [exact I|nse|exact I].
Qed.

Lemma ns_handle_origin sb flag vs ty f rs : ns (handle_origin sb flag vs ty f rs).
Proof.
  unfold handle_origin. apply ns_bind; [apply ns_eval_exprs|]. intros args.
  destruct (String.eqb (fc_caller f) FnVarOriginMeta).
  { apply ns_bind; [apply ns_two_args; [apply ns_expect_account|apply ns_expect_string]|]. intros [account key].
    destruct (sb _ _); try exact I; [|nse]. destruct (alookup account m); [|nse]. destruct (alookup key l); [|nse].
    apply ns_bind; [apply ns_parse_var|intros; exact I]. }
  destruct (String.eqb (fc_caller f) FnVarOriginBalance).
  { apply ns_bind; [apply ns_two_args; [apply ns_expect_account|apply ns_expect_asset]|]. intros [account asset].
    apply ns_bind; [apply ns_get_balance|]. intros [b rs']. destruct (b <? 0); [nse|exact I]. }
  destruct (String.eqb (fc_caller f) FnVarOriginOverdraft); [|nse].
  destruct (negb flag); [nse|].
  apply ns_bind; [apply ns_two_args; [apply ns_expect_account|apply ns_expect_asset]|]. intros [account asset].
  apply ns_bind; [apply ns_get_balance|]. intros [b rs']. exact I.
Qed.

Lemma ns_parse_vars sb flag raw : forall ds vs rs, ns (parse_vars sb flag ds raw vs rs).
Proof.
  induction ds as [|d ds IH]; intros vs rs; cbn [parse_vars]; [exact I|].
  destruct (vd_name d) as [[rn name]|]; [|exact I]. destruct (vd_type d) as [[rt ty]|]; [|exact I].
  apply ns_bind; [|intros [v rs']; apply IH].
  destruct (vd_origin d); [apply ns_handle_origin|].
  destruct (alookup name raw); [|nse]. apply ns_bind; [apply ns_parse_var|intros; exact I].
Qed.

Lemma ns_run_save vs sv a st : ns (run_save vs sv a st).
Proof.
  unfold run_save. apply ns_bind; [apply ns_eval_sent|]. intros [asset amt].
  apply ns_bind; [apply ns_eval_as, ns_expect_account|]. intros account.
  destruct amt as [n|]; [destruct (n <? 0); [nse|exact I]|exact I].
Qed.

Lemma ns_fn_stmt vs f st : ns (run_stmt vs (StFnCall f) st).
Proof.
  cbn [run_stmt]. apply ns_bind; [apply ns_eval_exprs|]. intros args.
  destruct (String.eqb (fc_caller f) FnSetTxMeta).
  { apply ns_bind; [|intros; exact I]. unfold set_tx_meta. destruct args as [|k [|v [|? ?]]]; try nse.
    apply ns_bind; [apply ns_expect_string|intros; exact I]. }
  destruct (String.eqb (fc_caller f) FnSetAccountMeta); [|nse].
  apply ns_bind; [|intros; exact I]. unfold set_account_meta. destruct args as [|x [|k [|v [|? ?]]]]; try nse.
  apply ns_bind; [apply ns_expect_account|]. intros account. apply ns_bind; [apply ns_expect_string|intros; exact I].
Qed.

(* ================= Part 2: the checker's send-all shape check ================= *)

Definition us (s : cstate) := cs_unbounded_send s.
Definition len (s : cstate) := List.length (cs_diags s).

Lemma us_assert r req act s s' : assert_has_type (Some r) req act s = Ok s' -> us s' = us s.
Proof. intros H. destruct (assert_has_type_spec _ _ _ _ _ H) as [[-> _]| ->]; reflexivity. Qed.

Lemma us_expr : forall e t s s', check_expression e t s = Ok s' -> us s' = us s.
Proof.
  induction e as [| | |r name|r x|r x|r name|r n|r a IHa b IHb|r n d|r op l IHl rr IHr]; intros t s s' H; cbn [check_expression] in H;
    try discriminate; try (injection H as <-; reflexivity); try (eapply us_assert; eassumption).
  - unfold assert_has_type in H. destruct (_ || _); [injection H as <-; reflexivity|discriminate].
  - cbv zeta in H. destruct (alookup name (cs_declared s)) as [d0|].
    + destruct (vd_type d0) as [[? ty]|]; [destruct (is_type_allowed ty)|]; try (injection H as <-; reflexivity).
      rewrite (us_assert _ _ _ _ _ H). reflexivity.
    + injection H as <-. reflexivity.
  - destruct (assert_has_type (Some r) t TypeMonetary s) as [s1| |] eqn:E1; cbn [bind] in H; try discriminate.
    destruct (check_expression a TypeAsset s1) as [s2| |] eqn:E2; cbn [bind] in H; try discriminate.
    rewrite (IHb _ _ _ H), (IHa _ _ _ E2). exact (us_assert _ _ _ _ _ E1).
  - destruct (String.eqb t TypeNumber || String.eqb t TypeMonetary).
    + destruct (check_expression l t s) as [s1| |] eqn:E1; cbn [bind] in H; try discriminate.
      rewrite (IHr _ _ _ H). exact (IHl _ _ _ E1).
    + cbv zeta in H.
      match type of H with context [assert_has_type (Some r) t ?ty s] => destruct (assert_has_type (Some r) t ty s) as [s0| |] eqn:E0 end; cbn [bind] in H; try discriminate.
      match type of H with context [check_expression l ?ty s0] => destruct (check_expression l ty s0) as [s1| |] eqn:E1 end; cbn [bind] in H; try discriminate.
      rewrite (IHr _ _ _ H), (IHl _ _ _ E1). exact (us_assert _ _ _ _ _ E0).
Qed.

Lemma len_mono s s' : mono s s' -> (len s <= len s')%nat.
Proof. intros H. apply mono_le in H. exact (proj2 H). Qed.

(* a literal @world and nothing else evaluates to the account world, when no variable is bound to it *)
Definition no_world_env (vs : env) : Prop := forall n, alookup n vs <> Some (VAccount WORLD).

Lemma eval_world vs e : no_world_env vs -> eval_as vs e expect_account = Ok WORLD -> exists r, e = EAccount r WORLD.
Proof.
  intros Hn. unfold eval_as. destruct e; cbn [eval_expr bind expect_account]; try discriminate.
  - destruct (alookup name vs) as [v|] eqn:E; cbn [bind]; [|discriminate]. destruct v; cbn [expect_account]; try discriminate.
    intros H. injection H as ->. exfalso. exact (Hn _ E).
  - intros H. injection H as ->. eexists; reflexivity.
  - destruct (eval_expr vs e1) as [v1| |]; cbn [bind]; try discriminate. destruct (expect_asset v1); cbn [bind]; try discriminate.
    destruct (eval_expr vs e2) as [v2| |]; cbn [bind]; try discriminate. destruct (expect_number v2); cbn [bind expect_account]; discriminate.
  - destruct (den =? 0); [discriminate|]. destruct den; cbn [bind expect_account]; discriminate.
  - destruct op; try discriminate;
      (destruct (eval_expr vs e1) as [v1| |]; cbn [bind]; try discriminate; destruct v1; try discriminate;
       [destruct (eval_expr vs e2) as [v2| |]; cbn [bind]; try discriminate; destruct (expect_number v2); cbn [bind expect_account]; discriminate
       |destruct (eval_expr vs e2) as [v2| |]; cbn [bind]; try discriminate; destruct (expect_monetary v2) as [[a2 n2]| |]; cbn [bind]; try discriminate;
        destruct (String.eqb _ _); cbn [expect_account]; discriminate]).
Qed.

Lemma sendall_account_ns vs cache asset e od0 sd :
  no_world_env vs -> (forall r, e <> EAccount r WORLD) -> ns (send_all_to_account vs cache asset e (Some od0) sd).
Proof.
  intros Hn He. unfold send_all_to_account.
  pose proof (ns_eval_as vs e expect_account ns_expect_account) as Hns.
  destruct (eval_as vs e expect_account) as [account| |] eqn:Ea; cbn [bind]; [|exact Hns|exact I].
  destruct (String.eqb account WORLD) eqn:Ew; [|exact I].
  apply String.eqb_eq in Ew. subst account. destruct (eval_world vs e Hn Ea) as [r ->]. exfalso. exact (He r eq_refl).
Qed.

Lemma us_prelude (o : option range) s s0 :
  (if cs_unbounded_in_send s
   then match o with
        | Some r => Ok (emit r DUnboundedAccountIsNotLast s)
        | None => Panic "checkSource: GetRange on a source without expression"
        end
   else Ok s) = (Ok s0 : result unit cstate) -> us s0 = us s.
Proof. destruct (cs_unbounded_in_send s); [destruct o; [|discriminate]|]; intros H; injection H as <-; reflexivity. Qed.

Lemma us_with_capped f s s' : with_capped f s = Ok s' -> us s' = us s.
Proof. unfold with_capped. destruct (f _); cbn [bind]; try discriminate. intros H. injection H as <-. reflexivity. Qed.

Lemma us_bad_sum sum rng rem vars s : us (check_bad_allotment_sum sum rng rem vars s) = us s.
Proof.
  unfold check_bad_allotment_sum. destruct (Qcompare sum 1).
  - assert (G : forall l s0, us (fold_left (fun acc r => emit r (DFixedPortionVariable 0) acc) l s0) = us s0)
      by (induction l as [|x l IH]; intros; cbn [fold_left]; [reflexivity|rewrite IH; reflexivity]).
    destruct rem; cbn [emit us cs_unbounded_send]; rewrite G; reflexivity.
  - destruct rem; [reflexivity|]. destruct vars as [|v [|v2 vs]]; reflexivity.
  - reflexivity.
Qed.

Lemma us_allot_clause a is_last whole acc s acc' s' : check_allot_clause a is_last whole acc s = Ok (acc', s') -> us s' = us s.
Proof.
  destruct a as [| |r n d|r name|r]; cbn [check_allot_clause]; intros H; try discriminate.
  - injection H as _ <-. reflexivity.
  - destruct (q_of_ratio n d); injection H as _ <-; reflexivity.
  - destruct (check_expression (EVar r name) TypePortion s) as [s1| |] eqn:E; cbn [bind] in H; try discriminate.
    injection H as _ <-. exact (us_expr _ _ _ _ E).
  - destruct is_last; injection H as _ <-; reflexivity.
Qed.

Lemma us_source : forall src s s', check_source src s = Ok s' -> us s' = us s.
Proof.
  induction src as [|e|r l IHl|r items IHi|r f c IH|r a b] using source_ind'; intros s s' H.
  - injection H as <-. reflexivity.
  - cbn [check_source] in H.
    match type of H with (bind ?pre _) = _ => destruct pre as [s0| |] eqn:Ep end; cbn [bind] in H; try discriminate.
    apply us_prelude in Ep.
    destruct (check_expression e TypeAccount s0) as [s1| |] eqn:E1; cbn [bind] in H; try discriminate.
    pose proof (us_expr _ _ _ _ E1) as U1.
    destruct e; try (injection H as <-; congruence).
    injection H as <-. cbn [set_emptied us cs_unbounded_send].
    repeat match goal with |- context [if ?c then _ else _] => destruct c end; cbn [emit set_unbounded_in_send cs_unbounded_send]; unfold us in *; congruence.
  - cbn [check_source] in H.
    match type of H with (bind ?pre _) = _ => destruct pre as [s0| |] eqn:Ep end; cbn [bind] in H; try discriminate.
    apply us_prelude in Ep. rewrite <- Ep. clear Ep s. revert s0 H.
    induction l as [|x l IHl']; intros s0 H; [injection H as <-; reflexivity|].
    inversion IHl as [|? ? Hx IHl'']; subst.
    destruct (check_source x s0) as [s1| |] eqn:E1; cbn [bind] in H; try discriminate.
    rewrite (IHl' IHl'' _ H). exact (Hx _ _ E1).
  - cbn [check_source] in H.
    match type of H with (bind ?pre _) = _ => destruct pre as [s0| |] eqn:Ep end; cbn [bind] in H; try discriminate.
    apply us_prelude in Ep. rewrite <- Ep. clear Ep s.
    match type of H with (bind ?loop _) = _ => destruct loop as [[acc s2]| |] eqn:El end; cbn [bind] in H; try discriminate.
    injection H as <-. rewrite us_bad_sum.
    assert (U0 : us (if cs_unbounded_send s0 then emit r DNoAllotmentInSendAll s0 else s0) = us s0) by (destruct (cs_unbounded_send s0); reflexivity).
    rewrite <- U0. revert El. generalize (mkacc 0 None []) as acc0. generalize (if cs_unbounded_send s0 then emit r DNoAllotmentInSendAll s0 else s0) as s1.
    induction items as [|[[r0 a0] x] items IHi']; intros s1 acc0 El.
    + injection El as _ <-. reflexivity.
    + inversion IHi as [|? ? Hx IHi'']; subst.
      destruct (check_allot_clause a0 _ r acc0 s1) as [[acc1 s1']| |] eqn:Ec; cbn [bind] in El; try discriminate.
      destruct (with_capped (check_source x) s1') as [s1''| |] eqn:Ew; cbn [bind] in El; try discriminate.
      rewrite (IHi' IHi'' _ _ El), (us_with_capped _ _ _ Ew). exact (us_allot_clause _ _ _ _ _ _ _ Ec).
  - cbn [check_source] in H.
    match type of H with (bind ?pre _) = _ => destruct pre as [s0| |] eqn:Ep end; cbn [bind] in H; try discriminate.
    apply us_prelude in Ep. rewrite (us_with_capped _ _ _ H). exact Ep.
  - cbn [check_source] in H.
    match type of H with (bind ?pre _) = _ => destruct pre as [s0| |] eqn:Ep end; cbn [bind] in H; try discriminate.
    apply us_prelude in Ep. rewrite <- Ep. clear Ep s.
    match type of H with (bind ?m _) = _ => destruct m as [s3| |] eqn:E3 end; cbn [bind] in H; try discriminate.
    assert (U3 : us s3 = us s0).
    { revert E3. match goal with |- (if ?c then _ else _) = _ -> _ => destruct c end.
      - destruct (expr_range a); [|discriminate]. intros E3. injection E3 as <-. destruct b; destruct a; cbn [emit set_unbounded_in_send us cs_unbounded_send];
          repeat match goal with |- context [if ?c then _ else _] => destruct c end; reflexivity.
      - intros E3. injection E3 as <-. destruct b; destruct a; cbn [emit set_unbounded_in_send us cs_unbounded_send];
          repeat match goal with |- context [if ?c then _ else _] => destruct c end; reflexivity. }
    destruct (check_expression a TypeAccount s3) as [s4| |] eqn:E4; cbn [bind] in H; try discriminate.
    destruct b as [b|].
    + rewrite (us_expr _ _ _ _ H), (us_expr _ _ _ _ E4). exact U3.
    + injection H as <-. rewrite (us_expr _ _ _ _ E4). exact U3.
Qed.

Lemma len_vstep us0 s s' : vstep us0 s s' -> (len s <= len s')%nat.
Proof. intros (_ & _ & _ & M). exact (len_mono _ _ M). Qed.
Lemma len_vsame s s' : vsame s s' -> (len s <= len s')%nat.
Proof. intros (_ & _ & _ & M). exact (len_mono _ _ M). Qed.
Lemma len_emit r k s : len (emit r k s) = S (len s).
Proof. unfold len. cbn [emit cs_diags]. rewrite app_length. cbn. lia. Qed.

(* the checker found nothing to say about a send-all source: its draw has no shape failure *)
Lemma shape_source vs cache asset : no_world_env vs ->
  forall src s s' sd, check_source src s = Ok s' -> us s = true -> len s' = len s -> ns (send_all vs cache asset src sd).
Proof.
  intros Hn. induction src as [|e|r l IHl|r items IHi|r f c IH|r a b] using source_ind'; intros s s' sd H Hu Hl.
  - exact I.
  - (* account *)
    cbn [send_all]. apply (sendall_account_ns vs cache asset e 0 sd Hn). intros r0 ->.
    cbn [check_source] in H.
    match type of H with (bind ?pre _) = _ => destruct pre as [s0| |] eqn:Ep end; cbn [bind] in H; try discriminate.
    pose proof Ep as L0. apply prelude_same, len_vsame in L0. apply us_prelude in Ep.
    destruct (check_expression (EAccount r0 WORLD) TypeAccount s0) as [s1| |] eqn:E1; cbn [bind] in H; try discriminate.
    pose proof (len_vstep _ _ _ (vstep_expr _ _ _ _ E1)) as L1. pose proof (us_expr _ _ _ _ E1) as U1.
    injection H as <-. change (String.eqb WORLD "world") with true in Hl. cbn [andb negb] in Hl.
    unfold us in *. rewrite U1, Ep, Hu in Hl. cbn [andb] in Hl. unfold len in Hl, L0, L1. cbn [set_emptied cs_diags] in Hl.
    rewrite Bool.andb_false_r in Hl. cbn [emit cs_diags] in Hl. rewrite app_length in Hl. cbn [List.length] in Hl. lia.
  - (* in order *)
    rewrite send_all_inorder_eq. cbn [check_source] in H.
    match type of H with (bind ?pre _) = _ => destruct pre as [s0| |] eqn:Ep end; cbn [bind] in H; try discriminate.
    pose proof Ep as L0. apply prelude_same, len_vsame in L0. apply us_prelude in Ep.
    assert (U0 : us s0 = true) by congruence.
    assert (Hl0 : (len s' <= len s0)%nat) by lia. clear Hl L0 Ep Hu s.
    generalize 0 as total. revert s0 sd H U0 Hl0.
    induction l as [|x l IHl']; intros s0 sd H U0 Hl0 total; cbn [send_all_inorder]; [exact I|].
    inversion IHl as [|? ? Hx IHl'']; subst.
    destruct (check_source x s0) as [s1| |] eqn:E1; cbn [bind] in H; try discriminate.
    pose proof (len_vstep _ _ _ (vstep_source _ _ _ E1)) as L1.
    assert (Lr : (len s1 <= len s')%nat).
    { clear -H. revert s1 H. induction l as [|y l IH]; intros s1 H; [injection H as <-; apply le_n|].
      destruct (check_source y s1) as [s2| |] eqn:E2; cbn [bind] in H; try discriminate.
      exact (Nat.le_trans _ _ _ (len_vstep _ _ _ (vstep_source _ _ _ E2)) (IH _ H)). }
    apply ns_bind; [apply (Hx s0 s1 sd E1 U0); lia|]. intros [sent sd'].
    apply (IHl' IHl'' s1 sd' H); [rewrite (us_source _ _ _ E1); exact U0|lia].
  - (* allotment: the checker always says something *)
    exfalso. cbn [check_source] in H.
    match type of H with (bind ?pre _) = _ => destruct pre as [s0| |] eqn:Ep end; cbn [bind] in H; try discriminate.
    pose proof Ep as L0. apply prelude_same, len_vsame in L0. apply us_prelude in Ep.
    assert (U0 : cs_unbounded_send s0 = true) by (unfold us in *; congruence). rewrite U0 in H.
    match type of H with (bind ?loop _) = _ => destruct loop as [[acc s2]| |] eqn:El end; cbn [bind] in H; try discriminate.
    injection H as <-.
    assert (L2 : (len (emit r DNoAllotmentInSendAll s0) <= len s2)%nat).
    { revert El. generalize (mkacc 0 None []) as acc0. generalize (emit r DNoAllotmentInSendAll s0) as s1. clear.
      induction items as [|[[r0 a0] x] items IH]; intros s1 acc0 El; [injection El as _ <-; apply le_n|].
      destruct (check_allot_clause a0 _ r acc0 s1) as [[acc1 s1']| |] eqn:Ec; cbn [bind] in El; try discriminate.
      destruct (with_capped (check_source x) s1') as [s1''| |] eqn:Ew; cbn [bind] in El; try discriminate.
      refine (Nat.le_trans _ _ _ (len_vstep _ _ _ (vstep_allot_clause _ _ _ _ _ _ _ Ec)) _).
      refine (Nat.le_trans _ _ _ (len_vstep _ _ _ (vstep_with_capped _ _ _ _ (fun sa sb Hab => vstep_source x sa sb Hab) Ew)) _).
      exact (IH _ _ El). }
    pose proof (len_vsame _ _ (vsame_bad_allotment (aa_sum acc) r (aa_remaining acc) (aa_vars acc) s2)) as L3.
    rewrite len_emit in L2. lia.
  - (* capped: the draw inside a cap has no shape restriction *)
    cbn [send_all]. apply ns_bind; [apply ns_eval_as, ns_expect_monetary_of|]. intros cap. apply ns_try_sending.
  - (* overdraft *)
    cbn [check_source] in H.
    match type of H with (bind ?pre _) = _ => destruct pre as [s0| |] eqn:Ep end; cbn [bind] in H; try discriminate.
    pose proof Ep as L0. apply prelude_same, len_vsame in L0. apply us_prelude in Ep.
    assert (U0 : cs_unbounded_send s0 = true) by (unfold us in *; congruence).
    match type of H with (bind ?m _) = _ => destruct m as [s3| |] eqn:E3 end; cbn [bind] in H; try discriminate.
    destruct (check_expression a TypeAccount s3) as [s4| |] eqn:E4; cbn [bind] in H; try discriminate.
    pose proof (len_vstep _ _ _ (vstep_expr _ _ _ _ E4)) as L4.
    destruct b as [b|].
    + pose proof (len_vstep _ _ _ (vstep_expr _ _ _ _ H)) as L5.
      cbn [send_all]. apply ns_bind; [apply ns_eval_as, ns_expect_monetary_of|]. intros cap.
      apply (sendall_account_ns vs cache asset a cap sd Hn). intros r0 ->. exfalso.
      rewrite Bool.andb_false_r in E3. injection E3 as <-. change (String.eqb WORLD "world") with true in L4.
      rewrite len_emit in L4. lia.
    + exfalso. injection H as <-. revert E3.
      assert (Hc : (cs_unbounded_send (set_unbounded_in_send (negb (is_interface_nil a))
                      (match a with EAccount r0 name => if String.eqb name "world" then emit r0 DInvalidWorldOverdraft s0 else s0 | _ => s0 end)) && true) = true).
      { rewrite Bool.andb_true_r. destruct a; try exact U0. destruct (String.eqb _ _); exact U0. }
      rewrite Hc. destruct (expr_range a); [|discriminate]. intros E3. injection E3 as <-.
      rewrite len_emit in L4.
      assert (L1 : (len s0 <= len (set_unbounded_in_send (negb (is_interface_nil a))
                      (match a with EAccount r0 name => if String.eqb name "world" then emit r0 DInvalidWorldOverdraft s0 else s0 | _ => s0 end)))%nat).
      { unfold len. cbn [set_unbounded_in_send cs_diags]. destruct a; try apply le_n. destruct (String.eqb _ _); [cbn [emit cs_diags]; rewrite app_length; lia|apply le_n]. }
      lia.
Qed.

(* ---- statements ---- *)
Lemma len_statement st s s' : check_statement st s = Ok s' -> (len s <= len s')%nat.
Proof. intros H. exact (len_vstep _ _ _ (vstep_statement _ _ _ H)). Qed.

Lemma shape_statement vs st s s' state : no_world_env vs ->
  check_statement st s = Ok s' -> len s' = len s -> ns (run_stmt vs st state).
Proof.
  intros Hn H Hl. destruct st as [| |f|r sv src dst|r sv a]; try exact I.
  - apply ns_fn_stmt.
  - (* send *)
    cbn [run_stmt]. unfold run_send. apply ns_bind.
    + unfold send_lists. destruct sv as [|rs m|rs x]; [exact I| |].
      * apply ns_bind; [apply ns_eval_as, ns_expect_monetary|]. intros [asset amt]. destruct (amt <? 0); [nse|].
        apply ns_bind; [unfold try_sending_exact; apply ns_bind; [apply ns_try_sending|]; intros [sent sd']; destruct (_ =? _); [exact I|nse]|].
        intros sd. apply ns_bind; [apply (proj1 (ns_receive vs asset))|intros; exact I].
      * apply ns_bind; [apply ns_eval_as, ns_expect_asset|]. intros asset.
        apply ns_bind; [|intros [sent sd]; apply ns_bind; [apply (proj1 (ns_receive vs asset))|intros; exact I]].
        (* the send-all draw: here the checker's silence matters *)
        unfold check_statement in H. cbn [check_sent_value] in H.
        set (s0 := set_unbounded_send true (set_emptied [] s)) in H.
        destruct (check_expression x TypeAsset s0) as [s1| |] eqn:E1; cbn [bind] in H; try discriminate.
        destruct (check_source src s1) as [s2| |] eqn:E2; cbn [bind] in H; try discriminate.
        pose proof (len_vstep _ _ _ (vstep_expr _ _ _ _ E1)) as L1.
        pose proof (len_vstep _ _ _ (vstep_source _ _ _ E2)) as L2.
        pose proof (len_vstep _ _ _ (proj1 vstep_dest _ _ _ H)) as L3.
        assert (L0 : len s0 = len s) by reflexivity.
        apply (shape_source vs (st_cache state) asset Hn src s1 s2 [] E2); [rewrite (us_expr _ _ _ _ E1); reflexivity|lia].
    + intros [[asset sd] rcv]. unfold get_postings. destruct (reconcile asset sd rcv); exact I.
  - apply ns_run_save.
Qed.

Lemma len_statements : forall ss s s', check_statements ss s = Ok s' -> (len s <= len s')%nat.
Proof. intros ss s s' H. exact (len_vstep _ _ _ (vstep_statements _ _ _ H)). Qed.

Lemma shape_statements vs : no_world_env vs -> forall ss s s' state,
  check_statements ss s = Ok s' -> len s' = len s -> ns (run_stmts vs ss state).
Proof.
  intros Hn. induction ss as [|st ss IH]; intros s s' state H Hl; cbn [run_stmts]; [exact I|].
  cbn [check_statements] in H.
  destruct (check_statement st (set_unbounded_in_send false s)) as [s1| |] eqn:E; cbn [bind] in H; try discriminate.
  pose proof (len_statement _ _ _ E) as L1. pose proof (len_statements _ _ _ H) as L2.
  assert (L0 : len (set_unbounded_in_send false s) = len s) by reflexivity.
  apply ns_bind; [apply (shape_statement vs st _ s1 state Hn E); lia|]. intros [ps st1].
  apply ns_bind; [apply (IH s1 s' st1 H); lia|]. intros [ps' st2]. exact I.
Qed.

(* ---- C17, second sentence ---- *)
Theorem check_silent_no_shape_failure p s raw sb flag :
  check_default p [] = Ok s -> cs_diags s = [] ->
  (forall vs rs, prepare p raw sb flag = Ok (vs, rs) -> no_world_env vs) ->
  ns (run_program p raw sb flag).
Proof.
  unfold check_default, check_program. intros H Hd Hw.
  destruct (check_var_decls (p_vars p) (initial_cstate [])) as [s1| |] eqn:E1; cbn [bind] in H; try discriminate.
  destruct (check_statements (p_stmts p) s1) as [s2| |] eqn:E2; cbn [bind] in H; try discriminate.
  injection H as <-. rewrite fold_emit_diags in Hd. apply app_eq_nil in Hd. destruct Hd as [Hd2 _].
  assert (L2 : len s2 = O) by (unfold len; now rewrite Hd2).
  pose proof (len_statements _ _ _ E2) as L12.
  unfold run_program.
  destruct (prepare p raw sb flag) as [[vs rs2]| |] eqn:Ep; cbn [bind ns].
  - apply ns_bind; [|intros [ps st]; exact I].
    apply (shape_statements vs (Hw vs rs2 eq_refl) (p_stmts p) s1 s2 _ E2). lia.
  - (* preparation never fails with a shape error *)
    revert Ep. unfold prepare.
    pose proof (ns_parse_vars sb flag raw (p_vars p) [] (mkrstate [] [] 0 [])) as Hv.
    destruct (parse_vars sb flag (p_vars p) raw [] (mkrstate [] [] 0 [])) as [[vs rs1]| |]; cbn [bind]; [|intros Ep; injection Ep as <-; exact Hv|discriminate].
    pose proof (ns_find_queries_stmts vs (p_stmts p) (rs_query rs1)) as Hq.
    destruct (find_queries_stmts vs (p_stmts p) (rs_query rs1)) as [q| |]; cbn [bind]; [|intros Ep; injection Ep as <-; exact Hq|discriminate].
    destruct (run_balances_query sb _) as [x|msg|w]; cbn [lift_store bind]; try discriminate. intros Ep. injection Ep as <-. intros [].
  - exact I.
Qed.
