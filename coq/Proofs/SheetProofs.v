(* C10, part 2: against any store faithful to the sheets (B, M), the preparation phase of the
   model (variable origins, batched balance queries, cache) computes the variables [sheet_prepare]
   computes and ends with a cache that answers every read like [canon_cache] of the requested
   cells. With Proofs/CacheExt.v: run_program against a faithful store = run_sheet. *)
From Coq Require Import Lia.
From NS Require Import Run SyntaxInd LedgerProofs StoreProofs SheetRun CacheExt.

(* ---- association lists ---- *)
Lemma alookup_aset {A} k (v : A) m k' : alookup k' (aset k v m) = if String.eqb k' k then Some v else alookup k' m.
Proof.
  induction m as [|[k0 v0] m IH]; cbn [aset alookup].
  - destruct (String.eqb k' k); reflexivity.
  - destruct (String.eqb k k0) eqn:E; cbn [alookup].
    + apply String.eqb_eq in E. subst k0. destruct (String.eqb k' k); reflexivity.
    + destruct (String.eqb k' k0) eqn:E'.
      * apply String.eqb_eq in E'. subst k0. rewrite String.eqb_sym, E. reflexivity.
      * exact IH.
Qed.

Lemma aset_keys_in {A} k (v : A) m x : In x (map fst (aset k v m)) -> x = k \/ In x (map fst m).
Proof.
  induction m as [|[k0 v0] m IH]; cbn [aset map fst In].
  - intros [<-|[]]; left; reflexivity.
  - destruct (String.eqb k k0) eqn:E; cbn [map fst In].
    + intros [<-|H]; [left; reflexivity|right; right; exact H].
    + intros [<-|H]; [right; left; reflexivity|]. destruct (IH H) as [G|G]; [left; exact G|right; right; exact G].
Qed.

Lemma aset_nodup {A} k (v : A) m : NoDup (map fst m) -> NoDup (map fst (aset k v m)).
Proof.
  induction m as [|[k0 v0] m IH]; cbn [aset map fst]; intros H.
  - constructor; [intros []|constructor].
  - inversion H as [|? ? Hn Hd]; subst. destruct (String.eqb k k0) eqn:E; cbn [map fst].
    + apply String.eqb_eq in E. subst k0. constructor; assumption.
    + constructor; [|apply IH, Hd]. intros Hin. apply aset_keys_in in Hin. destruct Hin as [->|Hin].
      * rewrite String.eqb_refl in E. discriminate.
      * exact (Hn Hin).
Qed.

Lemma alookup_none_notin {A} k (m : list (string * A)) : ~ In k (map fst m) -> alookup k m = None.
Proof.
  induction m as [|[k0 v0] m IH]; cbn [alookup map fst In]; intros H; [reflexivity|].
  destruct (String.eqb k k0) eqn:E; [apply String.eqb_eq in E; subst; exfalso; apply H; left; reflexivity|].
  apply IH. intros G. apply H. right. exact G.
Qed.

Lemma alookup_filter {A} (P : string * A -> bool) k (m : list (string * A)) :
  NoDup (map fst m) ->
  alookup k (filter P m) = match alookup k m with Some v => if P (k, v) then Some v else None | None => None end.
Proof.
  induction m as [|[k0 v0] m IH]; cbn [filter alookup map fst]; intros H; [reflexivity|].
  inversion H as [|? ? Hn Hd]; subst.
  destruct (String.eqb k k0) eqn:E.
  - apply String.eqb_eq in E. subst k0. destruct (P (k, v0)) eqn:EP; cbn [alookup].
    + now rewrite String.eqb_refl.
    + apply alookup_none_notin. intros Hin. apply Hn. clear -Hin.
      induction m as [|[a b] m IHm]; cbn [filter map fst In] in *; [contradiction|].
      destruct (P (a, b)); cbn [map fst In] in Hin; [destruct Hin as [<-|Hin]; [left; reflexivity|right; apply IHm, Hin]|right; apply IHm, Hin].
  - destruct (P (k0, v0)); cbn [alookup]; [rewrite E|]; apply IH, Hd.
Qed.

Lemma filter_keys_nodup {A} (P : string * A -> bool) (m : list (string * A)) : NoDup (map fst m) -> NoDup (map fst (filter P m)).
Proof.
  induction m as [|[k0 v0] m IH]; cbn [filter map fst]; intros H; [constructor|].
  inversion H as [|? ? Hn Hd]; subst. destruct (P (k0, v0)); cbn [map fst]; [|apply IH, Hd].
  constructor; [|apply IH, Hd]. intros Hin. apply Hn. clear -Hin.
  induction m as [|[a b] m IHm]; cbn [filter map fst In] in *; [contradiction|].
  destruct (P (a, b)); cbn [map fst In] in Hin; [destruct Hin as [<-|Hin]; [left; reflexivity|right; apply IHm, Hin]|right; apply IHm, Hin].
Qed.

Lemma mem_str_app c l1 l2 : mem_str c (l1 ++ l2) = mem_str c l1 || mem_str c l2.
Proof. induction l1 as [|x l1 IH]; cbn [mem_str app]; [reflexivity|]. rewrite IH. now rewrite Bool.orb_assoc. Qed.

(* ---- requested cells ---- *)
Lemma requested_nil k : requested [] k = false.
Proof. reflexivity. Qed.

Lemma requested_batch a c q k :
  requested (batch_query a c q) k = requested q k || (negb (String.eqb a WORLD) && cell_eqb k (a, c)).
Proof.
  unfold batch_query. destruct (String.eqb a WORLD) eqn:Ew; cbn [negb andb]; [now rewrite Bool.orb_false_r|].
  unfold requested, cell_eqb. cbn [fst snd]. destruct k as [ka kc]. cbn [fst snd].
  destruct (mem_str c match alookup a q with Some l => l | None => [] end) eqn:Em.
  - destruct (String.eqb ka a) eqn:Ea; cbn [andb]; [|now rewrite Bool.orb_false_r].
    apply String.eqb_eq in Ea. subst ka.
    destruct (String.eqb kc c) eqn:Ec; [|now rewrite Bool.orb_false_r].
    apply String.eqb_eq in Ec. subst kc. destruct (alookup a q); [now rewrite Em|discriminate].
  - rewrite alookup_aset. destruct (String.eqb ka a) eqn:Ea; cbn [andb]; [|now rewrite Bool.orb_false_r].
    apply String.eqb_eq in Ea. subst ka. rewrite mem_str_app. cbn [mem_str]. rewrite Bool.orb_false_r.
    destruct (alookup a q); reflexivity.
Qed.

Lemma batch_query_nodup a c q : NoDup (map fst q) -> NoDup (map fst (batch_query a c q)).
Proof.
  intros H. unfold batch_query. destruct (String.eqb a WORLD); [exact H|].
  destruct (mem_str c _); [exact H|apply aset_nodup, H].
Qed.

(* ---- cache merging ---- *)
Lemma bfind_app c1 c2 k : bfind k (c1 ++ c2) = match bfind k c1 with Some v => Some v | None => bfind k c2 end.
Proof.
  induction c1 as [|[k0 v0] c1 IH]; cbn [bfind app]; [reflexivity|]. destruct (cell_eqb k k0); [reflexivity|exact IH].
Qed.

Lemma cell_eqb_sym k k' : cell_eqb k k' = cell_eqb k' k.
Proof. unfold cell_eqb. now rewrite (String.eqb_sym (fst k)), (String.eqb_sym (snd k)). Qed.

Lemma bfind_merge ans : forall cache k,
  bfind k (merge_balances cache ans) = match bfind k cache with Some v => Some v | None => bfind k ans end.
Proof.
  unfold merge_balances. induction ans as [|[k0 v0] ans IH]; intros cache k; cbn [fold_left bfind fst snd].
  - destruct (bfind k cache); reflexivity.
  - unfold bmem. replace (fst k0, snd k0) with k0 by (destruct k0; reflexivity).
    destruct (bfind k0 cache) as [v1|] eqn:E0.
    + rewrite IH. destruct (bfind k cache) as [v|] eqn:Ek; [reflexivity|].
      destruct (cell_eqb k k0) eqn:E; [|reflexivity]. apply cell_eqb_eq in E. subst k0. rewrite Ek in E0. discriminate.
    + rewrite IH, bfind_app. cbn [bfind]. destruct (bfind k cache); [reflexivity|].
      destruct (cell_eqb k k0); reflexivity.
Qed.

Lemma bfind_restrict q ans k : bfind k (restrict_answer q ans) = if requested q k then bfind k ans else None.
Proof.
  unfold restrict_answer. induction ans as [|[k0 v0] ans IH]; cbn [filter bfind fst]; [destruct (requested q k); reflexivity|].
  destruct (cell_eqb k k0) eqn:E.
  - apply cell_eqb_eq in E. subst k0. destruct (requested q k) eqn:Er; cbn [bfind]; [now rewrite cell_eqb_refl|].
    exact IH.
  - destruct (requested q k0); cbn [bfind]; [rewrite E|]; exact IH.
Qed.

(* ---- the filtered query ---- *)
Definition acct_unknown (cache : balances) (e : string * list string) : bool :=
  existsb (fun c => negb (bmem cache (fst e) c)) (snd e).

Lemma requested_filter cache q k : NoDup (map fst q) ->
  requested (filter_query cache q) k =
  match alookup (fst k) q with Some l => acct_unknown cache (fst k, l) && mem_str (snd k) l | None => false end.
Proof.
  intros H. unfold requested, filter_query.
  change (fun e : string * list string => existsb (fun c => negb (bmem cache (fst e) c)) (snd e)) with (acct_unknown cache).
  rewrite (alookup_filter (acct_unknown cache) (fst k) q H).
  destruct (alookup (fst k) q) as [l|]; [|reflexivity]. destruct (acct_unknown cache (fst k, l)); reflexivity.
Qed.

Lemma mem_str_in c l : mem_str c l = true -> In c l.
Proof.
  induction l as [|x l IH]; cbn [mem_str]; [discriminate|]. intros H. apply Bool.orb_true_iff in H.
  destruct H as [H|H]; [left; symmetry; apply String.eqb_eq, H|right; apply IH, H].
Qed.

Lemma known_of_filtered cache a l c : acct_unknown cache (a, l) = false -> mem_str c l = true -> bmem cache a c = true.
Proof.
  unfold acct_unknown. cbn [fst snd]. intros H Hc. apply mem_str_in in Hc.
  destruct (bmem cache a c) eqn:E; [reflexivity|]. exfalso.
  assert (existsb (fun c0 => negb (bmem cache a c0)) l = true) by (apply existsb_exists; exists c; split; [exact Hc|now rewrite E]).
  congruence.
Qed.

Lemma filter_nil_all_known cache q a l : filter_query cache q = [] -> In (a, l) q -> acct_unknown cache (a, l) = false.
Proof.
  unfold filter_query.
  change (fun e : string * list string => existsb (fun c => negb (bmem cache (fst e) c)) (snd e)) with (acct_unknown cache).
  intros H Hin. destruct (acct_unknown cache (a, l)) eqn:E; [|reflexivity].
  assert (H0 : In (a, l) (filter (acct_unknown cache) q)) by (apply filter_In; split; assumption).
  rewrite H in H0. contradiction.
Qed.

Lemma alookup_some_in {A} k (v : A) m : alookup k m = Some v -> In (k, v) m.
Proof.
  induction m as [|[k0 v0] m IH]; cbn [alookup]; [discriminate|].
  destruct (String.eqb k k0) eqn:E; [apply String.eqb_eq in E; subst; intros H; injection H as ->; left; reflexivity|].
  intros H. right. apply IH, H.
Qed.

(* ---- the invariant of the preparation phase ---- *)
Definition Hb (H : list cell) (k : cell) : bool := existsb (cell_eqb k) H.

Lemma Hb_add_cell a c H k : Hb (add_cell a c H) k = (negb (String.eqb a WORLD) && cell_eqb k (a, c)) || Hb H k.
Proof. unfold add_cell. destruct (String.eqb a WORLD); cbn [negb andb orb]; reflexivity. Qed.

Lemma Hb_app H1 H2 k : Hb (H1 ++ H2) k = Hb H1 k || Hb H2 k.
Proof. unfold Hb. apply existsb_app. Qed.

Section Sim.
Variable B : balances.
Variable M : metadata.
Variable sb : store.
Hypothesis Hf : faithful B M sb.

Record Inv (H : list cell) (cache : balances) (q : bquery) : Prop := {
  inv_truth : forall k v, bfind k cache = Some v -> v = sheet_value B k /\ (Hb H k = true \/ sheet_value B k = 0);
  inv_pending : forall k, requested q k = true -> Hb H k = true;
  inv_zero : forall k, Hb H k = true -> requested q k = false -> bfind k cache = None -> sheet_value B k = 0;
  inv_noworld : forall k, Hb H k = true -> String.eqb (fst k) WORLD = false;
  inv_nodup : NoDup (map fst q) }.

Lemma Inv_init : Inv [] [] [].
Proof. constructor; cbn; try discriminate; intros; try discriminate. constructor. Qed.

Lemma sheet_value_noworld k : String.eqb (fst k) WORLD = false -> sheet_value B k = bget B (fst k) (snd k).
Proof. unfold sheet_value. now intros ->. Qed.

Lemma requested_unfold q a c : requested q (a, c) = match alookup a q with Some l => mem_str c l | None => false end.
Proof. reflexivity. Qed.

Lemma flush H rs : Inv H (rs_cache rs) (rs_query rs) ->
  exists rs', run_balances_query sb rs = Ok rs'
    /\ Inv H (rs_cache rs') (rs_query rs')
    /\ (forall a c, requested (rs_query rs) (a, c) = true -> bget (rs_cache rs') a c = sheet_value B (a, c))
    /\ (forall k, requested (rs_query rs') k = true -> requested (rs_query rs) k = true).
Proof.
  intros I. unfold run_balances_query. destruct (filter_query (rs_cache rs) (rs_query rs)) as [|e fq'] eqn:Efq.
  - exists rs. split; [reflexivity|]. split; [exact I|]. split; [|auto].
    intros a c Hr. rewrite requested_unfold in Hr. destruct (alookup a (rs_query rs)) as [l|] eqn:El; [|discriminate].
    pose proof (filter_nil_all_known _ _ a l Efq (alookup_some_in _ _ _ El)) as Hk.
    pose proof (known_of_filtered _ _ _ _ Hk Hr) as Hm. unfold bmem in Hm. unfold bget.
    destruct (bfind (a, c) (rs_cache rs)) as [v|] eqn:Ev; [|discriminate].
    exact (proj1 (inv_truth _ _ _ I _ _ Ev)).
  - rewrite <- Efq. set (fq := filter_query (rs_cache rs) (rs_query rs)).
    destruct (proj1 Hf (rs_ncalls rs) fq) as (b & -> & Hb_ans).
    eexists. split; [reflexivity|]. cbn [rs_cache rs_query].
    assert (Hreq : forall k, requested fq k = true -> requested (rs_query rs) k = true).
    { intros k Hk. unfold fq in Hk. rewrite (requested_filter _ _ _ (inv_nodup _ _ _ I)) in Hk.
      destruct k as [a c]. rewrite requested_unfold. cbn [fst snd] in Hk.
      destruct (alookup a (rs_query rs)); [|discriminate]. apply Bool.andb_true_iff in Hk. exact (proj2 Hk). }
    assert (Hans : forall k, requested fq k = true ->
                     match bfind k b with Some v => v = sheet_value B k | None => sheet_value B k = 0 end).
    { intros k Hk. pose proof (inv_noworld _ _ _ I k (inv_pending _ _ _ I k (Hreq k Hk))) as Hw.
      rewrite (sheet_value_noworld k Hw). exact (Hb_ans k Hk Hw). }
    assert (Hcase : forall a c, requested (rs_query rs) (a, c) = true -> bfind (a, c) (rs_cache rs) = None -> requested fq (a, c) = true).
    { intros a c Hr Hn. unfold fq. rewrite (requested_filter _ _ _ (inv_nodup _ _ _ I)). cbn [fst snd].
      rewrite requested_unfold in Hr. destruct (alookup a (rs_query rs)) as [l|]; [|discriminate]. rewrite Hr, Bool.andb_true_r.
      destruct (acct_unknown (rs_cache rs) (a, l)) eqn:Eu; [reflexivity|].
      pose proof (known_of_filtered _ _ _ _ Eu Hr) as Hm. unfold bmem in Hm. rewrite Hn in Hm. discriminate. }
    split; [|split].
    + constructor.
      * intros k v Hv. rewrite bfind_merge, bfind_restrict in Hv.
        destruct (bfind k (rs_cache rs)) as [v0|] eqn:E0; [injection Hv as <-; exact (inv_truth _ _ _ I _ _ E0)|].
        destruct (requested fq k) eqn:Er; [|discriminate]. pose proof (Hans k Er) as Ha. rewrite Hv in Ha.
        split; [exact Ha|left; exact (inv_pending _ _ _ I k (Hreq k Er))].
      * intros k Hk. discriminate.
      * intros k Hk _ Hn. rewrite bfind_merge, bfind_restrict in Hn.
        destruct (bfind k (rs_cache rs)) as [v0|] eqn:E0; [discriminate|].
        destruct (requested (rs_query rs) k) eqn:Erq; [|exact (inv_zero _ _ _ I k Hk Erq E0)].
        destruct k as [a c]. rewrite (Hcase a c Erq E0) in Hn. pose proof (Hans _ (Hcase a c Erq E0)) as Ha.
        rewrite Hn in Ha. exact Ha.
      * exact (inv_noworld _ _ _ I).
      * constructor.
    + intros a c Hr. unfold bget. rewrite bfind_merge, bfind_restrict.
      destruct (bfind (a, c) (rs_cache rs)) as [v0|] eqn:E0; [exact (proj1 (inv_truth _ _ _ I _ _ E0))|].
      rewrite (Hcase a c Hr E0). pose proof (Hans _ (Hcase a c Hr E0)) as Ha.
      destruct (bfind (a, c) b); [exact Ha|symmetry; exact Ha].
    + intros k Hk. discriminate.
Qed.

Lemma Inv_batch H cache q a c : Inv H cache q -> Inv (add_cell a c H) cache (batch_query a c q).
Proof.
  intros I. constructor.
  - intros k v Hv. destruct (inv_truth _ _ _ I k v Hv) as [Hx [Hy|Hy]]; split; auto.
    left. rewrite Hb_add_cell, Hy. apply Bool.orb_true_r.
  - intros k Hk. rewrite requested_batch in Hk. rewrite Hb_add_cell. apply Bool.orb_true_iff in Hk.
    destruct Hk as [Hk|Hk]; [rewrite (inv_pending _ _ _ I k Hk); apply Bool.orb_true_r|rewrite Hk; reflexivity].
  - intros k Hk Hr Hn. rewrite requested_batch in Hr. apply Bool.orb_false_iff in Hr. destruct Hr as [Hr1 Hr2].
    rewrite Hb_add_cell, Hr2 in Hk. cbn [orb] in Hk. exact (inv_zero _ _ _ I k Hk Hr1 Hn).
  - intros k Hk. rewrite Hb_add_cell in Hk. apply Bool.orb_true_iff in Hk. destruct Hk as [Hk|Hk]; [|exact (inv_noworld _ _ _ I k Hk)].
    apply Bool.andb_true_iff in Hk. destruct Hk as [Hw Hk]. apply cell_eqb_eq in Hk. subst k. cbn [fst].
    now apply Bool.negb_true_iff in Hw.
  - apply batch_query_nodup, (inv_nodup _ _ _ I).
Qed.

Lemma get_balance_sim H rs account asset : Inv H (rs_cache rs) (rs_query rs) ->
  exists rs', get_balance sb account asset rs = Ok (sheet_value B (account, asset), rs')
    /\ Inv (add_cell account asset H) (rs_cache rs') (rs_query rs').
Proof.
  intros I. unfold get_balance.
  pose proof (Inv_batch H _ _ account asset I) as I1.
  set (rs1 := mkrstate (rs_cache rs) (batch_query account asset (rs_query rs)) (rs_ncalls rs) (rs_log rs)).
  destruct (flush (add_cell account asset H) rs1 I1) as (rs2 & -> & I2 & Hfl & _). cbn [lift_store bind].
  assert (Hread : bget (rs_cache rs2) account asset = sheet_value B (account, asset)).
  { destruct (String.eqb account WORLD) eqn:Ew.
    - unfold bget. destruct (bfind (account, asset) (rs_cache rs2)) as [v|] eqn:Ev.
      + exact (proj1 (inv_truth _ _ _ I2 _ _ Ev)).
      + unfold sheet_value. cbn [fst]. now rewrite Ew.
    - apply Hfl. unfold rs1. cbn [rs_query]. rewrite requested_batch, Ew, cell_eqb_refl. apply Bool.orb_true_r. }
  rewrite Hread. eexists. split; [reflexivity|]. cbn [rs_cache rs_query].
  unfold bmem. destruct (bfind (account, asset) (rs_cache rs2)) as [v|] eqn:Ev; [exact I2|].
  constructor.
  - intros k v Hv. rewrite bfind_app in Hv. destruct (bfind k (rs_cache rs2)) as [v0|] eqn:E0.
    + injection Hv as <-. exact (inv_truth _ _ _ I2 _ _ E0).
    + cbn [bfind] in Hv. destruct (cell_eqb k (account, asset)) eqn:Ek; [|discriminate]. injection Hv as <-.
      apply cell_eqb_eq in Ek. subst k. unfold bget in Hread. rewrite Ev in Hread. split; [exact Hread|right; symmetry; exact Hread].
  - exact (inv_pending _ _ _ I2).
  - intros k Hk Hr Hn. rewrite bfind_app in Hn. destruct (bfind k (rs_cache rs2)) eqn:E0; [discriminate|].
    exact (inv_zero _ _ _ I2 k Hk Hr E0).
  - exact (inv_noworld _ _ _ I2).
  - exact (inv_nodup _ _ _ I2).
Qed.
End Sim.

(* ---- find_queries acts on the pending query uniformly: it adds a set of cells that does not depend
   on what is pending, or fails regardless of it ---- *)
Definition uniform (F : bquery -> res bquery) : Prop :=
  (exists D : cell -> bool,
      (forall k, D k = true -> String.eqb (fst k) WORLD = false)
      /\ forall q, NoDup (map fst q) ->
           exists q', F q = Ok q' /\ NoDup (map fst q') /\ forall k, requested q' k = requested q k || D k)
  \/ (exists e, forall q, NoDup (map fst q) -> F q = Err e)
  \/ (exists w, forall q, NoDup (map fst q) -> F q = Panic w).

Lemma uniform_ret : uniform (fun q => Ok q).
Proof.
  left. exists (fun _ => false). split; [discriminate|]. intros q Hq. exists q. repeat split; [exact Hq|].
  intros k. now rewrite Bool.orb_false_r.
Qed.

Lemma uniform_err e : uniform (fun _ => Err e).
Proof. right. left. exists e. reflexivity. Qed.

Lemma uniform_panic w : uniform (fun _ => Panic w).
Proof. right. right. exists w. reflexivity. Qed.

Lemma uniform_batch a c : uniform (fun q => Ok (batch_query a c q)).
Proof.
  left. exists (fun k => negb (String.eqb a WORLD) && cell_eqb k (a, c)). split.
  - intros k Hk. apply Bool.andb_true_iff in Hk. destruct Hk as [Hw Hk]. apply cell_eqb_eq in Hk. subst k.
    now apply Bool.negb_true_iff in Hw.
  - intros q Hq. eexists. repeat split; [apply batch_query_nodup, Hq|]. intros k. apply requested_batch.
Qed.

Lemma uniform_seq F G : uniform F -> uniform G -> uniform (fun q => q' <- F q ;; G q').
Proof.
  intros [(D1 & Hw1 & H1)|[(e & H1)|(w & H1)]] HG.
  - destruct HG as [(D2 & Hw2 & H2)|[(e & H2)|(w & H2)]].
    + left. exists (fun k => D1 k || D2 k). split.
      * intros k Hk. apply Bool.orb_true_iff in Hk. destruct Hk; auto.
      * intros q Hq. destruct (H1 q Hq) as (q1 & -> & Hq1 & Hr1). cbn [bind].
        destruct (H2 q1 Hq1) as (q2 & -> & Hq2 & Hr2). exists q2. repeat split; [exact Hq2|].
        intros k. now rewrite Hr2, Hr1, Bool.orb_assoc.
    + right. left. exists e. intros q Hq. destruct (H1 q Hq) as (q1 & -> & Hq1 & _). cbn [bind]. exact (H2 q1 Hq1).
    + right. right. exists w. intros q Hq. destruct (H1 q Hq) as (q1 & -> & Hq1 & _). cbn [bind]. exact (H2 q1 Hq1).
  - right. left. exists e. intros q Hq. now rewrite (H1 q Hq).
  - right. right. exists w. intros q Hq. now rewrite (H1 q Hq).
Qed.

Lemma uniform_bind {A} (m : res A) (F : A -> bquery -> res bquery) :
  (forall a, uniform (F a)) -> uniform (fun q => a <- m ;; F a q).
Proof.
  intros H. destruct m as [a|e|w]; cbn [bind]; [apply H|apply uniform_err|apply uniform_panic].
Qed.

Section Uniform.
Variable vs : env.

Lemma find_queries_uniform asset : forall src, uniform (find_queries vs asset src).
Proof.
  induction src as [|e|r l IHl|r items IHi|r f c IH|r a b] using source_ind'.
  - apply uniform_panic.
  - exact (uniform_bind (eval_as vs e expect_account) (fun account q => Ok (batch_query account asset q)) (fun a => uniform_batch a asset)).
  - cbn [find_queries]. induction l as [|s l IHl']; [apply uniform_ret|].
    inversion IHl as [|? ? Hs IHl'']; subst.
    exact (uniform_seq _ _ Hs (IHl' IHl'')).
  - cbn [find_queries]. induction items as [|[[r0 a0] s] items IHi']; [apply uniform_ret|].
    inversion IHi as [|? ? Hx IHi'']; subst. cbn [snd] in Hx.
    exact (uniform_seq _ _ Hx (IHi' IHi'')).
  - exact IH.
  - cbn [find_queries]. destruct b as [b|]; [|apply uniform_ret].
    exact (uniform_bind (eval_as vs a expect_account) (fun account q => Ok (batch_query account asset q)) (fun a => uniform_batch a asset)).
Qed.

Lemma find_queries_stmt_uniform s : uniform (find_queries_stmt vs s).
Proof.
  destruct s as [| |f|r sv src dst|r sv a].
  - apply uniform_panic.
  - apply uniform_ret.
  - apply uniform_ret.
  - refine (uniform_bind (eval_sent_amt vs sv) (fun x q => let '(asset, _) := x in find_queries vs asset src q) _).
    intros [asset amt]. apply find_queries_uniform.
  - refine (uniform_bind (eval_sent_amt vs sv)
              (fun x q => let '(asset, _) := x in account <- eval_as vs a expect_account ;; Ok (batch_query account asset q)) _).
    intros [asset amt].
    exact (uniform_bind (eval_as vs a expect_account) (fun account q => Ok (batch_query account asset q)) (fun a => uniform_batch a asset)).
Qed.

Lemma find_queries_stmts_uniform : forall ss, uniform (find_queries_stmts vs ss).
Proof.
  induction ss as [|s ss IH]; [apply uniform_ret|].
  exact (uniform_seq _ _ (find_queries_stmt_uniform s) IH).
Qed.
End Uniform.

(* ---- cells of a query ---- *)
Lemma Hb_row_other a l k : String.eqb (fst k) a = false -> Hb (map (fun c => (a, c)) l) k = false.
Proof.
  intros E. unfold Hb. induction l as [|c l IHl]; cbn [map existsb]; [reflexivity|]. rewrite IHl.
  unfold cell_eqb. cbn [fst snd]. rewrite E. reflexivity.
Qed.

Lemma cells_of_query_cons a l q : cells_of_query ((a, l) :: q) = map (fun c => (a, c)) l ++ cells_of_query q.
Proof. reflexivity. Qed.

Lemma Hb_cells_notin q k : ~ In (fst k) (map fst q) -> Hb (cells_of_query q) k = false.
Proof.
  induction q as [|[a l] q IH]; intros H; [reflexivity|].
  rewrite cells_of_query_cons, Hb_app. cbn [map fst In] in H.
  rewrite IH by (intros G; apply H; right; exact G). rewrite Bool.orb_false_r.
  apply Hb_row_other. destruct (String.eqb (fst k) a) eqn:E; [|reflexivity].
  apply String.eqb_eq in E. exfalso. apply H. left. symmetry. exact E.
Qed.

Lemma Hb_cells q k : NoDup (map fst q) -> Hb (cells_of_query q) k = requested q k.
Proof.
  induction q as [|[a l] q IH]; cbn [map fst]; intros H; [reflexivity|].
  inversion H as [|? ? Hn Hd]; subst. rewrite cells_of_query_cons, Hb_app. unfold requested. cbn [alookup].
  destruct (String.eqb (fst k) a) eqn:E.
  - apply String.eqb_eq in E. rewrite (Hb_cells_notin q k) by (rewrite E; exact Hn). rewrite Bool.orb_false_r.
    unfold Hb. clear -E. induction l as [|c l IHl]; cbn [map existsb mem_str]; [reflexivity|]. rewrite IHl.
    unfold cell_eqb. cbn [fst snd]. rewrite E, String.eqb_refl. reflexivity.
  - rewrite (Hb_row_other a l k E). cbn [orb]. rewrite (IH Hd). reflexivity.
Qed.

Lemma bget_canon B H a c : bget (canon_cache B H) a c = if Hb H (a, c) then sheet_value B (a, c) else 0.
Proof.
  unfold bget, canon_cache, Hb. induction H as [|k H IH]; cbn [map bfind existsb]; [reflexivity|].
  destruct (cell_eqb (a, c) k) eqn:E; cbn [orb]; [|exact IH]. apply cell_eqb_eq in E. now subst k.
Qed.

Section Sim2.
Variable B : balances.
Variable M : metadata.
Variable sb : store.
Hypothesis Hf : faithful B M sb.

Definition sim_res {A} (H0 : list cell) (r1 : res (A * rstate)) (r2 : res (A * list cell)) : Prop :=
  match r1, r2 with
  | Ok (v, rs'), Ok (v', H') => v = v' /\ Inv B H' (rs_cache rs') (rs_query rs')
  | Err e, Err e' => e = e'
  | Panic w, Panic w' => w = w'
  | _, _ => False
  end.

Lemma handle_origin_sim flag vs ty f H rs : Inv B H (rs_cache rs) (rs_query rs) ->
  sim_res H (handle_origin sb flag vs ty f rs) (sheet_origin B M flag vs ty f H).
Proof.
  intros I. unfold handle_origin, sheet_origin.
  destruct (eval_exprs vs (fc_args f)) as [args| |]; cbn [bind sim_res]; try reflexivity.
  destruct (String.eqb (fc_caller f) FnVarOriginMeta).
  { destruct (two_args args expect_account expect_string) as [[account key]| |]; cbn [bind sim_res]; try reflexivity.
    destruct (proj2 Hf (rs_ncalls rs) account key) as (m & -> & Hm). rewrite <- Hm. unfold meta_lookup.
    destruct (alookup account m) as [am|]; cbn [sim_res]; [|reflexivity].
    destruct (alookup key am) as [raw|]; cbn [sim_res]; [|reflexivity].
    destruct (parse_var ty raw); cbn [bind sim_res]; try reflexivity. split; [reflexivity|exact I]. }
  destruct (String.eqb (fc_caller f) FnVarOriginBalance).
  { destruct (two_args args expect_account expect_asset) as [[account asset]| |]; cbn [bind sim_res]; try reflexivity.
    destruct (get_balance_sim B M sb Hf H rs account asset I) as (rs' & -> & I'). cbn [bind].
    destruct (sheet_value B (account, asset) <? 0); cbn [sim_res]; [reflexivity|]. split; [reflexivity|exact I']. }
  destruct (String.eqb (fc_caller f) FnVarOriginOverdraft); [|reflexivity].
  destruct (negb flag); [reflexivity|].
  destruct (two_args args expect_account expect_asset) as [[account asset]| |]; cbn [bind sim_res]; try reflexivity.
  destruct (get_balance_sim B M sb Hf H rs account asset I) as (rs' & -> & I'). cbn [bind sim_res].
  split; [reflexivity|exact I'].
Qed.

Lemma parse_vars_sim flag raw : forall decls vs H rs, Inv B H (rs_cache rs) (rs_query rs) ->
  sim_res H (parse_vars sb flag decls raw vs rs) (sheet_parse_vars B M flag decls raw vs H).
Proof.
  induction decls as [|d decls IH]; intros vs H rs I; cbn [parse_vars sheet_parse_vars].
  - cbn [sim_res]. split; [reflexivity|exact I].
  - destruct (vd_name d) as [[rn name]|]; [|reflexivity]. destruct (vd_type d) as [[rt ty]|]; [|reflexivity].
    destruct (vd_origin d) as [f|].
    + pose proof (handle_origin_sim flag vs ty f H rs I) as Ho.
      destruct (handle_origin sb flag vs ty f rs) as [[v rs']| |], (sheet_origin B M flag vs ty f H) as [[v' H']| |];
        cbn [sim_res] in Ho; try contradiction; cbn [bind sim_res]; try exact Ho.
      destruct Ho as [<- I']. apply IH, I'.
    + destruct (alookup name raw) as [rw|]; cbn [bind sim_res]; [|reflexivity].
      destruct (parse_var ty rw); cbn [bind sim_res]; try reflexivity. apply IH, I.
Qed.

Definition prep_sim (r1 : res (env * rstate)) (r2 : res (env * list cell)) : Prop :=
  match r1, r2 with
  | Ok (vs, rs), Ok (vs', H) => vs = vs' /\ cache_ext (rs_cache rs) (canon_cache B H)
  | Err e, Err e' => e = e'
  | Panic w, Panic w' => w = w'
  | _, _ => False
  end.

Lemma prepare_sim p raw flag : prep_sim (prepare p raw sb flag) (sheet_prepare B M p raw flag).
Proof.
  unfold prepare, sheet_prepare.
  pose proof (parse_vars_sim flag raw (p_vars p) [] [] (mkrstate [] [] 0 []) (Inv_init B)) as Hv.
  destruct (parse_vars sb flag (p_vars p) raw [] (mkrstate [] [] 0 [])) as [[vs rs1]| |],
           (sheet_parse_vars B M flag (p_vars p) raw [] []) as [[vs' H1]| |];
    cbn [sim_res] in Hv; try contradiction; cbn [bind prep_sim]; try exact Hv.
  destruct Hv as [<- I1].
  destruct (find_queries_stmts_uniform vs (p_stmts p)) as [(D & Hw & HD)|[(e & He)|(w & He)]].
  - destruct (HD _ (inv_nodup _ _ _ _ I1)) as (qa & -> & Hqa & Hra).
    destruct (HD [] (NoDup_nil _)) as (qr & -> & Hqr & Hrr). cbn [bind].
    set (H2 := cells_of_query qr ++ H1).
    assert (HH : forall k, Hb H2 k = D k || Hb H1 k).
    { intros k. unfold H2. rewrite Hb_app, (Hb_cells qr k Hqr), Hrr. reflexivity. }
    assert (I2 : Inv B H2 (rs_cache rs1) qa).
    { constructor.
      - intros k v Hv. destruct (inv_truth _ _ _ _ I1 k v Hv) as [Hx [Hy|Hy]]; split; auto.
        left. rewrite HH, Hy. apply Bool.orb_true_r.
      - intros k Hk. rewrite Hra in Hk. rewrite HH. apply Bool.orb_true_iff in Hk.
        destruct Hk as [Hk|Hk]; [rewrite (inv_pending _ _ _ _ I1 k Hk); apply Bool.orb_true_r|rewrite Hk; reflexivity].
      - intros k Hk Hr Hn. rewrite Hra in Hr. apply Bool.orb_false_iff in Hr. destruct Hr as [Hr1 Hr2].
        rewrite HH, Hr2 in Hk. cbn [orb] in Hk. exact (inv_zero _ _ _ _ I1 k Hk Hr1 Hn).
      - intros k Hk. rewrite HH in Hk. apply Bool.orb_true_iff in Hk. destruct Hk as [Hk|Hk]; [exact (Hw k Hk)|exact (inv_noworld _ _ _ _ I1 k Hk)].
      - exact Hqa. }
    destruct (flush B M sb Hf H2 (mkrstate (rs_cache rs1) qa (rs_ncalls rs1) (rs_log rs1)) I2) as (rs2 & -> & I3 & Hfl & Hsub).
    cbn [lift_store bind prep_sim]. split; [reflexivity|].
    intros a c. rewrite bget_canon. cbn [rs_query] in Hfl, Hsub.
    destruct (requested qa (a, c)) eqn:Er.
    + rewrite (Hfl a c Er). rewrite (inv_pending _ _ _ _ I2 (a, c) Er). reflexivity.
    + unfold bget. destruct (bfind (a, c) (rs_cache rs2)) as [v|] eqn:Ev.
      * destruct (inv_truth _ _ _ _ I3 _ _ Ev) as [Hx [Hy|Hy]]; [now rewrite Hy|].
        rewrite Hx, Hy. destruct (Hb H2 (a, c)); reflexivity.
      * destruct (Hb H2 (a, c)) eqn:Eh; [|reflexivity]. symmetry.
        apply (inv_zero _ _ _ _ I3 (a, c) Eh); [|exact Ev].
        destruct (requested (rs_query rs2) (a, c)) eqn:E2; [|reflexivity]. rewrite (Hsub _ E2) in Er. discriminate.
  - rewrite (He _ (inv_nodup _ _ _ _ I1)), (He [] (NoDup_nil _)). reflexivity.
  - rewrite (He _ (inv_nodup _ _ _ _ I1)), (He [] (NoDup_nil _)). reflexivity.
Qed.

(* against any faithful store the model computes what the sheet semantics computes *)
Theorem run_program_refines_sheet p raw flag : outcome_of (run_program p raw sb flag) = run_sheet B M p raw flag.
Proof.
  unfold run_program, run_sheet. pose proof (prepare_sim p raw flag) as Hp.
  destruct (prepare p raw sb flag) as [[vs rs]| |], (sheet_prepare B M p raw flag) as [[vs' H]| |];
    cbn [prep_sim] in Hp; try contradiction; cbn [bind outcome_of]; try (now rewrite Hp).
  destruct Hp as [<- Hc].
  pose proof (run_stmts_ext vs (p_stmts p) (mkstate (rs_cache rs) [] []) (mkstate (canon_cache B H) [] [])
                (conj eq_refl (conj eq_refl Hc))) as Hr.
  destruct (run_stmts vs (p_stmts p) (mkstate (rs_cache rs) [] [])) as [[ps1 s1]| |],
           (run_stmts vs (p_stmts p) (mkstate (canon_cache B H) [] [])) as [[ps2 s2]| |];
    cbn [stmt_res_ext] in Hr; try contradiction; cbn [bind outcome_of x_postings x_txmeta x_accmeta]; try (now rewrite Hr).
  destruct Hr as (-> & -> & -> & _). reflexivity.
Qed.
End Sim2.

(* the headline of C10: two stores faithful to the same sheets give the same outcome *)
Theorem faithful_stores_agree B M sb1 sb2 p raw flag :
  faithful B M sb1 -> faithful B M sb2 ->
  outcome_of (run_program p raw sb1 flag) = outcome_of (run_program p raw sb2 flag).
Proof.
  intros H1 H2. rewrite (run_program_refines_sheet B M sb1 H1), (run_program_refines_sheet B M sb2 H2). reflexivity.
Qed.
