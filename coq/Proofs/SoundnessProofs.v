(* C17: a clean static check means no static-class failure at run time. Expression level: the
   checker's expected-type propagation is sound with respect to the interpreter's evaluation. *)
From Coq Require Import Lia.
From NS Require Import Check Eval.

Definition static_err (e : err) : Prop :=
  match e with
  | TypeError _ | UnboundVariableErr _ | UnboundFunctionErr _ | BadArityErr _ _ | InvalidTypeErr _ => True
  | _ => False
  end.

(* the variables the checker knows are bound, at run time, to values of their declared types *)
Definition env_typed (declared : list (string * vardecl)) (vs : env) : Prop :=
  forall n d, alookup n declared = Some d ->
    exists r t v, vd_type d = Some (r, t) /\ is_type_allowed t = true /\ alookup n vs = Some v /\ value_type v = t.

(* the checker only appends diagnostics, and expressions leave the declarations alone *)
Lemma assert_has_type_spec r req act s s' :
  assert_has_type (Some r) req act s = Ok s' ->
  (s' = s /\ (req = TypeAny \/ req = act)) \/ (s' = emit r (DTypeMismatch req act) s).
Proof.
  unfold assert_has_type. destruct (String.eqb req TypeAny) eqn:E1; cbn [orb].
  - intros [= <-]. left. split; [reflexivity|left; apply String.eqb_eq, E1].
  - destruct (String.eqb req act) eqn:E2; intros [= <-]; [left; split; [reflexivity|right; apply String.eqb_eq, E2]|right; reflexivity].
Qed.

Lemma emit_diags_neq r k s : cs_diags (emit r k s) <> cs_diags s.
Proof.
  cbn. intros H. apply (f_equal (@List.length diag)) in H. rewrite app_length in H. cbn in H. lia.
Qed.

Definition extends_diags (s s' : cstate) : Prop :=
  exists D, cs_diags s' = cs_diags s ++ D /\ cs_declared s' = cs_declared s.

Lemma extends_refl s : extends_diags s s.
Proof. exists []. split; [now rewrite app_nil_r|reflexivity]. Qed.
Lemma extends_trans s1 s2 s3 : extends_diags s1 s2 -> extends_diags s2 s3 -> extends_diags s1 s3.
Proof. intros [D1 [H1 G1]] [D2 [H2 G2]]. exists (D1 ++ D2). split; [rewrite H2, H1, app_assoc; reflexivity|congruence]. Qed.
Lemma extends_emit r k s : extends_diags s (emit r k s).
Proof. exists [mkdiag r k]. split; reflexivity. Qed.

Lemma assert_extends r req act s s' : assert_has_type (Some r) req act s = Ok s' -> extends_diags s s'.
Proof. intros H. destruct (assert_has_type_spec _ _ _ _ _ H) as [[-> _]| ->]; [apply extends_refl|apply extends_emit]. Qed.

Lemma check_expression_extends : forall e t s s', check_expression e t s = Ok s' -> extends_diags s s'.
Proof.
  induction e as [| | |r name|r x|r x|r name|r n|r a IHa b IHb|r n d|r op l IHl rr IHr]; intros t s s' H; cbn [check_expression] in H;
    try discriminate; try (injection H as <-; apply extends_refl); try (eapply assert_extends; eassumption).
  - unfold assert_has_type in H. destruct (_ || _); [injection H as <-; apply extends_refl|discriminate].
  - (* variable *)
    cbv zeta in H. destruct (alookup name (cs_declared s)) as [d0|].
    + destruct (vd_type d0) as [[? ty]|]; [destruct (is_type_allowed ty)|];
        try (injection H as <-; exists []; split; [now rewrite app_nil_r|reflexivity]).
      eapply extends_trans; [|eapply assert_extends; exact H]. exists []. split; [now rewrite app_nil_r|reflexivity].
    + injection H as <-. exists [mkdiag r (DUnboundVariable name)]. split; reflexivity.
  - destruct (assert_has_type (Some r) t TypeMonetary s) as [s1| |] eqn:E1; cbn [bind] in H; try discriminate.
    destruct (check_expression a TypeAsset s1) as [s2| |] eqn:E2; cbn [bind] in H; try discriminate.
    eapply extends_trans; [eapply assert_extends; exact E1|]. eapply extends_trans; [eapply IHa; exact E2|eapply IHb; exact H].
  - destruct (String.eqb t TypeNumber || String.eqb t TypeMonetary).
    + destruct (check_expression l t s) as [s1| |] eqn:E1; cbn [bind] in H; try discriminate.
      eapply extends_trans; [eapply IHl; exact E1|eapply IHr; exact H].
    + cbv zeta in H.
      match type of H with context [assert_has_type (Some r) t ?ty s] => destruct (assert_has_type (Some r) t ty s) as [s0| |] eqn:E0 end; cbn [bind] in H; try discriminate.
      match type of H with context [check_expression l ?ty s0] => destruct (check_expression l ty s0) as [s1| |] eqn:E1 end; cbn [bind] in H; try discriminate.
      eapply extends_trans; [eapply assert_extends; exact E0|]. eapply extends_trans; [eapply IHl; exact E1|eapply IHr; exact H].
Qed.

Lemma no_new_diags_split s1 s2 s3 :
  extends_diags s1 s2 -> extends_diags s2 s3 -> cs_diags s3 = cs_diags s1 -> cs_diags s2 = cs_diags s1 /\ cs_diags s3 = cs_diags s2.
Proof.
  intros [D1 [H1 _]] [D2 [H2 _]] H. rewrite H2, H1, <- app_assoc in H.
  assert (D1 ++ D2 = []).
  { apply (f_equal (@List.length diag)) in H. rewrite !app_length in H. destruct D1, D2; cbn in *; try lia; reflexivity. }
  apply app_eq_nil in H0. destruct H0 as [-> ->]. rewrite app_nil_r in *. split; congruence.
Qed.

Definition outcome_ok (t : string) (m : res value) : Prop :=
  match m with
  | Ok v => t = TypeAny \/ value_type v = t
  | Err x => ~ static_err x
  | Panic _ => False
  end.

(* C17, expression level: an expression the checker accepts silently for the required type [t]
   evaluates, under any environment that respects the declared types, to a value of type [t] (or to
   a failure that is not of the static class: mismatched currencies, n/0) *)
Theorem check_expression_sound : forall e t s s' vs,
  expr_complete e = true ->
  check_expression e t s = Ok s' -> cs_diags s' = cs_diags s ->
  env_typed (cs_declared s) vs ->
  outcome_ok t (eval_expr vs e).
Proof.
  induction e as [| | |r name|r x|r x|r name|r n|r a IHa b IHb|r n d|r op l IHl rr IHr]; intros t s s' vs Hc H Hd Henv;
    cbn [expr_complete] in Hc; try discriminate; cbn [check_expression] in H; cbn [eval_expr].
  - (* variable *)
    cbv zeta in H. destruct (alookup name (cs_declared s)) as [d0|] eqn:Ed.
    + destruct (Henv name d0 Ed) as [r0 [ty [v [Hty [Hal [Hv Hvt]]]]]]. rewrite Hty, Hal in H. rewrite Hv. cbn [outcome_ok].
      destruct (assert_has_type_spec _ _ _ _ _ H) as [[_ Ht]| ->].
      * destruct Ht as [->| ->]; [left; reflexivity|right; exact Hvt].
      * exfalso. cbn in Hd. apply (f_equal (@List.length diag)) in Hd. rewrite app_length in Hd. cbn in Hd. lia.
    + exfalso. injection H as <-. cbn in Hd. apply (f_equal (@List.length diag)) in Hd. rewrite app_length in Hd. cbn in Hd. lia.
  - destruct (assert_has_type_spec _ _ _ _ _ H) as [[_ Ht]| ->]; [cbn; destruct Ht as [->| ->]; auto|exfalso; exact (emit_diags_neq _ _ _ Hd)].
  - destruct (assert_has_type_spec _ _ _ _ _ H) as [[_ Ht]| ->]; [cbn; destruct Ht as [->| ->]; auto|exfalso; exact (emit_diags_neq _ _ _ Hd)].
  - destruct (assert_has_type_spec _ _ _ _ _ H) as [[_ Ht]| ->]; [cbn; destruct Ht as [->| ->]; auto|exfalso; exact (emit_diags_neq _ _ _ Hd)].
  - destruct (assert_has_type_spec _ _ _ _ _ H) as [[_ Ht]| ->]; [cbn; destruct Ht as [->| ->]; auto|exfalso; exact (emit_diags_neq _ _ _ Hd)].
  - (* monetary literal *)
    apply andb_prop in Hc. destruct Hc as [Hca Hcb].
    destruct (assert_has_type (Some r) t TypeMonetary s) as [s1| |] eqn:E1; cbn [bind] in H; try discriminate.
    destruct (check_expression a TypeAsset s1) as [s2| |] eqn:E2; cbn [bind] in H; try discriminate.
    pose proof (assert_extends _ _ _ _ _ E1) as X1. pose proof (check_expression_extends _ _ _ _ E2) as X2. pose proof (check_expression_extends _ _ _ _ H) as X3.
    destruct (no_new_diags_split s s1 s' X1 (extends_trans _ _ _ X2 X3) Hd) as [D1 D13].
    destruct (no_new_diags_split s1 s2 s' X2 X3 D13) as [D2 D3].
    destruct (assert_has_type_spec _ _ _ _ _ E1) as [[-> Ht]|Hbad]; [|exfalso; rewrite Hbad in D1; exact (emit_diags_neq _ _ _ D1)].
    assert (Henv2 : env_typed (cs_declared s2) vs) by (destruct X2 as [_ [_ G]]; rewrite G; exact Henv).
    pose proof (IHa TypeAsset s s2 vs Hca E2 D2 Henv) as Oa. pose proof (IHb TypeNumber s2 s' vs Hcb H D3 Henv2) as Ob.
    destruct (eval_expr vs a) as [va|xa|]; cbn [outcome_ok bind] in *; [|exact Oa|contradiction].
    destruct Oa as [Oa|Oa]; [discriminate|]. destruct va; cbn in Oa; try discriminate. cbn [expect_asset bind].
    destruct (eval_expr vs b) as [vb|xb|]; cbn [outcome_ok bind] in *; [|exact Ob|contradiction].
    destruct Ob as [Ob|Ob]; [discriminate|]. destruct vb; cbn in Ob; try discriminate. cbn [expect_number bind outcome_ok value_type].
    destruct Ht as [->| ->]; auto.
  - (* ratio literal *)
    unfold assert_has_type in H.
    destruct (d =? 0) eqn:Ez; [cbn; auto|].
    destruct d as [|p|p]; try discriminate; cbn [outcome_ok value_type];
      (destruct (String.eqb t TypeAny) eqn:E1; [left; apply String.eqb_eq, E1|]);
      (destruct (String.eqb t TypePortion) eqn:E2; [right; symmetry; apply String.eqb_eq, E2|]);
      cbn [orb] in H; injection H as <-; exfalso; exact (emit_diags_neq _ _ _ Hd).
  - (* infix *)
    destruct op as [| |o]; try discriminate; apply andb_prop in Hc; destruct Hc as [Hcl Hcr];
    (destruct (String.eqb t TypeNumber || String.eqb t TypeMonetary) eqn:Et;
     [ destruct (check_expression l t s) as [s1| |] eqn:E1; cbn [bind] in H; try discriminate;
       pose proof (check_expression_extends _ _ _ _ E1) as X1; pose proof (check_expression_extends _ _ _ _ H) as X2;
       destruct (no_new_diags_split s s1 s' X1 X2 Hd) as [D1 D2];
       assert (Henv1 : env_typed (cs_declared s1) vs) by (destruct X1 as [_ [_ G]]; rewrite G; exact Henv);
       pose proof (IHl t s s1 vs Hcl E1 D1 Henv) as Ol; pose proof (IHr t s1 s' vs Hcr H D2 Henv1) as Or;
       assert (Htt : t = TypeNumber \/ t = TypeMonetary) by (apply Bool.orb_prop in Et; destruct Et as [Et|Et]; apply String.eqb_eq in Et; auto);
       assert (Hna : t <> TypeAny) by (destruct Htt as [-> | ->]; discriminate)
     | cbv zeta in H;
       match type of H with context [assert_has_type (Some r) t ?ty s] => set (ty0 := ty) in H; destruct (assert_has_type (Some r) t ty0 s) as [s0| |] eqn:E0 end; cbn [bind] in H; try discriminate;
       destruct (check_expression l ty0 s0) as [s1| |] eqn:E1; cbn [bind] in H; try discriminate;
       pose proof (assert_extends _ _ _ _ _ E0) as X0; pose proof (check_expression_extends _ _ _ _ E1) as X1; pose proof (check_expression_extends _ _ _ _ H) as X2;
       destruct (no_new_diags_split s s0 s' X0 (extends_trans _ _ _ X1 X2) Hd) as [D0 D02];
       destruct (no_new_diags_split s0 s1 s' X1 X2 D02) as [D1 D2];
       (destruct (assert_has_type_spec _ _ _ _ _ E0) as [[-> Ht0]|Hbad]; [|exfalso; rewrite Hbad in D0; exact (emit_diags_neq _ _ _ D0)]);
       assert (Henv1 : env_typed (cs_declared s1) vs) by (destruct X1 as [_ [_ G]]; rewrite G; exact Henv);
       pose proof (IHl ty0 s s1 vs Hcl E1 D1 Henv) as Ol; pose proof (IHr ty0 s1 s' vs Hcr H D2 Henv1) as Or;
       assert (Htt : ty0 = TypeNumber \/ ty0 = TypeMonetary)
         by (unfold ty0; destruct (String.eqb (infer_type s l) TypeNumber || String.eqb (infer_type s l) TypeMonetary) eqn:Ei;
             [apply Bool.orb_prop in Ei; destruct Ei as [Ei|Ei]; apply String.eqb_eq in Ei; rewrite Ei; auto|left; reflexivity]);
       assert (Hna : ty0 <> TypeAny) by (destruct Htt as [Hx | Hx]; rewrite Hx; discriminate)
     ]);
    (destruct (eval_expr vs l) as [vl|xl|]; cbn [outcome_ok bind] in *; [|exact Ol|contradiction]);
    (destruct Ol as [Ol|Ol]; [contradiction|]);
    (destruct vl; cbn [value_type] in Ol; try (destruct Htt as [Hx|Hx]; rewrite Hx in Ol; discriminate));
    (destruct (eval_expr vs rr) as [vr|xr|]; cbn [outcome_ok bind] in *; [|exact Or|contradiction]);
    (destruct Or as [Or|Or]; [contradiction|]);
    (destruct vr; cbn [value_type] in Or; try (rewrite <- Ol in Or; discriminate));
    cbn [expect_number expect_monetary bind outcome_ok value_type];
    try (destruct (String.eqb asset asset0); cbn [outcome_ok value_type static_err]; auto);
    try (right; exact Ol); try (destruct Ht0 as [->|Ht0]; [left; reflexivity|right; rewrite Ht0; exact Ol]).
Qed.
