(* The model of trySendingUpTo / sendAll (Model/Source.v) refines the greedy draw of Spec/Greedy.v
   on the evaluated source tree. *)
From Coq Require Import Lia ZifyBool.
From NS Require Import Source EvalTrees AllotProofs GreedyProofs SyntaxInd.

Lemma ok_opt_some {A} (m : res A) a : ok_opt m = Some a -> m = Ok a.
Proof. destruct m; cbn; congruence. Qed.

Lemma already_sent_pulled a sd : already_sent a sd = pulled_of sd a.
Proof.
  reflexivity.
Qed.

(* evaluation of the clauses of an allotment *)
Lemma eval_allots_clauses vs (allots : list allot) (cs : list clause) :
  Forall2 (fun a c => clause_of vs a = Some c) allots cs ->
  exists aps, eval_allots vs allots = Ok aps /\ map clause_of_aportion aps = cs /\ List.length aps = List.length allots.
Proof.
  induction 1 as [|a c allots cs Hc H IH].
  - exists []. repeat split.
  - destruct IH as [aps [He [Hm Hl]]].
    destruct a as [| |r n d|r name|r]; cbn [clause_of] in Hc; try discriminate.
    + destruct d as [|dp|dp]; try discriminate. injection Hc as <-.
      exists (PFixed (n # dp) :: aps). cbn [eval_allots bind]. rewrite He. cbn [bind map clause_of_aportion List.length]. repeat split; congruence.
    + destruct (ok_opt (eval_as vs (EVar r name) expect_portion)) as [q|] eqn:Eq; [|discriminate]. injection Hc as <-.
      apply ok_opt_some in Eq. exists (PFixed q :: aps). cbn [eval_allots]. rewrite Eq. cbn [bind]. rewrite He. cbn [bind map clause_of_aportion List.length].
      repeat split; congruence.
    + injection Hc as <-. exists (PRemaining :: aps). cbn [eval_allots bind]. rewrite He. cbn [bind map clause_of_aportion List.length].
      repeat split; congruence.
Qed.

Lemma Forall2_len {A B} (R : A -> B -> Prop) l1 l2 : Forall2 R l1 l2 -> List.length l1 = List.length l2.
Proof. induction 1; cbn; congruence. Qed.

Section Refine.
Variable vs : env.
Variable cache : balances.
Variable asset : string.
Let bal (a : string) : Z := bget cache a asset.

Definition match_draw (m : res (Z * list entry)) (d : draw_result) : Prop :=
  match d with
  | Drawn g p => m = Ok (g, p)
  | Short a b => m = Err (MissingFundsErr asset a b)
  | BadAllotment => m = Err InvalidAllotmentSum
  end.

(* the loops of try_sending_up_to as top-level functions *)
Fixpoint try_inorder (amount : Z) (l : list source) (left : Z) (sd : list entry) : res (Z * list entry) :=
  match l with
  | [] => Ok (amount - left, sd)
  | s :: l' => '(sent, sd') <- try_sending_up_to vs cache asset s left sd ;; try_inorder amount l' (left - sent) sd'
  end.

Fixpoint try_allot (amount : Z) (l : list (range * allot * source)) (parts : list Z) (sd : list entry) : res (Z * list entry) :=
  match l, parts with
  | [], _ => Ok (amount, sd)
  | (_, _, s) :: l', p :: parts' =>
      '(sent, sd') <- try_sending_up_to vs cache asset s p sd ;;
      if sent =? p then try_allot amount l' parts' sd' else Err (MissingFundsErr asset p sent)
  | _ :: _, [] => Panic "trySendingUpTo: index out of range"
  end.

Lemma try_inorder_eq r l amount sd :
  try_sending_up_to vs cache asset (SInorder r l) amount sd = try_inorder amount l amount sd.
Proof.
  cbn [try_sending_up_to]. generalize amount at 2 4 as left. revert sd.
  induction l as [|s l IH]; intros sd left; cbn [try_inorder]; [reflexivity|].
  destruct (try_sending_up_to vs cache asset s left sd) as [[sent sd']| |]; cbn [bind]; try reflexivity. apply IH.
Qed.

Lemma try_allot_eq r items amount sd :
  try_sending_up_to vs cache asset (SAllot r items) amount sd =
  (parts <- make_allotment vs amount (map (fun it => snd (fst it)) items) ;; try_allot amount items parts sd).
Proof.
  cbn [try_sending_up_to]. destruct (make_allotment vs amount _) as [parts| |]; cbn [bind]; try reflexivity.
  revert parts sd. induction items as [|[[r0 a] s] l IH]; intros parts sd; cbn [try_allot]; [reflexivity|].
  destruct parts as [|p parts]; [reflexivity|].
  destruct (try_sending_up_to vs cache asset s p sd) as [[sent sd']| |]; cbn [bind]; try reflexivity.
  destruct (sent =? p); [apply IH|reflexivity].
Qed.

Lemma try_account_refines e a od0 od amount sd :
  eval_as vs e expect_account = Ok a ->
  od = (if String.eqb a WORLD then None else od0) ->
  try_sending_to_account vs cache asset e amount od0 sd =
  Ok (let g := leaf_gives bal a od amount sd in (g, if g =? 0 then sd else sd ++ [(a, g)])).
Proof.
  intros He ->. unfold try_sending_to_account. rewrite He. cbn [bind]. f_equal.
  destruct (String.eqb a WORLD); [reflexivity|]. destruct od0 as [k|]; [|reflexivity].
  cbn [leaf_gives]. rewrite already_sent_pulled. unfold bal, push_sender.
  set (x := bget cache a asset + k - pulled_of sd a).
  replace (Z.min (if x <? 0 then 0 else x) amount) with (Z.min amount (Z.max 0 x)); [reflexivity|].
  destruct (x <? 0) eqn:E; lia.
Qed.

Theorem try_sending_refines : forall src es amount (sd : list entry),
  eval_esrc vs asset src = Some es ->
  match_draw (try_sending_up_to vs cache asset src amount sd) (draw bal es amount sd).
Proof.
  induction src as [|e|r l IHl|r items IHi|r f c IH|r a b] using source_ind'; intros es amount sd Hev.
  - discriminate.
  - cbn [eval_esrc] in Hev. destruct (ok_opt (eval_as vs e expect_account)) as [acct|] eqn:Ea; [|discriminate].
    injection Hev as <-. apply ok_opt_some in Ea.
    cbn [try_sending_up_to draw]. rewrite (try_account_refines e acct (Some 0) _ amount sd Ea eq_refl). cbn zeta.
    unfold match_draw. reflexivity.
  - (* in-order *)
    rewrite eval_esrc_inorder_eq in Hev.
    destruct (eval_esrc_list vs asset l) as [el|] eqn:El; [|discriminate]. injection Hev as <-.
    rewrite try_inorder_eq, draw_inorder_eq.
    generalize amount at 2 4 as left.
    revert el El sd. induction l as [|s l IHl']; intros el El sd left.
    + injection El as <-. cbn. reflexivity.
    + inversion IHl as [|? ? Hs IHl'']; subst. cbn [eval_esrc_list] in El.
      destruct (eval_esrc vs asset s) as [e1|] eqn:E1; [|discriminate].
      destruct (eval_esrc_list vs asset l) as [el'|] eqn:El'; [|discriminate].
      injection El as <-. cbn [try_inorder draw_inorder].
      specialize (Hs e1 left sd eq_refl). destruct (draw bal e1 left sd) as [g p| |]; cbn [match_draw] in Hs; rewrite Hs; cbn [bind match_draw]; try reflexivity.
      apply (IHl' IHl'' el' eq_refl).
  - (* allotment *)
    rewrite eval_esrc_allot_eq in Hev.
    destruct (eval_esrc_items vs asset items) as [eitems|] eqn:El; [|discriminate]. injection Hev as <-.
    rewrite try_allot_eq, draw_allot_eq.
    (* the clauses evaluate as the evaluated tree says *)
    assert (Hcl : Forall2 (fun a c => clause_of vs a = Some c) (map (fun it : range * allot * source => snd (fst it)) items) (map fst eitems)
                  /\ Forall2 (fun (it : range * allot * source) (ei : clause * esrc) => eval_esrc vs asset (snd it) = Some (snd ei)) items eitems).
    { clear -El. revert eitems El. induction items as [|[[r0 a] s] l IH]; intros eitems El.
      - injection El as <-. split; constructor.
      - cbn [eval_esrc_items] in El.
        destruct (clause_of vs a) as [c|] eqn:Ec; [|discriminate].
        destruct (eval_esrc vs asset s) as [e1|] eqn:E1; [|discriminate].
        destruct (eval_esrc_items vs asset l) as [el'|] eqn:El'; [|discriminate].
        injection El as <-. destruct (IH el' eq_refl) as [H1 H2]. split; constructor; cbn; assumption. }
    destruct Hcl as [Hcl Hsub].
    destruct (eval_allots_clauses vs _ _ Hcl) as [aps [Hea [Hm Hlen]]].
    rewrite (make_allotment_spec vs amount _ aps Hea Hlen), Hm.
    destruct (denoted_portions (map fst eitems)) as [ps|] eqn:Edp; cbn [bind match_draw]; [|reflexivity].
    assert (Hlsh : List.length (spec_shares amount ps) = List.length items).
    { rewrite spec_shares_length. destruct (denoted_portions_sum _ _ Edp) as [_ Hl2]. rewrite map_length in Hl2.
      rewrite Hl2. symmetry. eapply Forall2_len. exact Hsub. }
    revert Hlsh. generalize (spec_shares amount ps) as shares. clear Hcl Hea Hm Hlen aps El Edp.
    revert sd. induction Hsub as [|[[r0 a] s] [c e1] items eitems Hs Hsub IH']; intros sd shares Hlsh.
    + cbn. reflexivity.
    + inversion IHi as [|? ? Hx IHi']; subst. cbn [snd] in Hx, Hs.
      cbn [try_allot draw_allot]. destruct shares as [|sh shares]; [discriminate|]. cbn [List.length] in Hlsh.
      specialize (Hx e1 sh sd Hs). destruct (draw bal e1 sh sd) as [g p| |]; cbn [match_draw] in Hx; rewrite Hx; cbn [bind match_draw]; try reflexivity.
      destruct (g =? sh); [|reflexivity]. apply (IH' IHi'). lia.
  - (* capped *)
    cbn [eval_esrc] in Hev.
    destruct (ok_opt (eval_as vs c (expect_monetary_of_asset asset))) as [cap|] eqn:Ec; [|discriminate].
    destruct (eval_esrc vs asset f) as [ef|] eqn:Ef; [|discriminate]. injection Hev as <-.
    apply ok_opt_some in Ec. cbn [try_sending_up_to draw]. rewrite Ec. cbn [bind].
    replace (if Z.min amount cap <? 0 then 0 else Z.min amount cap) with (Z.max 0 (Z.min amount cap))
      by (destruct (Z.min amount cap <? 0) eqn:E; lia).
    apply IH. reflexivity.
  - (* overdraft *)
    cbn [eval_esrc] in Hev. destruct (ok_opt (eval_as vs a expect_account)) as [acct|] eqn:Ea; [|discriminate].
    apply ok_opt_some in Ea. destruct b as [be|].
    + destruct (ok_opt (eval_as vs be (expect_monetary_of_asset asset))) as [cap|] eqn:Ec; [|discriminate].
      injection Hev as <-. apply ok_opt_some in Ec. cbn [try_sending_up_to draw]. rewrite Ec. cbn [bind].
      rewrite (try_account_refines a acct (Some cap) _ amount sd Ea eq_refl). cbn zeta. reflexivity.
    + injection Hev as <-. cbn [try_sending_up_to draw].
      rewrite (try_account_refines a acct None None amount sd Ea). cbn zeta. reflexivity.
      destruct (String.eqb acct WORLD); reflexivity.
Qed.
End Refine.

(* ---- trySendingExact and sendAll ---- *)
Section Refine2.
Variable vs : env.
Variable cache : balances.
Variable asset : string.
Let bal (a : string) : Z := bget cache a asset.

Theorem try_sending_exact_refines src es n (sd : list entry) :
  eval_esrc vs asset src = Some es ->
  match draw bal es n sd with
  | Drawn g p => try_sending_exact vs cache asset src n sd = (if g =? n then Ok p else Err (MissingFundsErr asset n g))
  | Short a b => try_sending_exact vs cache asset src n sd = Err (MissingFundsErr asset a b)
  | BadAllotment => try_sending_exact vs cache asset src n sd = Err InvalidAllotmentSum
  end.
Proof.
  intros Hev. pose proof (try_sending_refines vs cache asset src es n sd Hev) as H.
  unfold try_sending_exact. fold bal in H.
  destruct (draw bal es n sd) as [g p|a b|]; cbn [match_draw] in H; rewrite H; cbn [bind]; try reflexivity.
Qed.

Definition match_drain (m : res (Z * list entry)) (d : drain_result) : Prop :=
  match d with
  | Drained g p => m = Ok (g, p)
  | Rejected => exists e, m = Err e /\ (e = InvalidAllotmentInSendAll \/ exists n, e = InvalidUnboundedInSendAll n)
  | DrainShort a b => m = Err (MissingFundsErr asset a b)
  | DrainBadAllotment => m = Err InvalidAllotmentSum
  end.

Fixpoint send_all_inorder (l : list source) (total : Z) (sd : list entry) : res (Z * list entry) :=
  match l with
  | [] => Ok (total, sd)
  | s :: l' => '(sent, sd') <- send_all vs cache asset s sd ;; send_all_inorder l' (total + sent) sd'
  end.

Lemma send_all_inorder_eq r l sd : send_all vs cache asset (SInorder r l) sd = send_all_inorder l 0 sd.
Proof.
  cbn [send_all]. generalize 0 as total. revert sd.
  induction l as [|s l IH]; intros sd total; cbn [send_all_inorder]; [reflexivity|].
  destruct (send_all vs cache asset s sd) as [[sent sd']| |]; cbn [bind]; try reflexivity; try apply IH.
Qed.

Fixpoint drain_inorder (l : list esrc) (tot : Z) (p : pulled) : drain_result :=
  match l with
  | [] => Drained tot p
  | s :: l' => match drain bal s p with
               | Drained g p' => drain_inorder l' (tot + g) p'
               | r => r
               end
  end.

Lemma drain_inorder_eq l p : drain bal (ESInorder l) p = drain_inorder l 0 p.
Proof.
  cbn [drain]. generalize 0 as tot. revert p.
  induction l as [|s l IH]; intros p tot; cbn [drain_inorder]; [reflexivity|].
  destruct (drain bal s p); try reflexivity; try apply IH.
Qed.

Lemma send_all_account_refines e a od0 sd :
  eval_as vs e expect_account = Ok a ->
  match_drain (send_all_to_account vs cache asset e od0 sd)
              (drain bal (ESAccount a (if String.eqb a WORLD then None else od0)) sd).
Proof.
  intros He. unfold send_all_to_account. rewrite He. cbn [bind].
  destruct (String.eqb a WORLD); cbn [drain match_drain].
  - eexists. split; [reflexivity|]. right. eexists. reflexivity.
  - destruct od0 as [k|]; cbn [drain match_drain].
    + rewrite already_sent_pulled. unfold bal, push_sender.
      set (x := bget cache a asset + k - pulled_of sd a).
      replace (if x <? 0 then 0 else x) with (Z.max 0 x) by (destruct (x <? 0) eqn:E; lia). reflexivity.
    + eexists. split; [reflexivity|]. right. eexists. reflexivity.
Qed.

Theorem send_all_refines : forall src es (sd : list entry),
  eval_esrc vs asset src = Some es -> match_drain (send_all vs cache asset src sd) (drain bal es sd).
Proof.
  induction src as [|e|r l IHl|r items IHi|r f c IH|r a b] using source_ind'; intros es sd Hev.
  - discriminate.
  - cbn [eval_esrc] in Hev. destruct (ok_opt (eval_as vs e expect_account)) as [acct|] eqn:Ea; [|discriminate].
    injection Hev as <-. apply ok_opt_some in Ea. cbn [send_all].
    apply (send_all_account_refines e acct (Some 0) sd Ea).
  - rewrite eval_esrc_inorder_eq in Hev.
    destruct (eval_esrc_list vs asset l) as [el|] eqn:El; [|discriminate]. injection Hev as <-.
    rewrite send_all_inorder_eq, drain_inorder_eq. generalize 0 as tot.
    revert el El sd. induction l as [|s l IHl']; intros el El sd tot.
    + injection El as <-. cbn. reflexivity.
    + inversion IHl as [|? ? Hs IHl'']; subst. cbn [eval_esrc_list] in El.
      destruct (eval_esrc vs asset s) as [e1|] eqn:E1; [|discriminate].
      destruct (eval_esrc_list vs asset l) as [el'|] eqn:El'; [|discriminate].
      injection El as <-. cbn [send_all_inorder drain_inorder].
      specialize (Hs e1 sd eq_refl). destruct (drain bal e1 sd) as [g p| |a b|]; cbn [match_drain] in Hs.
      * rewrite Hs. cbn [bind]. apply (IHl' IHl'' el' eq_refl).
      * destruct Hs as [e [-> He]]. cbn [bind match_drain]. eexists. split; [reflexivity|exact He].
      * rewrite Hs. reflexivity.
      * rewrite Hs. reflexivity.
  - rewrite eval_esrc_allot_eq in Hev.
    destruct (eval_esrc_items vs asset items) as [eitems|]; [|discriminate]. injection Hev as <-.
    cbn [send_all drain match_drain]. eexists. split; [reflexivity|]. left. reflexivity.
  - cbn [eval_esrc] in Hev.
    destruct (ok_opt (eval_as vs c (expect_monetary_of_asset asset))) as [cap|] eqn:Ec; [|discriminate].
    destruct (eval_esrc vs asset f) as [ef|] eqn:Ef; [|discriminate]. injection Hev as <-.
    apply ok_opt_some in Ec. cbn [send_all drain]. rewrite Ec. cbn [bind].
    replace (if cap <? 0 then 0 else cap) with (Z.max 0 cap) by (destruct (cap <? 0) eqn:E; lia).
    pose proof (try_sending_refines vs cache asset f ef (Z.max 0 cap) sd Ef) as H. fold bal in H.
    destruct (draw bal ef (Z.max 0 cap) sd); cbn [match_draw match_drain] in *; exact H.
  - cbn [eval_esrc] in Hev. destruct (ok_opt (eval_as vs a expect_account)) as [acct|] eqn:Ea; [|discriminate].
    apply ok_opt_some in Ea. destruct b as [be|].
    + destruct (ok_opt (eval_as vs be (expect_monetary_of_asset asset))) as [cap|] eqn:Ec; [|discriminate].
      injection Hev as <-. apply ok_opt_some in Ec. cbn [send_all]. rewrite Ec. cbn [bind].
      apply (send_all_account_refines a acct (Some cap) sd Ea).
    + injection Hev as <-. cbn [send_all].
      pose proof (send_all_account_refines a acct None sd Ea) as H.
      destruct (String.eqb acct WORLD); exact H.
Qed.
End Refine2.
