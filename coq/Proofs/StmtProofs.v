(* Statement level: a send statement of the model is the greedy draw, the specified distribution
   and their first-come-first-served pairing (C02, C03, C04, C05 on the model). *)
From Coq Require Import Lia ZifyBool.
From NS Require Import Stmt EvalTrees Pairing ReconcileProofs AllotProofs GreedyProofs SourceProofs DestProofs.

Definition amounts (l : list entry) : Z := zsum (map snd l).
Definition posted (ps : list posting) : Z := zsum (map pamt ps).
Definition nonkept (l : list entry) : Z :=
  zsum (map (fun e : entry => if String.eqb (fst e) KEPT_ADDR then 0 else snd e) l).

Lemma amounts_cons e l : amounts (e :: l) = snd e + amounts l.
Proof. reflexivity. Qed.
Lemma nonkept_cons e l : nonkept (e :: l) = (if String.eqb (fst e) KEPT_ADDR then 0 else snd e) + nonkept l.
Proof. reflexivity. Qed.

Lemma amounts_pos l : pos_entries l -> 0 <= amounts l.
Proof. induction 1 as [|e l He H IH]; [cbn; lia|]. rewrite amounts_cons. lia. Qed.

Lemma amounts_drop_units k S : pos_entries S -> 0 <= k <= amounts S -> amounts (drop_units k S) = amounts S - k.
Proof.
  intros HS. revert k. induction HS as [|[s m] S Hm HS IH]; intros k Hk.
  - cbn in *. lia.
  - cbn [snd] in Hm. rewrite amounts_cons in Hk. cbn [snd] in Hk. cbn [drop_units].
    destruct (k <=? 0) eqn:E0; [rewrite amounts_cons; cbn [snd]; lia|].
    destruct (k <? m) eqn:E1; [rewrite !amounts_cons; cbn [snd]; lia|].
    rewrite IH by lia. rewrite amounts_cons. cbn [snd]. lia.
Qed.

Lemma posted_emit asset acc s r a : posted (emit asset acc s r a) = posted acc + a.
Proof.
  unfold emit, posted. destruct acc as [|p acc]; [cbn; lia|].
  destruct (_ && _)%bool; cbn [map pamt]; rewrite !zsum_cons; lia.
Qed.

Lemma posted_rev ps : posted (rev ps) = posted ps.
Proof.
  unfold posted. rewrite map_rev. induction (map pamt ps) as [|x l IH]; [reflexivity|].
  cbn [rev]. rewrite zsum_app, IH, !zsum_cons. change (zsum []) with 0. lia.
Qed.

(* when as much was drawn as is to be distributed, everything not kept is posted *)
Lemma rec_loop_total asset fuel : forall S R acc out,
  pos_entries S -> pos_entries R -> amounts S = amounts R ->
  rec_loop asset fuel S R acc = Some out -> posted out = posted acc + nonkept R.
Proof.
  induction fuel as [|fuel IH]; intros S R acc out HS HR Heq H; [discriminate|].
  cbn [rec_loop] in H. destruct R as [|[r rm] R'].
  - injection H as <-. cbn. lia.
  - inversion HR as [|? ? Hrm HR']; subst. cbn [snd] in Hrm.
    rewrite amounts_cons in Heq. cbn [snd] in Heq. pose proof (amounts_pos R' HR') as HpR.
    rewrite nonkept_cons. cbn [fst snd].
    destruct (String.eqb r KEPT_ADDR) eqn:Er.
    + rewrite (IH _ _ _ _ (pos_drop_units rm S HS) HR' ltac:(rewrite amounts_drop_units by (assumption || lia); lia) H). lia.
    + destruct S as [|[s0 sm] S'].
      * cbn in Heq. lia.
      * inversion HS as [|? ? Hsm HS']; subst. cbn [snd] in Hsm.
        rewrite amounts_cons in Heq. cbn [snd] in Heq.
        destruct (Z.compare_spec sm rm) as [C|C|C].
        -- subst rm. rewrite (IH _ _ _ _ HS' HR' ltac:(lia) H), posted_emit. lia.
        -- assert (HR2 : pos_entries ((r, rm - sm) :: R')) by (constructor; [cbn [snd]; lia|assumption]).
           rewrite (IH _ _ _ _ HS' HR2 ltac:(rewrite amounts_cons; cbn [snd]; lia) H), posted_emit, nonkept_cons.
           cbn [fst snd]. rewrite Er. lia.
        -- assert (HS2 : pos_entries ((s0, sm - rm) :: S')) by (constructor; [cbn [snd]; lia|assumption]).
           rewrite (IH _ _ _ _ HS2 HR' ltac:(rewrite amounts_cons; cbn [snd]; lia) H), posted_emit. lia.
Qed.

Theorem reconcile_total asset S R ps :
  pos_entries S -> pos_entries R -> amounts S = amounts R ->
  reconcile asset S R = Some ps -> posted ps = nonkept R.
Proof.
  intros HS HR Heq H. unfold reconcile in H.
  destruct (rec_loop asset (reconcile_fuel S R) S R []) as [out|] eqn:E; [|discriminate].
  injection H as <-. rewrite posted_rev, (rec_loop_total _ _ _ _ _ _ HS HR Heq E). cbn. lia.
Qed.

(* no account is debited more than was drawn from it *)
Lemma debited_emit asset acc s r a x :
  zsum (map (fun p => if String.eqb (psrc p) x then pamt p else 0) (emit asset acc s r a)) =
  zsum (map (fun p => if String.eqb (psrc p) x then pamt p else 0) acc) + (if String.eqb s x then a else 0).
Proof.
  unfold emit. destruct acc as [|p acc]; [cbn; lia|].
  destruct (String.eqb (psrc p) s) eqn:E1; destruct (String.eqb (pdst p) r) eqn:E2; cbn [andb map psrc pamt];
    rewrite !zsum_cons; try lia.
  apply String.eqb_eq in E1. subst s. destruct (String.eqb (psrc p) x); lia.
Qed.

Definition debited (ps : list posting) (x : string) : Z :=
  zsum (map (fun p => if String.eqb (psrc p) x then pamt p else 0) ps).

Lemma pulled_of_cons e l x : pulled_of (e :: l) x = (if String.eqb (fst e) x then snd e else 0) + pulled_of l x.
Proof. reflexivity. Qed.

Lemma pulled_of_nonneg S x : pos_entries S -> 0 <= pulled_of S x.
Proof. induction 1 as [|e l He H IH]; [cbn; lia|]. rewrite pulled_of_cons. destruct (String.eqb (fst e) x); lia. Qed.

Lemma pulled_drop_units k S x : pos_entries S -> 0 <= pulled_of (drop_units k S) x <= pulled_of S x.
Proof.
  intros HS. revert k. induction HS as [|[s m] S Hm HS IH]; intros k; cbn [drop_units].
  - cbn. lia.
  - cbn [snd] in Hm. pose proof (pulled_of_nonneg S x HS) as Hp. destruct (k <=? 0) eqn:E0.
    + rewrite pulled_of_cons. cbn [fst snd]. destruct (String.eqb s x); lia.
    + destruct (k <? m) eqn:E.
      * rewrite !pulled_of_cons. cbn [fst snd]. destruct (String.eqb s x); lia.
      * rewrite pulled_of_cons. cbn [fst snd]. specialize (IH (k - m)). destruct (String.eqb s x); lia.
Qed.

Lemma rec_loop_debited asset fuel x : forall S R acc out,
  pos_entries S -> pos_entries R ->
  rec_loop asset fuel S R acc = Some out -> debited out x <= debited acc x + pulled_of S x.
Proof.
  induction fuel as [|fuel IH]; intros S R acc out HS HR H; [discriminate|].
  pose proof (pulled_of_nonneg S x HS) as HSx.
  cbn [rec_loop] in H. destruct R as [|[r rm] R']; [injection H as <-; lia|].
  inversion HR as [|? ? Hrm HR']; subst. cbn [snd] in Hrm.
  destruct (String.eqb r KEPT_ADDR).
  - pose proof (IH _ _ _ _ (pos_drop_units rm S HS) HR' H). pose proof (pulled_drop_units rm S x HS). lia.
  - destruct S as [|[s0 sm] S']; [injection H as <-; lia|].
    inversion HS as [|? ? Hsm HS']; subst. cbn [snd] in Hsm. rewrite pulled_of_cons in *. cbn [fst snd] in *.
    destruct (Z.compare_spec sm rm) as [C|C|C].
    + pose proof (IH _ _ _ _ HS' HR' H) as G. unfold debited in G at 2. rewrite debited_emit in G. fold (debited acc x) in G.
      destruct (String.eqb s0 x); lia.
    + assert (HR2 : pos_entries ((r, rm - sm) :: R')) by (constructor; [cbn [snd]; lia|assumption]).
      pose proof (IH _ _ _ _ HS' HR2 H) as G. unfold debited in G at 2. rewrite debited_emit in G. fold (debited acc x) in G.
      destruct (String.eqb s0 x); lia.
    + assert (HS2 : pos_entries ((s0, sm - rm) :: S')) by (constructor; [cbn [snd]; lia|assumption]).
      pose proof (IH _ _ _ _ HS2 HR' H) as G. unfold debited in G at 2. rewrite debited_emit in G. fold (debited acc x) in G.
      rewrite pulled_of_cons in G. cbn [fst snd] in G. destruct (String.eqb s0 x); lia.
Qed.

Theorem reconcile_debited asset S R ps x :
  pos_entries S -> pos_entries R -> reconcile asset S R = Some ps -> debited ps x <= pulled_of S x.
Proof.
  intros HS HR H. unfold reconcile in H.
  destruct (rec_loop asset (reconcile_fuel S R) S R []) as [out|] eqn:E; [|discriminate].
  injection H as <-. pose proof (rec_loop_debited asset _ x _ _ _ _ HS HR E) as G.
  unfold debited in *. rewrite map_rev.
  assert (forall l, zsum (rev l) = zsum l) as Hrev.
  { intros l. induction l as [|y l IH]; [reflexivity|]. cbn [rev]. rewrite zsum_app, IH, !zsum_cons. change (zsum []) with 0. lia. }
  rewrite Hrev. cbn in G. lia.
Qed.

(* ---------------- a fixed-amount send statement, end to end ---------------- *)
Lemma nonzero_pos cr : Forall (fun e : string * Z => 0 <= snd e) cr -> pos_entries (nonzero cr).
Proof.
  intros H. unfold nonzero, pos_entries. induction H as [|e l He H IH]; cbn [filter]; [constructor|].
  destruct (snd e =? 0) eqn:E; cbn [negb]; [exact IH|]. constructor; [lia|exact IH].
Qed.

Lemma amounts_nonzero cr : amounts (nonzero cr) = total cr.
Proof.
  unfold nonzero, total. induction cr as [|e l IH]; [reflexivity|]. cbn [filter map].
  destruct (snd e =? 0) eqn:E; cbn [negb]; [|rewrite amounts_cons]; rewrite zsum_cons; lia.
Qed.

Lemma nonkept_nonzero cr : nonkept (nonzero cr) = total cr - credited_to cr KEPT.
Proof.
  unfold nonzero, total, credited_to. induction cr as [|e l IH]; [reflexivity|]. cbn [filter map].
  rewrite !zsum_cons. change KEPT with KEPT_ADDR in *.
  destruct (snd e =? 0) eqn:E; cbn [negb]; [|rewrite nonkept_cons]; destruct (String.eqb (fst e) KEPT_ADDR); lia.
Qed.

Section SendSpec.
Variable vs : env.
Variable cache : balances.

(* the draw list and the distribution list of a fixed-amount send are the greedy draw and the
   specified distribution; errors are exactly the specified ones *)
Theorem send_lists_fixed r m src dst asset n es ed :
  eval_as vs m expect_monetary = Ok (asset, n) -> 0 <= n ->
  eval_esrc vs asset src = Some es -> wf_esrc es ->
  eval_edest vs asset dst = Some ed -> wf_edest ed ->
  match draw_exact (fun a => bget cache a asset) es n with
  | Short a b => send_lists vs (SVLit r m) src dst cache = Err (MissingFundsErr asset a b)
  | BadAllotment => send_lists vs (SVLit r m) src dst cache = Err InvalidAllotmentSum
  | Drawn _ p =>
      match distribute ed n with
      | None => send_lists vs (SVLit r m) src dst cache = Err InvalidAllotmentSum
      | Some cr =>
          send_lists vs (SVLit r m) src dst cache = Ok (asset, p, nonzero cr)
          /\ pos_entries p /\ pos_entries (nonzero cr) /\ amounts p = n /\ amounts (nonzero cr) = n
      end
  end.
Proof.
  intros Hm Hn Hes Hwf Hed Hwfd. unfold send_lists. rewrite Hm. cbn [bind].
  replace (n <? 0) with false by lia.
  pose proof (try_sending_exact_refines vs cache asset src es n [] Hes) as Hx.
  unfold draw_exact. unfold entry, pulled in *.
  destruct (draw (fun a => bget cache a asset) es n []) as [g p|a b|] eqn:Ed; cbv beta iota;
    [|rewrite Hx; reflexivity|rewrite Hx; reflexivity].
  destruct (draw_bounds _ es n [] g p Hwf Hn Ed) as [Hg [[q [Hq [Hqpos Hqsum]]] _]]. cbn [app] in Hq. subst q.
  destruct (g =? n) eqn:Eg; cbv beta iota; rewrite Hx; [|reflexivity]. cbn [bind].
  destruct (receive_refines vs asset) as [Hr _]. specialize (Hr dst ed n [] Hed). unfold entry in *.
  destruct (distribute ed n) as [cr|] eqn:Edist; cbn [match_dist] in Hr; rewrite Hr; cbn [bind app]; [|reflexivity].
  destruct distribute_conserves as [Hc _]. destruct (Hc ed n cr Hwfd Hn Edist) as [Ht Hnn].
  repeat split.
  - exact Hqpos.
  - apply nonzero_pos. exact Hnn.
  - unfold amounts. lia.
  - rewrite amounts_nonzero. exact Ht.
Qed.

(* C03 + C02 + C05 on the model: a fixed-amount send either fails with the specified error or
   posts exactly the amount minus what the destination keeps, in positive postings of the
   statement's asset between real accounts, debiting no account more than was drawn from it *)
Theorem run_send_fixed r m src dst asset n es ed st :
  eval_as vs m expect_monetary = Ok (asset, n) -> 0 <= n ->
  eval_esrc vs asset src = Some es -> wf_esrc es ->
  eval_edest vs asset dst = Some ed -> wf_edest ed ->
  st_cache st = cache ->
  match draw_exact (fun a => bget cache a asset) es n with
  | Short a b => run_send vs (SVLit r m) src dst st = Err (MissingFundsErr asset a b)
  | BadAllotment => run_send vs (SVLit r m) src dst st = Err InvalidAllotmentSum
  | Drawn _ p =>
      match distribute ed n with
      | None => run_send vs (SVLit r m) src dst st = Err InvalidAllotmentSum
      | Some cr =>
          exists ps, run_send vs (SVLit r m) src dst st
                       = Ok (ps, mkstate (apply_postings cache ps) (st_txmeta st) (st_accmeta st))
            /\ reconcile asset p (nonzero cr) = Some ps
            /\ posted ps = n - credited_to cr KEPT
            /\ Forall (posting_ok p (nonzero cr)) ps
            /\ Forall (fun q => passet q = asset) ps
            /\ (forall x, debited ps x <= pulled_of p x)
            /\ (forall s d, d <> KEPT_ADDR -> flow ps s d = flow_units p (nonzero cr) s d)
      end
  end.
Proof.
  intros Hm Hn Hes Hwf Hed Hwfd Hc. unfold run_send. rewrite Hc.
  pose proof (send_lists_fixed r m src dst asset n es ed Hm Hn Hes Hwf Hed Hwfd) as H.
  destruct (draw_exact (fun a => bget cache a asset) es n) as [g p|a b|]; try (rewrite H; reflexivity).
  destruct (distribute ed n) as [cr|]; [|rewrite H; reflexivity].
  destruct H as [H [Hp [Hr [Hap Har]]]]. rewrite H. cbn [bind].
  destruct (reconcile_spec asset p (nonzero cr) Hp Hr) as [ps [Hrec [Hflow [Hok Hasset]]]].
  exists ps. unfold get_postings. rewrite Hrec. repeat split; try assumption.
  - rewrite Hc. reflexivity.
  - rewrite (reconcile_total asset p (nonzero cr) ps Hp Hr ltac:(lia) Hrec), nonkept_nonzero.
    destruct distribute_conserves as [Hcons _].
    assert (total cr = n) by (rewrite <- amounts_nonzero; exact Har). lia.
  - intros x. apply (reconcile_debited asset p (nonzero cr) ps x Hp Hr Hrec).
Qed.
End SendSpec.

Lemma run_send_negative vs r m src dst asset n st :
  eval_as vs m expect_monetary = Ok (asset, n) -> n < 0 ->
  run_send vs (SVLit r m) src dst st = Err (NegativeAmountErr n).
Proof.
  intros Hm Hn. unfold run_send, send_lists. rewrite Hm. cbn [bind].
  replace (n <? 0) with true by lia. reflexivity.
Qed.

(* C09 core: statements compose sequentially *)
Lemma run_stmts_app vs ss1 ss2 st :
  run_stmts vs (ss1 ++ ss2) st =
  ('(ps1, st1) <- run_stmts vs ss1 st ;; '(ps2, st2) <- run_stmts vs ss2 st1 ;; Ok (ps1 ++ ps2, st2)).
Proof.
  revert st. induction ss1 as [|s ss1 IH]; intros st; cbn [app run_stmts bind].
  - destruct (run_stmts vs ss2 st) as [[ps2 st2]| |]; reflexivity.
  - destruct (run_stmt vs s st) as [[ps st1]| |]; cbn [bind]; try reflexivity.
    rewrite IH. destruct (run_stmts vs ss1 st1) as [[ps1 st1']| |]; cbn [bind]; try reflexivity.
    destruct (run_stmts vs ss2 st1') as [[ps2 st2]| |]; cbn [bind]; try reflexivity.
    now rewrite app_assoc.
Qed.

Lemma run_stmts_abort vs ss1 s ss2 st st1 ps1 e :
  run_stmts vs ss1 st = Ok (ps1, st1) -> run_stmt vs s st1 = Err e ->
  run_stmts vs (ss1 ++ s :: ss2) st = Err e.
Proof.
  intros H1 H2. rewrite run_stmts_app, H1. cbn [bind run_stmts]. rewrite H2. reflexivity.
Qed.

(* ---------------- a send-all statement, end to end ---------------- *)
Section SendAllSpec.
Variable vs : env.
Variable cache : balances.

Theorem run_send_all r a src dst asset es ed st :
  eval_as vs a expect_asset = Ok asset ->
  eval_esrc vs asset src = Some es -> wf_esrc es ->
  eval_edest vs asset dst = Some ed -> wf_edest ed ->
  st_cache st = cache ->
  match drain (fun x => bget cache x asset) es [] with
  | Rejected => exists e, run_send vs (SVAll r a) src dst st = Err e /\
                  (e = InvalidAllotmentInSendAll \/ exists n, e = InvalidUnboundedInSendAll n)
  | DrainShort x y => run_send vs (SVAll r a) src dst st = Err (MissingFundsErr asset x y)
  | DrainBadAllotment => run_send vs (SVAll r a) src dst st = Err InvalidAllotmentSum
  | Drained g p =>
      match distribute ed g with
      | None => run_send vs (SVAll r a) src dst st = Err InvalidAllotmentSum
      | Some cr =>
          exists ps, run_send vs (SVAll r a) src dst st
                       = Ok (ps, mkstate (apply_postings cache ps) (st_txmeta st) (st_accmeta st))
            /\ reconcile asset p (nonzero cr) = Some ps
            /\ posted ps = g - credited_to cr KEPT
            /\ Forall (posting_ok p (nonzero cr)) ps
            /\ Forall (fun q => passet q = asset) ps
            /\ (forall x, debited ps x <= pulled_of p x)
            /\ (forall s d, d <> KEPT_ADDR -> flow ps s d = flow_units p (nonzero cr) s d)
      end
  end.
Proof.
  intros Ha Hes Hwf Hed Hwfd Hc. unfold run_send, send_lists. rewrite Ha, Hc. cbn [bind].
  pose proof (send_all_refines vs cache asset src es [] Hes) as Hx. unfold entry, pulled in *.
  destruct (drain (fun x => bget cache x asset) es []) as [g p| |x y|] eqn:Ed; cbn [match_drain] in Hx.
  - rewrite Hx. cbn [bind].
    destruct (drain_bounds _ es [] g p Hwf Ed) as [Hg [[q [Hq [Hqpos Hqsum]]] _]]. cbn [app] in Hq. subst q.
    destruct (receive_refines vs asset) as [Hr _]. specialize (Hr dst ed g [] Hed). unfold entry in *.
    destruct (distribute ed g) as [cr|] eqn:Edist; cbn [match_dist] in Hr; rewrite Hr; cbn [bind app]; [|reflexivity].
    destruct distribute_conserves as [Hcons _]. destruct (Hcons ed g cr Hwfd Hg Edist) as [Ht Hnn].
    pose proof (nonzero_pos cr Hnn) as Hrpos.
    destruct (reconcile_spec asset p (nonzero cr) Hqpos Hrpos) as [ps [Hrec [Hflow [Hok Hasset]]]].
    exists ps. unfold get_postings. rewrite Hrec. repeat split; try assumption.
    + rewrite Hc. reflexivity.
    + rewrite (reconcile_total asset p (nonzero cr) ps Hqpos Hrpos ltac:(rewrite amounts_nonzero; unfold amounts; lia) Hrec), nonkept_nonzero. lia.
    + intros x. apply (reconcile_debited asset p (nonzero cr) ps x Hqpos Hrpos Hrec).
  - destruct Hx as [e [Hx He]]. exists e. rewrite Hx. split; [reflexivity|exact He].
  - rewrite Hx. reflexivity.
  - rewrite Hx. reflexivity.
Qed.
End SendAllSpec.
