(* C10: the five store behaviours the harness runs the implementation against (Corr/Observe.v:
   static = the bundled StaticStore, exact, sparse, superset, poison = exact plus every
   unrequested cell at a wrong value) are faithful to the sheets they are
   built on, so [run_program_refines_sheet] applies to each of them. *)
From Coq Require Import Lia.
From NS Require Import Run LedgerProofs SheetRun SheetProofs Observe.

Lemma bfind_flat_map_some {A} (f : A -> balances) (P : cell -> Z -> Prop) (l : list A) k v :
  (forall x k' v', In x l -> In (k', v') (f x) -> P k' v') ->
  bfind k (flat_map f l) = Some v -> P k v.
Proof.
  intros H Hb. assert (Hin : In (k, v) (flat_map f l)).
  { clear H. induction (flat_map f l) as [|[k0 v0] m IH]; cbn [bfind] in Hb; [discriminate|].
    destruct (cell_eqb k k0) eqn:E; [apply cell_eqb_eq in E; subst; injection Hb as ->; left; reflexivity|right; apply IH, Hb]. }
  apply in_flat_map in Hin. destruct Hin as (x & Hx & Hin). exact (H x k v Hx Hin).
Qed.

Lemma bfind_none_notin k (m : balances) v : bfind k m = None -> ~ In (k, v) m.
Proof.
  induction m as [|[k0 v0] m IH]; cbn [bfind]; intros H; [intros []|].
  destruct (cell_eqb k k0) eqn:E; [discriminate|]. intros [G|G]; [|exact (IH H G)].
  injection G as -> ->. rewrite cell_eqb_refl in E. discriminate.
Qed.

Lemma requested_in q a c : requested q (a, c) = true -> exists l, In (a, l) q /\ In c l.
Proof.
  rewrite requested_unfold. destruct (alookup a q) as [l|] eqn:E; [|discriminate]. intros H.
  exists l. split; [apply alookup_some_in, E|apply mem_str_in, H].
Qed.

Theorem store_kinds_faithful k B M : faithful B M (mk_store k B M None).
Proof.
  split.
  - intros n q. unfold mk_store. eexists. split; [reflexivity|]. intros [a c] Hr _. cbn [fst snd].
    destruct k; cbn [answer_balances].
    + unfold bget. destruct (bfind (a, c) B); reflexivity.
    + (* exact *)
      match goal with |- context [bfind _ (flat_map ?f q)] => destruct (bfind (a, c) (flat_map f q)) as [v|] eqn:Ev end.
      * refine (bfind_flat_map_some _ (fun k v => v = bget B (fst k) (snd k)) q (a, c) v _ Ev).
        intros [a0 l0] k' v' _ Hin. cbn [fst snd] in Hin. apply in_map_iff in Hin. destruct Hin as (c0 & Hc0 & _).
        injection Hc0 as <- <-. reflexivity.
      * exfalso. destruct (requested_in q a c Hr) as (l & Hl & Hc).
        apply (bfind_none_notin _ _ (bget B a c) Ev). apply in_flat_map. exists (a, l). split; [exact Hl|].
        cbn [fst snd]. apply in_map_iff. exists c. split; [reflexivity|exact Hc].
    + (* sparse *)
      match goal with |- context [bfind _ (flat_map ?f q)] => destruct (bfind (a, c) (flat_map f q)) as [v|] eqn:Ev end.
      * refine (bfind_flat_map_some _ (fun k v => v = bget B (fst k) (snd k)) q (a, c) v _ Ev).
        intros [a0 l0] k' v' _ Hin. cbn [fst snd] in Hin. apply in_flat_map in Hin. destruct Hin as (c0 & _ & Hin).
        unfold bget. destruct (bfind (a0, c0) B) as [v0|] eqn:E0; [|contradiction].
        destruct (v0 =? 0); [contradiction|]. destruct Hin as [Hin|[]]. injection Hin as <- <-. cbn [fst snd]. now rewrite E0.
      * destruct (requested_in q a c Hr) as (l & Hl & Hc). unfold bget.
        destruct (bfind (a, c) B) as [v0|] eqn:E0; [|reflexivity].
        destruct (v0 =? 0) eqn:Ez; [lia|]. exfalso.
        apply (bfind_none_notin _ _ v0 Ev). apply in_flat_map. exists (a, l). split; [exact Hl|].
        cbn [fst snd]. apply in_flat_map. exists c. split; [exact Hc|]. rewrite E0, Ez. left. reflexivity.
    + unfold bget. destruct (bfind (a, c) B); reflexivity.
    + (* poison: the requested cell is found in the first, exact, part *)
      rewrite bfind_app.
      match goal with |- context [bfind _ (flat_map ?f q)] => destruct (bfind (a, c) (flat_map f q)) as [v|] eqn:Ev end.
      * refine (bfind_flat_map_some _ (fun k v => v = bget B (fst k) (snd k)) q (a, c) v _ Ev).
        intros [a0 l0] k' v' _ Hin. cbn [fst snd] in Hin. apply in_map_iff in Hin. destruct Hin as (c0 & Hc0 & _).
        injection Hc0 as <- <-. reflexivity.
      * exfalso. destruct (requested_in q a c Hr) as (l & Hl & Hc).
        apply (bfind_none_notin _ _ (bget B a c) Ev). apply in_flat_map. exists (a, l). split; [exact Hl|].
        cbn [fst snd]. apply in_map_iff. exists c. split; [reflexivity|exact Hc].
  - intros n account key. unfold mk_store. eexists. split; [reflexivity|].
    destruct k; cbn [answer_meta]; try reflexivity.
    + unfold meta_lookup. destruct (alookup account M) as [am|]; [|reflexivity].
      destruct (alookup key am) as [v|]; [|reflexivity]. cbn [alookup]. rewrite String.eqb_refl. cbn [alookup]. now rewrite String.eqb_refl.
    + unfold meta_lookup. destruct (alookup account M) as [am|]; [|reflexivity].
      destruct (alookup key am) as [v|]; [|reflexivity]. cbn [alookup]. rewrite String.eqb_refl. cbn [alookup]. now rewrite String.eqb_refl.
    + unfold meta_lookup. destruct (alookup account M) as [am|]; [|reflexivity].
      destruct (alookup key am) as [v|]; [|reflexivity]. cbn [alookup]. rewrite String.eqb_refl. cbn [alookup]. now rewrite String.eqb_refl.
Qed.

(* whatever the behaviour of the store, the model computes the sheet semantics *)
Corollary store_kinds_refine k B M p raw flag :
  outcome_of (run_program p raw (mk_store k B M None) flag) = run_sheet B M p raw flag.
Proof. apply run_program_refines_sheet, store_kinds_faithful. Qed.
