(* C10 / C11: the store layer of the model (batch queries, cache, variable origins). *)
From Coq Require Import Lia.
From NS Require Import Run SyntaxInd LedgerProofs.

(* ---- a value learned from an earlier request is not forgotten when a later request is made ---- *)
Lemma bfind_app_some c1 c2 k v : bfind k c1 = Some v -> bfind k (c1 ++ c2) = Some v.
Proof.
  induction c1 as [|[k0 v0] c1 IH]; cbn [bfind app]; [discriminate|].
  destruct (cell_eqb k k0); [auto|exact IH].
Qed.

Theorem cache_monotone ans : forall cache k v, bfind k cache = Some v -> bfind k (merge_balances cache ans) = Some v.
Proof.
  unfold merge_balances. induction ans as [|e ans IH]; intros cache k v H; cbn [fold_left]; [exact H|].
  apply IH. destruct (bmem cache (fst (fst e)) (snd (fst e))); [exact H|apply bfind_app_some, H].
Qed.

(* ---- the balance of @world is never requested ---- *)
Definition no_world (q : bquery) : Prop := forall assets, ~ In (WORLD, assets) q.

Lemma alookup_in {A} k (v : A) m : In (k, v) m -> exists v', alookup k m = Some v'.
Proof.
  induction m as [|[k0 v0] m IH]; [contradiction|]. intros [H|H]; cbn [alookup].
  - injection H as -> ->. rewrite String.eqb_refl. eexists; reflexivity.
  - destruct (String.eqb k k0); [eexists; reflexivity|apply IH, H].
Qed.

Lemma aset_in {A} k (v : A) m k' v' : In (k', v') (aset k v m) -> (k' = k /\ v' = v) \/ In (k', v') m.
Proof.
  induction m as [|[k0 v0] m IH]; cbn [aset].
  - intros [H|[]]. injection H as <- <-. left. split; reflexivity.
  - destruct (String.eqb k k0) eqn:E.
    + intros [H|H]; [injection H as <- <-; left; split; reflexivity|right; right; exact H].
    + intros [H|H]; [right; left; exact H|]. destruct (IH H) as [G|G]; [left; exact G|right; right; exact G].
Qed.

Lemma batch_query_no_world a x q : no_world q -> no_world (batch_query a x q).
Proof.
  intros H. unfold batch_query. destruct (String.eqb a WORLD) eqn:E; [exact H|].
  destruct (mem_str x _); [exact H|]. intros assets Hin. apply aset_in in Hin. destruct Hin as [[Hw _]|Hin].
  - subst a. rewrite String.eqb_refl in E. discriminate.
  - exact (H assets Hin).
Qed.

Lemma filter_query_no_world cache q : no_world q -> no_world (filter_query cache q).
Proof. intros H assets Hin. unfold filter_query in Hin. apply filter_In in Hin. exact (H assets (proj1 Hin)). Qed.

Section FindQueries.
Variable vs : env.
Lemma find_queries_no_world asset : forall src q q', no_world q -> find_queries vs asset src q = Ok q' -> no_world q'.
Proof.
  induction src as [|e|r l IHl|r items IHi|r f c IH|r a b] using source_ind'; intros q q' Hq H; cbn [find_queries] in H; try discriminate.
  - destruct (eval_as vs e expect_account); cbn [bind] in H; try discriminate. injection H as <-. apply batch_query_no_world, Hq.
  - revert q Hq H. induction l as [|s l IHl']; intros q Hq H; [injection H as <-; exact Hq|].
    inversion IHl as [|? ? Hs IHl'']; subst.
    destruct (find_queries vs asset s q) as [q1| |] eqn:E; cbn [bind] in H; try discriminate.
    apply (IHl' IHl'' q1 (Hs q q1 Hq E) H).
  - revert q Hq H. induction items as [|[[r0 a] s] items IHi']; intros q Hq H; [injection H as <-; exact Hq|].
    inversion IHi as [|? ? Hx IHi'']; subst. cbn [snd] in Hx.
    destruct (find_queries vs asset s q) as [q1| |] eqn:E; cbn [bind] in H; try discriminate.
    apply (IHi' IHi'' q1 (Hx q q1 Hq E) H).
  - apply (IH q q' Hq H).
  - destruct b; [|injection H as <-; exact Hq].
    destruct (eval_as vs a expect_account); cbn [bind] in H; try discriminate. injection H as <-. apply batch_query_no_world, Hq.
Qed.

Lemma find_queries_stmts_no_world : forall ss q q', no_world q -> find_queries_stmts vs ss q = Ok q' -> no_world q'.
Proof.
  induction ss as [|s ss IH]; intros q q' Hq H; cbn [find_queries_stmts] in H; [injection H as <-; exact Hq|].
  destruct (find_queries_stmt vs s q) as [q1| |] eqn:E; cbn [bind] in H; try discriminate.
  apply (IH q1 q'); [|exact H].
  destruct s as [| |f|r sv src dst|r sv a]; cbn [find_queries_stmt] in E; try discriminate; try (injection E as <-; exact Hq).
  - destruct (eval_sent_amt vs sv) as [[asset amt]| |]; cbn [bind] in E; try discriminate.
    apply (find_queries_no_world asset src q q1 Hq E).
  - destruct (eval_sent_amt vs sv) as [[asset amt]| |]; cbn [bind] in E; try discriminate.
    destruct (eval_as vs a expect_account); cbn [bind] in E; try discriminate. injection E as <-. apply batch_query_no_world, Hq.
Qed.
End FindQueries.

(* every balance query ever sent to the store *)
Definition log_no_world (log : list store_call) : Prop :=
  forall q, In (CallBalances q) log -> no_world q.

Definition rs_ok (rs : rstate) : Prop := no_world (rs_query rs) /\ log_no_world (rs_log rs).

Lemma run_balances_query_ok sb rs rs' : rs_ok rs -> run_balances_query sb rs = Ok rs' -> rs_ok rs'.
Proof.
  intros [Hq Hl] H. unfold run_balances_query in H.
  destruct (filter_query (rs_cache rs) (rs_query rs)) as [|x l] eqn:E; [injection H as <-; split; assumption|].
  cbv zeta in H. destruct (sb (rs_ncalls rs) (CallBalances (x :: l))); try discriminate. injection H as <-.
  split; [intros assets []|]. intros q [Hin|Hin]; [|exact (Hl q Hin)].
  injection Hin as <-. rewrite <- E. apply filter_query_no_world, Hq.
Qed.

Lemma get_balance_ok sb a x rs b rs' : rs_ok rs -> get_balance sb a x rs = Ok (b, rs') -> rs_ok rs'.
Proof.
  intros [Hq Hl] H. unfold get_balance in H.
  destruct (run_balances_query sb _) as [rs2| |] eqn:E; cbn [lift_store bind] in H; try discriminate.
  injection H as _ <-.
  assert (G : rs_ok rs2).
  { eapply run_balances_query_ok; [|exact E]. split; [apply batch_query_no_world, Hq|exact Hl]. }
  destruct G as [G1 G2]. split; assumption.
Qed.

Lemma handle_origin_ok sb flag vs ty f rs v rs' : rs_ok rs -> handle_origin sb flag vs ty f rs = Ok (v, rs') -> rs_ok rs'.
Proof.
  intros Hrs H. unfold handle_origin in H.
  destruct (eval_exprs vs (fc_args f)) as [args| |]; cbn [bind] in H; try discriminate.
  destruct (String.eqb (fc_caller f) FnVarOriginMeta).
  - destruct (two_args args expect_account expect_string) as [[account key]| |]; cbn [bind] in H; try discriminate.
    destruct (sb (rs_ncalls rs) (CallMeta account key)); try discriminate.
    destruct (alookup account m); try discriminate. destruct (alookup key l); try discriminate.
    destruct (parse_var ty s); cbn [bind] in H; try discriminate. injection H as _ <-.
    destruct Hrs as [Hq Hl]. split; [exact Hq|]. intros q [Hin|Hin]; [discriminate|exact (Hl q Hin)].
  - destruct (String.eqb (fc_caller f) FnVarOriginBalance).
    + destruct (two_args args expect_account expect_asset) as [[account asset]| |]; cbn [bind] in H; try discriminate.
      destruct (get_balance sb account asset rs) as [[b rs2]| |] eqn:E; cbn [bind] in H; try discriminate.
      destruct (b <? 0); [discriminate|]. injection H as _ <-. apply (get_balance_ok sb account asset rs b rs2 Hrs E).
    + destruct (String.eqb (fc_caller f) FnVarOriginOverdraft); [|discriminate].
      destruct (negb flag); [discriminate|].
      destruct (two_args args expect_account expect_asset) as [[account asset]| |]; cbn [bind] in H; try discriminate.
      destruct (get_balance sb account asset rs) as [[b rs2]| |] eqn:E; cbn [bind] in H; try discriminate.
      injection H as _ <-. apply (get_balance_ok sb account asset rs b rs2 Hrs E).
Qed.

Lemma parse_vars_ok sb flag raw : forall decls vs rs vs' rs', rs_ok rs -> parse_vars sb flag decls raw vs rs = Ok (vs', rs') -> rs_ok rs'.
Proof.
  induction decls as [|d decls IH]; intros vs rs vs' rs' Hrs H; cbn [parse_vars] in H; [injection H as _ <-; exact Hrs|].
  destruct (vd_name d) as [[rn name]|]; [|discriminate]. destruct (vd_type d) as [[rt ty]|]; [|discriminate].
  destruct (vd_origin d) as [f|].
  - destruct (handle_origin sb flag vs ty f rs) as [[v rs1]| |] eqn:E; cbn [bind] in H; try discriminate.
    apply (IH _ rs1 vs' rs' (handle_origin_ok sb flag vs ty f rs v rs1 Hrs E) H).
  - destruct (alookup name raw); [|discriminate]. destruct (parse_var ty s); cbn [bind] in H; try discriminate.
    apply (IH _ rs vs' rs' Hrs H).
Qed.

(* C10: the balance of @world is never requested *)
Theorem world_never_queried p raw sb flag x :
  run_program p raw sb flag = Ok x -> forall q, In (CallBalances q) (x_log x) -> no_world q.
Proof.
  intros H q Hin. unfold run_program in H.
  destruct (prepare p raw sb flag) as [[vs rs2]| |] eqn:Ep; cbn [bind] in H; try discriminate.
  destruct (run_stmts vs (p_stmts p) _) as [[ps st]| |]; cbn [bind] in H; try discriminate. injection H as <-.
  cbn [x_log] in Hin. apply in_rev in Hin.
  unfold prepare in Ep.
  destruct (parse_vars sb flag (p_vars p) raw [] _) as [[vs1 rs1]| |] eqn:Ev; cbn [bind] in Ep; try discriminate.
  destruct (find_queries_stmts vs1 (p_stmts p) (rs_query rs1)) as [q1| |] eqn:Eq; cbn [bind] in Ep; try discriminate.
  destruct (run_balances_query sb _) as [rs3| |] eqn:Er; cbn [lift_store bind] in Ep; try discriminate. injection Ep as <- <-.
  assert (H0 : rs_ok (mkrstate [] [] 0 [])) by (split; [intros a []|intros q0 []]).
  destruct (parse_vars_ok sb flag raw _ _ _ _ _ H0 Ev) as [Hq1 Hl1].
  pose proof (find_queries_stmts_no_world vs1 (p_stmts p) _ q1 Hq1 Eq) as Hq2.
  assert (G : rs_ok rs3) by (eapply run_balances_query_ok; [|exact Er]; split; [exact Hq2|exact Hl1]).
  destruct G as [_ Hl3].
  exact (Hl3 q Hin).
Qed.

(* ---- C11: the feature flag changes nothing except the overdraft() function ---- *)
Definition uses_overdraft_fn (p : program) : bool :=
  existsb (fun d => match vd_origin d with Some f => String.eqb (fc_caller f) FnVarOriginOverdraft | None => false end) (p_vars p).

Lemma handle_origin_flag sb vs ty f rs b1 b2 :
  String.eqb (fc_caller f) FnVarOriginOverdraft = false ->
  handle_origin sb b1 vs ty f rs = handle_origin sb b2 vs ty f rs.
Proof.
  intros H. unfold handle_origin. destruct (eval_exprs vs (fc_args f)); cbn [bind]; try reflexivity.
  destruct (String.eqb (fc_caller f) FnVarOriginMeta); [reflexivity|].
  destruct (String.eqb (fc_caller f) FnVarOriginBalance); [reflexivity|]. rewrite H. reflexivity.
Qed.

Lemma parse_vars_flag sb raw b1 b2 : forall decls vs rs,
  existsb (fun d => match vd_origin d with Some f => String.eqb (fc_caller f) FnVarOriginOverdraft | None => false end) decls = false ->
  parse_vars sb b1 decls raw vs rs = parse_vars sb b2 decls raw vs rs.
Proof.
  induction decls as [|d decls IH]; intros vs rs H; cbn [parse_vars]; [reflexivity|].
  cbn [existsb] in H. apply Bool.orb_false_elim in H. destruct H as [Hd Hds].
  destruct (vd_name d) as [[rn name]|]; [|reflexivity]. destruct (vd_type d) as [[rt ty]|]; [|reflexivity].
  destruct (vd_origin d) as [f|].
  - rewrite (handle_origin_flag sb vs ty f rs b1 b2 Hd).
    destruct (handle_origin sb b2 vs ty f rs) as [[v rs1]| |]; cbn [bind]; try reflexivity. apply IH, Hds.
  - destruct (alookup name raw); [|reflexivity]. destruct (parse_var ty s); cbn [bind]; try reflexivity. apply IH, Hds.
Qed.

Theorem flag_only_gates_overdraft p raw sb b1 b2 :
  uses_overdraft_fn p = false -> run_program p raw sb b1 = run_program p raw sb b2.
Proof.
  intros H. unfold run_program, prepare. rewrite (parse_vars_flag sb raw b1 b2 (p_vars p) [] _ H). reflexivity.
Qed.

(* with the flag off, a script that does call overdraft() can only differ by the ExperimentalFeature error *)
Lemma handle_origin_flag_off sb vs ty f rs :
  handle_origin sb false vs ty f rs = handle_origin sb true vs ty f rs \/
  handle_origin sb false vs ty f rs = Err ExperimentalFeature.
Proof.
  unfold handle_origin. destruct (eval_exprs vs (fc_args f)); cbn [bind]; try (left; reflexivity).
  destruct (String.eqb (fc_caller f) FnVarOriginMeta); [left; reflexivity|].
  destruct (String.eqb (fc_caller f) FnVarOriginBalance); [left; reflexivity|].
  destruct (String.eqb (fc_caller f) FnVarOriginOverdraft); [right; reflexivity|left; reflexivity].
Qed.

Lemma parse_vars_flag_off sb raw : forall decls vs rs,
  parse_vars sb false decls raw vs rs = parse_vars sb true decls raw vs rs \/
  parse_vars sb false decls raw vs rs = Err ExperimentalFeature.
Proof.
  induction decls as [|d decls IH]; intros vs rs; cbn [parse_vars]; [left; reflexivity|].
  destruct (vd_name d) as [[rn name]|]; [|left; reflexivity]. destruct (vd_type d) as [[rt ty]|]; [|left; reflexivity].
  destruct (vd_origin d) as [f|].
  - destruct (handle_origin_flag_off sb vs ty f rs) as [E|E]; rewrite E; [|right; reflexivity].
    destruct (handle_origin sb true vs ty f rs) as [[v rs1]| |]; cbn [bind]; try (left; reflexivity). apply IH.
  - destruct (alookup name raw); [|left; reflexivity]. destruct (parse_var ty s); cbn [bind]; try (left; reflexivity). apply IH.
Qed.

Theorem flag_off_differs_only_by_experimental p raw sb :
  run_program p raw sb false = run_program p raw sb true \/ run_program p raw sb false = Err ExperimentalFeature.
Proof.
  unfold run_program, prepare. destruct (parse_vars_flag_off sb raw (p_vars p) [] (mkrstate [] [] 0 [])) as [E|E]; rewrite E; [left|right]; reflexivity.
Qed.
