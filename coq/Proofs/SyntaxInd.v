(* Induction principles for the nested inductive types of Model/Syntax.v. *)
From NS Require Import Syntax.

Section SourceInd.
  Variable P : source -> Prop.
  Hypothesis HNil : P SNil.
  Hypothesis HAccount : forall e, P (SAccount e).
  Hypothesis HInorder : forall r l, Forall P l -> P (SInorder r l).
  Hypothesis HAllot : forall r items, Forall (fun it : range * allot * source => P (snd it)) items -> P (SAllot r items).
  Hypothesis HCapped : forall r f c, P f -> P (SCapped r f c).
  Hypothesis HOverdraft : forall r a b, P (SOverdraft r a b).

  Fixpoint source_ind' (s : source) : P s :=
    match s with
    | SNil => HNil
    | SAccount e => HAccount e
    | SInorder r l =>
        HInorder r l ((fix go (l : list source) : Forall P l :=
                         match l with
                         | [] => Forall_nil P
                         | x :: l' => Forall_cons x (source_ind' x) (go l')
                         end) l)
    | SAllot r items =>
        HAllot r items ((fix go (l : list (range * allot * source)) : Forall (fun it => P (snd it)) l :=
                           match l with
                           | [] => Forall_nil _
                           | it :: l' => Forall_cons it (source_ind' (snd it)) (go l')
                           end) items)
    | SCapped r f c => HCapped r f c (source_ind' f)
    | SOverdraft r a b => HOverdraft r a b
    end.
End SourceInd.

Section DestInd.
  Variable P : dest -> Prop.
  Variable Q : kod -> Prop.
  Hypothesis HDNil : P DNil.
  Hypothesis HDAccount : forall e, P (DAccount e).
  Hypothesis HDInorder : forall r cl rem,
    Forall (fun c : range * expr * kod => Q (snd c)) cl -> Q rem -> P (DInorder r cl rem).
  Hypothesis HDAllot : forall r items,
    Forall (fun it : range * allot * kod => Q (snd it)) items -> P (DAllot r items).
  Hypothesis HKNil : Q KNil.
  Hypothesis HKKept : forall r, Q (KKept r).
  Hypothesis HKTo : forall d, P d -> Q (KTo d).

  Fixpoint dest_ind' (d : dest) : P d :=
    match d with
    | DNil => HDNil
    | DAccount e => HDAccount e
    | DInorder r cl rem =>
        HDInorder r cl rem
          ((fix go (l : list (range * expr * kod)) : Forall (fun c => Q (snd c)) l :=
              match l with
              | [] => Forall_nil _
              | c :: l' => Forall_cons c (kod_ind' (snd c)) (go l')
              end) cl)
          (kod_ind' rem)
    | DAllot r items =>
        HDAllot r items
          ((fix go (l : list (range * allot * kod)) : Forall (fun it => Q (snd it)) l :=
              match l with
              | [] => Forall_nil _
              | it :: l' => Forall_cons it (kod_ind' (snd it)) (go l')
              end) items)
    end
  with kod_ind' (k : kod) : Q k :=
    match k with
    | KNil => HKNil
    | KKept r => HKKept r
    | KTo d => HKTo d (dest_ind' d)
    end.

  Lemma dest_kod_ind : (forall d, P d) /\ (forall k, Q k).
  Proof. split; [exact dest_ind'|exact kod_ind']. Qed.
End DestInd.
