(* Obligations tying the regenerated tables (Gen/Tables.v, written by tools/gentables from the
   working tree) to the constants the hand-written model uses. A change of the implementation's
   tables makes this file fail to compile. *)
From NS Require Import Tables Run.
From NS Require Export ErrList.

Lemma tables_ok_core :
  gentables_failed = "" /\
  runtime_errors = map err_name all_errs /\
  c_KEPT_ADDR = KEPT_ADDR /\
  allowed_types = [TypeMonetary; TypeAccount; TypePortion; TypeAsset; TypeNumber; TypeString] /\
  (c_TypeMonetary, c_TypeAccount, c_TypePortion, c_TypeAsset, c_TypeNumber, c_TypeString, c_TypeAny)
    = (TypeMonetary, TypeAccount, TypePortion, TypeAsset, TypeNumber, TypeString, TypeAny) /\
  (c_FnSetTxMeta, c_FnSetAccountMeta, c_FnVarOriginMeta, c_FnVarOriginBalance, c_FnVarOriginOverdraft)
    = (FnSetTxMeta, FnSetAccountMeta, FnVarOriginMeta, FnVarOriginBalance, FnVarOriginOverdraft).
Proof. repeat split; reflexivity. Qed.

(* ---- grammar: the lexer and parser rules Model/Lexer.v and Model/Parser.v were written against.
   Numscript.g4 is re-read on every run; a changed rule breaks one of these and the reference
   parser has to be revisited. (The generated ANTLR code under internal/parser/antlr is what runs:
   it is tied to the reference parser by the correspondence of C14 and C15, not by these.) *)
Lemma grammar_keywords_ok : Tables.keywords =
  [("VARS", "vars"); ("MAX", "max"); ("SOURCE", "source"); ("DESTINATION", "destination"); ("SEND", "send"); ("FROM", "from"); ("UP", "up"); ("TO", "to"); ("REMAINING", "remaining"); ("ALLOWING", "allowing"); ("UNBOUNDED", "unbounded"); ("OVERDRAFT", "overdraft"); ("KEPT", "kept"); ("SAVE", "save"); ("LPARENS", "("); ("RPARENS", ")"); ("LBRACKET", "["); ("RBRACKET", "]"); ("LBRACE", "{"); ("RBRACE", "}"); ("COMMA", ","); ("EQ", "="); ("STAR", "*"); ("MINUS", "-")].
Proof. reflexivity. Qed.
Lemma grammar_lexer_rules_ok : Tables.lexer_rules =
  [("WS", "[ \t\r\n]+ -> skip");
   ("NEWLINE", "[\r\n]+");
   ("MULTILINE_COMMENT", "'/*' (MULTILINE_COMMENT | .)*? '*/' -> skip");
   ("LINE_COMMENT", "'//' .*? NEWLINE -> skip");
   ("VARS", "'vars'");
   ("MAX", "'max'");
   ("SOURCE", "'source'");
   ("DESTINATION", "'destination'");
   ("SEND", "'send'");
   ("FROM", "'from'");
   ("UP", "'up'");
   ("TO", "'to'");
   ("REMAINING", "'remaining'");
   ("ALLOWING", "'allowing'");
   ("UNBOUNDED", "'unbounded'");
   ("OVERDRAFT", "'overdraft'");
   ("KEPT", "'kept'");
   ("SAVE", "'save'");
   ("LPARENS", "'('");
   ("RPARENS", "')'");
   ("LBRACKET", "'['");
   ("RBRACKET", "']'");
   ("LBRACE", "'{'");
   ("RBRACE", "'}'");
   ("COMMA", "','");
   ("EQ", "'='");
   ("STAR", "'*'");
   ("MINUS", "'-'");
   ("RATIO_PORTION_LITERAL", "[0-9]+ [ ]? '/' [ ]? [0-9]+");
   ("PERCENTAGE_PORTION_LITERAL", "[0-9]+ ('.' [0-9]+)? '%'");
   ("STRING", "'""' ('\\""' | ~[\r\n""])* '""'");
   ("IDENTIFIER", "[a-z]+ [a-z_]*");
   ("NUMBER", "MINUS? [0-9]+");
   ("VARIABLE_NAME", "'$' [a-z_]+ [a-z0-9_]*");
   ("ACCOUNT", "'@' [a-zA-Z0-9_-]+ (':' [a-zA-Z0-9_-]+)*");
   ("ASSET", "[A-Z/0-9]+")].
Proof. reflexivity. Qed.
Lemma grammar_parser_rules_ok : Tables.parser_rules = "monetaryLit: LBRACKET (asset = valueExpr) (amt = valueExpr) RBRACKET; portion: RATIO_PORTION_LITERAL # ratio | PERCENTAGE_PORTION_LITERAL # percentage; valueExpr: VARIABLE_NAME # variableExpr | ASSET # assetLiteral | STRING # stringLiteral | ACCOUNT # accountLiteral | NUMBER # numberLiteral | monetaryLit # monetaryLiteral | portion # portionLiteral | left = valueExpr op = ('+' | '-') right = valueExpr # infixExpr; functionCallArgs: valueExpr ( COMMA valueExpr)*; functionCall: fnName = (OVERDRAFT | IDENTIFIER) LPARENS functionCallArgs? RPARENS; varOrigin: EQ functionCall; varDeclaration: type_ = IDENTIFIER name = VARIABLE_NAME varOrigin?; varsDeclaration: VARS LBRACE varDeclaration* RBRACE; program: varsDeclaration? statement* EOF; sentAllLit: LBRACKET (asset = valueExpr) STAR RBRACKET; allotment: portion # portionedAllotment | VARIABLE_NAME # portionVariable | REMAINING # remainingAllotment; source: address = valueExpr ALLOWING UNBOUNDED OVERDRAFT # srcAccountUnboundedOverdraft | address = valueExpr ALLOWING OVERDRAFT UP TO maxOvedraft = valueExpr # srcAccountBoundedOverdraft | valueExpr # srcAccount | LBRACE allotmentClauseSrc+ RBRACE # srcAllotment | LBRACE source* RBRACE # srcInorder | MAX cap = valueExpr FROM source # srcCapped; allotmentClauseSrc: allotment FROM source; keptOrDestination: TO destination # destinationTo | KEPT # destinationKept; destinationInOrderClause: MAX valueExpr keptOrDestination; destination: valueExpr # destAccount | LBRACE allotmentClauseDest+ RBRACE # destAllotment | LBRACE destinationInOrderClause* REMAINING keptOrDestination RBRACE # destInorder; allotmentClauseDest: allotment keptOrDestination; sentValue: valueExpr # sentLiteral | sentAllLit # sentAll; statement: SEND sentValue LPARENS SOURCE EQ source DESTINATION EQ destination RPARENS # sendStatement | SAVE sentValue FROM valueExpr # saveStatement | functionCall # fnCallStatement;".
Proof. reflexivity. Qed.
