(* Obligations tying the regenerated tables (Gen/Tables.v, written by tools/gentables from the
   working tree) to the constants the hand-written model uses. A change of the implementation's
   tables makes this file fail to compile. *)
From NS Require Import Tables Run.

(* one representative per error constructor, in the alphabetical order of the Go type names *)
Definition all_errs : list err :=
  [ BadArityErr 0 0; BadPortionParsingErr; ExperimentalFeature; InvalidAccountName "";
    InvalidAllotmentInSendAll; InvalidAllotmentSum; InvalidMonetaryLiteral; InvalidNumberLiteral;
    InvalidTypeErr ""; InvalidUnboundedInSendAll ""; MetadataNotFound; MismatchedCurrencyError "" "";
    MissingFundsErr "" 0 0; MissingVariableErr ""; NegativeAmountErr 0; NegativeBalanceError;
    QueryBalanceError ""; QueryMetadataError ""; TypeError ""; UnboundFunctionErr ""; UnboundVariableErr "" ].

Lemma all_errs_exhaustive : forall e, In (err_name e) (map err_name all_errs).
Proof. intros e; destruct e; cbn; tauto. Qed.

Lemma tables_ok_core :
  gentables_failed = "" /\
  runtime_errors = map err_name all_errs /\
  c_KEPT_ADDR = KEPT_ADDR /\
  allowed_types = [TypeMonetary; TypeAccount; TypePortion; TypeAsset; TypeNumber; TypeString] /\
  (c_TypeMonetary, c_TypeAccount, c_TypePortion, c_TypeAsset, c_TypeNumber, c_TypeString, c_TypeAny)
    = (TypeMonetary, TypeAccount, TypePortion, TypeAsset, TypeNumber, TypeString, TypeAny) /\
  (c_FnSetTxMeta, c_FnSetAccountMeta, c_FnVarOriginMeta, c_FnVarOriginBalance, c_FnVarOriginOverdraft)
    = (FnSetTxMeta, FnSetAccountMeta, FnVarOriginMeta, FnVarOriginBalance, FnVarOriginOverdraft).
Proof. repeat split; reflexivity. Qed.
