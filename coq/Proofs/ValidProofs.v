(* C16, first sentence (no error on a valid script): an expression that has the type its position
   requires according to Spec/Typing.v - declared variable types, literal forms, + and - on two
   numbers or two monetaries - receives no diagnostic from the checker. *)
From Coq Require Import Lia.
From NS Require Import Check Typing SoundnessProofs.

(* the type environment of the specification describes the checker's declarations *)
Definition agrees (te : tenv) (s : cstate) : Prop :=
  forall n t, alookup n te = Some t ->
    exists d r, alookup n (cs_declared s) = Some d /\ vd_type d = Some (r, t) /\ is_type_allowed t = true.

Lemma agrees_same te s s' : cs_declared s' = cs_declared s -> agrees te s -> agrees te s'.
Proof. intros H A n t Hl. rewrite H. exact (A n t Hl). Qed.

Lemma infer_type_of te s : agrees te s -> forall e t, type_of te e = Some t -> infer_type s e = t.
Proof.
  intros A. induction e as [| | |r name|r x|r x|r name|r n|r a IHa b IHb|r n d|r op l IHl rr IHr]; intros t H; cbn [type_of infer_type] in *;
    try discriminate; try (injection H as <-; reflexivity).
  - destruct (A _ _ H) as (d & rt & Hd & Ht & _). rewrite Hd, Ht. reflexivity.
  - destruct (type_of te a) as [ta|]; [|discriminate]. destruct (type_of te b) as [tn|]; [|discriminate].
    destruct (_ && _); [injection H as <-; reflexivity|discriminate].
  - destruct (d =? 0); [discriminate|injection H as <-; reflexivity].
  - destruct op; try discriminate.
    + destruct (type_of te l) as [tl|] eqn:El; [|discriminate]. destruct (type_of te rr) as [tr|]; [|discriminate].
      destruct (_ && _); [|discriminate]. injection H as <-. exact (IHl _ eq_refl).
    + destruct (type_of te l) as [tl|] eqn:El; [|discriminate]. destruct (type_of te rr) as [tr|]; [|discriminate].
      destruct (_ && _); [|discriminate]. injection H as <-. exact (IHl _ eq_refl).
Qed.

Lemma assert_ok r req act s : req = TypeAny \/ req = act -> assert_has_type (Some r) req act s = Ok s.
Proof.
  unfold assert_has_type. intros [->| ->]; [reflexivity|]. rewrite String.eqb_refl, Bool.orb_true_r. reflexivity.
Qed.

(* silent: the check succeeds and adds no diagnostic; declarations are untouched *)
Definition silent (m : result unit cstate) (s : cstate) : Prop :=
  exists s', m = Ok s' /\ cs_diags s' = cs_diags s /\ cs_declared s' = cs_declared s
             /\ cs_unbounded_send s' = cs_unbounded_send s /\ cs_unbounded_in_send s' = cs_unbounded_in_send s
             /\ cs_emptied s' = cs_emptied s.

Lemma silent_refl s : silent (Ok s) s.
Proof. exists s. repeat split. Qed.

Lemma silent_bind m f s : silent m s -> (forall s1, m = Ok s1 -> cs_diags s1 = cs_diags s -> cs_declared s1 = cs_declared s ->
  cs_unbounded_send s1 = cs_unbounded_send s -> cs_unbounded_in_send s1 = cs_unbounded_in_send s -> cs_emptied s1 = cs_emptied s -> silent (f s1) s1) ->
  silent (bind m f) s.
Proof.
  intros (s1 & -> & D1 & C1 & U1 & I1 & E1) Hf. cbn [bind].
  destruct (Hf s1 eq_refl D1 C1 U1 I1 E1) as (s2 & -> & D2 & C2 & U2 & I2 & E2). exists s2. repeat split; congruence.
Qed.

Theorem check_expression_complete te : forall e s t required,
  agrees te s -> type_of te e = Some t -> required = TypeAny \/ required = t ->
  silent (check_expression e required s) s.
Proof.
  induction e as [| | |r name|r x|r x|r name|r n|r a IHa b IHb|r n d|r op l IHl rr IHr]; intros s t required A H Hr; cbn [type_of] in H; try discriminate;
    cbn [check_expression].
  - (* variable *)
    destruct (A _ _ H) as (d & rt & Hd & Ht & Ha). rewrite Hd, Ht, Ha.
    rewrite assert_ok by exact Hr. eexists. repeat split.
  - injection H as <-. rewrite assert_ok by exact Hr. apply silent_refl.
  - injection H as <-. rewrite assert_ok by exact Hr. apply silent_refl.
  - injection H as <-. rewrite assert_ok by exact Hr. apply silent_refl.
  - injection H as <-. rewrite assert_ok by exact Hr. apply silent_refl.
  - (* monetary *)
    destruct (type_of te a) as [ta|] eqn:Ea; [|discriminate]. destruct (type_of te b) as [tn|] eqn:En; [|discriminate].
    destruct (String.eqb ta ty_asset && String.eqb tn ty_number) eqn:E; [|discriminate]. injection H as <-.
    apply andb_prop in E. destruct E as [E1 E2]. apply String.eqb_eq in E1, E2. subst ta tn.
    rewrite assert_ok by exact Hr. cbn [bind].
    apply silent_bind; [exact (IHa s _ _ A eq_refl (or_intror eq_refl))|].
    intros s1 _ _ C1 _ _ _. exact (IHb s1 _ _ (agrees_same _ _ _ C1 A) eq_refl (or_intror eq_refl)).
  - destruct (d =? 0); [discriminate|]. injection H as <-. rewrite assert_ok by exact Hr. apply silent_refl.
  - (* infix *)
    assert (G : forall tl, type_of te l = Some tl -> type_of te rr = Some tl -> (tl = ty_number \/ tl = ty_monetary) -> t = tl ->
                silent (check_expression (EInfix r op l rr) required s) s).
    { intros tl El Er Htl ->. cbn [check_expression].
      destruct (String.eqb required TypeNumber || String.eqb required TypeMonetary) eqn:Eq.
      - assert (required = tl).
        { destruct Hr as [->|Hr]; [discriminate|exact Hr]. }
        subst required.
        apply silent_bind; [exact (IHl s _ _ A El (or_intror eq_refl))|].
        intros s1 _ _ C1 _ _ _. exact (IHr s1 _ _ (agrees_same _ _ _ C1 A) Er (or_intror eq_refl)).
      - rewrite (infer_type_of te s A l tl El).
        assert (Hk : (if String.eqb tl TypeNumber || String.eqb tl TypeMonetary then tl else TypeNumber) = tl).
        { destruct Htl as [->| ->]; reflexivity. }
        cbv zeta. rewrite Hk. rewrite assert_ok by exact Hr. cbn [bind].
        apply silent_bind; [exact (IHl s _ _ A El (or_intror eq_refl))|].
        intros s1 _ _ C1 _ _ _. exact (IHr s1 _ _ (agrees_same _ _ _ C1 A) Er (or_intror eq_refl)). }
    destruct op; try discriminate;
      (destruct (type_of te l) as [tl|] eqn:El; [|discriminate]; destruct (type_of te rr) as [tr|] eqn:Er; [|discriminate];
       destruct (String.eqb tl tr && (String.eqb tl ty_number || String.eqb tl ty_monetary)) eqn:E; [|discriminate]; injection H as <-;
       apply andb_prop in E; destruct E as [E1 E2]; apply String.eqb_eq in E1; subst tr;
       apply Bool.orb_true_iff in E2; apply (G tl eq_refl eq_refl); [destruct E2 as [E2|E2]; apply String.eqb_eq in E2; auto|reflexivity]).
Qed.

Corollary has_type_silent te e t s : agrees te s -> has_type te e t = true -> silent (check_expression e t s) s.
Proof.
  unfold has_type. intros A H. destruct (type_of te e) as [t'|] eqn:E; [|discriminate].
  apply Bool.orb_true_iff in H. apply (check_expression_complete te e s t' t A E).
  destruct H as [H|H]; apply String.eqb_eq in H; [left|right]; exact H.
Qed.
