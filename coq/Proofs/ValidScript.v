(* C16, first sentence at script level: a script that is valid by Spec/Typing.v receives no
   error-severity diagnostic. *)
From Coq Require Import Lia QArith.
From NS Require Import Check Typing SyntaxInd SoundnessProofs ValidProofs.

Definition ec (s : cstate) : nat := errors_count (cs_diags s).

(* a checking step that succeeds without adding an error; declarations and the send-all flag stay *)
Definition quiet (m : result unit cstate) (s : cstate) : Prop :=
  exists s', m = Ok s' /\ ec s' = ec s /\ cs_declared s' = cs_declared s /\ cs_unbounded_send s' = cs_unbounded_send s.

Lemma quiet_refl s : quiet (Ok s) s.
Proof. exists s. repeat split. Qed.

Lemma quiet_same s s' : ec s' = ec s -> cs_declared s' = cs_declared s -> cs_unbounded_send s' = cs_unbounded_send s -> quiet (Ok s') s.
Proof. intros A B C. exists s'. repeat split; assumption. Qed.

Lemma quiet_bind m f s :
  quiet m s ->
  (forall s1, ec s1 = ec s -> cs_declared s1 = cs_declared s -> cs_unbounded_send s1 = cs_unbounded_send s -> quiet (f s1) s1) ->
  quiet (bind m f) s.
Proof.
  intros (s1 & -> & E1 & D1 & U1) Hf. cbn [bind]. destruct (Hf s1 E1 D1 U1) as (s2 & -> & E2 & D2 & U2).
  exists s2. repeat split; congruence.
Qed.

Lemma quiet_of_silent m s : silent m s -> quiet m s.
Proof. intros (s' & -> & D & C & U & _). exists s'. repeat split; [unfold ec; now rewrite D|exact C|exact U]. Qed.

Lemma ec_emit_warning r k s : severity_of k = SevWarning -> ec (emit r k s) = ec s.
Proof.
  intros H. unfold ec, errors_count. cbn [emit cs_diags]. rewrite filter_app, app_length. cbn [filter d_kind]. rewrite H. cbn. lia.
Qed.

Lemma agrees_decl te s s' : cs_declared s' = cs_declared s -> agrees te s -> agrees te s'.
Proof. exact (agrees_same te s s'). Qed.

Lemma has_type_range te e t : has_type te e t = true -> exists r, expr_range e = Some r.
Proof.
  unfold has_type. destruct e; cbn [type_of expr_range]; try discriminate; intros _; eexists; reflexivity.
Qed.

(* ---- expressions in a quiet context ---- *)
Lemma expr_quiet te e t s : agrees te s -> has_type te e t = true -> quiet (check_expression e t s) s.
Proof. intros A H. apply quiet_of_silent, (has_type_silent te e t s A H). Qed.

(* ---- allotments ---- *)
Definition acc_step (a : allot) (acc : allot_acc) : allot_acc :=
  match a with
  | ARatio _ n (Zpos d) => mkacc (aa_sum acc + (n # d))%Q (aa_remaining acc) (aa_vars acc)
  | AVar r _ => mkacc (aa_sum acc) (aa_remaining acc) (aa_vars acc ++ [r])
  | ARemaining r => mkacc (aa_sum acc) (Some r) (aa_vars acc)
  | _ => acc
  end.

Definition is_remaining (a : allot) : bool := match a with ARemaining _ => true | _ => false end.
Definition is_avar (a : allot) : bool := match a with AVar _ _ => true | _ => false end.
Definition lits (allots : list allot) : list Q := flat_map (fun a => match a with ARatio _ n (Zpos d) => [n # d] | _ => [] end) allots.
Definition clause_ok (te : tenv) (a : allot) : bool :=
  match a with
  | ARatio _ _ (Zpos _) => true
  | AVar _ n => match alookup n te with Some t => String.eqb t ty_portion | None => false end
  | ARemaining _ => true
  | _ => false
  end.

(* a remaining clause can only be the last one *)
Definition rem_last (allots : list allot) : Prop :=
  forall pre a post, allots = pre ++ a :: post -> is_remaining a = true -> post = [].

Lemma rem_last_tail a l : rem_last (a :: l) -> rem_last l.
Proof. intros H pre b post E Hb. apply (H (a :: pre) b post); [rewrite E; reflexivity|exact Hb]. Qed.

Lemma clause_step te a is_last whole acc s :
  agrees te s -> clause_ok te a = true -> (is_remaining a = true -> is_last = true) ->
  exists s', check_allot_clause a is_last whole acc s = Ok (acc_step a acc, s')
             /\ ec s' = ec s /\ cs_declared s' = cs_declared s /\ cs_unbounded_send s' = cs_unbounded_send s.
Proof.
  intros A Hc Hl. destruct a as [| |r n d|r name|r]; cbn [clause_ok] in Hc; try discriminate; cbn [check_allot_clause acc_step].
  - destruct d as [|p|p]; try discriminate. cbn [q_of_ratio]. exists s. repeat split.
  - destruct (alookup name te) as [t|] eqn:El; [|discriminate]. apply String.eqb_eq in Hc. subst t.
    assert (Ht : has_type te (EVar r name) ty_portion = true).
    { unfold has_type. cbn [type_of]. rewrite El. cbn. reflexivity. }
    destruct (expr_quiet te _ _ s A Ht) as (s' & E & Q1 & Q2 & Q3). change TypePortion with ty_portion. rewrite E. cbn [bind].
    exists s'. repeat split; assumption.
  - rewrite (Hl eq_refl). exists s. repeat split.
Qed.

Lemma fold_right_plus_acc (l : list Q) (z : Q) : (fold_right Qplus z l == fold_right Qplus 0 l + z)%Q.
Proof. induction l as [|x l IHl]; cbn [fold_right]; [ring|rewrite IHl; ring]. Qed.

Lemma sum_fold allots : forall acc,
  (aa_sum (fold_left (fun acc a => acc_step a acc) allots acc) == aa_sum acc + fold_right Qplus 0 (lits allots))%Q.
Proof.
  induction allots as [|a allots IH]; intros acc; cbn [fold_left].
  - cbn. ring.
  - rewrite IH. unfold lits at 2. cbn [flat_map]. fold (lits allots).
    destruct a as [| |r n d|r name|r]; cbn [acc_step aa_sum app]; try reflexivity.
    destruct d as [|p|p]; cbn [aa_sum app fold_right]; try reflexivity. ring.
Qed.

Lemma rem_fold allots : forall acc,
  aa_remaining (fold_left (fun acc a => acc_step a acc) allots acc) = None <->
  (aa_remaining acc = None /\ List.length (filter is_remaining allots) = O).
Proof.
  induction allots as [|a allots IH]; intros acc; cbn [fold_left filter].
  - cbn. intuition.
  - rewrite IH. destruct a as [| |r n d|r name|r]; cbn [acc_step is_remaining aa_remaining]; try tauto.
    + destruct d; cbn [aa_remaining]; tauto.
    + cbn [List.length]. split; [intros [H _]; discriminate|intros [_ H]; discriminate].
Qed.

Lemma vars_fold allots : forall acc,
  List.length (aa_vars (fold_left (fun acc a => acc_step a acc) allots acc)) = (List.length (aa_vars acc) + List.length (filter is_avar allots))%nat.
Proof.
  induction allots as [|a allots IH]; intros acc; cbn [fold_left filter]; [cbn; lia|].
  rewrite IH. destruct a as [| |r n d|r name|r]; cbn [acc_step is_avar aa_vars List.length]; try lia.
  - destruct d; cbn [aa_vars]; lia.
  - rewrite app_length. cbn. lia.
Qed.

(* what allot_ok says, in the vocabulary above *)
Lemma allot_ok_spec te allots : allot_ok te allots = true ->
  forallb (clause_ok te) allots = true /\ rem_last allots
  /\ let sum := fold_right Qplus 0%Q (lits allots) in
     let nvars := List.length (filter is_avar allots) in
     let nrem := List.length (filter is_remaining allots) in
     (nrem = O -> nvars = O -> Qcompare sum 1 = Eq)
     /\ Qcompare sum 1 <> Gt.
Proof.
  unfold allot_ok. intros H. apply andb_prop in H. destruct H as [H H3]. apply andb_prop in H. destruct H as [H1 H2].
  fold (lits allots) in H3. change (fun a : allot => match a with AVar _ _ => true | _ => false end) with is_avar in H3.
  change (fun a : allot => match a with ARemaining _ => true | _ => false end) with is_remaining in H2, H3.
  split; [|split].
  - rewrite forallb_forall in *. intros a Ha. specialize (H1 a Ha). destruct a as [| |r n d|r name|r]; cbn [clause_ok]; try discriminate; try exact H1.
  - (* remaining is last *)
    intros pre a post E Ha. destruct post as [|b post']; [reflexivity|]. exfalso.
    destruct (List.length (filter is_remaining allots)) as [|[|k]] eqn:En; try discriminate.
    + rewrite E, filter_app in En. cbn [filter] in En. rewrite Ha, app_length in En. cbn in En. lia.
    + (* exactly one, and it is the last clause: then there are two *)
      assert (Hl : is_remaining (last allots ANil) = true) by (destruct (last allots ANil); try discriminate; reflexivity).
      rewrite E in Hl. rewrite <- (app_nil_l (b :: post')) in Hl.
      assert (Hlast : last (pre ++ a :: b :: post') ANil = last (b :: post') ANil).
      { clear. induction pre as [|x pre IH]; [reflexivity|]. cbn [app]. destruct (pre ++ a :: b :: post') as [|y l] eqn:E; [destruct pre; discriminate|]. cbn [last] in *. exact IH. }
      cbn [app] in Hl. rewrite Hlast in Hl.
      assert (Hin : In (last (b :: post') ANil) (b :: post')).
      { clear. revert b. induction post' as [|y l IHl]; intros b0; [left; reflexivity|]. right. apply (IHl y). }
      assert (Hc : (1 <= List.length (filter is_remaining (b :: post')))%nat).
      { assert (In (last (b :: post') ANil) (filter is_remaining (b :: post'))) by (apply filter_In; split; assumption).
        destruct (filter is_remaining (b :: post')); [contradiction|cbn; lia]. }
      rewrite E, filter_app in En.
      change (filter is_remaining (a :: b :: post')) with (if is_remaining a then a :: filter is_remaining (b :: post') else filter is_remaining (b :: post')) in En.
      rewrite Ha, app_length in En. cbn [List.length] in En. lia.
  - cbv zeta. destruct (List.length (filter is_remaining allots)) as [|nr] eqn:En; destruct (List.length (filter is_avar allots)) as [|nv] eqn:Ev; cbn [Nat.eqb andb] in H3.
    + split; [intros _ _; apply Qeq_bool_iff in H3; now apply Qeq_alt|].
      apply Qeq_bool_iff in H3. apply Qeq_alt in H3. rewrite H3. discriminate.
    + split; [intros _ Hx; discriminate Hx|]. destruct (Qcompare _ 1); try discriminate; intros X; discriminate X.
    + split; [intros Hx; discriminate Hx|]. destruct (Qcompare _ 1); try discriminate; intros X; discriminate X.
    + split; [intros Hx; discriminate Hx|]. destruct (Qcompare _ 1); try discriminate; intros X; discriminate X.
Qed.

Lemma bad_sum_quiet allots te rng s :
  allot_ok te allots = true ->
  let acc := fold_left (fun acc a => acc_step a acc) allots (mkacc 0 None []) in
  ec (check_bad_allotment_sum (aa_sum acc) rng (aa_remaining acc) (aa_vars acc) s) = ec s.
Proof.
  intros H. destruct (allot_ok_spec te allots H) as (_ & _ & H0 & H1). cbv zeta in *.
  pose proof (sum_fold allots (mkacc 0 None [])) as Hs. cbn [aa_sum] in Hs. rewrite Qplus_0_l in Hs.
  pose proof (rem_fold allots (mkacc 0 None [])) as Hr. cbn [aa_remaining] in Hr.
  pose proof (vars_fold allots (mkacc 0 None [])) as Hv. cbn [aa_vars List.length] in Hv.
  set (acc := fold_left (fun acc a => acc_step a acc) allots (mkacc 0 None [])) in *.
  unfold check_bad_allotment_sum.
  assert (Hcmp : Qcompare (aa_sum acc) 1 = Qcompare (fold_right Qplus 0%Q (lits allots)) 1) by (rewrite Hs; reflexivity).
  rewrite Hcmp.
  destruct (Qcompare (fold_right Qplus 0%Q (lits allots)) 1) eqn:Ec.
  - (* the sum is one: warnings only *)
    assert (G : forall l s0, ec (fold_left (fun acc r => emit r (DFixedPortionVariable 0) acc) l s0) = ec s0).
    { induction l as [|x l IH]; intros s0; cbn [fold_left]; [reflexivity|]. rewrite IH. now apply ec_emit_warning. }
    destruct (aa_remaining acc); [rewrite ec_emit_warning by reflexivity|]; apply G.
  - destruct (aa_remaining acc) eqn:Er; [reflexivity|].
    destruct (aa_vars acc) as [|v [|v2 vars]] eqn:Eva; try reflexivity; [|now apply ec_emit_warning].
    exfalso. destruct (proj1 Hr eq_refl) as [_ Hn]. cbn in Hv.
    discriminate (H0 Hn (eq_sym Hv)).
  - exfalso. apply H1. reflexivity.
Qed.

(* ---- sources ---- *)
Lemma with_capped_quiet te f s :
  agrees te s ->
  (forall s0, agrees te s0 -> cs_unbounded_send s0 = false -> quiet (f s0) s0) ->
  quiet (with_capped f s) s.
Proof.
  intros A Hf. unfold with_capped.
  set (s0 := set_unbounded_send false (set_unbounded_in_send false s)).
  destruct (Hf s0 (agrees_decl te s s0 eq_refl A) eq_refl) as (s1 & -> & E1 & D1 & U1). cbn [bind].
  eexists. split; [reflexivity|]. repeat split; [exact E1|exact D1].
Qed.

Lemma source_ok_range te sa src : source_ok te sa src = true -> exists r, source_range src = Some r.
Proof.
  destruct src as [|e|r l|r items|r f c|r a b]; cbn [source_ok source_range]; try discriminate; try (intros _; eexists; reflexivity).
  intros H. apply andb_prop in H. destruct H as [H _]. exact (has_type_range _ _ _ H).
Qed.

Lemma prelude_quiet (o : option range) s : (exists r, o = Some r) ->
  quiet (if cs_unbounded_in_send s
         then match o with
              | Some r => Ok (emit r DUnboundedAccountIsNotLast s)
              | None => Panic "checkSource: GetRange on a source without expression"
              end
         else Ok s) s.
Proof.
  intros [r ->]. destruct (cs_unbounded_in_send s); [|apply quiet_refl].
  apply quiet_same; [now apply ec_emit_warning|reflexivity|reflexivity].
Qed.

Lemma source_quiet te : forall src sa s,
  agrees te s -> source_ok te sa src = true -> cs_unbounded_send s = sa -> quiet (check_source src s) s.
Proof.
  induction src as [|e|r l IHl|r items IHi|r f c IH|r a b] using source_ind'; intros sa s A H Hsa.
  - discriminate.
  - (* account *)
    cbn [check_source]. apply quiet_bind; [apply prelude_quiet, (source_ok_range te sa _ H)|]. intros s0 _ D0 U0.
    cbn [source_ok] in H. apply andb_prop in H. destruct H as [Ht Hw].
    apply quiet_bind; [apply (expr_quiet te), Ht; exact (agrees_decl _ _ _ D0 A)|]. intros s1 _ D1 U1.
    destruct e as [| | |? ?|? ?|? ?|r0 nm|? ?|? ? ?|? ? ?|? ? ? ?]; try apply quiet_refl.
    assert (Hnw : (String.eqb nm "world" && cs_unbounded_send s1) = false).
    { rewrite U1, U0, Hsa. apply Bool.negb_true_iff in Hw. rewrite Bool.andb_comm. exact Hw. }
    rewrite Hnw.
    apply quiet_same; unfold ec; cbn [set_emptied cs_diags cs_declared cs_unbounded_send];
      repeat match goal with |- context [if ?c then _ else _] => destruct c end;
      cbn [emit set_unbounded_in_send cs_diags cs_declared cs_unbounded_send]; try reflexivity;
      unfold errors_count; rewrite filter_app, app_length; cbn; lia.
  - (* in order *)
    cbn [check_source]. apply quiet_bind; [apply prelude_quiet; eexists; reflexivity|]. intros s0 _ D0 U0.
    cbn [source_ok] in H. assert (A0 : agrees te s0) by exact (agrees_decl _ _ _ D0 A).
    assert (U : cs_unbounded_send s0 = sa) by congruence. clear D0 U0 A Hsa s. revert s0 A0 U.
    induction l as [|x l IHl']; intros s0 A0 U; [apply quiet_refl|].
    inversion IHl as [|? ? Hx IHl'']; subst. cbn [forallb] in H. apply andb_prop in H. destruct H as [H1 H2].
    apply quiet_bind; [exact (Hx _ _ A0 H1 eq_refl)|]. intros s1 _ D1 U1.
    apply (IHl' IHl'' H2); [exact (agrees_decl _ _ _ D1 A0)|congruence].
  - (* allotment *)
    cbn [check_source]. apply quiet_bind; [apply prelude_quiet; eexists; reflexivity|]. intros s0 _ D0 U0.
    cbn [source_ok] in H. apply andb_prop in H. destruct H as [H H3]. apply andb_prop in H. destruct H as [H1 H2].
    apply Bool.negb_true_iff in H1. subst sa.
    assert (Us0 : cs_unbounded_send s0 = false) by congruence. rewrite Us0.
    assert (A0 : agrees te s0) by exact (agrees_decl _ _ _ D0 A).
    destruct (allot_ok_spec te _ H2) as (Hc & Hrl & _).
    assert (Hloop : forall its acc s1, agrees te s1 -> cs_unbounded_send s1 = false ->
              Forall (fun it : range * allot * source => forall sa s, agrees te s -> source_ok te sa (snd it) = true -> cs_unbounded_send s = sa -> quiet (check_source (snd it) s) s) its ->
              forallb (clause_ok te) (map (fun it : range * allot * source => snd (fst it)) its) = true ->
              rem_last (map (fun it : range * allot * source => snd (fst it)) its) ->
              forallb (fun it : range * allot * source => source_ok te false (snd it)) its = true ->
              exists s', (fix go (l : list (range * allot * source)) (acc : allot_acc) (s : cstate) : result unit (allot_acc * cstate) :=
                            match l with
                            | [] => Ok (acc, s)
                            | (_, a, x) :: l' =>
                                '(acc', s') <- check_allot_clause a (match l' with [] => true | _ => false end) r acc s ;;
                                s'' <- with_capped (check_source x) s' ;;
                                go l' acc' s''
                            end) its acc s1
                         = Ok (fold_left (fun acc a => acc_step a acc) (map (fun it : range * allot * source => snd (fst it)) its) acc, s')
                         /\ ec s' = ec s1 /\ cs_declared s' = cs_declared s1 /\ cs_unbounded_send s' = cs_unbounded_send s1).
    { induction its as [|[[r0 a0] x] its IHits]; intros acc s1 A1 U1 HF Hcl Hr Hso.
      - exists s1. repeat split.
      - inversion HF as [|? ? Hx HF']; subst. cbn [snd fst map forallb] in *.
        apply andb_prop in Hcl. destruct Hcl as [Hc0 Hcl]. apply andb_prop in Hso. destruct Hso as [Hso0 Hso].
        assert (Hlast : is_remaining a0 = true -> match its with [] => true | _ :: _ => false end = true).
        { intros Ha. specialize (Hr [] a0 (map (fun it : range * allot * source => snd (fst it)) its) eq_refl Ha).
          destruct its; [reflexivity|discriminate]. }
        destruct (clause_step te a0 _ r acc s1 A1 Hc0 Hlast) as (sa' & -> & Ea & Da & Ua). cbn [bind].
        destruct (with_capped_quiet te (check_source x) sa' (agrees_decl _ _ _ Da A1)
                    (fun s0 A0 U0 => Hx false s0 A0 Hso0 U0)) as (sb & -> & Eb & Db & Ub). cbn [bind fold_left].
        destruct (IHits (acc_step a0 acc) sb (agrees_decl _ _ _ Db (agrees_decl _ _ _ Da A1)) ltac:(congruence) HF' Hcl (rem_last_tail _ _ Hr) Hso)
          as (sc & -> & Ec & Dc & Uc).
        exists sc. repeat split; congruence. }
    destruct (Hloop items (mkacc 0 None []) s0 A0 Us0 IHi Hc Hrl H3) as (s2 & -> & E2 & D2 & U2). cbn [bind].
    apply quiet_same.
    + rewrite (bad_sum_quiet _ te r s2 H2). exact E2.
    + unfold check_bad_allotment_sum. destruct (Qcompare _ 1).
      * assert (G : forall l s3, cs_declared (fold_left (fun acc r => emit r (DFixedPortionVariable 0) acc) l s3) = cs_declared s3)
          by (induction l as [|x0 l0 IHG]; intros; cbn [fold_left]; [reflexivity|rewrite IHG; reflexivity]).
        destruct (aa_remaining _); cbn [emit cs_declared]; rewrite G; exact D2.
      * destruct (aa_remaining _); [exact D2|]. destruct (aa_vars _) as [|v [|v2 vs]]; exact D2.
      * exact D2.
    + unfold check_bad_allotment_sum. destruct (Qcompare _ 1).
      * assert (G : forall l s3, cs_unbounded_send (fold_left (fun acc r => emit r (DFixedPortionVariable 0) acc) l s3) = cs_unbounded_send s3)
          by (induction l as [|x0 l0 IHG]; intros; cbn [fold_left]; [reflexivity|rewrite IHG; reflexivity]).
        destruct (aa_remaining _); cbn [emit cs_unbounded_send]; rewrite G; congruence.
      * destruct (aa_remaining _); [congruence|]. destruct (aa_vars _) as [|v [|v2 vs]]; cbn [emit cs_unbounded_send]; congruence.
      * cbn [emit cs_unbounded_send]. congruence.
  - (* capped *)
    cbn [check_source]. apply quiet_bind; [apply prelude_quiet; eexists; reflexivity|]. intros s0 _ D0 U0.
    cbn [source_ok] in H. apply andb_prop in H. destruct H as [Hc Hf].
    apply (with_capped_quiet te); [exact (agrees_decl _ _ _ D0 A)|]. intros s1 A1 U1.
    apply quiet_bind; [apply (expr_quiet te); assumption|]. intros s2 _ D2 U2.
    apply (IH false); [exact (agrees_decl _ _ _ D2 A1)|exact Hf|congruence].
  - (* overdraft *)
    cbn [check_source]. apply quiet_bind; [apply prelude_quiet; eexists; reflexivity|]. intros s0 _ D0 U0.
    cbn [source_ok] in H. apply andb_prop in H. destruct H as [Ha Hb].
    assert (A0 : agrees te s0) by exact (agrees_decl _ _ _ D0 A).
    set (s1 := match a with EAccount r0 name => if String.eqb name "world" then emit r0 DInvalidWorldOverdraft s0 else s0 | _ => s0 end).
    assert (Q1 : ec s1 = ec s0 /\ cs_declared s1 = cs_declared s0 /\ cs_unbounded_send s1 = cs_unbounded_send s0).
    { unfold s1. destruct a; try (repeat split; reflexivity). destruct (String.eqb _ _); repeat split; try reflexivity. now apply ec_emit_warning. }
    destruct Q1 as (E1 & D1 & U1).
    set (s2 := match b with None => set_unbounded_in_send (negb (is_interface_nil a)) s1 | Some _ => s1 end).
    assert (Q2 : ec s2 = ec s0 /\ cs_declared s2 = cs_declared s0 /\ cs_unbounded_send s2 = cs_unbounded_send s0).
    { unfold s2. destruct b; repeat split; assumption. }
    destruct Q2 as (E2 & D2 & U2).
    assert (Hcond : (cs_unbounded_send s2 && match b with None => true | Some _ => false end) = false).
    { destruct b; [apply Bool.andb_false_r|]. rewrite U2, U0, Hsa. apply Bool.negb_true_iff in Hb. rewrite Hb. reflexivity. }
    rewrite Hcond. cbn [bind].
    assert (A2 : agrees te s2) by exact (agrees_decl _ _ _ D2 A0).
    destruct (expr_quiet te a ty_account s2 A2 Ha) as (s4 & E4' & E4 & D4 & U4). change TypeAccount with ty_account. rewrite E4'. cbn [bind].
    destruct b as [b|].
    + destruct (expr_quiet te b ty_monetary s4 (agrees_decl _ _ _ D4 A2) Hb) as (s5 & E5' & E5 & D5 & U5).
      change TypeMonetary with ty_monetary. rewrite E5'. exists s5. repeat split; congruence.
    + exists s4. repeat split; congruence.
Qed.

(* ---- destinations ---- *)
Lemma dest_quiet te :
  (forall d s, agrees te s -> dest_ok te d = true -> quiet (check_destination d s) s) /\
  (forall k s, agrees te s -> kod_ok te k = true -> quiet (check_kod k s) s).
Proof.
  apply (dest_kod_ind
    (fun d => forall s, agrees te s -> dest_ok te d = true -> quiet (check_destination d s) s)
    (fun k => forall s, agrees te s -> kod_ok te k = true -> quiet (check_kod k s) s)).
  - intros s _ H. discriminate.
  - intros e s A H. exact (expr_quiet te _ _ s A H).
  - intros r cl rem Hcl Hrem s A H. cbn [dest_ok] in H. apply andb_prop in H. destruct H as [H1 H2]. cbn [check_destination].
    apply quiet_bind; [|intros s1 _ D1 _; exact (Hrem s1 (agrees_decl _ _ _ D1 A) H2)].
    clear H2 Hrem. revert s A. induction cl as [|[[r0 ce] k] l IH]; intros s A; [apply quiet_refl|].
    inversion Hcl as [|? ? Hk Hcl']; subst. cbn [snd fst forallb] in *. apply andb_prop in H1. destruct H1 as [H1 H3].
    apply andb_prop in H1. destruct H1 as [Hce Hkk].
    apply quiet_bind; [exact (expr_quiet te _ _ s A Hce)|]. intros s1 _ D1 _.
    apply quiet_bind; [exact (Hk s1 (agrees_decl _ _ _ D1 A) Hkk)|]. intros s2 _ D2 _.
    apply (IH Hcl' H3). exact (agrees_decl _ _ _ D2 (agrees_decl _ _ _ D1 A)).
  - intros r items Hit s A H. cbn [dest_ok] in H. apply andb_prop in H. destruct H as [H2 H3]. cbn [check_destination].
    destruct (allot_ok_spec te _ H2) as (Hc & Hrl & _).
    assert (Hloop : forall its acc s1, agrees te s1 ->
              Forall (fun it : range * allot * kod => forall s, agrees te s -> kod_ok te (snd it) = true -> quiet (check_kod (snd it) s) s) its ->
              forallb (clause_ok te) (map (fun it : range * allot * kod => snd (fst it)) its) = true ->
              rem_last (map (fun it : range * allot * kod => snd (fst it)) its) ->
              forallb (fun it : range * allot * kod => kod_ok te (snd it)) its = true ->
              exists s', (fix go (l : list (range * allot * kod)) (acc : allot_acc) (s : cstate) : result unit (allot_acc * cstate) :=
                            match l with
                            | [] => Ok (acc, s)
                            | (_, a, k) :: l' =>
                                '(acc', s') <- check_allot_clause a (match l' with [] => true | _ => false end) r acc s ;;
                                s'' <- check_kod k s' ;;
                                go l' acc' s''
                            end) its acc s1
                         = Ok (fold_left (fun acc a => acc_step a acc) (map (fun it : range * allot * kod => snd (fst it)) its) acc, s')
                         /\ ec s' = ec s1 /\ cs_declared s' = cs_declared s1 /\ cs_unbounded_send s' = cs_unbounded_send s1).
    { induction its as [|[[r0 a0] k] its IHits]; intros acc s1 A1 HF Hcl Hr Hso.
      - exists s1. repeat split.
      - inversion HF as [|? ? Hk HF']; subst. cbn [snd fst map forallb] in *.
        apply andb_prop in Hcl. destruct Hcl as [Hc0 Hcl]. apply andb_prop in Hso. destruct Hso as [Hso0 Hso].
        assert (Hlast : is_remaining a0 = true -> match its with [] => true | _ :: _ => false end = true).
        { intros Ha. specialize (Hr [] a0 (map (fun it : range * allot * kod => snd (fst it)) its) eq_refl Ha).
          destruct its; [reflexivity|discriminate]. }
        destruct (clause_step te a0 _ r acc s1 A1 Hc0 Hlast) as (sa' & -> & Ea & Da & Ua). cbn [bind].
        destruct (Hk sa' (agrees_decl _ _ _ Da A1) Hso0) as (sb & -> & Eb & Db & Ub). cbn [bind fold_left].
        destruct (IHits (acc_step a0 acc) sb (agrees_decl _ _ _ Db (agrees_decl _ _ _ Da A1)) HF' Hcl (rem_last_tail _ _ Hr) Hso)
          as (sc & -> & Ec & Dc & Uc).
        exists sc. repeat split; congruence. }
    destruct (Hloop items (mkacc 0 None []) s A Hit Hc Hrl H3) as (s2 & -> & E2 & D2 & U2). cbn [bind].
    apply quiet_same.
    + rewrite (bad_sum_quiet _ te r s2 H2). exact E2.
    + unfold check_bad_allotment_sum. destruct (Qcompare _ 1).
      * assert (G : forall l s3, cs_declared (fold_left (fun acc r => emit r (DFixedPortionVariable 0) acc) l s3) = cs_declared s3)
          by (induction l as [|x0 l0 IHG]; intros; cbn [fold_left]; [reflexivity|rewrite IHG; reflexivity]).
        destruct (aa_remaining _); cbn [emit cs_declared]; rewrite G; exact D2.
      * destruct (aa_remaining _); [exact D2|]. destruct (aa_vars _) as [|v [|v2 vs]]; exact D2.
      * exact D2.
    + unfold check_bad_allotment_sum. destruct (Qcompare _ 1).
      * assert (G : forall l s3, cs_unbounded_send (fold_left (fun acc r => emit r (DFixedPortionVariable 0) acc) l s3) = cs_unbounded_send s3)
          by (induction l as [|x0 l0 IHG]; intros; cbn [fold_left]; [reflexivity|rewrite IHG; reflexivity]).
        destruct (aa_remaining _); cbn [emit cs_unbounded_send]; rewrite G; congruence.
      * destruct (aa_remaining _); [congruence|]. destruct (aa_vars _) as [|v [|v2 vs]]; cbn [emit cs_unbounded_send]; congruence.
      * cbn [emit cs_unbounded_send]. congruence.
  - intros s _ H. discriminate.
  - intros r s _ _. apply quiet_refl.
  - intros d IH s A H. exact (IH s A H).
Qed.

(* ---- calls ---- *)
From NS Require Import CheckProofs.
From NS Require Tables.

Lemma sig_of_builtin name ctx sig ret :
  sig_of name ctx = Some (sig, ret) ->
  exists b, find_builtin name = Some b /\ ctx_name (b_ctx b) = ctx /\ b_params b = sig /\ b_return b = ret.
Proof.
  unfold sig_of. rewrite <- (proj1 builtins_spec_ok), builtins_table_ok. unfold find_builtin, builtins_table. cbn [map find fst snd b_name b_ctx b_params b_return ctx_name].
  destruct (String.eqb "balance" name) eqn:E1; cbn [andb].
  { destruct (String.eqb "origin" ctx) eqn:C; [intros H; injection H as <- <-; eexists; repeat split; apply String.eqb_eq in C; exact C|].
    cbn [find]. destruct (String.eqb "meta" name) eqn:E2; cbn [andb].
    { apply String.eqb_eq in E1, E2. subst name. discriminate. }
    destruct (String.eqb "overdraft" name) eqn:E3; cbn [andb]; [apply String.eqb_eq in E1, E3; subst name; discriminate|].
    destruct (String.eqb "set_account_meta" name) eqn:E4; cbn [andb]; [apply String.eqb_eq in E1, E4; subst name; discriminate|].
    destruct (String.eqb "set_tx_meta" name) eqn:E5; cbn [andb]; [apply String.eqb_eq in E1, E5; subst name; discriminate|]. discriminate. }
  destruct (String.eqb "meta" name) eqn:E2; cbn [andb].
  { destruct (String.eqb "origin" ctx) eqn:C; [intros H; injection H as <- <-; eexists; repeat split; apply String.eqb_eq in C; exact C|].
    cbn [find]. destruct (String.eqb "overdraft" name) eqn:E3; cbn [andb]; [apply String.eqb_eq in E2, E3; subst name; discriminate|].
    destruct (String.eqb "set_account_meta" name) eqn:E4; cbn [andb]; [apply String.eqb_eq in E2, E4; subst name; discriminate|].
    destruct (String.eqb "set_tx_meta" name) eqn:E5; cbn [andb]; [apply String.eqb_eq in E2, E5; subst name; discriminate|]. discriminate. }
  destruct (String.eqb "overdraft" name) eqn:E3; cbn [andb].
  { destruct (String.eqb "origin" ctx) eqn:C; [intros H; injection H as <- <-; eexists; repeat split; apply String.eqb_eq in C; exact C|].
    cbn [find]. destruct (String.eqb "set_account_meta" name) eqn:E4; cbn [andb]; [apply String.eqb_eq in E3, E4; subst name; discriminate|].
    destruct (String.eqb "set_tx_meta" name) eqn:E5; cbn [andb]; [apply String.eqb_eq in E3, E5; subst name; discriminate|]. discriminate. }
  destruct (String.eqb "set_account_meta" name) eqn:E4; cbn [andb].
  { destruct (String.eqb "statement" ctx) eqn:C; [intros H; injection H as <- <-; eexists; repeat split; apply String.eqb_eq in C; exact C|].
    cbn [find]. destruct (String.eqb "set_tx_meta" name) eqn:E5; cbn [andb]; [apply String.eqb_eq in E4, E5; subst name; discriminate|]. discriminate. }
  destruct (String.eqb "set_tx_meta" name) eqn:E5; cbn [andb]; [|discriminate].
  destruct (String.eqb "statement" ctx) eqn:C; [intros H; injection H as <- <-; eexists; repeat split; apply String.eqb_eq in C; exact C|]. discriminate.
Qed.

Lemma args_quiet te : forall args sig s, agrees te s -> args_ok te args sig = true -> quiet (check_args args sig s) s.
Proof.
  induction args as [|a args IH]; intros sig s A H; destruct sig as [|t sig]; cbn [args_ok] in H; try discriminate; cbn [check_args].
  - apply quiet_refl.
  - apply andb_prop in H. destruct H as [H1 H2].
    apply quiet_bind; [exact (expr_quiet te a t s A H1)|]. intros s1 _ D1 _. exact (IH sig s1 (agrees_decl _ _ _ D1 A) H2).
Qed.

Lemma args_ok_length te : forall args sig, args_ok te args sig = true -> List.length args = List.length sig.
Proof.
  induction args as [|a args IH]; intros [|t sig] H; cbn [args_ok] in H; try discriminate; [reflexivity|].
  apply andb_prop in H. cbn [List.length]. f_equal. exact (IH sig (proj2 H)).
Qed.

Lemma args_ok_nonnil te : forall args sig, args_ok te args sig = true -> filter (fun e => negb (is_interface_nil e)) args = args.
Proof.
  induction args as [|a args IH]; intros [|t sig] H; cbn [args_ok] in H; try discriminate; [reflexivity|].
  apply andb_prop in H. destruct H as [H1 H2]. cbn [filter].
  assert (is_interface_nil a = false) as -> by (unfold has_type in H1; destruct a; cbn [type_of] in H1; try discriminate; reflexivity).
  cbn [negb]. f_equal. exact (IH sig H2).
Qed.

Lemma fncall_quiet te f b s : agrees te s -> args_ok te (fc_args f) (b_params b) = true -> quiet (check_fn_call_arity f (Some b) s) s.
Proof.
  intros A H. unfold check_fn_call_arity. rewrite (args_ok_nonnil te _ _ H). rewrite (args_ok_length te _ _ H).
  rewrite Nat.ltb_irrefl. cbn [bind]. exact (args_quiet te _ _ s A H).
Qed.

(* ---- statements ---- *)
Definition quiet0 (m : result unit cstate) (s : cstate) : Prop :=
  exists s', m = Ok s' /\ ec s' = ec s /\ cs_declared s' = cs_declared s.

Lemma quiet0_of_quiet m s : quiet m s -> quiet0 m s.
Proof. intros (s' & E & A & B & _). exists s'. repeat split; assumption. Qed.

Lemma ctx_statement b : ctx_name (b_ctx b) = "statement" -> b_ctx b = CtxStatement.
Proof. destruct (b_ctx b); [reflexivity|discriminate]. Qed.
Lemma ctx_origin b : ctx_name (b_ctx b) = "origin" -> b_ctx b = CtxOrigin.
Proof. destruct (b_ctx b); [discriminate|reflexivity]. Qed.

Lemma statement_quiet te st s : agrees te s -> stmt_ok te st = true -> quiet0 (check_statement st s) s.
Proof.
  intros A H. unfold check_statement. set (s0 := set_emptied [] s).
  assert (A0 : agrees te s0) by exact (agrees_decl te s s0 eq_refl A).
  destruct st as [| |f|r sv src dst|r sv a]; cbn [stmt_ok] in H; try discriminate.
  - (* call *)
    destruct (sig_of (fc_caller f) "statement") as [[sig ret]|] eqn:Es; [|discriminate].
    destruct (sig_of_builtin _ _ _ _ Es) as (b & Eb & Ec & Ep & _). rewrite Eb, (ctx_statement b Ec). rewrite <- Ep in H.
    apply quiet0_of_quiet.
    destruct (fncall_quiet te f b (add_fnres (fc_caller_range f) b s0) (agrees_decl te s0 _ eq_refl A0) H) as (s' & E & E1 & D1 & U1).
    exists s'. repeat split; assumption.
  - (* send *)
    destruct sv as [|rs m|rs x]; try discriminate.
    + apply andb_prop in H. destruct H as [H Hd]. apply andb_prop in H. destruct H as [Hm Hs].
      cbn [check_sent_value].
      set (s1 := set_unbounded_send false s0). assert (A1 : agrees te s1) by exact (agrees_decl te s0 s1 eq_refl A0).
      destruct (expr_quiet te m ty_monetary s1 A1 Hm) as (s2 & E2' & E2 & D2 & U2). change TypeMonetary with ty_monetary. rewrite E2'. cbn [bind].
      destruct (source_quiet te src false s2 (agrees_decl _ _ _ D2 A1) Hs ltac:(rewrite U2; reflexivity)) as (s3 & -> & E3 & D3 & U3). cbn [bind].
      destruct (proj1 (dest_quiet te) dst s3 (agrees_decl _ _ _ D3 (agrees_decl _ _ _ D2 A1)) Hd) as (s4 & -> & E4 & D4 & U4).
      exists s4. repeat split; [rewrite E4, E3, E2; reflexivity|rewrite D4, D3, D2; reflexivity].
    + apply andb_prop in H. destruct H as [H Hd]. apply andb_prop in H. destruct H as [Hm Hs].
      cbn [check_sent_value].
      set (s1 := set_unbounded_send true s0). assert (A1 : agrees te s1) by exact (agrees_decl te s0 s1 eq_refl A0).
      destruct (expr_quiet te x ty_asset s1 A1 Hm) as (s2 & E2' & E2 & D2 & U2). change TypeAsset with ty_asset. rewrite E2'. cbn [bind].
      destruct (source_quiet te src true s2 (agrees_decl _ _ _ D2 A1) Hs ltac:(rewrite U2; reflexivity)) as (s3 & -> & E3 & D3 & U3). cbn [bind].
      destruct (proj1 (dest_quiet te) dst s3 (agrees_decl _ _ _ D3 (agrees_decl _ _ _ D2 A1)) Hd) as (s4 & -> & E4 & D4 & U4).
      exists s4. repeat split; [rewrite E4, E3, E2; reflexivity|rewrite D4, D3, D2; reflexivity].
  - (* save *)
    destruct sv as [|rs m|rs x]; try discriminate; apply andb_prop in H; destruct H as [Hm Ha]; cbn [check_sent_value].
    + destruct (expr_quiet te m ty_monetary s0 A0 Hm) as (s2 & E2' & E2 & D2 & U2). change TypeMonetary with ty_monetary. rewrite E2'. cbn [bind].
      destruct (expr_quiet te a ty_account s2 (agrees_decl _ _ _ D2 A0) Ha) as (s3 & E3' & E3 & D3 & U3). change TypeAccount with ty_account. rewrite E3'.
      exists s3. repeat split; [rewrite E3, E2; reflexivity|rewrite D3, D2; reflexivity].
    + destruct (expr_quiet te x ty_asset s0 A0 Hm) as (s2 & E2' & E2 & D2 & U2). change TypeAsset with ty_asset. rewrite E2'. cbn [bind].
      destruct (expr_quiet te a ty_account s2 (agrees_decl _ _ _ D2 A0) Ha) as (s3 & E3' & E3 & D3 & U3). change TypeAccount with ty_account. rewrite E3'.
      exists s3. repeat split; [rewrite E3, E2; reflexivity|rewrite D3, D2; reflexivity].
Qed.

Lemma statements_quiet te : forall ss s, agrees te s -> forallb (stmt_ok te) ss = true -> quiet0 (check_statements ss s) s.
Proof.
  induction ss as [|st ss IH]; intros s A H; cbn [check_statements forallb] in *.
  - exists s. repeat split.
  - apply andb_prop in H. destruct H as [H1 H2].
    destruct (statement_quiet te st (set_unbounded_in_send false s) (agrees_decl te s _ eq_refl A) H1) as (s1 & -> & E1 & D1). cbn [bind].
    destruct (IH s1 (agrees_decl _ _ _ D1 A) H2) as (s2 & -> & E2 & D2).
    exists s2. repeat split; [rewrite E2, E1; reflexivity|rewrite D2, D1; reflexivity].
Qed.

(* ---- declarations ---- *)
Definition agrees2 (te : tenv) (s : cstate) : Prop := agrees te s /\ forall n, amem n (cs_declared s) = amem n te.

Lemma alookup_snoc' {A} k (v : A) m k' :
  alookup k' (m ++ [(k, v)]) = match alookup k' m with Some x => Some x | None => if String.eqb k' k then Some v else None end.
Proof. induction m as [|[k0 v0] m IH]; cbn [app alookup]; [reflexivity|]. destruct (String.eqb k' k0); [reflexivity|exact IH]. Qed.

Lemma decls_quiet : forall ds te te' s, agrees2 te s -> decls_ok te ds = Some te' ->
  exists s', check_var_decls ds s = Ok s' /\ ec s' = ec s /\ agrees2 te' s'.
Proof.
  induction ds as [|d ds IH]; intros te te' s [A M] H; cbn [decls_ok check_var_decls] in *.
  - injection H as <-. exists s. repeat split; assumption.
  - destruct (vd_name d) as [[rn n]|] eqn:En; [|discriminate]. destruct (vd_type d) as [[rt t]|] eqn:Et; [|discriminate].
    destruct (amem n te || negb (mem_str t spec_allowed_types)) eqn:Eg; [discriminate|].
    apply Bool.orb_false_iff in Eg. destruct Eg as [Hfresh Hall]. apply Bool.negb_false_iff in Hall.
    rewrite <- (proj2 builtins_spec_ok), allowed_types_ok in Hall. change (mem_str t allowed_types) with (is_type_allowed t) in Hall.
    (* the declaration itself *)
    assert (Hd : exists s1, check_var_decl d s = Ok s1 /\ ec s1 = ec s /\ agrees2 (te ++ [(n, t)]) s1
                 /\ (match vd_origin d with
                     | None => True
                     | Some f => exists sig ret, sig_of (fc_caller f) "origin" = Some (sig, ret) /\ args_ok te (fc_args f) sig = true
                                                  /\ (String.eqb ret ty_any || String.eqb ret t) = true
                     end -> True)).
    { unfold check_var_decl. rewrite En, Et, Hall.
      assert (Hdeclare : forall s3, ec s3 = ec s -> cs_declared s3 = cs_declared s ->
                exists s1, Ok (if amem n (cs_declared s3) then emit rn (DDuplicateVariable n) s3
                               else mkcstate (cs_unbounded_in_send s3) (cs_emptied s3) (cs_unbounded_send s3)
                                             (cs_declared s3 ++ [(n, d)]) (cs_unused s3 ++ [(n, rn)]) (cs_varres s3) (cs_fnres s3) (cs_diags s3))
                           = (Ok s1 : result unit cstate) /\ ec s1 = ec s /\ agrees2 (te ++ [(n, t)]) s1).
      { intros s3 E3 D3. rewrite D3, (M n), Hfresh. eexists. split; [reflexivity|]. split; [exact E3|].
        cbn [cs_declared]. split.
        - intros n0 t0 Hl. rewrite alookup_snoc' in Hl. cbn [cs_declared]. rewrite alookup_snoc'.
          destruct (alookup n0 te) as [t1|] eqn:E1.
          + injection Hl as <-. destruct (A n0 t1 E1) as (d0 & r0 & Hd0 & Ht0 & Ha0). rewrite Hd0. eexists _, _. repeat split; eassumption.
          + assert (alookup n0 (cs_declared s) = None) as ->.
            { specialize (M n0). unfold amem in M. rewrite E1 in M. destruct (alookup n0 (cs_declared s)); [discriminate|reflexivity]. }
            destruct (String.eqb n0 n); [|discriminate]. injection Hl as <-. eexists d, rt. repeat split; assumption.
        - intros n0. cbn [cs_declared]. unfold amem. rewrite !alookup_snoc'. specialize (M n0). unfold amem in M.
          destruct (alookup n0 (cs_declared s)), (alookup n0 te); try discriminate; try reflexivity.
          destruct (String.eqb n0 n); reflexivity. }
      destruct (vd_origin d) as [f|] eqn:Eo.
      - destruct (sig_of (fc_caller f) "origin") as [[sig ret]|] eqn:Es; [|discriminate].
        destruct (args_ok te (fc_args f) sig && (String.eqb ret ty_any || String.eqb ret t)) eqn:Ea; [|discriminate].
        apply andb_prop in Ea. destruct Ea as [Hargs Hret].
        destruct (sig_of_builtin _ _ _ _ Es) as (b & Eb & Ec & Ep & Er). rewrite Eb, (ctx_origin b Ec).
        assert (Hass : assert_has_type (Some rn) (b_return b) t (add_fnres (fc_caller_range f) b s) = Ok (add_fnres (fc_caller_range f) b s)).
        { apply assert_ok. rewrite Er. apply Bool.orb_true_iff in Hret. destruct Hret as [Hr|Hr]; apply String.eqb_eq in Hr; [left|right]; exact Hr. }
        rewrite Hass. cbn [bind]. rewrite <- Ep in Hargs.
        destruct (fncall_quiet te f b (add_fnres (fc_caller_range f) b s) (agrees_decl te s _ eq_refl A) Hargs) as (s3 & -> & E3 & D3 & _). cbn [bind].
        destruct (Hdeclare s3 E3 D3) as (s1 & -> & E1 & A1). exists s1. repeat split; try assumption; apply A1.
      - cbn [bind]. destruct (Hdeclare s eq_refl eq_refl) as (s1 & -> & E1 & A1). exists s1. repeat split; try assumption; apply A1. }
    destruct Hd as (s1 & -> & E1 & A1 & _). cbn [bind].
    assert (Hrest : decls_ok (te ++ [(n, t)]) ds = Some te').
    { destruct (vd_origin d) as [f|]; [|exact H].
      destruct (sig_of (fc_caller f) "origin") as [[sig ret]|]; [|discriminate]. destruct (_ && _); [exact H|discriminate]. }
    destruct (IH _ _ s1 A1 Hrest) as (s2 & -> & E2 & A2). exists s2. repeat split; [rewrite E2, E1; reflexivity|apply A2|apply A2].
Qed.

(* ---- C16, first sentence: a valid script receives no error-severity diagnostic ---- *)
Theorem valid_no_error p s : valid p = true -> check_default p [] = Ok s -> errors_count (cs_diags s) = O.
Proof.
  unfold valid, check_default, check_program. intros Hv H.
  destruct (decls_ok [] (p_vars p)) as [te|] eqn:Ed; [|discriminate].
  assert (A0 : agrees2 [] (initial_cstate [])) by (split; [intros n t Hl; discriminate|intros n; reflexivity]).
  destruct (decls_quiet _ _ _ _ A0 Ed) as (s1 & E1' & E1 & A1). rewrite E1' in H. cbn [bind] in H.
  destruct (statements_quiet te _ s1 (proj1 A1) Hv) as (s2 & E2' & E2 & _). rewrite E2' in H. cbn [bind] in H.
  injection H as <-. rewrite fold_emit_diags.
  unfold errors_count. rewrite filter_app, app_length.
  assert (G : forall l : list (string * range), List.length (filter (fun d => match severity_of (d_kind d) with SevError => true | SevWarning => false end)
                 (map (fun e : string * range => mkdiag (snd e) (DUnusedVar (fst e))) l)) = O)
    by (induction l as [|x l IHl]; [reflexivity|exact IHl]).
  rewrite G. fold (errors_count (cs_diags s2)). fold (ec s2). rewrite E2, E1. reflexivity.
Qed.
