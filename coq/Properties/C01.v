(* C01 - No unauthorized overdraft: a script never takes more than an account may give.
   Statements only; proofs in Proofs/OverdraftProofs.v (per-statement bound from the greedy draw
   law of Spec/Greedy + invariant "the interpreter's cached balance never exceeds the ledger"
   carried across statements, saves included). *)
From NS Require Import Stmt EvalTrees Ledger GreedyProofs DestProofs LedgerProofs OverdraftProofs.

(* For every statement list (any number of sends, saves and calls, any nesting of sources, accounts
   repeated or reached through variables), every environment, every starting balance sheet B
   (zero, negative, beyond 2^64) on which execution succeeds with postings ps, and every account a
   and asset c all of whose source occurrences are bounded (plain `@a` counts as an overdraft of 0;
   @world and `allowing unbounded overdraft` occurrences are excluded by grants_ok) with every
   granted overdraft at most G: after EVERY prefix of the postings, replayed in order on B, the
   balance of (a, c) is at least the lower of its starting balance and -G.
   Hypothesis eval_stmts: the expressions of every send statement evaluate (scripts that succeed
   although an unreached destination expression does not evaluate are covered by the
   correspondence only); wf_estmt: portions are non-negative (true of parsed literals and of
   portion variables, which are checked to lie in [0,1]). The starting cache is B itself; C10
   relates this to executions against a store. *)
Theorem C01_no_unauthorized_overdraft : forall vs ss es B st ps st' a c G,
  run_stmts vs ss st = Ok (ps, st') -> st_cache st = B ->
  eval_stmts vs ss = Some es -> Forall wf_estmt es ->
  grants_ok (all_leaves es) a c G ->
  forall ps1 ps2, ps = ps1 ++ ps2 -> Z.min (bget B a c) (- G) <= replay (ledger_of B) ps1 a c.
Proof. exact no_unauthorized_overdraft. Qed.

(* the invariant behind it, for any ledger the cache does not exceed *)
Theorem C01_invariant : forall vs ss es st ps st' L0 L a c G,
  run_stmts vs ss st = Ok (ps, st') ->
  eval_stmts vs ss = Some es -> Forall wf_estmt es ->
  cache_le (st_cache st) L ->
  grants_ok (all_leaves es) a c G ->
  Z.min (L0 a c) (- G) <= L a c ->
  forall ps1 ps2, ps = ps1 ++ ps2 -> Z.min (L0 a c) (- G) <= replay L ps1 a c.
Proof. exact run_stmts_overdraft. Qed.

Print Assumptions C01_no_unauthorized_overdraft.

(* non-vacuity: send [USD 20] (source = {@a @a} destination = @c) with 10 on @a fails (the pinned
   tree posted 20); with 25 it succeeds and @a ends at 5 >= min(25, 0) *)
Definition dup_send (n : Z) : stmt :=
  StSend norange (SVLit norange (EMonetary norange (EAsset norange "USD") (ENumber norange n)))
    (SInorder norange [SAccount (EAccount norange "a"); SAccount (EAccount norange "a")])
    (DAccount (EAccount norange "c")).
Example C01_example :
  run_stmts [] [dup_send 20] (mkstate [(("a", "USD"), 10)] [] []) = Err (MissingFundsErr "USD" 20 10) /\
  (exists st', run_stmts [] [dup_send 20] (mkstate [(("a", "USD"), 25)] [] []) = Ok ([mkposting "a" "c" 20 "USD"], st')) /\
  (exists es, eval_stmts [] [dup_send 20] = Some es /\ grants_ok (all_leaves es) "a" "USD" 0).
Proof.
  split; [reflexivity|]. split; [eexists; reflexivity|]. eexists. split; [reflexivity|].
  intros od Hin. cbn in Hin.
  destruct Hin as [H|[H|H]]; [injection H as <-|injection H as <-|contradiction]; exists 0; split; try reflexivity; apply Z.le_refl.
Qed.
