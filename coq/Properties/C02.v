(* C02 - Every posting is a real transfer: positive amount, right asset, real accounts.
   Statements only; proofs in Proofs/OverdraftProofs.v, Proofs/StmtProofs.v, Proofs/ReconcileProofs.v. *)
From NS Require Import Stmt EvalTrees Pairing GreedyProofs DestProofs ReconcileProofs OverdraftProofs.

(* For every statement list on which execution succeeds (negative balances, negative caps, kept
   amounts larger than one source's share included): every posting has a strictly positive amount,
   none is addressed to the internal kept marker, and the postings come grouped by statement in
   order, each group carrying the asset of the send statement that produced it (saves and calls
   produce none). *)
Theorem C02_postings_wellformed : forall vs ss es st ps st',
  run_stmts vs ss st = Ok (ps, st') -> eval_stmts vs ss = Some es -> Forall wf_estmt es ->
  Forall (fun p => 0 < pamt p /\ pdst p <> KEPT_ADDR) ps /\ grouped es ps.
Proof. exact run_stmts_wellformed. Qed.

(* the reconciler itself: with positive draw and distribution lists, every posting is positive,
   names a sender of the draw list and a receiver of the distribution list other than kept *)
Theorem C02_reconcile_postings : forall asset S R ps,
  pos_entries S -> pos_entries R -> reconcile asset S R = Some ps -> Forall (posting_ok S R) ps.
Proof. exact reconcile_postings_ok. Qed.

Print Assumptions C02_postings_wellformed.
Print Assumptions C02_reconcile_postings.

Definition dup_send (n : Z) : stmt :=
  StSend norange (SVLit norange (EMonetary norange (EAsset norange "USD") (ENumber norange n)))
    (SInorder norange [SAccount (EAccount norange "a"); SAccount (EAccount norange "a")])
    (DAccount (EAccount norange "c")).
Example C02_example :
  exists st', run_stmts [] [dup_send 20] (mkstate [(("a", "USD"), 25)] [] []) = Ok ([mkposting "a" "c" 20 "USD"], st').
Proof. eexists; reflexivity. Qed.
