(* C03 - A fixed-amount send moves exactly that amount or the whole script fails.
   Statements only; proofs in Proofs/StmtProofs.v. *)
From NS Require Import Stmt EvalTrees Pairing Greedy Distribution GreedyProofs DestProofs ReconcileProofs StmtProofs.

(* For a send of a fixed amount n >= 0 whose expressions evaluate (any source tree, any
   destination tree, any cached balances): the statement fails with MissingFunds exactly when the
   greedy draw of the sources, in their declared order within balances, caps and overdraft limits,
   cannot supply n where an exact amount is required (draw_exact = Short); it fails with
   InvalidAllotmentSum exactly when an allotment that is reached is rejected; otherwise it
   succeeds and the amounts of its postings add up to exactly n minus what the destination keeps. *)
Theorem C03_exact_or_fails : forall vs cache r m src dst asset n es ed st,
  eval_as vs m expect_monetary = Ok (asset, n) -> 0 <= n ->
  eval_esrc vs asset src = Some es -> wf_esrc es ->
  eval_edest vs asset dst = Some ed -> wf_edest ed ->
  st_cache st = cache ->
  match draw_exact (fun a => bget cache a asset) es n with
  | Short a b => run_send vs (SVLit r m) src dst st = Err (MissingFundsErr asset a b)
  | BadAllotment => run_send vs (SVLit r m) src dst st = Err InvalidAllotmentSum
  | Drawn _ p =>
      match distribute ed n with
      | None => run_send vs (SVLit r m) src dst st = Err InvalidAllotmentSum
      | Some cr =>
          exists ps, run_send vs (SVLit r m) src dst st
                       = Ok (ps, mkstate (apply_postings cache ps) (st_txmeta st) (st_accmeta st))
            /\ reconcile asset p (nonzero cr) = Some ps
            /\ posted ps = n - credited_to cr KEPT
            /\ Forall (posting_ok p (nonzero cr)) ps
            /\ Forall (fun q => passet q = asset) ps
            /\ (forall x, debited ps x <= pulled_of p x)
            /\ (forall s d, d <> KEPT_ADDR -> flow ps s d = flow_units p (nonzero cr) s d)
      end
  end.
Proof. exact run_send_fixed. Qed.

(* a negative amount is rejected before anything is drawn *)
Theorem C03_negative_rejected : forall vs r m src dst asset n st,
  eval_as vs m expect_monetary = Ok (asset, n) -> n < 0 ->
  run_send vs (SVLit r m) src dst st = Err (NegativeAmountErr n).
Proof. exact run_send_negative. Qed.

(* the first error aborts the whole script: no posting of an earlier statement survives *)
Theorem C03_first_error_aborts : forall vs ss1 s ss2 st st1 ps1 e,
  run_stmts vs ss1 st = Ok (ps1, st1) -> run_stmt vs s st1 = Err e ->
  run_stmts vs (ss1 ++ s :: ss2) st = Err e.
Proof. exact run_stmts_abort. Qed.

Print Assumptions C03_exact_or_fails.
Print Assumptions C03_first_error_aborts.

Example C03_example :
  run_send [] (SVLit norange (EMonetary norange (EAsset norange "USD") (ENumber norange 0)))
     (SAccount (EAccount norange "a")) (DAccount (EAccount norange "b")) (mkstate [] [] [])
  = Ok ([], mkstate [] [] []).
Proof. reflexivity. Qed.
