(* C04 - Sources are drawn in declared order, each to its limit before the next.
   Statements only. Spec/Greedy.v defines the left-to-right greedy draw on evaluated source trees
   (draw, draw_exact, drain) without reference to the interpreter model; Proofs/GreedyProofs.v
   proves its laws, Proofs/SourceProofs.v proves that the model of trySendingUpTo / sendAll
   (Model/Source.v) computes it. *)
From NS Require Import Source EvalTrees Greedy GreedyProofs SourceProofs.

(* an account gives min(what is still needed, balance + granted overdraft - what it already gave
   in this statement), never less than zero; @world / unbounded overdraft gives all that is needed *)
Theorem C04_leaf_bounded : forall bal a od need p,
  leaf_gives bal a (Some od) need p = Z.min need (Z.max 0 (bal a + od - pulled_of p a)).
Proof. exact leaf_gives_bounded. Qed.
Theorem C04_leaf_unbounded : forall bal a need p, leaf_gives bal a None need p = need.
Proof. exact leaf_gives_unbounded. Qed.

(* a later source is used only for what the earlier ones could not give *)
Theorem C04_inorder_sequential : forall bal s l need p,
  draw bal (ESInorder (s :: l)) need p =
  match draw bal s need p with
  | Drawn g p' => shift_drawn g (draw bal (ESInorder l) (need - g) p')
  | r => r
  end.
Proof. exact inorder_sequential. Qed.

Theorem C04_nothing_needed_nothing_taken : forall bal s p g p',
  wf_esrc s -> draw bal s 0 p = Drawn g p' -> g = 0 /\ p' = p.
Proof. exact nothing_needed_nothing_taken. Qed.

(* enclosing caps: min, and a negative cap counts as zero *)
Theorem C04_cap_is_min : forall bal c s need p,
  draw bal (ESCapped c s) need p = draw bal s (Z.max 0 (Z.min need c)) p.
Proof. exact cap_is_min. Qed.

(* for every source tree (any nesting), every need >= 0 and every state of the statement: the
   draw gives between 0 and the need, what it appends to the draw list are positive amounts that
   add up to what it gives, an account all of whose leaves are bounded by M never gives more in
   total than max(what it had given, balance + M), and accounts not named are untouched *)
Theorem C04_draw_bounds : forall bal s need p g p',
  wf_esrc s -> 0 <= need -> draw bal s need p = Drawn g p' -> draw_post bal s need p g p'.
Proof. exact draw_bounds. Qed.

(* send-all: bounded accounts are drained to exactly their limit, unbounded accounts and allotments
   are rejected unless a cap encloses them *)
Theorem C04_drain_account : forall bal a od p,
  drain bal (ESAccount a (Some od)) p =
  let g := Z.max 0 (bal a + od - pulled_of p a) in Drained g (if g =? 0 then p else p ++ [(a, g)]).
Proof. exact drain_account. Qed.
Theorem C04_drain_rejects_unbounded : forall bal a p, drain bal (ESAccount a None) p = Rejected.
Proof. exact drain_rejects_unbounded. Qed.
Theorem C04_drain_rejects_allotment : forall bal items p, drain bal (ESAllot items) p = Rejected.
Proof. exact drain_rejects_allotment. Qed.
Theorem C04_drain_capped : forall bal c s p,
  drain bal (ESCapped c s) p =
  match draw bal s (Z.max 0 c) p with
  | Drawn g p' => Drained g p' | Short a b => DrainShort a b | BadAllotment => DrainBadAllotment end.
Proof. exact drain_capped. Qed.
Theorem C04_drain_bounds : forall bal s p g p',
  wf_esrc s -> drain bal s p = Drained g p' -> 0 <= g /\ extends p p' g /\
  (forall a M, bounded_by s a M -> pulled_of p' a <= Z.max (pulled_of p a) (bal a + M)).
Proof. exact drain_bounds. Qed.

(* the interpreter model computes exactly this draw: for every source whose expressions evaluate
   (accounts through variables, caps, portions), in both modes, with the same errors *)
Theorem C04_model_draw : forall vs cache asset src es amount (sd : list entry),
  eval_esrc vs asset src = Some es ->
  match_draw asset (try_sending_up_to vs cache asset src amount sd) (draw (fun a => bget cache a asset) es amount sd).
Proof. exact try_sending_refines. Qed.
Theorem C04_model_drain : forall vs cache asset src es (sd : list entry),
  eval_esrc vs asset src = Some es ->
  match_drain asset (send_all vs cache asset src sd) (drain (fun a => bget cache a asset) es sd).
Proof. exact send_all_refines. Qed.

Print Assumptions C04_draw_bounds.
Print Assumptions C04_drain_bounds.
Print Assumptions C04_model_draw.
Print Assumptions C04_model_drain.
Print Assumptions C04_inorder_sequential.

(* non-vacuity: {@a @b} with 3 and 10, need 5: a gives 3, b gives 2 *)
Example C04_example :
  draw (fun a => if String.eqb a "a" then 3 else 10) (ESInorder [ESAccount "a" (Some 0); ESAccount "b" (Some 0)]) 5 []
  = Drawn 5 [("a", 3); ("b", 2)].
Proof. reflexivity. Qed.
