(* C05 - Destinations are filled in order up to their caps; `remaining` gets the rest.
   Statements only. Spec/Distribution.v defines the distribution on evaluated destination trees;
   Proofs/DestProofs.v proves conservation and that the model of receiveFrom computes it. *)
From NS Require Import Dest EvalTrees Distribution DestProofs.

(* credited plus kept amounts equal the amount sent, and nothing is credited a negative amount:
   for every destination tree (nesting, kept in any position, allotments, zero / negative / huge
   caps) and every amount >= 0 *)
Theorem C05_conservation : forall d n cr,
  wf_edest d -> 0 <= n -> distribute d n = Some cr ->
  total cr = n /\ Forall (fun e : string * Z => 0 <= snd e) cr.
Proof. exact (proj1 distribute_conserves). Qed.

(* each `max` clause receives min(its cap, what is left), a negative cap counting as zero; what
   follows is distributed from what remains; `remaining` receives the rest *)
Theorem C05_inorder_clause : forall cap k l rem n,
  distribute (EDInorder ((cap, k) :: l) rem) n =
  let amt := Z.max 0 (Z.min cap n) in
  if amt =? 0 then distribute (EDInorder l rem) n
  else match distribute_kod k amt, distribute (EDInorder l rem) (n - amt) with
       | Some x, Some y => Some (x ++ y)
       | _, _ => None
       end.
Proof. exact inorder_clause. Qed.
Theorem C05_inorder_remaining : forall rem n,
  distribute (EDInorder [] rem) n = if n =? 0 then Some [] else distribute_kod rem n.
Proof. exact inorder_remaining. Qed.

(* amounts routed to kept are credited to nobody (they go to the kept marker only) *)
Theorem C05_kept_credits_nobody : forall n, distribute_kod EKept n = Some [(KEPT, n)].
Proof. exact kept_credits_nobody. Qed.

(* the interpreter model computes exactly this distribution (zero credits are not queued), and
   fails with InvalidAllotmentSum exactly when the specification rejects an allotment it reaches *)
Theorem C05_model_distribution : forall vs asset d ed n (rcv : list entry),
  eval_edest vs asset d = Some ed ->
  match_dist (receive_from vs asset d n rcv) rcv (distribute ed n).
Proof. intros vs asset. exact (proj1 (receive_refines vs asset)). Qed.

Print Assumptions C05_conservation.
Print Assumptions C05_model_distribution.
Print Assumptions C05_inorder_clause.

Example C05_example :
  distribute (EDInorder [(-5, ETo (EDAccount "a")); (4, EKept)] (ETo (EDAccount "b"))) 10
  = Some [(KEPT, 4); ("b", 6)].
Proof. reflexivity. Qed.
