(* C06 - Allotments split exactly: floor shares, leftover units leftmost, nothing lost.
   Statements only; proofs are in Proofs/AllotProofs.v. Spec/Shares.v defines floor_share,
   leftover, spec_shares and the portions denoted by a clause list (a `remaining` clause stands
   for one minus the other portions). *)
From Coq Require Import QArith.
From NS Require Import Allot Shares AllotProofs.

(* Arithmetic core, on the specification alone: for every amount n >= 0 and every non-empty
   portion vector that sums to one, the shares add up to exactly n, and fewer units are left
   over by the floors than there are clauses. *)
Theorem C06_shares_add_up : forall n ps,
  0 <= n -> ps <> [] -> (qtotal ps == 1)%Q ->
  zsum (spec_shares n ps) = n /\ 0 <= leftover n ps < Z.of_nat (List.length ps).
Proof. exact spec_shares_exact. Qed.

(* each share is the exact portion rounded down, plus at most one unit *)
Theorem C06_each_share : forall n ps i,
  floor_share n (nth i ps 0%Q) <= spec_share n ps i <= floor_share n (nth i ps 0%Q) + 1.
Proof. exact spec_share_bounds. Qed.

(* Full statement on the model of makeAllotment (any environment, any clause list without nil
   nodes, literal portions, portion variables and `remaining` in any position): either the clause
   list is rejected with InvalidAllotmentSum - exactly when it denotes no portion vector - or the
   result is the specified shares: they sum to n, share i is floor(p_i * n) plus one for the first
   `leftover` clauses, and leftover < number of clauses. *)
Theorem C06_allotment_exact : forall vs n items aps,
  0 <= n -> items <> [] ->
  eval_allots vs items = Ok aps -> List.length aps = List.length items ->
  (exists ps, denoted_portions (map clause_of_aportion aps) = Some ps /\
     (qtotal ps == 1)%Q /\
     make_allotment vs n items = Ok (spec_shares n ps) /\
     zsum (spec_shares n ps) = n /\
     0 <= leftover n ps < Z.of_nat (List.length ps) /\
     (forall i, (i < List.length ps)%nat ->
        nth i (spec_shares n ps) 0 = floor_share n (nth i ps 0%Q) + (if Z.of_nat i <? leftover n ps then 1 else 0)))
  \/ (denoted_portions (map clause_of_aportion aps) = None /\ make_allotment vs n items = Err InvalidAllotmentSum).
Proof. exact allotment_exact. Qed.

(* portions that do not add up to one are rejected (without `remaining`), and so are portions
   exceeding one with `remaining` *)
Theorem C06_rejects_bad_sum : forall cs,
  has_remaining cs = false -> ~ (explicit_total cs == 1)%Q -> denoted_portions cs = None.
Proof. exact denoted_portions_rejects. Qed.

Theorem C06_rejects_excess : forall cs,
  has_remaining cs = true -> (1 < explicit_total cs)%Q -> denoted_portions cs = None.
Proof. exact denoted_portions_rejects_excess. Qed.

Print Assumptions C06_shares_add_up.
Print Assumptions C06_each_share.
Print Assumptions C06_allotment_exact.
Print Assumptions C06_rejects_bad_sum.
Print Assumptions C06_rejects_excess.

(* non-vacuity: 15% / 30% / remaining of 99 is 15 / 30 / 54 (the suite's example); 1/3 x 3 of 10 *)
Example C06_example :
  option_map (spec_shares 99) (denoted_portions [Some (15 # 100); Some (30 # 100); None]%Q) = Some [15; 30; 54] /\
  spec_shares 10 [1 # 3; 1 # 3; 1 # 3]%Q = [4; 3; 3] /\
  denoted_portions [Some (1 # 2); Some (1 # 3)]%Q = None.
Proof. repeat split; vm_compute; reflexivity. Qed.
