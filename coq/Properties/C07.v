(* C07 - Funds pair first-come-first-served; kept funds stay with the earliest sources.
   This file contains statements only; proofs are in Proofs/. *)
From NS Require Import Reconcile Pairing ReconcileProofs.

(* For every sender list and receiver list with positive amounts (kept in any position, any
   relative sizes): the reconciler terminates, the net flow between every source and every real
   destination is the number of units of that source that meet a unit of that destination in the
   in-order pairing of the draw list with the distribution list; no posting names the kept marker,
   every posting is positive, carries the asset, and names accounts of the inputs. Units paired
   with `kept` are therefore debited from nobody, whichever senders they span. *)
Theorem C07_reconcile_flow : forall asset S R,
  pos_entries S -> pos_entries R ->
  exists ps, reconcile asset S R = Some ps /\
    (forall s d, d <> KEPT_ADDR -> flow ps s d = flow_units S R s d) /\
    Forall (posting_ok S R) ps /\
    Forall (fun p => passet p = asset) ps.
Proof. exact reconcile_spec. Qed.
Print Assumptions C07_reconcile_flow.

(* non-vacuity: the premises hold of a concrete input, with kept larger than the first sender *)
Example C07_premises_satisfiable :
  pos_entries [("a", 5); ("b", 5)] /\ pos_entries [(KEPT_ADDR, 8); ("c", 2)] /\
  reconcile "USD" [("a", 5); ("b", 5)] [(KEPT_ADDR, 8); ("c", 2)] = Some [mkposting "b" "c" 2 "USD"].
Proof. repeat split; repeat constructor. Qed.
