(* C08 - `save` reserves funds: later statements cannot move what was saved.
   Statements only; proofs in Proofs/SaveProofs.v (the reserve theorem is the C01 invariant applied
   to a ledger shifted by the reserved amount). *)
From NS Require Import Stmt EvalTrees Ledger GreedyProofs DestProofs LedgerProofs OverdraftProofs SaveProofs.

(* save produces no posting and sets the visible balance of (account, asset) to save_visible:
   reduced by n but not below zero; `save [A *]` hides all of it; a balance that is already
   negative (or zero) is not raised *)
Theorem C08_save_lowers : forall vs r sv acct_e st asset amt account,
  eval_sent_amt vs sv = Ok (asset, amt) -> eval_as vs acct_e expect_account = Ok account ->
  (match amt with Some n => 0 <= n | None => True end) ->
  run_stmt vs (StSave r sv acct_e) st =
    Ok ([], mkstate (bset (account, asset) (save_visible (bget (st_cache st) account asset) amt) (st_cache st))
                    (st_txmeta st) (st_accmeta st)).
Proof. exact save_lowers. Qed.

Theorem C08_save_visible : forall v n,
  save_visible v (Some n) = (if v <=? 0 then v else Z.max 0 (v - n)) /\ save_visible v None = Z.min v 0.
Proof. exact save_visible_spec. Qed.

(* a negative amount is rejected *)
Theorem C08_negative_rejected : forall vs r sv acct_e st asset n account,
  eval_sent_amt vs sv = Ok (asset, Some n) -> eval_as vs acct_e expect_account = Ok account -> n < 0 ->
  run_stmt vs (StSave r sv acct_e) st = Err (NegativeAmountErr n).
Proof. exact save_negative_rejected. Qed.

(* the saved amount cannot be sent without an overdraft grant: from any state whose visible
   balances do not exceed the ledger L (true initially and preserved by every statement), whatever
   statements follow - any number, any sources, credits to the account included - as long as every
   source occurrence of the account x for asset c is plain, every prefix of their postings leaves
   (x, c) at least at  L - max(0, visible)  : the part of the balance that save made invisible. *)
Theorem C08_reserve_kept : forall vs ss es st ps st' L x c,
  run_stmts vs ss st = Ok (ps, st') -> eval_stmts vs ss = Some es -> Forall wf_estmt es ->
  cache_le (st_cache st) L ->
  grants_ok (all_leaves es) x c 0 ->
  forall ps1 ps2, ps = ps1 ++ ps2 -> L x c - Z.max 0 (bget (st_cache st) x c) <= replay L ps1 x c.
Proof. exact reserve_kept. Qed.

Print Assumptions C08_save_lowers.
Print Assumptions C08_reserve_kept.

(* non-vacuity: 10 on @a, save [USD 7] from @a, then send [USD 4] from @a fails (only 3 visible) *)
Definition m (n : Z) := EMonetary norange (EAsset norange "USD") (ENumber norange n).
Example C08_example :
  run_stmts [] [StSave norange (SVLit norange (m 7)) (EAccount norange "a");
                StSend norange (SVLit norange (m 4)) (SAccount (EAccount norange "a")) (DAccount (EAccount norange "b"))]
    (mkstate [(("a", "USD"), 10)] [] []) = Err (MissingFundsErr "USD" 4 3).
Proof. reflexivity. Qed.
