(* C09 - Statements compose sequentially: each sees the effects of all earlier ones.
   Statements only; proofs in Proofs/StmtProofs.v and Proofs/MetaProofs.v. *)
From NS Require Import Stmt StmtProofs MetaProofs.

(* executing S1 ++ S2 is executing S1, then S2 from the state S1 left (cached balances updated by
   S1's postings and lowered by its saves, metadata written so far), concatenating the postings;
   for every split point, every environment and every starting state *)
Theorem C09_split : forall vs ss1 ss2 st,
  run_stmts vs (ss1 ++ ss2) st =
  ('(ps1, st1) <- run_stmts vs ss1 st ;; '(ps2, st2) <- run_stmts vs ss2 st1 ;; Ok (ps1 ++ ps2, st2)).
Proof. exact run_stmts_app. Qed.

(* nothing else carries over: a statement's outcome depends on the state only through the cached
   balances; metadata written earlier does not influence postings *)
Theorem C09_only_balances_carry_over : forall vs s st tm am,
  option_map fst (ok_opt' (run_stmt vs s (mkstate (st_cache st) tm am))) = option_map fst (ok_opt' (run_stmt vs s st)).
Proof. exact run_stmt_postings_indep_meta. Qed.

(* metadata: a later set_tx_meta / set_account_meta overrides the value of the same key and leaves
   every other key as it was *)
Theorem C09_tx_meta_override : forall k v st st' k',
  set_tx_meta [VString k; v] st = Ok st' ->
  alookup k' (st_txmeta st') = if String.eqb k' k then Some v else alookup k' (st_txmeta st).
Proof. exact set_tx_meta_override. Qed.

Theorem C09_account_meta_override : forall a k v st st' a' k',
  set_account_meta [VAccount a; VString k; v] st = Ok st' ->
  acc_meta_get (st_accmeta st') a' k' =
  if (String.eqb a' a && String.eqb k' k)%bool then Some (value_string v) else acc_meta_get (st_accmeta st) a' k'.
Proof. exact set_account_meta_override. Qed.

Print Assumptions C09_split.
Print Assumptions C09_account_meta_override.

Example C09_example :
  let s1 := StFnCall (mkfncall norange norange "set_tx_meta" [EString norange "k"; ENumber norange 1]) in
  let s2 := StFnCall (mkfncall norange norange "set_tx_meta" [EString norange "k"; ENumber norange 2]) in
  option_map (fun r => st_txmeta (snd r)) (ok_opt' (run_stmts [] [s1; s2] (mkstate [] [] []))) = Some [("k", VNumber 2)].
Proof. reflexivity. Qed.
