(* C10 - Results depend only on the balances asked for, never on how the store answers.
   Statements only; proofs in Proofs/StoreProofs.v and Proofs/CoverageProofs.v. *)
From NS Require Import Run StoreProofs.

(* the balance of @world is never requested: no balance query that reaches the store, at any point
   of any execution (variable origins, preload), mentions @world *)
Theorem C10_world_never_queried : forall p raw sb flag x,
  run_program p raw sb flag = Ok x -> forall q, In (CallBalances q) (x_log x) -> no_world q.
Proof. exact world_never_queried. Qed.

(* a value learned from an earlier request is not forgotten (nor overwritten) when a later answer
   is merged into the cache *)
Theorem C10_cache_monotone : forall ans cache k v,
  bfind k cache = Some v -> bfind k (merge_balances cache ans) = Some v.
Proof. exact cache_monotone. Qed.

Print Assumptions C10_world_never_queried.
Print Assumptions C10_cache_monotone.

Example C10_example : merge_balances [(("a", "USD"), 7)] [(("a", "USD"), 0); (("b", "USD"), 3)] = [(("a", "USD"), 7); (("b", "USD"), 3)].
Proof. reflexivity. Qed.
