(* C10 - Results depend only on the balances asked for, never on how the store answers.
   Statements only; proofs in Proofs/StoreProofs.v, CacheExt.v, SheetProofs.v, StoreKinds.v.

   Spec/SheetRun.v defines [run_sheet B M]: the script executed directly on a balance sheet B and a
   metadata sheet M, without any store (requested cells at their value in B, every other cell and
   the balance of @world read as 0), and [faithful B M sb]: the store sb answers every balance query
   with at least the requested cells at their value in B - cells that are absent or zero in B may
   be left out, anything may be added - and every metadata query with the text M holds. *)
From NS Require Import Run StoreProofs SheetRun SheetProofs StoreKinds Observe.

(* against ANY faithful store, whatever it leaves out or adds and whatever it answers to which call,
   the outcome (postings, transaction and account metadata, or the error) is the outcome of the
   sheet semantics: a function of the script, the variables and the ledger alone *)
Theorem C10_store_refines_sheet : forall B M sb p raw flag,
  faithful B M sb -> outcome_of (run_program p raw sb flag) = run_sheet B M p raw flag.
Proof. exact (fun B M sb p raw flag H => run_program_refines_sheet B M sb H p raw flag). Qed.

(* hence two faithful stores give the same outcome *)
Theorem C10_faithful_stores_agree : forall B M sb1 sb2 p raw flag,
  faithful B M sb1 -> faithful B M sb2 ->
  outcome_of (run_program p raw sb1 flag) = outcome_of (run_program p raw sb2 flag).
Proof. exact faithful_stores_agree. Qed.

(* the store that returns exactly the pairs requested, the one that omits absent or zero entries,
   the one that returns its whole content and the bundled static store (which does the same) are
   faithful: the four behaviours the implementation is run against by the harness *)
Theorem C10_store_kinds_faithful : forall k B M, faithful B M (mk_store k B M None).
Proof. exact store_kinds_faithful. Qed.

(* the balance of @world is never requested: no balance query that reaches the store, at any point
   of any execution (variable origins, preload), mentions @world *)
Theorem C10_world_never_queried : forall p raw sb flag x,
  run_program p raw sb flag = Ok x -> forall q, In (CallBalances q) (x_log x) -> no_world q.
Proof. exact world_never_queried. Qed.

(* a value learned from an earlier request is not forgotten (nor overwritten) when a later answer
   is merged into the cache *)
Theorem C10_cache_monotone : forall ans cache k v,
  bfind k cache = Some v -> bfind k (merge_balances cache ans) = Some v.
Proof. exact cache_monotone. Qed.

Print Assumptions C10_store_refines_sheet.
Print Assumptions C10_faithful_stores_agree.
Print Assumptions C10_store_kinds_faithful.
Print Assumptions C10_world_never_queried.
Print Assumptions C10_cache_monotone.

Example C10_example :
  merge_balances [(("a", "USD"), 7)] [(("a", "USD"), 0); (("b", "USD"), 3)] = [(("a", "USD"), 7); (("b", "USD"), 3)]
  (* an unrequested cell (here @world's) is not cached even when the store volunteers it *)
  /\ restrict_answer [("x", ["USD"])] [(("x", "USD"), 5); (("world", "USD"), 70)] = [(("x", "USD"), 5)].
Proof. split; reflexivity. Qed.
