(* C11 - Execution is a pure, deterministic, re-entrant function of its inputs (PARTIAL).
   Statements only; proofs in Proofs/StoreProofs.v. What is proved: feature-flag gating. The model
   is a Gallina function, so determinism of the MODEL is not a result; that the implementation is
   deterministic, leaves its inputs unchanged and is re-entrant is decided by the correspondence
   (two runs on the same objects, deep comparison of the caller's maps, 16 goroutines on one shared
   parse result, race detector in the thorough tier), because aliasing and data races live in the
   Go runtime and have no counterpart in the model. *)
From NS Require Import Run StoreProofs.

(* feature flags change nothing except the feature they gate: a script that does not call
   overdraft() runs identically with the flag on and off *)
Theorem C11_flag_only_gates_overdraft : forall p raw sb b1 b2,
  uses_overdraft_fn p = false -> run_program p raw sb b1 = run_program p raw sb b2.
Proof. exact flag_only_gates_overdraft. Qed.

(* and one that does can only differ by the ExperimentalFeature error *)
Theorem C11_flag_off_differs_only_by_experimental : forall p raw sb,
  run_program p raw sb false = run_program p raw sb true \/ run_program p raw sb false = Err ExperimentalFeature.
Proof. exact flag_off_differs_only_by_experimental. Qed.

Print Assumptions C11_flag_only_gates_overdraft.
Print Assumptions C11_flag_off_differs_only_by_experimental.

Example C11_example :
  let p := mkprogram [mkvardecl norange (Some (norange, "m")) (Some (norange, "monetary"))
                        (Some (mkfncall norange norange "overdraft" [EAccount norange "a"; EAsset norange "USD"]))] [] in
  uses_overdraft_fn p = true /\
  run_program p [] (fun _ _ => AnsBalances []) false = Err ExperimentalFeature /\
  is_ok (run_program p [] (fun _ _ => AnsBalances []) true) = true.
Proof. repeat split; reflexivity. Qed.
