(* C12 - Execution never panics and fails atomically with a typed error.
   Statements only; proofs in Proofs/NoPanicProofs.v. In the model every Go panic site is an
   explicit Panic outcome (nil dereference of a missing AST field, non-exhaustive type switch,
   index out of range after a skipped allotment clause, reconciler fuel), so "never panics" is a
   theorem about the model, not a by-product of totality. *)
From NS Require Import Run NoPanicProofs Lexer Parser NestedParse.
From NS Require Tables.

(* for every complete AST (no nil node: what an error-free parse produces), every variables map
   (missing or ill-typed texts included), every feature-flag value and every store that answers
   each kind of call with that kind of answer or with an error: the execution does not panic *)
Theorem C12_no_panic : forall p raw sb flag,
  program_complete p = true -> store_wellbehaved sb -> forall w, run_program p raw sb flag <> Panic w.
Proof. exact run_program_no_panic. Qed.

(* an execution returns either a complete result or an error value, never both (the result type
   of the model is a sum, mirroring RunWithFeatureFlags' `ExecutionResult{}` on error), and every
   error value is one of the error types declared in interpreter_error.go (table regenerated from
   the source on every run) *)
Theorem C12_typed_error : forall e : err, In (err_name e) Tables.runtime_errors.
Proof. exact errors_are_typed. Qed.

(* a failure of the store surfaces as an execution error carrying the store's message *)
Theorem C12_balances_fault : forall sb rs msg,
  filter_query (rs_cache rs) (rs_query rs) <> [] ->
  sb (rs_ncalls rs) (CallBalances (filter_query (rs_cache rs) (rs_query rs))) = AnsError msg ->
  lift_store QueryBalanceError (run_balances_query sb rs) = Err (QueryBalanceError msg).
Proof. exact balances_fault. Qed.

Theorem C12_metadata_fault : forall sb flag vs ty f rs account key msg,
  fc_caller f = FnVarOriginMeta ->
  eval_exprs vs (fc_args f) = Ok [VAccount account; VString key] ->
  sb (rs_ncalls rs) (CallMeta account key) = AnsError msg ->
  handle_origin sb flag vs ty f rs = Err (QueryMetadataError msg).
Proof. exact meta_fault. Qed.

(* "for every script that parses without errors": the hypothesis on the tree is discharged for every
   text the reference parser accepts (its derivation has no nil node: Proofs/NestedParse.v) *)
Theorem C12_no_panic_for_accepted_texts : forall text p raw sb flag,
  parse_text text = Parsed p -> store_wellbehaved sb -> forall w, run_program p raw sb flag <> Panic w.
Proof. intros text p raw sb flag H. exact (run_program_no_panic p raw sb flag (accepted_text_complete text p H)). Qed.

Print Assumptions C12_no_panic.
Print Assumptions C12_no_panic_for_accepted_texts.
Print Assumptions C12_typed_error.
Print Assumptions C12_balances_fault.

(* non-vacuity: a complete program and a well-behaved store exist; 1/0 is an error, not a panic *)
Example C12_example :
  let p := mkprogram [] [StFnCall (mkfncall norange norange "set_tx_meta" [EString norange "k"; ERatio norange 1 0])] in
  program_complete p = true /\
  run_program p [] (fun _ _ => AnsError "down") false = Err BadPortionParsingErr.
Proof. split; reflexivity. Qed.
