(* C13 - Values keep their exact meaning across literal, variable and metadata text.
   Statements only; proofs in Proofs/ConvProofs.v. Spec/Decimal.v says what a portion text denotes
   in base ten (digit strings are positional, leading zeros allowed), without reference to the model
   of the parser's conversions (Model/Conv.v), which goes through the standard library's
   DecimalString. JSON escaping of transaction metadata is glue, covered by the correspondence. *)
From Coq Require Import Ascii.
From NS Require Import Conv Decimal ConvProofs ConvRoundtrip ConvVar.

(* a portion literal n/d, p%, p.q% (one optional space around the slash, any number of digits,
   leading zeros) is converted to exactly the fraction it denotes in base ten *)
Theorem C13_portion_literal_exact : forall text n d,
  portion_denotes text = Some (n, d) -> portion_literal text = Some (n, d).
Proof. exact portion_literal_exact. Qed.

(* the same text passed as a portion VARIABLE (the interpreter's own reader) is the same fraction:
   literal and variable readings of a text cannot disagree *)
Theorem C13_portion_variable_exact : forall text n d,
  portion_denotes text = Some (n, d) -> (0 < d)%Z -> parse_portion_text text = Some (n # Z.to_pos d).
Proof. exact portion_var_exact. Qed.

(* digit strings are read in base ten whatever their length and leading zeros *)
Theorem C13_digits_base_ten : forall s n, digits_val s = Some n -> parse_int s = Some n.
Proof. exact parse_int_digits. Qed.

(* render-then-read round trips: the text a value is stored as (Value.String(), used for account
   metadata) read back as a variable of the same type yields the identical value *)
Theorem C13_number_roundtrip : forall z, parse_var TypeNumber (value_string (VNumber z)) = Ok (VNumber z).
Proof. exact number_roundtrip. Qed.
Theorem C13_string_roundtrip : forall s, parse_var TypeString (value_string (VString s)) = Ok (VString s).
Proof. exact string_roundtrip. Qed.
Theorem C13_asset_roundtrip : forall s, parse_var TypeAsset (value_string (VAsset s)) = Ok (VAsset s).
Proof. exact asset_roundtrip. Qed.
Theorem C13_account_roundtrip : forall s,
  valid_account_name s = true -> parse_var TypeAccount (value_string (VAccount s)) = Ok (VAccount s).
Proof. exact account_roundtrip. Qed.

(* a monetary value, whatever its sign and size: "ASSET amount" (asset names contain no space) *)
Theorem C13_monetary_roundtrip : forall a n,
  all_chars (fun c => negb (Ascii.eqb c " "%char)) a = true ->
  parse_var TypeMonetary (value_string (VMonetary a n)) = Ok (VMonetary a n).
Proof. exact monetary_roundtrip. Qed.
(* a portion in [0, 1]: written in lowest terms "n/d", read back as the same fraction *)
Theorem C13_portion_roundtrip : forall q, (0 <= q)%Q -> (q <= 1)%Q ->
  parse_var TypePortion (value_string (VPortion q)) = Ok (VPortion (Qred q)).
Proof. exact portion_roundtrip. Qed.

Print Assumptions C13_portion_literal_exact.
Print Assumptions C13_portion_variable_exact.
Print Assumptions C13_monetary_roundtrip.
Print Assumptions C13_portion_roundtrip.
Print Assumptions C13_number_roundtrip.

Example C13_example :
  portion_denotes "0.10%" = Some (10, 10000) /\ portion_literal "0.10%" = Some (10, 10000) /\
  portion_denotes "1 / 010" = Some (1, 10) /\ portion_denotes "08%" = Some (8, 100) /\
  parse_var TypeNumber (value_string (VNumber (- 2 ^ 70))) = Ok (VNumber (- 2 ^ 70)).
Proof. repeat split; reflexivity. Qed.
