(* C14 - The parser is total: any text yields a tree and located errors, never a crash.
   Statements only; proofs in Proofs/LexProofs.v and Proofs/RenderProofs.v.

   PARTIAL. The parser that runs is ANTLR-generated code with ANTLR's error recovery; neither is
   modelled. What is proved is about (a) the reference lexer and parser of Model/Lexer.v and
   Model/Parser.v - total Gallina functions that decide which texts are syntactically valid, against
   which acceptance (zero errors iff valid) is compared input by input - (b) the exactness of the
   positions the reference lexer computes, and (c) the model of Range.ShowOnSource: rendering cannot
   panic on a well-formed range. That the implementation itself never panics, that its error
   positions lie inside the text and that its rendering of them succeeds is observed on every
   generated input (predicate evaluated in Coq on the dumped errors), not proved. *)
From Coq Require Import Lia.
From NS Require Import Lexer Render LexProofs RenderProofs.
Open Scope Z_scope.

(* every lexical error of the reference lexer is reported at a position inside the text: on an
   existing line, at a column that does not exceed that line's length (in code points) *)
Theorem C14_lexical_errors_inside : forall l : list Z,
  Forall (fun e : Z * Z =>
            let lens := line_lengths l 0 in
            0 <= fst e < Z.of_nat (List.length lens) /\ 0 <= snd e <= nth (Z.to_nat (fst e)) lens 0)
         (snd (lex_text l)).
Proof. exact lex_errors_inside. Qed.

(* ... and precisely at the position of a character of the text *)
Theorem C14_lexical_errors_located : forall l : list Z, Forall (err_located l) (snd (lex_text l)).
Proof. exact (fun l => proj2 (lex_positions_exact l)). Qed.

(* rendering an error against the source performs only in-bounds slicing and non-negative repeats
   when its range is well formed, whatever the lines (byte lengths) *)
Theorem C14_render_safe : forall (lens : list Z) (r : range),
  Forall (fun x => 0 <= x) lens -> range_wf lens r -> show_on_source_ok lens r = true.
Proof. exact render_safe. Qed.

Print Assumptions C14_lexical_errors_inside.
Print Assumptions C14_render_safe.

Example C14_example :
  (* "a#\n#" : two unrecognised characters, on lines 0 and 1 *)
  snd (lex_text [97; 35; 10; 35]) = [(0, 1); (1, 0)]
  /\ show_on_source_ok [2; 1] (R 0 1 0 1) = true
  /\ show_on_source_ok [2; 1] (R 2 0 2 1) = false      (* a line that does not exist *)
  /\ range_wf [2; 1] (R 0 1 1 0).
Proof. repeat split; try reflexivity; cbn; lia. Qed.
