(* C14 - The parser is total: any text yields a tree and located errors, never a crash.
   Statements only; proofs in Proofs/LexProofs.v, Proofs/ParserSound.v, Proofs/ParserComplete.v and
   Proofs/RenderProofs.v.

   PARTIAL. The parser that runs is ANTLR-generated code with ANTLR's error recovery; neither is
   modelled. What is proved is about (a) the reference lexer and parser of Model/Lexer.v and
   Model/Parser.v - total Gallina functions PROVED to decide exactly the language of the declarative
   grammar Spec/Grammar.v (C14_accepts_iff_valid: sound and complete, fuel always sufficient), against
   which acceptance (zero errors iff valid) is compared input by input - (b) the exactness of the
   positions the reference lexer computes, and (c) the model of Range.ShowOnSource: rendering cannot
   panic on a well-formed range. That the implementation itself never panics, that its error
   positions lie inside the text and that its rendering of them succeeds is observed on every
   generated input (predicate evaluated in Coq on the dumped errors), not proved. *)
From Coq Require Import Lia.
From NS Require Import Lexer Parser Grammar Render LexProofs RenderProofs ParserSound ParserComplete.
Open Scope Z_scope.

(* every lexical error of the reference lexer is reported at a position inside the text: on an
   existing line, at a column that does not exceed that line's length (in code points) *)
Theorem C14_lexical_errors_inside : forall l : list Z,
  Forall (fun e : Z * Z =>
            let lens := line_lengths l 0 in
            0 <= fst e < Z.of_nat (List.length lens) /\ 0 <= snd e <= nth (Z.to_nat (fst e)) lens 0)
         (snd (lex_text l)).
Proof. exact lex_errors_inside. Qed.

(* ... and precisely at the position of a character of the text *)
Theorem C14_lexical_errors_located : forall l : list Z, Forall (err_located l) (snd (lex_text l)).
Proof. exact (fun l => proj2 (lex_positions_exact l)). Qed.

(* rendering an error against the source performs only in-bounds slicing and non-negative repeats
   when its range is well formed, whatever the lines (byte lengths) *)
Theorem C14_render_safe : forall (lens : list Z) (r : range),
  Forall (fun x => 0 <= x) lens -> range_wf lens r -> show_on_source_ok lens r = true.
Proof. exact render_safe. Qed.

(* "every syntactically valid script is accepted, every other input is rejected": a text is VALID when it
   lexes without error into a token sequence that the grammar (Spec/Grammar.v: one constructor per
   alternative of Numscript.g4, nothing about how to parse) derives. The reference parser accepts
   exactly the valid texts - for every text, of any length and nesting depth: soundness
   (ParserSound.v), completeness with the lookahead decisions justified by FIRST / FOLLOW facts of
   the grammar and the initial fuel shown sufficient (ParserComplete.v). Accepted = Parsed, or
   ParsedOutOfRange when some integer literal does not fit the implementation's int (finding F-D10). *)
Theorem C14_accepts_iff_valid : forall text, parse_text text <> Rejected <-> valid_text text.
Proof. exact accepts_iff_valid. Qed.

(* at the level of tokens: the reference parser decides the grammar *)
Theorem C14_parser_decides_grammar : forall ts p, DProgram ts p <-> exists n, parse_tokens ts = Some (p, n).
Proof. exact parser_decides. Qed.

Print Assumptions C14_lexical_errors_inside.
Print Assumptions C14_accepts_iff_valid.
Print Assumptions C14_parser_decides_grammar.
Print Assumptions C14_render_safe.

Example C14_example :
  (* "a#\n#" : two unrecognised characters, on lines 0 and 1 *)
  snd (lex_text [97; 35; 10; 35]) = [(0, 1); (1, 0)]
  /\ show_on_source_ok [2; 1] (R 0 1 0 1) = true
  /\ show_on_source_ok [2; 1] (R 2 0 2 1) = false      (* a line that does not exist *)
  /\ range_wf [2; 1] (R 0 1 1 0).
Proof. repeat split; try reflexivity; cbn; lia. Qed.
