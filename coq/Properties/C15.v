(* C15 - Parsing recovers exactly the script written - structure, values and positions.
   Statements only; proofs in Proofs/LexProofs.v and Proofs/ParserSound.v.

   Spec/Grammar.v is Numscript.g4 written as a declarative relation between token sequences and
   trees (DProgram, DStmt, DSource, DDest, DExpr, ...: one constructor per alternative, + and - left
   associative, the range of every node given by its first and last token). Proved for every text:
   (1) the reference lexer's tokens are pieces of the input, in order and without overlap, each at
       exactly the position (line feeds before it, code points since the last one) of its first
       character;
   (2) whatever the reference parser accepts, the tree it returns is a derivation of exactly those
       tokens: statement order, source and destination nesting, caps vs. addresses, declarations
       and origins, literal values;
   (3) in every derivation the range of an expression, source, destination, call or statement
       starts where its first token starts and ends where its last token ends.
   PARTIAL in that the parser that runs is ANTLR-generated code: it is tied to the reference parser
   by correspondence on every generated script and layout (dumped tree = generator's tree with the
   printer's spans = reference parser's tree, evaluated in Coq), and its lexer is compared token by
   token with the reference lexer.
   (6) the grammar is unambiguous and the reference parser complete: a derivable token sequence has
       exactly one tree, and that is the tree the reference parser returns (Proofs/ParserComplete.v;
       `{ remaining ... }` is read by the first alternative, destAllotment, as ANTLR does). *)
From NS Require Import Lexer Parser Grammar LexProofs ParserSound LexSorted NestedParse Navigation ParserComplete.
Open Scope Z_scope.

Theorem C15_token_positions_exact : forall l : list Z, tiled [] l (fst (lex_text l)).
Proof. exact (fun l => proj1 (lex_positions_exact l)). Qed.

Theorem C15_parser_sound : forall text p,
  parse_text text = Parsed p -> DProgram (fst (lex_text text)) p /\ snd (lex_text text) = [].
Proof. exact parse_text_sound. Qed.

Theorem C15_expression_range : forall ts e, DExpr ts e -> bounds ts (expr_rng e).
Proof. exact (proj2 expr_bounds). Qed.
Theorem C15_source_range : forall ts s, DSource ts s -> bounds ts (source_rng s).
Proof. exact source_bounds. Qed.
Theorem C15_destination_range : forall ts d, DDest ts d -> bounds ts (dest_rng d).
Proof. exact dest_bounds. Qed.
Theorem C15_statement_range : forall ts s, DStmt ts s -> bounds ts (stmt_rng s).
Proof. exact stmt_bounds. Qed.

(* (4) tokens do not span lines and come in order: each starts at or after the end - its line, its
       column plus its length - of the one before (no token rule of the grammar matches a line feed) *)
Theorem C15_tokens_single_line : forall l : list Z, Forall (fun t => Forall (fun c => (c =? 10) = false) (tk_text t)) (fst (lex_text l)).
Proof. exact lex_tokens_single_line. Qed.
Theorem C15_tokens_in_order : forall l : list Z, ordered_from (0, 0) (fst (lex_text l)).
Proof. exact lex_tokens_ordered. Qed.

(* (5) in the tree of every text the reference parser accepts, the range of each node encloses the
       ranges of the variable uses and callee names below it *)
Theorem C15_ranges_nested : forall text p, parse_text text = Parsed p -> nested p = true.
Proof. exact (fun text p H => proj1 (accepted_text_nested text p H)). Qed.

(* (6) one tree per token sequence, and the reference parser returns it *)
Theorem C15_grammar_unambiguous : forall ts p p', DProgram ts p -> DProgram ts p' -> p = p'.
Proof. exact grammar_unambiguous. Qed.
Theorem C15_parser_complete : forall ts p, DProgram ts p -> exists n, parse_tokens ts = Some (p, n).
Proof. exact parse_tokens_complete. Qed.

Print Assumptions C15_token_positions_exact.
Print Assumptions C15_grammar_unambiguous.
Print Assumptions C15_parser_complete.
Print Assumptions C15_tokens_single_line.
Print Assumptions C15_tokens_in_order.
Print Assumptions C15_ranges_nested.
Print Assumptions C15_parser_sound.
Print Assumptions C15_statement_range.

(* "é" is one column, whatever its length in bytes; a comment and a line break move the position *)
Example C15_example :
  map (fun t => (tk_line t, tk_col t, tk_len t))
      (fst (lex_text [34; 233; 34; 32; 47; 42; 32; 42; 47; 32; 64; 97; 10; 32; 53; 48; 37])) (* "é" /* */ @a \n 50% *)
  = [(0, 0, 3); (0, 10, 2); (1, 1, 3)].
Proof. reflexivity. Qed.

(* non-vacuity: `send [USD 1+2] (source=@a destination=@b)` is accepted; the amount is (1+2) *)
Example C15_parse_example :
  match parse_text (cp "send [USD 1+2] (source=@a destination=@b)") with
  | Parsed p => match p_stmts p with
                | [StSend r (SVLit _ (EMonetary _ _ (EInfix _ OpPlus (ENumber _ 1) (ENumber _ 2)))) (SAccount _) (DAccount _)] => r = R 0 0 0 41
                | _ => False
                end
  | _ => False
  end.
Proof. vm_compute. reflexivity. Qed.
