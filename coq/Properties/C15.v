(* C15 - Parsing recovers exactly the script written - structure, values and positions.
   Statements only; proofs in Proofs/LexProofs.v.

   PARTIAL. Proved for every text: the reference lexer's tokens are pieces of the input, in order
   and without overlap, each at exactly the position (line feeds before it, code points since the
   last one) of its first character - the positions every range of the tree is built from
   (Model/Parser.v: first token's start to last token's end). That the ANTLR-generated parser
   recovers the structure and values written is established by correspondence on every generated
   script and layout: dumped tree = generator's tree with the printer's spans = reference parser's
   tree (three-way, evaluated in Coq). *)
From NS Require Import Lexer LexProofs.
Open Scope Z_scope.

Theorem C15_token_positions_exact : forall l : list Z, tiled [] l (fst (lex_text l)).
Proof. exact (fun l => proj1 (lex_positions_exact l)). Qed.

Print Assumptions C15_token_positions_exact.

(* "é" is one column, whatever its length in bytes; a comment and a line break move the position *)
Example C15_example :
  map (fun t => (tk_line t, tk_col t, tk_len t))
      (fst (lex_text [34; 233; 34; 32; 47; 42; 32; 42; 47; 32; 64; 97; 10; 32; 53; 48; 37])) (* "é" /* */ @a \n 50% *)
  = [(0, 0, 3); (0, 10, 2); (1, 1, 3)].
Proof. reflexivity. Qed.
