(* C16 - The checker never cries wolf and is exact about variable names.
   Statements only; proofs in Proofs/CheckProofs.v, NamesProofs.v, NamesScript.v, ValidProofs.v and
   ValidScript.v. Both headline claims are proved for whole programs (C16_no_false_error,
   C16_program_names); they are also judged on every run by evaluating, inside Coq, the independent specifications
   Spec/Names.v (events, unbound_uses, duplicate_decls, unused_decls) and Spec/Typing.v (valid) on
   the implementation's diagnostics; the theorems below tie the tables the checker model uses to
   the code and prove the name bookkeeping of the model. *)
From NS Require Import Check CheckProofs NamesProofs Names NamesScript Typing ValidProofs ValidScript.
From NS Require Tables.

(* severities and built-in signatures are the ones the code declares (tables regenerated from
   diagnostic_kind.go and check.go on every run) *)
Theorem C16_severity_table : Tables.severities = map (fun k => (kind_name k, severity_name (severity_of k))) all_kinds.
Proof. exact severity_table_ok. Qed.
Theorem C16_builtins_table : Tables.builtins = map (fun b => (b_name b, ctx_name (b_ctx b), b_params b, b_return b)) builtins_table.
Proof. exact builtins_table_ok. Qed.
Theorem C16_allowed_types : Tables.allowed_types = allowed_types.
Proof. exact allowed_types_ok. Qed.

(* exactness about names, expression level: checking an expression reports, in order, exactly the
   uses of names that are not declared at that point - one diagnostic each, at the use - whatever
   type the position requires; it marks every used name as used and declares nothing *)
Theorem C16_expression_names : forall e t s s',
  check_expression e t s = Ok s' ->
  unbound_diags (new_diags s s') = filter (fun u : use => negb (amem (fst u) (cs_declared s))) (uses_expr e)
  /\ cs_declared s' = cs_declared s
  /\ cs_unused s' = fold_left (fun acc (u : use) => aremove (fst u) acc) (uses_expr e) (cs_unused s).
Proof. exact check_expression_names. Qed.

(* exactness about names, whole programs. Spec/Names.v reads a script as a sequence of events in
   program order (a declaration, then the uses in its own origin's arguments, ..., then the uses of
   every statement) and says, by three independent recursions over that sequence, which uses are
   unbound (not declared at that point), which declarations are repeated, and which first
   declarations are never used afterwards. For EVERY program the checker analyses, the
   UnboundVariable / DuplicateVariable / UnusedVar diagnostics it reports are exactly those three
   lists: same names, same ranges (the token concerned), same order, each once, nothing else. *)
Theorem C16_program_names : forall p s,
  check_default p [] = Ok s ->
  unbound_diags (cs_diags s) = unbound_uses [] (events p)
  /\ dup_diags (cs_diags s) = duplicate_decls [] (events p)
  /\ unused_diags (cs_diags s) = unused_decls [] (events p).
Proof. exact check_program_names. Qed.

(* no false error, expression level: an expression that has the type its position requires by the
   declarative rules of Spec/Typing.v (declared variable types, literal forms, + and - on two numbers
   or two monetaries, [asset number] monetaries) is checked without ANY diagnostic, whatever the
   state of the checker, as long as the declarations it holds are those of the type environment *)
Theorem C16_expression_no_false_error : forall te e t s,
  agrees te s -> has_type te e t = true -> silent (check_expression e t s) s.
Proof. exact has_type_silent. Qed.

(* no false error, whole scripts: a script that is valid by the declarative static rules of
   Spec/Typing.v (every expression has the type its position requires given the declared types and
   the built-in signatures, allotment portions add up, send-all sources are bounded, declarations
   are distinct with allowed types and origins well-typed under the earlier declarations) receives
   no error-severity diagnostic *)
Theorem C16_no_false_error : forall p s,
  valid p = true -> check_default p [] = Ok s -> errors_count (cs_diags s) = O.
Proof. exact valid_no_error. Qed.

Print Assumptions C16_severity_table.
Print Assumptions C16_program_names.
Print Assumptions C16_no_false_error.
Print Assumptions C16_expression_no_false_error.
Print Assumptions C16_expression_names.

Example C16_example :
  let e := EMonetary norange (EVar (R 0 1 0 3) "a") (EVar (R 0 4 0 6) "n") in
  match check_expression e "monetary" (initial_cstate []) with
  | Ok s' => map d_kind (cs_diags s') = [DUnboundVariable "a"; DUnboundVariable "n"]
  | _ => False
  end.
Proof. reflexivity. Qed.

(* vars { number $x  number $x  number $y }  set_tx_meta("k", $z): one repeated declaration, two
   declarations never used, one unbound use *)
Example C16_program_example :
  let nd n c := mkvardecl norange (Some (R 0 c 0 (c + 2), n)) (Some (norange, "number")) None in
  let p := mkprogram [nd "x" 10; nd "x" 20; nd "y" 30]
             [StFnCall (mkfncall norange norange "set_tx_meta" [EString norange "k"; EVar (R 1 20 1 22) "z"])] in
  unbound_uses [] (events p) = [("z", R 1 20 1 22)]
  /\ duplicate_decls [] (events p) = [("x", R 0 20 0 22)]
  /\ unused_decls [] (events p) = [("x", R 0 10 0 12); ("y", R 0 30 0 32)]
  /\ match check_default p [] with Ok s => unused_diags (cs_diags s) = [("x", R 0 10 0 12); ("y", R 0 30 0 32)] | _ => False end.
Proof. vm_compute. repeat split; reflexivity. Qed.
