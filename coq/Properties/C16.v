(* C16 - The checker never cries wolf and is exact about variable names.
   Statements only; proofs in Proofs/CheckProofs.v and Proofs/NamesProofs.v. The two headline
   claims are judged on every run by evaluating, inside Coq, the independent specifications
   Spec/Names.v (events, unbound_uses, duplicate_decls, unused_decls) and Spec/Typing.v (valid) on
   the implementation's diagnostics; the theorems below tie the tables the checker model uses to
   the code and prove the name bookkeeping of the model. *)
From NS Require Import Check CheckProofs NamesProofs Names.
From NS Require Tables.

(* severities and built-in signatures are the ones the code declares (tables regenerated from
   diagnostic_kind.go and check.go on every run) *)
Theorem C16_severity_table : Tables.severities = map (fun k => (kind_name k, severity_name (severity_of k))) all_kinds.
Proof. exact severity_table_ok. Qed.
Theorem C16_builtins_table : Tables.builtins = map (fun b => (b_name b, ctx_name (b_ctx b), b_params b, b_return b)) builtins_table.
Proof. exact builtins_table_ok. Qed.
Theorem C16_allowed_types : Tables.allowed_types = allowed_types.
Proof. exact allowed_types_ok. Qed.

(* exactness about names, expression level: checking an expression reports, in order, exactly the
   uses of names that are not declared at that point - one diagnostic each, at the use - whatever
   type the position requires; it marks every used name as used and declares nothing *)
Theorem C16_expression_names : forall e t s s',
  check_expression e t s = Ok s' ->
  unbound_diags (new_diags s s') = filter (fun u : use => negb (amem (fst u) (cs_declared s))) (uses_expr e)
  /\ cs_declared s' = cs_declared s
  /\ cs_unused s' = fold_left (fun acc (u : use) => aremove (fst u) acc) (uses_expr e) (cs_unused s).
Proof. exact check_expression_names. Qed.

Print Assumptions C16_severity_table.
Print Assumptions C16_expression_names.

Example C16_example :
  let e := EMonetary norange (EVar (R 0 1 0 3) "a") (EVar (R 0 4 0 6) "n") in
  match check_expression e "monetary" (initial_cstate []) with
  | Ok s' => map d_kind (cs_diags s') = [DUnboundVariable "a"; DUnboundVariable "n"]
  | _ => False
  end.
Proof. reflexivity. Qed.
