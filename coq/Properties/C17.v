(* C17 - A clean static check means no static-class failure at run time.
   Statements only; proofs in Proofs/SoundnessProofs.v. Proved here: soundness of the checker's
   expected-type propagation for expressions (every position of a script that carries a value is an
   expression checked against a required type). The lifting to whole scripts (arity and function
   resolution, variable origins, send-all source shapes) is decided on every run by checking AND
   running each generated script and comparing the diagnostic classes with the run-time error
   class (correspondence, judged in Coq by prop_C17). *)
From NS Require Import Check Eval SoundnessProofs.

(* for every complete expression and every required type: if the checker accepts it silently (no
   diagnostic added), then under every environment binding the declared variables to values of
   their declared types, evaluation yields a value of the required type, or fails with an error
   that is NOT of the static class (type error, unbound variable/function, arity, unknown type):
   the only run-time failures left are value-dependent ones (mismatched currencies, n/0) *)
Theorem C17_expression_soundness : forall e t s s' vs,
  expr_complete e = true ->
  check_expression e t s = Ok s' -> cs_diags s' = cs_diags s ->
  env_typed (cs_declared s) vs ->
  outcome_ok t (eval_expr vs e).
Proof. exact check_expression_sound. Qed.

Print Assumptions C17_expression_soundness.

(* non-vacuity: [USD 1] + $m with $m : monetary is accepted silently and evaluates *)
Example C17_example :
  let d := mkvardecl norange (Some (norange, "m")) (Some (norange, "monetary")) None in
  let s := mkcstate false [] false [("m", d)] [] [] [] [] in
  let e := EInfix norange OpPlus (EMonetary norange (EAsset norange "USD") (ENumber norange 1)) (EVar norange "m") in
  (match check_expression e "monetary" s with Ok s' => cs_diags s' = [] | _ => False end) /\
  eval_expr [("m", VMonetary "USD" 2)] e = Ok (VMonetary "USD" 3) /\
  (match check_expression (EInfix norange OpPlus (ENumber norange 1) (EVar norange "m")) "number" s with
   | Ok s' => map d_kind (cs_diags s') = [DTypeMismatch "number" "monetary"] | _ => False end).
Proof. repeat split; reflexivity. Qed.
