(* C17 - A clean static check means no static-class failure at run time.
   Statements only; proofs in Proofs/SoundnessProofs.v (expressions) and Proofs/ScriptSound.v (whole
   scripts). The first sentence of the property is proved for whole scripts, every variable map and
   every store (C17_script_soundness), and so is the second (C17_silent_no_shape_failure), for
   environments in which no variable is bound to the account `world` (the checker sees the shape
   of the source, not the values). Both are also judged on every run by checking AND running each
   generated script (prop_C17). *)
From NS Require Import Check Eval Run SoundnessProofs ScriptSound ShapeSound Lexer Parser NestedParse.

(* whole scripts: for every complete program (what an error-free parse yields), if the checker
   reports no error-severity diagnostic then, whatever the texts given for the variables, whatever
   the store answers and whatever the feature flag, execution does not fail with a type error, an
   unbound variable or function, a wrong number of arguments or an unknown type. (A variable that
   is missing from the map or whose text does not parse fails with MissingVariableErr / a parsing
   error: the caller's inputs, not the script.) *)
Theorem C17_script_soundness : forall p s raw sb flag,
  program_complete p = true ->
  check_default p [] = Ok s -> errors_count (cs_diags s) = O ->
  match run_program p raw sb flag with
  | Err e => ~ static_err e
  | _ => True
  end.
Proof. exact check_program_sound. Qed.

(* for every complete expression and every required type: if the checker accepts it silently (no
   diagnostic added), then under every environment binding the declared variables to values of
   their declared types, evaluation yields a value of the required type, or fails with an error
   that is NOT of the static class (type error, unbound variable/function, arity, unknown type):
   the only run-time failures left are value-dependent ones (mismatched currencies, n/0) *)
Theorem C17_expression_soundness : forall e t s s' vs,
  expr_complete e = true ->
  check_expression e t s = Ok s' -> cs_diags s' = cs_diags s ->
  env_typed (cs_declared s) vs ->
  outcome_ok t (eval_expr vs e).
Proof. exact check_expression_sound. Qed.

(* whole scripts, second sentence: if the checker reports NOTHING AT ALL (no error, no warning),
   execution does not fail because of the shape of a send-all source - an allotment, @world or an
   unbounded overdraft outside any `max` -, whatever the variables, the store and the flag, provided
   no variable holds the account `world` *)
Theorem C17_silent_no_shape_failure : forall p s raw sb flag,
  check_default p [] = Ok s -> cs_diags s = [] ->
  (forall vs rs, prepare p raw sb flag = Ok (vs, rs) -> no_world_env vs) ->
  match run_program p raw sb flag with
  | Err e => ~ shape_err e
  | _ => True
  end.
Proof. exact check_silent_no_shape_failure. Qed.

(* the same for every text the reference parser accepts: no hypothesis on the tree is left *)
Theorem C17_soundness_for_accepted_texts : forall text p s raw sb flag,
  parse_text text = Parsed p ->
  check_default p [] = Ok s -> errors_count (cs_diags s) = O ->
  match run_program p raw sb flag with
  | Err e => ~ static_err e
  | _ => True
  end.
Proof. intros text p s raw sb flag H. exact (check_program_sound p s raw sb flag (accepted_text_complete text p H)). Qed.

Print Assumptions C17_expression_soundness.
Print Assumptions C17_soundness_for_accepted_texts.
Print Assumptions C17_silent_no_shape_failure.
Print Assumptions C17_script_soundness.

(* non-vacuity: [USD 1] + $m with $m : monetary is accepted silently and evaluates *)
Example C17_example :
  let d := mkvardecl norange (Some (norange, "m")) (Some (norange, "monetary")) None in
  let s := mkcstate false [] false [("m", d)] [] [] [] [] in
  let e := EInfix norange OpPlus (EMonetary norange (EAsset norange "USD") (ENumber norange 1)) (EVar norange "m") in
  (match check_expression e "monetary" s with Ok s' => cs_diags s' = [] | _ => False end) /\
  eval_expr [("m", VMonetary "USD" 2)] e = Ok (VMonetary "USD" 3) /\
  (match check_expression (EInfix norange OpPlus (ENumber norange 1) (EVar norange "m")) "number" s with
   | Ok s' => map d_kind (cs_diags s') = [DTypeMismatch "number" "monetary"] | _ => False end).
Proof. repeat split; reflexivity. Qed.

(* non-vacuity of the script-level theorem: vars { monetary $m } send $m (source = @a destination = @b)
   is complete and checked without error; the self-referencing origin of defect D20 is not *)
Example C17_script_example :
  let d := mkvardecl norange (Some (R 0 17 0 19, "m")) (Some (norange, "monetary")) None in
  let p := mkprogram [d] [StSend norange (SVLit norange (EVar (R 1 5 1 7) "m"))
                            (SAccount (EAccount norange "a")) (DAccount (EAccount norange "b"))] in
  program_complete p = true
  /\ (match check_default p [] with Ok s => errors_count (cs_diags s) = O | _ => False end)
  /\ (let self := mkvardecl norange (Some (R 0 17 0 19, "a")) (Some (norange, "account"))
                    (Some (mkfncall norange norange "meta" [EVar (R 0 27 0 29) "a"; EString norange "k"])) in
      match check_default (mkprogram [self] []) [] with
      | Ok s => errors_count (cs_diags s) = 1%nat
      | _ => False
      end).
Proof. vm_compute. repeat split; reflexivity. Qed.
