(* C18 - Editor analysis survives any text (PARTIAL on the text -> tree step).
   Statements only; proofs in Proofs/CheckProofs.v and Proofs/CheckNoPanic.v. ANTLR's error recovery
   (text -> raw tree) is not modelled: that step, and the absence of the tree shapes excluded by the
   hypothesis below, are explored by the correspondence over edited texts x every cursor position
   (a text that produces such a shape makes the model predict the crash, and is reported). *)
From Coq Require Import Permutation.
From NS Require Import Check Hover CheckProofs CheckNoPanic Lexer Parser NestedParse.

(* static analysis, symbol listing, hover and go-to-definition never panic on a raw tree -- every
   optional field possibly missing, in any combination -- as long as it has none of the four shapes
   that make the Go code dereference nil (tree_safe: no typed-nil literal, no typed-nil call, no
   expression-less account source, no address-less unbounded overdraft, no declared name without a
   type) *)
Theorem C18_check_no_panic : forall p pd perm w, tree_safe p = true -> check_program p pd perm <> Panic w.
Proof. exact check_program_no_panic. Qed.

Theorem C18_hover_no_panic : forall p pos w, tree_safe p = true -> hover_on p pos <> Panic w.
Proof. exact hover_on_no_panic. Qed.

(* analysing the same text twice yields the same multiset of diagnostics and the same declared
   symbols, whatever order the Go map of unused variables is iterated in *)
Theorem C18_check_order_independent : forall p pd perm cs,
  (forall l, Permutation (perm l) l) ->
  check_program p pd perm = Ok cs ->
  exists cs0, check_default p pd = Ok cs0 /\ Permutation (cs_diags cs) (cs_diags cs0) /\ cs_declared cs = cs_declared cs0.
Proof. exact check_order_independent. Qed.

(* for every text the reference parser accepts - not only for abstract trees - the analysis and the
   hover traversal at every position are panic-free (the tree of an accepted text has none of the
   excluded shapes: Proofs/NestedParse.v) *)
Theorem C18_accepted_text_no_panic : forall text p pd perm pos w,
  parse_text text = Parsed p -> check_program p pd perm <> Panic w /\ hover_on p pos <> Panic w.
Proof.
  intros text p pd perm pos w H. pose proof (proj2 (accepted_text_nested text p H)) as S.
  split; [exact (check_program_no_panic p pd perm w S)|exact (hover_on_no_panic p pos w S)].
Qed.

Print Assumptions C18_check_no_panic.
Print Assumptions C18_accepted_text_no_panic.
Print Assumptions C18_hover_no_panic.
Print Assumptions C18_check_order_independent.

(* non-vacuity: a tree with missing pieces everywhere is safe; the typed-nil shape is not, and the
   model predicts the crash *)
Example C18_example :
  let p := mkprogram [mkvardecl norange None (Some (norange, "number")) (Some (mkfncall norange norange "balance" [ENil]))]
                     [StSend norange SVNil SNil DNil; StNil; StSave norange SVNil ENil] in
  tree_safe p = true /\ is_ok (check_default p []) = true /\
  is_panic (check_default (mkprogram [] [StSave norange (SVLit norange ENilMonetary) ENil]) []) = true.
Proof. repeat split; reflexivity. Qed.
